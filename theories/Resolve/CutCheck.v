(** CutCheck: executable side of property C01's bonding step (no proofs).
    [dedicated_b] decides the hypothesis of [CutBonding.unique_labels_forced] on the tables the
    implementation really built; [cut_fail] compares the bonds the implementation created with
    the cut pairs the generator knows. *)
From Coq Require Import String.
From Coq Require Import List Ascii ZArith Bool.
From CGV Require Import Base.PyBase Base.PyVal Resolve.Bonding Resolve.BondingDefs Resolve.BondingCheck.
Import ListNotations.
Open Scope Z_scope.

Definition cutpair := (Z * pystr * Z * pystr)%type.   (* atom, descriptor | atom, descriptor *)
Definition cp_d (c : cutpair) : pystr := snd (fst (fst c)).
Definition cp_t (c : cutpair) : pystr := snd c.
Definition cp_u (c : cutpair) : Z := fst (fst (fst c)).
Definition cp_v (c : cutpair) : Z := snd (fst c).
Fixpoint total_cnt (d : pystr) (t : tbl) : nat :=
  match t with [] => 0%nat | (_, ds) :: r => (cnt d ds + total_cnt d r)%nat end.

Fixpoint nodup_strs (l : list pystr) : bool :=
  match l with [] => true | x :: r => negb (str_in x r) && nodup_strs r end.
Definition dedicated_b (legacy : bool) (sr tg : tbl) (L : list cutpair) : bool :=
  forallb (fun c => str_in (cp_d c) (tlookup (cp_u c) sr) && Nat.eqb (total_cnt (cp_d c) sr) 1) L
  && forallb (fun c => str_in (cp_t c) (tlookup (cp_v c) tg) && Nat.eqb (total_cnt (cp_t c) tg) 1) L
  && forallb (fun c => compat_str legacy (cp_d c) (cp_t c)) L
  && forallb (fun us => forallb (fun vt => forallb (fun d => forallb (fun t =>
        negb (compat_str legacy d t) || existsb (fun c => str_eqb (cp_d c) d && str_eqb (cp_t c) t) L)
        (snd vt)) (snd us)) tg) sr
  && nodup_strs (map cp_d L) && nodup_strs (map cp_t L).

Definition cp_eqb (c c' : cutpair) : bool :=
  Z.eqb (cp_u c) (cp_u c') && str_eqb (cp_d c) (cp_d c') && Z.eqb (cp_v c) (cp_v c') && str_eqb (cp_t c) (cp_t c').
Fixpoint remove_cp (c : cutpair) (l : list cutpair) : option (list cutpair) :=
  match l with
  | [] => None
  | x :: r => if cp_eqb c x then Some r else match remove_cp c r with Some r' => Some (x :: r') | None => None end
  end.
Fixpoint perm_b (a b : list cutpair) : bool :=
  match a with
  | [] => match b with [] => true | _ => false end
  | x :: r => match remove_cp x b with Some b' => perm_b r b' | None => false end
  end.

(** a base edge with its cut pairs; the descriptor texts of the edge that live on coarse node x *)
Definition cutedge := (Z * Z * list cutpair)%type.
Definition ce_a (e : cutedge) : Z := fst (fst e).
Definition ce_b (e : cutedge) : Z := snd (fst e).
Definition ce_L (e : cutedge) : list cutpair := snd e.

(** descriptor texts of a cut edge that live on coarse node x *)
Definition on (x : Z) (e : cutedge) : list pystr :=
  (if Z.eqb x (ce_a e) then map cp_d (ce_L e) else []) ++ (if Z.eqb x (ce_b e) then map cp_t (ce_L e) else []).

Definition disjoint_edges_b (e e' : cutedge) : bool :=
  forallb (fun x => forallb (fun d => negb (str_in d (on x e'))) (on x e)) [ce_a e; ce_b e].
Fixpoint pairwise_b {A} (f : A -> A -> bool) (l : list A) : bool :=
  match l with [] => true | x :: r => forallb (f x) r && pairwise_b f r end.

(** one C01 case at the bonding step: the C03 case plus, per base edge, the cut pairs *)
Record cut_case := { cc_case : case; cc_cuts : list (Z * Z * list cutpair) }.
Definition bonds_of_edge (a b : Z) (obs : list bobs) : list cutpair :=
  flat_map (fun o => let '((a', b', u, v), (d1, d2), _) := o in
                     if Z.eqb a a' && Z.eqb b b' then [(u, d1, v, d2)] else []) obs.
(** 0 ok; 1 the generator's input does not meet the theorem's hypothesis (not judged);
    2 the implementation's bonds are not exactly the cut pairs; 9 unexpected exception *)
Definition cut_fail (c : cut_case) : nat :=
  match c_impl (cc_case c) with
  | None => 9%nat
  | Some (_, obs) =>
      let s0 := c_s0 (cc_case c) in
      if negb (forallb (fun e => let '(a, b, L) := e in
                 negb (Z.eqb a b) && dedicated_b (c_legacy (cc_case c)) (slookup a s0) (slookup b s0) L
                 && Nat.eqb (length L) (order_sum a b (c_edges (cc_case c)))) (cc_cuts c)
               && pairwise_b disjoint_edges_b (cc_cuts c)) then 1%nat
      else if forallb (fun e => let '(a, b, L) := e in perm_b (bonds_of_edge a b obs) L) (cc_cuts c)
              && Nat.eqb (length obs) (fold_right (fun e acc => (length (snd e) + acc)%nat) 0%nat (cc_cuts c))
           then 0%nat else 2%nat
  end.
Definition cut_corr (c : cut_case) : bool := corr_ok (cc_case c).
