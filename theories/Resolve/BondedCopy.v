(** BondedCopy: the template copy survives the BONDING stage for arbitrary dictionaries: a bond joins an atom of the fragment graph
    of its source coarse node with an atom of the fragment graph of its target coarse node (C03's balance invariant), those carry
    the fragid of their coarse node, so for a coarse graph whose base edges join DIFFERENT coarse nodes no bond joins two atoms of
    one template copy - and every other edge leaves the bonding stage as it entered it (EdgeCopyGen.bonding_keeps_edges). *)
From Coq Require Import String.
From Coq Require Import List Ascii ZArith Bool Lia Permutation.
From CGV Require Import Base.PyBase Base.PyVal Base.NxGraph Resolve.Bonding Resolve.BondingDefs Resolve.BondingProofs Resolve.GraphOps
     Resolve.MapProofs Resolve.CopyProofs Hydro.GraphLemmas Hydro.SquashDefs.
From CGV Require Resolve.SortGraphProofs Hydro.SquashProofs Resolve.NameProofs Resolve.NameStep Resolve.VirtualProofs.
From CGV Require Import Resolve.Pipeline Resolve.PipelineFull.
From CGV Require Hydro.Hydrogens Hydro.Squash Stereo.EzImpl.
From CGV Require Import Compose.GraphFacts Compose.GraphAdj Compose.CutDisc Resolve.EdgeCopyGen.
Import ListNotations.
Open Scope Z_scope.

(** ---------------------------------------------------------------- bond endpoints come from the initial tables *)
Lemma tlookup_in_keys u t : tlookup u t <> [] -> In u (map fst t).
Proof.
  induction t as [|[v ds] r IH]; cbn; intros H; [contradiction|]. destruct (Z.eqb_spec u v) as [->|N]; [now left|right; auto].
Qed.
Lemma cnt_pos_nonempty d l : (1 <= cnt d l)%nat -> l <> [].
Proof. destruct l; cbn; [lia|discriminate]. Qed.
Lemma uses_ge_src a u d : forall l b, In b l -> b_src b = a -> b_u b = u -> b_d1 b = d -> (1 <= uses a u d l)%nat.
Proof.
  induction l as [|x r IH]; intros b Hb Ea Eu Ed; [destruct Hb|]. destruct Hb as [->|Hb]; cbn [uses].
  - unfold uses_src. rewrite Ea, Eu, Ed, !Z.eqb_refl, str_eqb_refl. cbn. lia.
  - specialize (IH b Hb Ea Eu Ed). lia.
Qed.
Lemma uses_ge_tgt a u d : forall l b, In b l -> b_tgt b = a -> b_v b = u -> b_d2 b = d -> (1 <= uses a u d l)%nat.
Proof.
  induction l as [|x r IH]; intros b Hb Ea Eu Ed; [destruct Hb|]. destruct Hb as [->|Hb]; cbn [uses].
  - unfold uses_tgt. rewrite Ea, Eu, Ed, !Z.eqb_refl, str_eqb_refl. cbn. lia.
  - specialize (IH b Hb Ea Eu Ed). lia.
Qed.
Theorem bond_in_tables legacy arom edges s0 s' bonds : wf_edges edges -> wf_state s0 ->
  edges_from_bonding legacy arom edges s0 [] = Ok (s', bonds) ->
  forall b, In b bonds -> b_src b <> b_tgt b /\ In (b_u b) (map fst (slookup (b_src b) s0)) /\ In (b_v b) (map fst (slookup (b_tgt b) s0)).
Proof.
  intros We W H b Hb. destruct (fold_inv legacy arom edges s0 [] s' bonds We W H) as (_ & Bal & new & En & _ & F).
  cbn [app] in En. subst new. rewrite Forall_forall in F. destruct (F b Hb) as (Hin & _ & _).
  split; [|split].
  - apply in_map_iff in Hin as [[[x y] o] [E He]]. cbn [fst] in E. inversion E; subst. unfold wf_edges in We. rewrite Forall_forall in We.
    exact (We _ He).
  - apply tlookup_in_keys. apply (cnt_pos_nonempty (b_d1 b)). pose proof (Bal (b_src b) (b_u b) (b_d1 b)) as X. unfold bal in X. cbn [uses] in X.
    pose proof (uses_ge_src (b_src b) (b_u b) (b_d1 b) bonds b Hb eq_refl eq_refl eq_refl). lia.
  - apply tlookup_in_keys. apply (cnt_pos_nonempty (b_d2 b)). pose proof (Bal (b_tgt b) (b_v b) (b_d2 b)) as X. unfold bal in X. cbn [uses] in X.
    pose proof (uses_ge_tgt (b_tgt b) (b_v b) (b_d2 b) bonds b Hb eq_refl eq_refl eq_refl). lia.
Qed.

(** ---------------------------------------------------------------- the tables are read from the fragment graphs *)
Lemma table_keys g t : table_of g = Ok t -> map fst t = map fst (get_node_attributes g (S "bonding")).
Proof.
  unfold table_of. generalize (get_node_attributes g (S "bonding")). intros l. revert t. induction l as [|x r IH]; intros t H; cbn [GraphOps.map_res] in H.
  - inversion H. reflexivity.
  - destruct (strs_of (snd x)); cbn [bind] in H; [|discriminate H]. destruct (GraphOps.map_res _ r) eqn:E; cbn [bind] in H; [|discriminate H].
    inversion H; subst. cbn. f_equal. now apply IH.
Qed.
Lemma tables_lookup : forall fgs s0 a, tables_of fgs = Ok s0 ->
  slookup a s0 = [] \/ exists g, fg_get a fgs = Some g /\ table_of g = Ok (slookup a s0).
Proof.
  unfold tables_of. induction fgs as [|[k g] r IH]; intros s0 a H; cbn [GraphOps.map_res fst snd] in H.
  - inversion H. now left.
  - destruct (table_of g) as [t|] eqn:Et; cbn [bind fst snd] in H; [|discriminate H].
    destruct (GraphOps.map_res _ r) as [s1|] eqn:E; cbn [bind] in H; [|discriminate H]. inversion H; subst. cbn [slookup fg_get].
    destruct (Z.eqb a k); [right; eauto|]. now apply IH.
Qed.
Lemma gna_keys_in g a x : In x (map fst (get_node_attributes g a)) -> In x (node_keys g).
Proof.
  intros H. apply in_map_iff in H as [[k v] [<- Hin]]. destruct (gna_in _ _ _ _ Hin) as [r [Hr [<- _]]]. cbn [fst]. unfold node_keys. now apply in_map.
Qed.
Lemma tables_wf fgs s0 : (forall k g, In (k, g) fgs -> NoDup (node_keys g)) -> tables_of fgs = Ok s0 -> wf_state s0.
Proof.
  intros Hn H a. destruct (tables_lookup fgs s0 a H) as [->|[g [Hg Ht]]]; [constructor|].
  rewrite (table_keys _ _ Ht). apply NameStep.gna_keys_nodup2. apply (Hn a g). now apply NameStep.fg_get_in.
Qed.

(** ---------------------------------------------------------------- the fragment graphs of the instantiation loop *)
(** every node of the fragment graph of coarse key k is a node of the fine graph recording exactly [k] *)
Definition fg_inv (mol : graph) (fgs : fgraphs) : Prop :=
  forall k g, In (k, g) fgs -> NoDup (node_keys g) /\
    forall n, In n (node_keys g) -> In n (node_keys mol) /\ node_get mol n (S "fragid") = Some (VList [VInt k]).

Lemma fg_set_in k g : forall fgs x h, In (x, h) (fg_set k g fgs) -> (x = k /\ h = g) \/ In (x, h) fgs.
Proof.
  induction fgs as [|[k' g'] r IH]; cbn [fg_set]; intros x h H.
  - destruct H as [H|[]]. inversion H; auto.
  - destruct (Z.eqb_spec k k') as [->|N].
    + destruct H as [H|H]; [inversion H; auto|right; now right].
    + destruct H as [H|H]; [right; now left|]. destruct (IH x h H) as [?|?]; [now left|right; now right].
Qed.
Lemma frag_graph_keys mol1 tgt corr mn name gf : frag_graph_of mol1 tgt corr mn name = Ok gf -> wf_template tgt ->
  NoDup (node_keys gf) /\ forall x, In x (node_keys gf) -> exists n, In n tgt /\ x = map_get corr (nk n).
Proof.
  intros H [Hn Hadj]. unfold frag_graph_of in H.
  match type of H with bind ?s _ = _ => destruct s as [g0|] eqn:E; cbn [bind] in H; [|discriminate H] end. inversion H; subst gf. clear H.
  assert (forall l acc g1, (forall n, In n l -> In n tgt) ->
            GraphOps.fold_res (fun acc n => let new := map_get corr (nk n) in a <- node_attrs mol1 new ;;
               Ok (add_node acc new (aset (S "mapping") (mapping_val name (nk n)) (aset (S "fragid") (VList [VInt mn]) a)))) l acc = Ok g1 ->
            (NoDup (node_keys acc) -> NoDup (node_keys g1)) /\
            forall x, In x (node_keys g1) -> In x (node_keys acc) \/ exists n, In n tgt /\ x = map_get corr (nk n)) as Hl.
  { induction l as [|n r IH]; intros acc g1 Hin H; cbn [GraphOps.fold_res] in H; [inversion H; subst; split; auto|].
    cbv zeta in H. destruct (node_attrs mol1 (map_get corr (nk n))) as [a|]; cbn [bind] in H; [|discriminate H].
    destruct (IH _ _ (fun x Hx => Hin x (or_intror Hx)) H) as [N K]. split.
    - intros Ha. apply N. now apply NameStep.add_node_nodup.
    - intros x Hx. destruct (K x Hx) as [Hk|Hk]; [|now right]. rewrite keys_add_node in Hk.
      destruct (has_node acc _); [now left|]. apply in_app_iff in Hk as [Hk|[<-|[]]]; [now left|]. right. exists n. split; [apply Hin; now left|reflexivity]. }
  destruct (Hl tgt gempty g0 (fun n Hn' => Hn') E) as [N0 K0].
  assert (forall es g, (forall u v d, In (u, v, d) es -> In u (node_keys tgt) /\ In v (node_keys tgt)) ->
            (NoDup (node_keys g) -> NoDup (node_keys (fold_left (fun acc e => let '(u, v, d) := e in add_edge acc (map_get corr u) (map_get corr v) d) es g))) /\
            forall x, In x (node_keys (fold_left (fun acc e => let '(u, v, d) := e in add_edge acc (map_get corr u) (map_get corr v) d) es g)) ->
                      In x (node_keys g) \/ exists n, In n tgt /\ x = map_get corr (nk n)) as He.
  { induction es as [|[[u v] d] r IH]; intros g Hes; cbn [fold_left]; [split; auto|].
    destruct (IH (add_edge g (map_get corr u) (map_get corr v) d) (fun a b c Hc => Hes a b c (or_intror Hc))) as [N K]. split.
    - intros Hg. apply N. now apply NameStep.add_edge_nodup.
    - intros x Hx. destruct (K x Hx) as [Hk|Hk]; [|now right]. apply in_keys_add_edge in Hk as [Hk|[ -> | -> ]]; [now left| |];
        destruct (Hes u v d (or_introl eq_refl)) as [Hu Hv]; right; unfold node_keys in Hu, Hv.
      + apply in_map_iff in Hu as [n [<- Hn']]. eauto.
      + apply in_map_iff in Hv as [n [<- Hn']]. eauto. }
  destruct (He (edges_data tgt) g0 Hadj) as [N1 K1]. split; [apply N1, N0; constructor|].
  intros x Hx. destruct (K1 x Hx) as [Hk|Hk]; [|exact Hk]. destruct (K0 x Hk) as [[]|Hk']. exact Hk'.
Qed.

Lemma disc_step_fg_inv fd mol fgs mn mol2 fgs2 : tmpl_dict fd -> fg_inv mol fgs -> disc_step fd (mol, fgs) mn = Ok (mol2, fgs2) -> fg_inv mol2 fgs2.
Proof.
  intros Hd Hi H. pose proof (disc_step_keeps _ _ _ _ _ _ Hd H) as Hkeep.
  assert (forall k g, In (k, g) fgs -> NoDup (node_keys g) /\
            forall n, In n (node_keys g) -> In n (node_keys mol2) /\ node_get mol2 n (S "fragid") = Some (VList [VInt k])) as Hold.
  { intros k g Hg. destruct (Hi k g Hg) as [Nd Hn]. split; [exact Nd|]. intros n Hin. destruct (Hn n Hin) as [Hm Hf].
    destruct (Hkeep n Hm) as (K & A & _). split; [exact K|]. rewrite <- Hf. unfold node_get. unfold node_attrs in A.
    destruct (gfind n mol2), (gfind n mol); try discriminate A; [inversion A as [Y]; now rewrite Y|reflexivity]. }
  unfold disc_step in H.
  destruct (aget (S "fragname") (na mn)) as [fv|] eqn:Hf; cbn [of_option bind] in H; [|discriminate H].
  destruct (lookup_fragment fd fv) as [[name frag]|] eqn:Hl.
  - destruct (lookup_fragment_get _ _ _ _ Hl) as [_ Hg]. pose proof (Hd _ _ Hg) as Hw.
    assert (disc_step fd (mol, fgs) mn = Ok (mol2, fgs2)) as H' by (unfold disc_step; rewrite Hf; cbn [of_option bind]; rewrite Hl; exact H).
    destruct (disc_step_copy _ _ _ _ _ _ _ _ _ Hf Hl (wf_tmpl_template _ Hw) H') as [off [fo [Ho Hc]]].
    destruct (merge_graphs mol frag) as [[mol1 corr]|] eqn:Hm; cbn [bind] in H; [|discriminate H].
    destruct (frag_graph_of mol1 frag corr (nk mn) name) as [gf|] eqn:Eg; cbn [bind] in H; [|discriminate H]. inversion H; subst mol2 fgs2. clear H.
    destruct (merge_graphs_corr _ _ _ _ Hm) as [off' [fo' [Ho' Ec]]]. rewrite Ho in Ho'. inversion Ho'; subst off' fo' corr.
    destruct (frag_graph_keys _ _ _ _ _ _ Eg (wf_tmpl_template _ Hw)) as [Ng Kg].
    intros k g Hin. apply fg_set_in in Hin as [[ -> -> ]|Hin]; [|now apply Hold].
    split; [exact Ng|]. intros x Hx. destruct (Kg x Hx) as [n [Hn ->]]. destruct (Hc n Hn) as [a' [_ A]].
    split; [apply gfind_has; eapply node_attrs_has; exact A|].
    unfold node_get. unfold node_attrs in A. destruct (gfind _ _) as [r|]; [|discriminate A]. inversion A as [Y]. rewrite Y. apply stamped_fragid.
  - destruct (virtual_ok mn); cbn [bind] in H; [|discriminate H]. inversion H; subst. exact Hi.
Qed.
Theorem disconnected_fg_inv fd meta mol fgs : tmpl_dict fd -> resolve_disconnected fd meta = Ok (mol, fgs) -> fg_inv mol fgs.
Proof.
  intros Hd. unfold resolve_disconnected. assert (fg_inv gempty []) as H0 by (intros k g []).
  revert H0. generalize (@gempty) (@nil (Z * graph)). revert mol fgs.
  induction meta as [|mn r IH]; intros mol fgs m0 f0 H0 H; cbn [GraphOps.fold_res] in H; [inversion H; now subst|].
  destruct (disc_step fd (m0, f0) mn) as [[m1 f1]|] eqn:E; cbn [bind] in H; [|discriminate H].
  exact (IH _ _ _ _ (disc_step_fg_inv _ _ _ _ _ _ Hd H0 E) H).
Qed.

(** ---------------------------------------------------------------- node attributes through the bonding stage *)
Lemma node_get_gupdate_na k f g n key : (forall x, nk (f x) = nk x) -> (forall x, na (f x) = na x) ->
  node_get (gupdate k f g) n key = node_get g n key.
Proof.
  intros Hk Ha. unfold node_get. rewrite gfind_gupdate by exact Hk. destruct (Z.eqb n k); [|reflexivity].
  destruct (gfind n g); cbn [option_map]; [now rewrite Ha|reflexivity].
Qed.
Lemma node_get_snoc_empty g k n key : node_get (g ++ [{| nk := k; na := []; nadj := [] |}]) n key = node_get g n key.
Proof. unfold node_get. rewrite gfind_app_fresh. destruct (gfind n g); [reflexivity|]. cbn [nk]. destruct (Z.eqb k n); reflexivity. Qed.
Lemma node_get_add_edge_any g u v d n key : node_get (add_edge g u v d) n key = node_get g n key.
Proof.
  unfold add_edge. rewrite !node_get_gupdate_na by reflexivity.
  destruct (has_node g u); destruct (has_node _ v); rewrite ?node_get_snoc_empty; reflexivity.
Qed.
Lemma apply_bond_node_get aa mol b mol' n key : key <> S "hcount" -> apply_bond aa mol b = Ok mol' -> node_get mol' n key = node_get mol n key.
Proof.
  intros Nk. unfold apply_bond. intros H. rewrite <- (node_get_add_edge_any mol (b_u b) (b_v b) (bond_attrs b) n key).
  destruct aa; [|inversion H; reflexivity]. revert H. generalize (add_edge mol (b_u b) (b_v b) (bond_attrs b)). generalize [b_u b; b_v b].
  induction l as [|x r IH]; intros g H; cbn [GraphOps.fold_res] in H; [inversion H; reflexivity|].
  match type of H with bind ?s _ = _ => destruct s as [g1|] eqn:E; cbn [bind] in H; [|discriminate H] end.
  rewrite (IH _ H). clear -E Nk.
  destruct (node_get g x (S "element")) as [el|]; cbn [of_option bind] in E; [|discriminate E].
  destruct (pyval_eqb el (VStr (S "H"))); [inversion E; reflexivity|].
  destruct (node_get g x (S "hcount")) as [hc|]; cbn [of_option bind] in E; [|discriminate E].
  destruct (dec_hcount _ hc); cbn [bind] in E; [|discriminate E]. inversion E. now apply NameProofs.node_get_set_other2.
Qed.
Lemma bonding_node_get legacy aa meta mol fgs mol' fgs' n key : key <> S "hcount" -> bonding_step legacy aa meta mol fgs = Ok (mol', fgs') ->
  node_get mol' n key = node_get mol n key.
Proof.
  intros Nk. unfold bonding_step. destruct (bonds_of legacy meta mol fgs) as [[s1 bonds]|]; cbn [bind]; [|discriminate].
  destruct (GraphOps.fold_res (apply_bond aa) bonds mol) as [m2|] eqn:E; cbn [bind]; [|discriminate]. intros H. inversion H; subst. clear H.
  revert mol E. induction bonds as [|b r IH]; intros mol E; cbn [GraphOps.fold_res] in E; [inversion E; reflexivity|].
  destruct (apply_bond aa mol b) as [m1|] eqn:Eb; cbn [bind] in E; [|discriminate E]. rewrite (IH _ E). exact (apply_bond_node_get _ _ _ _ _ _ Nk Eb).
Qed.

(** ---------------------------------------------------------------- the template copy after the bonding stage *)
(** arbitrary dictionary of well-formed templates, arbitrary coarse graph whose base edges join different coarse nodes: after
    edges_from_bonding_descrpt every coarse node with a fragment still has its copy - an injective map cf from template atoms to
    fine nodes that record exactly [coarse key] and [(fragname, atom)], with exactly the template's edge dicts between them *)
Theorem bonded_edges_copy fd meta m1 fg1 legacy aa m2 fg2 : tmpl_dict fd -> resolve_disconnected fd meta = Ok (m1, fg1) ->
  bonding_step legacy aa meta m1 fg1 = Ok (m2, fg2) -> (forall es, base_edges meta = Ok es -> wf_edges es) ->
  forall pre mn post fv name frag, meta = pre ++ mn :: post ->
  aget (S "fragname") (na mn) = Some fv -> lookup_fragment fd fv = Some (name, frag) ->
  exists cf : Z -> Z,
    (forall a b, In a (node_keys frag) -> In b (node_keys frag) -> cf a = cf b -> a = b) /\
    (forall n, In n frag -> node_get m2 (cf (nk n)) (S "fragid") = Some (VList [VInt (nk mn)]) /\
                            node_get m2 (cf (nk n)) (S "mapping") = Some (mapping_val name (nk n)) /\
                            forall key, key <> S "fragid" -> key <> S "mapping" -> key <> S "ez_isomer_atoms" -> key <> S "hcount" ->
                                        node_get m2 (cf (nk n)) key = aget key (na n)) /\
    (forall a b, In a (node_keys frag) -> In b (node_keys frag) -> edge_attrs m2 (cf a) (cf b) = tmpl_edge frag a b).
Proof.
  intros Hd H1 H2 Hwe pre mn post fv name frag Em Hf Hl.
  destruct (disconnected_edges_copy fd meta m1 fg1 Hd H1 pre mn post fv name frag Em Hf Hl) as (cf & Inj & Hnodes & Hedges).
  exists cf. split; [exact Inj|]. split.
  - intros n Hn. destruct (Hnodes n Hn) as [A [B Ck]].
    assert (S "fragid" <> S "hcount") as N1 by (intros X; apply str_eqb_eq in X; vm_compute in X; discriminate).
    assert (S "mapping" <> S "hcount") as N2 by (intros X; apply str_eqb_eq in X; vm_compute in X; discriminate).
    rewrite (bonding_node_get _ _ _ _ _ _ _ _ _ N1 H2), (bonding_node_get _ _ _ _ _ _ _ _ _ N2 H2). split; [exact A|]. split; [exact B|].
    intros key K1 K2 K3 K4. rewrite (bonding_node_get _ _ _ _ _ _ _ _ _ K4 H2). now apply Ck.
  - intros a b Ha Hb. destruct (bonding_keeps_edges _ _ _ _ _ _ _ H2) as (s1 & bonds & Hb0 & Hkeep). rewrite Hkeep; [now apply Hedges|].
    intros bd Hbd. unfold bonds_of in Hb0. destruct (base_edges meta) as [es|] eqn:Ees; cbn [bind] in Hb0; [|discriminate Hb0].
    destruct (tables_of fg1) as [s0|] eqn:Et; cbn [bind] in Hb0; [|discriminate Hb0].
    pose proof (disconnected_fg_inv fd meta m1 fg1 Hd H1) as Hi.
    assert (wf_state s0) as Ws by (apply (tables_wf fg1); [intros k g Hg; exact (proj1 (Hi k g Hg))|exact Et]).
    destruct (bond_in_tables legacy _ es s0 s1 bonds (Hwe es eq_refl) Ws Hb0 bd Hbd) as (Nst & Hu & Hv).
    assert (forall c x, In x (map fst (slookup c s0)) -> node_get m1 x (S "fragid") = Some (VList [VInt c])) as Hfid.
    { intros c x Hx. destruct (tables_lookup fg1 s0 c Et) as [E0|[g [Hg Ht]]]; [rewrite E0 in Hx; destruct Hx|].
      rewrite (table_keys _ _ Ht) in Hx. apply gna_keys_in in Hx. apply NameStep.fg_get_in in Hg. exact (proj2 (proj2 (Hi c g Hg) x Hx)). }
    pose proof (Hfid _ _ Hu) as Fu. pose proof (Hfid _ _ Hv) as Fv.
    assert (forall t, In t (node_keys frag) -> node_get m1 (cf t) (S "fragid") = Some (VList [VInt (nk mn)])) as Fc.
    { intros t Ht. unfold node_keys in Ht. apply in_map_iff in Ht as [n [<- Hn]]. exact (proj1 (Hnodes n Hn)). }
    destruct (upair (cf a) (cf b) (b_u bd) (b_v bd)) eqn:U; [|reflexivity]. exfalso. apply Nst. apply upair_true in U.
    pose proof (Fc a Ha) as Fa. pose proof (Fc b Hb) as Fb.
    destruct U as [[X Y]|[X Y]]; rewrite X in Fa; rewrite Y in Fb; congruence.
Qed.

(** the same for the graph [fo_m2] every end-to-end step computes before squash / hydrogen completion / sorting *)
Corollary step_bonded_edges_copy legacy aa fd prev car fo : tmpl_dict fd -> resolve_step_full legacy aa fd prev car = Ok fo ->
  (forall es, base_edges (fo_meta fo) = Ok es -> wf_edges es) ->
  forall pre mn post fv name frag, fo_meta fo = pre ++ mn :: post ->
  aget (S "fragname") (na mn) = Some fv -> lookup_fragment fd fv = Some (name, frag) ->
  exists cf : Z -> Z,
    (forall a b, In a (node_keys frag) -> In b (node_keys frag) -> cf a = cf b -> a = b) /\
    (forall n, In n frag -> node_get (fo_m2 fo) (cf (nk n)) (S "fragid") = Some (VList [VInt (nk mn)]) /\
                            node_get (fo_m2 fo) (cf (nk n)) (S "mapping") = Some (mapping_val name (nk n)) /\
                            forall key, key <> S "fragid" -> key <> S "mapping" -> key <> S "ez_isomer_atoms" -> key <> S "hcount" ->
                                        node_get (fo_m2 fo) (cf (nk n)) key = aget key (na n)) /\
    (forall a b, In a (node_keys frag) -> In b (node_keys frag) -> edge_attrs (fo_m2 fo) (cf a) (cf b) = tmpl_edge frag a b).
Proof.
  intros Hd H. unfold resolve_step_full in H. cbv zeta in H.
  destruct (resolve_disconnected fd _) as [[m1 fg1]|] eqn:E1; cbn [bind] in H; [|discriminate H].
  destruct (bonding_step legacy aa _ m1 fg1) as [[m2 fg2]|] eqn:E2; cbn [bind] in H; [|discriminate H].
  destruct (Squash.squash_atoms m2) as [m3|]; cbn [bind] in H; [|discriminate H].
  destruct (if aa then Hydrogens.rebuild_h_atoms_default m3 car else Ok m3) as [m4|]; cbn [bind] in H; [|discriminate H].
  destruct (sort_nodes_by_attr m4) as [m5|]; cbn [bind] in H; [|discriminate H].
  destruct (if aa then EzImpl.annotate_ez_isomers_cgsmiles m5 else Ok m5) as [m6|]; cbn [bind] in H; [|discriminate H].
  destruct (annotate_fragments _ m6) as [f6|]; cbn [bind] in H; [|discriminate H].
  destruct (if aa then set_atom_names m6 _ f6 else Ok (m6, f6)) as [[m7 f7]|]; cbn [bind] in H; [|discriminate H].
  inversion H; subst fo. cbn [fo_meta fo_m2]. intros Hwe. exact (bonded_edges_copy fd _ m1 fg1 legacy aa m2 fg2 Hd E1 E2 Hwe).
Qed.
