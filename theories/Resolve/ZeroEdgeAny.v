(** ZeroEdgeAny: C11 for an extra order-0 EDGE between two REAL coarse nodes, stated on the RETURNED graphs of the end-to-end
    step (the style of VirtualStep.v): with and without the edge the step returns together, with the same fine graph (at every
    stage), the same coarse mapping (the same 'graph' attribute for every coarse key) and the same coarse nodes; also in the
    direction of INSERTING the edge with networkx add_edge(a, b, order=0).  Corollaries of ZeroEdgeStep.step_remove_zero_edge. *)
From Coq Require Import String.
From Coq Require Import List Ascii ZArith Bool Lia.
From CGV Require Import Base.PyBase Base.PyVal Base.NxGraph Resolve.Bonding Resolve.GraphOps Resolve.Pipeline Resolve.PipelineFull
     Resolve.MapProofs Resolve.VirtualProofs Resolve.CopyProofs Resolve.FragidProofs Resolve.VirtualStep Resolve.ZeroEdgeStep.
Import ListNotations.
Open Scope Z_scope.

(** everything a step returns except the coarse graph handed back *)
Definition same_results (fo fo' : full_out) : Prop :=
  fo_mol fo = fo_mol fo' /\ fo_fgs fo = fo_fgs fo' /\
  fo_m2 fo = fo_m2 fo' /\ fo_m3 fo = fo_m3 fo' /\ fo_m4 fo = fo_m4 fo' /\ fo_m5 fo = fo_m5 fo' /\ fo_m6 fo = fo_m6 fo'.
Lemma same_results_with_meta fo m : same_results (with_meta fo m) fo.
Proof. repeat split. Qed.

Lemma nodes_data_remove_edge g a b : NoDup (node_keys g) -> nodes_data (remove_edge g a b) = nodes_data g.
Proof.
  intros H. rewrite (remove_edge_eq g a b H). unfold nodes_data. rewrite map_map. apply map_ext. intros n. now rewrite rm_nk, rm_na.
Qed.
Lemma meta_keys prev : node_keys (meta_in prev) = node_keys prev.
Proof. unfold meta_in. apply set_from_keys. Qed.

(** removing the edge: the step still returns, with the same results and the same coarse nodes *)
Theorem step_remove_zero_edge_any legacy aa fd prev car fo' a b : NoDup (node_keys prev) -> zedge a b (meta_in prev) ->
  resolve_step_full legacy aa fd prev car = Ok fo' ->
  exists fo, resolve_step_full legacy aa fd (remove_edge prev a b) car = Ok fo /\ same_results fo fo' /\
    fo_meta fo = remove_edge (fo_meta fo') a b /\ nodes_data (fo_meta fo) = nodes_data (fo_meta fo').
Proof.
  intros Hn Hz H. pose proof (step_remove_zero_edge legacy aa fd prev car a b Hn Hz) as E. rewrite H in E.
  assert (fo_meta fo' = meta_in prev) as Hm by (rewrite step_on_eq in H; exact (step_on_meta _ _ _ _ _ _ H)).
  eexists. split; [exact E|]. split; [apply same_results_with_meta|]. cbn [with_meta fo_meta]. rewrite Hm. split; [reflexivity|].
  apply nodes_data_remove_edge. now rewrite meta_keys.
Qed.
(** putting the edge back: the converse *)
Theorem step_insert_zero_edge_any legacy aa fd prev car fo a b : NoDup (node_keys prev) -> zedge a b (meta_in prev) ->
  resolve_step_full legacy aa fd (remove_edge prev a b) car = Ok fo ->
  exists fo', resolve_step_full legacy aa fd prev car = Ok fo' /\ same_results fo fo' /\
    fo_meta fo = remove_edge (fo_meta fo') a b /\ nodes_data (fo_meta fo) = nodes_data (fo_meta fo').
Proof.
  intros Hn Hz H. pose proof (step_remove_zero_edge legacy aa fd prev car a b Hn Hz) as E. rewrite H in E.
  destruct (resolve_step_full legacy aa fd prev car) as [fo'|e] eqn:E'; [|discriminate E].
  destruct (step_remove_zero_edge_any legacy aa fd prev car fo' a b Hn Hz E') as [fo2 [E2 R]].
  rewrite H in E2. apply ok_some in E2. subst fo2. exists fo'. split; [reflexivity|exact R].
Qed.
Theorem step_zero_edge_iff_any legacy aa fd prev car a b : NoDup (node_keys prev) -> zedge a b (meta_in prev) ->
  ((exists fo', resolve_step_full legacy aa fd prev car = Ok fo') <->
   (exists fo, resolve_step_full legacy aa fd (remove_edge prev a b) car = Ok fo)).
Proof.
  intros Hn Hz. split.
  - intros [fo' H]. destruct (step_remove_zero_edge_any _ _ _ _ _ _ _ _ Hn Hz H) as [fo [E _]]. eauto.
  - intros [fo H]. destruct (step_insert_zero_edge_any _ _ _ _ _ _ _ _ Hn Hz H) as [fo' [E _]]. eauto.
Qed.
(** errors agree as well: the step without the edge raises exactly what the step with it raises *)
Theorem step_zero_edge_err legacy aa fd prev car a b e : NoDup (node_keys prev) -> zedge a b (meta_in prev) ->
  (resolve_step_full legacy aa fd prev car = Err e <-> resolve_step_full legacy aa fd (remove_edge prev a b) car = Err e).
Proof.
  intros Hn Hz. rewrite (step_remove_zero_edge legacy aa fd prev car a b Hn Hz).
  destruct (resolve_step_full legacy aa fd prev car); split; intros H; try discriminate H; exact H.
Qed.

(** ---------------------------------------------------------------- inserting the edge with networkx add_edge *)
(** a and b are not joined in g (either adjacency view) *)
Definition noedge (a b : Z) (g : graph) : Prop :=
  forall n, In n g -> (nk n = a -> adj_get b (nadj n) = None) /\ (nk n = b -> adj_get a (nadj n) = None).
Definition zero_attrs : attrs := [(S "order", VInt 0)].
Definition ad (a b : Z) (d : attrs) (n : nrec) : nrec :=
  let n1 := if Z.eqb (nk n) a then {| nk := nk n; na := na n; nadj := adj_set b d (nadj n) |} else n in
  if Z.eqb (nk n1) b then {| nk := nk n1; na := na n1; nadj := adj_set a d (nadj n1) |} else n1.
Lemma ad_nk a b d n : nk (ad a b d n) = nk n.
Proof. unfold ad. destruct (Z.eqb (nk n) a); cbn [nk]; destruct (Z.eqb (nk n) b); reflexivity. Qed.

Lemma gfind_nodup g n : NoDup (node_keys g) -> In n g -> gfind (nk n) g = Some n.
Proof.
  induction g as [|m r IH]; intros Hn Hin; [contradiction|]. inversion Hn as [|? ? Hx Hr]; subst. cbn [gfind].
  destruct Hin as [->|Hin]; [now rewrite Z.eqb_refl|].
  destruct (Z.eqb_spec (nk m) (nk n)) as [E|N]; [|now apply IH].
  exfalso. apply Hx. rewrite E. apply in_map. exact Hin.
Qed.
Lemma has_node_true g k : In k (node_keys g) -> has_node g k = true.
Proof.
  unfold has_node. induction g as [|m r IH]; cbn; intros H; [contradiction|]. destruct (Z.eqb_spec (nk m) k); [reflexivity|].
  destruct H as [H|H]; [contradiction|now apply IH].
Qed.
Lemma add_edge_eq g a b d : NoDup (node_keys g) -> In a (node_keys g) -> In b (node_keys g) -> a <> b -> noedge a b g ->
  add_edge g a b d = map (ad a b (aupdate [] d)) g.
Proof.
  intros Hn Ha Hb Nab Hne. unfold add_edge. rewrite (has_node_true g a Ha), (has_node_true g b Hb).
  assert (edge_attrs g a b = Err EKey) as ->.
  { unfold edge_attrs. apply in_map_iff in Ha as [n [En Hin]]. rewrite <- En, (gfind_nodup g n Hn Hin).
    destruct (Hne n Hin) as [H1 _]. now rewrite (H1 En). }
  rewrite (gupdate_map a _ g Hn). rewrite gupdate_map.
  - rewrite map_map. apply map_ext. intros n. unfold ad. destruct (Z.eqb (nk n) a); reflexivity.
  - unfold node_keys. rewrite map_map. erewrite map_ext; [exact Hn|]. intros n. cbn beta. destruct (Z.eqb (nk n) a); reflexivity.
Qed.
Lemma adj_del_set_none v d l : adj_get v l = None -> adj_del v (adj_set v d l) = l.
Proof.
  unfold adj_del. induction l as [|[w x] r IH]; cbn [adj_get adj_set filter fst]; intros H.
  - now rewrite Z.eqb_refl.
  - destruct (Z.eqb_spec w v) as [E|N]; [discriminate H|]. cbn [filter fst]. destruct (Z.eqb_spec w v); [contradiction|]. cbn [negb].
    f_equal. now apply IH.
Qed.
Lemma adj_set_in_none v d l d' : adj_get v l = None -> In (v, d') (adj_set v d l) -> d' = d.
Proof.
  induction l as [|[w x] r IH]; cbn [adj_get adj_set]; intros H Hin.
  - destruct Hin as [Hin|[]]. now inversion Hin.
  - destruct (Z.eqb_spec w v) as [E|N]; [discriminate H|]. destruct Hin as [Hin|Hin]; [inversion Hin; contradiction|now apply IH].
Qed.
Lemma rm_ad a b d n : a <> b -> (nk n = a -> adj_get b (nadj n) = None) -> (nk n = b -> adj_get a (nadj n) = None) ->
  rm a b (ad a b d n) = n.
Proof.
  intros Nab Ha Hb. destruct n as [k at0 adj]. cbn [nk na nadj] in *. unfold rm, ad, VirtualStep.adjdel. cbn [nk na nadj].
  destruct (Z.eqb k a) eqn:Ea; destruct (Z.eqb k b) eqn:Eb; cbn [nk na nadj]; rewrite ?Ea, ?Eb; cbn [nk na nadj]; rewrite ?Ea, ?Eb; cbn [nk na nadj].
  - apply Z.eqb_eq in Ea, Eb. congruence.
  - apply Z.eqb_eq in Ea. now rewrite (adj_del_set_none b d adj (Ha Ea)).
  - apply Z.eqb_eq in Eb. now rewrite (adj_del_set_none a d adj (Hb Eb)).
  - reflexivity.
Qed.
Lemma add_edge_keys g a b d : NoDup (node_keys g) -> In a (node_keys g) -> In b (node_keys g) -> a <> b -> noedge a b g ->
  node_keys (add_edge g a b d) = node_keys g.
Proof.
  intros Hn Ha Hb Nab Hne. rewrite (add_edge_eq g a b d Hn Ha Hb Nab Hne). unfold node_keys. rewrite map_map. apply map_ext. intros n. apply ad_nk.
Qed.
(** networkx: G.add_edge(a, b, **d) followed by G.remove_edge(a, b) restores G when a, b are nodes that were not joined *)
Theorem remove_add_edge g a b d : NoDup (node_keys g) -> In a (node_keys g) -> In b (node_keys g) -> a <> b -> noedge a b g ->
  remove_edge (add_edge g a b d) a b = g.
Proof.
  intros Hn Ha Hb Nab Hne. rewrite remove_edge_eq by (now rewrite add_edge_keys).
  rewrite (add_edge_eq g a b d Hn Ha Hb Nab Hne), map_map. rewrite <- (map_id g) at 2. apply map_ext_in. intros n Hin.
  destruct (Hne n Hin) as [H1 H2]. now apply rm_ad.
Qed.
Lemma zedge_add_edge g a b : NoDup (node_keys g) -> In a (node_keys g) -> In b (node_keys g) -> a <> b -> noedge a b g ->
  zedge a b (meta_in (add_edge g a b zero_attrs)).
Proof.
  intros Hn Ha Hb Nab Hne. rewrite meta_in_closed by (now rewrite add_edge_keys).
  rewrite (add_edge_eq g a b _ Hn Ha Hb Nab Hne), map_map. intros n' Hin. apply in_map_iff in Hin as [n [<- Hin]].
  destruct (Hne n Hin) as [H1 H2].
  assert (nk (upd_from (S "fragname") (S "atomname") (ad a b (aupdate [] zero_attrs) n)) = nk n) as Ek
    by (unfold upd_from; destruct (aget _ _); cbn [nk]; apply ad_nk).
  assert (nadj (upd_from (S "fragname") (S "atomname") (ad a b (aupdate [] zero_attrs) n)) = nadj (ad a b (aupdate [] zero_attrs) n)) as Ea
    by (unfold upd_from; destruct (aget _ _); reflexivity).
  rewrite Ek, Ea. unfold ad.
  destruct (Z.eqb (nk n) a) eqn:Ta; [apply Z.eqb_eq in Ta|apply Z.eqb_neq in Ta]; cbn [nk nadj na];
    (destruct (Z.eqb (nk n) b) eqn:Tb; [apply Z.eqb_eq in Tb|apply Z.eqb_neq in Tb]); cbn [nk nadj na]; (split; intros E d Hd);
    try contradiction; try congruence.
  - rewrite (adj_set_in_none _ _ _ d (H1 E) Hd). reflexivity.
  - rewrite (adj_set_in_none _ _ _ d (H2 E) Hd). reflexivity.
Qed.

(** C11, insertion form: joining two nodes of the coarse graph that were not joined by an edge of order 0 (networkx
    add_edge(a, b, order=0)) changes nothing the step returns or raises, except the coarse graph handed back *)
Theorem step_add_zero_edge legacy aa fd prev car a b :
  NoDup (node_keys prev) -> In a (node_keys prev) -> In b (node_keys prev) -> a <> b -> noedge a b prev ->
  resolve_step_full legacy aa fd prev car =
  match resolve_step_full legacy aa fd (add_edge prev a b zero_attrs) car with
  | Ok fo => Ok (with_meta fo (meta_in prev))
  | Err e => Err e
  end.
Proof.
  intros Hn Ha Hb Nab Hne. set (prev' := add_edge prev a b zero_attrs).
  assert (NoDup (node_keys prev')) as Hn' by (unfold prev'; now rewrite add_edge_keys).
  pose proof (step_remove_zero_edge legacy aa fd prev' car a b Hn' (zedge_add_edge prev a b Hn Ha Hb Nab Hne)) as E.
  rewrite <- (meta_remove_edge prev' a b Hn') in E. unfold prev' in E at 1 3. rewrite (remove_add_edge prev a b _ Hn Ha Hb Nab Hne) in E.
  exact E.
Qed.
Theorem step_add_zero_edge_any legacy aa fd prev car fo a b :
  NoDup (node_keys prev) -> In a (node_keys prev) -> In b (node_keys prev) -> a <> b -> noedge a b prev ->
  resolve_step_full legacy aa fd prev car = Ok fo ->
  exists fo', resolve_step_full legacy aa fd (add_edge prev a b zero_attrs) car = Ok fo' /\ same_results fo fo' /\
    nodes_data (fo_meta fo') = nodes_data (fo_meta fo).
Proof.
  intros Hn Ha Hb Nab Hne H. pose proof (step_add_zero_edge legacy aa fd prev car a b Hn Ha Hb Nab Hne) as E. rewrite H in E.
  destruct (resolve_step_full legacy aa fd (add_edge prev a b zero_attrs) car) as [fo'|e] eqn:E'; [|discriminate E].
  apply ok_some in E. subst fo. exists fo'. split; [reflexivity|]. split; [apply same_results_with_meta|].
  cbn [with_meta fo_meta]. rewrite step_on_eq in E'. rewrite (step_on_meta _ _ _ _ _ _ E').
  assert (NoDup (node_keys (add_edge prev a b zero_attrs))) as Hn' by (now rewrite add_edge_keys).
  rewrite <- (remove_add_edge prev a b zero_attrs Hn Ha Hb Nab Hne) at 2. rewrite (meta_remove_edge _ a b Hn').
  symmetry. apply nodes_data_remove_edge. now rewrite meta_keys.
Qed.
