(** CopyProofs: C02 frag_copy in full (the keys handed out by [correspondence] are fresh and distinct, so
    every template atom has its copy in the merged graph), the instantiation step of the REPAIRED
    resolve_disconnected_molecule (/repo fa307dd: fragid := [coarse key]), and the invariant that every
    fine node records the key of a real coarse node - hence C11_map for virtual nodes at any position. *)
From Coq Require Import String.
From Coq Require Import List Ascii ZArith Bool Lia Sorting.Permutation.
From CGV Require Import Base.PyBase Base.PyVal Base.NxGraph Resolve.Bonding Resolve.GraphOps Resolve.Pipeline
     Resolve.MapProofs Resolve.VirtualProofs.
Import ListNotations.
Open Scope Z_scope.

(** ---------------------------------------------------------------- fresh keys *)
Lemma zmax_list_ge l : forall d, d <= zmax_list l d /\ forall x, In x l -> x <= zmax_list l d.
Proof.
  induction l as [|y r IH]; intros d; cbn; [split; [lia|contradiction]|].
  destruct (IH (Z.max y d)) as [H1 H2]. split; [lia|]. intros x [->|Hx]; [lia|now apply H2].
Qed.

Lemma merge_offsets_max src off fo : merge_offsets src = Ok (off, fo) -> forall k, In k (node_keys src) -> k <= off.
Proof.
  unfold merge_offsets. destruct src as [|n0 r]; [intros _ k []|].
  destruct (node_attrs (n0 :: r) (zmax_list (node_keys r) (nk n0))); [|discriminate]. unfold bind at 1.
  destruct (match aget (S "fragid") a with Some v => ints_of v | None => Ok [0] end); [|discriminate]. unfold bind at 1.
  destruct (py_max a0); [|discriminate]. unfold bind. intros H. inversion H; subst.
  destruct (zmax_list_ge (node_keys r) (nk n0)) as [H1 H2]. intros k [<-|Hk]; [exact H1|now apply H2].
Qed.

Lemma map_get_head k v c : map_get ((k, v) :: c) k = v.
Proof. unfold map_get. cbn. now rewrite Z.eqb_refl. Qed.
Lemma map_get_tail k v c k' : k' <> k -> map_get ((k, v) :: c) k' = map_get c k'.
Proof. intros N. unfold map_get. cbn. destruct (Z.eqb_spec k k'); [congruence|reflexivity]. Qed.
Lemma map_get_combine ks : forall vs, NoDup ks -> length ks = length vs -> map (map_get (combine ks vs)) ks = vs.
Proof.
  induction ks as [|k r IH]; destruct vs as [|v w]; cbn; try discriminate; [reflexivity|].
  intros Hn Hl. inversion Hn; subst. rewrite map_get_head. f_equal.
  rewrite <- (IH w) at 2 by (auto; lia). apply map_ext_in. intros k' Hk'. apply map_get_tail. intros ->. contradiction.
Qed.
Lemma corr_values off tgt : NoDup (node_keys tgt) ->
  map (fun n => map_get (correspondence off tgt) (nk n)) tgt = map snd (correspondence off tgt).
Proof.
  intros Hn. rewrite correspondence_snd. unfold correspondence.
  change (map (fun n => map_get ?c (nk n)) tgt) with (map (fun n => map_get c (nk n)) tgt).
  rewrite <- (map_map nk (map_get _)). apply map_get_combine; [exact Hn|].
  unfold node_keys. now rewrite !map_length, seq_length.
Qed.

Lemma merge_graphs_corr src tgt g corr : merge_graphs src tgt = Ok (g, corr) ->
  exists off fo, merge_offsets src = Ok (off, fo) /\ corr = correspondence off tgt.
Proof.
  unfold merge_graphs. destruct (merge_offsets src) as [[off fo]|]; [|discriminate]. unfold bind at 1.
  destruct (fold_res _ tgt src); [|discriminate]. unfold bind. intros H. inversion H; subst. eauto.
Qed.

(** template graphs are well formed: distinct node keys, edges join nodes *)
Definition wf_template (tgt : graph) : Prop :=
  NoDup (node_keys tgt) /\ forall u v d, In (u, v, d) (edges_data tgt) -> In u (node_keys tgt) /\ In v (node_keys tgt).

Lemma corr_fresh src tgt off fo : merge_offsets src = Ok (off, fo) -> NoDup (node_keys tgt) ->
  forall n, In n tgt -> has_node src (map_get (correspondence off tgt) (nk n)) = false.
Proof.
  intros Ho Hn n Hin. destruct (has_node src _) eqn:E; [|reflexivity]. exfalso.
  apply gfind_has in E. pose proof (merge_offsets_max _ _ _ Ho _ E) as Hle.
  assert (In (map_get (correspondence off tgt) (nk n)) (map snd (correspondence off tgt))) as Hv.
  { rewrite <- corr_values by exact Hn. apply in_map_iff. exists n. auto. }
  apply in_map_iff in Hv as [[t x] [Ex Hx]]. cbn in Ex. subst x. apply correspondence_fresh in Hx. lia.
Qed.

(** frag_copy: after merge_graphs every template node t has its copy at the fresh key [correspondence t],
    with the template's attributes except fragid (one membership) and the shifted ez_isomer_atoms *)
Theorem frag_copy src tgt g corr : merge_graphs src tgt = Ok (g, corr) -> wf_template tgt ->
  exists off fo, merge_offsets src = Ok (off, fo) /\ corr = correspondence off tgt /\
    forall n, In n tgt -> exists a', merge_node (off + 1) fo (na n) = Ok a' /\ node_attrs g (map_get corr (nk n)) = Ok a'.
Proof.
  intros H [Hn Hadj]. destruct (merge_graphs_corr _ _ _ _ H) as [off [fo [Ho ->]]].
  apply (frag_copy_partial src tgt g _ H); [|now apply (corr_fresh src tgt off fo)|exact Hadj].
  rewrite corr_values by exact Hn. apply correspondence_injective.
Qed.

(** ---------------------------------------------------------------- attribute updates *)
Lemma gfind_gupdate_same k f g : (forall n, nk (f n) = nk n) ->
  gfind k (gupdate k f g) = match gfind k g with Some n => Some (f n) | None => None end.
Proof.
  intros Hf. induction g as [|n r IH]; cbn; [reflexivity|].
  destruct (Z.eqb_spec (nk n) k) as [E|E]; cbn.
  - rewrite Hf. destruct (Z.eqb_spec (nk n) k); [reflexivity|contradiction].
  - destruct (Z.eqb_spec (nk n) k); [contradiction|exact IH].
Qed.
Lemma attrs_set_same g k x v a : node_attrs g k = Ok a -> node_attrs (set_node_attr g k x v) k = Ok (aset x v a).
Proof.
  unfold node_attrs, set_node_attr. rewrite gfind_gupdate_same by reflexivity.
  destruct (gfind k g); [|discriminate]. intros H. inversion H; subst. reflexivity.
Qed.
Lemma attrs_set_other g k x v k' : k' <> k -> node_attrs (set_node_attr g k x v) k' = node_attrs g k'.
Proof. intros N. unfold node_attrs, set_node_attr. now rewrite gfind_gupdate_other. Qed.
Lemma keys_set g k x v : node_keys (set_node_attr g k x v) = node_keys g.
Proof. unfold set_node_attr. now apply keys_gupdate. Qed.
Lemma keys_add_edge_in g u v d : has_node g u = true -> has_node g v = true -> node_keys (add_edge g u v d) = node_keys g.
Proof. intros Hu Hv. unfold add_edge. rewrite Hu, Hv. now rewrite !keys_gupdate. Qed.

Section Stamp.
  (** the per-node stamping loop of resolve_disconnected_molecule: fragid := [coarse key], mapping := [(name, t)] *)
  Variables (f : Z -> Z) (ck : Z) (name : pystr).
  Let stamp := fun (acc : graph) (n : nrec) =>
    set_node_attr (set_node_attr acc (f (nk n)) (S "fragid") (VList [VInt ck])) (f (nk n)) (S "mapping") (mapping_val name (nk n)).
  Definition stamped (t : Z) (a : attrs) : attrs := aset (S "mapping") (mapping_val name t) (aset (S "fragid") (VList [VInt ck]) a).

  Lemma stamp_keys tgt : forall g, node_keys (fold_left stamp tgt g) = node_keys g.
  Proof. induction tgt as [|n r IH]; cbn; intros g; [reflexivity|]. rewrite IH. unfold stamp. now rewrite !keys_set. Qed.
  Lemma stamp_other tgt : forall g k, ~ In k (map (fun n => f (nk n)) tgt) -> node_attrs (fold_left stamp tgt g) k = node_attrs g k.
  Proof.
    induction tgt as [|n r IH]; cbn; intros g k N; [reflexivity|].
    rewrite IH by (intros X; apply N; now right). unfold stamp.
    rewrite !attrs_set_other; [reflexivity| |]; intros X; apply N; left; now symmetry.
  Qed.
  Lemma stamp_same tgt : forall g, NoDup (map (fun n => f (nk n)) tgt) ->
    forall n a, In n tgt -> node_attrs g (f (nk n)) = Ok a -> node_attrs (fold_left stamp tgt g) (f (nk n)) = Ok (stamped (nk n) a).
  Proof.
    induction tgt as [|m r IH]; cbn; intros g Hn n a Hin Ha; [contradiction|]. inversion Hn as [|? ? Hm Hr]; subst.
    destruct Hin as [->|Hin].
    - rewrite stamp_other by exact Hm. unfold stamp, stamped. now apply attrs_set_same, attrs_set_same.
    - apply IH; auto. unfold stamp. rewrite !attrs_set_other; [exact Ha| |];
        intros Eq; apply Hm; rewrite <- Eq; apply in_map_iff; exists n; auto.
  Qed.
End Stamp.

(** ---------------------------------------------------------------- node keys of the merged graph *)
Lemma merge_nodes_keys off1 fo (f : Z -> Z) tgt : forall acc g,
  fold_res (fun acc n => a <- merge_node off1 fo (na n) ;; Ok (add_node acc (f (nk n)) a)) tgt acc = Ok g ->
  (forall n, In n tgt -> has_node acc (f (nk n)) = false) -> NoDup (map (fun n => f (nk n)) tgt) ->
  node_keys g = node_keys acc ++ map (fun n => f (nk n)) tgt.
Proof.
  induction tgt as [|m r IH]; cbn; intros acc g H Hf Hn; [inversion H; now rewrite app_nil_r|].
  destruct (merge_node off1 fo (na m)) as [a|]; cbn in H; [|discriminate]. inversion Hn as [|? ? Hm Hr]; subst.
  rewrite (IH _ _ H); [| |exact Hr].
  - rewrite keys_add_node, (Hf m (or_introl eq_refl)). now rewrite <- app_assoc.
  - intros n' Hn'. apply has_node_false_add; [apply Hf; now right|].
    intros Eq. apply Hm. rewrite <- Eq. apply in_map_iff. exists n'. auto.
Qed.
Lemma merge_edges_keys (corr : list (Z * Z)) (es : list (Z * Z * attrs)) : forall g,
  (forall u v d, In (u, v, d) es -> has_node g (map_get corr u) = true /\ has_node g (map_get corr v) = true) ->
  node_keys (fold_left (fun acc e => let '(u, v, d) := e in
                          if Z.eqb (map_get corr u) (map_get corr v) then acc
                          else add_edge acc (map_get corr u) (map_get corr v) d) es g) = node_keys g.
Proof.
  induction es as [|[[u v] d] r IH]; cbn; intros g H; [reflexivity|].
  destruct (H u v d (or_introl eq_refl)) as [Hu Hv].
  destruct (Z.eqb (map_get corr u) (map_get corr v)).
  - apply IH. intros u' v' d' Hin. apply (H u' v' d'). now right.
  - rewrite IH; [now apply keys_add_edge_in|]. intros u' v' d' Hin. destruct (H u' v' d' (or_intror Hin)) as [A B].
    split; apply has_node_add_edge; auto.
Qed.

(** merge_graphs: node keys = old keys ++ fresh keys; old nodes keep their attributes *)
Theorem merge_graphs_keys src tgt g corr : merge_graphs src tgt = Ok (g, corr) -> wf_template tgt ->
  node_keys g = node_keys src ++ map snd corr /\
  (forall k, In k (node_keys src) -> node_attrs g k = node_attrs src k).
Proof.
  intros H [Hn Hadj]. destruct (merge_graphs_corr _ _ _ _ H) as [off [fo [Ho Ec]]]. subst corr.
  pose proof (corr_fresh src tgt off fo Ho Hn) as Hfr.
  assert (NoDup (map (fun n => map_get (correspondence off tgt) (nk n)) tgt)) as Hnd
    by (rewrite corr_values by exact Hn; apply correspondence_injective).
  revert H. unfold merge_graphs. rewrite Ho. unfold bind at 1. set (c := correspondence off tgt) in *.
  destruct (fold_res _ tgt src) as [src1|] eqn:Ef; [|discriminate]. unfold bind. intros H. inversion H; subst g. clear H.
  assert (forall u v d, In (u, v, d) (edges_data tgt) ->
            has_node src1 (map_get c u) = true /\ has_node src1 (map_get c v) = true) as He.
  { intros u v d Hin. destruct (Hadj u v d Hin) as [Hu Hv]. unfold node_keys in Hu, Hv.
    apply in_map_iff in Hu as [nu [Eu Hu]]. apply in_map_iff in Hv as [nv [Ev Hv]]. subst u v.
    destruct (merge_fold_attrs (off + 1) fo (map_get c) tgt src src1 Ef Hnd Hfr nu Hu) as [au [_ Au]].
    destruct (merge_fold_attrs (off + 1) fo (map_get c) tgt src src1 Ef Hnd Hfr nv Hv) as [av [_ Av]].
    split; eapply node_attrs_has; eassumption. }
  split.
  - rewrite merge_edges_keys by exact He. rewrite (merge_nodes_keys _ _ _ _ _ _ Ef Hfr Hnd).
    f_equal. unfold c. now apply corr_values.
  - intros k Hk. rewrite merge_edges_attrs by exact He.
    apply (merge_fold_other (off + 1) fo (map_get c) tgt src src1 k Ef).
    intros Hin. apply in_map_iff in Hin as [n [En Hin]]. subst k.
    apply gfind_has in Hk. rewrite (Hfr n Hin) in Hk. discriminate.
Qed.

(** ---------------------------------------------------------------- the instantiation step (repaired code) *)
Definition wf_dict (fd : fragdict) : Prop := forall name g, fd_get name fd = Some g -> wf_template g.

Lemma lookup_fragment_get fd fv name frag : lookup_fragment fd fv = Some (name, frag) -> fv = VStr name /\ fd_get name fd = Some frag.
Proof.
  unfold lookup_fragment. destruct fv; try discriminate. destruct (fd_get s fd) eqn:E; [|discriminate].
  intros H. inversion H; subst. auto.
Qed.

Lemma disc_step_real fd mol fgs mn fv name frag mol2 fgs2 :
  aget (S "fragname") (na mn) = Some fv -> lookup_fragment fd fv = Some (name, frag) ->
  disc_step fd (mol, fgs) mn = Ok (mol2, fgs2) ->
  exists mol1 corr, merge_graphs mol frag = Ok (mol1, corr) /\
    mol2 = fold_left (fun acc n => set_node_attr (set_node_attr acc (map_get corr (nk n)) (S "fragid") (VList [VInt (nk mn)]))
                                                 (map_get corr (nk n)) (S "mapping") (mapping_val name (nk n))) frag mol1.
Proof.
  intros Hf Hl. unfold disc_step. rewrite Hf. unfold of_option, bind at 1. rewrite Hl.
  destruct (merge_graphs mol frag) as [[mol1 corr]|]; [|discriminate]. unfold bind at 1.
  destruct (frag_graph_of mol1 frag corr (nk mn) name); [|discriminate]. unfold bind.
  intros H. inversion H; subst. eauto.
Qed.

(** disc_step_copy: for a coarse node with a fragment, every template atom t gets a fine node at the fresh key
    [correspondence t] that records exactly [coarse key], the mapping [(fragname, t)] and otherwise the
    template's attributes *)
Theorem disc_step_copy fd mol fgs mn fv name frag mol2 fgs2 :
  aget (S "fragname") (na mn) = Some fv -> lookup_fragment fd fv = Some (name, frag) -> wf_template frag ->
  disc_step fd (mol, fgs) mn = Ok (mol2, fgs2) ->
  exists off fo, merge_offsets mol = Ok (off, fo) /\
    forall n, In n frag -> exists a', merge_node (off + 1) fo (na n) = Ok a' /\
      node_attrs mol2 (map_get (correspondence off frag) (nk n)) = Ok (stamped (nk mn) name (nk n) a').
Proof.
  intros Hf Hl Hw H. destruct (disc_step_real _ _ _ _ _ _ _ _ _ Hf Hl H) as [mol1 [corr [Hm ->]]].
  destruct (frag_copy _ _ _ _ Hm Hw) as [off [fo [Ho [-> Hc]]]]. exists off, fo. split; [exact Ho|].
  intros n Hin. destruct (Hc n Hin) as [a' [E1 E2]]. exists a'. split; [exact E1|].
  apply (stamp_same (map_get (correspondence off frag)) (nk mn) name frag mol1); auto.
  destruct Hw as [Hn _]. rewrite corr_values by exact Hn. apply correspondence_injective.
Qed.

Lemma mapping_ne_fragid : S "mapping" <> S "fragid".
Proof. intros H. apply str_eqb_eq in H. vm_compute in H. discriminate. Qed.
Lemma stamped_fragid ck name t a : aget (S "fragid") (stamped ck name t a) = Some (VList [VInt ck]).
Proof.
  unfold stamped. rewrite aget_aset_other by (intros E; apply mapping_ne_fragid; now symmetry). apply aget_aset_same.
Qed.
Lemma stamped_mapping ck name t a : aget (S "mapping") (stamped ck name t a) = Some (mapping_val name t).
Proof. unfold stamped. apply aget_aset_same. Qed.
Lemma stamped_other ck name t a key : key <> S "fragid" -> key <> S "mapping" -> aget key (stamped ck name t a) = aget key a.
Proof. intros N1 N2. unfold stamped. now rewrite !aget_aset_other. Qed.

(** ---------------------------------------------------------------- invariant: fine nodes record real coarse keys *)
Definition fine_inv (R : list Z) (mol : graph) : Prop :=
  NoDup (node_keys mol) /\
  forall k a, node_attrs mol k = Ok a -> exists c, In c R /\ aget (S "fragid") a = Some (VList [VInt c]).

Definition real_of (fd : fragdict) (mn : nrec) : list Z :=
  match aget (S "fragname") (na mn) with
  | Some fv => match lookup_fragment fd fv with Some _ => [nk mn] | None => [] end
  | None => []
  end.

Lemma NoDup_app_intro {A} (a b : list A) : NoDup a -> NoDup b -> (forall x, In x a -> ~ In x b) -> NoDup (a ++ b).
Proof.
  induction 1 as [|x r Hx Hr IH]; cbn; intros Hb Hd; [exact Hb|]. constructor.
  - rewrite in_app_iff. intros [H|H]; [contradiction|]. exact (Hd x (or_introl eq_refl) H).
  - apply IH; [exact Hb|]. intros y Hy. apply Hd. now right.
Qed.
Lemma fine_inv_weaken R R' mol : (forall c, In c R -> In c R') -> fine_inv R mol -> fine_inv R' mol.
Proof. intros Hs [Hn Ha]. split; [exact Hn|]. intros k a E. destruct (Ha k a E) as [c [Hc Hf]]. exists c. auto. Qed.

Lemma disc_step_inv fd R mol fgs mn mol2 fgs2 : wf_dict fd -> fine_inv R mol ->
  disc_step fd (mol, fgs) mn = Ok (mol2, fgs2) -> fine_inv (R ++ real_of fd mn) mol2.
Proof.
  intros Hw Hi H. unfold real_of.
  destruct (aget (S "fragname") (na mn)) as [fv|] eqn:Hf; [|unfold disc_step in H; rewrite Hf in H; discriminate].
  destruct (lookup_fragment fd fv) as [[name frag]|] eqn:Hl.
  - destruct (lookup_fragment_get _ _ _ _ Hl) as [_ Hg]. pose proof (Hw _ _ Hg) as Hwf.
    destruct (disc_step_real _ _ _ _ _ _ _ _ _ Hf Hl H) as [mol1 [corr [Hm Em]]].
    destruct (merge_graphs_keys _ _ _ _ Hm Hwf) as [Hk Hold].
    destruct (frag_copy _ _ _ _ Hm Hwf) as [off [fo [Ho [Ec Hc]]]].
    destruct Hi as [Hn Ha]. destruct Hwf as [Hnt _].
    assert (forall x, In x (node_keys mol) -> ~ In x (map snd corr)) as Hdisj.
    { intros x Hx Hv. subst corr. apply in_map_iff in Hv as [[t y] [Ey Hy]]. cbn in Ey. subst y.
      apply correspondence_fresh in Hy. pose proof (merge_offsets_max _ _ _ Ho _ Hx). lia. }
    assert (NoDup (map (fun n => map_get corr (nk n)) frag)) as Hnd
      by (subst corr; rewrite corr_values by exact Hnt; apply correspondence_injective).
    split.
    + subst mol2. rewrite stamp_keys, Hk. apply NoDup_app_intro; auto. subst corr. apply correspondence_injective.
    + intros k a E.
      assert (In k (node_keys mol2)) as Hin by (apply gfind_has; eapply node_attrs_has; exact E).
      subst mol2. rewrite stamp_keys, Hk, in_app_iff in Hin. destruct Hin as [Hin|Hin].
      * rewrite stamp_other in E.
        -- rewrite (Hold k Hin) in E. destruct (Ha k a E) as [c [Hc' Hfr]]. exists c. split; [apply in_or_app; now left|exact Hfr].
        -- intros X. apply (Hdisj k Hin). subst corr. rewrite <- corr_values by exact Hnt. exact X.
      * assert (In k (map (fun n => map_get corr (nk n)) frag)) as Hin' by (subst corr; rewrite corr_values by exact Hnt; exact Hin).
        apply in_map_iff in Hin' as [n [En Hn']]. subst k. destruct (Hc n Hn') as [a' [_ E2]].
        rewrite (stamp_same (map_get corr) (nk mn) name frag mol1 Hnd n a' Hn' E2) in E. inversion E; subst a.
        exists (nk mn). split; [apply in_or_app; right; now left|apply stamped_fragid].
  - unfold disc_step in H. rewrite Hf in H. unfold of_option, bind at 1 in H. rewrite Hl in H.
    destruct (virtual_ok mn); [|discriminate]. unfold bind in H. inversion H; subst. now rewrite app_nil_r.
Qed.

Theorem disconnected_inv fd : wf_dict fd -> forall l R mol0 fgs0 mol fgs, fine_inv R mol0 ->
  fold_res (disc_step fd) l (mol0, fgs0) = Ok (mol, fgs) -> fine_inv (R ++ flat_map (real_of fd) l) mol.
Proof.
  intros Hw. induction l as [|mn r IH]; intros R mol0 fgs0 mol fgs Hi H.
  - cbn in H. inversion H; subst. cbn. now rewrite app_nil_r.
  - change (fold_res (disc_step fd) (mn :: r) (mol0, fgs0))
      with (b' <- disc_step fd (mol0, fgs0) mn ;; fold_res (disc_step fd) r b') in H.
    destruct (disc_step fd (mol0, fgs0) mn) as [[m1 f1]|] eqn:E; [|discriminate]. unfold bind in H.
    change (flat_map (real_of fd) (mn :: r)) with (real_of fd mn ++ flat_map (real_of fd) r).
    rewrite app_assoc. eapply IH; [|exact H]. eapply disc_step_inv; eauto.
Qed.
(** every fine node the instantiation loop makes records exactly one key, that of a coarse node WITH a fragment *)
Theorem resolve_disconnected_inv fd meta mol fgs : wf_dict fd -> resolve_disconnected fd meta = Ok (mol, fgs) ->
  fine_inv (flat_map (real_of fd) meta) mol.
Proof.
  intros Hw H. apply (disconnected_inv fd Hw meta [] gempty [] mol fgs); [|exact H].
  split; [constructor|]. intros k a E. discriminate.
Qed.

(** ---------------------------------------------------------------- C11_map *)
Lemma gna_in g a n v : In (n, v) (get_node_attributes g a) -> exists r, In r g /\ nk r = n /\ aget a (na r) = Some v.
Proof.
  unfold get_node_attributes. rewrite in_flat_map. intros [r [Hr Hv]]. exists r.
  destruct (aget a (na r)); [|contradiction]. destruct Hv as [E|[]]. inversion E; subst. auto.
Qed.
Lemma gfind_in g : NoDup (node_keys g) -> forall r, In r g -> gfind (nk r) g = Some r.
Proof.
  induction g as [|m l IH]; cbn; intros Hn r Hr; [contradiction|]. inversion Hn; subst.
  destruct Hr as [->|Hr]; [now rewrite Z.eqb_refl|].
  destruct (Z.eqb_spec (nk m) (nk r)) as [E|E]; [|now apply IH].
  exfalso. apply H1. rewrite E. apply in_map. exact Hr.
Qed.
(** a membership recorded anywhere in the fine graph is the key of a real coarse node *)
Theorem records_real R mol n k : fine_inv R mol -> records mol n k -> In k R.
Proof.
  intros [Hn Ha] [v [l [Hin [El Hk]]]]. destruct (gna_in _ _ _ _ Hin) as [r [Hr [En Ev]]].
  assert (node_attrs mol (nk r) = Ok (na r)) as E by (unfold node_attrs; now rewrite (gfind_in mol Hn r Hr)).
  destruct (Ha _ _ E) as [c [Hc Hf]]. rewrite Ev in Hf. inversion Hf; subst v. cbn in El. inversion El; subst l.
  destruct Hk as [Hk|[]]. inversion Hk; subst. exact Hc.
Qed.

(** a fragment-less coarse node is not among the recorded keys (coarse keys are distinct) *)
Theorem virtual_not_recorded fd meta mv : NoDup (node_keys meta) -> In mv meta -> real_of fd mv = [] ->
  ~ In (nk mv) (flat_map (real_of fd) meta).
Proof.
  intros Hn Hin Hv H. apply in_flat_map in H as [mn [Hmn Hk]].
  assert (nk mn = nk mv) as E.
  { unfold real_of in Hk. destruct (aget (S "fragname") (na mn)); [|contradiction].
    destruct (lookup_fragment fd p); [|contradiction]. destruct Hk as [E|[]]. exact E. }
  assert (mn = mv) as ->.
  { pose proof (gfind_in meta Hn mn Hmn) as G1. pose proof (gfind_in meta Hn mv Hin) as G2. rewrite E in G1. congruence. }
  rewrite Hv in Hk. contradiction.
Qed.

(** C11_virtual_empty: whatever fine graph whose memberships are keys of real coarse nodes (resolve_disconnected_inv;
    the later steps keep fragid values), the coarse graph of a virtual node is empty *)
Theorem C11_virtual_empty R meta mol fgs kv g : annotate_fragments meta mol = Ok fgs -> fine_inv R mol -> ~ In kv R ->
  In (kv, g) fgs -> node_keys g = [].
Proof.
  intros H Hi Hv Hin. destruct (node_keys g) as [|n r] eqn:E; [reflexivity|]. exfalso. apply Hv.
  apply (records_real R mol n kv Hi). apply (frag_exact _ _ _ H kv g Hin n). rewrite E. now left.
Qed.
(** C11_map: the coarse graph of a coarse key is the same node set whichever coarse node list (with or without
    virtual nodes, at any position) the fine graph is annotated against *)
Theorem C11_map meta meta' mol fgs fgs' k g g' : annotate_fragments meta mol = Ok fgs -> annotate_fragments meta' mol = Ok fgs' ->
  In (k, g) fgs -> In (k, g') fgs' -> forall n, In n (node_keys g) <-> In n (node_keys g').
Proof.
  intros H H' Hin Hin' n. rewrite (frag_exact _ _ _ H k g Hin n), (frag_exact _ _ _ H' k g' Hin' n). tauto.
Qed.
