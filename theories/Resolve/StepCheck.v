(** StepCheck: one correspondence case = one real call of MoleculeResolver.resolve(), with what the
    harness recorded around every stage, and [step_corr] = the model agrees with every recorded
    segment it models.  Imports only models (no proof file). *)
From Coq Require Import String.
From Coq Require Import List Ascii ZArith Bool Lia.
From CGV Require Import Base.PyBase Base.PyVal Base.NxGraph Resolve.Bonding Resolve.GraphOps Resolve.Pipeline.
Import ListNotations.
Open Scope Z_scope.

Record stepcase := {
  sc_legacy : bool;
  sc_aa : bool;                    (* all_atom of this call *)
  sc_prev : graph;                 (* self.molecule on entry (the coarse graph to be) *)
  sc_fd : fragdict;                (* fragment_dicts[resolution_counter] *)
  sc_tr : transcript;              (* recorded results of squash / rebuild_h / ez (None = stage was a no-op) *)
  sc_car : option graph;           (* the molecule right after pysmiles' correct_aromatic_rings inside rebuild_h_atoms
                                      (None: not an all-atom step, or the correction raised) *)
  sc_m2 : option graph;            (* self.molecule on entry of squash_atoms *)
  sc_m5 : option graph;            (* result of sort_nodes_by_attr *)
  sc_out : option (fgraphs * graph);  (* returned coarse 'graph' attributes and fine graph *)
  sc_stage : nat;                  (* 0 = returned; else the stage that raised:
                                      1 disconnected 2 bonding 3 squash 4 rebuild_h 5 sort 6 ez 7 annotate 8 names *)
  sc_exc : pystr                   (* class name of the exception, "" if none *)
}.

Definition opt_graph_eqb (g : graph) (o : option graph) : bool :=
  match o with Some h => graph_eqb g h | None => false end.

Definition err_matches (e : err) (name : pystr) : bool :=
  match e with
  | ESyntax _ => str_eqb name (S "SyntaxError")
  | ENoReturn | EOutOfFuel => false
  | _ => negb (str_eqb name (S "SyntaxError")) && negb (str_eqb name (S ""))
  end.

(** stages 1-2 only (used when a transcript stage raised, so the rest of the step is not the model's) *)
Definition prefix_m2 (c : stepcase) : res graph :=
  let meta := set_nodes_from (sc_prev c) (S "fragname") (get_node_attributes (sc_prev c) (S "atomname")) in
  '(m1, fg1) <- resolve_disconnected (sc_fd c) meta ;;
  '(m2, fg2) <- bonding_step (sc_legacy c) (sc_aa c) meta m1 fg1 ;;
  Ok m2.

Definition transcript_stage (n : nat) : bool := Nat.eqb n 3 || Nat.eqb n 4 || Nat.eqb n 6.

Definition step_corr (c : stepcase) : bool :=
  if transcript_stage (sc_stage c) then
    match prefix_m2 c with Ok m2 => opt_graph_eqb m2 (sc_m2 c) | Err _ => false end
  else
    match resolve_step (sc_legacy c) (sc_aa c) (sc_fd c) (sc_prev c) (sc_tr c) with
    | Ok so =>
        Nat.eqb (sc_stage c) 0 && opt_graph_eqb (so_m2 so) (sc_m2 c) && opt_graph_eqb (so_m5 so) (sc_m5 c)
        && match sc_out c with
           | Some (fgs, mol) => graph_eqb (so_mol so) mol && fgraphs_eqb (so_fgs so) fgs
           | None => false
           end
    | Err e => negb (Nat.eqb (sc_stage c) 0) && err_matches e (sc_exc c)
    end.

(** which segment disagrees (for diagnosis in replays): 0 = none *)
Definition step_diag (c : stepcase) : nat :=
  match resolve_step (sc_legacy c) (sc_aa c) (sc_fd c) (sc_prev c) (sc_tr c) with
  | Ok so =>
      if negb (opt_graph_eqb (so_m2 so) (sc_m2 c)) then 2%nat
      else if negb (opt_graph_eqb (so_m5 so) (sc_m5 c)) then 5%nat
      else match sc_out c with
           | Some (fgs, mol) => if negb (graph_eqb (so_mol so) mol) then 8%nat
                                else if negb (fgraphs_eqb (so_fgs so) fgs) then 7%nat else 0%nat
           | None => 9%nat
           end
  | Err _ => 10%nat
  end.

(** the coarse graph as resolve() sees it *)
Definition sc_meta (c : stepcase) : graph :=
  set_nodes_from (sc_prev c) (S "fragname") (get_node_attributes (sc_prev c) (S "atomname")).
