(** BondingDefs: definitions (no proofs, independent of the generated code) used by the
    statements of C03 and by its executable oracle.  Kept apart from the proofs so that the
    oracle still builds and runs when a proof obligation breaks. *)
From Coq Require Import String.
From Coq Require Import List Ascii ZArith Bool.
From CGV Require Import Base.PyBase Base.PyVal Resolve.Bonding.
Import ListNotations.
Open Scope char_scope.

Definition compl (l r : ascii) : bool :=
  (Ascii.eqb l "<" && Ascii.eqb r ">") || (Ascii.eqb l ">" && Ascii.eqb r "<").

(** Specification, on descriptors written kind :: rest, rest = label ++ order digit:
    legacy (BigSmiles): same kind ($, ! or any non-directional kind) with identical label and
    order, or > with < with identical label and order; otherwise only the kind counts. *)
Definition Compat (legacy : bool) (lk : ascii) (lt : pystr) (rk : ascii) (rt : pystr) : bool :=
  if legacy then
    (Ascii.eqb lk rk && str_eqb lt rt && negb (Ascii.eqb lk ">" || Ascii.eqb lk "<" || Ascii.eqb lk " "))
    || (compl lk rk && str_eqb lt rt)
  else (Ascii.eqb lk rk && (Ascii.eqb rk "$" || Ascii.eqb rk "!")) || compl lk rk.

Definition compat_str (legacy : bool) (l r : pystr) : bool :=
  match l, r with
  | lk :: lt, rk :: rt => Compat legacy lk lt rk rt
  | _, _ => false
  end.


Open Scope Z_scope.
(** first entry of a table with a given key *)
Fixpoint tlookup (u : Z) (t : tbl) : list pystr :=
  match t with [] => [] | (v, ds) :: r => if Z.eqb u v then ds else tlookup u r end.
Fixpoint cnt (d : pystr) (l : list pystr) : nat :=
  match l with [] => 0 | x :: r => (if str_eqb d x then 1 else 0) + cnt d r end.
Fixpoint slookup (a : Z) (s : cstate) : tbl :=
  match s with [] => [] | (k, t) :: r => if Z.eqb a k then t else slookup a r end.
Definition uses_src (a u : Z) (d : pystr) (b : bond) : nat :=
  if Z.eqb (b_src b) a && Z.eqb (b_u b) u && str_eqb d (b_d1 b) then 1 else 0.
Definition uses_tgt (a u : Z) (d : pystr) (b : bond) : nat :=
  if Z.eqb (b_tgt b) a && Z.eqb (b_v b) u && str_eqb d (b_d2 b) then 1 else 0.
Fixpoint uses (a u : Z) (d : pystr) (l : list bond) : nat :=
  match l with [] => 0 | b :: r => uses_src a u d b + uses_tgt a u d b + uses a u d r end.
Definition wf_edges (edges : list (Z * Z * Z)) : Prop := Forall (fun e => fst (fst e) <> snd (fst e)) edges.
Definition order_sum (a b : Z) (edges : list (Z * Z * Z)) : nat :=
  fold_right (fun e acc => (if Z.eqb (fst (fst e)) a && Z.eqb (snd (fst e)) b then Z.to_nat (snd e) else 0) + acc)%nat 0%nat edges.
Definition bonds_between (a b : Z) (l : list bond) : nat :=
  length (filter (fun bd => Z.eqb (b_src bd) a && Z.eqb (b_tgt bd) b) l).

(** tables of every coarse node have unique atom keys *)
Definition wf_state (s : cstate) : Prop := forall a, NoDup (map fst (slookup a s)).
Definition bal (s : cstate) (acc : list bond) (a u : Z) (d : pystr) : nat :=
  (cnt d (tlookup u (slookup a s)) + uses a u d acc)%nat.

