(** SortGraphProofs: graph-level theorems about nx.relabel_nodes(copy=True) (NxGraph.relabel_copy) and
    sort_nodes_by_attr: for a well-formed graph and a relabelling that is injective on its node keys the
    copy has the relabelled keys in the OLD node order, every node keeps its attribute dict, two nodes are
    adjacent iff their originals are; sort_nodes_by_attr therefore returns a graph on the keys 0..n-1 that
    carries attributes and adjacency along the sorting permutation, and rewrites the node references in
    'ez_isomer_atoms' by the same permutation. *)
From Coq Require Import String.
From Coq Require Import List Ascii ZArith Bool Lia Sorting.Sorted Sorting.Permutation.
From CGV Require Import Base.PyBase Base.PyVal Base.NxGraph Resolve.GraphOps Resolve.SortProofs Resolve.MapProofs Resolve.CopyProofs.
From CGV Require Import Hydro.GraphLemmas Hydro.SquashDefs.
From CGV Require Hydro.SquashProofs.
Import ListNotations.
Open Scope Z_scope.

Section Relabel.
  Variable phi : Z -> Z.
  Definition mk0 (n : nrec) : nrec := {| nk := phi (nk n); na := []; nadj := [] |}.
  Definition rl (n : nrec) : nrec := {| nk := phi (nk n); na := na n; nadj := [] |}.
  Definition pkeys (g : graph) : list Z := map (fun n => phi (nk n)) g.

  Lemma keys_mk0 g : node_keys (map mk0 g) = pkeys g.
  Proof. unfold node_keys, pkeys. now rewrite map_map. Qed.
  Lemma keys_rl g : node_keys (map rl g) = pkeys g.
  Proof. unfold node_keys, pkeys. now rewrite map_map. Qed.

  Lemma phase0 l : forall acc, NoDup (node_keys acc ++ pkeys l) ->
    fold_left (fun acc n => add_node acc (phi (nk n)) []) l acc = acc ++ map mk0 l.
  Proof.
    induction l as [|n r IH]; intros acc H; cbn; [now rewrite app_nil_r|].
    assert (has_node acc (phi (nk n)) = false) as Hn.
    { destruct (has_node acc (phi (nk n))) eqn:E; [|reflexivity]. apply gfind_has in E.
      cbn in H. apply NoDup_remove_2 in H. exfalso. apply H. apply in_or_app. now left. }
    unfold add_node at 2. rewrite Hn, IH; [now rewrite <- app_assoc|].
    unfold node_keys in *. rewrite map_app, <- app_assoc. exact H.
  Qed.

  Lemma gupdate_app_skip k f a b : ~ In k (node_keys a) -> gupdate k f (a ++ b) = a ++ gupdate k f b.
  Proof.
    induction a as [|x r IH]; cbn; intros H; [reflexivity|].
    destruct (Z.eqb_spec (nk x) k) as [E|E]; [exfalso; apply H; now left|]. rewrite IH; [reflexivity|tauto].
  Qed.
  Definition upd (acc : graph) (n : nrec) : graph :=
    gupdate (phi (nk n)) (fun x => {| nk := nk x; na := na n; nadj := nadj x |}) acc.
  Lemma phase1 l : forall pre, NoDup (pkeys (pre ++ l)) ->
    fold_left upd l (map rl pre ++ map mk0 l) = map rl pre ++ map rl l.
  Proof.
    induction l as [|n r IH]; intros pre H; cbn; [reflexivity|].
    unfold upd at 2. rewrite gupdate_app_skip.
    - cbn. rewrite Z.eqb_refl. change ({| nk := phi (nk n); na := na n; nadj := [] |}) with (rl n).
      replace (map rl pre ++ rl n :: map mk0 r) with (map rl (pre ++ [n]) ++ map mk0 r) by (rewrite map_app, <- app_assoc; reflexivity).
      rewrite IH by (rewrite <- app_assoc; exact H). now rewrite map_app, <- app_assoc.
    - rewrite keys_rl. unfold pkeys in *. rewrite map_app in H. cbn in H. apply NoDup_remove_2 in H.
      intros X. apply H. apply in_or_app. now left.
  Qed.

  (** closed form of relabel_nodes(copy=True) *)
  Definition redges (g : graph) : list (Z * Z * attrs) :=
    map (fun e => (phi (fst (fst e)), phi (snd (fst e)), snd e)) (edges_data g).
  Variable m : list (Z * Z).
  Hypothesis Hphi : forall k, phi k = map_get m k.

  Lemma h0_eq g : NoDup (pkeys g) ->
    fold_left (fun acc n => add_node acc (map_get m (nk n)) []) g gempty = map mk0 g.
  Proof.
    intros H. rewrite (SquashProofs.fold_left_ext (fun acc n => add_node acc (map_get m (nk n)) []) (fun acc n => add_node acc (phi (nk n)) []))
      by (intros; now rewrite Hphi).
    now rewrite (phase0 g gempty) by exact H.
  Qed.
  Lemma h1_eq g : NoDup (pkeys g) ->
    fold_left (fun acc n => gupdate (map_get m (nk n)) (fun x => {| nk := nk x; na := na n; nadj := nadj x |}) acc) g (map mk0 g) = map rl g.
  Proof.
    intros H. rewrite (SquashProofs.fold_left_ext _ upd) by (intros; unfold upd; now rewrite Hphi).
    exact (phase1 g [] H).
  Qed.
  Theorem relabel_closed_form g : NoDup (pkeys g) -> relabel_copy g m = SquashProofs.add_edges (redges g) (map rl g).
  Proof.
    intros H. unfold relabel_copy. rewrite (h0_eq g H), (h1_eq g H).
    unfold SquashProofs.add_edges, redges. rewrite SquashProofs.fold_left_map. apply SquashProofs.fold_left_ext.
    intros a e. cbn. now rewrite !Hphi.
  Qed.
End Relabel.

(** ---------------------------------------------------------------- G.edges enumerates every adjacency exactly in one direction *)
Lemma edges_from_iff r : forall seen u v d, In (u, v, d) (edges_from r seen) <->
  exists pre n post, r = pre ++ n :: post /\ nk n = u /\ In (v, d) (nadj n) /\ ~ In v seen /\ ~ In v (node_keys pre).
Proof.
  induction r as [|n r IH]; intros seen u v d; cbn [edges_from].
  - split; [contradiction|]. intros (pre & x & post & E & _). destruct pre; discriminate.
  - rewrite in_app_iff, IH. split.
    + intros [H|(pre & x & post & E & Hu & Ha & Hs & Hp)].
      * apply in_flat_map in H as ([w a] & Hin & Hx). cbn [fst snd] in Hx.
        destruct (existsb (Z.eqb w) seen) eqn:Es; [contradiction|]. destruct Hx as [Hx|[]]. inversion Hx; subst.
        exists [], n, r. repeat split; auto. intros Hs. assert (existsb (Z.eqb v) seen = true) as X; [|congruence].
        apply existsb_exists. exists v. split; [exact Hs|apply Z.eqb_refl].
      * exists (n :: pre), x, post. subst r. repeat split; auto; [intros X; apply Hs; now right|].
        cbn. intros [X|X]; [apply Hs; now left|contradiction].
    + intros (pre & x & post & E & Hu & Ha & Hs & Hp). destruct pre as [|p pre]; cbn in E; inversion E; subst.
      * left. apply in_flat_map. exists (v, d). split; [exact Ha|]. cbn [fst snd].
        destruct (existsb (Z.eqb v) seen) eqn:Es; [|now left].
        apply existsb_exists in Es as [s [Hs' Ev]]. apply Z.eqb_eq in Ev. subst. contradiction.
      * right. exists pre, x, post. repeat split; auto; [intros [X|X]; [apply Hp; now left|contradiction]|].
        intros X. apply Hp. now right.
Qed.

Lemma nodup_app_not_in {A} (a b : list A) x : NoDup (a ++ b) -> In x b -> ~ In x a.
Proof.
  induction a as [|y r IH]; cbn; intros H Hb; [tauto|]. inversion H; subst. intros [->|Hr].
  - apply H2. apply in_or_app. now right.
  - exact (IH H3 Hb Hr).
Qed.
Lemma has_edge_of_adj g n v d : NoDup (node_keys g) -> In n g -> In (v, d) (nadj n) -> has_edge g (nk n) v = true.
Proof.
  intros Hn Hin Ha. unfold has_edge. rewrite (SquashProofs.gfind_of_In g n Hn Hin).
  destruct (SquashProofs.In_adj_get _ _ _ Ha) as [b ->]. reflexivity.
Qed.
Lemma edges_endpoints g u v d : wf_graph g -> In (u, v, d) (edges_data g) -> has_node g u = true /\ has_node g v = true.
Proof.
  intros [Hn Hc _ _] H. apply edges_from_iff in H as (pre & n & post & E & Hu & Ha & _ & _). subst u.
  assert (In n g) as Hin by (rewrite E; apply in_or_app; right; now left).
  pose proof (has_edge_of_adj g n v d Hn Hin Ha) as He. split; [eapply SquashProofs.has_edge_has_node; exact He|exact (Hc _ _ He)].
Qed.

Theorem edges_data_spec g : wf_graph g -> forall y x,
  existsb (fun e => SquashProofs.eqpair y x (fst (fst e)) (snd (fst e))) (edges_data g) = has_edge g y x.
Proof.
  intros Hw y x. destruct Hw as [Hn Hc Hs Hl].
  destruct (has_edge g y x) eqn:He.
  - apply existsb_exists. unfold has_edge in He. destruct (gfind y g) as [ny|] eqn:Ey; [|discriminate].
    destruct (adj_get x (nadj ny)) as [d|] eqn:Ea; [|discriminate]. apply SquashProofs.adj_get_In in Ea.
    pose proof (gfind_In _ _ _ Ey) as Hy. pose proof (gfind_key _ _ _ Ey) as Ky.
    destruct (in_split _ _ Hy) as (pre & post & Eg).
    destruct (in_dec Z.eq_dec x (node_keys pre)) as [Hx|Hx].
    + (* x comes before y: the edge was reported from x *)
      unfold node_keys in Hx. apply in_map_iff in Hx as [nx [Kx Hx]]. destruct (in_split _ _ Hx) as (p1 & p2 & Ep).
      assert (has_edge g x y = true) as He' by (rewrite <- Hs; unfold has_edge; rewrite Ey; destruct (SquashProofs.In_adj_get _ _ _ Ea) as [b ->]; reflexivity).
      assert (In nx g) as Hxg by (rewrite Eg, Ep; apply in_or_app; left; apply in_or_app; right; now left).
      unfold has_edge in He'. rewrite <- Kx, (SquashProofs.gfind_of_In g nx Hn Hxg) in He'.
      destruct (adj_get y (nadj nx)) as [d'|] eqn:Ea'; [|discriminate]. apply SquashProofs.adj_get_In in Ea'.
      exists (x, y, d'). split.
      * apply edges_from_iff. exists p1, nx, (p2 ++ ny :: post). repeat split; auto.
        -- rewrite Eg, Ep, <- app_assoc. reflexivity.
        -- intros Hy1. rewrite Eg, Ep in Hn. unfold node_keys in Hn, Hy1. rewrite <- app_assoc, map_app in Hn.
           apply (nodup_app_not_in _ _ y Hn); [|exact Hy1]. rewrite <- Ky. apply in_map.
           cbn. right. apply in_or_app. right. now left.
      * cbn. unfold SquashProofs.eqpair. rewrite !Z.eqb_refl. cbn. apply orb_true_r.
    + exists (y, x, d). split.
      * apply edges_from_iff. exists pre, ny, post. repeat split; auto.
      * cbn. unfold SquashProofs.eqpair. now rewrite !Z.eqb_refl.
  - destruct (existsb _ (edges_data g)) eqn:Ex; [|reflexivity]. exfalso.
    apply existsb_exists in Ex as ([[u v] d] & Hin & Hp). cbn [fst snd] in Hp.
    apply edges_from_iff in Hin as (pre & n & post & E & Hu & Ha & _ & _).
    assert (In n g) as Hng by (rewrite E; apply in_or_app; right; now left).
    pose proof (has_edge_of_adj g n v d Hn Hng Ha) as Huv. rewrite Hu in Huv.
    unfold SquashProofs.eqpair in Hp. apply orb_true_iff in Hp as [Hp|Hp]; apply andb_true_iff in Hp as [P1 P2];
      apply Z.eqb_eq in P1, P2; subst; [congruence|]. rewrite Hs in Huv. congruence.
Qed.

(** ---------------------------------------------------------------- relabel_nodes(copy=True) along an injective map *)
Definition inj_on (phi : Z -> Z) (ks : list Z) : Prop := forall a b, In a ks -> In b ks -> phi a = phi b -> a = b.
Lemma inj_nodup phi ks : NoDup ks -> inj_on phi ks -> NoDup (map phi ks).
Proof.
  induction 1 as [|k r Hk Hr IH]; intros Hi; cbn; constructor.
  - intros X. apply in_map_iff in X as [b [E Hb]]. apply Hk. rewrite (Hi k b); auto; [now left|now right].
  - apply IH. intros a b Ha Hb. apply Hi; now right.
Qed.
Lemma pkeys_keys phi g : pkeys phi g = map phi (node_keys g).
Proof. unfold pkeys, node_keys. now rewrite map_map. Qed.

Lemma gfind_rl_gen phi ks : inj_on phi ks -> forall k, In k ks -> forall l, (forall n, In n l -> In (nk n) ks) ->
  gfind (phi k) (map (rl phi) l) = option_map (rl phi) (gfind k l).
Proof.
  intros Hi k Hk. induction l as [|n r IH]; intros Hall; [reflexivity|].
  cbn [map gfind]. change (nk (rl phi n)) with (phi (nk n)).
  destruct (Z.eqb_spec (phi (nk n)) (phi k)) as [E|E].
  - apply Hi in E; [|apply Hall; now left|exact Hk]. subst. now rewrite Z.eqb_refl.
  - destruct (Z.eqb_spec (nk n) k) as [Ek|N]; [rewrite Ek in E; contradiction|]. apply IH. intros x Hx. apply Hall. now right.
Qed.
Lemma has_edge_rl phi l y x : has_edge (map (rl phi) l) y x = false.
Proof.
  unfold has_edge. induction l as [|n r IH]; cbn; [reflexivity|]. destruct (Z.eqb (phi (nk n)) y); [reflexivity|exact IH].
Qed.
Lemma existsb_ext_in {A} (f h : A -> bool) l : (forall a, In a l -> f a = h a) -> existsb f l = existsb h l.
Proof. induction l as [|x r IH]; cbn; intros H; [reflexivity|]. rewrite H by now left. rewrite IH; [reflexivity|]. intros a Ha. apply H. now right. Qed.
Lemma eqb_inj phi ks a u : inj_on phi ks -> In a ks -> In u ks -> Z.eqb (phi a) (phi u) = Z.eqb a u.
Proof.
  intros Hi Ha Hu. destruct (Z.eqb_spec a u) as [->|N]; [apply Z.eqb_refl|].
  destruct (Z.eqb_spec (phi a) (phi u)) as [E|E]; [|reflexivity]. exfalso. apply N. now apply Hi.
Qed.

Section RelabelInj.
  Variables (m : list (Z * Z)) (g : graph).
  Let phi := map_get m.
  Hypothesis Hw : wf_graph g.
  Hypothesis Hi : inj_on phi (node_keys g).

  Lemma Hnd : NoDup (pkeys phi g).
  Proof. rewrite pkeys_keys. apply inj_nodup; [apply Hw|exact Hi]. Qed.

  Lemma gfind_rl k : In k (node_keys g) -> gfind (phi k) (map (rl phi) g) = option_map (rl phi) (gfind k g).
  Proof. intros Hk. apply (gfind_rl_gen phi (node_keys g) Hi k Hk g). intros n Hn. now apply in_map. Qed.

  Lemma redges_ok : forall e, In e (redges phi g) ->
    has_node (map (rl phi) g) (fst (fst e)) = true /\ has_node (map (rl phi) g) (snd (fst e)) = true.
  Proof.
    intros e He. unfold redges in He. apply in_map_iff in He as [[[u v] d] [<- Hin]]. cbn [fst snd].
    destruct (edges_endpoints g u v d Hw Hin) as [Hu Hv].
    split; apply gfind_has; rewrite keys_rl, pkeys_keys; apply in_map; now apply gfind_has.
  Qed.

  (** keys: the relabelled keys in the OLD node order *)
  Theorem relabel_keys : node_keys (relabel_copy g m) = map phi (node_keys g).
  Proof.
    rewrite (relabel_closed_form phi m (fun k => eq_refl) g Hnd).
    destruct (SquashProofs.add_edges_spec (redges phi g) (map (rl phi) g) redges_ok) as [K _].
    now rewrite K, keys_rl, pkeys_keys.
  Qed.
  (** attributes: every node keeps its attribute dict *)
  Theorem relabel_attrs k : In k (node_keys g) -> node_attrs (relabel_copy g m) (phi k) = node_attrs g k.
  Proof.
    intros Hk. rewrite (relabel_closed_form phi m (fun k => eq_refl) g Hnd).
    destruct (SquashProofs.add_edges_spec (redges phi g) (map (rl phi) g) redges_ok) as [_ [N _]].
    specialize (N (phi k)). unfold nattrs in N. rewrite (gfind_rl k Hk) in N. unfold node_attrs.
    destruct (gfind (phi k) (SquashProofs.add_edges _ _)) as [x|]; destruct (gfind k g) as [n|]; cbn in N; try discriminate;
      [inversion N; reflexivity|reflexivity].
  Qed.
  (** adjacency: two nodes are adjacent in the copy iff their originals are *)
  Theorem relabel_adjacent a b : In a (node_keys g) -> In b (node_keys g) ->
    has_edge (relabel_copy g m) (phi a) (phi b) = has_edge g a b.
  Proof.
    intros Ha Hb. rewrite (relabel_closed_form phi m (fun k => eq_refl) g Hnd).
    destruct (SquashProofs.add_edges_spec (redges phi g) (map (rl phi) g) redges_ok) as [_ [_ E]].
    rewrite E, has_edge_rl. cbn [orb]. rewrite <- (edges_data_spec g Hw a b). unfold redges.
    rewrite SquashProofs.existsb_map. apply existsb_ext_in. intros [[u v] d] Hin. cbn [fst snd].
    destruct (edges_endpoints g u v d Hw Hin) as [Hu Hv]. apply gfind_has in Hu, Hv.
    unfold SquashProofs.eqpair. now rewrite !(eqb_inj phi (node_keys g)) by assumption.
  Qed.
End RelabelInj.

(** ---------------------------------------------------------------- sort_nodes_by_attr at graph level *)
Lemma nodup_map_inj phi l : NoDup (map phi l) -> inj_on phi l.
Proof.
  induction l as [|x r IH]; cbn; intros H a b Ha Hb E; [contradiction|]. inversion H as [|? ? Hx Hr]; subst.
  destruct Ha as [<-|Ha]; destruct Hb as [<-|Hb]; auto.
  - exfalso. apply Hx. rewrite E. now apply in_map.
  - exfalso. apply Hx. rewrite <- E. now apply in_map.
  - now apply IH.
Qed.
Lemma seq_of_nat_nodup n : NoDup (map Z.of_nat (seq 0 n)).
Proof. apply FinFun.Injective_map_NoDup; [intros a b E; lia|apply seq_NoDup]. Qed.

Lemma node_get_set_other g j a v k key : key <> a -> node_get (set_node_attr g j a v) k key = node_get g k key.
Proof.
  intros N. unfold node_get. rewrite gfind_set_node_attr. destruct (Z.eqb k j); [|reflexivity].
  destruct (gfind k g); cbn; [now apply aget_aset_other|reflexivity].
Qed.
Lemma set_nodes_from_facts a d : forall g,
  node_keys (set_nodes_from g a d) = node_keys g /\
  (forall y x, has_edge (set_nodes_from g a d) y x = has_edge g y x) /\
  (forall k key, key <> a -> node_get (set_nodes_from g a d) k key = node_get g k key).
Proof.
  unfold set_nodes_from. induction d as [|kv r IH]; cbn [fold_left]; intros g; [auto|].
  destruct (IH (set_node_attr g (fst kv) a (snd kv))) as [K [E N]]. repeat split.
  - now rewrite K, keys_set.
  - intros y x. now rewrite E, SquashProofs.has_edge_set_node_attr.
  - intros k key Hk. now rewrite N, node_get_set_other.
Qed.

Lemma ok_inj {A} (x y : A) : @Ok A x = Ok y -> x = y.
Proof. congruence. Qed.

Theorem sort_graph g h : wf_graph g -> map fst (get_node_attributes g (S "fragid")) = node_keys g ->
  sort_nodes_by_attr g = Ok h ->
  exists m, sort_mapping g = Ok m /\
    inj_on (map_get m) (node_keys g) /\
    Permutation (map (map_get m) (node_keys g)) (map Z.of_nat (seq 0 (length g))) /\
    node_keys h = map (map_get m) (node_keys g) /\
    (forall a b, In a (node_keys g) -> In b (node_keys g) -> has_edge h (map_get m a) (map_get m b) = has_edge g a b) /\
    (forall k key, In k (node_keys g) -> key <> S "ez_isomer_atoms" -> node_get h (map_get m k) key = node_get g k key).
Proof.
  intros Hw Hall H. unfold sort_nodes_by_attr in H. destruct (sort_mapping g) as [m|] eqn:Em; [|discriminate]. unfold bind at 1 in H.
  destruct (GraphOps.map_res _ _) as [nd|]; [|discriminate]. unfold bind in H. apply ok_inj in H. subst h.
  exists m. split; [reflexivity|].
  (* the mapping: keys in sorted order -> 0..n-1 *)
  unfold sort_mapping in Em. destruct (sort_items g) as [ks|] eqn:Ek; [|discriminate]. unfold bind in Em. inversion Em; subst m. clear Em.
  set (sorted := isort ks). set (m := mapping_of sorted).
  assert (map snd ks = node_keys g) as Hks by (rewrite (sort_items_keys g ks Ek); exact Hall).
  assert (Permutation (map snd sorted) (node_keys g)) as Hp by (rewrite <- Hks; apply Permutation_map, isort_perm).
  assert (NoDup (map snd sorted)) as Hns by (eapply Permutation_NoDup; [symmetry; exact Hp|apply Hw]).
  assert (length sorted = length g) as Hlen.
  { apply Permutation_length in Hp. rewrite map_length in Hp. unfold node_keys in Hp. now rewrite map_length in Hp. }
  assert (map (map_get m) (map snd sorted) = map Z.of_nat (seq 0 (length sorted))) as Himg.
  { unfold m, mapping_of. apply map_get_combine; [exact Hns|]. now rewrite !map_length, seq_length. }
  assert (inj_on (map_get m) (node_keys g)) as Hinj.
  { intros a b Ha Hb E. apply (nodup_map_inj (map_get m) (map snd sorted)); auto.
    - rewrite Himg. apply seq_of_nat_nodup.
    - eapply Permutation_in; [symmetry; exact Hp|exact Ha].
    - eapply Permutation_in; [symmetry; exact Hp|exact Hb]. }
  split; [exact Hinj|]. split.
  { rewrite <- Hlen, <- Himg. apply Permutation_map. now symmetry. }
  destruct (set_nodes_from_facts (S "ez_isomer_atoms") nd (relabel_copy g m)) as [K [E N]].
  split; [rewrite K; now apply relabel_keys|]. split.
  - intros a b Ha Hb. rewrite E. now apply relabel_adjacent.
  - intros k key Hk Hkey. rewrite N by exact Hkey. unfold node_get.
    pose proof (relabel_attrs m g Hw Hinj k Hk) as A. unfold node_attrs in A.
    destruct (gfind (map_get m k) (relabel_copy g m)); destruct (gfind k g); try discriminate; [inversion A; now subst|reflexivity].
Qed.

(** ---------------------------------------------------------------- ref_remap: node references follow the permutation *)
Lemma zmap_get_map_get m a : In a (map fst m) -> zmap_get m a = Some (map_get m a).
Proof.
  unfold map_get. induction m as [|[x y] r IH]; cbn; [contradiction|].
  destruct (Z.eqb_spec x a) as [->|N]; [reflexivity|]. intros [E|H]; [contradiction|]. now apply IH.
Qed.
Lemma gna_keys_nodup g a : NoDup (node_keys g) -> NoDup (map fst (get_node_attributes g a)).
Proof.
  unfold get_node_attributes, node_keys. induction g as [|n r IH]; cbn; intros H; [constructor|]. inversion H; subst.
  destruct (aget a (na n)); cbn; [|now apply IH]. constructor; [|now apply IH].
  intros X. apply H2. apply in_map_iff in X as [[k v] [E Hin]]. cbn in E. subst k.
  apply in_flat_map in Hin as [x [Hx Hv]]. destruct (aget a (na x)); [|contradiction]. destruct Hv as [Hv|[]]. inversion Hv; subst.
  now apply in_map.
Qed.
Lemma map_res_fst {A} (f : pyval -> res A) : forall l l',
  GraphOps.map_res (fun kv : Z * pyval => v' <- f (snd kv) ;; Ok (fst kv, v')) l = Ok l' -> map fst l' = map fst l.
Proof.
  induction l as [|x r IH]; cbn; intros l' H; [apply ok_inj in H; now subst|].
  destruct (f (snd x)); cbn in H; [|discriminate]. destruct (GraphOps.map_res _ r) eqn:E; cbn in H; [|discriminate].
  apply ok_inj in H. subst. cbn. f_equal. now apply IH.
Qed.
Lemma set_from_get a : forall d g j v, NoDup (map fst d) -> In (j, v) d -> has_node g j = true ->
  node_get (set_nodes_from g a d) j a = Some v.
Proof.
  unfold set_nodes_from. induction d as [|[j' v'] r IH]; cbn [fold_left map fst snd]; intros g j v Hn Hin Hj; [contradiction|].
  inversion Hn as [|? ? Hx Hr]; subst. destruct Hin as [E|Hin].
  - inversion E; subst. destruct (set_nodes_from_facts a r (set_node_attr g j a v)) as [_ _].
    assert (forall d g0, ~ In j (map fst d) -> node_get (fold_left (fun acc kv => set_node_attr acc (fst kv) a (snd kv)) d g0) j a = node_get g0 j a) as Hk.
    { induction d as [|[j2 v2] d IHd]; cbn [fold_left map fst snd]; intros g0 Hni; [reflexivity|].
      rewrite IHd by (intros X; apply Hni; now right). unfold node_get. rewrite gfind_set_node_attr.
      destruct (Z.eqb_spec j j2) as [->|N]; [exfalso; apply Hni; now left|reflexivity]. }
    rewrite Hk by exact Hx. unfold node_get. rewrite gfind_set_node_attr, Z.eqb_refl.
    unfold has_node in Hj. destruct (gfind j g); [|discriminate]. cbn. apply aget_aset_same.
  - apply IH; auto. apply gfind_has. rewrite keys_set. now apply gfind_has.
Qed.

Theorem ref_remap g h k a b : wf_graph g -> map fst (get_node_attributes g (S "fragid")) = node_keys g ->
  sort_nodes_by_attr g = Ok h -> In k (node_keys g) -> In a (node_keys g) -> In b (node_keys g) ->
  node_get g k (S "ez_isomer_atoms") = Some (VTup [VInt a; VInt b]) ->
  exists m, sort_mapping g = Ok m /\
    node_get h (map_get m k) (S "ez_isomer_atoms") = Some (VList [VInt (map_get m a); VInt (map_get m b)]).
Proof.
  intros Hw Hall H Hk Ha Hb Hez.
  destruct (sort_graph g h Hw Hall H) as [m [Em [Hinj _]]]. exists m. split; [exact Em|].
  unfold sort_nodes_by_attr in H. rewrite Em in H. unfold bind at 1 in H.
  destruct (GraphOps.map_res _ _) as [nd|] eqn:End; [|discriminate]. unfold bind in H. apply ok_inj in H. subst h.
  set (h0 := relabel_copy g m) in *.
  (* keys of the mapping *)
  assert (forall x, In x (node_keys g) -> zmap_get m x = Some (map_get m x)) as Hz.
  { intros x Hx. apply zmap_get_map_get. destruct (sort_keys g m Em) as [_ P]. rewrite Hall in P.
    eapply Permutation_in; [symmetry; exact P|exact Hx]. }
  (* the node phi k of the relabelled copy carries the old attributes *)
  pose proof (relabel_attrs m g Hw Hinj k Hk) as A. fold h0 in A. unfold node_attrs in A. unfold node_get in Hez.
  destruct (gfind (map_get m k) h0) as [x|] eqn:Ex; destruct (gfind k g) as [n|] eqn:En; try discriminate.
  apply ok_inj in A.
  assert (In (map_get m k, VTup [VInt a; VInt b]) (get_node_attributes h0 (S "ez_isomer_atoms"))) as Hin.
  { unfold get_node_attributes. apply in_flat_map. exists x. split; [eapply gfind_In; exact Ex|].
    rewrite A, Hez. left. now rewrite (gfind_key _ _ _ Ex). }
  destruct (map_res_all _ _ _ _ End Hin) as [[j v'] [Hnd Hf]]. cbn [fst snd] in Hf.
  unfold remap_val, strict_get in Hf. cbn [GraphOps.map_res] in Hf. rewrite (Hz a Ha), (Hz b Hb) in Hf. cbn in Hf.
  apply ok_inj in Hf. injection Hf as <- <-.
  apply set_from_get; [|exact Hnd|].
  - rewrite (map_res_fst _ _ _ End). apply gna_keys_nodup. unfold h0. rewrite (relabel_keys m g Hw Hinj).
    apply inj_nodup; [apply Hw|exact Hinj].
  - unfold has_node. now rewrite Ex.
Qed.
