(** BondingSpec: the descriptor-compatibility relation of property C03 and the proof that the
    GENERATED [compatible] (translated from resolve.py on every run) computes it. *)
From Coq Require Import String.
From Coq Require Import List Ascii ZArith Bool Lia.
From CGV Require Import Base.PyBase Base.PyVal Base.PyGen Gen.ResolveGen Resolve.Bonding Resolve.BondingDefs.
Import ListNotations.
Open Scope char_scope.

Lemma one_char_in c : substrb [c] (S "> <") = (Ascii.eqb c ">" || Ascii.eqb c " " || Ascii.eqb c "<").
Proof. cbn. rewrite !andb_true_r, !orb_false_r, orb_assoc. reflexivity. Qed.

Theorem compatible_spec legacy lk lt rk rt :
  compatible (lk :: lt) (rk :: rt) legacy = Ok (Compat legacy lk lt rk rt).
Proof.
  unfold compatible, Compat, compl, unwrap_return.
  destruct legacy;
    cbn [bind ret py_and py_or py_eq py_ne py_not py_in pair2 py_index py_slice_from skipn pyeqb PyEq_str
         PyEq_pair fst snd str_eqb length Z.of_nat Z.ltb Z.leb Z.compare Pos.compare orb nth_error Z.to_nat
         Pos.of_succ_nat Pos.succ].
  - rewrite one_char_in.
    destruct (Ascii.eqb_spec lk rk) as [->|Hk]; cbn [andb].
    + destruct (str_eqb lt rt) eqn:E; cbn [andb bind ret negb].
      * destruct (Ascii.eqb_spec rk ">") as [->|]; cbn; [reflexivity|].
        destruct (Ascii.eqb_spec rk " ") as [->|]; cbn; [reflexivity|].
        destruct (Ascii.eqb_spec rk "<") as [->|]; cbn; reflexivity.
      * cbn. rewrite !andb_true_r.
        destruct (Ascii.eqb rk "<"), (Ascii.eqb rk ">"); cbn; try reflexivity; rewrite ?E; reflexivity.
    + cbn [bind ret]. cbn. rewrite !andb_true_r.
      destruct (Ascii.eqb lk "<"), (Ascii.eqb rk ">"), (Ascii.eqb lk ">"), (Ascii.eqb rk "<"); cbn; reflexivity.
  - cbn. rewrite !andb_true_r.
    destruct (Ascii.eqb_spec lk rk) as [->|Hk]; cbn.
    + destruct (Ascii.eqb rk "$"); cbn; [reflexivity|]. destruct (Ascii.eqb rk "!"); cbn; [reflexivity|].
      destruct (Ascii.eqb rk "<"), (Ascii.eqb rk ">"); reflexivity.
    + destruct (Ascii.eqb lk "<"), (Ascii.eqb rk ">"), (Ascii.eqb lk ">"), (Ascii.eqb rk "<"); reflexivity.
Qed.

Corollary compatible_nonempty legacy l r : l <> [] -> r <> [] ->
  compatible l r legacy = Ok (compat_str legacy l r).
Proof. destruct l, r; try congruence. intros _ _. apply compatible_spec. Qed.

(** an Ok answer of the implementation can only come from non-empty descriptors, and is the spec *)
Lemma compatible_ok legacy l r b : compatible l r legacy = Ok b -> b = compat_str legacy l r.
Proof.
  destruct l as [|lk lt], r as [|rk rt].
  - unfold compatible, unwrap_return. destruct legacy; cbn; discriminate.
  - unfold compatible, unwrap_return. destruct legacy; cbn; discriminate.
  - intros H. exfalso. revert H. unfold compatible, unwrap_return. destruct legacy; cbn.
    + destruct (Ascii.eqb lk ">" || (Ascii.eqb lk " " || (Ascii.eqb lk "<" || false)))%bool; cbn; discriminate.
    + discriminate.
  - rewrite compatible_spec. now intros [= <-].
Qed.

(** what the relation means, in the words of the property *)
Lemma Compat_legacy_sound lk lt rk rt : Compat true lk lt rk rt = true ->
  lt = rt /\ ((lk = rk /\ lk <> ">" /\ lk <> "<") \/ (lk = "<" /\ rk = ">") \/ (lk = ">" /\ rk = "<")).
Proof.
  unfold Compat, compl. intros H. apply orb_true_iff in H as [H|H].
  - apply andb_true_iff in H as [H H3]. apply andb_true_iff in H as [H1 H2].
    apply Ascii.eqb_eq in H1. apply str_eqb_eq in H2. split; [assumption|left].
    apply negb_true_iff in H3. apply orb_false_iff in H3 as [H3 _]. apply orb_false_iff in H3 as [Ha Hb].
    repeat split; [assumption| |]; intros ->; cbn in *; discriminate.
  - apply andb_true_iff in H as [H H2]. apply str_eqb_eq in H2. split; [assumption|right].
    apply orb_true_iff in H as [H|H]; apply andb_true_iff in H as [Ha Hb];
      apply Ascii.eqb_eq in Ha; apply Ascii.eqb_eq in Hb; auto.
Qed.
Lemma Compat_new_sound lk lt rk rt : Compat false lk lt rk rt = true ->
  (lk = rk /\ (lk = "$" \/ lk = "!")) \/ (lk = "<" /\ rk = ">") \/ (lk = ">" /\ rk = "<").
Proof.
  unfold Compat, compl. intros H. apply orb_true_iff in H as [H|H].
  - apply andb_true_iff in H as [H1 H2]. apply Ascii.eqb_eq in H1. subst. left. split; [reflexivity|].
    apply orb_true_iff in H2 as [H|H]; apply Ascii.eqb_eq in H; auto.
  - right. apply orb_true_iff in H as [H|H]; apply andb_true_iff in H as [Ha Hb];
      apply Ascii.eqb_eq in Ha; apply Ascii.eqb_eq in Hb; auto.
Qed.

Example ex_compat :
  compatible (S "$A2") (S "$A2") true = Ok true /\ compatible (S "$A2") (S "$B2") true = Ok false
  /\ compatible (S ">x1") (S "<x1") true = Ok true /\ compatible (S ">x1") (S "<y1") false = Ok true
  /\ compatible (S "$1") (S "$2") true = Ok false /\ compatible (S ">1") (S ">1") true = Ok false
  /\ compatible [] (S "$1") true = Err EIndex.
Proof. repeat split; reflexivity. Qed.
