(** ZeroEdgeStep: C11 for an extra order-0 EDGE (e.g. a zero-order ring bond between two coarse nodes): removing an edge that
    carries the integer order 0 in both adjacency views from the coarse graph (nx remove_edge) changes nothing a whole
    resolution step returns or raises, except the coarse graph it hands back.  No well-formedness hypothesis is needed beyond
    distinct coarse keys. *)
From Coq Require Import String.
From Coq Require Import List Ascii ZArith Bool Lia Sorting.Permutation.
From CGV Require Import Base.PyBase Base.PyVal Base.NxGraph Resolve.Bonding Resolve.GraphOps Resolve.Pipeline Resolve.PipelineFull
     Resolve.MapProofs Resolve.VirtualProofs Resolve.CopyProofs Resolve.FragidProofs Resolve.VirtualStep.
From CGV Require Hydro.Hydrogens Hydro.Squash Stereo.EzImpl Resolve.SortGraphProofs.
Import ListNotations.
Open Scope Z_scope.

(** ---------------------------------------------------------------- nx remove_edge in closed form *)
Definition rm (a b : Z) (n : nrec) : nrec :=
  let n1 := if Z.eqb (nk n) a then adjdel b n else n in if Z.eqb (nk n) b then adjdel a n1 else n1.
Lemma rm_nk a b n : nk (rm a b n) = nk n.
Proof. unfold rm. destruct (Z.eqb (nk n) a), (Z.eqb (nk n) b); reflexivity. Qed.
Lemma rm_na a b n : na (rm a b n) = na n.
Proof. unfold rm. destruct (Z.eqb (nk n) a), (Z.eqb (nk n) b); reflexivity. Qed.
Lemma gupdate_none k f g : ~ In k (node_keys g) -> gupdate k f g = g.
Proof.
  induction g as [|n r IH]; cbn; intros H; [reflexivity|]. destruct (Z.eqb_spec (nk n) k) as [E|N]; [exfalso; apply H; now left|].
  f_equal. apply IH. intros X. apply H. now right.
Qed.
Lemma gupdate_map k f g : NoDup (node_keys g) -> gupdate k f g = map (fun n => if Z.eqb (nk n) k then f n else n) g.
Proof.
  induction g as [|n r IH]; cbn; intros H; [reflexivity|]. inversion H as [|? ? Hx Hr]; subst.
  destruct (Z.eqb_spec (nk n) k) as [E|N]; [|f_equal; now apply IH].
  f_equal. rewrite <- IH by exact Hr. symmetry. apply gupdate_none. now rewrite <- E.
Qed.
Lemma remove_edge_eq g a b : NoDup (node_keys g) -> remove_edge g a b = map (rm a b) g.
Proof.
  intros H. unfold remove_edge. rewrite (gupdate_map a _ g H). rewrite gupdate_map.
  - rewrite map_map. apply map_ext. intros n. unfold rm, adjdel.
    destruct (Z.eqb (nk n) a); cbn [nk]; destruct (Z.eqb (nk n) b); reflexivity.
  - unfold node_keys. rewrite map_map. erewrite map_ext; [exact H|]. intros n. cbn beta. destruct (Z.eqb (nk n) a); reflexivity.
Qed.

(** ---------------------------------------------------------------- G.edges after remove_edge *)
Definition is_ab (a b : Z) (e : Z * Z * attrs) : bool :=
  (Z.eqb (fst (fst e)) a && Z.eqb (snd (fst e)) b) || (Z.eqb (fst (fst e)) b && Z.eqb (snd (fst e)) a).
Definition emit (seen : list Z) (k : Z) (l : list (Z * attrs)) : list (Z * Z * attrs) :=
  flat_map (fun wa : Z * attrs => if existsb (Z.eqb (fst wa)) seen then [] else [(k, fst wa, snd wa)]) l.
Lemma emit_adjdel seen k v l : emit seen k (adj_del v l) = filter (fun e => negb (Z.eqb (snd (fst e)) v)) (emit seen k l).
Proof.
  unfold emit, adj_del. induction l as [|[w d] l IH]; [reflexivity|]. cbn [filter flat_map fst snd]. rewrite filter_app, <- IH.
  destruct (Z.eqb_spec w v) as [->|N]; cbn [negb flat_map fst snd app].
  - destruct (existsb (Z.eqb v) seen); cbn [filter app]; [reflexivity|]. cbn [fst snd]. now rewrite Z.eqb_refl.
  - destruct (existsb (Z.eqb w) seen); cbn [filter app]; [reflexivity|]. cbn [fst snd]. destruct (Z.eqb_spec w v); [contradiction|reflexivity].
Qed.
Lemma emit_fst seen k l e : In e (emit seen k l) -> fst (fst e) = k.
Proof.
  unfold emit. intros H. apply in_flat_map in H as [[w d] [_ H]]. cbn [fst snd] in H.
  destruct (existsb (Z.eqb w) seen); [contradiction|]. destruct H as [<-|[]]. reflexivity.
Qed.
Lemma emit_rm a b seen n : emit seen (nk (rm a b n)) (nadj (rm a b n)) = filter (fun e => negb (is_ab a b e)) (emit seen (nk n) (nadj n)).
Proof.
  rewrite rm_nk. unfold rm, adjdel.
  destruct (Z.eqb_spec (nk n) a) as [Ea|Na]; destruct (Z.eqb_spec (nk n) b) as [Eb|Nb]; cbn [nk nadj].
  - rewrite !emit_adjdel, <- Ea in *. rewrite <- Eb. 
    rewrite (filter_ext_in (fun e => negb (is_ab (nk n) (nk n) e)) (fun e => negb (Z.eqb (snd (fst e)) (nk n)))).
    + generalize (emit seen (nk n) (nadj n)). intros l. induction l as [|x l IH]; [reflexivity|]. cbn [filter].
      destruct (negb (Z.eqb (snd (fst x)) (nk n))) eqn:E; cbn [filter]; rewrite ?E; now rewrite IH.
    + intros e He. unfold is_ab. rewrite (emit_fst _ _ _ _ He), Z.eqb_refl. cbn. now rewrite orb_diag.
  - rewrite emit_adjdel. apply filter_ext_in. intros e He. unfold is_ab. rewrite (emit_fst _ _ _ _ He).
    rewrite Ea, Z.eqb_refl. destruct (Z.eqb_spec a b); [congruence|]. cbn. now rewrite orb_false_r.
  - rewrite emit_adjdel. apply filter_ext_in. intros e He. unfold is_ab. rewrite (emit_fst _ _ _ _ He).
    rewrite Eb, Z.eqb_refl. destruct (Z.eqb_spec b a); [congruence|]. reflexivity.
  - symmetry. rewrite (filter_ext_in _ (fun _ => true)).
    + generalize (emit seen (nk n) (nadj n)). intros l. induction l as [|x l IH]; [reflexivity|]. cbn [filter]. now rewrite IH.
    + intros e He. unfold is_ab. rewrite (emit_fst _ _ _ _ He). destruct (Z.eqb_spec (nk n) a); [contradiction|].
      destruct (Z.eqb_spec (nk n) b); [contradiction|]. reflexivity.
Qed.
Lemma edges_from_rm a b : forall r seen, edges_from (map (rm a b) r) seen = filter (fun e => negb (is_ab a b e)) (edges_from r seen).
Proof.
  induction r as [|n r IH]; intros seen; [reflexivity|]. cbn [map edges_from]. rewrite filter_app, <- IH, rm_nk. f_equal.
  pose proof (emit_rm a b seen n) as E. rewrite rm_nk in E. exact E.
Qed.
Theorem edges_data_remove_edge g a b : NoDup (node_keys g) ->
  edges_data (remove_edge g a b) = filter (fun e => negb (is_ab a b e)) (edges_data g).
Proof. intros H. unfold edges_data. rewrite (remove_edge_eq g a b H). apply edges_from_rm. Qed.

(** ---------------------------------------------------------------- the stages *)
(** the edge a-b carries the integer order 0, seen from a and from b *)
Definition zedge (a b : Z) (g : graph) : Prop :=
  forall n, In n g -> (nk n = a -> forall d, In (b, d) (nadj n) -> int_zero d) /\ (nk n = b -> forall d, In (a, d) (nadj n) -> int_zero d).

Lemma disc_step_rm fd a b st n : (nk n = a -> forall d, In (b, d) (nadj n) -> int_zero d) ->
  (nk n = b -> forall d, In (a, d) (nadj n) -> int_zero d) -> disc_step fd st (rm a b n) = disc_step fd st n.
Proof.
  intros Ha Hb. unfold rm.
  destruct (Z.eqb_spec (nk n) a) as [Ea|Na]; destruct (Z.eqb_spec (nk n) b) as [Eb|Nb]; cbn [nk adjdel]; try reflexivity.
  - rewrite disc_step_adjdel; [now apply disc_step_adjdel, Ha|].
    intros d Hd. cbn [adjdel nadj] in Hd. unfold adj_del in Hd. apply filter_In in Hd as [Hd _]. now apply Hb.
  - now apply disc_step_adjdel, Ha.
  - now apply disc_step_adjdel, Hb.
Qed.
Theorem disconnected_remove_edge fd a b g : NoDup (node_keys g) -> zedge a b g ->
  resolve_disconnected fd (remove_edge g a b) = resolve_disconnected fd g.
Proof.
  intros Hn Hz. unfold resolve_disconnected. rewrite (remove_edge_eq g a b Hn). generalize (@gempty, @nil (Z * graph)).
  assert (forall l, (forall n, In n l -> In n g) -> forall st, GraphOps.fold_res (disc_step fd) (map (rm a b) l) st
            = GraphOps.fold_res (disc_step fd) l st) as Hl; [|apply Hl; auto].
  induction l as [|n r IH]; intros Hin st; [reflexivity|]. cbn [map GraphOps.fold_res].
  destruct (Hz n (Hin n (or_introl eq_refl))) as [Ha Hb]. rewrite (disc_step_rm fd a b st n Ha Hb).
  destruct (disc_step fd st n); cbn [bind]; [|reflexivity]. apply IH. intros x Hx. apply Hin. now right.
Qed.

Definition is_ab3 (a b : Z) (e : Z * Z * Z) : bool :=
  (Z.eqb (fst (fst e)) a && Z.eqb (snd (fst e)) b) || (Z.eqb (fst (fst e)) b && Z.eqb (snd (fst e)) a).
Lemma ab_edges_zero a b g : zedge a b g -> forall e, In e (edges_data g) -> is_ab a b e = true -> int_zero (snd e).
Proof.
  intros Hz [[u v] d] Hin Ht. unfold edges_data in Hin.
  destruct (SortGraphProofs.edges_from_iff g [] u v d) as [Hf _]. destruct (Hf Hin) as (pre & n & post & Eg & Eu & Ha & _ & _).
  assert (In n g) as Hng by (rewrite Eg; apply in_or_app; right; now left). destruct (Hz n Hng) as [Za Zb].
  unfold is_ab in Ht. cbn [fst snd] in *. apply orb_true_iff in Ht as [Ht|Ht]; apply andb_true_iff in Ht as [H1 H2]; apply Z.eqb_eq in H1, H2; rewrite H2 in Ha.
  - exact (Za (eq_trans Eu H1) d Ha).
  - exact (Zb (eq_trans Eu H1) d Ha).
Qed.
Theorem bonding_remove_edge legacy aa a b g mol fgs : NoDup (node_keys g) -> zedge a b g ->
  bonding_step legacy aa (remove_edge g a b) mol fgs = bonding_step legacy aa g mol fgs.
Proof.
  intros Hn Hz. unfold bonding_step, bonds_of.
  set (h := fun e : Z * Z * attrs => o <- of_option (aget (S "order") (snd e)) EKey ;; z <- as_int_strict o ;; Ok (fst (fst e), snd (fst e), z)).
  assert (base_edges (remove_edge g a b) = (es <- base_edges g ;; Ok (filter (fun e => negb (is_ab3 a b e)) es))) as Hb.
  { unfold base_edges. rewrite (edges_data_remove_edge g a b Hn). fold h.
    apply (map_res_filter_zero h (fun e => negb (is_ab a b e)) (fun e => negb (is_ab3 a b e))).
    - intros e He Hp. apply negb_false_iff in Hp. pose proof (ab_edges_zero a b g Hz e He Hp) as Hz0.
      exists (fst (fst e), snd (fst e), 0). split; [unfold h; unfold int_zero in Hz0; rewrite Hz0; reflexivity|].
      apply negb_false_iff. exact Hp.
    - intros e y He Hy. unfold h in Hy. destruct (aget (S "order") (snd e)); cbn [of_option bind] in Hy; [|discriminate Hy].
      destruct (as_int_strict p); cbn [bind] in Hy; [|discriminate Hy]. apply ok_some in Hy. subst y. reflexivity. }
  rewrite Hb. destruct (base_edges g) as [es|e] eqn:Eb; cbn [bind]; [|reflexivity].
  destruct (tables_of fgs) as [s0|e]; cbn [bind]; [|reflexivity].
  rewrite bonding_filter; [reflexivity|].
  intros e He Hp. apply negb_false_iff in Hp.
  unfold base_edges in Eb. fold h in Eb. destruct (map_res_in _ _ _ _ Eb He) as [e0 [He0 Hh]].
  assert (is_ab a b e0 = true) as Ht.
  { unfold h in Hh. destruct (aget (S "order") (snd e0)); cbn [of_option bind] in Hh; [|discriminate Hh].
    destruct (as_int_strict p); cbn [bind] in Hh; [|discriminate Hh]. apply ok_some in Hh. subst e. exact Hp. }
  pose proof (ab_edges_zero a b g Hz e0 He0 Ht) as Hz0. unfold h, int_zero in *. rewrite Hz0 in Hh. cbn in Hh. apply ok_some in Hh. now subst e.
Qed.

(** annotate_fragments and the atom naming read the coarse KEYS only *)
Lemma annotate_rm a b meta mol : annotate_fragments (map (rm a b) meta) mol = annotate_fragments meta mol.
Proof.
  unfold annotate_fragments. destruct (fragid_map mol) as [fm|]; cbn [bind]; [|reflexivity].
  apply map_res_map_ext. intros x. now rewrite rm_nk.
Qed.
Lemma fraglist_rm a b meta fgs : fraglist_of (map (rm a b) meta) fgs = fraglist_of meta fgs.
Proof. unfold fraglist_of. induction meta as [|n r IH]; [reflexivity|]. cbn [map flat_map]. now rewrite IH, rm_nk. Qed.
Lemma names_rm a b mol meta fgs : set_atom_names mol (map (rm a b) meta) fgs = set_atom_names mol meta fgs.
Proof. unfold set_atom_names. now rewrite fraglist_rm. Qed.

(** ---------------------------------------------------------------- the whole step *)
Definition with_meta (fo : full_out) (m : graph) : full_out :=
  {| fo_meta := m; fo_m2 := fo_m2 fo; fo_m3 := fo_m3 fo; fo_m4 := fo_m4 fo; fo_m5 := fo_m5 fo; fo_m6 := fo_m6 fo;
     fo_mol := fo_mol fo; fo_fgs := fo_fgs fo |}.
Lemma core_remove_edge legacy aa fd M car a b : NoDup (node_keys M) -> zedge a b M ->
  step_on legacy aa fd (remove_edge M a b) car =
  match step_on legacy aa fd M car with Ok fo => Ok (with_meta fo (remove_edge M a b)) | Err e => Err e end.
Proof.
  intros Hn Hz. unfold step_on. rewrite (disconnected_remove_edge fd a b M Hn Hz).
  destruct (resolve_disconnected fd M) as [[m1 fg1]|]; cbn [bind]; [|reflexivity].
  rewrite (bonding_remove_edge legacy aa a b M m1 fg1 Hn Hz).
  destruct (bonding_step legacy aa M m1 fg1) as [[m2 fg2]|]; cbn [bind]; [|reflexivity].
  destruct (Squash.squash_atoms m2) as [m3|]; cbn [bind]; [|reflexivity].
  destruct (if aa then Hydrogens.rebuild_h_atoms_default m3 car else Ok m3) as [m4|]; cbn [bind]; [|reflexivity].
  destruct (sort_nodes_by_attr m4) as [m5|]; cbn [bind]; [|reflexivity].
  destruct (if aa then EzImpl.annotate_ez_isomers_cgsmiles m5 else Ok m5) as [m6|]; cbn [bind]; [|reflexivity].
  rewrite (remove_edge_eq M a b Hn), annotate_rm.
  destruct (annotate_fragments M m6) as [fgs|]; cbn [bind]; [|reflexivity].
  rewrite names_rm.
  destruct (if aa then set_atom_names m6 M fgs else Ok (m6, fgs)) as [[m7 fgs7]|]; cbn [bind]; reflexivity.
Qed.

Lemma rm_upd a b x y n : rm a b (upd_from x y n) = upd_from x y (rm a b n).
Proof.
  unfold rm, upd_from, adjdel. destruct (aget y (na n)) eqn:E; cbn [nk na nadj];
    destruct (Z.eqb (nk n) a), (Z.eqb (nk n) b); cbn [nk na nadj]; rewrite ?E; reflexivity.
Qed.
Lemma meta_remove_edge prev a b : NoDup (node_keys prev) -> meta_in (remove_edge prev a b) = remove_edge (meta_in prev) a b.
Proof.
  intros H. assert (NoDup (node_keys (meta_in prev))) as H2 by (unfold meta_in; now rewrite set_from_keys).
  rewrite (remove_edge_eq _ a b H2), (meta_in_closed prev H), (remove_edge_eq prev a b H).
  rewrite meta_in_closed by (unfold node_keys; rewrite map_map; erewrite map_ext; [exact H|intros n; apply rm_nk]).
  rewrite !map_map. apply map_ext. intros n. symmetry. apply rm_upd.
Qed.

(** C11 for an extra order-0 edge, any level, any flags, any transcript: the step on the coarse graph without the edge returns
    (or raises) exactly what the step on the coarse graph with it returns (raises); only the coarse graph handed back differs *)
Theorem step_remove_zero_edge legacy aa fd prev car a b : NoDup (node_keys prev) -> zedge a b (meta_in prev) ->
  resolve_step_full legacy aa fd (remove_edge prev a b) car =
  match resolve_step_full legacy aa fd prev car with
  | Ok fo => Ok (with_meta fo (remove_edge (meta_in prev) a b))
  | Err e => Err e
  end.
Proof.
  intros Hn Hz. rewrite !step_on_eq, (meta_remove_edge prev a b Hn). apply core_remove_edge; [|exact Hz].
  unfold meta_in. now rewrite set_from_keys.
Qed.
