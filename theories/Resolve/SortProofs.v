(** SortProofs: proofs about the model of graph_utils.sort_nodes_by_attr (Resolve/GraphOps.v):
    the comparison of (fragid list, old key) is a strict total order, insertion sort returns THE sorted
    permutation (so Python's Timsort returns the same list), new keys are 0..n-1, blocks are contiguous. *)
From Coq Require Import String.
From Coq Require Import List Ascii ZArith Bool Lia Sorting.Sorted Sorting.Permutation.
From CGV Require Import Base.PyBase Base.PyVal Base.NxGraph Resolve.GraphOps.
Import ListNotations.
Open Scope Z_scope.

(** ---------------------------------------------------------------- the order *)
Lemma lex_cmp_refl a : lex_cmp a a = Eq.
Proof. induction a as [|x a IH]; cbn; [reflexivity|]. now rewrite Z.compare_refl. Qed.

Lemma lex_cmp_eq a : forall b, lex_cmp a b = Eq -> a = b.
Proof.
  induction a as [|x a IH]; destruct b as [|y b]; cbn; try discriminate; [reflexivity|].
  destruct (Z.compare_spec x y) as [E|E|E]; try discriminate. intros H0. subst. f_equal. now apply IH.
Qed.

Lemma lex_cmp_antisym a : forall b, lex_cmp b a = CompOpp (lex_cmp a b).
Proof.
  induction a as [|x a IH]; destruct b as [|y b]; cbn; try reflexivity.
  rewrite (Z.compare_antisym x y). destruct (x ?= y); cbn; auto.
Qed.

Lemma lex_cmp_trans a : forall b c, lex_cmp a b = Lt -> lex_cmp b c = Lt -> lex_cmp a c = Lt.
Proof.
  induction a as [|x a IH]; destruct b as [|y b]; destruct c as [|z c]; cbn; try discriminate; try reflexivity.
  destruct (Z.compare_spec x y), (Z.compare_spec y z); try discriminate; intros H1 H2; subst.
  - rewrite Z.compare_refl. eapply IH; eauto.
  - destruct (Z.compare_spec z z); try lia. destruct (Z.compare_spec y z); try lia. reflexivity.
  - destruct (Z.compare_spec x z); try lia. reflexivity.
  - destruct (Z.compare_spec x z); try lia. reflexivity.
Qed.

Definition key_lt (a b : sort_key) : Prop := key_cmp a b = Lt.
Definition key_le (a b : sort_key) : Prop := key_cmp a b <> Gt.

Lemma key_cmp_refl a : key_cmp a a = Eq.
Proof. unfold key_cmp. now rewrite lex_cmp_refl, Z.compare_refl. Qed.
Lemma key_cmp_eq a b : key_cmp a b = Eq -> a = b.
Proof.
  unfold key_cmp. destruct a as [l k], b as [l' k']; cbn.
  destruct (lex_cmp l l') eqn:E; try discriminate. intros H. apply lex_cmp_eq in E. apply Z.compare_eq in H. now subst.
Qed.
Lemma key_cmp_antisym a b : key_cmp b a = CompOpp (key_cmp a b).
Proof.
  unfold key_cmp. rewrite (lex_cmp_antisym (fst a) (fst b)). destruct (lex_cmp (fst a) (fst b)); cbn; auto.
  apply Z.compare_antisym.
Qed.
Lemma key_lt_trans a b c : key_lt a b -> key_lt b c -> key_lt a c.
Proof.
  unfold key_lt, key_cmp. destruct a as [l1 k1], b as [l2 k2], c as [l3 k3]; cbn.
  destruct (lex_cmp l1 l2) eqn:E1; try discriminate; destruct (lex_cmp l2 l3) eqn:E2; try discriminate; intros H1 H2.
  - apply lex_cmp_eq in E1, E2. subst. rewrite lex_cmp_refl.
    rewrite Z.compare_lt_iff in *. lia.
  - apply lex_cmp_eq in E1. subst. now rewrite E2.
  - apply lex_cmp_eq in E2. subst. now rewrite E1.
  - now rewrite (lex_cmp_trans _ _ _ E1 E2).
Qed.
Lemma key_lt_irrefl a : ~ key_lt a a.
Proof. unfold key_lt. now rewrite key_cmp_refl. Qed.
Lemma key_lt_asym a b : key_lt a b -> ~ key_lt b a.
Proof. intros H1 H2. exact (key_lt_irrefl a (key_lt_trans _ _ _ H1 H2)). Qed.
(** totality: distinct keys are comparable *)
Lemma key_total a b : a <> b -> key_lt a b \/ key_lt b a.
Proof.
  intros N. unfold key_lt. rewrite (key_cmp_antisym a b). destruct (key_cmp a b) eqn:E; cbn; auto.
  now apply key_cmp_eq in E.
Qed.
Lemma key_ltb_lt a b : key_ltb a b = true <-> key_lt a b.
Proof. unfold key_ltb, key_lt. destruct (key_cmp a b); split; congruence. Qed.
Lemma key_ltb_false a b : key_ltb a b = false -> a = b \/ key_lt b a.
Proof.
  unfold key_ltb, key_lt. rewrite (key_cmp_antisym a b). destruct (key_cmp a b) eqn:E; try discriminate; intros _; cbn; auto.
  left. now apply key_cmp_eq.
Qed.

(** ---------------------------------------------------------------- insertion sort *)
Lemma insert_perm k l : Permutation (insert_key k l) (k :: l).
Proof.
  induction l as [|x r IH]; cbn; [reflexivity|].
  destruct (key_ltb k x); [reflexivity|]. rewrite IH. apply perm_swap.
Qed.
Theorem isort_perm l : Permutation (isort l) l.
Proof. induction l as [|x r IH]; cbn; [reflexivity|]. rewrite insert_perm. now constructor. Qed.

Definition key_leq (a b : sort_key) : Prop := a = b \/ key_lt a b.
Lemma insert_hdrel a k l : key_leq a k -> HdRel key_leq a l -> HdRel key_leq a (insert_key k l).
Proof.
  intros Hk H. destruct l as [|x r]; cbn; [now constructor|].
  destruct (key_ltb k x); constructor; auto. now inversion H.
Qed.
Lemma insert_sorted k l : Sorted key_leq l -> Sorted key_leq (insert_key k l).
Proof.
  induction 1 as [|x r Hs IH Hh]; cbn; [repeat constructor|].
  destruct (key_ltb k x) eqn:E.
  - constructor; [now constructor|]. constructor. right. now apply key_ltb_lt.
  - constructor; [exact IH|]. apply insert_hdrel; [|exact Hh].
    destruct (key_ltb_false _ _ E); [left; congruence|now right].
Qed.
Lemma isort_sorted_leq l : Sorted key_leq (isort l).
Proof. induction l; cbn; [constructor|now apply insert_sorted]. Qed.

Lemma key_leq_trans a b c : key_leq a b -> key_leq b c -> key_leq a c.
Proof.
  intros [->|H1] [->|H2]; [now left|now right|now right|]. right. eapply key_lt_trans; eauto.
Qed.
Lemma sorted_strong l : Sorted key_leq l -> StronglySorted key_leq l.
Proof. apply Sorted_StronglySorted. intros a b c. apply key_leq_trans. Qed.

(** with pairwise distinct entries the result is strictly ascending *)
Lemma strong_strict l : StronglySorted key_leq l -> NoDup l -> StronglySorted key_lt l.
Proof.
  induction 1 as [|x r Hs IH Hf]; intros Hn; constructor; inversion Hn; subst; auto.
  rewrite Forall_forall in *. intros y Hy. destruct (Hf y Hy) as [->|H]; [contradiction|exact H].
Qed.
Theorem isort_sorted l : NoDup l -> StronglySorted key_lt (isort l).
Proof.
  intros Hn. apply strong_strict; [apply sorted_strong, isort_sorted_leq|].
  eapply Permutation_NoDup; [symmetry; apply isort_perm|exact Hn].
Qed.

(** uniqueness of the sorted permutation: whatever algorithm `sorted` uses, it returns [isort l] *)
Theorem sorted_unique l : forall l', Permutation l l' -> StronglySorted key_lt l -> StronglySorted key_lt l' -> l = l'.
Proof.
  induction l as [|a r IH]; intros l' P S1 S2.
  - apply Permutation_nil in P. now subst.
  - destruct l' as [|b r']; [apply Permutation_sym, Permutation_nil in P; discriminate|].
    inversion S1 as [|? ? S1r F1]; subst. inversion S2 as [|? ? S2r F2]; subst.
    rewrite Forall_forall in F1, F2.
    assert (a = b) as ->.
    { assert (In a (b :: r')) as Ha by (eapply Permutation_in; [exact P|now left]).
      assert (In b (a :: r)) as Hb by (eapply Permutation_in; [symmetry; exact P|now left]).
      destruct Ha as [->|Ha]; [reflexivity|]. destruct Hb as [->|Hb]; [reflexivity|].
      exfalso. exact (key_lt_asym _ _ (F1 _ Hb) (F2 _ Ha)). }
    f_equal. apply IH; auto. eapply Permutation_cons_inv; exact P.
Qed.
Corollary any_sort_is_isort l l' : NoDup l -> Permutation l' l -> StronglySorted key_lt l' -> l' = isort l.
Proof.
  intros Hn P S. apply sorted_unique; [|exact S|now apply isort_sorted].
  rewrite P. symmetry. apply isort_perm.
Qed.

(** ---------------------------------------------------------------- the mapping old key -> new key *)
Lemma map_fst_combine {A B} (l : list A) : forall (m : list B), length l = length m -> map fst (combine l m) = l.
Proof. induction l; destruct m; cbn; try discriminate; auto. intros E. f_equal. apply IHl. lia. Qed.
Lemma map_snd_combine {A B} (l : list A) : forall (m : list B), length l = length m -> map snd (combine l m) = m.
Proof. induction l; destruct m; cbn; try discriminate; auto. intros E. f_equal. apply IHl. lia. Qed.

Lemma mapping_fst sorted : map fst (mapping_of sorted) = map snd sorted.
Proof. unfold mapping_of. apply map_fst_combine. now rewrite !map_length, seq_length. Qed.
Lemma mapping_snd sorted : map snd (mapping_of sorted) = map Z.of_nat (seq 0 (length sorted)).
Proof. unfold mapping_of. apply map_snd_combine. now rewrite !map_length, seq_length. Qed.

Lemma map_res_length {A B} (f : A -> res B) : forall l l', map_res f l = Ok l' -> length l' = length l.
Proof.
  induction l as [|x r IH]; cbn; intros l' H; [inversion H; reflexivity|].
  destruct (f x); cbn in H; [|discriminate]. destruct (map_res f r) eqn:E; cbn in H; [|discriminate].
  inversion H; subst. cbn. f_equal. now apply IH.
Qed.
Lemma sort_items_keys g : forall ks, sort_items g = Ok ks -> map snd ks = map fst (get_node_attributes g (S "fragid")).
Proof.
  unfold sort_items. generalize (get_node_attributes g (S "fragid")). induction l as [|x r IH]; cbn; intros ks H.
  - inversion H. reflexivity.
  - destruct (ints_of (snd x)); cbn in H; [|discriminate].
    destruct (map_res _ r) eqn:E; cbn in H; [|discriminate]. inversion H; subst. cbn. f_equal. now apply IH.
Qed.

(** sort_keys: the new node keys are exactly 0..n-1, assigned to a permutation of the old keys that carry
    the sort attribute; sort_sorted: in ascending (fragid, old key) order; sort_perm *)
Theorem sort_keys (g : graph) (m : list (Z * Z)) : sort_mapping g = Ok m ->
  map snd m = map Z.of_nat (seq 0 (length m)) /\
  Permutation (map fst m) (map fst (get_node_attributes g (S "fragid"))).
Proof.
  unfold sort_mapping. intros H. destruct (sort_items g) as [ks|] eqn:E; [|discriminate]. unfold bind in H. inversion H; subst. split.
  - rewrite mapping_snd. unfold mapping_of. rewrite combine_length, !map_length, seq_length. now rewrite Nat.min_id.
  - rewrite mapping_fst, <- (sort_items_keys g ks E). apply Permutation_map, isort_perm.
Qed.
Theorem sort_sorted g ks : sort_items g = Ok ks -> NoDup (map snd ks) ->
  StronglySorted key_lt (isort ks) /\ Permutation (isort ks) ks /\
  (forall l', Permutation l' ks -> StronglySorted key_lt l' -> l' = isort ks).
Proof.
  intros _ Hn. assert (NoDup ks) as Hk by (eapply NoDup_map_inv; exact Hn).
  split; [now apply isort_sorted|]. split; [apply isort_perm|]. intros l' P S. now apply any_sort_is_isort.
Qed.

(** ---------------------------------------------------------------- contiguous blocks *)
Lemma ss_nth l : StronglySorted key_lt l -> forall i j d, (i < j)%nat -> (j < length l)%nat -> key_lt (nth i l d) (nth j l d).
Proof.
  induction 1 as [|x r Hs IH Hf]; intros i j d Hij Hj; cbn in Hj; [lia|].
  destruct i, j; try lia; cbn.
  - rewrite Forall_forall in Hf. apply Hf, nth_In. lia.
  - apply IH; lia.
Qed.
Lemma key_lt_fst a b : key_lt a b -> lex_cmp (fst a) (fst b) <> Gt.
Proof. unfold key_lt, key_cmp. destruct (lex_cmp (fst a) (fst b)); congruence. Qed.

(** membership lists ascend with the new key *)
Theorem block_monotone l : StronglySorted key_lt l ->
  forall i j d, (i <= j)%nat -> (j < length l)%nat -> lex_cmp (fst (nth i l d)) (fst (nth j l d)) <> Gt.
Proof.
  intros S i j d Hij Hj. destruct (Nat.eq_dec i j) as [->|N]; [now rewrite lex_cmp_refl|].
  apply key_lt_fst, ss_nth; auto; lia.
Qed.
(** the nodes with one membership list occupy one interval of new keys *)
Theorem block_contiguous l : StronglySorted key_lt l ->
  forall i j k d c, (i <= j)%nat -> (j <= k)%nat -> (k < length l)%nat ->
    fst (nth i l d) = c -> fst (nth k l d) = c -> fst (nth j l d) = c.
Proof.
  intros S i j k d c Hij Hjk Hk Hi Hc.
  pose proof (block_monotone l S i j d Hij ltac:(lia)) as M1.
  pose proof (block_monotone l S j k d Hjk Hk) as M2.
  rewrite Hi in M1. rewrite Hc in M2. rewrite (lex_cmp_antisym c) in M2.
  destruct (lex_cmp c (fst (nth j l d))) eqn:E; cbn in M2; try congruence.
  symmetry. now apply lex_cmp_eq.
Qed.
(** without shared atoms (all membership lists singletons) the intervals come in coarse-key order *)
Theorem block_order l : StronglySorted key_lt l ->
  forall i j d c c', (i <= j)%nat -> (j < length l)%nat -> fst (nth i l d) = [c] -> fst (nth j l d) = [c'] -> c <= c'.
Proof.
  intros S i j d c c' Hij Hj Hi Hc. pose proof (block_monotone l S i j d Hij Hj) as M. rewrite Hi, Hc in M. cbn in M.
  destruct (Z.compare_spec c c'); try lia. congruence.
Qed.
