(** CutBonding: the bonding step of property C01.  When every cut bond between two fragments is
    written as a dedicated, uniquely labelled compatible descriptor pair (each descriptor text
    occurs once in its fragment and is compatible with nothing else on the other side), the
    first-match loop of one base edge creates exactly the cut bonds: as many as the edge order,
    each joining the two atoms the cut separated — however ambiguous the search order is. *)
From Coq Require Import String.
From Coq Require Import List Ascii ZArith Bool Lia Permutation.
From CGV Require Import Base.PyBase Base.PyVal Gen.ResolveGen Resolve.Bonding Resolve.BondingDefs
     Resolve.BondingSpec Resolve.BondingProofs Resolve.BondingCheck Resolve.CutCheck.
Import ListNotations.
Open Scope Z_scope.

Record dedicated (legacy : bool) (sr tg : tbl) (L : list cutpair) : Prop := {
  ded_src : forall c, In c L -> In (cp_d c) (tlookup (cp_u c) sr) /\ total_cnt (cp_d c) sr = 1%nat;
  ded_tgt : forall c, In c L -> In (cp_t c) (tlookup (cp_v c) tg) /\ total_cnt (cp_t c) tg = 1%nat;
  ded_compat : forall c, In c L -> compat_str legacy (cp_d c) (cp_t c) = true;
  ded_only : forall u ds v ts d t, In (u, ds) sr -> In (v, ts) tg -> In d ds -> In t ts ->
             compat_str legacy d t = true -> exists c, In c L /\ cp_d c = d /\ cp_t c = t;
  ded_nodup_d : NoDup (map cp_d L);
  ded_nodup_t : NoDup (map cp_t L)
}.

Lemma cnt_pos_in d l : (0 < cnt d l)%nat -> In d l.
Proof.
  induction l as [|x r IH]; cbn; [lia|]. destruct (str_eqb_spec d x) as [->|N]; [now left|].
  intros H. right. apply IH. lia.
Qed.
Lemma in_cnt_pos d l : In d l -> (0 < cnt d l)%nat.
Proof.
  induction l as [|x r IH]; cbn; [tauto|]. intros [->|H].
  - rewrite str_eqb_refl. lia.
  - apply IH in H. lia.
Qed.
Lemma remove1_subset d x l : In x (remove1 d l) -> In x l.
Proof.
  induction l as [|y r IH]; cbn; [tauto|]. destruct (str_eqb d y); [now right|].
  intros [->|H]; [now left|right; auto].
Qed.

Lemma in_remove1_other d x l : x <> d -> In x l -> In x (remove1 d l).
Proof.
  intros N. induction l as [|y r IH]; cbn; [tauto|]. destruct (str_eqb_spec d y) as [->|Ny].
  - intros [->|H]; [contradiction|assumption].
  - intros [->|H]; [now left|right; auto].
Qed.
Lemma total_cnt_remove_other d e u t : d <> e -> total_cnt d (tbl_remove u e t) = total_cnt d t.
Proof.
  intros N. induction t as [|[v ds] r IH]; cbn; [reflexivity|].
  destruct (Z.eqb u v); cbn; [now rewrite cnt_remove1_other|now rewrite IH].
Qed.
Lemma total_cnt_remove_same d u t : NoDup (map fst t) -> In d (tlookup u t) ->
  (total_cnt d (tbl_remove u d t) + 1 = total_cnt d t)%nat.
Proof.
  induction t as [|[v ds] r IH]; cbn; [tauto|]. intros ND. inversion ND as [|? ? Hn ND']; subst.
  destruct (Z.eqb_spec u v) as [->|N]; cbn.
  - intros H. pose proof (cnt_remove1_same _ _ H). lia.
  - intros H. specialize (IH ND' H). lia.
Qed.
Lemma in_tbl_remove u e w ds t : In (w, ds) (tbl_remove u e t) ->
  exists ds0, In (w, ds0) t /\ (forall x, In x ds -> In x ds0).
Proof.
  induction t as [|[v xs] r IH]; cbn; [tauto|]. destruct (Z.eqb u v); cbn.
  - intros [[= <- <-]|H].
    + exists xs. split; [now left|]. intros x. apply remove1_subset.
    + exists ds. split; [now right|auto].
  - intros [[= <- <-]|H].
    + exists xs. split; [now left|auto].
    + destruct (IH H) as [ds0 [H1 H2]]. exists ds0. split; [now right|assumption].
Qed.
Lemma total_cnt_zero_notin d t w ds : total_cnt d t = 0%nat -> In (w, ds) t -> ~ In d ds.
Proof.
  induction t as [|[v xs] r IH]; cbn; [tauto|]. intros H [[= <- <-]|Hin] Hd.
  - apply in_cnt_pos in Hd. lia.
  - apply (IH ltac:(lia) Hin Hd).
Qed.
Lemma tlookup_in_tbl u t d : In d (tlookup u t) -> exists ds, In (u, ds) t /\ In d ds.
Proof.
  induction t as [|[v xs] r IH]; cbn; [tauto|]. destruct (Z.eqb_spec u v) as [->|N].
  - intros H. exists xs. split; [now left|assumption].
  - intros H. destruct (IH H) as [ds [H1 H2]]. exists ds. split; [now right|assumption].
Qed.
Lemma in_total_cnt u ds t d : In (u, ds) t -> In d ds -> (0 < total_cnt d t)%nat.
Proof.
  induction t as [|[v xs] r IH]; cbn; [tauto|]. intros [[= <- <-]|H] Hd.
  - apply in_cnt_pos in Hd. lia.
  - specialize (IH H Hd). lia.
Qed.
(** a descriptor text occurring exactly once sits on exactly one atom *)
Lemma once_same_atom d t u u' : NoDup (map fst t) -> total_cnt d t = 1%nat ->
  In d (tlookup u t) -> In d (tlookup u' t) -> u = u'.
Proof.
  induction t as [|[v xs] r IH]; cbn; [tauto|]. intros ND. inversion ND as [|? ? Hn ND']; subst.
  intros Ht. destruct (Z.eqb_spec u v) as [->|N], (Z.eqb_spec u' v) as [->|N']; intros H1 H2; try reflexivity.
  - apply in_cnt_pos in H1. destruct (tlookup_in_tbl _ _ _ H2) as [ds [Ha Hb]].
    pose proof (in_total_cnt _ _ _ _ Ha Hb). lia.
  - apply in_cnt_pos in H2. destruct (tlookup_in_tbl _ _ _ H1) as [ds [Ha Hb]].
    pose proof (in_total_cnt _ _ _ _ Ha Hb). lia.
  - apply IH; try assumption. destruct (tlookup_in_tbl _ _ _ H1) as [ds [Ha Hb]].
    pose proof (in_total_cnt _ _ _ _ Ha Hb).
    assert (cnt d xs = 0)%nat by lia. lia.
Qed.

Definition bond_cp (b : bond) : cutpair := (b_u b, b_d1 b, b_v b, b_d2 b).

Lemma nodup_map_remove {A B} (f : A -> B) (l1 l2 : list A) x :
  NoDup (map f (l1 ++ x :: l2)) -> NoDup (map f (l1 ++ l2)) /\ ~ In (f x) (map f (l1 ++ l2)).
Proof.
  rewrite !map_app. cbn. intros H. split.
  - now apply NoDup_remove_1 in H.
  - now apply NoDup_remove_2 in H.
Qed.

Definition disjoint_edges (e e' : cutedge) : Prop := forall x d, In d (on x e) -> ~ In d (on x e').
Definition ded_in (legacy : bool) (s : cstate) (e : cutedge) : Prop :=
  ce_a e <> ce_b e /\ dedicated legacy (slookup (ce_a e) s) (slookup (ce_b e) s) (ce_L e).

(** removing a descriptor that is not one of L's keeps L dedicated *)
Lemma dedicated_remove_src legacy sr tg L u d : NoDup (map fst sr) -> ~ In d (map cp_d L) ->
  dedicated legacy sr tg L -> dedicated legacy (tbl_remove u d sr) tg L.
Proof.
  intros ND Nd D. constructor.
  - intros c Hc. destruct (ded_src _ _ _ _ D c Hc) as [H1 H2].
    assert (cp_d c <> d) by (intros E; apply Nd; rewrite <- E; now apply in_map).
    split.
    + destruct (Z.eq_dec (cp_u c) u) as [E|N].
      * rewrite E in *. rewrite tlookup_remove_same. now apply in_remove1_other.
      * now rewrite tlookup_remove_other.
    + now rewrite total_cnt_remove_other.
  - apply (ded_tgt _ _ _ _ D).
  - apply (ded_compat _ _ _ _ D).
  - intros u0 ds0 v0 ts0 d0 t0 Hu Hv Hd Ht Hc.
    destruct (in_tbl_remove _ _ _ _ _ Hu) as [dsA [HA1 HA2]].
    apply (ded_only _ _ _ _ D _ _ _ _ _ _ HA1 Hv (HA2 _ Hd) Ht Hc).
  - apply (ded_nodup_d _ _ _ _ D).
  - apply (ded_nodup_t _ _ _ _ D).
Qed.
Lemma dedicated_remove_tgt legacy sr tg L v t : NoDup (map fst tg) -> ~ In t (map cp_t L) ->
  dedicated legacy sr tg L -> dedicated legacy sr (tbl_remove v t tg) L.
Proof.
  intros ND Nt D. constructor.
  - apply (ded_src _ _ _ _ D).
  - intros c Hc. destruct (ded_tgt _ _ _ _ D c Hc) as [H1 H2].
    assert (cp_t c <> t) by (intros E; apply Nt; rewrite <- E; now apply in_map).
    split.
    + destruct (Z.eq_dec (cp_v c) v) as [E|N].
      * rewrite E in *. rewrite tlookup_remove_same. now apply in_remove1_other.
      * now rewrite tlookup_remove_other.
    + now rewrite total_cnt_remove_other.
  - apply (ded_compat _ _ _ _ D).
  - intros u0 ds0 v0 ts0 d0 t0 Hu Hv Hd Ht Hc.
    destruct (in_tbl_remove _ _ _ _ _ Hv) as [tsA [HA1 HA2]].
    apply (ded_only _ _ _ _ D _ _ _ _ _ _ Hu HA1 Hd (HA2 _ Ht) Hc).
  - apply (ded_nodup_d _ _ _ _ D).
  - apply (ded_nodup_t _ _ _ _ D).
Qed.

(** one table of the state loses one descriptor that is foreign to edge e: e stays dedicated *)
Lemma ded_in_remove legacy s e x u d : wf_state s -> ~ In d (on x e) -> ded_in legacy s e ->
  ded_in legacy (cset x (tbl_remove u d (slookup x s)) s) e.
Proof.
  intros W Nd [Nab D]. split; [assumption|].
  unfold on in Nd. rewrite in_app_iff in Nd.
  destruct (cget x s) as [t|er] eqn:E.
  - pose proof (W (ce_a e)) as NDa. pose proof (W (ce_b e)) as NDb.
    destruct (Z.eqb_spec x (ce_a e)) as [Ea|Na].
    + subst x. rewrite (slookup_cset_same _ _ _ _ E).
      rewrite slookup_cset_other by (intro; apply Nab; congruence).
      apply dedicated_remove_src; [assumption| |assumption]. intro H. apply Nd. now left.
    + rewrite (slookup_cset_other (ce_a e) x) by congruence.
      destruct (Z.eqb_spec x (ce_b e)) as [Eb|Nb].
      * subst x. rewrite (slookup_cset_same _ _ _ _ E).
        apply dedicated_remove_tgt; [assumption| |assumption]. intro H. apply Nd. now right.
      * rewrite slookup_cset_other by congruence. assumption.
  - (* x is not a key of the state: cset changes nothing *)
    assert (Hs : forall y, slookup y (cset x (tbl_remove u d (slookup x s)) s) = slookup y s).
    { intros y. clear - E. induction s as [|[k t'] r IH]; cbn in *; [reflexivity|].
      destruct (Z.eqb_spec x k); [discriminate|]. cbn. destruct (Z.eqb y k); [reflexivity|]. apply IH. assumption. }
    now rewrite !Hs.
Qed.

Lemma on_sub e x d (L' : list cutpair) : (forall c, In c L' -> In c (ce_L e)) ->
  In d (on x (ce_a e, ce_b e, L')) -> In d (on x e).
Proof.
  intros Hsub. unfold on. cbn [ce_a ce_b ce_L fst snd]. rewrite !in_app_iff.
  intros [H|H]; [left|right].
  - destruct (Z.eqb x (ce_a e)); [|contradiction]. apply in_map_iff in H as [c [<- Hc]]. apply in_map. auto.
  - destruct (Z.eqb x (ce_b e)); [|contradiction]. apply in_map_iff in H as [c [<- Hc]]. apply in_map. auto.
Qed.


(** one base edge: the loop creates exactly the cut pairs *)
Lemma unique_labels_forced_gen legacy arom : forall n L a b s acc s' acc', length L = n ->
  a <> b -> wf_state s -> dedicated legacy (slookup a s) (slookup b s) L ->
  edge_loop legacy arom n a b s acc = Ok (s', acc') ->
  (exists new, acc' = acc ++ new /\ Permutation (map bond_cp new) L /\
              Forall (fun bd => b_src bd = a /\ b_tgt bd = b) new) /\
  wf_state s' /\
  (forall e', ded_in legacy s e' -> disjoint_edges (a, b, L) e' -> ded_in legacy s' e').
Proof.
  induction n as [|k IH]; intros L a b s acc s' acc' HL Nab W D.
  - destruct L; [|discriminate]. cbn. intros [= <- <-]. split; [|split; [assumption|auto]].
    exists []. rewrite app_nil_r. split; [reflexivity|]. split; constructor.
  - destruct L as [|c L]; [discriminate|]. cbn [edge_loop].
    destruct (cget a s) as [sr|e] eqn:Ea; cbn [bind]; [|discriminate].
    destruct (cget b s) as [tg|e] eqn:Eb; cbn [bind]; [|discriminate].
    pose proof (cget_slookup _ _ _ Ea) as Sa. pose proof (cget_slookup _ _ _ Eb) as Sb.
    rewrite Sa, Sb in D.
    pose proof (W a) as NDa. pose proof (W b) as NDb. rewrite Sa in NDa. rewrite Sb in NDb.
    destruct (match_bonding legacy sr tg) as [[[[[u v] d1] d2]|]|e] eqn:M; cbn [bind]; [| |discriminate].
    + destruct (match_bonding_some _ _ _ _ _ _ _ NDa NDb M) as [Hd1 [Hd2 Hc]].
      destruct (tlookup_in_tbl _ _ _ Hd1) as [ds [Hds Hdd]].
      destruct (tlookup_in_tbl _ _ _ Hd2) as [ts [Hts Htt]].
      destruct (ded_only _ _ _ _ D _ _ _ _ _ _ Hds Hts Hdd Htt Hc) as [cc [Hcc [Ed Et]]].
      destruct (in_split _ _ Hcc) as [L1 [L2 EL]].
      destruct (ded_src _ _ _ _ D cc Hcc) as [Hsu Hs1]. destruct (ded_tgt _ _ _ _ D cc Hcc) as [Htv Ht1].
      rewrite Ed in Hsu, Hs1. rewrite Et in Htv, Ht1.
      assert (Eu : cp_u cc = u) by exact (once_same_atom d1 sr _ _ NDa Hs1 Hsu Hd1).
      assert (Ev : cp_v cc = v) by exact (once_same_atom d2 tg _ _ NDb Ht1 Htv Hd2).
      destruct (cget_cset b a (tbl_remove u d1 sr) s tg Eb) as [tg1 Eb1]. rewrite Eb1. cbn [bind].
      pose proof (cget_slookup _ _ _ Eb1) as Sb1. rewrite slookup_cset_other in Sb1 by congruence.
      rewrite Sb in Sb1. subst tg1.
      destruct (bond_order arom u v d1) as [o|e] eqn:BO; cbn [bind]; [|discriminate].
      intros Run.
      set (s1 := cset a (tbl_remove u d1 sr) s) in *.
      set (s2 := cset b (tbl_remove v d2 tg) s1) in *.
      assert (W1 : wf_state s1) by (unfold s1; rewrite <- Sa; now apply wf_state_cset).
      assert (Hsb : slookup b s1 = tg) by (unfold s1; rewrite slookup_cset_other by congruence; assumption).
      assert (W2 : wf_state s2) by (unfold s2; rewrite <- Hsb; now apply wf_state_cset).
      assert (Sa2 : slookup a s2 = tbl_remove u d1 sr).
      { unfold s2, s1. rewrite slookup_cset_other by congruence. now apply (slookup_cset_same _ _ _ sr). }
      assert (Sb2 : slookup b s2 = tbl_remove v d2 tg).
      { unfold s2. now apply (slookup_cset_same _ _ _ tg). }
      assert (Hlen : length (L1 ++ L2) = length L).
      { assert (length (c :: L) = length (L1 ++ cc :: L2)) by now rewrite EL.
        rewrite app_length in *. cbn in *. lia. }
      pose proof (ded_nodup_d _ _ _ _ D) as NDd. pose proof (ded_nodup_t _ _ _ _ D) as NDt.
      rewrite EL in NDd, NDt.
      destruct (nodup_map_remove cp_d _ _ _ NDd) as [NDd' Nind]. destruct (nodup_map_remove cp_t _ _ _ NDt) as [NDt' Nint].
      assert (D' : dedicated legacy (slookup a s2) (slookup b s2) (L1 ++ L2)).
      { rewrite Sa2, Sb2.
        assert (Hsub : forall x, In x (L1 ++ L2) -> In x (c :: L)).
        { intros x Hx. rewrite EL. apply in_app_or in Hx. apply in_or_app. destruct Hx; [now left|right; now right]. }
        constructor.
        - intros x Hx. destruct (ded_src _ _ _ _ D x (Hsub x Hx)) as [H1 H2].
          assert (cp_d x <> d1) by (intros E; apply Nind; rewrite Ed, <- E; now apply in_map).
          split.
          + destruct (Z.eq_dec (cp_u x) u) as [Eux|Nu].
            * rewrite Eux in *. rewrite tlookup_remove_same. now apply in_remove1_other.
            * now rewrite tlookup_remove_other.
          + now rewrite total_cnt_remove_other.
        - intros x Hx. destruct (ded_tgt _ _ _ _ D x (Hsub x Hx)) as [H1 H2].
          assert (cp_t x <> d2) by (intros E; apply Nint; rewrite Et, <- E; now apply in_map).
          split.
          + destruct (Z.eq_dec (cp_v x) v) as [Evx|Nv].
            * rewrite Evx in *. rewrite tlookup_remove_same. now apply in_remove1_other.
            * now rewrite tlookup_remove_other.
          + now rewrite total_cnt_remove_other.
        - intros x Hx. apply (ded_compat _ _ _ _ D). auto.
        - intros u0 ds0 v0 ts0 d t Hu0 Hv0 Hd Ht Hcmp.
          destruct (in_tbl_remove _ _ _ _ _ Hu0) as [dsA [HA1 HA2]].
          destruct (in_tbl_remove _ _ _ _ _ Hv0) as [tsA [HB1 HB2]].
          destruct (ded_only _ _ _ _ D _ _ _ _ _ _ HA1 HB1 (HA2 _ Hd) (HB2 _ Ht) Hcmp) as [x [Hx [Ex1 Ex2]]].
          exists x. split; [|tauto]. rewrite EL in Hx. apply in_app_or in Hx. apply in_or_app.
          destruct Hx as [Hx|[<-|Hx]]; [now left| |now right].
          exfalso. (* d = d1 was removed and occurred once: it cannot still be in the table *)
          assert (total_cnt d1 (tbl_remove u d1 sr) = 0)%nat by (pose proof (total_cnt_remove_same _ _ _ NDa Hd1); lia).
          rewrite Ed in Ex1. subst d. eapply total_cnt_zero_notin; eassumption.
        - assumption.
        - assumption. }
      assert (Hk : length (L1 ++ L2) = k) by (cbn in HL; lia).
      destruct (IH (L1 ++ L2) a b s2 _ s' acc' Hk Nab W2 D' Run) as [[new [Hacc [Hperm Hall]]] [Ws' Hothers]].
      split; [|split; [assumption|]].
      2:{ intros e' De' Dis. apply Hothers.
          - (* e' survives the removal of d1 from a's table and of d2 from b's table *)
            assert (Hin1 : In d1 (on a (a, b, c :: L))).
            { unfold on. cbn [ce_a ce_b ce_L fst snd]. rewrite Z.eqb_refl. apply in_or_app. left.
              rewrite <- Ed. now apply in_map. }
            assert (Hin2 : In d2 (on b (a, b, c :: L))).
            { unfold on. cbn [ce_a ce_b ce_L fst snd]. rewrite Z.eqb_refl. apply in_or_app. right.
              rewrite <- Et. now apply in_map. }
            pose proof (ded_in_remove legacy s e' a u d1 W (Dis a d1 Hin1) De') as De1.
            rewrite Sa in De1. fold s1 in De1.
            pose proof (ded_in_remove legacy s1 e' b v d2 W1 (Dis b d2 Hin2) De1) as De2.
            rewrite Hsb in De2. exact De2.
          - intros x d Hd. apply Dis. apply (on_sub (a, b, c :: L) x d (L1 ++ L2)); [|exact Hd].
            cbn [ce_L snd]. intros y Hy. rewrite EL. apply in_app_or in Hy. apply in_or_app.
            destruct Hy; [now left|right; now right]. }
      exists ({| b_src := a; b_tgt := b; b_u := u; b_v := v; b_d1 := d1; b_d2 := d2; b_order := o |} :: new).
      split; [rewrite Hacc, <- app_assoc; reflexivity|]. split.
      * cbn [map]. rewrite EL.
        assert (Ecc : bond_cp {| b_src := a; b_tgt := b; b_u := u; b_v := v; b_d1 := d1; b_d2 := d2; b_order := o |} = cc).
        { unfold bond_cp. cbn. destruct cc as [[[cu cd] cv] ct]. unfold cp_u, cp_d, cp_v, cp_t in *. cbn in *. congruence. }
        rewrite Ecc. now apply Permutation_cons_app.
      * constructor; [cbn; tauto|assumption].
    + (* nothing found although a dedicated pair is left: impossible *)
      exfalso. destruct (ded_src _ _ _ _ D c (or_introl eq_refl)) as [Hsu _].
      destruct (ded_tgt _ _ _ _ D c (or_introl eq_refl)) as [Htv _].
      destruct (tlookup_in_tbl _ _ _ Hsu) as [ds [H1 H2]]. destruct (tlookup_in_tbl _ _ _ Htv) as [ts [H3 H4]].
      pose proof (match_bonding_none _ _ _ M _ _ _ _ _ _ H1 H3 H2 H4) as Hn.
      rewrite (ded_compat _ _ _ _ D c (or_introl eq_refl)) in Hn. discriminate.
Qed.

(** one base edge whose order equals the number of cut bonds: the loop creates exactly the cut pairs *)
Theorem unique_labels_forced legacy arom : forall L a b s acc s' acc',
  a <> b -> wf_state s -> dedicated legacy (slookup a s) (slookup b s) L ->
  edge_loop legacy arom (length L) a b s acc = Ok (s', acc') ->
  exists new, acc' = acc ++ new /\ Permutation (map bond_cp new) L /\
              Forall (fun bd => b_src bd = a /\ b_tgt bd = b) new.
Proof.
  intros L a b s acc s' acc' Nab W D Run.
  exact (proj1 (unique_labels_forced_gen legacy arom (length L) L a b s acc s' acc' eq_refl Nab W D Run)).
Qed.

(** the executable test of the hypothesis is sound *)
Lemma str_in_In x l : str_in x l = true -> In x l.
Proof.
  unfold str_in. rewrite existsb_exists. intros [y [H1 H2]]. apply str_eqb_eq in H2. now subst.
Qed.
Lemma In_str_in x l : In x l -> str_in x l = true.
Proof. intros H. unfold str_in. rewrite existsb_exists. exists x. split; [assumption|apply str_eqb_refl]. Qed.
Lemma nodup_strs_sound l : nodup_strs l = true -> NoDup l.
Proof.
  induction l as [|x r IH]; cbn; [constructor|]. intros H. apply andb_true_iff in H as [H1 H2].
  constructor; [|auto]. intros Hin. apply In_str_in in Hin. rewrite Hin in H1. discriminate.
Qed.
Theorem dedicated_b_sound legacy sr tg L : dedicated_b legacy sr tg L = true -> dedicated legacy sr tg L.
Proof.
  unfold dedicated_b. intros H.
  repeat (apply andb_true_iff in H as [H ?]).
  rewrite forallb_forall in *.
  constructor.
  - intros c Hc. specialize (H c Hc). apply andb_true_iff in H as [Ha Hb].
    split; [now apply str_in_In|now apply Nat.eqb_eq].
  - intros c Hc. match goal with X : forall x, In x L -> str_in (cp_t x) _ && _ = true |- _ => specialize (X c Hc); apply andb_true_iff in X as [Ha Hb] end.
    split; [now apply str_in_In|now apply Nat.eqb_eq].
  - intros c Hc. match goal with X : forall x, In x L -> compat_str _ _ _ = true |- _ => exact (X c Hc) end.
  - intros u ds v ts d t Hu Hv Hd Ht Hcmp.
    match goal with X : forall x, In x sr -> _ = true |- _ => specialize (X (u, ds) Hu) end.
    rewrite forallb_forall in *.
    match goal with X : forall x, In x tg -> _ = true |- _ => specialize (X (v, ts) Hv) end.
    rewrite forallb_forall in *. cbn [snd] in *.
    match goal with X : forall x, In x ds -> _ = true |- _ => specialize (X d Hd) end.
    rewrite forallb_forall in *.
    match goal with X : forall x, In x ts -> _ = true |- _ => specialize (X t Ht) end.
    rewrite Hcmp in *. cbn in *.
    match goal with X : existsb _ L = true |- _ => apply existsb_exists in X as [c [Hc Hb]] end.
    apply andb_true_iff in Hb as [Hb1 Hb2]. apply str_eqb_eq in Hb1. apply str_eqb_eq in Hb2.
    exists c. tauto.
  - now apply nodup_strs_sound.
  - now apply nodup_strs_sound.
Qed.
