(** BondingProofs: invariants of the bond-creation fold (C03), for every base graph, every
    table of descriptors, both conventions.  All statements are about the Impl model of
    Resolve/Bonding.v, which calls the generated [compatible]. *)
From Coq Require Import String.
From Coq Require Import List Ascii ZArith Bool Lia.
From CGV Require Import Base.PyBase Base.PyVal Gen.ResolveGen Resolve.Bonding Resolve.BondingDefs Resolve.BondingSpec.
Import ListNotations.
Open Scope Z_scope.

(** * The search returns a compatible pair that is really there, and misses none *)
Lemma find_target_some legacy d ts t : find_target legacy d ts = Ok (Some t) ->
  In t ts /\ compat_str legacy d t = true.
Proof.
  induction ts as [|x r IH]; cbn; [discriminate|].
  destruct (compatible d x legacy) as [c|e] eqn:E; cbn; [|discriminate].
  apply compatible_ok in E. destruct c.
  - intros [= <-]. split; [now left|now symmetry].
  - intros H. apply IH in H. tauto.
Qed.
Lemma find_target_none legacy d ts : find_target legacy d ts = Ok None ->
  forall t, In t ts -> compat_str legacy d t = false.
Proof.
  induction ts as [|x r IH]; cbn; [tauto|].
  destruct (compatible d x legacy) as [c|e] eqn:E; cbn; [|discriminate].
  apply compatible_ok in E. destruct c; [discriminate|].
  intros H t [<-|Ht]; [now symmetry|now apply IH].
Qed.
Lemma first_pair_some legacy ds ts d t : first_pair legacy ds ts = Ok (Some (d, t)) ->
  In d ds /\ In t ts /\ compat_str legacy d t = true.
Proof.
  induction ds as [|x r IH]; cbn; [discriminate|].
  destruct (find_target legacy x ts) as [[t'|]|e] eqn:E; cbn; try discriminate.
  - intros [= <- <-]. apply find_target_some in E. tauto.
  - intros H. apply IH in H. tauto.
Qed.
Lemma first_pair_none legacy ds ts : first_pair legacy ds ts = Ok None ->
  forall d t, In d ds -> In t ts -> compat_str legacy d t = false.
Proof.
  induction ds as [|x r IH]; cbn; [tauto|].
  destruct (find_target legacy x ts) as [[t'|]|e] eqn:E; cbn; try discriminate.
  intros H d t [<-|Hd] Ht; [eapply find_target_none; eassumption|now apply IH].
Qed.
Lemma scan_targets_some legacy ds tg v d t : scan_targets legacy ds tg = Ok (Some (v, d, t)) ->
  exists ts, In (v, ts) tg /\ In d ds /\ In t ts /\ compat_str legacy d t = true.
Proof.
  induction tg as [|[w ts] r IH]; cbn; [discriminate|].
  destruct (first_pair legacy ds ts) as [[[d' t']|]|e] eqn:E; cbn; try discriminate.
  - intros [= <- <- <-]. apply first_pair_some in E. exists ts. tauto.
  - intros H. apply IH in H as [ts' H]. exists ts'. tauto.
Qed.
Lemma scan_targets_none legacy ds tg : scan_targets legacy ds tg = Ok None ->
  forall v ts d t, In (v, ts) tg -> In d ds -> In t ts -> compat_str legacy d t = false.
Proof.
  induction tg as [|[w ts0] r IH]; cbn; [tauto|].
  destruct (first_pair legacy ds ts0) as [[[d' t']|]|e] eqn:E; cbn; try discriminate.
  intros H v ts d t [[= <- <-]|Hin] Hd Ht; [eapply first_pair_none; eassumption|eapply IH; eassumption].
Qed.

Lemma tlookup_in u ds t : NoDup (map fst t) -> In (u, ds) t -> tlookup u t = ds.
Proof.
  induction t as [|[v xs] r IH]; cbn; [tauto|]. intros ND. inversion ND as [|? ? Hn ND']; subst.
  intros [[= -> ->]|Hin].
  - now rewrite Z.eqb_refl.
  - destruct (Z.eqb_spec u v) as [->|]; [|now apply IH].
    exfalso. apply Hn. change v with (fst (v, ds)). now apply in_map.
Qed.

Theorem match_bonding_some legacy sr tg u v d t : NoDup (map fst sr) -> NoDup (map fst tg) ->
  match_bonding legacy sr tg = Ok (Some (u, v, d, t)) ->
  In d (tlookup u sr) /\ In t (tlookup v tg) /\ compat_str legacy d t = true.
Proof.
  intros NDs NDt. induction sr as [|[w ds] r IH]; cbn; [discriminate|].
  inversion NDs as [|? ? Hn NDs']; subst.
  destruct (scan_targets legacy ds tg) as [[[[v' d'] t']|]|e] eqn:E; cbn; try discriminate.
  - intros [= <- <- <- <-]. apply scan_targets_some in E as [ts [H1 [H2 [H3 H4]]]].
    rewrite Z.eqb_refl. rewrite (tlookup_in _ _ _ NDt H1). tauto.
  - intros H. specialize (IH NDs' H) as [H1 H2]. split; [|exact H2].
    destruct (Z.eqb_spec u w) as [->|]; [|assumption].
    exfalso. apply Hn. clear - H1. induction r as [|[x xs] r IHr]; cbn in *; [contradiction|].
    destruct (Z.eqb_spec w x); [left; congruence|right; auto].
Qed.
(** completeness: LookupError only when no compatible pair is left between the two fragments *)
Theorem match_bonding_none legacy sr tg : match_bonding legacy sr tg = Ok None ->
  forall u ds v ts d t, In (u, ds) sr -> In (v, ts) tg -> In d ds -> In t ts -> compat_str legacy d t = false.
Proof.
  induction sr as [|[w ds0] r IH]; cbn; [tauto|].
  destruct (scan_targets legacy ds0 tg) as [[[[v' d'] t']|]|e] eqn:E; cbn; try discriminate.
  intros H u ds v ts d t [[= <- <-]|Hin] Hv Hd Ht.
  - eapply scan_targets_none; eassumption.
  - eapply IH; eassumption.
Qed.

(** * Multiset accounting: a written descriptor is used for at most one bond *)
Lemma uses_app a u d l m : uses a u d (l ++ m) = (uses a u d l + uses a u d m)%nat.
Proof. induction l as [|b r IH]; cbn; [reflexivity|]. rewrite IH. lia. Qed.

Lemma cnt_remove1_same d l : In d l -> (cnt d (remove1 d l) + 1 = cnt d l)%nat.
Proof.
  induction l as [|x r IH]; cbn; [tauto|]. destruct (str_eqb_spec d x) as [->|N].
  - intros _. lia.
  - intros [->|H]; [contradiction|]. cbn. destruct (str_eqb_spec d x); [contradiction|]. apply IH in H. lia.
Qed.
Lemma cnt_remove1_other d e l : d <> e -> cnt d (remove1 e l) = cnt d l.
Proof.
  intros N. induction l as [|x r IH]; cbn; [reflexivity|].
  destruct (str_eqb_spec e x) as [->|]; cbn.
  - destruct (str_eqb_spec d x); [contradiction|reflexivity].
  - now rewrite IH.
Qed.
Lemma tlookup_remove_same u d t : tlookup u (tbl_remove u d t) = remove1 d (tlookup u t).
Proof.
  induction t as [|[v ds] r IH]; cbn; [reflexivity|].
  destruct (Z.eqb_spec u v); cbn.
  - subst. now rewrite Z.eqb_refl.
  - destruct (Z.eqb_spec u v); [contradiction|assumption].
Qed.
Lemma tlookup_remove_other u w d t : u <> w -> tlookup u (tbl_remove w d t) = tlookup u t.
Proof.
  intros N. induction t as [|[v ds] r IH]; cbn; [reflexivity|].
  destruct (Z.eqb_spec w v); cbn.
  - subst. destruct (Z.eqb_spec u v); [contradiction|reflexivity].
  - destruct (Z.eqb_spec u v); [reflexivity|assumption].
Qed.
Lemma tbl_remove_keys w d t : map fst (tbl_remove w d t) = map fst t.
Proof. induction t as [|[v ds] r IH]; cbn; [reflexivity|]. destruct (Z.eqb w v); cbn; congruence. Qed.
Lemma cget_slookup a s t : cget a s = Ok t -> slookup a s = t.
Proof.
  induction s as [|[k t'] r IH]; cbn; [discriminate|]. destruct (Z.eqb a k); [now intros [= ->]|assumption].
Qed.
Lemma slookup_cset_same a t s x : cget a s = Ok x -> slookup a (cset a t s) = t.
Proof.
  induction s as [|[k t'] r IH]; cbn; [discriminate|]. destruct (Z.eqb_spec a k); cbn.
  - now rewrite (proj2 (Z.eqb_eq a k)).
  - destruct (Z.eqb_spec a k); [contradiction|assumption].
Qed.
Lemma slookup_cset_other a b t s : a <> b -> slookup a (cset b t s) = slookup a s.
Proof.
  intros N. induction s as [|[k t'] r IH]; cbn; [reflexivity|]. destruct (Z.eqb_spec b k); cbn.
  - subst. destruct (Z.eqb_spec a k); [contradiction|reflexivity].
  - destruct (Z.eqb_spec a k); [reflexivity|assumption].
Qed.
Lemma cget_cset a b t s x : cget a s = Ok x -> exists y, cget a (cset b t s) = Ok y.
Proof.
  induction s as [|[k t'] r IH]; cbn; [discriminate|]. destruct (Z.eqb_spec b k); cbn.
  - destruct (Z.eqb a k); eauto.
  - destruct (Z.eqb a k); eauto.
Qed.

Lemma wf_state_cset s a u d : wf_state s -> wf_state (cset a (tbl_remove u d (slookup a s)) s).
Proof.
  intros W x. destruct (Z.eq_dec x a) as [->|N].
  - destruct (cget a s) as [t|e] eqn:E.
    + rewrite (slookup_cset_same _ _ _ _ E), tbl_remove_keys. apply W.
    + clear - E W. specialize (W a). induction s as [|[k t'] r IH]; cbn in *; [constructor|].
      destruct (Z.eqb_spec a k); [discriminate|]. cbn. destruct (Z.eqb_spec a k); [contradiction|]. auto.
  - rewrite slookup_cset_other by assumption. apply W.
Qed.

Lemma edge_loop_inv legacy arom n : forall a b s acc s' acc', a <> b -> wf_state s ->
  edge_loop legacy arom n a b s acc = Ok (s', acc') ->
  wf_state s' /\
  (forall x u d, bal s' acc' x u d = bal s acc x u d) /\
  (exists new, acc' = acc ++ new /\ (length new <= n)%nat /\
     Forall (fun bd => b_src bd = a /\ b_tgt bd = b /\ compat_str legacy (b_d1 bd) (b_d2 bd) = true /\
                       bond_order arom (b_u bd) (b_v bd) (b_d1 bd) = Ok (b_order bd)) new).
Proof.
  induction n as [|k IH]; intros a b s acc s' acc' Nab W; cbn [edge_loop].
  - intros [= <- <-]. split; [assumption|]. split; [reflexivity|]. exists []. rewrite app_nil_r. repeat split; [cbn; lia|constructor].
  - destruct (cget a s) as [sr|e] eqn:Ea; cbn [bind]; [|discriminate].
    destruct (cget b s) as [tg|e] eqn:Eb; cbn [bind]; [|discriminate].
    destruct (match_bonding legacy sr tg) as [[[[[u v] d1] d2]|]|e] eqn:M; cbn [bind]; [| |discriminate].
    + pose proof (cget_slookup _ _ _ Ea) as Sa. pose proof (cget_slookup _ _ _ Eb) as Sb.
      destruct (cget_cset b a (tbl_remove u d1 sr) s tg Eb) as [tg1 Eb1]. rewrite Eb1. cbn [bind].
      pose proof (cget_slookup _ _ _ Eb1) as Sb1.
      rewrite slookup_cset_other in Sb1 by congruence. rewrite Sb in Sb1. subst tg1.
      destruct (bond_order arom u v d1) as [o|e] eqn:BO; cbn [bind]; [|discriminate].
      intros H.
      assert (W1 : wf_state (cset a (tbl_remove u d1 sr) s)) by (rewrite <- Sa; now apply wf_state_cset).
      assert (Hsb : slookup b (cset a (tbl_remove u d1 sr) s) = tg)
        by (rewrite slookup_cset_other by congruence; assumption).
      assert (W2 : wf_state (cset b (tbl_remove v d2 tg) (cset a (tbl_remove u d1 sr) s)))
        by (rewrite <- Hsb; now apply wf_state_cset).
      specialize (IH _ _ _ _ _ _ Nab W2 H) as [W' [Hbal [new [Hacc [Hlen Hall]]]]].
      pose proof (W a) as NDa. pose proof (W b) as NDb. rewrite Sa in NDa. rewrite Sb in NDb.
      destruct (match_bonding_some _ _ _ _ _ _ _ NDa NDb M) as [Hd1 [Hd2 Hc]].
      split; [assumption|]. split.
      * intros x u0 d. rewrite Hbal. unfold bal. rewrite uses_app. cbn [uses].
        unfold uses_src, uses_tgt. cbn [b_src b_tgt b_u b_v b_d1 b_d2].
        destruct (Z.eq_dec x a) as [->|Nxa].
        -- rewrite slookup_cset_other by congruence.
           rewrite (slookup_cset_same _ _ _ _ Ea), Sa, Z.eqb_refl.
           destruct (Z.eqb_spec b a) as [->|_]; [contradiction|]. cbn [andb].
           destruct (Z.eqb_spec u u0) as [->|Nu]; cbn [andb].
           ++ rewrite tlookup_remove_same.
              destruct (str_eqb_spec d d1) as [->|Nd].
              ** pose proof (cnt_remove1_same _ _ Hd1). lia.
              ** rewrite cnt_remove1_other by assumption. lia.
           ++ rewrite tlookup_remove_other by congruence. lia.
        -- destruct (Z.eqb_spec a x) as [->|_]; [contradiction|]. cbn [andb].
           destruct (Z.eq_dec x b) as [->|Nxb].
           ++ rewrite (slookup_cset_same _ _ _ tg) by (destruct (cget_cset b a (tbl_remove u d1 sr) s tg Eb) as [y Hy];
                 rewrite Hy; f_equal; apply cget_slookup in Hy; congruence).
              rewrite Sb, Z.eqb_refl. cbn [andb].
              destruct (Z.eqb_spec v u0) as [->|Nv]; cbn [andb].
              ** rewrite tlookup_remove_same.
                 destruct (str_eqb_spec d d2) as [->|Nd].
                 --- pose proof (cnt_remove1_same _ _ Hd2). lia.
                 --- rewrite cnt_remove1_other by assumption. lia.
              ** rewrite tlookup_remove_other by congruence. lia.
           ++ rewrite !slookup_cset_other by assumption.
              destruct (Z.eqb_spec b x) as [->|_]; [contradiction|]. cbn [andb]. lia.
      * exists ({| b_src := a; b_tgt := b; b_u := u; b_v := v; b_d1 := d1; b_d2 := d2; b_order := o |} :: new).
        split; [rewrite Hacc, <- app_assoc; reflexivity|]. split; [cbn; lia|].
        constructor; [cbn; tauto|assumption].
    + intros H. specialize (IH _ _ _ _ _ _ Nab W H) as [W' [Hbal [new [Hacc [Hlen Hall]]]]].
      split; [assumption|]. split; [assumption|]. exists new. repeat split; [assumption|lia|assumption].
Qed.

(** progress: fewer bonds than the order only when no compatible pair is left *)
Lemma edge_loop_exact legacy arom n : forall a b s acc s' acc',
  edge_loop legacy arom n a b s acc = Ok (s', acc') -> (length acc' < length acc + n)%nat ->
  forall u ds v ts d t, In (u, ds) (slookup a s') -> In (v, ts) (slookup b s') -> In d ds -> In t ts ->
    compat_str legacy d t = false.
Proof.
  induction n as [|k IH]; intros a b s acc s' acc'; cbn [edge_loop].
  - intros [= <- <-] H. lia.
  - destruct (cget a s) as [sr|e] eqn:Ea; cbn [bind]; [|discriminate].
    destruct (cget b s) as [tg|e] eqn:Eb; cbn [bind]; [|discriminate].
    destruct (match_bonding legacy sr tg) as [[[[[u v] d1] d2]|]|e] eqn:M; cbn [bind]; [| |discriminate].
    + destruct (cget b (cset a (tbl_remove u d1 sr) s)) as [tg1|e]; cbn [bind]; [|discriminate].
      destruct (bond_order arom u v d1) as [o|e]; cbn [bind]; [|discriminate].
      intros H L. eapply IH; [exact H|]. rewrite app_length. cbn. lia.
    + (* nothing found now: the state does not change any more, so nothing is found later either *)
      intros H L. clear IH.
      assert (Hs : s' = s /\ acc' = acc).
      { clear L. revert H. induction k as [|j IHj]; cbn [edge_loop]; [now intros [= <- <-]|].
        rewrite Ea, Eb. cbn [bind]. rewrite M. cbn [bind]. exact IHj. }
      destruct Hs as [-> ->]. rewrite (cget_slookup _ _ _ Ea), (cget_slookup _ _ _ Eb).
      eapply match_bonding_none; eassumption.
Qed.

Lemma filter_len_le {A} (f : A -> bool) l : (length (filter f l) <= length l)%nat.
Proof. induction l as [|x r IH]; cbn; [lia|]. destruct (f x); cbn; lia. Qed.
Lemma filter_all_false {A} (f : A -> bool) l : (forall x, In x l -> f x = false) -> filter f l = [].
Proof. induction l as [|x r IH]; cbn; [reflexivity|]. intros H. rewrite (H x (or_introl eq_refl)). apply IH. intros; apply H; now right. Qed.

(** * The whole fold *)
Theorem fold_inv legacy arom edges : forall s acc s' acc', wf_edges edges -> wf_state s ->
  edges_from_bonding legacy arom edges s acc = Ok (s', acc') ->
  wf_state s' /\
  (forall x u d, bal s' acc' x u d = bal s acc x u d) /\
  (exists new, acc' = acc ++ new /\
     (forall a b, (bonds_between a b new <= order_sum a b edges)%nat) /\
     Forall (fun bd => In (b_src bd, b_tgt bd) (map fst edges) /\
                       compat_str legacy (b_d1 bd) (b_d2 bd) = true /\
                       bond_order arom (b_u bd) (b_v bd) (b_d1 bd) = Ok (b_order bd)) new).
Proof.
  induction edges as [|[[a b] o] r IH]; intros s acc s' acc' We W; cbn [edges_from_bonding].
  - intros [= <- <-]. split; [assumption|]. split; [reflexivity|]. exists []. rewrite app_nil_r.
    repeat split; [intros; cbn; lia|constructor].
  - inversion We as [|? ? Hab We']; subst. cbn in Hab.
    destruct (edge_loop legacy arom (Z.to_nat o) a b s acc) as [[s1 acc1]|e] eqn:E; cbn [bind]; [|discriminate].
    intros H. destruct (edge_loop_inv _ _ _ _ _ _ _ _ _ Hab W E) as [W1 [B1 [n1 [A1 [L1 F1]]]]].
    specialize (IH _ _ _ _ We' W1 H) as [W2 [B2 [n2 [A2 [L2 F2]]]]].
    split; [assumption|]. split; [intros; now rewrite B2, B1|].
    exists (n1 ++ n2). split; [rewrite A2, A1, app_assoc; reflexivity|]. split.
    + intros a0 b0. unfold bonds_between. rewrite filter_app, app_length. cbn [order_sum fold_right fst snd].
      specialize (L2 a0 b0). unfold bonds_between in L2. fold (order_sum a0 b0 r).
      assert (length (filter (fun bd => Z.eqb (b_src bd) a0 && Z.eqb (b_tgt bd) b0) n1)
              <= (if Z.eqb a a0 && Z.eqb b b0 then Z.to_nat o else 0))%nat; [|lia].
      destruct (Z.eqb_spec a a0) as [->|Na]; cbn [andb].
      * destruct (Z.eqb_spec b b0) as [->|Nb].
        -- pose proof (filter_len_le (fun bd => Z.eqb (b_src bd) a0 && Z.eqb (b_tgt bd) b0) n1). lia.
        -- rewrite filter_all_false; [cbn; lia|].
           intros x Hx. rewrite Forall_forall in F1. destruct (F1 x Hx) as [_ [-> _]].
           destruct (Z.eqb_spec b b0); [contradiction|]. apply andb_false_r.
      * rewrite filter_all_false; [cbn; lia|].
        intros x Hx. rewrite Forall_forall in F1. destruct (F1 x Hx) as [-> _].
        destruct (Z.eqb_spec a a0); [contradiction|]. reflexivity.
    + apply Forall_app. split.
      * eapply Forall_impl; [|exact F1]. cbn. intros bd [-> [-> [Hc Ho]]]. repeat split; [now left|assumption|assumption].
      * eapply Forall_impl; [|exact F2]. cbn. intros bd [Hin Hrest]. split; [now right|assumption].
Qed.

(** headline corollaries for a run from scratch *)
Section Run.
  Variables (legacy : bool) (arom : Z -> bool) (edges : list (Z * Z * Z)) (s0 s1 : cstate) (bonds : list bond).
  Hypothesis We : wf_edges edges.
  Hypothesis Ws : wf_state s0.
  Hypothesis Run : edges_from_bonding legacy arom edges s0 [] = Ok (s1, bonds).

  Theorem bond_only_across_base_edge : forall bd, In bd bonds -> In (b_src bd, b_tgt bd) (map fst edges).
  Proof.
    destruct (fold_inv _ _ _ _ _ _ _ We Ws Run) as [_ [_ [new [Hn [_ F]]]]]. cbn in Hn. subst new.
    rewrite Forall_forall in F. intros bd H. now destruct (F bd H).
  Qed.
  Theorem bond_count_le_order : forall a b, (bonds_between a b bonds <= order_sum a b edges)%nat.
  Proof. destruct (fold_inv _ _ _ _ _ _ _ We Ws Run) as [_ [_ [new [Hn [L _]]]]]. cbn in Hn. now subst new. Qed.
  Theorem bond_pair_compatible : forall bd, In bd bonds -> compat_str legacy (b_d1 bd) (b_d2 bd) = true.
  Proof.
    destruct (fold_inv _ _ _ _ _ _ _ We Ws Run) as [_ [_ [new [Hn [_ F]]]]]. cbn in Hn. subst new.
    rewrite Forall_forall in F. intros bd H. now destruct (F bd H) as [_ [? _]].
  Qed.
  Theorem bond_order_annotated : forall bd, In bd bonds ->
    bond_order arom (b_u bd) (b_v bd) (b_d1 bd) = Ok (b_order bd).
  Proof.
    destruct (fold_inv _ _ _ _ _ _ _ We Ws Run) as [_ [_ [new [Hn [_ F]]]]]. cbn in Hn. subst new.
    rewrite Forall_forall in F. intros bd H. now destruct (F bd H) as [_ [_ ?]].
  Qed.
  (** every written occurrence of a descriptor is either still on its atom or was consumed by
      exactly one bond end: no descriptor is used twice *)
  Theorem descriptor_used_once : forall a u d,
    (cnt d (tlookup u (slookup a s1)) + uses a u d bonds = cnt d (tlookup u (slookup a s0)))%nat.
  Proof.
    destruct (fold_inv _ _ _ _ _ _ _ We Ws Run) as [_ [B _]]. intros a u d. specialize (B a u d).
    unfold bal in B. cbn [uses] in B. lia.
  Qed.
  Corollary uses_le_written : forall a u d, (uses a u d bonds <= cnt d (tlookup u (slookup a s0)))%nat.
  Proof. intros a u d. pose proof (descriptor_used_once a u d). lia. Qed.
End Run.
