(** SingleFragid: when nothing is squashed every stage of a resolution step keeps "each fragid value is a ONE-element list holding the
    key of a coarse node with a fragment" - the invariant of Resolve/FragidProofs.v with singleton lists (the proofs of the stages
    are those of FragidProofs, replayed inside the module [Single] for the stronger value predicate; squash_atoms, the only stage
    that concatenates fragid lists, is excluded by hypothesis).  Consequence: no atom of a returned non-squashing step belongs to
    several fragments, so the closed form of the atom names (Resolve/NameClosed.v) applies to it. *)
From Coq Require Import String.
From Coq Require Import List Ascii ZArith Bool Lia Sorting.Permutation.
From CGV Require Import Base.PyBase Base.PyVal Base.NxGraph Resolve.Bonding Resolve.GraphOps Resolve.Pipeline
     Resolve.PipelineFull Resolve.MapProofs Resolve.VirtualProofs Resolve.CopyProofs Resolve.FragidProofs.
From CGV Require Hydro.Hydrogens Hydro.Squash Stereo.EzImpl.
Import ListNotations.
Open Scope Z_scope.

Module Single.
(** ---------------------------------------------------------------- the invariant *)
Definition key_in (R : list Z) (x : pyval) : Prop := exists c, x = VInt c /\ In c R.
Definition vgood (R : list Z) (v : pyval) : Prop := exists c, v = VList [VInt c] /\ In c R.
Definition vok (R : list Z) (v : pyval) : Prop := v = VNone \/ vgood R v.
Definition egood (R : list Z) (kv : pystr * pyval) : Prop := fst kv = S "fragid" -> vok R (snd kv).
Definition agood (R : list Z) (a : attrs) : Prop := Forall (egood R) a.
Definition fid_inv (R : list Z) (g : graph) : Prop := Forall (fun n => agood R (na n)) g.

Lemma agood_nil R : agood R [].
Proof. constructor. Qed.
Lemma egood_other R k v : k <> S "fragid" -> egood R (k, v).
Proof. intros N E. contradiction. Qed.

Lemma agood_aset R k v a : egood R (k, v) -> agood R a -> agood R (aset k v a).
Proof.
  intros Hkv. unfold agood. induction 1 as [|[k' v'] r Hx Hr IH]; cbn; [constructor; [exact Hkv|constructor]|].
  destruct (str_eqb_spec k k') as [->|N]; constructor; auto.
Qed.
Lemma agood_adel R k a : agood R a -> agood R (adel k a).
Proof. unfold agood. induction 1 as [|[k' v'] r Hx Hr IH]; cbn; [constructor|]. destruct (str_eqb k k'); [exact Hr|constructor; auto]. Qed.
Lemma agood_aupdate R b : agood R b -> forall a, agood R a -> agood R (aupdate a b).
Proof.
  unfold aupdate, agood at 1. induction 1 as [|[k v] r Hx Hr IH]; cbn; intros a Ha; [exact Ha|]. apply IH. now apply agood_aset.
Qed.
Lemma aget_in k a v : aget k a = Some v -> In (k, v) a.
Proof.
  induction a as [|[k' v'] r IH]; cbn; [discriminate|].
  destruct (str_eqb_spec k k') as [->|N]; [intros H; inversion H; now left|intros H; right; auto].
Qed.
Lemma agood_get R a v : agood R a -> aget (S "fragid") a = Some v -> vok R v.
Proof. intros H E. apply aget_in in E. unfold agood in H. rewrite Forall_forall in H. exact (H _ E eq_refl). Qed.

(** ---------------------------------------------------------------- graph operations *)
Lemma inv_gupdate R k f g : (forall n, agood R (na n) -> agood R (na (f n))) -> fid_inv R g -> fid_inv R (gupdate k f g).
Proof.
  intros Hf. induction 1 as [|n r Hn Hr IH]; cbn; [constructor|].
  destruct (Z.eqb (nk n) k); constructor; auto.
Qed.
Lemma inv_app R g h : fid_inv R g -> fid_inv R h -> fid_inv R (g ++ h).
Proof. intros A B. apply Forall_app. auto. Qed.
Lemma inv_add_node R g k a : agood R a -> fid_inv R g -> fid_inv R (add_node g k a).
Proof.
  intros Ha Hg. unfold add_node. destruct (has_node g k).
  - apply inv_gupdate; [|exact Hg]. intros n Hn. cbn. now apply agood_aupdate.
  - apply inv_app; [exact Hg|]. repeat constructor. exact Ha.
Qed.
Lemma inv_set_node_attr R g k x v : egood R (x, v) -> fid_inv R g -> fid_inv R (set_node_attr g k x v).
Proof. intros He. apply inv_gupdate. intros n Hn. cbn. now apply agood_aset. Qed.
Lemma inv_del_node_attr R g k x : fid_inv R g -> fid_inv R (del_node_attr g k x).
Proof. apply inv_gupdate. intros n Hn. cbn. now apply agood_adel. Qed.
Lemma inv_set_all_nodes R g x v : egood R (x, v) -> fid_inv R g -> fid_inv R (set_all_nodes g x v).
Proof.
  intros He Hg. unfold set_all_nodes, fid_inv. rewrite Forall_map. eapply Forall_impl; [|exact Hg].
  intros n Hn. cbn. now apply agood_aset.
Qed.
Lemma inv_set_nodes_from R x d : (forall kv, In kv d -> egood R (x, snd kv)) -> forall g, fid_inv R g -> fid_inv R (set_nodes_from g x d).
Proof.
  unfold set_nodes_from. induction d as [|kv r IH]; cbn; intros H g Hg; [exact Hg|].
  apply IH; [intros kv' Hk; apply H; now right|]. apply inv_set_node_attr; [apply H; now left|exact Hg].
Qed.
Lemma inv_add_edge R g u v d : fid_inv R g -> fid_inv R (add_edge g u v d).
Proof.
  intros Hg. unfold add_edge.
  set (g1 := if has_node g u then g else g ++ [{| nk := u; na := []; nadj := [] |}]).
  assert (fid_inv R g1) as H1 by (unfold g1; destruct (has_node g u); [exact Hg|apply inv_app; [exact Hg|repeat constructor]]).
  set (g2 := if has_node g1 v then g1 else g1 ++ [{| nk := v; na := []; nadj := [] |}]).
  assert (fid_inv R g2) as H2 by (unfold g2; destruct (has_node g1 v); [exact H1|apply inv_app; [exact H1|repeat constructor]]).
  apply inv_gupdate; [intros n Hn; exact Hn|]. apply inv_gupdate; [intros n Hn; exact Hn|exact H2].
Qed.
Lemma inv_remove_node R g k : fid_inv R g -> fid_inv R (remove_node g k).
Proof.
  intros Hg. unfold remove_node, fid_inv. rewrite Forall_map. unfold fid_inv in Hg. rewrite Forall_forall in *.
  intros n Hn. apply filter_In in Hn as [Hn _]. cbn. auto.
Qed.
Lemma inv_fold_left {A} R (f : graph -> A -> graph) l : (forall g x, fid_inv R g -> fid_inv R (f g x)) ->
  forall g, fid_inv R g -> fid_inv R (fold_left f l g).
Proof. intros Hf. induction l as [|x r IH]; cbn; intros g Hg; [exact Hg|]. apply IH, Hf, Hg. Qed.
Lemma inv_fold_left_in {A} R (f : graph -> A -> graph) l : (forall g x, In x l -> fid_inv R g -> fid_inv R (f g x)) ->
  forall g, fid_inv R g -> fid_inv R (fold_left f l g).
Proof.
  induction l as [|x r IH]; cbn; intros Hf g Hg; [exact Hg|].
  apply IH; [intros g' y Hy; apply Hf; now right|]. apply Hf; [now left|exact Hg].
Qed.
Lemma inv_node_in R g n : fid_inv R g -> In n g -> agood R (na n).
Proof. unfold fid_inv. rewrite Forall_forall. auto. Qed.
Lemma inv_gcopy R g : fid_inv R g -> fid_inv R (gcopy g).
Proof.
  intros Hg. unfold gcopy. apply inv_fold_left_in.
  - intros acc n Hn Ha. apply inv_fold_left; [|exact Ha]. intros a wa Hacc. now apply inv_add_edge.
  - apply inv_fold_left_in; [|constructor]. intros acc n Hn Ha. apply inv_add_node; [|exact Ha]. exact (inv_node_in R g n Hg Hn).
Qed.
Lemma inv_relabel_copy R g m : fid_inv R g -> fid_inv R (relabel_copy g m).
Proof.
  intros Hg. unfold relabel_copy. apply inv_fold_left; [intros a e Ha; now apply inv_add_edge|].
  apply inv_fold_left_in.
  - intros acc n Hn Ha. apply inv_gupdate; [|exact Ha]. intros x _. cbn. exact (inv_node_in R g n Hg Hn).
  - apply inv_fold_left; [|constructor]. intros acc n Ha. apply inv_add_node; [apply agood_nil|exact Ha].
Qed.
Lemma inv_node_attrs R g k a : fid_inv R g -> node_attrs g k = Ok a -> agood R a.
Proof.
  intros Hg. unfold node_attrs. destruct (gfind k g) as [n|] eqn:E; [|discriminate]. intros H. inversion H; subst.
  apply (inv_node_in R g n Hg). clear -E. induction g as [|m r IH]; cbn in E; [discriminate|].
  destruct (Z.eqb (nk m) k); [inversion E; now left|right; auto].
Qed.
Lemma inv_fold_res {A} R (f : graph -> A -> res graph) l : (forall g x g', fid_inv R g -> f g x = Ok g' -> fid_inv R g') ->
  forall g g', fid_inv R g -> GraphOps.fold_res f l g = Ok g' -> fid_inv R g'.
Proof.
  intros Hf. induction l as [|x r IH]; cbn; intros g g' Hg H; [inversion H; now subst|].
  destruct (f g x) as [g1|] eqn:E; cbn in H; [|discriminate]. eapply IH; [|exact H]. eapply Hf; eauto.
Qed.

Ltac neq_str := let E := fresh in intros E; apply str_eqb_eq in E; vm_compute in E; discriminate.
Ltac other_key := apply egood_other; neq_str.

(** edges_from_bonding_descrpt *)
Lemma inv_apply_bond R aa g b g' : fid_inv R g -> apply_bond aa g b = Ok g' -> fid_inv R g'.
Proof.
  intros Hg. unfold apply_bond. destruct aa; [|intros H; inversion H; subst; now apply inv_add_edge].
  apply inv_fold_res; [|now apply inv_add_edge]. intros m n m' Hm. unfold of_option, bind.
  destruct (node_get m n (S "element")); [|discriminate]. destruct (pyval_eqb p (VStr (S "H"))); [intros H; inversion H; subst; exact Hm|].
  destruct (node_get m n (S "hcount")); [|discriminate].
  destruct (dec_hcount _ p0); [|discriminate]. intros H. inversion H; subst. apply inv_set_node_attr; [other_key|exact Hm].
Qed.
Theorem inv_bonding R legacy aa meta mol fgs mol' fgs' : fid_inv R mol ->
  bonding_step legacy aa meta mol fgs = Ok (mol', fgs') -> fid_inv R mol'.
Proof.
  intros Hg. unfold bonding_step. destruct (bonds_of legacy meta mol fgs) as [[s1 bonds]|]; cbn; [|discriminate].
  destruct (GraphOps.fold_res (apply_bond aa) bonds mol) as [m|] eqn:E; cbn; [|discriminate]. intros H. inversion H; subst.
  eapply inv_fold_res; [|exact Hg|exact E]. intros g x g'. apply inv_apply_bond.
Qed.

(** sort_nodes_by_attr *)
Theorem inv_sort R g h : fid_inv R g -> sort_nodes_by_attr g = Ok h -> fid_inv R h.
Proof.
  intros Hg. unfold sort_nodes_by_attr. destruct (sort_mapping g) as [m|]; cbn; [|discriminate].
  destruct (GraphOps.map_res _ _) as [nd|]; cbn; [|discriminate]. intros H. inversion H; subst.
  apply inv_set_nodes_from; [intros kv _; other_key|]. now apply inv_relabel_copy.
Qed.


(** annotate_ez_isomers_cgsmiles (Stereo/EzImpl.v) *)
Theorem inv_ez R g h : fid_inv R g -> EzImpl.annotate_ez_isomers_cgsmiles g = Ok h -> fid_inv R h.
Proof.
  intros Hg. unfold EzImpl.annotate_ez_isomers_cgsmiles, EzImpl.annotate_ez_isomers.
  destruct (EzImpl.all_pairs g _) as [ps|]; cbn; [|discriminate]. destruct (EzImpl.appends_of ps); cbn; [|discriminate].
  intros H. inversion H; subst. apply inv_fold_left; [intros acc kv Hacc; now apply inv_del_node_attr|].
  unfold EzImpl.apply_appends. apply inv_fold_left; [|exact Hg]. intros acc kt Hacc. unfold EzImpl.append_ez.
  apply inv_set_node_attr; [other_key|exact Hacc].
Qed.

(** ---------------------------------------------------------------- rebuild_h_atoms (Hydro/Hydrogens.v) *)
Lemma inv_hfold_res {A} R (f : graph -> A -> res graph) l : (forall g x g', fid_inv R g -> f g x = Ok g' -> fid_inv R g') ->
  forall g g', fid_inv R g -> Hydrogens.fold_res f l g = Ok g' -> fid_inv R g'.
Proof.
  intros Hf. induction l as [|x r IH]; cbn; intros g g' Hg H; [inversion H; now subst|].
  destruct (f g x) as [g1|] eqn:E; cbn in H; [|discriminate]. eapply IH; [|exact H]. eapply Hf; eauto.
Qed.

Lemma inv_fill_step R respect g k g' : fid_inv R g -> Hydrogens.fill_step respect g k = Ok g' -> fid_inv R g'.
Proof.
  intros Hg. unfold Hydrogens.fill_step, bind. destruct (node_attrs g k) as [n|]; [|discriminate].
  destruct (_ || _); [intros H; inversion H; now subst|].
  destruct (Hydrogens.bonds_missing g k); [|discriminate].
  destruct (match aget (S "hcount") n with Some v => as_int v | None => Ok 0 end); [|discriminate].
  intros H. inversion H; subst. apply inv_set_node_attr; [other_key|exact Hg].
Qed.
Lemma inv_keep_bonding_step R g kv g' : fid_inv R g -> Hydrogens.keep_bonding_step g kv = Ok g' -> fid_inv R g'.
Proof.
  intros Hg. unfold Hydrogens.keep_bonding_step, bind, of_option. destruct kv as [k ops].
  destruct (as_list ops) as [ol|]; [|discriminate]. destruct (Hydrogens.fold_res _ ol 0); [|discriminate].
  destruct (node_attrs g k) as [nn|]; [|discriminate]. destruct (aget (S "hcount") nn) as [hv|]; [|discriminate]. destruct (as_int hv); [|discriminate].
  intros H. inversion H; subst. apply inv_set_node_attr; [other_key|exact Hg].
Qed.
Lemma agood_h_defaults R : agood R HydroGen.h_atom_defaults.
Proof. unfold agood. apply Forall_forall. intros [k v] Hin E. cbn in E. subst k. vm_compute in Hin. repeat (destruct Hin as [Hin|Hin]; [discriminate|]). contradiction. Qed.
Lemma inv_attach_h R g k idxs : fid_inv R g -> fid_inv R (Hydrogens.attach_h g k idxs).
Proof.
  intros Hg. unfold Hydrogens.attach_h. apply inv_fold_left; [intros acc j Ha; now apply inv_add_edge|].
  apply inv_fold_left; [|exact Hg]. intros acc j Ha. apply inv_add_node; [apply agood_h_defaults|exact Ha].
Qed.
Lemma inv_add_h_step R g k g' : fid_inv R g -> Hydrogens.add_h_step g k = Ok g' -> fid_inv R g'.
Proof.
  intros Hg. unfold Hydrogens.add_h_step, bind. destruct (node_attrs g k) as [n|]; [|discriminate].
  destruct (match aget (S "hcount") n with None => Ok 0 | Some (VInt h) => Ok h | Some (VBool b) => Ok (if b then 1 else 0) | Some _ => Err EType end) as [hc|];
    [|discriminate].
  assert (fid_inv R (del_node_attr (Hydrogens.attach_h g k (Hydrogens.fresh_keys g hc)) k (S "hcount"))) as H3
    by (apply inv_del_node_attr, inv_attach_h, Hg).
  destruct (aget (S "rs_isomer") n); [|intros H; inversion H; now subst].
  destruct (as_list p) as [pl|]; [|discriminate]. destruct (Hydrogens.map_res _ pl); [|discriminate].
  intros H. inversion H; subst. apply inv_set_node_attr; [other_key|exact H3].
Qed.
Lemma inv_inherit_attr R k anchor g attr g' : fid_inv R g -> Hydrogens.inherit_attr k anchor g attr = Ok g' -> fid_inv R g'.
Proof.
  intros Hg. unfold Hydrogens.inherit_attr, bind. destruct (node_attrs g k) as [nn|]; [|discriminate].
  destruct (ahas attr nn); [intros H; inversion H; now subst|].
  destruct (node_attrs g anchor) as [an|] eqn:Ea; [|discriminate]. intros H. inversion H; subst.
  apply inv_set_node_attr; [|exact Hg]. intros E. cbn [fst] in E. subst attr. cbn [snd]. unfold Hydrogens.getd.
  destruct (aget (S "fragid") an) as [v|] eqn:Ev; [|now left].
  exact (agood_get R an v (inv_node_attrs R g anchor an Hg Ea) Ev).
Qed.
Lemma inv_inherit_step R ca g k g' : fid_inv R g -> Hydrogens.inherit_step ca g k = Ok g' -> fid_inv R g'.
Proof.
  intros Hg. unfold Hydrogens.inherit_step, bind. destruct (node_attrs g k) as [n|]; [|discriminate].
  destruct (Hydrogens.wants_inherit n); [|intros H; inversion H; now subst].
  destruct (neighbors g k) as [|anchor r]; [discriminate|].
  apply inv_hfold_res; [|exact Hg]. intros m attr m'. apply inv_inherit_attr.
Qed.
Theorem inv_rebuild_after_car R kb ca g1 g' : fid_inv R g1 -> Hydrogens.rebuild_after_car kb ca g1 = Ok g' -> fid_inv R g'.
Proof.
  intros Hg. unfold Hydrogens.rebuild_after_car, bind.
  assert (fid_inv R (set_all_nodes g1 HydroGen.rebuild_reset_attr (VInt HydroGen.rebuild_reset_value))) as H2
    by (apply inv_set_all_nodes; [other_key|exact Hg]).
  destruct (Hydrogens.fill_valence _ _) as [g3|] eqn:E3; [|discriminate].
  assert (fid_inv R g3) as H3 by (unfold Hydrogens.fill_valence in E3; eapply inv_hfold_res; [|exact H2|exact E3]; intros m k m'; apply inv_fill_step).
  destruct (if kb then _ else _) as [g4|] eqn:E4; [|discriminate].
  assert (fid_inv R g4) as H4.
  { destruct kb; [|inversion E4; now subst]. eapply inv_hfold_res; [|exact H3|exact E4]. intros m kv m'. apply inv_keep_bonding_step. }
  destruct (Hydrogens.add_explicit_hydrogens g4) as [g5|] eqn:E5; [|discriminate].
  assert (fid_inv R g5) as H5 by (unfold Hydrogens.add_explicit_hydrogens in E5; eapply inv_hfold_res; [|exact H4|exact E5]; intros m k m'; apply inv_add_h_step).
  intros H. unfold Hydrogens.inherit_all in H. eapply inv_hfold_res; [|exact H5|exact H]. intros m k m'. apply inv_inherit_step.
Qed.
(** ---------------------------------------------------------------- the aromaticity transcript keeps the invariant *)
Lemma agood_adel_inv R k a : k <> S "fragid" -> agood R (adel k a) -> agood R a.
Proof.
  intros N. unfold agood. induction a as [|[k' v'] r IH]; cbn; [auto|].
  destruct (str_eqb_spec k k') as [->|N']; intros H.
  - constructor; [now apply egood_other|exact H].
  - inversion H; subst. constructor; auto.
Qed.
Lemma agood_ainsert R kv a : agood R (ainsert kv a) <-> egood R kv /\ agood R a.
Proof.
  unfold agood. induction a as [|x r IH]; cbn.
  - split; [intros H; inversion H; auto|intros [A B]; constructor; auto].
  - destruct (str_ltb (fst kv) (fst x)).
    + split; [intros H; inversion H; auto|intros [A B]; constructor; auto].
    + split.
      * intros H. inversion H; subst. apply IH in H3 as [A B]. split; [exact A|constructor; auto].
      * intros [A B]. inversion B; subst. constructor; [auto|]. apply IH. auto.
Qed.
Lemma agood_asort R a : agood R (asort a) <-> agood R a.
Proof.
  unfold asort. induction a as [|x r IH]; cbn; [tauto|]. rewrite agood_ainsert, IH. unfold agood.
  split; [intros [A B]; constructor; auto|intros H; inversion H; auto].
Qed.
Lemma vok_eqb R v v' : vok R v -> pyval_eqb v v' = true -> vok R v'.
Proof.
  intros [->|[c [-> Hc]]] H.
  - destruct v'; try discriminate. now left.
  - destruct v'; try discriminate. rename l into l0. destruct l0 as [|y [|z r]]; cbn in H; try discriminate.
    + destruct y; cbn in H; try discriminate. rewrite andb_true_r in H. apply Z.eqb_eq in H. subst. right. exists z. auto.
    + apply andb_true_iff in H as [_ H]. discriminate H.
Qed.
Lemma agood_eqb_ordered R : forall a b, attrs_eqb_ordered a b = true -> agood R a -> agood R b.
Proof.
  unfold agood. induction a as [|[k v] r IH]; destruct b as [|[k' v'] r']; cbn; try discriminate; [auto|].
  intros H F. apply andb_true_iff in H as [H H3]. apply andb_true_iff in H as [H1 H2]. inversion F; subst.
  apply str_eqb_eq in H1. subst k'. constructor; [|now apply IH].
  intros E. cbn in *. eapply vok_eqb; [apply H4; exact E|exact H2].
Qed.
Lemma agood_eqb R a b : attrs_eqb a b = true -> agood R a -> agood R b.
Proof. unfold attrs_eqb. intros H Ha. apply agood_asort. eapply agood_eqb_ordered; [exact H|]. now apply agood_asort. Qed.

(** Hydrogens.transcript_contract (same nodes, attributes equal except 'aromatic') carries the invariant over
    the recorded result of pysmiles' correct_aromatic_rings *)
Theorem inv_transcript R before after : Hydrogens.transcript_contract before after = true -> fid_inv R before -> fid_inv R after.
Proof.
  unfold Hydrogens.transcript_contract. intros H Hb. apply andb_true_iff in H as [H _]. apply andb_true_iff in H as [Hl H].
  apply Nat.eqb_eq in Hl. revert after Hl H. unfold fid_inv in *.
  induction Hb as [|n r Hn Hr IH]; destruct after as [|m r']; cbn; try discriminate; [constructor|].
  intros Hl H. apply andb_true_iff in H as [H1 H2]. constructor; [|apply IH; [lia|exact H2]].
  unfold Hydrogens.nrec_same_but in H1. repeat (apply andb_true_iff in H1 as [H1 ?]).
  apply (agood_adel_inv R (S "aromatic")); [neq_str|]. eapply agood_eqb; [eassumption|]. now apply agood_adel.
Qed.
Lemma agood_set_fragid_nodup R v a : NoDup (map fst a) -> vok R v -> agood R (aset (S "fragid") v a).
Proof.
  intros Hn Hv. unfold agood. induction a as [|[k' v'] r IH]; cbn [aset]; [constructor; [intros _; exact Hv|constructor]|].
  cbn [map fst] in Hn.
  inversion Hn as [|? ? Hk Hr]; subst. destruct (str_eqb_spec (S "fragid") k') as [<-|N].
  - constructor; [intros _; exact Hv|]. apply Forall_forall. intros [k2 v2] Hin E. cbn in E. subst k2.
    exfalso. apply Hk. apply in_map_iff. exists (S "fragid", v2). auto.
  - constructor; [apply egood_other; congruence|now apply IH].
Qed.
Lemma agood_stamped R ck name t a : NoDup (map fst a) -> In ck R -> agood R (stamped ck name t a).
Proof.
  intros Hn Hc. unfold stamped. apply agood_aset; [other_key|]. apply agood_set_fragid_nodup; [exact Hn|].
  right. exists ck. auto.
Qed.
Lemma agood_weaken R R' a : (forall c, In c R -> In c R') -> agood R a -> agood R' a.
Proof.
  intros Hs. unfold agood. apply Forall_impl. intros [k v] He E. destruct (He E) as [->|[c [-> Hc]]]; [now left|].
  right. exists c. auto.
Qed.

Definition fine_inv2 (R : list Z) (mol : graph) : Prop :=
  NoDup (node_keys mol) /\ forall k a, node_attrs mol k = Ok a -> agood R a.

Lemma disc_step_inv2 fd R mol fgs mn mol2 fgs2 : wf_dict fd -> wf_attrs fd -> fine_inv2 R mol ->
  disc_step fd (mol, fgs) mn = Ok (mol2, fgs2) -> fine_inv2 (R ++ real_of fd mn) mol2.
Proof.
  intros Hw Hwa Hi H. unfold real_of.
  destruct (aget (S "fragname") (na mn)) as [fv|] eqn:Hf; [|unfold disc_step in H; rewrite Hf in H; discriminate].
  destruct (lookup_fragment fd fv) as [[name frag]|] eqn:Hl.
  - destruct (lookup_fragment_get _ _ _ _ Hl) as [_ Hg]. pose proof (Hw _ _ Hg) as Hwf.
    destruct (disc_step_real _ _ _ _ _ _ _ _ _ Hf Hl H) as [mol1 [corr [Hm Em]]].
    destruct (merge_graphs_keys _ _ _ _ Hm Hwf) as [Hk Hold].
    destruct (frag_copy _ _ _ _ Hm Hwf) as [off [fo [Ho [Ec Hc]]]].
    destruct Hi as [Hn Ha]. destruct Hwf as [Hnt _].
    assert (forall x, In x (node_keys mol) -> ~ In x (map snd corr)) as Hdisj.
    { intros x Hx Hv. subst corr. apply in_map_iff in Hv as [[t y] [Ey Hy]]. cbn in Ey. subst y.
      apply correspondence_fresh in Hy. pose proof (merge_offsets_max _ _ _ Ho _ Hx). lia. }
    assert (NoDup (map (fun n => map_get corr (nk n)) frag)) as Hnd
      by (subst corr; rewrite corr_values by exact Hnt; apply correspondence_injective).
    split.
    + subst mol2. rewrite stamp_keys, Hk. apply NoDup_app_intro; auto. subst corr. apply correspondence_injective.
    + intros k a E.
      assert (In k (node_keys mol2)) as Hin by (apply gfind_has; eapply node_attrs_has; exact E).
      subst mol2. rewrite stamp_keys, Hk, in_app_iff in Hin. destruct Hin as [Hin|Hin].
      * rewrite stamp_other in E.
        -- rewrite (Hold k Hin) in E. apply (agood_weaken R); [intros c Hc'; apply in_or_app; now left|]. exact (Ha k a E).
        -- intros X. apply (Hdisj k Hin). subst corr. rewrite <- corr_values by exact Hnt. exact X.
      * assert (In k (map (fun n => map_get corr (nk n)) frag)) as Hin' by (subst corr; rewrite corr_values by exact Hnt; exact Hin).
        apply in_map_iff in Hin' as [n [En Hn']]. subst k. destruct (Hc n Hn') as [a' [E1 E2]].
        rewrite (stamp_same (map_get corr) (nk mn) name frag mol1 Hnd n a' Hn' E2) in E. inversion E; subst a.
        apply agood_stamped; [|apply in_or_app; right; now left].
        eapply merge_node_nodup; [exact E1|]. exact (Hwa _ _ Hg n Hn').
  - unfold disc_step in H. rewrite Hf in H. unfold of_option, bind at 1 in H. rewrite Hl in H.
    destruct (virtual_ok mn); [|discriminate]. unfold bind in H. inversion H; subst. now rewrite app_nil_r.
Qed.

Theorem disconnected_inv2 fd : wf_dict fd -> wf_attrs fd -> forall l R mol0 fgs0 mol fgs, fine_inv2 R mol0 ->
  GraphOps.fold_res (disc_step fd) l (mol0, fgs0) = Ok (mol, fgs) -> fine_inv2 (R ++ flat_map (real_of fd) l) mol.
Proof.
  intros Hw Hwa. induction l as [|mn r IH]; intros R mol0 fgs0 mol fgs Hi H.
  - cbn in H. inversion H; subst. cbn. now rewrite app_nil_r.
  - change (GraphOps.fold_res (disc_step fd) (mn :: r) (mol0, fgs0))
      with (b' <- disc_step fd (mol0, fgs0) mn ;; GraphOps.fold_res (disc_step fd) r b') in H.
    destruct (disc_step fd (mol0, fgs0) mn) as [[m1 f1]|] eqn:E; [|discriminate]. unfold bind in H.
    change (flat_map (real_of fd) (mn :: r)) with (real_of fd mn ++ flat_map (real_of fd) r).
    rewrite app_assoc. eapply IH; [|exact H]. eapply disc_step_inv2; eauto.
Qed.
Lemma fine2_fid R g : fine_inv2 R g -> fid_inv R g.
Proof.
  intros [Hn Ha]. unfold fid_inv. apply Forall_forall. intros n Hin. apply (Ha (nk n)).
  unfold node_attrs. now rewrite (gfind_in g Hn n Hin).
Qed.
(** the molecule resolve_disconnected_molecule builds satisfies the invariant for R = the coarse nodes with a fragment *)
Theorem inv_disconnected fd meta mol fgs : wf_dict fd -> wf_attrs fd -> resolve_disconnected fd meta = Ok (mol, fgs) ->
  fid_inv (flat_map (real_of fd) meta) mol.
Proof.
  intros Hw Hwa H. apply fine2_fid. apply (disconnected_inv2 fd Hw Hwa meta [] gempty [] mol fgs); [|exact H].
  split; [constructor|]. intros k a E. discriminate.
Qed.

(** ---------------------------------------------------------------- a step that squashes nothing *)
Theorem step_single legacy aa fd prev car fo : wf_dict fd -> wf_attrs fd ->
  resolve_step_full legacy aa fd prev car = Ok fo -> fo_m3 fo = fo_m2 fo ->
  fid_inv (flat_map (real_of fd) (fo_meta fo)) (fo_m6 fo).
Proof.
  intros Hw Hwa. unfold resolve_step_full.
  set (meta := set_nodes_from prev (S "fragname") (get_node_attributes prev (S "atomname"))).
  set (R := flat_map (real_of fd) meta).
  destruct (resolve_disconnected fd meta) as [[m1 fg1]|] eqn:E1; [|discriminate]. unfold bind at 1.
  pose proof (inv_disconnected fd meta m1 fg1 Hw Hwa E1) as I1. fold R in I1.
  destruct (bonding_step legacy aa meta m1 fg1) as [[m2 fg2]|] eqn:E2; [|discriminate]. unfold bind at 1.
  pose proof (inv_bonding R _ _ _ _ _ _ _ I1 E2) as I2.
  destruct (Squash.squash_atoms m2) as [m3|] eqn:E3; [|discriminate]. unfold bind at 1.
  destruct (if aa then Hydrogens.rebuild_h_atoms_default m3 car else Ok m3) as [m4|] eqn:E4; [|discriminate]. unfold bind at 1.
  destruct (sort_nodes_by_attr m4) as [m5|] eqn:E5; [|discriminate]. unfold bind at 1.
  destruct (if aa then EzImpl.annotate_ez_isomers_cgsmiles m5 else Ok m5) as [m6|] eqn:E6; [|discriminate]. unfold bind at 1.
  destruct (annotate_fragments meta m6) as [fgs|]; [|discriminate]. unfold bind at 1.
  destruct (if aa then set_atom_names m6 meta fgs else Ok (m6, fgs)) as [[m7 fgs']|] eqn:E7; [|discriminate]. unfold bind.
  intros H. inversion H; subst fo. cbn [fo_meta fo_m2 fo_m3 fo_m6]. intros ->.
  assert (fid_inv R m4) as I4.
  { destruct aa; [|inversion E4; now subst]. unfold Hydrogens.rebuild_h_atoms_default, Hydrogens.rebuild_h_atoms in E4.
    destruct car as [g1|]; [|discriminate]. destruct (Hydrogens.transcript_contract m2 g1) eqn:Ec; [|discriminate].
    eapply inv_rebuild_after_car; [|exact E4]. eapply inv_transcript; eauto. }
  pose proof (inv_sort R _ _ I4 E5) as I5.
  destruct aa; [eapply inv_ez; eauto|inversion E6; now subst].
Qed.
End Single.

(** no atom of the sorted graph of a non-squashing step has a fragid that reads as "several fragments" *)
Theorem step_not_shared legacy aa fd prev car fo : wf_dict fd -> wf_attrs fd ->
  resolve_step_full legacy aa fd prev car = Ok fo -> fo_m3 fo = fo_m2 fo ->
  forall n a, node_attrs (fo_m6 fo) n = Ok a -> fragid_shared a <> Ok true.
Proof.
  intros Hw Hwa H Hs n a Ha. pose proof (Single.step_single _ _ _ _ _ _ Hw Hwa H Hs) as I.
  pose proof (Single.inv_node_attrs _ _ _ _ I Ha) as G. unfold fragid_shared.
  destruct (aget (S "fragid") a) as [v|] eqn:E; [|discriminate].
  destruct (Single.agood_get _ _ _ G E) as [->|[c [-> _]]]; discriminate.
Qed.
