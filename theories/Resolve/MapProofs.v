(** MapProofs: C02 - proofs about the models of annotate_fragments (exactness / cover of the coarse
    'graph' attributes) and merge_graphs (one-element fragid, attribute copy, the correspondence bijection). *)
From Coq Require Import String.
From Coq Require Import List Ascii ZArith Bool Lia Sorting.Permutation.
From CGV Require Import Base.PyBase Base.PyVal Base.NxGraph Resolve.Bonding Resolve.GraphOps Resolve.Pipeline.
Import ListNotations.
Open Scope Z_scope.

(** ---------------------------------------------------------------- node keys under the graph operations *)
Lemma gfind_has g k : has_node g k = true <-> In k (node_keys g).
Proof.
  unfold has_node. induction g as [|n r IH]; cbn; [split; [discriminate|tauto]|].
  destruct (Z.eqb_spec (nk n) k) as [E|N]; [split; auto|]. rewrite IH. split; [auto|intros [H|H]; [contradiction|exact H]].
Qed.
Lemma keys_gupdate k f g : (forall n, nk (f n) = nk n) -> node_keys (gupdate k f g) = node_keys g.
Proof.
  intros Hf. unfold node_keys. induction g as [|n r IH]; cbn; [reflexivity|].
  destruct (Z.eqb (nk n) k); cbn; [now rewrite Hf|now rewrite IH].
Qed.
Lemma keys_add_node g k a : node_keys (add_node g k a) = if has_node g k then node_keys g else node_keys g ++ [k].
Proof.
  unfold add_node. destruct (has_node g k); [now apply keys_gupdate|].
  unfold node_keys. now rewrite map_app.
Qed.
Lemma in_keys_add_node g k a x : In x (node_keys (add_node g k a)) <-> In x (node_keys g) \/ x = k.
Proof.
  rewrite keys_add_node. destruct (has_node g k) eqn:E.
  - apply gfind_has in E. split; [auto|intros [H| ->]; auto].
  - rewrite in_app_iff. cbn. intuition.
Qed.
Lemma in_keys_add_edge g u v a x : In x (node_keys (add_edge g u v a)) <-> In x (node_keys g) \/ x = u \/ x = v.
Proof.
  unfold add_edge.
  set (g1 := if has_node g u then g else g ++ [{| nk := u; na := []; nadj := [] |}]).
  set (g2 := if has_node g1 v then g1 else g1 ++ [{| nk := v; na := []; nadj := [] |}]).
  rewrite !keys_gupdate by reflexivity.
  assert (In x (node_keys g1) <-> In x (node_keys g) \/ x = u) as H1.
  { unfold g1. destruct (has_node g u) eqn:E.
    - apply gfind_has in E. split; [auto|intros [H| ->]; auto].
    - unfold node_keys. rewrite map_app, in_app_iff. cbn. intuition. }
  assert (In x (node_keys g2) <-> In x (node_keys g1) \/ x = v) as H2.
  { unfold g2. destruct (has_node g1 v) eqn:E.
    - apply gfind_has in E. split; [auto|intros [H| ->]; auto].
    - unfold node_keys. rewrite map_app, in_app_iff. cbn. intuition. }
  rewrite H2, H1. tauto.
Qed.

(** ---------------------------------------------------------------- annotate_fragments *)
Lemma members_spec fm k n : In n (members_of fm k) <-> exists l, In (n, l) fm /\ In (VInt k) l.
Proof.
  unfold members_of. rewrite in_flat_map. split.
  - intros [[n' l] [Hin Hr]]. cbn in Hr. apply repeat_spec in Hr as E. subst n'.
    exists l. split; [exact Hin|].
    unfold zcount in Hr. destruct (filter _ l) as [|v r] eqn:F; [cbn in Hr; contradiction|].
    assert (In v (filter (fun v => match v with VInt z => Z.eqb z k | _ => false end) l)) as Hv by (rewrite F; now left).
    apply filter_In in Hv as [Hv Hb]. destruct v; try discriminate. apply Z.eqb_eq in Hb. now subst.
  - intros [l [Hin Hk]]. exists (n, l). split; [exact Hin|]. cbn.
    unfold zcount. destruct (filter _ l) as [|v r] eqn:F.
    + exfalso. assert (In (VInt k) (filter (fun v => match v with VInt z => Z.eqb z k | _ => false end) l)) as Hv.
      { apply filter_In. split; [exact Hk|apply Z.eqb_refl]. }
      rewrite F in Hv. contradiction.
    + cbn. now left.
Qed.

Lemma subgraph_nodes mol ns : forall acc g1,
  fold_res (fun acc n => a <- node_attrs mol n ;; Ok (add_node acc n a)) ns acc = Ok g1 ->
  forall x, In x (node_keys g1) <-> In x (node_keys acc) \/ In x ns.
Proof.
  induction ns as [|n r IH]; cbn; intros acc g1 H x.
  - inversion H; subst. tauto.
  - destruct (node_attrs mol n) as [a|]; cbn in H; [|discriminate].
    rewrite (IH _ _ H x), in_keys_add_node. intuition.
Qed.
Lemma subgraph_edges mol (ps : list (Z * Z)) : forall g1 x, (forall a b, In (a, b) ps -> In a (node_keys g1) /\ In b (node_keys g1)) ->
  In x (node_keys (fold_left (fun acc ab => if has_edge mol (fst ab) (snd ab) then add_edge acc (fst ab) (snd ab) [] else acc) ps g1))
  <-> In x (node_keys g1).
Proof.
  induction ps as [|[a b] r IH]; cbn; intros g1 x H; [tauto|].
  destruct (H a b (or_introl eq_refl)) as [Ha Hb].
  assert (forall y, In y (node_keys (if has_edge mol a b then add_edge g1 a b [] else g1)) <-> In y (node_keys g1)) as E.
  { intros y. destruct (has_edge mol a b); [|tauto]. rewrite in_keys_add_edge. split; [intros [?|[-> | ->]]; auto|auto]. }
  rewrite IH; [apply E|]. intros a' b' Hin. rewrite !E. apply H. now right.
Qed.
Lemma pairs_in {A} (l : list A) a b : In (a, b) (pairs l) -> In a l /\ In b l.
Proof.
  induction l as [|x r IH]; cbn; [tauto|]. rewrite in_app_iff, in_map_iff.
  intros [[y [E Hy]]|H]; [inversion E; subst; auto|]. destruct (IH H). auto.
Qed.
Lemma frag_subgraph_nodes mol ns g : frag_subgraph mol ns = Ok g -> forall x, In x (node_keys g) <-> In x ns.
Proof.
  unfold frag_subgraph. destruct (fold_res _ ns gempty) as [g1|] eqn:E; cbn; [|discriminate].
  intros H x. inversion H; subst. pose proof (subgraph_nodes mol ns gempty g1 E) as Hn.
  rewrite subgraph_edges.
  - rewrite Hn. cbn. tauto.
  - intros a b Hin. apply pairs_in in Hin as [Ha Hb]. rewrite !Hn. auto.
Qed.

Lemma map_res_in {A B} (f : A -> res B) : forall l l' y, map_res f l = Ok l' -> In y l' -> exists x, In x l /\ f x = Ok y.
Proof.
  induction l as [|x r IH]; cbn; intros l' y H Hy; [inversion H; subst; contradiction|].
  destruct (f x) as [b|] eqn:E; cbn in H; [|discriminate].
  destruct (map_res f r) as [bs|] eqn:E2; cbn in H; [|discriminate]. inversion H; subst.
  destruct Hy as [-> |Hy]; [exists x; auto|]. destruct (IH _ _ eq_refl Hy) as [x' [H1 H2]]. exists x'. auto.
Qed.
Lemma map_res_all {A B} (f : A -> res B) : forall l l' x, map_res f l = Ok l' -> In x l -> exists y, In y l' /\ f x = Ok y.
Proof.
  induction l as [|x0 r IH]; cbn; intros l' x H Hx; [contradiction|].
  destruct (f x0) as [b|] eqn:E; cbn in H; [|discriminate].
  destruct (map_res f r) as [bs|] eqn:E2; cbn in H; [|discriminate]. inversion H; subst.
  destruct Hx as [-> |Hx]; [exists b; cbn; auto|]. destruct (IH _ _ eq_refl Hx) as [y [H1 H2]]. exists y. cbn. auto.
Qed.

(** the membership table annotate_fragments builds from the fine graph *)
Definition records (mol : graph) (n k : Z) : Prop :=
  exists v l, In (n, v) (get_node_attributes mol (S "fragid")) /\ as_list v = Ok l /\ In (VInt k) l.

(** frag_exact: coarse node k's graph has exactly the fine nodes whose fragid lists k *)
Theorem frag_exact meta mol fgs : annotate_fragments meta mol = Ok fgs ->
  forall k g, In (k, g) fgs -> forall n, In n (node_keys g) <-> records mol n k.
Proof.
  unfold annotate_fragments. destruct (fragid_map mol) as [fm|] eqn:Ef; cbn; [|discriminate].
  intros H k g Hin n. destruct (map_res_in _ _ _ _ H Hin) as [mn [_ Hm]].
  destruct (frag_subgraph mol (members_of fm (nk mn))) as [g'|] eqn:Eg; cbn in Hm; [|discriminate].
  inversion Hm; subst. rewrite (frag_subgraph_nodes _ _ _ Eg), members_spec. unfold records, fragid_map in *.
  split.
  - intros [l [Hl Hk]]. destruct (map_res_in _ _ _ _ Ef Hl) as [[n' v] [Hv Hx]]. cbn in Hx.
    destruct (as_list v) as [l'|] eqn:El; cbn in Hx; [|discriminate]. inversion Hx; subst. eexists. eexists. split; [exact Hv|]. split; [exact El|exact Hk].
  - intros [v [l [Hv [El Hk]]]]. destruct (map_res_all _ _ _ _ Ef Hv) as [[n' l'] [Hy Hx]]. cbn in Hx.
    rewrite El in Hx. cbn in Hx. inversion Hx; subst. eexists. split; [exact Hy|exact Hk].
Qed.
(** every coarse node gets a graph, in coarse node order *)
Theorem frag_keys meta mol fgs : annotate_fragments meta mol = Ok fgs -> map fst fgs = node_keys meta.
Proof.
  unfold annotate_fragments. destruct (fragid_map mol) as [fm|]; cbn; [|discriminate]. clear.
  revert fgs. induction meta as [|mn r IH]; cbn; intros fgs H; [inversion H; reflexivity|].
  destruct (frag_subgraph mol _); cbn in H; [|discriminate].
  destruct (map_res _ r) eqn:E; cbn in H; [|discriminate]. inversion H; subst. cbn. f_equal. now apply IH.
Qed.
(** frag_cover: a fine node whose fragid names a coarse key lies in that coarse node's graph *)
Theorem frag_cover meta mol fgs : annotate_fragments meta mol = Ok fgs ->
  forall n k, records mol n k -> In k (node_keys meta) -> exists g, In (k, g) fgs /\ In n (node_keys g).
Proof.
  intros H n k Hr Hk. rewrite <- (frag_keys _ _ _ H) in Hk. apply in_map_iff in Hk as [[k' g] [E Hin]]. cbn in E. subst k'.
  exists g. split; [exact Hin|]. now apply (frag_exact _ _ _ H k g Hin n).
Qed.

(** ---------------------------------------------------------------- merge_graphs: the copied attributes *)
Lemma fragid_ne_ez : S "fragid" <> S "ez_isomer_atoms".
Proof. intros H. apply str_eqb_eq in H. vm_compute in H. discriminate. Qed.

Lemma shift_ez_other off1 a a' key : shift_ez off1 a = Ok a' -> key <> S "ez_isomer_atoms" -> aget key a' = aget key a.
Proof.
  unfold shift_ez. destruct (aget (S "ez_isomer_atoms") a) as [v|]; [|intros H; now inversion H].
  destruct (as_list v) as [l|]; unfold bind; [|discriminate]. destruct l as [|x [|y r]]; try discriminate.
  destruct (as_int x); [|discriminate]. destruct (as_int y); [|discriminate].
  intros H N. inversion H; subst. now apply aget_aset_other.
Qed.
(** every instantiated fine node records exactly ONE membership: template fragid + running offset *)
Theorem merge_fragid_singleton off1 fo a a' : merge_node off1 fo a = Ok a' ->
  exists f, aget (S "fragid") a' = Some (VList [VInt (f + fo)]) /\
            match aget (S "fragid") a with Some v => as_int v = Ok f | None => f = 0 end.
Proof.
  unfold merge_node. destruct (aget (S "fragid") a) as [v|] eqn:E.
  - destruct (as_int v) as [f|] eqn:Ei; unfold bind; [|discriminate]. intros H. exists f. split; [|reflexivity].
    rewrite (shift_ez_other _ _ _ _ H fragid_ne_ez). apply aget_aset_same.
  - unfold bind. intros H. exists 0. split; [|reflexivity].
    rewrite (shift_ez_other _ _ _ _ H fragid_ne_ez). apply aget_aset_same.
Qed.
(** frag_copy (attribute part): the copy keeps every template attribute except fragid and the shifted
    ez_isomer_atoms *)
Theorem frag_copy_attrs off1 fo a a' key : merge_node off1 fo a = Ok a' ->
  key <> S "fragid" -> key <> S "ez_isomer_atoms" -> aget key a' = aget key a.
Proof.
  unfold merge_node. destruct (match aget (S "fragid") a with Some v => as_int v | None => Ok 0 end) as [f|]; unfold bind; [|discriminate].
  intros H N1 N2. rewrite (shift_ez_other _ _ _ _ H N2). now apply aget_aset_other.
Qed.

(** the explicit bijection template node -> new node: consecutive fresh keys in template node order *)
Lemma correspondence_fst off tgt : map fst (correspondence off tgt) = node_keys tgt.
Proof.
  unfold correspondence.
  assert (forall (A B : Type) (l : list A) (m : list B), length l = length m -> map fst (combine l m) = l) as H.
  { intros A B l. induction l; destruct m; cbn; try discriminate; auto. intros E. f_equal. apply IHl. lia. }
  apply H. unfold node_keys. now rewrite !map_length, seq_length.
Qed.
Lemma correspondence_snd off tgt :
  map snd (correspondence off tgt) = map (fun i => off + 1 + Z.of_nat i) (seq 0 (length tgt)).
Proof.
  unfold correspondence.
  assert (forall (A B : Type) (l : list A) (m : list B), length l = length m -> map snd (combine l m) = m) as H.
  { intros A B l. induction l; destruct m; cbn; try discriminate; auto. intros E. f_equal. apply IHl. lia. }
  apply H. unfold node_keys. now rewrite !map_length, seq_length.
Qed.
Theorem correspondence_fresh off tgt t x : In (t, x) (correspondence off tgt) -> off < x <= off + Z.of_nat (length tgt).
Proof.
  intros H. assert (In x (map snd (correspondence off tgt))) as Hx by (apply in_map_iff; exists (t, x); auto).
  rewrite correspondence_snd in Hx. apply in_map_iff in Hx as [i [E Hi]]. apply in_seq in Hi. lia.
Qed.
Theorem correspondence_injective off tgt : NoDup (map snd (correspondence off tgt)).
Proof.
  rewrite correspondence_snd. apply FinFun.Injective_map_NoDup; [|apply seq_NoDup].
  intros i j E. lia.
Qed.

(** ---------------------------------------------------------------- merge_graphs on the graph: frag_copy *)
Lemma gfind_gupdate_other k k' f g : (forall n, nk (f n) = nk n) -> k' <> k -> gfind k' (gupdate k f g) = gfind k' g.
Proof.
  intros Hf N. induction g as [|n r IH]; cbn; [reflexivity|].
  destruct (Z.eqb_spec (nk n) k) as [E|E]; cbn.
  - rewrite Hf. destruct (Z.eqb_spec (nk n) k'); [congruence|reflexivity].
  - destruct (Z.eqb (nk n) k'); [reflexivity|exact IH].
Qed.
Lemma attrs_gupdate_na k k' f g : (forall n, nk (f n) = nk n) -> (forall n, na (f n) = na n) ->
  node_attrs (gupdate k f g) k' = node_attrs g k'.
Proof.
  intros Hk Ha. unfold node_attrs. induction g as [|n r IH]; cbn; [reflexivity|].
  destruct (Z.eqb_spec (nk n) k) as [E|E]; cbn.
  - rewrite Hk. destruct (Z.eqb (nk n) k'); [now rewrite Ha|reflexivity].
  - destruct (Z.eqb (nk n) k'); [reflexivity|exact IH].
Qed.
Lemma gfind_app_fresh g n k : gfind k (g ++ [n]) = match gfind k g with Some x => Some x | None => if Z.eqb (nk n) k then Some n else None end.
Proof. induction g as [|m r IH]; cbn; [reflexivity|]. destruct (Z.eqb (nk m) k); [reflexivity|exact IH]. Qed.

Lemma attrs_add_node_same g k a : has_node g k = false -> node_attrs (add_node g k a) k = Ok a.
Proof.
  intros H. unfold add_node. rewrite H. unfold node_attrs. rewrite gfind_app_fresh.
  unfold has_node in H. destruct (gfind k g); [discriminate|]. cbn. now rewrite Z.eqb_refl.
Qed.
Lemma attrs_add_node_other g k a k' : k' <> k -> node_attrs (add_node g k a) k' = node_attrs g k'.
Proof.
  intros N. unfold add_node, node_attrs. destruct (has_node g k).
  - now rewrite gfind_gupdate_other.
  - rewrite gfind_app_fresh. destruct (gfind k' g); [reflexivity|]. cbn.
    destruct (Z.eqb_spec k k'); [congruence|reflexivity].
Qed.
Lemma attrs_add_edge g u v d k : has_node g u = true -> has_node g v = true ->
  node_attrs (add_edge g u v d) k = node_attrs g k.
Proof.
  intros Hu Hv. unfold add_edge. rewrite Hu, Hv. now rewrite !attrs_gupdate_na.
Qed.
Lemma has_node_add_edge g u v d k : has_node (add_edge g u v d) k = true <-> has_node g k = true \/ k = u \/ k = v.
Proof. rewrite !gfind_has. apply in_keys_add_edge. Qed.
Lemma has_node_add_node g k a k' : has_node (add_node g k a) k' = true <-> has_node g k' = true \/ k' = k.
Proof. rewrite !gfind_has. apply in_keys_add_node. Qed.
Lemma has_node_false_add g k a k' : has_node g k' = false -> k' <> k -> has_node (add_node g k a) k' = false.
Proof.
  intros H N. destruct (has_node (add_node g k a) k') eqn:E; [|reflexivity].
  apply has_node_add_node in E as [E| ->]; congruence.
Qed.

Section MergeNodes.
  Variables (off1 fo : Z) (f : Z -> Z).
  Let step := fun (acc : graph) (n : nrec) => a <- merge_node off1 fo (na n) ;; Ok (add_node acc (f (nk n)) a).

  Lemma merge_fold_other tgt : forall acc g k, fold_res step tgt acc = Ok g ->
    ~ In k (map (fun n => f (nk n)) tgt) -> node_attrs g k = node_attrs acc k.
  Proof.
    induction tgt as [|n r IH]; cbn; intros acc g k H N; [inversion H; reflexivity|].
    unfold step at 1 in H. destruct (merge_node off1 fo (na n)) as [a|]; cbn in H; [|discriminate].
    rewrite (IH _ _ _ H) by (intros X; apply N; right; exact X). apply attrs_add_node_other.
    intros X; apply N; left; now symmetry.
  Qed.

  (** every template node t has its copy at key f(t) carrying merge_node's attributes *)
  Lemma merge_fold_attrs tgt : forall acc g, fold_res step tgt acc = Ok g ->
    NoDup (map (fun n => f (nk n)) tgt) -> (forall n, In n tgt -> has_node acc (f (nk n)) = false) ->
    forall n, In n tgt -> exists a', merge_node off1 fo (na n) = Ok a' /\ node_attrs g (f (nk n)) = Ok a'.
  Proof.
    induction tgt as [|m r IH]; cbn; intros acc g H Hn Hf n Hin; [contradiction|].
    unfold step at 1 in H. destruct (merge_node off1 fo (na m)) as [a|] eqn:E; cbn in H; [|discriminate].
    inversion Hn as [|? ? Hm Hr]; subst. destruct Hin as [->|Hin].
    - exists a. split; [exact E|]. rewrite (merge_fold_other r _ _ _ H Hm).
      apply attrs_add_node_same. apply Hf. now left.
    - apply (IH _ _ H Hr); [|exact Hin]. intros n' Hn'. apply has_node_false_add; [apply Hf; now right|].
      intros Eq. apply Hm. rewrite <- Eq. apply in_map_iff. exists n'. auto.
  Qed.
End MergeNodes.

(** frag_copy: after merge_graphs every template node t of the fragment has a copy at the fresh key
    [correspondence t] whose attributes are the template's except fragid := [fragid + offset] (one
    membership) and the shifted ez_isomer_atoms - for a template without self-loop edges whose node
    keys are distinct. *)
Lemma merge_edges_attrs (corr : list (Z * Z)) (es : list (Z * Z * attrs)) : forall g k,
  (forall u v d, In (u, v, d) es -> has_node g (map_get corr u) = true /\ has_node g (map_get corr v) = true) ->
  node_attrs (fold_left (fun acc e => let '(u, v, d) := e in
                           if Z.eqb (map_get corr u) (map_get corr v) then acc
                           else add_edge acc (map_get corr u) (map_get corr v) d) es g) k = node_attrs g k.
Proof.
  induction es as [|[[u v] d] r IH]; cbn; intros g k H; [reflexivity|].
  destruct (H u v d (or_introl eq_refl)) as [Hu Hv].
  destruct (Z.eqb (map_get corr u) (map_get corr v)).
  - apply IH. intros u' v' d' Hin. apply (H u' v' d'). now right.
  - rewrite IH; [now apply attrs_add_edge|]. intros u' v' d' Hin. destruct (H u' v' d' (or_intror Hin)) as [A B].
    split; apply has_node_add_edge; auto.
Qed.

Lemma node_attrs_has g k a : node_attrs g k = Ok a -> has_node g k = true.
Proof. unfold node_attrs, has_node. destruct (gfind k g); [reflexivity|discriminate]. Qed.

(** PARTIAL: stated with the two facts about the fresh keys as hypotheses (the keys [correspondence]
    hands out are pairwise distinct and not in the source graph).  For a template with distinct node keys
    they follow from [correspondence_injective] / [correspondence_fresh] (offset = largest source key);
    that link through [map_get] is not mechanised.  [Hadj]: template edges join template nodes. *)
Theorem frag_copy_partial src tgt g corr : merge_graphs src tgt = Ok (g, corr) ->
  NoDup (map (fun n => map_get corr (nk n)) tgt) ->
  (forall n, In n tgt -> has_node src (map_get corr (nk n)) = false) ->
  (forall u v d, In (u, v, d) (edges_data tgt) -> In u (node_keys tgt) /\ In v (node_keys tgt)) ->
  exists off fo, merge_offsets src = Ok (off, fo) /\ corr = correspondence off tgt /\
    forall n, In n tgt -> exists a', merge_node (off + 1) fo (na n) = Ok a' /\ node_attrs g (map_get corr (nk n)) = Ok a'.
Proof.
  unfold merge_graphs. destruct (merge_offsets src) as [[off fo]|] eqn:Eo; [|discriminate]. unfold bind at 1.
  set (c := correspondence off tgt).
  destruct (fold_res _ tgt src) as [src1|] eqn:Ef; [|discriminate]. unfold bind. intros H Hnd Hfr Hadj.
  inversion H; subst. exists off, fo. split; [reflexivity|]. split; [reflexivity|]. intros n Hin.
  destruct (merge_fold_attrs (off + 1) fo (map_get c) tgt src src1 Ef Hnd Hfr n Hin) as [a' [E1 E2]].
  exists a'. split; [exact E1|]. rewrite merge_edges_attrs; [exact E2|].
  intros u v d He. destruct (Hadj u v d He) as [Hu Hv]. unfold node_keys in Hu, Hv.
  apply in_map_iff in Hu as [nu [Eu Hu]]. apply in_map_iff in Hv as [nv [Ev Hv]]. subst u v.
  destruct (merge_fold_attrs (off + 1) fo (map_get c) tgt src src1 Ef Hnd Hfr nu Hu) as [au [_ Au]].
  destruct (merge_fold_attrs (off + 1) fo (map_get c) tgt src src1 Ef Hnd Hfr nv Hv) as [av [_ Av]].
  split; eapply node_attrs_has; eassumption.
Qed.
