(** Witness: small concrete inputs (coarse level, no transcript needed) used by the _refuted theorems
    and the non-vacuity examples.  No proofs. *)
From Coq Require Import String.
From Coq Require Import List Ascii ZArith Bool Lia.
From CGV Require Import Base.PyBase Base.PyVal Base.NxGraph Resolve.Bonding Resolve.GraphOps Resolve.Pipeline Resolve.MapDefs.
Import ListNotations.
Open Scope Z_scope.
Open Scope string_scope.

Definition cnode (k : Z) (name : string) (adj : list (Z * Z)) : nrec :=
  {| nk := k; na := [(S "fragname", VStr (S name))]; nadj := map (fun wo => (fst wo, [(S "order", VInt (snd wo))])) adj |}.
Definition tnode (k : Z) (frag name : string) (bonding : list string) (adj : list (Z * Z)) : nrec :=
  {| nk := k;
     na := app [(S "fragname", VStr (S frag)); (S "atomname", VStr (S name)); (S "fragid", VInt 0)]
               (match bonding with [] => [] | _ => [(S "bonding", VList (map (fun d => VStr (S d)) bonding))] end);
     nadj := map (fun wo => (fst wo, [(S "order", VInt (snd wo))])) adj |}.

(** #A=[$][#X][#Y]   #B=[$][#P] *)
Definition fd_AB : fragdict :=
  [(S "A", [tnode 0 "A" "X" ["$1"] [(1, 1)]; tnode 1 "A" "Y" [] [(0, 1)]]);
   (S "B", [tnode 0 "B" "P" ["$1"] []])].
(** {[#A][#B]} *)
Definition base_AB : graph := [cnode 0 "A" [(1, 1)]; cnode 1 "B" [(0, 1)]].
(** {[#A][#B].[#V]}: virtual node last *)
Definition base_ABV : graph := [cnode 0 "A" [(1, 1)]; cnode 1 "B" [(0, 1); (2, 0)]; cnode 2 "V" [(1, 0)]].
(** {[#V].[#A][#B]}: virtual node first *)
Definition base_VAB : graph := [cnode 0 "V" [(1, 0)]; cnode 1 "A" [(0, 0); (2, 1)]; cnode 2 "B" [(1, 1)]].
(** {[#V][#A][#B]}: fragment-less node with an order-1 edge *)
Definition base_V1AB : graph := [cnode 0 "V" [(1, 1)]; cnode 1 "A" [(0, 1); (2, 1)]; cnode 2 "B" [(1, 1)]].

Definition run_coarse (base : graph) : res step_out := resolve_step true false fd_AB base no_transcript.
Definition c02_of (base : graph) : res nat :=
  so <- run_coarse base ;; Ok (holds_C02 false None fd_AB (so_meta so) (so_mol so) (so_fgs so)).
