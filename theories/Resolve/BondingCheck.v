(** BondingCheck: executable form of property C03's clauses, evaluated on what the
    IMPLEMENTATION returned (the failing-input search) and on the model's own output. *)
From Coq Require Import String.
From Coq Require Import List Ascii ZArith Bool.
From CGV Require Import Base.PyBase Base.PyVal Resolve.Bonding Resolve.BondingDefs.
Import ListNotations.
Open Scope Z_scope.

Definition bobs := ((Z * Z * Z * Z) * (pystr * pystr) * pyval)%type.
Definition mk_bond (o : bobs) : bond :=
  let '((a, b, u, v), (d1, d2), ord) := o in
  {| b_src := a; b_tgt := b; b_u := u; b_v := v; b_d1 := d1; b_d2 := d2; b_order := ord |}.

Definition edge_order (a b : Z) (edges : list (Z * Z * Z)) : nat := order_sum a b edges.

(** clause by clause; the number of the first failing clause is reported (0 = all hold) *)
Definition check_bond (legacy : bool) (arom : Z -> bool) (edges : list (Z * Z * Z)) (s0 : cstate)
           (all : list bond) (bd : bond) : nat :=
  if negb (existsb (fun e => Z.eqb (fst (fst e)) (b_src bd) && Z.eqb (snd (fst e)) (b_tgt bd)) edges) then 1%nat
  else if negb (Nat.leb (bonds_between (b_src bd) (b_tgt bd) all) (edge_order (b_src bd) (b_tgt bd) edges)) then 2%nat
  else if negb (compat_str legacy (b_d1 bd) (b_d2 bd)) then 3%nat
  else if negb (match bond_order arom (b_u bd) (b_v bd) (b_d1 bd) with Ok o => pyval_eqb o (b_order bd) | Err _ => false end) then 4%nat
  else if negb (Nat.leb (uses (b_src bd) (b_u bd) (b_d1 bd) all) (cnt (b_d1 bd) (tlookup (b_u bd) (slookup (b_src bd) s0)))) then 5%nat
  else if negb (Nat.leb (uses (b_tgt bd) (b_v bd) (b_d2 bd) all) (cnt (b_d2 bd) (tlookup (b_v bd) (slookup (b_tgt bd) s0)))) then 5%nat
  else 0%nat.
Fixpoint first_fail (l : list nat) : nat := match l with [] => 0%nat | 0%nat :: r => first_fail r | n :: _ => n end.
Definition holds_C03 (legacy : bool) (arom : Z -> bool) (edges : list (Z * Z * Z)) (s0 : cstate) (obs : list bobs) : nat :=
  let all := map mk_bond obs in first_fail (map (check_bond legacy arom edges s0 all) all).

(** exactness clause: an edge with fewer bonds than its order must have no compatible pair left
    in the remaining tables s1 *)
Definition pairs_left (legacy : bool) (sr tg : tbl) : bool :=
  existsb (fun us => existsb (fun vt => existsb (fun d => existsb (fun t => compat_str legacy d t) (snd vt)) (snd us)) tg) sr.
Definition exact_C03 (legacy : bool) (edges : list (Z * Z * Z)) (s1 : cstate) (obs : list bobs) : bool :=
  let all := map mk_bond obs in
  forallb (fun e => let '(a, b, o) := e in
             Nat.leb (Z.to_nat o) (bonds_between a b all) || negb (pairs_left legacy (slookup a s1) (slookup b s1))) edges.

Definition arom_of (l : list Z) : Z -> bool := fun k => existsb (Z.eqb k) l.

(** model output in observable form *)
Definition run_model (legacy : bool) (arom : list Z) (edges : list (Z * Z * Z)) (s0 : cstate)
  : res (cstate * list bobs) :=
  '(s1, bonds) <- edges_from_bonding legacy (arom_of arom) edges s0 [] ;; Ok (s1, map bond_obs bonds).

Fixpoint strs_eqb (a b : list pystr) : bool :=
  match a, b with [], [] => true | x :: a', y :: b' => str_eqb x y && strs_eqb a' b' | _, _ => false end.
Fixpoint tbl_eqb (a b : tbl) : bool :=
  match a, b with [], [] => true | (u, x) :: a', (v, y) :: b' => Z.eqb u v && strs_eqb x y && tbl_eqb a' b' | _, _ => false end.
Fixpoint cstate_eqb (a b : cstate) : bool :=
  match a, b with [], [] => true | (u, x) :: a', (v, y) :: b' => Z.eqb u v && tbl_eqb x y && cstate_eqb a' b' | _, _ => false end.
Definition bobs_eqb (x y : bobs) : bool :=
  let '((a, b, u, v), (d1, d2), o) := x in let '((a', b', u', v'), (e1, e2), o') := y in
  Z.eqb a a' && Z.eqb b b' && Z.eqb u u' && Z.eqb v v' && str_eqb d1 e1 && str_eqb d2 e2 && pyval_eqb o o'.
Fixpoint bobss_eqb (a b : list bobs) : bool :=
  match a, b with [], [] => true | x :: a', y :: b' => bobs_eqb x y && bobss_eqb a' b' | _, _ => false end.

(** one correspondence case: inputs, and what the implementation produced
    (None = the implementation raised an unexpected exception) *)
Record case := { c_legacy : bool; c_arom : list Z; c_edges : list (Z * Z * Z); c_s0 : cstate;
                 c_impl : option (cstate * list bobs) }.
Definition corr_ok (c : case) : bool :=
  match run_model (c_legacy c) (c_arom c) (c_edges c) (c_s0 c), c_impl c with
  | Ok (s1, b), Some (s1', b') => cstate_eqb s1 s1' && bobss_eqb b b'
  | Err _, None => true
  | _, _ => false
  end.
Definition prop_fail (c : case) : nat :=
  match c_impl c with
  | None => 9%nat
  | Some (s1, b) =>
      match holds_C03 (c_legacy c) (arom_of (c_arom c)) (c_edges c) (c_s0 c) b with
      | 0%nat => if exact_C03 (c_legacy c) (c_edges c) s1 b then 0%nat else 6%nat
      | n => n
      end
  end.
Fixpoint idx_where {A} (f : A -> bool) (l : list A) (i : nat) : list nat :=
  match l with [] => [] | x :: r => (if f x then [i] else []) ++ idx_where f r (Datatypes.S i) end.
