(** SquashedCopy: steps that DO squash atoms.  For an arbitrary dictionary of well-formed templates and a coarse graph whose base
    edges join different coarse nodes, the graph handed to squash_atoms is a well-formed graph (WfMerged), so hydro's quotient
    theorem (Hydro/QuotientProofs.squash_quotient) applies to EVERY resolution step without a hypothesis on intermediate graphs:
    the squashed graph is the quotient of the bonded graph by the `!` classes.  With the template copy of the bonded graph
    (BondedCopy) this gives: the two atoms of a template bond end up, after squashing, either merged into one atom or adjacent. *)
From Coq Require Import String.
From Coq Require Import List Ascii ZArith Bool Lia Permutation.
From CGV Require Import Base.PyBase Base.PyVal Base.NxGraph Resolve.Bonding Resolve.BondingDefs Resolve.GraphOps
     Resolve.MapProofs Resolve.CopyProofs Hydro.GraphLemmas Hydro.SquashDefs Resolve.Pipeline Resolve.PipelineFull.
From CGV Require Hydro.Squash Hydro.Hydrogens Stereo.EzImpl Hydro.QuotientDefs Hydro.QuotientProofs.
From CGV Require Import Compose.GraphFacts Resolve.EdgeCopyGen Resolve.BondedCopy Resolve.WfMerged Resolve.CoarseCopy.
Import ListNotations.
Open Scope Z_scope.

Theorem step_squash_quotient legacy aa fd prev car fo : tmpl_dict fd -> resolve_step_full legacy aa fd prev car = Ok fo ->
  (forall es, base_edges (fo_meta fo) = Ok es -> wf_edges es) ->
  wf_graph (fo_m2 fo) /\ wf_graph (fo_m3 fo) /\
  node_keys (fo_m3 fo) = filter (fun k => Z.eqb (QuotientDefs.rho (fo_m2 fo) k) k) (node_keys (fo_m2 fo)) /\
  (forall y x, has_edge (fo_m3 fo) y x = QuotientDefs.qedge (QuotientDefs.rho (fo_m2 fo)) (QuotientDefs.dir_edges (fo_m2 fo)) y x) /\
  (forall k, In k (node_keys (fo_m2 fo)) -> In (QuotientDefs.rho (fo_m2 fo) k) (node_keys (fo_m3 fo))).
Proof.
  intros Hd H. unfold resolve_step_full in H. cbv zeta in H.
  destruct (resolve_disconnected fd _) as [[m1 fg1]|] eqn:E1; cbn [bind] in H; [|discriminate H].
  destruct (bonding_step legacy aa _ m1 fg1) as [[m2 fg2]|] eqn:E2; cbn [bind] in H; [|discriminate H].
  destruct (Squash.squash_atoms m2) as [m3|] eqn:E3; cbn [bind] in H; [|discriminate H].
  destruct (if aa then Hydrogens.rebuild_h_atoms_default m3 car else Ok m3) as [m4|]; cbn [bind] in H; [|discriminate H].
  destruct (sort_nodes_by_attr m4) as [m5|]; cbn [bind] in H; [|discriminate H].
  destruct (if aa then EzImpl.annotate_ez_isomers_cgsmiles m5 else Ok m5) as [m6|]; cbn [bind] in H; [|discriminate H].
  destruct (annotate_fragments _ m6) as [f6|]; cbn [bind] in H; [|discriminate H].
  destruct (if aa then set_atom_names m6 _ f6 else Ok (m6, f6)) as [[m7 f7]|]; cbn [bind] in H; [|discriminate H].
  inversion H; subst fo. cbn [fo_meta fo_m2 fo_m3]. intros Hwe.
  destruct (bonded_gok _ _ _ _ _ _ _ _ Hd E1 E2 Hwe) as [W2 _].
  destruct (QuotientProofs.squash_quotient m2 m3 W2 E3) as (W3 & K & Q & R). auto.
Qed.

(** the two atoms of a template bond, after squashing: merged into one atom, or adjacent *)
Theorem step_squashed_bonds legacy aa fd prev car fo : tmpl_dict fd -> resolve_step_full legacy aa fd prev car = Ok fo ->
  (forall es, base_edges (fo_meta fo) = Ok es -> wf_edges es) ->
  forall pre mn post fv name frag, fo_meta fo = pre ++ mn :: post ->
  aget (S "fragname") (na mn) = Some fv -> lookup_fragment fd fv = Some (name, frag) ->
  exists cf : Z -> Z,
    (forall n, In n frag -> node_get (fo_m2 fo) (cf (nk n)) (S "fragid") = Some (VList [VInt (nk mn)])) /\
    (forall a, In a (node_keys frag) -> In (QuotientDefs.rho (fo_m2 fo) (cf a)) (node_keys (fo_m3 fo))) /\
    (forall a b, In a (node_keys frag) -> In b (node_keys frag) -> has_edge frag a b = true ->
       QuotientDefs.rho (fo_m2 fo) (cf a) = QuotientDefs.rho (fo_m2 fo) (cf b) \/
       has_edge (fo_m3 fo) (QuotientDefs.rho (fo_m2 fo) (cf a)) (QuotientDefs.rho (fo_m2 fo) (cf b)) = true).
Proof.
  intros Hd H Hwe pre mn post fv name frag Em Hf Hl.
  destruct (step_squash_quotient _ _ _ _ _ _ Hd H Hwe) as (W2 & W3 & K & Q & R).
  destruct (step_bonded_edges_copy _ _ _ _ _ _ Hd H Hwe pre mn post fv name frag Em Hf Hl) as (cf & Inj & Hn & He).
  assert (forall t, In t (node_keys frag) -> In (cf t) (node_keys (fo_m2 fo))) as Hin.
  { intros t Ht. unfold node_keys in Ht. apply in_map_iff in Ht as [n [<- Hn']]. eapply node_get_some_in. exact (proj1 (Hn n Hn')). }
  exists cf. split; [intros n Hn'; exact (proj1 (Hn n Hn'))|]. split; [intros a Ha; apply R; now apply Hin|].
  intros a b Ha Hb Hab. set (r := QuotientDefs.rho (fo_m2 fo)).
  destruct (Z.eqb_spec (r (cf a)) (r (cf b))) as [E|N]; [now left|]. right. rewrite Q. unfold QuotientDefs.qedge. fold r.
  apply andb_true_iff. split; [apply negb_true_iff, Z.eqb_neq; exact N|].
  assert (has_edge (fo_m2 fo) (cf a) (cf b) = true) as H2.
  { rewrite has_edge_attrs, (He a b Ha Hb). unfold tmpl_edge. rewrite has_edge_attrs in Hab. destruct (edge_attrs frag a b); [reflexivity|discriminate Hab]. }
  rewrite (QuotientProofs.has_edge_dir _ _ _ W2) in H2. unfold QuotientDefs.qedge in H2. apply andb_true_iff in H2 as [_ H2].
  apply existsb_exists in H2 as [e [Hin' He']]. apply andb_true_iff in He' as [A B]. apply Z.eqb_eq in A, B.
  apply existsb_exists. exists e. split; [exact Hin'|]. rewrite A, B, !Z.eqb_refl. reflexivity.
Qed.
