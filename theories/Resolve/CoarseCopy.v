(** CoarseCopy: "same atoms, same internal bonds and bond orders" for the graph a COARSE resolution step RETURNS, for an arbitrary
    dictionary of well-formed templates and an arbitrary coarse graph whose base edges join different coarse nodes, when no atoms
    are squashed (fo_m3 = fo_m2): every coarse node with a fragment has its copy in the returned (sorted) fine graph - an injective
    map from template atoms to returned atoms that record exactly [coarse key] and [(fragname, atom)], with an edge exactly where
    the template has one, carrying the template's edge attributes.  Chain: EdgeCopyGen (instantiation) - BondedCopy (bonding) -
    WfMerged (the bonded graph is a well-formed graph) - SortGraphProofs / Compose.RelabelEdges (sort_nodes_by_attr). *)
From Coq Require Import String.
From Coq Require Import List Ascii ZArith Bool Lia Permutation.
From CGV Require Import Base.PyBase Base.PyVal Base.NxGraph Resolve.Bonding Resolve.BondingDefs Resolve.BondingProofs Resolve.GraphOps
     Resolve.MapProofs Resolve.CopyProofs Hydro.GraphLemmas Hydro.SquashDefs Resolve.Pipeline Resolve.PipelineFull.
From CGV Require Resolve.SortGraphProofs Resolve.NameStep Compose.RelabelEdges Hydro.Squash Hydro.Hydrogens Stereo.EzImpl Gen.HydroGen.
From CGV Require Import Compose.GraphFacts Compose.GraphAdj Resolve.EdgeCopyGen Resolve.BondedCopy Resolve.WfMerged.
Import ListNotations.
Open Scope Z_scope.

(** ---------------------------------------------------------------- bonds join atoms of different coarse nodes *)
Lemma bonds_fragids fd meta m1 fg1 legacy s1 bonds : tmpl_dict fd -> resolve_disconnected fd meta = Ok (m1, fg1) ->
  (forall es, base_edges meta = Ok es -> wf_edges es) -> bonds_of legacy meta m1 fg1 = Ok (s1, bonds) ->
  forall b, In b bonds -> b_src b <> b_tgt b /\ node_get m1 (b_u b) (S "fragid") = Some (VList [VInt (b_src b)]) /\
                          node_get m1 (b_v b) (S "fragid") = Some (VList [VInt (b_tgt b)]).
Proof.
  intros Hd H1 Hwe Hb0 bd Hbd. unfold bonds_of in Hb0. destruct (base_edges meta) as [es|] eqn:Ees; cbn [bind] in Hb0; [|discriminate Hb0].
  destruct (tables_of fg1) as [s0|] eqn:Et; cbn [bind] in Hb0; [|discriminate Hb0].
  pose proof (disconnected_fg_inv fd meta m1 fg1 Hd H1) as Hi.
  assert (wf_state s0) as Ws by (apply (tables_wf fg1); [intros k g Hg; exact (proj1 (Hi k g Hg))|exact Et]).
  destruct (bond_in_tables legacy _ es s0 s1 bonds (Hwe es eq_refl) Ws Hb0 bd Hbd) as (Nst & Hu & Hv).
  assert (forall c x, In x (map fst (slookup c s0)) -> node_get m1 x (S "fragid") = Some (VList [VInt c])) as Hfid.
  { intros c x Hx. destruct (tables_lookup fg1 s0 c Et) as [E0|[g [Hg Ht]]]; [rewrite E0 in Hx; destruct Hx|].
    rewrite (table_keys _ _ Ht) in Hx. apply gna_keys_in in Hx. apply NameStep.fg_get_in in Hg. exact (proj2 (proj2 (Hi c g Hg) x Hx)). }
  split; [exact Nst|]. split; [exact (Hfid _ _ Hu)|exact (Hfid _ _ Hv)].
Qed.
Lemma node_get_some_in g n key v : node_get g n key = Some v -> In n (node_keys g).
Proof. unfold node_get. destruct (gfind n g) eqn:E; [|discriminate]. intros _. apply gfind_has. unfold has_node. now rewrite E. Qed.

(** ---------------------------------------------------------------- the bonded graph: well formed, fragid everywhere *)
Lemma bonded_gok fd meta m1 fg1 legacy aa m2 fg2 : tmpl_dict fd -> resolve_disconnected fd meta = Ok (m1, fg1) ->
  bonding_step legacy aa meta m1 fg1 = Ok (m2, fg2) -> (forall es, base_edges meta = Ok es -> wf_edges es) -> gok m2.
Proof.
  intros Hd H1 H2 Hwe. apply (gok_bonding legacy aa meta m1 fg1 m2 fg2 (gok_disconnected _ _ _ _ H1) H2).
  intros s1 bonds Hb b Hin. destruct (bonds_fragids fd meta m1 fg1 legacy s1 bonds Hd H1 Hwe Hb b Hin) as (N & Fu & Fv).
  intros E. rewrite E in Fu. rewrite Fu in Fv. inversion Fv. contradiction.
Qed.
Lemma apply_bond_keys aa mol b mol' : In (b_u b) (node_keys mol) -> In (b_v b) (node_keys mol) -> apply_bond aa mol b = Ok mol' -> node_keys mol' = node_keys mol.
Proof.
  intros Hu Hv. unfold apply_bond. intros H.
  rewrite <- (keys_add_edge_in mol (b_u b) (b_v b) (bond_attrs b)) by (now apply gfind_has).
  destruct aa; [|inversion H; reflexivity]. revert H. generalize (add_edge mol (b_u b) (b_v b) (bond_attrs b)). generalize [b_u b; b_v b].
  induction l as [|x r IH]; intros g H; cbn [GraphOps.fold_res] in H; [inversion H; reflexivity|].
  match type of H with bind ?s _ = _ => destruct s as [g1|] eqn:E; cbn [bind] in H; [|discriminate H] end.
  rewrite (IH _ H). clear -E.
  destruct (node_get g x (S "element")) as [el|]; cbn [of_option bind] in E; [|discriminate E].
  destruct (pyval_eqb el (VStr (S "H"))); [inversion E; reflexivity|].
  destruct (node_get g x (S "hcount")) as [hc|]; cbn [of_option bind] in E; [|discriminate E].
  destruct (dec_hcount _ hc); cbn [bind] in E; [|discriminate E]. inversion E. apply keys_set.
Qed.
Lemma fold_bonds_keys aa : forall bonds g g', (forall b, In b bonds -> In (b_u b) (node_keys g) /\ In (b_v b) (node_keys g)) ->
  GraphOps.fold_res (apply_bond aa) bonds g = Ok g' -> node_keys g' = node_keys g.
Proof.
  induction bonds as [|b r IH]; intros g g' Hin E; cbn [GraphOps.fold_res] in E; [inversion E; reflexivity|].
  destruct (apply_bond aa g b) as [g1|] eqn:Eb; cbn [bind] in E; [|discriminate E].
  destruct (Hin b (or_introl eq_refl)) as [Hu Hv]. pose proof (apply_bond_keys aa g b g1 Hu Hv Eb) as K.
  rewrite (IH g1 g'); [exact K| |exact E]. intros x Hx. rewrite K. apply Hin. now right.
Qed.
Lemma bonded_keys fd meta m1 fg1 legacy aa m2 fg2 : tmpl_dict fd -> resolve_disconnected fd meta = Ok (m1, fg1) ->
  bonding_step legacy aa meta m1 fg1 = Ok (m2, fg2) -> (forall es, base_edges meta = Ok es -> wf_edges es) -> node_keys m2 = node_keys m1.
Proof.
  intros Hd H1 H2 Hwe. unfold bonding_step in H2. destruct (bonds_of legacy meta m1 fg1) as [[s1 bonds]|] eqn:Hb; cbn [bind] in H2; [|discriminate H2].
  destruct (GraphOps.fold_res (apply_bond aa) bonds m1) as [m|] eqn:E; cbn [bind] in H2; [|discriminate H2]. inversion H2; subst. clear H2.
  pose proof (bonds_fragids fd meta m1 fg1 legacy s1 bonds Hd H1 Hwe Hb) as Hf.
  apply (fold_bonds_keys aa bonds m1 m2); [|exact E].
  intros b Hbn. destruct (Hf b Hbn) as (_ & Fu & Fv). split; eapply node_get_some_in; eassumption.
Qed.
Lemma fragid_all g : NoDup (node_keys g) -> (forall n, In n (node_keys g) -> exists v, node_get g n (S "fragid") = Some v) ->
  map fst (get_node_attributes g (S "fragid")) = node_keys g.
Proof.
  intros Hn H. assert (forall r, In r g -> exists v, aget (S "fragid") (na r) = Some v) as Hr.
  { intros r Hin. destruct (H (nk r)) as [v Hv]; [unfold node_keys; now apply in_map|]. unfold node_get in Hv. rewrite (gfind_in g Hn r Hin) in Hv. eauto. }
  clear H Hn. unfold get_node_attributes, node_keys. induction g as [|r l IH]; [reflexivity|]. cbn [flat_map map].
  destruct (Hr r (or_introl eq_refl)) as [v ->]. cbn [app map fst]. f_equal. apply IH. intros x Hx. apply Hr. now right.
Qed.
Lemma bonded_fragid_all fd meta m1 fg1 legacy aa m2 fg2 : tmpl_dict fd -> resolve_disconnected fd meta = Ok (m1, fg1) ->
  bonding_step legacy aa meta m1 fg1 = Ok (m2, fg2) -> (forall es, base_edges meta = Ok es -> wf_edges es) ->
  map fst (get_node_attributes m2 (S "fragid")) = node_keys m2.
Proof.
  intros Hd H1 H2 Hwe. pose proof (bonded_gok _ _ _ _ _ _ _ _ Hd H1 H2 Hwe) as [W _].
  apply fragid_all; [exact (wf_nodup _ W)|]. intros n Hn. rewrite (bonded_keys _ _ _ _ _ _ _ _ Hd H1 H2 Hwe) in Hn.
  assert (S "fragid" <> S "hcount") as N1 by (intros X; apply str_eqb_eq in X; vm_compute in X; discriminate).
  rewrite (bonding_node_get _ _ _ _ _ _ _ n _ N1 H2).
  destruct (resolve_disconnected_inv fd meta m1 fg1 (tmpl_dict_wf _ Hd) H1) as [Nd Ha].
  apply gfind_has in Hn. unfold has_node in Hn. unfold node_get. destruct (gfind n m1) as [r|] eqn:G; [|discriminate Hn].
  destruct (Ha n (na r)) as [c [_ Hc]]; [unfold node_attrs; now rewrite G|]. eauto.
Qed.

(** ---------------------------------------------------------------- the returned graph of a coarse step *)
Definition tmpl_get (frag : graph) (a b : Z) (key : pystr) : option pyval :=
  match tmpl_edge frag a b with Ok d => aget key d | Err _ => None end.

Theorem step_coarse_copy legacy fd prev car fo : tmpl_dict fd -> resolve_step_full legacy false fd prev car = Ok fo ->
  fo_m3 fo = fo_m2 fo -> (forall es, base_edges (fo_meta fo) = Ok es -> wf_edges es) ->
  forall pre mn post fv name frag, fo_meta fo = pre ++ mn :: post ->
  aget (S "fragname") (na mn) = Some fv -> lookup_fragment fd fv = Some (name, frag) ->
  exists cf : Z -> Z,
    (forall a b, In a (node_keys frag) -> In b (node_keys frag) -> cf a = cf b -> a = b) /\
    (forall n, In n frag -> node_get (fo_mol fo) (cf (nk n)) (S "fragid") = Some (VList [VInt (nk mn)]) /\
                            node_get (fo_mol fo) (cf (nk n)) (S "mapping") = Some (mapping_val name (nk n)) /\
                            forall key, key <> S "fragid" -> key <> S "mapping" -> key <> S "ez_isomer_atoms" -> key <> S "hcount" ->
                                        node_get (fo_mol fo) (cf (nk n)) key = aget key (na n)) /\
    (forall a b, In a (node_keys frag) -> In b (node_keys frag) ->
       has_edge (fo_mol fo) (cf a) (cf b) = has_edge frag a b /\
       forall key, edge_get (fo_mol fo) (cf a) (cf b) key = tmpl_get frag a b key).
Proof.
  intros Hd H. unfold resolve_step_full in H. cbv zeta in H.
  destruct (resolve_disconnected fd _) as [[m1 fg1]|] eqn:E1; cbn [bind] in H; [|discriminate H].
  destruct (bonding_step legacy false _ m1 fg1) as [[m2 fg2]|] eqn:E2; cbn [bind] in H; [|discriminate H].
  destruct (Squash.squash_atoms m2) as [m3|]; cbn [bind] in H; [|discriminate H].
  destruct (sort_nodes_by_attr m3) as [m5|] eqn:E5; cbn [bind] in H; [|discriminate H].
  destruct (annotate_fragments _ m5) as [f6|]; cbn [bind] in H; [|discriminate H].
  inversion H; subst fo. clear H. cbn [fo_meta fo_m2 fo_m3 fo_mol]. intros -> Hwe pre mn post fv name frag Em Hf Hl.
  set (meta := set_nodes_from prev (S "fragname") (get_node_attributes prev (S "atomname"))) in *.
  destruct (bonded_gok _ _ _ _ _ _ _ _ Hd E1 E2 Hwe) as [W Sy].
  pose proof (adj_nodup_bonding _ _ _ _ _ _ _ (adj_nodup_disconnected _ _ _ _ E1) E2) as Adj.
  pose proof (edge_nodup_bonding _ _ _ _ _ _ _ (edge_nodup_disconnected _ _ _ _ E1) E2) as Edn.
  pose proof (bonded_fragid_all _ _ _ _ _ _ _ _ Hd E1 E2 Hwe) as Fid.
  destruct (SortGraphProofs.sort_graph m2 m5 W Fid E5) as (m & Em0 & Inj & _ & _ & Hhe & Hng).
  destruct (bonded_edges_copy fd meta m1 fg1 legacy false m2 fg2 Hd E1 E2 Hwe pre mn post fv name frag Em Hf Hl) as (cf0 & Inj0 & Hn0 & He0).
  assert (forall t, In t (node_keys frag) -> In (cf0 t) (node_keys m2)) as Hin.
  { intros t Ht. unfold node_keys in Ht. apply in_map_iff in Ht as [n [<- Hn]]. eapply node_get_some_in. exact (proj1 (Hn0 n Hn)). }
  exists (fun t => map_get m (cf0 t)). split; [|split].
  - intros a b Ha Hb E. apply Inj0; [exact Ha|exact Hb|]. apply Inj; [now apply Hin|now apply Hin|exact E].
  - intros n Hn. destruct (Hn0 n Hn) as [A [B Ck]]. assert (In (nk n) (node_keys frag)) as Hk by (unfold node_keys; now apply in_map).
    assert (S "fragid" <> S "ez_isomer_atoms") as N1 by (intros X; apply str_eqb_eq in X; vm_compute in X; discriminate).
    assert (S "mapping" <> S "ez_isomer_atoms") as N2 by (intros X; apply str_eqb_eq in X; vm_compute in X; discriminate).
    rewrite (Hng _ _ (Hin _ Hk) N1), (Hng _ _ (Hin _ Hk) N2). split; [exact A|]. split; [exact B|].
    intros key K1 K2 K3 K4. rewrite (Hng _ _ (Hin _ Hk) K3). now apply Ck.
  - intros a b Ha Hb. split.
    + rewrite Hhe by auto. rewrite !has_edge_attrs, (He0 a b Ha Hb). unfold tmpl_edge. destruct (edge_attrs frag a b); reflexivity.
    + intros key. rewrite (RelabelEdges.sort_edge_get m2 m5 key W Adj Edn Fid E5 (fun x y => f_equal (fun r => match r with Ok d => aget key d | Err _ => None end) (Sy x y)) m Em0 (cf0 a) (cf0 b) (Hin a Ha) (Hin b Hb)).
      unfold edge_get, tmpl_get. now rewrite (He0 a b Ha Hb).
Qed.

(** when is nothing squashed: no edge of the bonded graph carries a bonding pair that starts with '!' *)
Lemma squash_identity g : (forall e, In e (Squash.edge_attr_items g HydroGen.squash_edge_attr) -> Squash.starts_squash (snd e) = Ok false) ->
  Squash.squash_atoms g = Ok g.
Proof.
  intros H. unfold Squash.squash_atoms.
  assert (forall l st, (forall e, In e l -> Squash.starts_squash (snd e) = Ok false) -> Hydrogens.fold_res Squash.squash_step l st = Ok st) as Hl.
  { induction l as [|[[a b] bond] r IH]; intros st Hs; [reflexivity|]. cbn [Hydrogens.fold_res]. unfold Squash.squash_step at 1. destruct st as [g0 sq].
    pose proof (Hs (a, b, bond) (or_introl eq_refl)) as E. cbn [snd] in E. rewrite E. cbn [bind negb]. apply IH. intros e He. apply Hs. now right. }
  rewrite Hl by exact H. reflexivity.
Qed.
