(** GraphOps: Impl models (executable, NO proofs) over NxGraph of
      graph_utils.merge_graphs / sort_nodes_by_attr / annotate_fragments / set_atom_names_atomistic
      MoleculeResolver.resolve_disconnected_molecule / edges_from_bonding_descrpt (graph level;
      the bond-creation fold itself is Resolve.Bonding.edges_from_bonding, proved for C03).
    Fragment graphs (what read_fragments returns) are INPUT: a [fragdict].  The per-coarse-node
    'graph' attribute is kept beside the coarse graph as [list (Z * graph)] (coarse key, fragment
    graph) in coarse node order, because a graph is not a [pyval]. *)
From Coq Require Import String.
From Coq Require Import List Ascii ZArith Bool Lia.
From CGV Require Import Base.PyBase Base.PyVal Base.NxGraph Resolve.Bonding.
Import ListNotations.
Open Scope Z_scope.

(** ------------------------------------------------------------------ helpers *)
Fixpoint map_res {A B} (f : A -> res B) (l : list A) : res (list B) :=
  match l with
  | [] => Ok []
  | x :: r => y <- f x ;; ys <- map_res f r ;; Ok (y :: ys)
  end.
Fixpoint fold_res {A B} (f : B -> A -> res B) (l : list A) (b : B) : res B :=
  match l with
  | [] => Ok b
  | x :: r => b' <- f b x ;; fold_res f r b'
  end.

Definition fragdict := list (pystr * graph).
(** dict lookup: names are unique in a Python dict; first entry wins in the list form *)
Fixpoint fd_get (name : pystr) (d : fragdict) : option graph :=
  match d with [] => None | (k, g) :: r => if str_eqb name k then Some g else fd_get name r end.

Definition fgraphs := list (Z * graph).
Fixpoint fg_get (k : Z) (l : fgraphs) : option graph :=
  match l with [] => None | (k', g) :: r => if Z.eqb k k' then Some g else fg_get k r end.
Fixpoint fg_set (k : Z) (g : graph) (l : fgraphs) : fgraphs :=
  match l with
  | [] => [(k, g)]
  | (k', g') :: r => if Z.eqb k k' then (k', g) :: r else (k', g') :: fg_set k g r
  end.

Definition ints_of (v : pyval) : res (list Z) := l <- as_list v ;; map_res as_int l.
Definition strs_of (v : pyval) : res (list pystr) := l <- as_list v ;; map_res as_str l.
(** max(list): ValueError on the empty list *)
Definition py_max (l : list Z) : res Z :=
  match l with [] => Err EValue | x :: r => Ok (zmax_list r x) end.
(** mapping[key] on a {int: int} dict: KeyError when absent *)
Fixpoint zmap_get (m : list (Z * Z)) (k : Z) : option Z :=
  match m with [] => None | (a, b) :: r => if Z.eqb a k then Some b else zmap_get r k end.

(** ------------------------------------------------------------------ merge_graphs *)
(** (offset, fragment_offset): offset = max key (or -1), fragment_offset = max(fragid of the node
    with the LARGEST key) + 1 (or 0) *)
Definition merge_offsets (src : graph) : res (Z * Z) :=
  match src with
  | [] => Ok (-1, 0)
  | n0 :: r =>
      let mx := zmax_list (node_keys r) (nk n0) in
      a <- node_attrs src mx ;;
      fids <- match aget (S "fragid") a with Some v => ints_of v | None => Ok [0] end ;;
      m <- py_max fids ;;
      Ok (mx, m + 1)
  end.

Definition shift_ez (off1 : Z) (a : attrs) : res attrs :=
  match aget (S "ez_isomer_atoms") a with
  | None => Ok a
  | Some v =>
      l <- as_list v ;;
      match l with
      | x :: y :: _ =>
          x' <- as_int x ;; y' <- as_int y ;;
          Ok (aset (S "ez_isomer_atoms") (VTup [VInt (x' + off1); VInt (y' + off1)]) a)
      | _ => Err EIndex
      end
  end.

(** new_atom = deepcopy(template attrs); fragid := [fragid + fragment_offset]; ez shift *)
Definition merge_node (off1 fo : Z) (a : attrs) : res attrs :=
  f <- match aget (S "fragid") a with Some v => as_int v | None => Ok 0 end ;;
  shift_ez off1 (aset (S "fragid") (VList [VInt (f + fo)]) a).

Definition correspondence (off : Z) (tgt : graph) : list (Z * Z) :=
  combine (node_keys tgt) (map (fun i => off + 1 + Z.of_nat i) (seq 0 (length tgt))).

Definition merge_graphs (src tgt : graph) : res (graph * list (Z * Z)) :=
  '(off, fo) <- merge_offsets src ;;
  let corr := correspondence off tgt in
  src1 <- fold_res (fun acc n => a <- merge_node (off + 1) fo (na n) ;; Ok (add_node acc (map_get corr (nk n)) a))
                   tgt src ;;
  let src2 := fold_left (fun acc e =>
                let '(u, v, d) := e in
                if Z.eqb (map_get corr u) (map_get corr v) then acc
                else add_edge acc (map_get corr u) (map_get corr v) d) (edges_data tgt) src1 in
  Ok (src2, corr).

(** ------------------------------------------------------------------ resolve_disconnected_molecule *)
Definition order_is_zero (v : pyval) : bool :=
  match v with
  | VInt z => Z.eqb z 0
  | VBool b => negb b
  | VFlt r => negb (truthy (VFlt r))
  | _ => false
  end.
(** the virtual-node test: all incident orders 0, else SyntaxError *)
Definition virtual_ok (mn : nrec) : res unit :=
  orders <- map_res (fun wa => of_option (aget (S "order") (snd wa)) EKey) (nadj mn) ;;
  if forallb order_is_zero orders then Ok tt else Err (ESyntax (S "nofrag")).

Definition mapping_val (fragname : pystr) (t : Z) : pyval := VList [VTup [VStr fragname; VInt t]].

(** graph_frag: copies of the freshly merged nodes with fragid := [coarse key] and the mapping,
    and the template's edges (deep-copied attributes) *)
Definition frag_graph_of (mol tgt : graph) (corr : list (Z * Z)) (mn : Z) (fragname : pystr) : res graph :=
  gf <- fold_res (fun acc n =>
          let new := map_get corr (nk n) in
          a <- node_attrs mol new ;;
          Ok (add_node acc new (aset (S "mapping") (mapping_val fragname (nk n))
                                     (aset (S "fragid") (VList [VInt mn]) a)))) tgt gempty ;;
  Ok (fold_left (fun acc e => let '(u, v, d) := e in add_edge acc (map_get corr u) (map_get corr v) d)
                (edges_data tgt) gf).

Definition lookup_fragment (fd : fragdict) (fv : pyval) : option (pystr * graph) :=
  match fv with
  | VStr s => match fd_get s fd with Some f => Some (s, f) | None => None end
  | _ => None
  end.

Definition disc_step (fd : fragdict) (st : graph * fgraphs) (mn : nrec) : res (graph * fgraphs) :=
  let '(mol, fgs) := st in
  fv <- of_option (aget (S "fragname") (na mn)) EKey ;;
  match lookup_fragment fd fv with
  | None => _ <- virtual_ok mn ;; Ok st
  | Some (name, frag) =>
      '(mol1, corr) <- merge_graphs mol frag ;;
      gf <- frag_graph_of mol1 frag corr (nk mn) name ;;
      (* per template node: molecule.nodes[new]['fragid'] = [meta_node] (the COARSE KEY, /repo fa307dd),
         then the deep copy for graph_frag, then molecule.nodes[new]['mapping'] = [(fragname, node)] *)
      let mol2 := fold_left (fun acc n => set_node_attr (set_node_attr acc (map_get corr (nk n)) (S "fragid") (VList [VInt (nk mn)]))
                                                        (map_get corr (nk n)) (S "mapping")
                                                        (mapping_val name (nk n))) frag mol1 in
      Ok (mol2, fg_set (nk mn) gf fgs)
  end.
Definition resolve_disconnected (fd : fragdict) (meta : graph) : res (graph * fgraphs) :=
  fold_res (disc_step fd) meta (gempty, []).

(** ------------------------------------------------------------------ edges_from_bonding_descrpt *)
Definition table_of (g : graph) : res tbl :=
  map_res (fun kv => ds <- strs_of (snd kv) ;; Ok (fst kv, ds)) (get_node_attributes g (S "bonding")).
Definition tables_of (fgs : fgraphs) : res cstate :=
  map_res (fun kg => t <- table_of (snd kg) ;; Ok (fst kg, t)) fgs.
Definition write_table (t : tbl) (g : graph) : graph :=
  fold_left (fun acc ud => set_node_attr acc (fst ud) (S "bonding") (VList (map VStr (snd ud)))) t g.
Definition write_tables (s : cstate) (fgs : fgraphs) : fgraphs :=
  map (fun kg => match cget (fst kg) s with Ok t => (fst kg, write_table t (snd kg)) | Err _ => kg end) fgs.

(** range(0, order) needs an int *)
Definition as_int_strict (v : pyval) : res Z :=
  match v with VInt z => Ok z | VBool b => Ok (if b then 1 else 0) | _ => Err EType end.
Definition base_edges (meta : graph) : res (list (Z * Z * Z)) :=
  map_res (fun e => o <- of_option (aget (S "order") (snd e)) EKey ;; z <- as_int_strict o ;;
                    Ok (fst (fst e), snd (fst e), z)) (edges_data meta).

(** hcount arithmetic: values in half units, with the int/float distinction Python keeps *)
Definition parse_half (s : pystr) : option Z :=
  match py_split s "."%char with
  | [ip; fp] =>
      if py_isdigit ip then
        if str_eqb fp (S "0") then Some (2 * digits_val 0 ip)
        else if str_eqb fp (S "5") then Some (2 * digits_val 0 ip + 1)
        else None
      else None
  | _ => None
  end.
Definition half_of (v : pyval) : res (Z * bool) :=
  match v with
  | VInt z => Ok (2 * z, false)
  | VBool b => Ok (if b then 2 else 0, false)
  | VFlt r => match parse_half r with Some h => Ok (h, true) | None => Err EValue end
  | _ => Err EType
  end.
Definition half_to_val (h : Z) (isf : bool) : pyval :=
  if isf then VFlt (str_of_Z (h / 2) ++ (if Z.even h then S ".0" else S ".5")) else VInt (h / 2).
(** hcount = max(0, hcount - 1.5) | max(0, hcount - 1) *)
Definition dec_hcount (arom : bool) (v : pyval) : res pyval :=
  '(h, isf) <- half_of v ;;
  let '(h', isf') := if arom then (h - 3, true) else (h - 2, isf) in
  Ok (if 0 <? h' then half_to_val h' isf' else VInt 0).

Definition bond_attrs (b : bond) : attrs :=
  [(S "bonding", VTup [VStr (b_d1 b); VStr (b_d2 b)]); (S "order", b_order b)].
Definition apply_bond (all_atom : bool) (mol : graph) (b : bond) : res graph :=
  let mol1 := add_edge mol (b_u b) (b_v b) (bond_attrs b) in
  if all_atom then
    fold_res (fun m n =>
      el <- of_option (node_get m n (S "element")) EKey ;;
      if pyval_eqb el (VStr (S "H")) then Ok m else
      hc <- of_option (node_get m n (S "hcount")) EKey ;;
      (* .get('aromatic', 'False'): the default is a non-empty string, i.e. truthy *)
      let ar := match node_get m n (S "aromatic") with Some v => truthy v | None => true end in
      hc' <- dec_hcount ar hc ;;
      Ok (set_node_attr m n (S "hcount") hc')) [b_u b; b_v b] mol1
  else Ok mol1.

Definition arom_fn (mol : graph) : Z -> bool :=
  fun k => match node_get mol k (S "aromatic") with Some v => truthy v | None => false end.

(** the bonds the proved fold creates, for a coarse graph and the fragment graphs *)
Definition bonds_of (legacy : bool) (meta mol : graph) (fgs : fgraphs) : res (cstate * list bond) :=
  edges <- base_edges meta ;;
  s0 <- tables_of fgs ;;
  edges_from_bonding legacy (arom_fn mol) edges s0 [].

Definition bonding_step (legacy all_atom : bool) (meta mol : graph) (fgs : fgraphs) : res (graph * fgraphs) :=
  '(s1, bonds) <- bonds_of legacy meta mol fgs ;;
  mol' <- fold_res (apply_bond all_atom) bonds mol ;;
  Ok (mol', write_tables s1 fgs).

(** ------------------------------------------------------------------ sort_nodes_by_attr *)
Definition sort_key := (list Z * Z)%type.
Fixpoint lex_cmp (a b : list Z) : comparison :=
  match a, b with
  | [], [] => Eq
  | [], _ :: _ => Lt
  | _ :: _, [] => Gt
  | x :: a', y :: b' => match Z.compare x y with Eq => lex_cmp a' b' | c => c end
  end.
(** Python compares the tuples (fragid list, old key): lists lexicographically, then the key *)
Definition key_cmp (a b : sort_key) : comparison :=
  match lex_cmp (fst a) (fst b) with Eq => Z.compare (snd a) (snd b) | c => c end.
Definition key_ltb (a b : sort_key) : bool := match key_cmp a b with Lt => true | _ => false end.
Fixpoint insert_key (k : sort_key) (l : list sort_key) : list sort_key :=
  match l with
  | [] => [k]
  | x :: r => if key_ltb k x then k :: x :: r else x :: insert_key k r
  end.
(** sorted(...): insertion sort; the order is strict and total on distinct node keys, so every
    correct sorting algorithm returns this list (proved in SortProofs.sorted_unique) *)
Definition isort (l : list sort_key) : list sort_key := fold_right insert_key [] l.

Definition sort_items (g : graph) : res (list sort_key) :=
  map_res (fun kv => l <- ints_of (snd kv) ;; Ok (l, fst kv)) (get_node_attributes g (S "fragid")).
Definition mapping_of (sorted : list sort_key) : list (Z * Z) :=
  combine (map snd sorted) (map Z.of_nat (seq 0 (length sorted))).
Definition sort_mapping (g : graph) : res (list (Z * Z)) :=
  ks <- sort_items g ;; Ok (mapping_of (isort ks)).

Definition strict_get (m : list (Z * Z)) (v : pyval) : res pyval :=
  match v with
  | VInt z => match zmap_get m z with Some z' => Ok (VInt z') | None => Err EKey end
  | VList _ | VDict _ => Err EType
  | _ => Err EKey
  end.
(** relative_attr values: an iterable that is not a str is mapped element-wise into a LIST *)
Definition remap_val (m : list (Z * Z)) (v : pyval) : res pyval :=
  match v with
  | VList l | VTup l => l' <- map_res (strict_get m) l ;; Ok (VList l')
  | VDict _ => Err EType
  | _ => strict_get m v
  end.
Definition sort_nodes_by_attr (g : graph) : res graph :=
  m <- sort_mapping g ;;
  let h := relabel_copy g m in
  nd <- map_res (fun kv => v' <- remap_val m (snd kv) ;; Ok (fst kv, v'))
                (get_node_attributes h (S "ez_isomer_atoms")) ;;
  Ok (set_nodes_from h (S "ez_isomer_atoms") nd).

(** ------------------------------------------------------------------ annotate_fragments *)
Definition zcount (k : Z) (l : list pyval) : nat :=
  length (filter (fun v => match v with VInt z => Z.eqb z k | _ => false end) l).
(** fragid_to_node[k]: fine nodes in node order, once per occurrence of k in their fragid *)
Definition members_of (fm : list (Z * list pyval)) (k : Z) : list Z :=
  flat_map (fun nl => repeat (fst nl) (zcount k (snd nl))) fm.
Fixpoint pairs {A} (l : list A) : list (A * A) :=
  match l with [] => [] | x :: r => map (pair x) r ++ pairs r end.
Definition frag_subgraph (mol : graph) (ns : list Z) : res graph :=
  g1 <- fold_res (fun acc n => a <- node_attrs mol n ;; Ok (add_node acc n a)) ns gempty ;;
  Ok (fold_left (fun acc ab => if has_edge mol (fst ab) (snd ab) then add_edge acc (fst ab) (snd ab) [] else acc)
                (pairs ns) g1).
Definition fragid_map (mol : graph) : res (list (Z * list pyval)) :=
  map_res (fun kv => l <- as_list (snd kv) ;; Ok (fst kv, l)) (get_node_attributes mol (S "fragid")).
Definition annotate_fragments (meta mol : graph) : res fgraphs :=
  fm <- fragid_map mol ;;
  map_res (fun mn => g <- frag_subgraph mol (members_of fm (nk mn)) ;; Ok (nk mn, g)) meta.

(** ------------------------------------------------------------------ set_atom_names_atomistic *)
Definition name_one (mn : Z) (st : graph * fgraphs) (idx_node : Z * Z) : res (graph * fgraphs) :=
  let '(mol, fgs) := st in
  let '(idx, node) := idx_node in
  a <- node_attrs mol node ;;
  el <- of_option (aget (S "element") a) EKey ;;
  e <- as_str el ;;
  let name := VStr (e ++ str_of_Z idx) in
  let mol' := set_node_attr mol node (S "atomname") name in
  match fg_get mn fgs with
  | Some g => Ok (mol', fg_set mn (set_node_attr g node (S "atomname") name) fgs)
  | None => Ok (mol', fgs)
  end.
Definition name_group (st : graph * fgraphs) (grp : Z * list Z) : res (graph * fgraphs) :=
  fold_res (name_one (fst grp)) (enumerate_from 0 (snd grp)) st.
(** fraglist from the coarse 'graph' attributes (non-empty graphs only), coarse node order *)
Definition fraglist_of (meta : graph) (fgs : fgraphs) : list (Z * list Z) :=
  flat_map (fun mn => match fg_get (nk mn) fgs with
                      | Some g => match g with [] => [] | _ => [(nk mn, node_keys g)] end
                      | None => [] end) meta.
(** /repo 8dbd471: every atom is named ONCE.  [named] = the atoms named so far (Python set; only membership is
    used), [used] = the names the already-named atoms of this fragment carry; the running index steps over them. *)
Definition atom_label (e : pystr) (idx : Z) : pystr := e ++ str_of_Z idx.
Definition zin_l (k : Z) (l : list Z) : bool := existsb (Z.eqb k) l.
Definition name_taken (used : list pyval) (nm : pystr) : bool := existsb (pyval_eqb (VStr nm)) used.
(** `while atomname in used: idx += 1`; at most [length used] names can be taken, so the fuel suffices *)
Fixpoint bump_idx (fuel : nat) (used : list pyval) (e : pystr) (idx : Z) : res Z :=
  match fuel with
  | O => Err EOutOfFuel
  | Datatypes.S f => if name_taken used (atom_label e idx) then bump_idx f used e (idx + 1) else Ok idx
  end.
Definition used_names (mol : graph) (named nodes : list Z) : res (list pyval) :=
  map_res (fun n => a <- node_attrs mol n ;; of_option (aget (S "atomname") a) EKey)
          (filter (fun n => zin_l n named) nodes).
(** state of the naming loop: fine graph, coarse 'graph' attributes, [named] atoms, [shared_names] (/repo e15e5bd: the
    names given to atoms that belong to several fragments, kept apart from each other over the whole molecule) *)
Definition nstate := (graph * fgraphs * list Z * list pyval)%type.
(** len(molecule.nodes[node].get('fragid', [])) > 1 *)
Definition fragid_shared (a : attrs) : res bool :=
  match aget (S "fragid") a with
  | None => Ok false
  | Some (VList l) | Some (VTup l) => Ok (Nat.ltb 1 (length l))
  | Some (VStr s) => Ok (Nat.ltb 1 (length s))
  | Some (VDict d) => Ok (Nat.ltb 1 (length d))
  | Some _ => Err EType
  end.
Definition name_node (mn : Z) (used : list pyval) (st : nstate * Z) (node : Z) : res (nstate * Z) :=
  let '(mol, fgs, named, shn, idx) := st in
  '(mol1, named1, shn1, idx1) <-
     (if zin_l node named then Ok (mol, named, shn, idx) else
        a <- node_attrs mol node ;;
        sh <- fragid_shared a ;;
        el <- of_option (aget (S "element") a) EKey ;;
        e <- as_str el ;;
        let taken := if sh then used ++ shn else used in
        i <- bump_idx (Datatypes.S (length taken)) taken e idx ;;
        let nm := VStr (atom_label e i) in
        Ok (set_node_attr mol node (S "atomname") nm, node :: named, (if sh then nm :: shn else shn), i)) ;;
  a1 <- node_attrs mol1 node ;;
  nm <- of_option (aget (S "atomname") a1) EKey ;;
  let fgs1 := match fg_get mn fgs with
              | Some g => fg_set mn (set_node_attr g node (S "atomname") nm) fgs
              | None => fgs
              end in
  Ok (mol1, fgs1, named1, shn1, idx1 + 1).
Definition name_group2 (st : nstate) (grp : Z * list Z) : res nstate :=
  let '(mol, fgs, named, shn) := st in
  used <- used_names mol named (snd grp) ;;
  r <- fold_res (name_node (fst grp) used) (snd grp) (st, 0) ;;
  Ok (fst r).
Definition set_atom_names (mol meta : graph) (fgs : fgraphs) : res (graph * fgraphs) :=
  r <- fold_res name_group2 (fraglist_of meta fgs) (mol, fgs, [], []) ;;
  Ok (fst (fst (fst r)), snd (fst (fst r))).

(** set_atom_names_atomistic(molecule) without a coarse graph: groups by the single fragid, in
    first-seen order; only the molecule is renamed *)
Fixpoint group_add (k n : Z) (l : list (Z * list Z)) : list (Z * list Z) :=
  match l with
  | [] => [(k, [n])]
  | (k', ns) :: r => if Z.eqb k k' then (k', ns ++ [n]) :: r else (k', ns) :: group_add k n r
  end.
Definition set_atom_names_nometa (mol : graph) : res graph :=
  grp <- fold_res (fun acc kv =>
            l <- as_list (snd kv) ;;
            match l with
            | [VInt k] => Ok (group_add k (fst kv) acc)
            | [_] => Err EType
            | _ => Err EAssert
            end) (get_node_attributes mol (S "fragid")) [] ;;
  r <- fold_res (fun st g => fold_res (name_one (-1)) (enumerate_from 0 (snd g)) st) grp (mol, []) ;;
  Ok (fst r).

(** ------------------------------------------------------------------ comparison with the implementation *)
Fixpoint adj_eqb (a b : list (Z * attrs)) : bool :=
  match a, b with
  | [], [] => true
  | (u, x) :: a', (v, y) :: b' => Z.eqb u v && attrs_eqb x y && adj_eqb a' b'
  | _, _ => false
  end.
(** full structural equality: node order, attribute dicts (key order ignored), adjacency order *)
Fixpoint graph_eqb (a b : graph) : bool :=
  match a, b with
  | [], [] => true
  | x :: a', y :: b' => Z.eqb (nk x) (nk y) && attrs_eqb (na x) (na y) && adj_eqb (nadj x) (nadj y) && graph_eqb a' b'
  | _, _ => false
  end.
Fixpoint fgraphs_eqb (a b : fgraphs) : bool :=
  match a, b with
  | [], [] => true
  | (k, g) :: a', (k', g') :: b' => Z.eqb k k' && graph_eqb g g' && fgraphs_eqb a' b'
  | _, _ => false
  end.
