(** Bonding: Impl model of resolve.match_bonding_descriptors and
    MoleculeResolver.edges_from_bonding_descrpt (resolve.py), over the GENERATED [compatible].
    Abstraction: a coarse node's fragment graph is seen as its table of atoms carrying a
    'bonding' list, in node order (nx.get_node_attributes order); the fine graph is seen as
    the list of bonds created so far plus the per-atom 'aromatic' flag.  No proofs here. *)
From Coq Require Import String.
From Coq Require Import List Ascii ZArith Bool.
From CGV Require Import Base.PyBase Base.PyVal Gen.ResolveGen.
Import ListNotations.
Open Scope Z_scope.

Definition tbl := list (Z * list pystr).

(** innermost two loops: first compatible (bond_source, bond_target) pair *)
Fixpoint find_target (legacy : bool) (d : pystr) (ts : list pystr) : res (option pystr) :=
  match ts with
  | [] => Ok None
  | t :: r => c <- compatible d t legacy ;; if c then Ok (Some t) else find_target legacy d r
  end.
Fixpoint first_pair (legacy : bool) (ds ts : list pystr) : res (option (pystr * pystr)) :=
  match ds with
  | [] => Ok None
  | d :: r => o <- find_target legacy d ts ;;
              match o with Some t => Ok (Some (d, t)) | None => first_pair legacy r ts end
  end.
Fixpoint scan_targets (legacy : bool) (ds : list pystr) (tg : tbl) : res (option (Z * pystr * pystr)) :=
  match tg with
  | [] => Ok None
  | (v, ts) :: r => o <- first_pair legacy ds ts ;;
                    match o with Some (d, t) => Ok (Some (v, d, t)) | None => scan_targets legacy ds r end
  end.
(** match_bonding_descriptors: None = LookupError *)
Fixpoint match_bonding (legacy : bool) (sr tg : tbl) : res (option (Z * Z * pystr * pystr)) :=
  match sr with
  | [] => Ok None
  | (u, ds) :: r => o <- scan_targets legacy ds tg ;;
                    match o with Some (v, d, t) => Ok (Some (u, v, d, t)) | None => match_bonding legacy r tg end
  end.

Fixpoint remove1 (d : pystr) (l : list pystr) : list pystr :=
  match l with [] => [] | x :: r => if str_eqb d x then r else x :: remove1 d r end.
Fixpoint tbl_remove (u : Z) (d : pystr) (t : tbl) : tbl :=
  match t with
  | [] => []
  | (v, ds) :: r => if Z.eqb u v then (v, remove1 d ds) :: r else (v, ds) :: tbl_remove u d r
  end.

(** coarse state: coarse node key -> table of its fragment copy *)
Definition cstate := list (Z * tbl).
Fixpoint cget (a : Z) (s : cstate) : res tbl :=
  match s with [] => Err EKey | (k, t) :: r => if Z.eqb a k then Ok t else cget a r end.
Fixpoint cset (a : Z) (t : tbl) (s : cstate) : cstate :=
  match s with [] => [] | (k, t') :: r => if Z.eqb a k then (k, t) :: r else (k, t') :: cset a t r end.

Record bond := { b_src : Z; b_tgt : Z; b_u : Z; b_v : Z; b_d1 : pystr; b_d2 : pystr; b_order : pyval }.

(** order = int(bonding[0][-1]); 1.5 when both atoms are aromatic *)
Definition bond_order (arom : Z -> bool) (u v : Z) (d1 : pystr) : res pyval :=
  c <- py_last d1 ;;
  o <- py_int [c] ;;
  if arom u && arom v then Ok (VFlt (S "1.5")) else Ok (VInt o).

(** the `for _ in range(order)` loop of one base edge (a, b) *)
Fixpoint edge_loop (legacy : bool) (arom : Z -> bool) (n : nat) (a b : Z) (s : cstate) (acc : list bond)
  : res (cstate * list bond) :=
  match n with
  | O => Ok (s, acc)
  | Datatypes.S k =>
      sr <- cget a s ;; tg <- cget b s ;;
      m <- match_bonding legacy sr tg ;;
      match m with
      | None => edge_loop legacy arom k a b s acc
      | Some (u, v, d1, d2) =>
          (* prev_graph…remove(bonding[0]) then node_graph…remove(bonding[1]); for a == b both
             act on the same table *)
          let s1 := cset a (tbl_remove u d1 sr) s in
          tg1 <- cget b s1 ;;
          let s2 := cset b (tbl_remove v d2 tg1) s1 in
          o <- bond_order arom u v d1 ;;
          edge_loop legacy arom k a b s2
                    (acc ++ [{| b_src := a; b_tgt := b; b_u := u; b_v := v; b_d1 := d1; b_d2 := d2; b_order := o |}])
      end
  end.

(** edges_from_bonding_descrpt: base edges in networkx order, each with its integer order *)
Fixpoint edges_from_bonding (legacy : bool) (arom : Z -> bool) (edges : list (Z * Z * Z)) (s : cstate)
         (acc : list bond) : res (cstate * list bond) :=
  match edges with
  | [] => Ok (s, acc)
  | (a, b, o) :: r =>
      '(s', acc') <- edge_loop legacy arom (Z.to_nat o) a b s acc ;;
      edges_from_bonding legacy arom r s' acc'
  end.

(** observable of a run, compared with the implementation *)
Definition bond_obs (b : bond) : (Z * Z * Z * Z) * (pystr * pystr) * pyval :=
  ((b_src b, b_tgt b, b_u b, b_v b), (b_d1 b, b_d2 b), b_order b).
