(** Drivers: Impl model of the three ways of driving MoleculeResolver (resolve.py:
    [resolve], [resolve_iter], [resolve_all]) as a state machine over an ABSTRACT resolution
    step.  What one step does to graphs is the business of C02/C03/C09…; here the step is a
    Section variable, so every statement holds for whatever the step is.  The model keeps what
    the driver code itself decides: which fragment dictionary is used (resolution_counter), the
    all-atom flag (counter = resolutions-1 and last_all_atom), the counter increment, that the
    coarse graph handed to a step is the molecule left by the previous one, the IndexError when
    stepping past the last level, and that resolve_iter always asks for `resolutions` steps. *)
From Coq Require Import String.
From Coq Require Import List Ascii ZArith Bool Lia.
From CGV Require Import Base.PyBase.
Import ListNotations.

Section Drivers.
  Variables (level mol : Type).
  (** one resolution: fragment dictionary, all-atom flag, previous molecule (becomes the coarse
      graph) ↦ (annotated coarse graph, fine molecule) or an exception *)
  Variable step : level -> bool -> mol -> res (mol * mol).

  Record rstate := { molecule : mol; counter : nat; dicts : list level; last_all_atom : bool }.
  Definition fresh (m : mol) (ds : list level) (laa : bool) : rstate :=
    {| molecule := m; counter := 0; dicts := ds; last_all_atom := laa |}.

  (** what a call uses: (dictionary index, all-atom flag) — the observable compared with the code *)
  Definition uses (st : rstate) : nat * bool :=
    (counter st, Nat.eqb (Datatypes.S (counter st)) (length (dicts st)) && last_all_atom st).

  Definition resolve (st : rstate) : res (rstate * (mol * mol)) :=
    match nth_error (dicts st) (counter st) with
    | None => Err EIndex
    | Some d =>
        '(meta, fine) <- step d (snd (uses st)) (molecule st) ;;
        Ok ({| molecule := fine; counter := Datatypes.S (counter st); dicts := dicts st;
               last_all_atom := last_all_atom st |}, (meta, fine))
    end.

  (** n calls of resolve, collecting what each returned *)
  Fixpoint resolve_n (n : nat) (st : rstate) : res (rstate * list (mol * mol)) :=
    match n with
    | O => Ok (st, [])
    | Datatypes.S k =>
        '(st1, out) <- resolve st ;;
        '(st2, outs) <- resolve_n k st1 ;;
        Ok (st2, out :: outs)
    end.

  (** resolve_iter: `for _ in range(self.resolutions): yield self.resolve()` consumed completely *)
  Definition resolve_iter (st : rstate) : res (rstate * list (mol * mol)) := resolve_n (length (dicts st)) st.

  (** resolve_all: `*_, (meta, graph) = self.resolve_iter()`; ValueError when there is no level *)
  Definition resolve_all (st : rstate) : res (rstate * (mol * mol)) :=
    '(st', outs) <- resolve_iter st ;;
    match rev outs with
    | last :: _ => Ok (st', last)
    | [] => Err EValue
    end.

  (** the (dictionary index, flag) sequence of n successive calls, for the correspondence *)
  Fixpoint uses_n (n : nat) (c : nat) (len : nat) (laa : bool) : list (option (nat * bool)) :=
    match n with
    | O => []
    | Datatypes.S k =>
        if Nat.ltb c len then Some (c, Nat.eqb (Datatypes.S c) len && laa) :: uses_n k (Datatypes.S c) len laa
        else [None]        (* IndexError: the history ends here *)
    end.
End Drivers.

Arguments molecule {level mol}. Arguments counter {level mol}. Arguments dicts {level mol}.
Arguments last_all_atom {level mol}.
