(** C12Check: oracle and correspondence for C12. *)
From Coq Require Import String.
From Coq Require Import List Ascii ZArith Bool Lia.
From CGV Require Import Base.PyBase Base.PyVal Base.NxGraph Resolve.Bonding Resolve.GraphOps Resolve.Pipeline
     Resolve.StepCheck Resolve.PipelineFull Resolve.FullCheck Resolve.MapDefs.
Import ListNotations.
Open Scope Z_scope.

Fixpoint strs_eqb (a b : list pystr) : bool :=
  match a, b with [], [] => true | x :: a', y :: b' => str_eqb x y && strs_eqb a' b' | _, _ => false end.

Inductive case :=
| CStep (c : stepcase)                       (* one recorded resolve() call *)
| CDet (kind : nat) (ok : bool)              (* a determinism experiment run by the harness: identical dumps? *)
| CBlocks (s : pystr) (impl : list pystr)    (* re.findall(r"\{[^\}]+\}", s) of the constructors *)
| CSort (g : graph) (impl : option graph).   (* a direct call of graph_utils.sort_nodes_by_attr (None: it raised) *)

Definition corr_ok (c : case) : bool :=
  match c with
  | CStep s => step_corr s && full_corr s
  | CDet _ _ => true
  | CBlocks s impl => strs_eqb (find_blocks s) impl
  | CSort g impl => match sort_nodes_by_attr g, impl with
                    | Ok h, Some h' => graph_eqb h h'
                    | Err _, None => true
                    | _, _ => false
                    end
  end.

Definition step_fail (c : stepcase) : nat :=
  match sc_out c with
  | None => 0%nat
  | Some (fgs, mol) =>
      if negb (keys_are_range mol) then 1%nat
      else if negb (sorted_by_fragid mol) then 2%nat
      else if negb (blocks_contiguous (sc_meta c) mol && blocks_by_coarse mol fgs) then 3%nat
      else if sc_aa c && negb (names_element_index mol fgs) then 4%nat
      else if sc_aa c && negb (names_unique mol fgs) then 5%nat
      else 0%nat
  end.
Definition prop_fail (c : case) : nat :=
  match c with
  | CStep s => step_fail s
  | CDet kind ok => if ok then 0%nat else (10 + kind)%nat
  | CBlocks _ _ => 0%nat
  | CSort _ _ => 0%nat
  end.
Definition in_class (c : case) : bool :=
  match c with
  | CStep s => false     (* shared_atom_names (8dbd471) and shared_from_two_owners (e15e5bd) are repaired: nothing is excused *)
  | _ => false
  end.
