(** AllAtomCopy: "same atoms, same internal bonds" for the graph an ALL-ATOM resolution step RETURNS, for an arbitrary dictionary of
    well-formed templates, an arbitrary coarse graph whose base edges join different coarse nodes and ANY aromaticity transcript
    Hydro's contract accepts, when no atoms are squashed: every coarse node with a fragment has its copy in the returned fine graph -
    an injective map from template atoms to returned atoms recording exactly [coarse key] and [(fragname, atom)], with an edge
    exactly where the template has one.  Chain: BondedCopy / WfMerged (bonded graph) - Dialect.ReturnedCar.contract_car_ok
    (transcript) - Hydro.RebuildProofs.rebuild_end_to_end and Compose.RebuildWf.rebuild_wf (hydrogen completion) -
    SortGraphProofs.sort_graph - EzProofs (annotation) - set_atom_names.  Edge ORDERS are outside the statement: the
    transcript may change them (aromaticity). *)
From Coq Require Import String.
From Coq Require Import List Ascii ZArith Bool Lia Permutation.
From CGV Require Import Base.PyBase Base.PyVal Base.NxGraph Gen.HydroGen Resolve.Bonding Resolve.BondingDefs Resolve.GraphOps
     Resolve.MapProofs Resolve.CopyProofs Hydro.GraphLemmas Hydro.SquashDefs Resolve.Pipeline Resolve.PipelineFull Resolve.FragidProofs.
From CGV Require Resolve.SortGraphProofs Hydro.Squash Hydro.Hydrogens Hydro.RebuildProofs Hydro.SquashProofs Stereo.EzImpl Stereo.EzProofs
     Compose.RebuildWf Compose.CutSorted Dialect.ReturnedCar Dialect.ReturnedAnnot.
From CGV Require Import Compose.GraphFacts Compose.GraphAdj Resolve.EdgeCopyGen Resolve.BondedCopy Resolve.WfMerged Resolve.CoarseCopy.
Import ListNotations.
Open Scope Z_scope.

(** ---------------------------------------------------------------- attribute lists are dicts (distinct keys) *)
Notation dicts := ReturnedCar.dicts.
Lemma dicts_gupdate k f g : (forall n, NoDup (map fst (na n)) -> NoDup (map fst (na (f n)))) -> dicts g -> dicts (gupdate k f g).
Proof. intros Hf. unfold ReturnedCar.dicts. induction 1 as [|n r Hn Hr IH]; cbn; [constructor|]. destruct (Z.eqb (nk n) k); constructor; auto. Qed.
Lemma dicts_snoc g n : dicts g -> NoDup (map fst (na n)) -> dicts (g ++ [n]).
Proof. intros A B. apply Forall_app. split; [exact A|repeat constructor; exact B]. Qed.
Lemma dicts_add_node g k a : NoDup (map fst a) -> dicts g -> dicts (add_node g k a).
Proof.
  intros Ha Hg. unfold add_node. destruct (has_node g k).
  - apply dicts_gupdate; [|exact Hg]. intros n Hn. cbn. now apply aupdate_nodup.
  - now apply dicts_snoc.
Qed.
Lemma dicts_set g k x v : dicts g -> dicts (set_node_attr g k x v).
Proof. apply dicts_gupdate. intros n Hn. cbn. now apply aset_nodup. Qed.
Lemma dicts_add_edge g u v d : dicts g -> dicts (add_edge g u v d).
Proof.
  intros Hg. unfold add_edge.
  apply dicts_gupdate; [intros n Hn; exact Hn|]. apply dicts_gupdate; [intros n Hn; exact Hn|].
  destruct (has_node g u); destruct (has_node _ v); repeat (apply dicts_snoc; [|constructor]); exact Hg.
Qed.
Lemma dicts_merge fd name tgt src g corr : wf_attrs fd -> fd_get name fd = Some tgt -> dicts src -> merge_graphs src tgt = Ok (g, corr) -> dicts g.
Proof.
  intros Hwa Hg H. unfold merge_graphs. destruct (merge_offsets src) as [[off fo]|]; cbn [bind]; [|discriminate].
  destruct (GraphOps.fold_res _ tgt src) as [src1|] eqn:E1; cbn [bind]; [|discriminate]. intros E. inversion E; subst. clear E.
  apply fold_left_inv.
  - intros acc0 [[u v] d] Hacc. destruct (Z.eqb _ _); [exact Hacc|now apply dicts_add_edge].
  - assert (forall l acc g1, (forall n, In n l -> In n tgt) -> dicts acc ->
      GraphOps.fold_res (fun acc n => a <- merge_node (off + 1) fo (na n) ;; Ok (add_node acc (map_get (correspondence off tgt) (nk n)) a)) l acc = Ok g1 -> dicts g1) as Hl.
    { induction l as [|n r IH]; intros acc g1 Hin Ha Hf; cbn [GraphOps.fold_res] in Hf; [inversion Hf; now subst|].
      destruct (merge_node (off + 1) fo (na n)) as [a|] eqn:Em; cbn [bind] in Hf; [|discriminate Hf].
      apply (IH _ _ (fun x Hx => Hin x (or_intror Hx))) in Hf; [exact Hf|]. apply dicts_add_node; [|exact Ha].
      eapply merge_node_nodup; [exact Em|]. exact (Hwa _ _ Hg n (Hin n (or_introl eq_refl))). }
    exact (Hl tgt src src1 (fun n Hn => Hn) H E1).
Qed.
Lemma dicts_disc_step fd mol fgs mn mol' fgs' : wf_attrs fd -> dicts mol -> disc_step fd (mol, fgs) mn = Ok (mol', fgs') -> dicts mol'.
Proof.
  intros Hwa H. unfold disc_step. destruct (aget (S "fragname") (na mn)) as [fv|]; cbn [of_option bind]; [|discriminate].
  destruct (lookup_fragment fd fv) as [[name frag]|] eqn:Hl.
  - destruct (lookup_fragment_get _ _ _ _ Hl) as [_ Hg].
    destruct (merge_graphs mol frag) as [[mol1 corr]|] eqn:Em; cbn [bind]; [|discriminate].
    destruct (frag_graph_of mol1 frag corr (nk mn) name); cbn [bind]; [|discriminate]. intros E. inversion E; subst.
    apply fold_left_inv; [intros acc0 x Hacc; now apply dicts_set, dicts_set|]. eapply dicts_merge; eauto.
  - destruct (virtual_ok mn) as [u|e]; cbn; [|intros X; discriminate X]. intros E. inversion E; now subst.
Qed.
Lemma dicts_disconnected fd meta mol fgs : wf_attrs fd -> resolve_disconnected fd meta = Ok (mol, fgs) -> dicts mol.
Proof.
  intros Hwa. unfold resolve_disconnected. intros E.
  refine (fold_res_inv (fun st => dicts (fst st)) (disc_step fd) meta _ (gempty, []) (mol, fgs) _ E).
  - intros [m f] x [m' f'] Hb Eb. cbn in *. eapply dicts_disc_step; eauto.
  - constructor.
Qed.
Lemma dicts_bonding legacy aa meta mol fgs mol' fgs' : dicts mol -> bonding_step legacy aa meta mol fgs = Ok (mol', fgs') -> dicts mol'.
Proof.
  intros H. unfold bonding_step. destruct (bonds_of legacy meta mol fgs) as [[s1 bonds]|]; cbn [bind]; [|discriminate].
  destruct (GraphOps.fold_res (apply_bond aa) bonds mol) as [m|] eqn:E; cbn [bind]; [|discriminate]. intros X. inversion X; subst.
  eapply (fold_res_inv (fun g => dicts g)); [|exact H|exact E]. intros g b g' Hg. unfold apply_bond.
  pose proof (dicts_add_edge g (b_u b) (b_v b) (bond_attrs b) Hg) as H1. destruct aa; [|intros Eb; inversion Eb; now subst].
  apply (fold_res_inv (fun g => dicts g)); [|exact H1]. intros m0 n m' Hm.
  destruct (node_get m0 n (S "element")) as [el|]; cbn [of_option bind]; [|discriminate].
  destruct (pyval_eqb el _); [intros Eb; inversion Eb; now subst|].
  destruct (node_get m0 n (S "hcount")) as [hc|]; cbn [of_option bind]; [|discriminate].
  destruct (dec_hcount _ hc); cbn [bind]; [|discriminate]. intros Eb. inversion Eb. now apply dicts_set.
Qed.

(** ---------------------------------------------------------------- transcript and hydrogen completion *)
Section Completed.
  Variables m2 g1 g4 : graph.
  Hypothesis W2 : wf_graph m2.
  Hypothesis D2 : dicts m2.
  Hypothesis Fid2 : forall n, In n m2 -> aget (S "fragid") (na n) <> None.
  Hypothesis Ct : Hydrogens.transcript_contract m2 g1 = true.
  Hypothesis Rs : RebuildWf.all_no_rs g1.
  Hypothesis Rb : Hydrogens.rebuild_after_car false rebuild_copy_attrs_default g1 = Ok g4.

  Let CK := ReturnedCar.contract_car_ok m2 g1 Ct D2.
  Lemma c_wf1 : wf_graph g1.
  Proof. exact (SquashProofs.wf_transfer m2 g1 (ReturnedCar.ck_keys _ _ CK) (ReturnedCar.ck_edges _ _ CK) W2). Qed.
  Lemma c_wf4 : wf_graph g4.
  Proof. exact (RebuildWf.rebuild_wf rebuild_copy_attrs_default g1 g4 c_wf1 Rs Rb). Qed.
  Lemma c_in1 x : In x (node_keys m2) -> exists n1, gfind x g1 = Some n1.
  Proof.
    intros Hx. rewrite <- (ReturnedCar.ck_keys _ _ CK) in Hx. apply gfind_has in Hx. unfold has_node in Hx.
    destruct (gfind x g1) as [n1|]; [eauto|discriminate].
  Qed.
  (** an original atom keeps its node, its attributes but hcount, and its neighbours; only new hydrogens are appended *)
  Lemma c_kept x n1 : gfind x g1 = Some n1 -> exists n' extra, gfind x g4 = Some n' /\
    (forall attr v, attr <> S "hcount" -> aget attr (na n1) = Some v -> aget attr (na n') = Some v) /\
    nadj n' = nadj n1 ++ extra /\ (forall j a, In (j, a) extra -> gfind j g1 = None).
  Proof.
    intros G1. destruct (RebuildProofs.wf_graph_structural g1 c_wf1) as (Hn & Hcl & Hns).
    destruct (RebuildProofs.rebuild_end_to_end rebuild_copy_attrs_default g1 g4 Hn Hcl Hns Rs Rb) as (R1 & R2 & _).
    destruct (Hydrogens.is_H (na n1)) eqn:EH.
    - destruct (R2 _ _ G1 EH) as (n' & G' & A' & At). exists n', []. split; [exact G'|]. split; [exact At|]. split; [now rewrite app_nil_r|intros j a []].
    - destruct (R1 _ _ G1 EH) as (val & b & idxs & n' & _ & _ & _ & _ & Hfresh & G' & A' & At & _).
      exists n', (map (fun j => (j, Hydrogens.h_edge_attrs)) idxs). split; [exact G'|]. split; [|split; [exact A'|]].
      + intros attr v Na Hv. rewrite (At attr Na). exact Hv.
      + intros j a Hin. apply in_map_iff in Hin as (j' & E & Hj). inversion E; subst. now apply Hfresh.
  Qed.
  Lemma c_edge x y : In x (node_keys m2) -> In y (node_keys m2) -> has_edge g4 x y = has_edge m2 x y.
  Proof.
    intros Hx Hy. rewrite <- (ReturnedCar.ck_edges _ _ CK). destruct (c_in1 x Hx) as [n1 G1]. destruct (c_in1 y Hy) as [ny Gy].
    destruct (c_kept x n1 G1) as (n' & extra & G' & _ & A' & Hfresh).
    destruct (has_edge g1 x y) eqn:E1.
    - apply RebuildWf.has_edge_in in E1 as (n & a & Gn & Hin). rewrite G1 in Gn. inversion Gn; subst n.
      apply RebuildWf.has_edge_in. exists n', a. split; [exact G'|]. rewrite A'. apply in_or_app. now left.
    - destruct (has_edge g4 x y) eqn:E4; [|reflexivity]. apply RebuildWf.has_edge_in in E4 as (n & a & Gn & Hin). rewrite G' in Gn. inversion Gn; subst n.
      rewrite A' in Hin. apply in_app_or in Hin as [Hin|Hin].
      + assert (has_edge g1 x y = true) as T by (apply RebuildWf.has_edge_in; exists n1, a; auto). congruence.
      + rewrite (Hfresh y a Hin) in Gy. discriminate Gy.
  Qed.
  Lemma c_attr x key v : In x (node_keys m2) -> key <> S "hcount" -> key <> S "aromatic" ->
    node_get m2 x key = Some v -> node_get g4 x key = Some v.
  Proof.
    intros Hx N1 N2 Hv. rewrite <- (ReturnedCar.ck_attrs _ _ CK x key N2) in Hv. destruct (c_in1 x Hx) as [n1 G1].
    destruct (c_kept x n1 G1) as (n' & extra & G' & At & _). unfold node_get in *. rewrite G1 in Hv. rewrite G'. now apply At.
  Qed.
  Lemma c_in4 x : In x (node_keys m2) -> In x (node_keys g4).
  Proof.
    intros Hx. destruct (c_in1 x Hx) as [n1 G1]. destruct (c_kept x n1 G1) as (n' & extra & G' & _). apply gfind_has. unfold has_node. now rewrite G'.
  Qed.
  (** every node of the completed graph has a fragid: the original ones keep theirs, an added hydrogen inherits its anchor's *)
  Lemma c_fragid4 : map fst (get_node_attributes g4 (S "fragid")) = node_keys g4.
  Proof.
    pose proof c_wf4 as Wf4. destruct (RebuildProofs.wf_graph_structural g1 c_wf1) as (Hn & Hcl & Hns).
    destruct (RebuildProofs.rebuild_end_to_end rebuild_copy_attrs_default g1 g4 Hn Hcl Hns Rs Rb) as (R1 & R2 & R3).
    assert (Nf : S "fragid" <> S "hcount") by (intros X; apply str_eqb_eq in X; vm_compute in X; discriminate).
    assert (Nf2 : S "fragid" <> S "aromatic") by (intros X; apply str_eqb_eq in X; vm_compute in X; discriminate).
    assert (F1 : forall x n1, gfind x g1 = Some n1 -> exists v, aget (S "fragid") (na n1) = Some v).
    { intros x n1 G1. assert (In x (node_keys m2)) as Hx.
      { rewrite <- (ReturnedCar.ck_keys _ _ CK). apply gfind_has. unfold has_node. now rewrite G1. }
      pose proof (ReturnedCar.ck_attrs _ _ CK x (S "fragid") Nf2) as E. unfold node_get in E. rewrite G1 in E.
      apply gfind_has in Hx. unfold has_node in Hx. destruct (gfind x m2) as [nn|] eqn:G2; [|discriminate Hx].
      assert (In nn m2) as Hin by (eapply gfind_in_graph; exact G2). destruct (aget (S "fragid") (na nn)) as [v|] eqn:Ev; [|exfalso; exact (Fid2 nn Hin Ev)].
      exists v. exact E. }
    apply CutSorted.gna_all_keys. intros nd Hin. pose proof (gfind_in g4 (wf_nodup _ Wf4) nd Hin) as Gnd.
    destruct (gfind (nk nd) g1) as [n1|] eqn:G.
    - destruct (c_kept _ _ G) as (n' & extra & G' & At & _). rewrite Gnd in G'. inversion G'; subst n'.
      destruct (F1 _ _ G) as [v Hv]. rewrite (At _ _ Nf Hv). discriminate.
    - destruct (R3 _ _ G Gnd) as (k & Hk & Am & _). destruct (gfind k g1) as [nk1|] eqn:Gk; [|congruence].
      assert (He : has_edge g4 k (nk nd) = true).
      { rewrite <- (wf_sym _ Wf4). apply RebuildWf.has_edge_in. exists nd, Hydrogens.h_edge_attrs. split; [exact Gnd|rewrite Am; now left]. }
      apply RebuildWf.has_edge_in in He as (n'' & a & G'' & Hin'').
      destruct (Hydrogens.is_H (na nk1)) eqn:EH.
      + destruct (R2 _ _ Gk EH) as (n' & G' & A' & _). rewrite G' in G''. inversion G''; subst n''. rewrite A' in Hin''.
        exfalso. apply (Hcl _ _ _ _ Gk Hin''). exact G.
      + destruct (R1 _ _ Gk EH) as (val & b & idxs & n' & _ & _ & _ & _ & _ & G' & A' & _ & Hh).
        rewrite G' in G''. inversion G''; subst n''. rewrite A' in Hin''. apply in_app_or in Hin'' as [Hin''|Hin''].
        * exfalso. apply (Hcl _ _ _ _ Gk Hin''). exact G.
        * apply in_map_iff in Hin'' as (j & E & Hj). inversion E; subst j. destruct (Hh _ Hj) as (h & Gh & _ & _ & Ah). rewrite Gnd in Gh. inversion Gh; subst h.
          rewrite (Ah (S "fragid")). cbn. discriminate.
  Qed.
End Completed.

(** ---------------------------------------------------------------- E/Z annotation and atom naming leave the bonds alone *)
Lemma ez_has_edge g g' x y : EzImpl.annotate_ez_isomers_cgsmiles g = Ok g' -> has_edge g' x y = has_edge g x y.
Proof.
  intros H. destruct (EzProofs.annotate_cg_inv _ _ H) as (ps & apps & _ & _ & Sh & _).
  pose proof (EzProofs.shape_gfind g' g Sh x) as P. unfold has_edge.
  destruct (gfind x g') as [n|], (gfind x g) as [m|]; try contradiction; [|reflexivity]. destruct P as [_ ->]. reflexivity.
Qed.
Lemma names_has_edge mol meta fgs mol' fgs' x y : set_atom_names mol meta fgs = Ok (mol', fgs') -> has_edge mol' x y = has_edge mol x y.
Proof.
  unfold set_atom_names, bind.
  destruct (GraphOps.fold_res name_group2 (fraglist_of meta fgs) (mol, fgs, [], [])) as [r|] eqn:E; [|discriminate].
  intros H. apply ok_some in H. injection H as H1 H2. subst mol'.
  set (P := fun g : graph => has_edge g x y = has_edge mol x y).
  apply (FragidProofs.fold_res_inv (fun st : nstate => P (ns_mol st)) name_group2 _) with (st := (mol, fgs, [], [])) (st' := r) in E; [exact E| |reflexivity].
  intros st grp st' Hs Hn. unfold name_group2 in Hn. destruct st as [[[m f] nd] sn].
  destruct (used_names m nd (snd grp)) as [used|]; cbn [bind] in Hn; [|discriminate Hn].
  match type of Hn with bind ?x _ = _ => destruct x as [r2|] eqn:E2 end; cbn [bind] in Hn; [|discriminate Hn].
  apply ok_some in Hn. subst st'.
  apply (FragidProofs.fold_res_inv (fun st : nstate * Z => P (ns_mol (fst st))) (name_node (fst grp) used) _) with (st := (m, f, nd, sn, 0)) (st' := r2) in E2;
    [exact E2| |exact Hs].
  intros s1 n s2 H1 Hx. destruct (name_node_mol _ _ _ _ _ Hx) as [->|[v ->]]; [exact H1|].
  unfold P in *. rewrite <- H1. apply has_edge_eq. intros a b. apply edge_attrs_set_node_attr.
Qed.
Lemma gna_all_conv g a : map fst (get_node_attributes g a) = node_keys g -> forall n, In n g -> aget a (na n) <> None.
Proof.
  assert (forall r, (length (get_node_attributes r a) <= length r)%nat) as Hle.
  { unfold get_node_attributes. induction r as [|x r IH]; cbn; [lia|]. rewrite app_length. destruct (aget a (na x)); cbn; lia. }
  unfold get_node_attributes, node_keys. induction g as [|x r IH]; intros H n Hin; [destruct Hin|]. cbn [flat_map map] in H.
  destruct (aget a (na x)) as [v|] eqn:E.
  - cbn [app map fst] in H. inversion H as [K2]. destruct Hin as [<-|Hin]; [rewrite E; discriminate|]. exact (IH K2 n Hin).
  - exfalso. cbn [app] in H. apply (f_equal (@length Z)) in H. cbn [length map] in H. rewrite !map_length in H.
    specialize (Hle r). unfold get_node_attributes in Hle. lia.
Qed.

(** ---------------------------------------------------------------- the returned graph of an all-atom step *)
(** the attribute keys a step writes itself; every other attribute of a template atom is the copy's *)
Definition written_keys : list pystr :=
  [S "fragid"; S "mapping"; S "ez_isomer_atoms"; S "hcount"; S "aromatic"; S "ez_isomer"; S "ez_isomer_class"; S "atomname"].
Theorem step_allatom_copy legacy fd prev g1 fo : tmpl_dict fd -> wf_attrs fd ->
  resolve_step_full legacy true fd prev (Some g1) = Ok fo -> fo_m3 fo = fo_m2 fo ->
  (forall es, base_edges (fo_meta fo) = Ok es -> wf_edges es) -> RebuildWf.all_no_rs g1 ->
  forall pre mn post fv name frag, fo_meta fo = pre ++ mn :: post ->
  aget (S "fragname") (na mn) = Some fv -> lookup_fragment fd fv = Some (name, frag) ->
  exists cf : Z -> Z,
    (forall a b, In a (node_keys frag) -> In b (node_keys frag) -> cf a = cf b -> a = b) /\
    (forall n, In n frag -> node_get (fo_mol fo) (cf (nk n)) (S "fragid") = Some (VList [VInt (nk mn)]) /\
                            node_get (fo_mol fo) (cf (nk n)) (S "mapping") = Some (mapping_val name (nk n)) /\
                            forall key v, ~ In key written_keys -> aget key (na n) = Some v -> node_get (fo_mol fo) (cf (nk n)) key = Some v) /\
    (forall a b, In a (node_keys frag) -> In b (node_keys frag) -> has_edge (fo_mol fo) (cf a) (cf b) = has_edge frag a b).
Proof.
  intros Hd Hwa H. unfold resolve_step_full in H. cbv zeta in H.
  destruct (resolve_disconnected fd _) as [[m1 fg1]|] eqn:E1; cbn [bind] in H; [|discriminate H].
  destruct (bonding_step legacy true _ m1 fg1) as [[m2 fg2]|] eqn:E2; cbn [bind] in H; [|discriminate H].
  destruct (Squash.squash_atoms m2) as [m3|]; cbn [bind] in H; [|discriminate H].
  destruct (Hydrogens.rebuild_h_atoms_default m3 (Some g1)) as [m4|] eqn:E4; cbn [bind] in H; [|discriminate H].
  destruct (sort_nodes_by_attr m4) as [m5|] eqn:E5; cbn [bind] in H; [|discriminate H].
  destruct (EzImpl.annotate_ez_isomers_cgsmiles m5) as [m6|] eqn:E6; cbn [bind] in H; [|discriminate H].
  destruct (annotate_fragments _ m6) as [f6|]; cbn [bind] in H; [|discriminate H].
  destruct (set_atom_names m6 _ f6) as [[m7 f7]|] eqn:E8; cbn [bind] in H; [|discriminate H].
  inversion H; subst fo. clear H. cbn [fo_meta fo_m2 fo_m3 fo_mol]. intros -> Hwe Rs pre mn post fv name frag Em Hf Hl.
  set (meta := set_nodes_from prev (S "fragname") (get_node_attributes prev (S "atomname"))) in *.
  destruct (bonded_gok _ _ _ _ _ _ _ _ Hd E1 E2 Hwe) as [W2 _].
  pose proof (dicts_bonding _ _ _ _ _ _ _ (dicts_disconnected _ _ _ _ Hwa E1) E2) as D2.
  pose proof (gna_all_conv _ _ (bonded_fragid_all _ _ _ _ _ _ _ _ Hd E1 E2 Hwe)) as Fid2.
  unfold Hydrogens.rebuild_h_atoms_default, Hydrogens.rebuild_h_atoms in E4.
  destruct (Hydrogens.transcript_contract m2 g1) eqn:Ct; [|discriminate E4].
  change rebuild_keep_bonding_default with false in E4.
  pose proof (c_wf4 m2 g1 m4 W2 D2 Ct Rs E4) as W4.
  pose proof (c_fragid4 m2 g1 m4 W2 D2 Fid2 Ct Rs E4) as Fid4.
  destruct (SortGraphProofs.sort_graph m4 m5 W4 Fid4 E5) as (m & Em0 & Inj & _ & _ & Hhe & Hng).
  destruct (bonded_edges_copy fd meta m1 fg1 legacy true m2 fg2 Hd E1 E2 Hwe pre mn post fv name frag Em Hf Hl) as (cf0 & Inj0 & Hn0 & He0).
  assert (forall t, In t (node_keys frag) -> In (cf0 t) (node_keys m2)) as Hin2.
  { intros t Ht. unfold node_keys in Ht. apply in_map_iff in Ht as [n [<- Hn]]. eapply node_get_some_in. exact (proj1 (Hn0 n Hn)). }
  assert (forall t, In t (node_keys frag) -> In (cf0 t) (node_keys m4)) as Hin4 by (intros t Ht; exact (c_in4 m2 g1 m4 W2 D2 Ct Rs E4 _ (Hin2 t Ht))).
  exists (fun t => map_get m (cf0 t)). split; [|split].
  - intros a b Ha Hb E. apply Inj0; [exact Ha|exact Hb|]. apply Inj; [now apply Hin4|now apply Hin4|exact E].
  - intros n Hn. destruct (Hn0 n Hn) as [A [B Ck]]. assert (In (nk n) (node_keys frag)) as Hk by (unfold node_keys; now apply in_map).
    assert (forall key v, key <> S "hcount" -> key <> S "aromatic" -> key <> S "ez_isomer_atoms" -> key <> S "ez_isomer" -> key <> S "ez_isomer_class" ->
              key <> S "atomname" -> node_get m2 (cf0 (nk n)) key = Some v -> node_get m7 (map_get m (cf0 (nk n))) key = Some v) as Hkey.
    { intros key v K1 K2 K3 K4 K5 K6 Hv.
      rewrite (ReturnedAnnot.set_atom_names_keeps _ _ _ _ _ E8 _ key K6), (EzProofs.annotate_keeps _ _ _ key K4 K5 E6), (Hng _ key (Hin4 _ Hk) K3).
      exact (c_attr m2 g1 m4 W2 D2 Ct Rs E4 _ key v (Hin2 _ Hk) K1 K2 Hv). }
    split; [apply Hkey; try exact A; intros X; apply str_eqb_eq in X; vm_compute in X; discriminate|].
    split; [apply Hkey; try exact B; intros X; apply str_eqb_eq in X; vm_compute in X; discriminate|].
    intros key v Hnw Hv. unfold written_keys in Hnw. cbn [In] in Hnw.
    apply Hkey; try (intros X; apply Hnw; rewrite X; tauto). rewrite Ck; [exact Hv| | | |]; intros X; apply Hnw; rewrite X; tauto.
  - intros a b Ha Hb. rewrite (names_has_edge _ _ _ _ _ _ _ E8), (ez_has_edge _ _ _ _ E6), (Hhe _ _ (Hin4 a Ha) (Hin4 b Hb)).
    rewrite (c_edge m2 g1 m4 W2 D2 Ct Rs E4 _ _ (Hin2 a Ha) (Hin2 b Hb)).
    rewrite !has_edge_attrs, (He0 a b Ha Hb). unfold tmpl_edge. destruct (edge_attrs frag a b); reflexivity.
Qed.
