(** NameStep: the hypotheses of NameProofs.names_unique_per_coarse_node hold for the coarse graphs annotate_fragments
    builds ([annotate_groups]): a coarse node lists its atoms once and an atom met in two coarse nodes has more than one
    fragid entry - so the naming theorem applies to the graphs a whole all-atom step RETURNS ([step_names_unique]). *)
From Coq Require Import String.
From Coq Require Import List Ascii ZArith Bool Lia Sorting.Permutation.
From CGV Require Import Base.PyBase Base.PyVal Base.NxGraph Resolve.Bonding Resolve.GraphOps Resolve.Pipeline Resolve.PipelineFull
     Resolve.MapProofs Resolve.CopyProofs Resolve.FragidProofs Resolve.NameProofs.
From CGV Require Hydro.Hydrogens Hydro.Squash Stereo.EzImpl Stereo.EzProofs.
Import ListNotations.
Open Scope Z_scope.

(** ---------------------------------------------------------------- the node list of a coarse graph *)
Lemma subgraph_keys_list mol : forall ns acc g1, NoDup (node_keys acc ++ ns) ->
  GraphOps.fold_res (fun acc n => a <- node_attrs mol n ;; Ok (add_node acc n a)) ns acc = Ok g1 -> node_keys g1 = node_keys acc ++ ns.
Proof.
  induction ns as [|n r IH]; intros acc g1 Hn H; cbn [GraphOps.fold_res] in H.
  - apply ok_inj2 in H. subst. now rewrite app_nil_r.
  - destruct (node_attrs mol n) as [a|]; cbn [bind] in H; [|discriminate H].
    assert (has_node acc n = false) as Hf.
    { destruct (has_node acc n) eqn:E; [|reflexivity]. apply gfind_has in E. apply NoDup_remove_2 in Hn. exfalso. apply Hn. apply in_or_app. now left. }
    assert (NoDup (node_keys (add_node acc n a) ++ r)) as Hn2 by (rewrite keys_add_node, Hf, <- app_assoc; exact Hn).
    rewrite (IH _ _ Hn2 H). now rewrite keys_add_node, Hf, <- app_assoc.
Qed.
Lemma frag_subgraph_keys mol ns g : NoDup ns -> frag_subgraph mol ns = Ok g -> node_keys g = ns.
Proof.
  intros Hn. unfold frag_subgraph. destruct (GraphOps.fold_res _ ns gempty) as [g1|] eqn:E; cbn [bind]; [|discriminate].
  intros H. apply ok_inj2 in H. subst g. pose proof (subgraph_keys_list mol ns gempty g1 Hn E) as K. cbn in K.
  assert (forall (ps : list (Z * Z)) g0, (forall a b, In (a, b) ps -> In a (node_keys g0) /\ In b (node_keys g0)) ->
            node_keys (fold_left (fun acc ab => if has_edge mol (fst ab) (snd ab) then add_edge acc (fst ab) (snd ab) [] else acc) ps g0) = node_keys g0) as Hed.
  { induction ps as [|[a b] r IH]; cbn [fold_left fst snd]; intros g0 Hp; [reflexivity|].
    destruct (Hp a b (or_introl eq_refl)) as [Ha Hb]. destruct (has_edge mol a b).
    - rewrite IH; [apply keys_add_edge_in; now apply gfind_has|]. intros x y Hxy.
      rewrite keys_add_edge_in by (now apply gfind_has). apply Hp. now right.
    - apply IH. intros x y Hxy. apply Hp. now right. }
  rewrite Hed; [exact K|]. intros a b Hab. apply pairs_in in Hab. now rewrite K.
Qed.

(** fragid lists without repeated entries *)
Definition fragid_nodup (mol : graph) : Prop :=
  forall n v l, In (n, v) (get_node_attributes mol (S "fragid")) -> as_list v = Ok l -> NoDup l.

Lemma zcount_le1 k l : NoDup l -> (zcount k l <= 1)%nat.
Proof.
  unfold zcount. induction 1 as [|x r Hx Hr IH]; cbn; [lia|].
  destruct x; cbn; try exact IH. destruct (Z.eqb_spec z k) as [->|N]; cbn; [|exact IH].
  assert (filter (fun v => match v with VInt z => Z.eqb z k | _ => false end) r = []) as ->; [|cbn; lia].
  destruct (filter _ r) as [|y t] eqn:F; [reflexivity|]. exfalso.
  assert (In y (filter (fun v => match v with VInt z => Z.eqb z k | _ => false end) r)) as Hy by (rewrite F; now left).
  apply filter_In in Hy as [Hy Hb]. destruct y; try discriminate. apply Z.eqb_eq in Hb. subst. contradiction.
Qed.
Lemma members_nodup fm k : NoDup (map fst fm) -> (forall n l, In (n, l) fm -> NoDup l) -> NoDup (members_of fm k).
Proof.
  unfold members_of. induction fm as [|[n l] r IH]; cbn [flat_map map fst snd]; intros Hn Hl; [constructor|].
  inversion Hn as [|? ? Hx Hr]; subst. apply NoDup_app_intro.
  - pose proof (zcount_le1 k l (Hl n l (or_introl eq_refl))) as Hc. destruct (zcount k l) as [|[|c]]; cbn; [constructor|repeat constructor; intros []|lia].
  - apply IH; [exact Hr|]. intros n' l' H'. apply (Hl n' l'). now right.
  - intros x Hx1 Hx2. apply repeat_spec in Hx1. subst x. apply in_flat_map in Hx2 as [[n' l'] [Hin Hrep]]. cbn in Hrep.
    apply repeat_spec in Hrep. subst n'. apply Hx. apply in_map_iff. exists (n, l'). auto.
Qed.

Lemma fragid_map_fst mol fm : fragid_map mol = Ok fm -> map fst fm = map fst (get_node_attributes mol (S "fragid")).
Proof.
  unfold fragid_map. generalize (get_node_attributes mol (S "fragid")). intros l. revert fm. induction l as [|x r IH]; intros fm H; cbn [GraphOps.map_res] in H.
  - apply ok_inj2 in H. now subst.
  - destruct (as_list (snd x)); cbn [bind] in H; [|discriminate H]. destruct (GraphOps.map_res _ r) eqn:E; cbn [bind] in H; [|discriminate H].
    apply ok_inj2 in H. subst. cbn. f_equal. now apply IH.
Qed.
Lemma fragid_map_in mol fm n l : fragid_map mol = Ok fm -> In (n, l) fm ->
  exists v, In (n, v) (get_node_attributes mol (S "fragid")) /\ as_list v = Ok l.
Proof.
  intros H Hin. unfold fragid_map in H. destruct (map_res_in _ _ _ _ H Hin) as [[n' v] [Hv Hx]]. cbn [fst snd] in Hx.
  destruct (as_list v) as [l'|] eqn:El; cbn [bind] in Hx; [|discriminate Hx]. apply ok_inj2 in Hx. injection Hx as -> ->. eauto.
Qed.

(** ---------------------------------------------------------------- shared_ok from a pairwise statement *)
Lemma shared_ok_intro F : forall groups seen,
  (forall pre g post, groups = pre ++ g :: post -> forall n, In n (snd g) ->
     (In n seen \/ exists g', In g' pre /\ In n (snd g')) -> is_sh F n) -> shared_ok F seen groups.
Proof.
  induction groups as [|g r IH]; intros seen H; cbn [shared_ok]; [exact I|]. split.
  - intros n Hn Hs. apply (H [] g r eq_refl n Hn). now left.
  - apply IH. intros pre g' post Eq n Hn Hc. apply (H (g :: pre) g' post); [now rewrite Eq|exact Hn|].
    destruct Hc as [Hc|[g2 [Hg2 Hn2]]].
    + apply in_app_or in Hc as [Hc|Hc]; [now left|]. right. exists g. split; [now left|exact Hc].
    + right. exists g2. split; [now right|exact Hn2].
Qed.

(** ---------------------------------------------------------------- the coarse graphs annotate_fragments builds *)
Lemma fg_get_in k : forall fgs g, fg_get k fgs = Some g -> In (k, g) fgs.
Proof.
  induction fgs as [|[k' g'] r IH]; cbn; intros g H; [discriminate|].
  destruct (Z.eqb_spec k k') as [->|N]; [inversion H; now left|right; auto].
Qed.
Lemma fraglist_keys_nodup meta fgs : NoDup (node_keys meta) -> NoDup (map fst (fraglist_of meta fgs)).
Proof.
  unfold fraglist_of, node_keys. induction meta as [|mn r IH]; cbn [flat_map map]; intros H; [constructor|]. inversion H as [|? ? Hx Hr]; subst.
  rewrite map_app. apply NoDup_app_intro; [|now apply IH|].
  - destruct (fg_get (nk mn) fgs) as [[|x g]|]; cbn; repeat constructor; intros [].
  - intros x Hx1 Hx2. assert (x = nk mn) as -> by (destruct (fg_get (nk mn) fgs) as [[|y g]|]; cbn in Hx1; intuition).
    apply Hx. apply in_map_iff in Hx2 as [[k ns] [Ek Hin]]. cbn in Ek. subst k. apply in_flat_map in Hin as [m [Hm Hk]].
    destruct (fg_get (nk m) fgs) as [[|y g]|]; cbn in Hk; try contradiction. destruct Hk as [Hk|[]]. injection Hk as E1 E2. rewrite <- E1. now apply in_map.
Qed.
Lemma fraglist_in meta fgs k ns : In (k, ns) (fraglist_of meta fgs) -> exists g, In (k, g) fgs /\ ns = node_keys g /\ ns <> [].
Proof.
  unfold fraglist_of. intros H. apply in_flat_map in H as [mn [_ Hk]]. destruct (fg_get (nk mn) fgs) as [g|] eqn:Eg; [|contradiction].
  destruct g as [|x g]; [contradiction|]. destruct Hk as [Hk|[]]. inversion Hk; subst. exists (x :: g). split; [now apply fg_get_in|]. split; [reflexivity|discriminate].
Qed.
Lemma nodup_fst_unique {B} (l : list (Z * B)) n a b : NoDup (map fst l) -> In (n, a) l -> In (n, b) l -> a = b.
Proof.
  induction l as [|[k v] r IH]; cbn; intros H Ha Hb; [contradiction|]. inversion H as [|? ? Hx Hr]; subst.
  destruct Ha as [Ea|Ha]; destruct Hb as [Eb|Hb].
  - congruence.
  - inversion Ea; subst. exfalso. apply Hx. apply in_map_iff. exists (n, b). auto.
  - inversion Eb; subst. exfalso. apply Hx. apply in_map_iff. exists (n, a). auto.
  - now apply IH.
Qed.
Lemma two_members_length {A} (l : list A) x y : In x l -> In y l -> x <> y -> (2 <= length l)%nat.
Proof.
  destruct l as [|a [|b r]]; cbn; intros Hx Hy N; try lia; try contradiction. destruct Hx as [<-|[]], Hy as [<-|[]]. contradiction.
Qed.
Lemma fsv_of_list v l : as_list v = Ok l -> fsv (Some v) = Ok (Nat.ltb 1 (length l)).
Proof. destruct v; cbn; try discriminate; intros H; apply ok_inj2 in H; now subst. Qed.
Lemma gna_node_get mol a n v : NoDup (node_keys mol) -> In (n, v) (get_node_attributes mol a) -> node_get mol n a = Some v.
Proof.
  intros Hn H. destruct (gna_in _ _ _ _ H) as [r [Hr [En Ev]]]. unfold node_get. subst n. now rewrite (gfind_in mol Hn r Hr).
Qed.
Lemma gna_keys_nodup2 g a : NoDup (node_keys g) -> NoDup (map fst (get_node_attributes g a)).
Proof.
  unfold get_node_attributes, node_keys. induction g as [|n r IH]; cbn; intros H; [constructor|]. inversion H; subst.
  destruct (aget a (na n)); cbn; [|now apply IH]. constructor; [|now apply IH].
  intros X. apply H2. apply in_map_iff in X as [[k v] [E Hin]]. cbn in E. subst k.
  apply in_flat_map in Hin as [x [Hx Hv]]. destruct (aget a (na x)); [|contradiction]. destruct Hv as [Hv|[]]. inversion Hv; subst.
  now apply in_map.
Qed.

Theorem annotate_groups meta mol fgs : annotate_fragments meta mol = Ok fgs ->
  NoDup (node_keys mol) -> NoDup (node_keys meta) -> fragid_nodup mol ->
  (forall g, In g (fraglist_of meta fgs) -> NoDup (snd g)) /\
  shared_ok (fun k => node_get mol k (S "fragid")) [] (fraglist_of meta fgs).
Proof.
  intros H Hn Hm Hf. unfold annotate_fragments in H. destruct (fragid_map mol) as [fm|] eqn:Ef; cbn [bind] in H; [|discriminate H].
  assert (NoDup (map fst fm)) as Hfm by (rewrite (fragid_map_fst _ _ Ef); now apply gna_keys_nodup2).
  assert (forall n l, In (n, l) fm -> NoDup l) as Hl.
  { intros n l Hin. destruct (fragid_map_in _ _ _ _ Ef Hin) as [v [Hv El]]. exact (Hf n v l Hv El). }
  (* the node list of coarse node k's graph *)
  assert (forall k g, In (k, g) fgs -> node_keys g = members_of fm k) as Hkeys.
  { intros k g Hin. destruct (map_res_in _ _ _ _ H Hin) as [mn [_ Hx]].
    destruct (frag_subgraph mol (members_of fm (nk mn))) as [g'|] eqn:Eg; cbn [bind] in Hx; [|discriminate Hx].
    apply ok_inj2 in Hx. injection Hx as <- <-. apply (frag_subgraph_keys mol); [now apply members_nodup|exact Eg]. }
  split.
  - intros [k ns] Hg. destruct (fraglist_in _ _ _ _ Hg) as [g [Hin [-> _]]]. cbn [snd]. rewrite (Hkeys k g Hin). now apply members_nodup.
  - apply shared_ok_intro. intros pre [k ns] post Eq n Hin [[]|[[k' ns'] [Hpre Hin']]]. cbn [snd] in *.
    assert (In (k, ns) (fraglist_of meta fgs)) as G1 by (rewrite Eq; apply in_or_app; right; now left).
    assert (In (k', ns') (fraglist_of meta fgs)) as G2 by (rewrite Eq; apply in_or_app; now left).
    assert (k' <> k) as Nk.
    { pose proof (fraglist_keys_nodup meta fgs Hm) as Nd. rewrite Eq, map_app in Nd. cbn in Nd.
      intros ->. apply NoDup_remove_2 in Nd. apply Nd. apply in_or_app. left. apply in_map_iff. exists (k, ns'). auto. }
    destruct (fraglist_in _ _ _ _ G1) as [g [Hg [-> _]]]. destruct (fraglist_in _ _ _ _ G2) as [g' [Hg' [-> _]]].
    rewrite (Hkeys k g Hg) in Hin. rewrite (Hkeys k' g' Hg') in Hin'.
    apply members_spec in Hin as [l [Hl1 Hk1]]. apply members_spec in Hin' as [l' [Hl2 Hk2]].
    assert (l' = l) as -> by (eapply nodup_fst_unique; eauto).
    destruct (fragid_map_in _ _ _ _ Ef Hl1) as [v [Hv El]].
    unfold is_sh. rewrite (gna_node_get mol _ n v Hn Hv), (fsv_of_list v l El). f_equal. apply Nat.ltb_lt.
    pose proof (two_members_length l (VInt k) (VInt k') Hk1 Hk2 ltac:(congruence)). lia.
Qed.

(** ---------------------------------------------------------------- the graphs an all-atom step returns *)
Lemma aa_tail legacy fd prev car fo : resolve_step_full legacy true fd prev car = Ok fo ->
  exists fgs0, annotate_fragments (fo_meta fo) (fo_m6 fo) = Ok fgs0 /\
               set_atom_names (fo_m6 fo) (fo_meta fo) fgs0 = Ok (fo_mol fo, fo_fgs fo).
Proof.
  unfold resolve_step_full.
  set (meta := set_nodes_from prev (S "fragname") (get_node_attributes prev (S "atomname"))).
  destruct (resolve_disconnected fd meta) as [[m1 fg1]|]; cbn [bind]; [|discriminate].
  destruct (bonding_step legacy true meta m1 fg1) as [[m2 fg2]|]; cbn [bind]; [|discriminate].
  destruct (Squash.squash_atoms m2) as [m3|]; cbn [bind]; [|discriminate].
  destruct (Hydrogens.rebuild_h_atoms_default m3 car) as [m4|]; cbn [bind]; [|discriminate].
  destruct (sort_nodes_by_attr m4) as [m5|]; cbn [bind]; [|discriminate].
  destruct (EzImpl.annotate_ez_isomers_cgsmiles m5) as [m6|]; cbn [bind]; [|discriminate].
  destruct (annotate_fragments meta m6) as [fgs|] eqn:E7; cbn [bind]; [|discriminate].
  destruct (set_atom_names m6 meta fgs) as [[m7 fgs']|] eqn:E8; cbn [bind]; [|discriminate].
  intros H. apply ok_inj2 in H. subst fo. cbn. eauto.
Qed.
Lemma fg_get_of_in k g : forall fgs, NoDup (map fst fgs) -> In (k, g) fgs -> fg_get k fgs = Some g.
Proof.
  induction fgs as [|[k' g'] r IH]; cbn; intros Hn Hin; [contradiction|]. inversion Hn as [|? ? Hx Hr]; subst.
  destruct Hin as [E|Hin]; [inversion E; subst; now rewrite Z.eqb_refl|].
  destruct (Z.eqb_spec k k') as [->|N]; [exfalso; apply Hx; apply in_map_iff; exists (k', g); auto|now apply IH].
Qed.

(** C12 atom names for the RETURNED graphs of a whole all-atom step: within every coarse node the atom names, read
    from the returned fine graph, are pairwise distinct *)
Theorem step_names_unique (E : list pystr) legacy fd prev car fo : Forall digit_free E ->
  resolve_step_full legacy true fd prev car = Ok fo ->
  NoDup (node_keys (fo_m6 fo)) -> NoDup (node_keys (fo_meta fo)) -> fragid_nodup (fo_m6 fo) -> elemsE E (fo_m6 fo) ->
  forall k g, In (k, g) (fo_fgs fo) -> NoDup (map (name_in (fo_mol fo)) (node_keys g)).
Proof.
  intros HE H Hn Hm Hf Hel k g Hg. destruct (aa_tail _ _ _ _ _ H) as [fgs0 [Ea Es]].
  destruct (annotate_groups _ _ _ Ea Hn Hm Hf) as [Hnd Hsh].
  pose proof (names_unique_per_coarse_node E (label_inj_list E HE) _ _ _ _ _ Es Hnd Hel Hsh) as U.
  pose proof (set_atom_names_keys _ _ _ _ _ Es) as Hk. pose proof (frag_keys _ _ _ Ea) as Hfk.
  assert (In (k, node_keys g) (fg_keys fgs0)) as Hin.
  { rewrite <- Hk. unfold fg_keys. apply in_map_iff. exists (k, g). auto. }
  unfold fg_keys in Hin. apply in_map_iff in Hin as [[k0 g0] [Eq Hg0]]. cbn [fst snd] in Eq. injection Eq as -> Eq2. rewrite <- Eq2.
  destruct (node_keys g0) as [|x r] eqn:En; [constructor|]. rewrite <- En.
  apply (U (k, node_keys g0)). unfold fraglist_of. apply in_flat_map.
  assert (In k (node_keys (fo_meta fo))) as Hkm by (rewrite <- Hfk; apply in_map_iff; exists (k, g0); auto).
  unfold node_keys in Hkm. apply in_map_iff in Hkm as [mn [Ek Hmn]]. exists mn. split; [exact Hmn|].
  rewrite Ek, (fg_get_of_in k g0 fgs0); [|rewrite Hfk; exact Hm|exact Hg0].
  destruct g0 as [|y t]; [discriminate En|now left].
Qed.

(** ---------------------------------------------------------------- no side hypothesis about the intermediate graphs *)
(** networkx add_node / add_edge never duplicate a key *)
Lemma nodup_snoc (l : list Z) x : NoDup l -> ~ In x l -> NoDup (l ++ [x]).
Proof. intros Hl Hx. apply NoDup_app_intro; [exact Hl|repeat constructor; intros []|]. intros y Hy [<-|[]]. contradiction. Qed.
Lemma has_node_false g k : has_node g k = false -> ~ In k (node_keys g).
Proof. intros H Hin. apply gfind_has in Hin. congruence. Qed.
Lemma add_node_nodup g k a : NoDup (node_keys g) -> NoDup (node_keys (add_node g k a)).
Proof. intros H. rewrite keys_add_node. destruct (has_node g k) eqn:E; [exact H|]. apply nodup_snoc; [exact H|now apply has_node_false]. Qed.
Lemma ensure_nodup g k : NoDup (node_keys g) ->
  NoDup (node_keys (if has_node g k then g else g ++ [{| nk := k; na := []; nadj := [] |}])).
Proof.
  intros H. destruct (has_node g k) eqn:E; [exact H|]. unfold node_keys. rewrite map_app. cbn [map nk].
  apply nodup_snoc; [exact H|now apply has_node_false].
Qed.
Lemma add_edge_nodup g u v d : NoDup (node_keys g) -> NoDup (node_keys (add_edge g u v d)).
Proof. intros H. unfold add_edge. rewrite !keys_gupdate by reflexivity. now apply ensure_nodup, ensure_nodup. Qed.
Lemma fold_nodup {A} (f : graph -> A -> graph) : (forall g x, NoDup (node_keys g) -> NoDup (node_keys (f g x))) ->
  forall l g, NoDup (node_keys g) -> NoDup (node_keys (fold_left f l g)).
Proof. intros Hf. induction l as [|x r IH]; cbn [fold_left]; intros g H; [exact H|]. apply IH, Hf, H. Qed.

(** a coarse node's graph has distinct keys whatever the fragid lists look like *)
Lemma frag_subgraph_nodup mol ns g : frag_subgraph mol ns = Ok g -> NoDup (node_keys g).
Proof.
  unfold frag_subgraph. destruct (GraphOps.fold_res _ ns gempty) as [g1|] eqn:E; cbn [bind]; [|discriminate].
  intros H. apply ok_inj2 in H. subst g.
  apply fold_nodup; [intros g x Hg; destruct (has_edge mol (fst x) (snd x)); [now apply add_edge_nodup|exact Hg]|].
  assert (forall l acc g1, NoDup (node_keys acc) ->
    GraphOps.fold_res (fun acc n => a <- node_attrs mol n ;; Ok (add_node acc n a)) l acc = Ok g1 -> NoDup (node_keys g1)) as Hl.
  { induction l as [|n r IH]; intros acc g2 Ha H; cbn [GraphOps.fold_res] in H; [apply ok_inj2 in H; now subst|].
    destruct (node_attrs mol n) as [a|]; cbn [bind] in H; [|discriminate H]. eapply IH; [|exact H]. now apply add_node_nodup. }
  eapply Hl; [|exact E]. constructor.
Qed.

(** [annotate_groups] without the hypothesis on the fragid lists *)
Theorem annotate_groups_any meta mol fgs : annotate_fragments meta mol = Ok fgs ->
  NoDup (node_keys mol) -> NoDup (node_keys meta) ->
  (forall g, In g (fraglist_of meta fgs) -> NoDup (snd g)) /\
  shared_ok (fun k => node_get mol k (S "fragid")) [] (fraglist_of meta fgs).
Proof.
  intros H Hn Hm. unfold annotate_fragments in H. destruct (fragid_map mol) as [fm|] eqn:Ef; cbn [bind] in H; [|discriminate H].
  assert (NoDup (map fst fm)) as Hfm by (rewrite (fragid_map_fst _ _ Ef); now apply gna_keys_nodup2).
  assert (forall k g, In (k, g) fgs -> NoDup (node_keys g) /\ forall n, In n (node_keys g) <-> In n (members_of fm k)) as Hkeys.
  { intros k g Hin. destruct (map_res_in _ _ _ _ H Hin) as [mn [_ Hx]].
    destruct (frag_subgraph mol (members_of fm (nk mn))) as [g'|] eqn:Eg; cbn [bind] in Hx; [|discriminate Hx].
    apply ok_inj2 in Hx. injection Hx as <- <-. split; [exact (frag_subgraph_nodup _ _ _ Eg)|exact (frag_subgraph_nodes _ _ _ Eg)]. }
  split.
  - intros [k ns] Hg. destruct (fraglist_in _ _ _ _ Hg) as [g [Hin [-> _]]]. cbn [snd]. exact (proj1 (Hkeys k g Hin)).
  - apply shared_ok_intro. intros pre [k ns] post Eq n Hin [[]|[[k' ns'] [Hpre Hin']]]. cbn [snd] in *.
    assert (In (k, ns) (fraglist_of meta fgs)) as G1 by (rewrite Eq; apply in_or_app; right; now left).
    assert (In (k', ns') (fraglist_of meta fgs)) as G2 by (rewrite Eq; apply in_or_app; now left).
    assert (k' <> k) as Nk.
    { pose proof (fraglist_keys_nodup meta fgs Hm) as Nd. rewrite Eq, map_app in Nd. cbn in Nd.
      intros ->. apply NoDup_remove_2 in Nd. apply Nd. apply in_or_app. left. apply in_map_iff. exists (k, ns'). auto. }
    destruct (fraglist_in _ _ _ _ G1) as [g [Hg [-> _]]]. destruct (fraglist_in _ _ _ _ G2) as [g' [Hg' [-> _]]].
    apply (proj2 (Hkeys k g Hg)) in Hin. apply (proj2 (Hkeys k' g' Hg')) in Hin'.
    apply members_spec in Hin as [l [Hl1 Hk1]]. apply members_spec in Hin' as [l' [Hl2 Hk2]].
    assert (l' = l) as -> by (eapply nodup_fst_unique; eauto).
    destruct (fragid_map_in _ _ _ _ Ef Hl1) as [v [Hv El]].
    unfold is_sh. rewrite (gna_node_get mol _ n v Hn Hv), (fsv_of_list v l El). f_equal. apply Nat.ltb_lt.
    pose proof (two_members_length l (VInt k) (VInt k') Hk1 Hk2 ltac:(congruence)). lia.
Qed.

(** the sorted graph has distinct keys, unconditionally: relabel_copy only uses add_node / add_edge *)
Lemma keys_set_nodes_from a d : forall g, node_keys (set_nodes_from g a d) = node_keys g.
Proof. unfold set_nodes_from. induction d as [|kv r IH]; cbn [fold_left]; intros g; [reflexivity|]. now rewrite IH, keys_set. Qed.
Lemma relabel_copy_nodup g m : NoDup (node_keys (relabel_copy g m)).
Proof.
  unfold relabel_copy. apply fold_nodup; [intros; now apply add_edge_nodup|].
  apply fold_nodup; [intros h x Hh; now rewrite keys_gupdate by reflexivity|].
  apply fold_nodup; [intros; now apply add_node_nodup|constructor].
Qed.
Lemma sort_nodup g h : sort_nodes_by_attr g = Ok h -> NoDup (node_keys h).
Proof.
  unfold sort_nodes_by_attr. destruct (sort_mapping g) as [m|]; cbn [bind]; [|discriminate].
  destruct (GraphOps.map_res _ _) as [nd|]; cbn [bind]; [|discriminate]. intros H. apply ok_inj2 in H. subst h.
  rewrite keys_set_nodes_from. apply relabel_copy_nodup.
Qed.

(** the elements that occur in a graph *)
Definition elements_of (mol : graph) : list pystr :=
  flat_map (fun n => match aget (S "element") (na n) with Some (VStr el) => [el] | _ => [] end) mol.
Lemma elements_of_spec mol : elemsE (elements_of mol) mol.
Proof.
  intros k el H. unfold node_get in H. destruct (gfind k mol) as [n|] eqn:E; [|discriminate H].
  apply gfind_in_graph in E. unfold elements_of. apply in_flat_map. exists n. split; [exact E|]. rewrite H. now left.
Qed.

(** the naming theorem for every returned all-atom step; what is left as hypothesis is about the INPUT (distinct coarse keys)
    and the alphabet (an element symbol contains no digit) *)
Theorem step_names_unique_any legacy fd prev car fo :
  resolve_step_full legacy true fd prev car = Ok fo -> NoDup (node_keys prev) ->
  (forall k el, node_get (fo_m6 fo) k (S "element") = Some (VStr el) -> digit_free el) ->
  forall k g, In (k, g) (fo_fgs fo) -> NoDup (map (name_in (fo_mol fo)) (node_keys g)).
Proof.
  intros H Hp Hel. 
  assert (NoDup (node_keys (fo_m6 fo)) /\ node_keys (fo_meta fo) = node_keys prev) as [Hn Hm].
  { revert H. unfold resolve_step_full.
    destruct (resolve_disconnected fd _) as [[m1 fg1]|]; cbn [bind]; [|discriminate].
    destruct (bonding_step legacy true _ m1 fg1) as [[m2 fg2]|]; cbn [bind]; [|discriminate].
    destruct (Squash.squash_atoms m2) as [m3|]; cbn [bind]; [|discriminate].
    destruct (Hydrogens.rebuild_h_atoms_default m3 car) as [m4|]; cbn [bind]; [|discriminate].
    destruct (sort_nodes_by_attr m4) as [m5|] eqn:E5; cbn [bind]; [|discriminate].
    destruct (EzImpl.annotate_ez_isomers_cgsmiles m5) as [m6|] eqn:E6; cbn [bind]; [|discriminate].
    destruct (annotate_fragments _ m6) as [f6|]; cbn [bind]; [|discriminate].
    destruct (set_atom_names m6 _ f6) as [[m7 f7]|]; cbn [bind]; [|discriminate].
    intros H. apply ok_inj2 in H. subst fo. cbn [fo_m6 fo_meta]. split; [|apply keys_set_nodes_from].
    rewrite (proj2 (EzProofs.chiral_stays_annotate m5 m6 0 E6)). exact (sort_nodup _ _ E5). }
  rewrite <- Hm in Hp.
  assert (Forall digit_free (elements_of (fo_m6 fo))) as HE.
  { apply Forall_forall. intros el Hin. unfold elements_of in Hin. apply in_flat_map in Hin as [n [Hn' Hin]].
    destruct (aget (S "element") (na n)) as [[]|] eqn:Ea; try contradiction. destruct Hin as [<-|[]].
    apply (Hel (nk n)). unfold node_get. now rewrite (gfind_in _ Hn n Hn'). }
  intros k g Hg. destruct (aa_tail _ _ _ _ _ H) as [fgs0 [Ea Es]].
  destruct (annotate_groups_any _ _ _ Ea Hn Hp) as [Hnd Hsh].
  pose proof (names_unique_per_coarse_node _ (label_inj_list _ HE) _ _ _ _ _ Es Hnd (elements_of_spec _) Hsh) as U.
  pose proof (set_atom_names_keys _ _ _ _ _ Es) as Hk. pose proof (frag_keys _ _ _ Ea) as Hfk.
  assert (In (k, node_keys g) (fg_keys fgs0)) as Hin.
  { rewrite <- Hk. unfold fg_keys. apply in_map_iff. exists (k, g). auto. }
  unfold fg_keys in Hin. apply in_map_iff in Hin as [[k0 g0] [Eq Hg0]]. cbn [fst snd] in Eq. injection Eq as -> Eq2. rewrite <- Eq2.
  destruct (node_keys g0) as [|x r] eqn:En; [constructor|]. rewrite <- En.
  apply (U (k, node_keys g0)). unfold fraglist_of. apply in_flat_map.
  assert (In k (node_keys (fo_meta fo))) as Hkm by (rewrite <- Hfk; apply in_map_iff; exists (k, g0); auto).
  unfold node_keys in Hkm. apply in_map_iff in Hkm as [mn [Ek Hmn]]. exists mn. split; [exact Hmn|].
  rewrite Ek, (fg_get_of_in k g0 fgs0); [|rewrite Hfk; exact Hp|exact Hg0].
  destruct g0 as [|y t]; [discriminate En|now left].
Qed.
