(** DriversCheck: executable correspondence and oracle for the driver state machine (C06). No proofs. *)
From Coq Require Import String.
From Coq Require Import List Ascii ZArith Bool.
From CGV Require Import Base.PyBase Resolve.Drivers.
Import ListNotations.

Inductive call := CResolve | CIter | CAll.
(** predicted observable of a history of calls on one resolver object: per call the list of
    (dictionary index, all-atom flag) its resolve() invocations used, [None] = IndexError/ValueError *)
Fixpoint run_history (calls : list call) (c len : nat) (laa : bool) : list (list (option (nat * bool))) :=
  match calls with
  | [] => []
  | k :: r =>
      let n := match k with CResolve => 1 | _ => len end in
      let u := uses_n n c len laa in
      let u := match k, len with CAll, O => [None] | _, _ => u end in   (* `*_, x = ()` raises ValueError *)
      let done := length (filter (fun o => match o with Some _ => true | None => false end) u) in
      u :: run_history r (c + done) len laa
  end.

Definition ou_eqb (a b : option (nat * bool)) : bool :=
  match a, b with
  | None, None => true
  | Some (i, f), Some (j, g) => Nat.eqb i j && Bool.eqb f g
  | _, _ => false
  end.
Fixpoint ous_eqb (a b : list (option (nat * bool))) : bool :=
  match a, b with [], [] => true | x :: a', y :: b' => ou_eqb x y && ous_eqb a' b' | _, _ => false end.
Fixpoint hist_eqb (a b : list (list (option (nat * bool)))) : bool :=
  match a, b with [], [] => true | x :: a', y :: b' => ous_eqb x y && hist_eqb a' b' | _, _ => false end.

Record case := { c_len : nat; c_laa : bool; c_calls : list call; c_obs : list (list (option (nat * bool))) }.
Definition corr_ok (c : case) : bool := hist_eqb (run_history (c_calls c) 0 (c_len c) (c_laa c)) (c_obs c).

(** property clause on what the IMPLEMENTATION did: from a fresh resolver, n manual resolve()
    calls, one resolve_iter and one resolve_all each use dictionary i at step i, with the
    all-atom flag raised exactly at the last level when requested.  The three histories of one
    case are given as [fresh_manual], [fresh_iter], [fresh_all]. *)
Record fresh3 := { f_len : nat; f_laa : bool; f_manual : list (list (option (nat * bool)));
                   f_iter : list (option (nat * bool)); f_all : list (option (nat * bool)) }.
Definition expected_uses (len : nat) (laa : bool) : list (option (nat * bool)) :=
  map (fun i => Some (i, Nat.eqb (Datatypes.S i) len && laa)) (seq 0 len).
Definition prop_fail3 (f : fresh3) : nat :=
  if negb (ous_eqb (concat (f_manual f)) (expected_uses (f_len f) (f_laa f))) then 1%nat
  else if negb (ous_eqb (f_iter f) (expected_uses (f_len f) (f_laa f))) then 2%nat
  else if negb (ous_eqb (f_all f) (expected_uses (f_len f) (f_laa f))) then 3%nat
  else 0%nat.

Record c06case := { k_hist : case; k_fresh : fresh3 }.
Definition c06_corr (c : c06case) : bool := corr_ok (k_hist c).
Definition c06_fail (c : c06case) : nat := prop_fail3 (k_fresh c).
