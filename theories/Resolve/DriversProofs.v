(** DriversProofs: the three ways of driving the resolver agree (C06), for EVERY resolution step. *)
From Coq Require Import String.
From Coq Require Import List Ascii ZArith Bool Lia.
From CGV Require Import Base.PyBase Resolve.Drivers.
Import ListNotations.

Section Proofs.
  Variables (level mol : Type).
  Variable step : level -> bool -> mol -> res (mol * mol).
  Notation rstate := (rstate level mol).
  Notation resolve := (resolve level mol step).
  Notation resolve_n := (resolve_n level mol step).
  Notation resolve_iter := (resolve_iter level mol step).
  Notation resolve_all := (resolve_all level mol step).

  Lemma resolve_ok st st' out : resolve st = Ok (st', out) ->
    exists d, nth_error (dicts st) (counter st) = Some d /\
      step d (Nat.eqb (Datatypes.S (counter st)) (length (dicts st)) && last_all_atom st) (molecule st) = Ok out /\
      molecule st' = snd out /\ counter st' = Datatypes.S (counter st) /\ dicts st' = dicts st /\
      last_all_atom st' = last_all_atom st.
  Proof.
    unfold Drivers.resolve. destruct (nth_error (dicts st) (counter st)) as [d|]; [|discriminate].
    cbn [uses snd]. destruct (step d _ (molecule st)) as [[meta fine]|e] eqn:E; cbn [bind]; [|discriminate].
    intros [= <- <-]. exists d. cbn. repeat split; assumption.
  Qed.

  (** splitting a run of calls *)
  Lemma resolve_n_app a b st :
    resolve_n (a + b) st =
    match resolve_n a st with
    | Ok (st1, o1) => match resolve_n b st1 with Ok (st2, o2) => Ok (st2, o1 ++ o2) | Err e => Err e end
    | Err e => Err e
    end.
  Proof.
    revert st. induction a as [|a IH]; intros st; cbn [plus Drivers.resolve_n].
    - destruct (resolve_n b st) as [[st2 o2]|e]; reflexivity.
    - destruct (resolve st) as [[st1 out]|e]; cbn [bind]; [|reflexivity].
      rewrite IH. destruct (resolve_n a st1) as [[st1' o1]|e]; cbn [bind]; [|reflexivity].
      destruct (resolve_n b st1') as [[st2 o2]|e]; reflexivity.
  Qed.

  Lemma resolve_n_facts n : forall st st' outs, resolve_n n st = Ok (st', outs) ->
    length outs = n /\ counter st' = counter st + n /\ dicts st' = dicts st /\
    last_all_atom st' = last_all_atom st /\ (n = 0 \/ counter st + n <= length (dicts st)).
  Proof.
    induction n as [|k IH]; intros st st' outs; cbn [Drivers.resolve_n].
    - intros [= <- <-]. split; [reflexivity|]. split; [lia|]. split; [reflexivity|]. split; [reflexivity|now left].
    - destruct (resolve st) as [[st1 out]|e] eqn:R; cbn [bind]; [|discriminate].
      destruct (resolve_n k st1) as [[st2 os]|e] eqn:Rn; cbn [bind]; [|discriminate].
      intros [= <- <-]. destruct (resolve_ok _ _ _ R) as [d [Hd [_ [_ [Hc [Hds Hl]]]]]].
      destruct (IH _ _ _ Rn) as [L [C [D [A B]]]]. rewrite Hc, Hds in *.
      assert (counter st < length (dicts st)) by (apply nth_error_Some; congruence).
      cbn [length]. split; [lia|]. split; [lia|]. split; [congruence|]. split; [congruence|]. right. destruct B; lia.
  Qed.

  (** 1. manual stepping k times gives the first k results of iterating *)
  Theorem manual_is_prefix_of_iter : forall m ds laa k st outs,
    k <= length ds ->
    resolve_iter (fresh level mol m ds laa) = Ok (st, outs) ->
    exists stk, resolve_n k (fresh level mol m ds laa) = Ok (stk, firstn k outs).
  Proof.
    intros m ds laa k st outs Hk. unfold Drivers.resolve_iter. cbn [dicts fresh].
    replace (length ds) with (k + (length ds - k)) by lia. rewrite resolve_n_app.
    destruct (resolve_n k (fresh level mol m ds laa)) as [[st1 o1]|e] eqn:R1; [|discriminate].
    destruct (resolve_n (length ds - k) st1) as [[st2 o2]|e]; [|discriminate].
    intros [= <- <-]. exists st1. f_equal. f_equal.
    destruct (resolve_n_facts _ _ _ _ R1) as [L _]. rewrite <- L, firstn_app, firstn_all, Nat.sub_diag. cbn.
    now rewrite app_nil_r.
  Qed.

  (** 2. asking for the last level directly returns the last result of iterating, same final state *)
  Theorem all_is_last_of_iter : forall m ds laa st outs,
    resolve_iter (fresh level mol m ds laa) = Ok (st, outs) -> ds <> [] ->
    exists last, resolve_all (fresh level mol m ds laa) = Ok (st, last) /\ nth_error outs (length ds - 1) = Some last.
  Proof.
    intros m ds laa st outs R N. unfold Drivers.resolve_all. rewrite R. cbn [bind].
    unfold Drivers.resolve_iter in R. cbn [dicts fresh] in R. destruct (resolve_n_facts _ _ _ _ R) as [L _].
    destruct (rev outs) as [|l r] eqn:E.
    - apply (f_equal (@length _)) in E. rewrite rev_length, L in E. destruct ds; [congruence|discriminate].
    - exists l. split; [reflexivity|].
      assert (outs = rev r ++ [l]) by (rewrite <- (rev_involutive outs), E; reflexivity). subst outs.
      rewrite app_length in L. cbn in L. rewrite nth_error_app2 by (rewrite rev_length in *; lia).
      replace (length ds - 1 - length (rev r)) with 0 by lia. reflexivity.
  Qed.

  (** 3. each step's coarse input is the previous step's fine graph; dictionary i is used at step i;
      the all-atom flag is raised at the last level only, and only if requested *)
  Theorem chain : forall n st st' outs, resolve_n n st = Ok (st', outs) ->
    forall i out, nth_error outs i = Some out ->
    exists d, nth_error (dicts st) (counter st + i) = Some d /\
      step d (Nat.eqb (Datatypes.S (counter st + i)) (length (dicts st)) && last_all_atom st)
           (match i with 0 => molecule st | Datatypes.S j => match nth_error outs j with Some o => snd o | None => molecule st end end)
      = Ok out.
  Proof.
    induction n as [|k IH]; intros st st' outs; cbn [Drivers.resolve_n].
    - intros [= <- <-] i out H. destruct i; discriminate.
    - destruct (resolve st) as [[st1 o]|e] eqn:R; cbn [bind]; [|discriminate].
      destruct (resolve_n k st1) as [[st2 os]|e] eqn:Rn; cbn [bind]; [|discriminate].
      intros [= <- <-] i out H. destruct (resolve_ok _ _ _ R) as [d [Hd [Hs [Hm [Hc [Hds Hl]]]]]].
      destruct i as [|i]; cbn [nth_error] in H.
      + injection H as <-. exists d. rewrite Nat.add_0_r. split; assumption.
      + destruct (IH _ _ _ Rn i out H) as [d' [Hd' Hs']]. rewrite Hc, Hds, Hl in *.
        exists d'. replace (counter st + Datatypes.S i) with (Datatypes.S (counter st) + i) by lia. split; [assumption|].
        rewrite <- Hs'. f_equal. destruct i as [|j]; cbn [nth_error]; [now symmetry|].
        destruct (nth_error os j) eqn:Ej; [reflexivity|]. exfalso.
        apply nth_error_None in Ej. assert (Datatypes.S j < length os) by (apply nth_error_Some; congruence). lia.
  Qed.

  (** 4. stepping past the last level raises IndexError and changes nothing *)
  Theorem past_end : forall st, length (dicts st) <= counter st -> resolve st = Err EIndex.
  Proof.
    intros st H. unfold Drivers.resolve. destruct (nth_error (dicts st) (counter st)) eqn:E; [|reflexivity].
    assert (counter st < length (dicts st)) by (apply nth_error_Some; congruence). lia.
  Qed.

  (** the use sequence compared with the implementation is the one the model executes *)
  Theorem uses_n_spec : forall n st st' outs, resolve_n n st = Ok (st', outs) ->
    uses_n n (counter st) (length (dicts st)) (last_all_atom st)
    = map (fun i => Some (counter st + i, Nat.eqb (Datatypes.S (counter st + i)) (length (dicts st)) && last_all_atom st)) (seq 0 n).
  Proof.
    induction n as [|k IH]; intros st st' outs; cbn [Drivers.resolve_n uses_n seq map]; [reflexivity|].
    destruct (resolve st) as [[st1 o]|e] eqn:R; cbn [bind]; [|discriminate].
    destruct (resolve_n k st1) as [[st2 os]|e] eqn:Rn; cbn [bind]; [|discriminate].
    intros _. destruct (resolve_ok _ _ _ R) as [d [Hd [_ [_ [Hc [Hds Hl]]]]]].
    assert (Hlt : counter st < length (dicts st)) by (apply nth_error_Some; congruence).
    apply Nat.ltb_lt in Hlt. rewrite Hlt, Nat.add_0_r. f_equal.
    specialize (IH _ _ _ Rn). rewrite Hc, Hds, Hl in IH. rewrite IH, <- seq_shift, map_map.
    apply map_ext. intros i. now rewrite Nat.add_succ_r.
  Qed.
End Proofs.
