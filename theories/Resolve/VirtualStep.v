(** VirtualStep: C11 at the level of a WHOLE resolution step (end-to-end model, any level): if the coarse graph the stages of a
    step see contains a fragment-less node V all of whose edges have the integer order 0, the step returns exactly when the step
    on the coarse graph with V removed (nx remove_node) returns, and then with the same fine graph and the same graph for every
    other coarse node; V's own graph is empty. *)
From Coq Require Import String.
From Coq Require Import List Ascii ZArith Bool Lia Sorting.Permutation.
From CGV Require Import Base.PyBase Base.PyVal Base.NxGraph Resolve.Bonding Resolve.GraphOps Resolve.Pipeline Resolve.PipelineFull
     Resolve.MapProofs Resolve.VirtualProofs Resolve.CopyProofs Resolve.FragidProofs.
From CGV Require Hydro.Hydrogens Hydro.Squash Stereo.EzImpl Resolve.SortGraphProofs.
Import ListNotations.
Open Scope Z_scope.

Definition keep (kv : Z) (n : nrec) : bool := negb (Z.eqb (nk n) kv).
Definition adjdel (kv : Z) (n : nrec) : nrec := {| nk := nk n; na := na n; nadj := adj_del kv (nadj n) |}.
Lemma remove_node_eq g kv : remove_node g kv = map (adjdel kv) (filter (keep kv) g).
Proof. reflexivity. Qed.

(** ---------------------------------------------------------------- G.edges after remove_node *)
Definition touches (kv : Z) (e : Z * Z * attrs) : bool := Z.eqb (fst (fst e)) kv || Z.eqb (snd (fst e)) kv.
Lemma edges_from_remove kv : forall r seen seen', (forall w, w <> kv -> (In w seen <-> In w seen')) ->
  edges_from (map (adjdel kv) (filter (keep kv) r)) seen' = filter (fun e => negb (touches kv e)) (edges_from r seen).
Proof.
  induction r as [|n r IH]; intros seen seen' Hs; [reflexivity|]. cbn [filter edges_from]. unfold keep at 1.
  assert (forall l, flat_map (fun wa : Z * attrs => if existsb (Z.eqb (fst wa)) seen' then [] else [(nk n, fst wa, snd wa)]) (adj_del kv l)
                    = filter (fun e => negb (Z.eqb (snd (fst e)) kv))
                        (flat_map (fun wa : Z * attrs => if existsb (Z.eqb (fst wa)) seen then [] else [(nk n, fst wa, snd wa)]) l)) as Hemit.
  { unfold adj_del. induction l as [|[w d] l IHl]; [reflexivity|]. cbn [filter flat_map fst snd].
    destruct (Z.eqb_spec w kv) as [->|Nw]; cbn [negb].
    - rewrite filter_app, <- IHl. destruct (existsb (Z.eqb kv) seen); cbn; [reflexivity|]. now rewrite Z.eqb_refl.
    - cbn [flat_map fst snd]. rewrite filter_app, <- IHl.
      assert (existsb (Z.eqb w) seen' = existsb (Z.eqb w) seen) as ->.
      { destruct (existsb (Z.eqb w) seen) eqn:E1; destruct (existsb (Z.eqb w) seen') eqn:E2; try reflexivity.
        - apply existsb_exists in E1 as [x [Hx Ex]]. apply Z.eqb_eq in Ex. subst x. apply (Hs w Nw) in Hx.
          assert (existsb (Z.eqb w) seen' = true) as T by (apply existsb_exists; exists w; split; [exact Hx|apply Z.eqb_refl]). congruence.
        - apply existsb_exists in E2 as [x [Hx Ex]]. apply Z.eqb_eq in Ex. subst x. apply (Hs w Nw) in Hx.
          assert (existsb (Z.eqb w) seen = true) as T by (apply existsb_exists; exists w; split; [exact Hx|apply Z.eqb_refl]). congruence. }
      destruct (existsb (Z.eqb w) seen); cbn; [reflexivity|]. destruct (Z.eqb_spec w kv); [contradiction|reflexivity]. }
  destruct (Z.eqb_spec (nk n) kv) as [E|N]; cbn [negb].
  - (* the node itself: everything it reports touches kv *)
    rewrite filter_app. rewrite (IH (nk n :: seen) seen').
    + assert (filter (fun e => negb (touches kv e)) (flat_map (fun wa : Z * attrs => if existsb (Z.eqb (fst wa)) seen then [] else [(nk n, fst wa, snd wa)]) (nadj n)) = []) as ->; [|reflexivity].
      induction (nadj n) as [|[w d] l IHl]; [reflexivity|]. cbn [flat_map fst snd]. rewrite filter_app, IHl, app_nil_r.
      destruct (existsb (Z.eqb w) seen); [reflexivity|]. cbn. unfold touches. cbn. rewrite E, Z.eqb_refl. reflexivity.
    + intros w Nw. rewrite <- (Hs w Nw). cbn. split; [intros [X|X]; [congruence|exact X]|auto].
  - cbn [map edges_from adjdel nk nadj]. rewrite filter_app, Hemit. f_equal.
    + apply filter_ext_in. intros [[u v] d] Hin. unfold touches. cbn [fst snd].
      apply in_flat_map in Hin as [[w d'] [_ Hx]]. cbn [fst snd] in Hx. destruct (existsb (Z.eqb w) seen); [contradiction|]. destruct Hx as [Hx|[]].
      injection Hx as <- <- <-. destruct (Z.eqb_spec (nk n) kv); [contradiction|reflexivity].
    + apply IH. intros w Nw. cbn. rewrite (Hs w Nw). tauto.
Qed.
Theorem edges_data_remove g kv : edges_data (remove_node g kv) = filter (fun e => negb (touches kv e)) (edges_data g).
Proof. unfold edges_data. rewrite remove_node_eq. apply edges_from_remove. tauto. Qed.

(** ---------------------------------------------------------------- the virtual node *)
Definition int_zero (d : attrs) : Prop := aget (S "order") d = Some (VInt 0).
(** V (key kv) has no fragment, all its edges carry the integer order 0 - seen from V and from its neighbours *)
Record vnode (fd : fragdict) (kv : Z) (g : graph) : Prop := {
  vn_virtual : forall n, In n g -> nk n = kv ->
     (exists fv, aget (S "fragname") (na n) = Some fv /\ lookup_fragment fd fv = None) /\ Forall (fun wa => int_zero (snd wa)) (nadj n);
  vn_in : forall n d, In n g -> In (kv, d) (nadj n) -> int_zero d }.

Lemma orders_adjdel kv l : (forall d, In (kv, d) l -> int_zero d) ->
  let f := fun wa : Z * attrs => of_option (aget (S "order") (snd wa)) EKey in
  match GraphOps.map_res f l with
  | Ok os => exists os', GraphOps.map_res f (adj_del kv l) = Ok os' /\ forallb order_is_zero os' = forallb order_is_zero os
  | Err e => GraphOps.map_res f (adj_del kv l) = Err e
  end.
Proof.
  intros H f. induction l as [|[w d] r IH]; [cbn; exists []; auto|].
  assert (forall d0, In (kv, d0) r -> int_zero d0) as Hr by (intros d0 Hd; apply H; now right). specialize (IH Hr).
  unfold adj_del in *. cbn [filter fst GraphOps.map_res]. destruct (Z.eqb_spec w kv) as [->|N]; cbn [negb].
  - assert (f (kv, d) = Ok (VInt 0)) as -> by (unfold f; cbn [snd]; rewrite (H d (or_introl eq_refl)); reflexivity). cbn [bind].
    destruct (GraphOps.map_res f r) as [os|e]; cbn [bind]; [|exact IH]. destruct IH as [os' [E1 E2]]. exists os'. split; [exact E1|]. cbn. exact E2.
  - cbn [GraphOps.map_res]. destruct (f (w, d)) as [o|e]; cbn [bind]; [|reflexivity].
    destruct (GraphOps.map_res f r) as [os|e]; cbn [bind].
    + destruct IH as [os' [E1 E2]]. rewrite E1. cbn [bind]. exists (o :: os'). split; [reflexivity|]. cbn. now rewrite E2.
    + rewrite IH. reflexivity.
Qed.
Lemma virtual_ok_adjdel kv n : (forall d, In (kv, d) (nadj n) -> int_zero d) -> virtual_ok (adjdel kv n) = virtual_ok n.
Proof.
  intros H. unfold virtual_ok. cbn [adjdel nadj]. pose proof (orders_adjdel kv (nadj n) H) as O. cbn zeta in O.
  destruct (GraphOps.map_res _ (nadj n)) as [os|e]; [destruct O as [os' [-> E]]; cbn [bind]; now rewrite E|rewrite O; reflexivity].
Qed.
Lemma disc_step_adjdel fd kv st n : (forall d, In (kv, d) (nadj n) -> int_zero d) -> disc_step fd st (adjdel kv n) = disc_step fd st n.
Proof.
  intros H. unfold disc_step. destruct st as [mol fgs]. cbn [adjdel na nk].
  destruct (aget (S "fragname") (na n)) as [fv|]; cbn [of_option bind]; [|reflexivity].
  destruct (lookup_fragment fd fv) as [[name frag]|]; [reflexivity|]. now rewrite (virtual_ok_adjdel kv n H).
Qed.
Lemma int_zero_order wa : int_zero (snd wa) -> zero_order wa.
Proof. intros H. exists (VInt 0). split; [exact H|reflexivity]. Qed.

Theorem disconnected_remove fd kv g : vnode fd kv g -> resolve_disconnected fd (remove_node g kv) = resolve_disconnected fd g.
Proof.
  intros V. unfold resolve_disconnected. rewrite remove_node_eq. generalize (@gempty, @nil (Z * graph)).
  assert (forall l, (forall n, In n l -> In n g) -> forall st, GraphOps.fold_res (disc_step fd) (map (adjdel kv) (filter (keep kv) l)) st
            = GraphOps.fold_res (disc_step fd) l st) as Hl; [|apply Hl; auto].
  induction l as [|n r IH]; intros Hin st; [reflexivity|]. cbn [filter]. unfold keep at 1.
  assert (In n g) as Hn by (apply Hin; now left). assert (forall x, In x r -> In x g) as Hr by (intros x Hx; apply Hin; now right).
  destruct (Z.eqb_spec (nk n) kv) as [E|N]; cbn [negb].
  - destruct (vn_virtual _ _ _ V n Hn E) as [[fv [Hf Hlk]] Hz]. cbn [GraphOps.fold_res].
    rewrite (skip_virtual fd st n fv Hf Hlk); [cbn [bind]; now apply IH|].
    eapply Forall_impl; [|exact Hz]. intros wa. apply int_zero_order.
  - cbn [map GraphOps.fold_res]. rewrite disc_step_adjdel by (intros d Hd; exact (vn_in _ _ _ V n d Hn Hd)).
    destruct (disc_step fd st n); cbn [bind]; [now apply IH|reflexivity].
Qed.

(** ---------------------------------------------------------------- the bonding step *)
Lemma map_res_filter_zero {A B} (h : A -> res B) (p : A -> bool) (q : B -> bool) : forall l,
  (forall x, In x l -> p x = false -> exists y, h x = Ok y /\ q y = false) -> (forall x y, In x l -> h x = Ok y -> q y = p x) ->
  GraphOps.map_res h (filter p l) = (ys <- GraphOps.map_res h l ;; Ok (filter q ys)).
Proof.
  induction l as [|x r IH]; intros Hz Hq; [reflexivity|]. cbn [filter GraphOps.map_res].
  assert (GraphOps.map_res h (filter p r) = (ys <- GraphOps.map_res h r ;; Ok (filter q ys))) as IHr
    by (apply IH; [intros y Hy; apply Hz; now right|intros y w Hy; apply Hq; now right]).
  destruct (p x) eqn:Ep.
  - cbn [GraphOps.map_res]. destruct (h x) as [y|e] eqn:Eh; cbn [bind]; [|reflexivity]. rewrite IHr.
    destruct (GraphOps.map_res h r); cbn [bind filter]; [|reflexivity]. now rewrite (Hq x y (or_introl eq_refl) Eh), Ep.
  - destruct (Hz x (or_introl eq_refl) Ep) as [y [Ey Qy]]. rewrite Ey. cbn [bind]. rewrite IHr.
    destruct (GraphOps.map_res h r); cbn [bind filter]; [|reflexivity]. now rewrite Qy.
Qed.
Lemma bonding_filter legacy arom (p : Z * Z * Z -> bool) : forall edges, (forall e, In e edges -> p e = false -> snd e = 0) ->
  forall s acc, edges_from_bonding legacy arom (filter p edges) s acc = edges_from_bonding legacy arom edges s acc.
Proof.
  induction edges as [|[[a b] o] r IH]; intros H s acc; [reflexivity|]. cbn [filter].
  assert (forall e, In e r -> p e = false -> snd e = 0) as Hr by (intros e He; apply H; now right).
  destruct (p (a, b, o)) eqn:Ep; cbn [edges_from_bonding].
  - destruct (edge_loop legacy arom (Z.to_nat o) a b s acc) as [[s' acc']|]; cbn [bind]; [now apply IH|reflexivity].
  - pose proof (H _ (or_introl eq_refl) Ep) as Ho. cbn in Ho. subst o. cbn [Z.to_nat edge_loop bind]. now apply IH.
Qed.
Lemma touching_edges_zero fd kv g : NoDup (node_keys g) -> vnode fd kv g ->
  forall e, In e (edges_data g) -> touches kv e = true -> int_zero (snd e).
Proof.
  intros Hn V [[u v] d] Hin Ht. unfold edges_data in Hin.
  destruct (SortGraphProofs.edges_from_iff g [] u v d) as [Hf _]. destruct (Hf Hin) as (pre & n & post & Eg & Eu & Ha & _ & _).
  assert (In n g) as Hng by (rewrite Eg; apply in_or_app; right; now left).
  unfold touches in Ht. cbn [fst snd] in *. apply orb_true_iff in Ht as [Ht|Ht]; apply Z.eqb_eq in Ht.
  - rewrite <- Eu in Ht. destruct (vn_virtual _ _ _ V n Hng Ht) as [_ Hz]. rewrite Forall_forall in Hz. exact (Hz (v, d) Ha).
  - rewrite Ht in Ha. exact (vn_in _ _ _ V n d Hng Ha).
Qed.
Definition touches3 (kv : Z) (e : Z * Z * Z) : bool := Z.eqb (fst (fst e)) kv || Z.eqb (snd (fst e)) kv.
Theorem bonding_remove legacy aa fd kv g mol fgs : NoDup (node_keys g) -> vnode fd kv g ->
  bonding_step legacy aa (remove_node g kv) mol fgs = bonding_step legacy aa g mol fgs.
Proof.
  intros Hn V. unfold bonding_step, bonds_of.
  set (h := fun e : Z * Z * attrs => o <- of_option (aget (S "order") (snd e)) EKey ;; z <- as_int_strict o ;; Ok (fst (fst e), snd (fst e), z)).
  assert (base_edges (remove_node g kv) = (es <- base_edges g ;; Ok (filter (fun e => negb (touches3 kv e)) es))) as Hb.
  { unfold base_edges. rewrite edges_data_remove. fold h.
    apply (map_res_filter_zero h (fun e => negb (touches kv e)) (fun e => negb (touches3 kv e))).
    - intros e He Hp. apply negb_false_iff in Hp. pose proof (touching_edges_zero fd kv g Hn V e He Hp) as Hz.
      exists (fst (fst e), snd (fst e), 0). split; [unfold h; unfold int_zero in Hz; rewrite Hz; reflexivity|].
      apply negb_false_iff. exact Hp.
    - intros e y He Hy. unfold h in Hy. destruct (aget (S "order") (snd e)); cbn [of_option bind] in Hy; [|discriminate Hy].
      destruct (as_int_strict p); cbn [bind] in Hy; [|discriminate Hy]. apply ok_some in Hy. subst y. reflexivity. }
  rewrite Hb. destruct (base_edges g) as [es|e] eqn:Eb; cbn [bind]; [|reflexivity].
  destruct (tables_of fgs) as [s0|e]; cbn [bind]; [|reflexivity].
  rewrite bonding_filter; [reflexivity|].
  intros e He Hp. apply negb_false_iff in Hp.
  (* a removed base edge stems from an edge touching kv, whose order is the integer 0 *)
  unfold base_edges in Eb. fold h in Eb. destruct (map_res_in _ _ _ _ Eb He) as [e0 [He0 Hh]].
  assert (touches kv e0 = true) as Ht.
  { unfold h in Hh. destruct (aget (S "order") (snd e0)); cbn [of_option bind] in Hh; [|discriminate Hh].
    destruct (as_int_strict p); cbn [bind] in Hh; [|discriminate Hh]. apply ok_some in Hh. subst e. exact Hp. }
  pose proof (touching_edges_zero fd kv g Hn V e0 He0 Ht) as Hz. unfold h, int_zero in *. rewrite Hz in Hh. cbn in Hh. apply ok_some in Hh. now subst e.
Qed.

(** ---------------------------------------------------------------- annotate_fragments and the atom naming *)
Definition notkv (kv : Z) {A} (kg : Z * A) : bool := negb (Z.eqb (fst kg) kv).
Lemma map_res_map_ext {A B} (F : A -> res B) (f : A -> A) l : (forall x, F (f x) = F x) -> GraphOps.map_res F (map f l) = GraphOps.map_res F l.
Proof. intros H. induction l as [|x r IH]; [reflexivity|]. cbn [map GraphOps.map_res]. now rewrite H, IH. Qed.
Lemma map_res_filter_ok {A B} (F : A -> res B) (p : A -> bool) (q : B -> bool) : forall l ys,
  (forall x y, F x = Ok y -> q y = p x) -> GraphOps.map_res F l = Ok ys -> GraphOps.map_res F (filter p l) = Ok (filter q ys).
Proof.
  induction l as [|x r IH]; intros ys Hq H; cbn [GraphOps.map_res] in H; [apply ok_some in H; now subst|].
  destruct (F x) as [y|] eqn:Ex; cbn [bind] in H; [|discriminate H]. destruct (GraphOps.map_res F r) as [ys'|] eqn:Er; cbn [bind] in H; [|discriminate H].
  apply ok_some in H. subst ys. cbn [filter]. rewrite (Hq x y Ex). destruct (p x); cbn [GraphOps.map_res].
  - rewrite Ex. cbn [bind]. now rewrite (IH ys' Hq eq_refl).
  - now apply IH.
Qed.
Theorem annotate_remove kv meta mol fgs : annotate_fragments meta mol = Ok fgs ->
  annotate_fragments (remove_node meta kv) mol = Ok (filter (notkv kv) fgs).
Proof.
  unfold annotate_fragments. destruct (fragid_map mol) as [fm|]; cbn [bind]; [|discriminate]. intros H.
  rewrite remove_node_eq, map_res_map_ext by reflexivity.
  apply (map_res_filter_ok _ (keep kv) (notkv kv)); [|exact H].
  intros x y Hx. destruct (frag_subgraph mol (members_of fm (nk x))); cbn [bind] in Hx; [|discriminate Hx]. apply ok_some in Hx. now subst y.
Qed.

Lemma fg_get_filter kv k (fgs : fgraphs) : k <> kv -> fg_get k (filter (notkv kv) fgs) = fg_get k fgs.
Proof.
  intros N. induction fgs as [|[k' g] r IH]; [reflexivity|]. cbn [filter]. unfold notkv at 1. cbn [fst].
  destruct (Z.eqb_spec k' kv) as [->|N']; cbn [negb fg_get].
  - destruct (Z.eqb_spec k kv); [contradiction|exact IH].
  - destruct (Z.eqb k k'); [reflexivity|exact IH].
Qed.
Lemma fraglist_remove kv meta fgs : (forall g, fg_get kv fgs = Some g -> g = []) ->
  fraglist_of (remove_node meta kv) (filter (notkv kv) fgs) = fraglist_of meta fgs.
Proof.
  intros Hv. unfold fraglist_of. rewrite remove_node_eq. induction meta as [|mn r IH]; [reflexivity|]. cbn [filter]. unfold keep at 1.
  destruct (Z.eqb_spec (nk mn) kv) as [E|N]; cbn [negb].
  - rewrite IH. cbn [flat_map]. rewrite E. destruct (fg_get kv fgs) as [g|] eqn:Eg; [rewrite (Hv g eq_refl)|]; reflexivity.
  - cbn [map flat_map adjdel nk]. rewrite IH, (fg_get_filter kv (nk mn) fgs N). reflexivity.
Qed.

(** the fine graph the atom naming returns does not depend on the coarse 'graph' attributes it also updates *)
Lemma name_node_indep mn used mol f1 named shn idx n m' f1' nd' sn' i' f2 :
  name_node mn used (mol, f1, named, shn, idx) n = Ok (m', f1', nd', sn', i') ->
  exists f2', name_node mn used (mol, f2, named, shn, idx) n = Ok (m', f2', nd', sn', i').
Proof.
  unfold name_node.
  destruct (if zin_l n named then Ok (mol, named, shn, idx) else _) as [[[[m1 n1] s1] i1]|]; cbn [bind]; [|discriminate].
  destruct (node_attrs m1 n) as [a1|]; cbn [bind]; [|discriminate]. destruct (aget (S "atomname") a1) as [nm|]; cbn [of_option bind]; [|discriminate].
  intros H. apply ok_some in H. injection H as <- _ <- <- <-. eexists. reflexivity.
Qed.
Lemma inner_indep mn used : forall nodes mol f1 named shn idx m' f1' nd' sn' i' f2,
  GraphOps.fold_res (name_node mn used) nodes (mol, f1, named, shn, idx) = Ok (m', f1', nd', sn', i') ->
  exists f2', GraphOps.fold_res (name_node mn used) nodes (mol, f2, named, shn, idx) = Ok (m', f2', nd', sn', i').
Proof.
  induction nodes as [|n r IH]; intros mol f1 named shn idx m' f1' nd' sn' i' f2 H; cbn [GraphOps.fold_res] in *.
  - apply ok_some in H. injection H as <- _ <- <- <-. eexists. reflexivity.
  - destruct (name_node mn used (mol, f1, named, shn, idx) n) as [[[[[m1 g1] n1] s1] i1]|] eqn:E; cbn [bind] in H; [|discriminate H].
    destruct (name_node_indep _ _ _ _ _ _ _ _ _ _ _ _ _ f2 E) as [g2 E2]. rewrite E2. cbn [bind]. eapply IH. exact H.
Qed.
Lemma groups_indep : forall groups mol f1 named shn m' f1' nd' sn' f2,
  GraphOps.fold_res name_group2 groups (mol, f1, named, shn) = Ok (m', f1', nd', sn') ->
  exists f2', GraphOps.fold_res name_group2 groups (mol, f2, named, shn) = Ok (m', f2', nd', sn').
Proof.
  induction groups as [|g r IH]; intros mol f1 named shn m' f1' nd' sn' f2 H; cbn [GraphOps.fold_res] in *.
  - apply ok_some in H. injection H as <- _ <- <-. eexists. reflexivity.
  - destruct (name_group2 (mol, f1, named, shn) g) as [[[[m1 g1] n1] s1]|] eqn:E; cbn [bind] in H; [|discriminate H].
    assert (exists g2, name_group2 (mol, f2, named, shn) g = Ok (m1, g2, n1, s1)) as [g2 E2].
    { change (name_group2 (mol, f1, named, shn) g) with
        (used <- used_names mol named (snd g) ;; r <- GraphOps.fold_res (name_node (fst g) used) (snd g) (mol, f1, named, shn, 0) ;; Ok (fst r)) in E.
      change (name_group2 (mol, f2, named, shn) g) with
        (used <- used_names mol named (snd g) ;; r <- GraphOps.fold_res (name_node (fst g) used) (snd g) (mol, f2, named, shn, 0) ;; Ok (fst r)).
      destruct (used_names mol named (snd g)) as [used|]; cbn [bind] in *; [|discriminate E].
      destruct (GraphOps.fold_res (name_node (fst g) used) (snd g) (mol, f1, named, shn, 0)) as [[[[[ma fa] na0] sa] ia]|] eqn:Ef; cbn [bind fst] in E; [|discriminate E].
      apply ok_some in E. injection E as -> -> -> ->.
      destruct (inner_indep _ _ _ _ _ _ _ _ _ _ _ _ _ f2 Ef) as [fb Eb]. rewrite Eb. cbn [bind fst]. eexists. reflexivity. }
    rewrite E2. cbn [bind]. eapply IH. exact H.
Qed.
Lemma names_indep mol meta1 fgs1 meta2 fgs2 m' f1' : fraglist_of meta2 fgs2 = fraglist_of meta1 fgs1 ->
  set_atom_names mol meta1 fgs1 = Ok (m', f1') -> exists f2', set_atom_names mol meta2 fgs2 = Ok (m', f2').
Proof.
  intros Hfl. unfold set_atom_names. rewrite Hfl.
  destruct (GraphOps.fold_res name_group2 (fraglist_of meta1 fgs1) (mol, fgs1, [], [])) as [[[[ma fa] na0] sa]|] eqn:E; cbn [bind]; [|discriminate].
  intros H. apply ok_some in H. cbn [fst snd] in H. injection H as <- <-.
  destruct (groups_indep _ _ _ _ _ _ _ _ _ fgs2 E) as [fb Eb]. rewrite Eb. cbn [bind fst snd]. eexists. reflexivity.
Qed.

(** ---------------------------------------------------------------- the whole step *)
Lemma gna_remove kv g a : get_node_attributes g a = [] -> get_node_attributes (remove_node g kv) a = [].
Proof.
  unfold get_node_attributes. rewrite remove_node_eq. induction g as [|n r IH]; [reflexivity|]. cbn [flat_map filter].
  intros H. apply app_eq_nil in H as [H1 H2]. destruct (keep kv n); [|now apply IH].
  cbn [map flat_map]. change (na (adjdel kv n)) with (na n). change (nk (adjdel kv n)) with (nk n). rewrite H1. now apply IH.
Qed.
Lemma keys_nil_graph (g : graph) : node_keys g = [] -> g = [].
Proof. destruct g; [reflexivity|discriminate]. Qed.
Lemma kv_not_real fd kv g : vnode fd kv g -> ~ In kv (flat_map (real_of fd) g).
Proof.
  intros V H. apply in_flat_map in H as [mn [Hmn Hk]]. unfold real_of in Hk.
  destruct (aget (S "fragname") (na mn)) as [fv|] eqn:Ef; [|contradiction]. destruct (lookup_fragment fd fv) eqn:El; [|contradiction].
  destruct Hk as [Hk|[]]. destruct (vn_virtual _ _ _ V mn Hmn Hk) as [[fv' [Ef' El']] _]. rewrite Ef in Ef'. injection Ef' as <-. congruence.
Qed.

Lemma fg_keys_filter kv (fgs : fgraphs) : fg_keys (filter (notkv kv) fgs) = filter (notkv kv) (fg_keys fgs).
Proof.
  unfold fg_keys, notkv. induction fgs as [|[k g] r IH]; [reflexivity|]. cbn [filter map fst snd].
  destruct (Z.eqb k kv); cbn [negb]; [exact IH|]. cbn [map fst snd]. now rewrite IH.
Qed.

(** ---------------------------------------------------------------- the coarse graph the stages see *)
(** resolve_step_full works on [meta_in prev]: 'fragname' := 'atomname' where a node has one (levels >= 1) *)
Definition meta_in (prev : graph) : graph := set_nodes_from prev (S "fragname") (get_node_attributes prev (S "atomname")).
Definition upd_from (a b : pystr) (n : nrec) : nrec :=
  match aget b (na n) with Some v => {| nk := nk n; na := aset a v (na n); nadj := nadj n |} | None => n end.
Lemma gupdate_app_skip k f pre r : ~ In k (node_keys pre) -> gupdate k f (pre ++ r) = pre ++ gupdate k f r.
Proof.
  induction pre as [|m l IH]; cbn; intros H; [reflexivity|]. destruct (Z.eqb_spec (nk m) k) as [E|N]; [exfalso; apply H; now left|].
  f_equal. apply IH. intros X. apply H. now right.
Qed.
Lemma set_from_closed a b : forall g pre, NoDup (node_keys pre ++ node_keys g) ->
  set_nodes_from (pre ++ g) a (get_node_attributes g b) = pre ++ map (upd_from a b) g.
Proof.
  unfold set_nodes_from, get_node_attributes. induction g as [|n r IH]; intros pre Hn; cbn [flat_map map fold_left]; [reflexivity|].
  assert (NoDup (node_keys (pre ++ [upd_from a b n]) ++ node_keys r)) as Hn2.
  { unfold node_keys in *. rewrite map_app, <- app_assoc. cbn [map app]. replace (nk (upd_from a b n)) with (nk n); [exact Hn|].
    unfold upd_from. destruct (aget b (na n)); reflexivity. }
  specialize (IH (pre ++ [upd_from a b n]) Hn2). rewrite <- !app_assoc in IH. cbn [app] in IH.
  remember (upd_from a b n) as un eqn:Eu. unfold upd_from in Eu.
  rewrite fold_left_app. destruct (aget b (na n)) as [v|] eqn:E; cbn [fold_left fst snd].
  - unfold set_node_attr at 2. rewrite gupdate_app_skip.
    + cbn [gupdate]. rewrite Z.eqb_refl. rewrite <- Eu. exact IH.
    + apply NoDup_remove_2 in Hn. intros X. apply Hn. apply in_or_app. now left.
  - subst un. exact IH.
Qed.
Lemma meta_in_closed prev : NoDup (node_keys prev) -> meta_in prev = map (upd_from (S "fragname") (S "atomname")) prev.
Proof. intros H. exact (set_from_closed (S "fragname") (S "atomname") prev [] H). Qed.
Lemma remove_node_keys_nodup g kv : NoDup (node_keys g) -> NoDup (node_keys (remove_node g kv)).
Proof.
  rewrite remove_node_eq. unfold node_keys. rewrite map_map. cbn [adjdel nk].
  induction g as [|n r IH]; cbn [filter map]; intros H; [constructor|]. inversion H as [|? ? Hx Hr]; subst.
  destruct (keep kv n); cbn [map]; [|now apply IH]. constructor; [|now apply IH].
  intros X. apply Hx. apply in_map_iff in X as [m [Em Hm]]. apply filter_In in Hm as [Hm _]. apply in_map_iff. exists m. auto.
Qed.
Lemma meta_remove prev kv : NoDup (node_keys prev) -> meta_in (remove_node prev kv) = remove_node (meta_in prev) kv.
Proof.
  intros H. rewrite (meta_in_closed _ (remove_node_keys_nodup prev kv H)), (meta_in_closed prev H), !remove_node_eq.
  induction prev as [|n r IH]; [reflexivity|]. inversion H; subst. cbn [map filter].
  replace (keep kv (upd_from (S "fragname") (S "atomname") n)) with (keep kv n) by (unfold keep, upd_from; destruct (aget _ (na n)); reflexivity).
  destruct (keep kv n); cbn [map]; [|now apply IH]. f_equal; [|now apply IH].
  unfold upd_from, adjdel. cbn [na nk nadj]. destruct (aget (S "atomname") (na n)); reflexivity.
Qed.
Lemma set_from_keys a d : forall g, node_keys (set_nodes_from g a d) = node_keys g.
Proof. unfold set_nodes_from. induction d as [|x r IH]; cbn [fold_left]; intros g; [reflexivity|]. now rewrite IH, keys_set. Qed.

(** the step as a function of that coarse graph *)
Definition step_on (legacy aa : bool) (fd : fragdict) (meta : graph) (car : option graph) : res full_out :=
  '(m1, fg1) <- resolve_disconnected fd meta ;;
  '(m2, fg2) <- bonding_step legacy aa meta m1 fg1 ;;
  m3 <- Squash.squash_atoms m2 ;;
  m4 <- (if aa then Hydrogens.rebuild_h_atoms_default m3 car else Ok m3) ;;
  m5 <- sort_nodes_by_attr m4 ;;
  m6 <- (if aa then EzImpl.annotate_ez_isomers_cgsmiles m5 else Ok m5) ;;
  fgs <- annotate_fragments meta m6 ;;
  '(m7, fgs') <- (if aa then set_atom_names m6 meta fgs else Ok (m6, fgs)) ;;
  Ok {| fo_meta := meta; fo_m2 := m2; fo_m3 := m3; fo_m4 := m4; fo_m5 := m5; fo_m6 := m6; fo_mol := m7; fo_fgs := fgs' |}.
Lemma step_on_eq legacy aa fd prev car : resolve_step_full legacy aa fd prev car = step_on legacy aa fd (meta_in prev) car.
Proof. reflexivity. Qed.
Lemma step_on_meta legacy aa fd M car fo : step_on legacy aa fd M car = Ok fo -> fo_meta fo = M.
Proof.
  unfold step_on.
  destruct (resolve_disconnected fd M) as [[m1 fg1]|]; cbn [bind]; [|discriminate].
  destruct (bonding_step legacy aa M m1 fg1) as [[m2 fg2]|]; cbn [bind]; [|discriminate].
  destruct (Squash.squash_atoms m2) as [m3|]; cbn [bind]; [|discriminate].
  destruct (if aa then Hydrogens.rebuild_h_atoms_default m3 car else Ok m3) as [m4|]; cbn [bind]; [|discriminate].
  destruct (sort_nodes_by_attr m4) as [m5|]; cbn [bind]; [|discriminate].
  destruct (if aa then EzImpl.annotate_ez_isomers_cgsmiles m5 else Ok m5) as [m6|]; cbn [bind]; [|discriminate].
  destruct (annotate_fragments M m6) as [f6|]; cbn [bind]; [|discriminate].
  destruct (if aa then set_atom_names m6 M f6 else Ok (m6, f6)) as [[m7 f7]|]; cbn [bind]; [|discriminate].
  intros H. apply ok_some in H. now subst fo.
Qed.

(** with the fragment-less node V (all its edges integer order 0) in the coarse graph M the step returns the same fine graph, and
    the same node set for every other coarse node, as for M without V; V's own graph has no node *)
Lemma core_remove legacy aa fd M car fo' kv : NoDup (node_keys M) -> vnode fd kv M ->
  step_on legacy aa fd M car = Ok fo' -> fid_inv (flat_map (real_of fd) M) (fo_m6 fo') ->
  exists fo, step_on legacy aa fd (remove_node M kv) car = Ok fo /\
    fo_mol fo = fo_mol fo' /\ fo_m2 fo = fo_m2 fo' /\ fo_m5 fo = fo_m5 fo' /\
    fg_keys (fo_fgs fo) = filter (notkv kv) (fg_keys (fo_fgs fo')) /\
    (forall g, In (kv, g) (fo_fgs fo') -> node_keys g = []).
Proof.
  intros Hn V H I6. revert H I6. unfold step_on.
  rewrite (disconnected_remove fd kv M V).
  destruct (resolve_disconnected fd M) as [[m1 fg1]|]; cbn [bind]; [|discriminate].
  rewrite (bonding_remove legacy aa fd kv M m1 fg1 Hn V).
  destruct (bonding_step legacy aa M m1 fg1) as [[m2 fg2]|]; cbn [bind]; [|discriminate].
  destruct (Squash.squash_atoms m2) as [m3|]; cbn [bind]; [|discriminate].
  destruct (if aa then Hydrogens.rebuild_h_atoms_default m3 car else Ok m3) as [m4|]; cbn [bind]; [|discriminate].
  destruct (sort_nodes_by_attr m4) as [m5|]; cbn [bind]; [|discriminate].
  destruct (if aa then EzImpl.annotate_ez_isomers_cgsmiles m5 else Ok m5) as [m6|]; cbn [bind]; [|discriminate].
  destruct (annotate_fragments M m6) as [fgs|] eqn:E7; cbn [bind]; [|discriminate].
  destruct (if aa then set_atom_names m6 M fgs else Ok (m6, fgs)) as [[m7 fgs7]|] eqn:E8; cbn [bind]; [|discriminate].
  intros H I6. apply ok_some in H. subst fo'. cbn [fo_mol fo_m2 fo_m5 fo_m6 fo_fgs fo_meta] in *.
  (* V's graph has no node *)
  assert (forall g, In (kv, g) fgs -> node_keys g = []) as Hempty.
  { intros g Hg. destruct (node_keys g) as [|n r] eqn:En; [reflexivity|]. exfalso. apply (kv_not_real fd kv M V).
    apply (records_good _ m6 n kv I6). apply (frag_exact _ _ _ E7 kv g Hg n). rewrite En. now left. }
  assert (forall g, fg_get kv fgs = Some g -> g = []) as Hget.
  { intros g Hg. apply keys_nil_graph, Hempty. clear -Hg. induction fgs as [|[k h] r IH]; cbn in Hg; [discriminate|].
    destruct (Z.eqb_spec kv k) as [->|N]; [inversion Hg; now left|right; auto]. }
  pose proof (annotate_remove kv _ _ _ E7) as Ea'. pose proof (fraglist_remove kv M fgs Hget) as Hfl.
  rewrite Ea'. cbn [bind].
  destruct aa.
  - destruct (names_indep m6 M fgs (remove_node M kv) (filter (notkv kv) fgs) m7 fgs7 Hfl E8) as [f2' E2]. rewrite E2. cbn [bind].
    eexists. split; [reflexivity|]. cbn [fo_mol fo_m2 fo_m5 fo_fgs]. repeat split.
    + rewrite (set_atom_names_keys _ _ _ _ _ E2), (set_atom_names_keys _ _ _ _ _ E8). apply fg_keys_filter.
    + intros g Hg. assert (In (kv, node_keys g) (fg_keys fgs)) as Hk.
      { rewrite <- (set_atom_names_keys _ _ _ _ _ E8). unfold fg_keys. apply in_map_iff. exists (kv, g). auto. }
      unfold fg_keys in Hk. apply in_map_iff in Hk as [[k0 g0] [Eq Hg0]]. cbn [fst snd] in Eq. injection Eq as -> Eq. rewrite <- Eq. now apply Hempty.
  - apply ok_some in E8. injection E8 as <- <-. eexists. split; [reflexivity|]. cbn [fo_mol fo_m2 fo_m5 fo_fgs]. repeat split.
    + apply fg_keys_filter.
    + exact Hempty.
Qed.

(** the converse: putting the virtual node back *)
Lemma map_res_unfilter {A B} (F : A -> res B) (p : A -> bool) : forall l ys, GraphOps.map_res F (filter p l) = Ok ys ->
  (forall x, In x l -> p x = false -> exists y, F x = Ok y) -> exists zs, GraphOps.map_res F l = Ok zs.
Proof.
  induction l as [|x r IH]; intros ys H Hx; [eexists; reflexivity|]. cbn [filter] in H. cbn [GraphOps.map_res].
  destruct (p x) eqn:Ep.
  - cbn [GraphOps.map_res] in H. destruct (F x) as [y|]; cbn [bind] in *; [|discriminate H].
    destruct (GraphOps.map_res F (filter p r)) as [ys'|] eqn:Er; cbn [bind] in H; [|discriminate H].
    destruct (IH ys' eq_refl) as [zs Ez]; [intros; apply Hx; [now right|assumption]|]. rewrite Ez. cbn [bind]. eexists. reflexivity.
  - destruct (Hx x (or_introl eq_refl) Ep) as [y Ey]. rewrite Ey. cbn [bind].
    destruct (IH ys H) as [zs Ez]; [intros; apply Hx; [now right|assumption]|]. rewrite Ez. cbn [bind]. eexists. reflexivity.
Qed.
Lemma annotate_insert kv meta mol fgsR : annotate_fragments (remove_node meta kv) mol = Ok fgsR -> (forall n, ~ records mol n kv) ->
  exists fgs, annotate_fragments meta mol = Ok fgs.
Proof.
  intros H Hnr. assert (forall fm, fragid_map mol = Ok fm -> members_of fm kv = []) as Hm.
  { intros fm Ef. destruct (members_of fm kv) as [|n r] eqn:E; [reflexivity|]. exfalso. apply (Hnr n).
    assert (In n (members_of fm kv)) as Hin by (rewrite E; now left). apply members_spec in Hin as [l [Hl Hk]].
    unfold fragid_map in Ef. destruct (map_res_in _ _ _ _ Ef Hl) as [[n' v] [Hv Hx]]. cbn [fst snd] in Hx.
    destruct (as_list v) as [l'|] eqn:El; cbn [bind] in Hx; [|discriminate Hx]. apply ok_some in Hx. injection Hx as -> ->.
    exists v, l. auto. }
  revert H. unfold annotate_fragments. destruct (fragid_map mol) as [fm|]; cbn [bind]; [|discriminate]. intros H.
  rewrite remove_node_eq, map_res_map_ext in H by reflexivity.
  apply (map_res_unfilter _ _ _ _ H). intros x _ Hx. unfold keep in Hx. apply negb_false_iff, Z.eqb_eq in Hx. rewrite Hx, (Hm fm eq_refl).
  eexists. reflexivity.
Qed.

Lemma core_insert legacy aa fd M car fo kv : NoDup (node_keys M) -> vnode fd kv M ->
  step_on legacy aa fd (remove_node M kv) car = Ok fo -> fid_inv (flat_map (real_of fd) (remove_node M kv)) (fo_m6 fo) ->
  exists fo', step_on legacy aa fd M car = Ok fo'.
Proof.
  intros Hn V H I6.
  assert (forall n, ~ records (fo_m6 fo) n kv) as Hnr.
  { intros n Hr. pose proof (records_good _ _ n kv I6 Hr) as Hin. apply in_flat_map in Hin as [mn [Hmn Hk]].
    rewrite remove_node_eq in Hmn. apply in_map_iff in Hmn as [m0 [<- Hm0]]. apply filter_In in Hm0 as [_ Hkeep].
    unfold real_of in Hk. change (na (adjdel kv m0)) with (na m0) in Hk. change (nk (adjdel kv m0)) with (nk m0) in Hk.
    destruct (aget (S "fragname") (na m0)); [|contradiction]. destruct (lookup_fragment fd p); [|contradiction].
    destruct Hk as [Hk|[]]. unfold keep in Hkeep. rewrite Hk, Z.eqb_refl in Hkeep. discriminate Hkeep. }
  clear I6. revert H Hnr. unfold step_on.
  rewrite (disconnected_remove fd kv M V).
  destruct (resolve_disconnected fd M) as [[m1 fg1]|]; cbn [bind]; [|discriminate].
  rewrite (bonding_remove legacy aa fd kv M m1 fg1 Hn V).
  destruct (bonding_step legacy aa M m1 fg1) as [[m2 fg2]|]; cbn [bind]; [|discriminate].
  destruct (Squash.squash_atoms m2) as [m3|]; cbn [bind]; [|discriminate].
  destruct (if aa then Hydrogens.rebuild_h_atoms_default m3 car else Ok m3) as [m4|]; cbn [bind]; [|discriminate].
  destruct (sort_nodes_by_attr m4) as [m5|]; cbn [bind]; [|discriminate].
  destruct (if aa then EzImpl.annotate_ez_isomers_cgsmiles m5 else Ok m5) as [m6|]; cbn [bind]; [|discriminate].
  destruct (annotate_fragments (remove_node M kv) m6) as [fgsR|] eqn:E7; cbn [bind]; [|discriminate].
  destruct (if aa then set_atom_names m6 (remove_node M kv) fgsR else Ok (m6, fgsR)) as [[m7 fgs7]|] eqn:E8; cbn [bind]; [|discriminate].
  intros H Hnr. apply ok_some in H. subst fo. cbn [fo_m6] in Hnr.
  destruct (annotate_insert kv M m6 fgsR E7 Hnr) as [fgs Ea]. rewrite Ea. cbn [bind].
  pose proof (annotate_remove kv _ _ _ Ea) as Ea'. rewrite E7 in Ea'. apply ok_some in Ea'. subst fgsR.
  destruct aa; [|eexists; reflexivity].
  assert (forall g, fg_get kv fgs = Some g -> g = []) as Hget.
  { intros g Hg. apply keys_nil_graph. destruct (node_keys g) as [|n r] eqn:En; [reflexivity|]. exfalso. apply (Hnr n).
    apply (frag_exact _ _ _ Ea kv g); [|rewrite En; now left]. clear -Hg. induction fgs as [|[k h] r' IH]; cbn in Hg; [discriminate|].
    destruct (Z.eqb_spec kv k) as [->|N]; [inversion Hg; now left|right; auto]. }
  pose proof (fraglist_remove kv M fgs Hget) as Hfl.
  destruct (names_indep m6 (remove_node M kv) (filter (notkv kv) fgs) M fgs m7 fgs7 (eq_sym Hfl) E8) as [f2' E2]. rewrite E2. cbn [bind].
  eexists. reflexivity.
Qed.

(** ---------------------------------------------------------------- the theorems on resolve_step_full, any level *)
(** C11 for a whole step at ANY level (end-to-end model): if node kv of the coarse graph the stages see names no fragment and all
    its edges carry the integer order 0, the step returns the same fine graph, and the same node set for every other coarse
    node, as for the coarse graph without kv (networkx remove_node); kv's own graph has no node *)
Theorem step_remove_virtual_any legacy aa fd prev car fo' kv : wf_dict fd -> wf_attrs fd -> NoDup (node_keys prev) ->
  vnode fd kv (meta_in prev) ->
  resolve_step_full legacy aa fd prev car = Ok fo' ->
  exists fo, resolve_step_full legacy aa fd (remove_node prev kv) car = Ok fo /\
    fo_mol fo = fo_mol fo' /\ fo_m2 fo = fo_m2 fo' /\ fo_m5 fo = fo_m5 fo' /\
    fg_keys (fo_fgs fo) = filter (notkv kv) (fg_keys (fo_fgs fo')) /\
    (forall g, In (kv, g) (fo_fgs fo') -> node_keys g = []).
Proof.
  intros Hw Hwa Hn V H. destruct (step_tail _ _ _ _ _ _ Hw Hwa H) as [I6 _].
  rewrite step_on_eq in H. rewrite (step_on_meta _ _ _ _ _ _ H) in I6.
  rewrite step_on_eq, (meta_remove prev kv Hn).
  apply core_remove; [unfold meta_in; now rewrite set_from_keys|exact V|exact H|exact I6].
Qed.
Theorem step_insert_virtual_any legacy aa fd prev car fo kv : wf_dict fd -> wf_attrs fd -> NoDup (node_keys prev) ->
  vnode fd kv (meta_in prev) ->
  resolve_step_full legacy aa fd (remove_node prev kv) car = Ok fo ->
  exists fo', resolve_step_full legacy aa fd prev car = Ok fo'.
Proof.
  intros Hw Hwa Hn V H. destruct (step_tail _ _ _ _ _ _ Hw Hwa H) as [I6 _].
  rewrite step_on_eq in H. rewrite (step_on_meta _ _ _ _ _ _ H) in I6. rewrite (meta_remove prev kv Hn) in H, I6.
  rewrite step_on_eq. eapply core_insert; [unfold meta_in; now rewrite set_from_keys|exact V|exact H|exact I6].
Qed.
Theorem step_virtual_iff_any legacy aa fd prev car kv : wf_dict fd -> wf_attrs fd -> NoDup (node_keys prev) ->
  vnode fd kv (meta_in prev) ->
  ((exists fo', resolve_step_full legacy aa fd prev car = Ok fo') <->
   (exists fo, resolve_step_full legacy aa fd (remove_node prev kv) car = Ok fo)).
Proof.
  intros Hw Hwa Hn V. split.
  - intros [fo' H]. destruct (step_remove_virtual_any _ _ _ _ _ _ _ Hw Hwa Hn V H) as [fo [E _]]. eauto.
  - intros [fo H]. eapply step_insert_virtual_any; eassumption.
Qed.

(** ---------------------------------------------------------------- level 0: the coarse graph is the one handed in *)
Lemma meta_in_level0 prev : get_node_attributes prev (S "atomname") = [] -> meta_in prev = prev.
Proof. intros H. unfold meta_in. now rewrite H. Qed.
Theorem step_remove_virtual legacy aa fd prev car fo' kv : wf_dict fd -> wf_attrs fd -> NoDup (node_keys prev) ->
  get_node_attributes prev (S "atomname") = [] -> vnode fd kv prev ->
  resolve_step_full legacy aa fd prev car = Ok fo' ->
  exists fo, resolve_step_full legacy aa fd (remove_node prev kv) car = Ok fo /\
    fo_mol fo = fo_mol fo' /\ fo_m2 fo = fo_m2 fo' /\ fo_m5 fo = fo_m5 fo' /\
    fg_keys (fo_fgs fo) = filter (notkv kv) (fg_keys (fo_fgs fo')) /\
    (forall g, In (kv, g) (fo_fgs fo') -> node_keys g = []).
Proof. intros Hw Hwa Hn Hat V. apply step_remove_virtual_any; try assumption. now rewrite (meta_in_level0 _ Hat). Qed.
Theorem step_insert_virtual legacy aa fd prev car fo kv : wf_dict fd -> wf_attrs fd -> NoDup (node_keys prev) ->
  get_node_attributes prev (S "atomname") = [] -> vnode fd kv prev ->
  resolve_step_full legacy aa fd (remove_node prev kv) car = Ok fo ->
  exists fo', resolve_step_full legacy aa fd prev car = Ok fo'.
Proof. intros Hw Hwa Hn Hat V. apply step_insert_virtual_any; try assumption. now rewrite (meta_in_level0 _ Hat). Qed.
Theorem step_virtual_iff legacy aa fd prev car kv : wf_dict fd -> wf_attrs fd -> NoDup (node_keys prev) ->
  get_node_attributes prev (S "atomname") = [] -> vnode fd kv prev ->
  ((exists fo', resolve_step_full legacy aa fd prev car = Ok fo') <->
   (exists fo, resolve_step_full legacy aa fd (remove_node prev kv) car = Ok fo)).
Proof. intros Hw Hwa Hn Hat V. apply step_virtual_iff_any; try assumption. now rewrite (meta_in_level0 _ Hat). Qed.
