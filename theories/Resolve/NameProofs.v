(** NameProofs: C12 - the repaired set_atom_names_atomistic (/repo 8dbd471; model GraphOps.set_atom_names) gives
    names that are unique within each coarse node, provided the already-named (shared) atoms a coarse node meets
    carry pairwise distinct names.  That proviso fails only when a coarse node shares atoms with two DIFFERENT
    earlier coarse nodes (class shared_from_two_owners, refuted below by a witness). *)
From Coq Require Import String.
From Coq Require Import List Ascii ZArith Bool Lia Sorting.Permutation.
From CGV Require Import Base.PyBase Base.PyVal Base.NxGraph Resolve.GraphOps Resolve.MapProofs Resolve.CopyProofs.
Import ListNotations.
Open Scope Z_scope.

Lemma ok_inj2 {A} (x y : A) : @Ok A x = Ok y -> x = y.
Proof. congruence. Qed.

(** ---------------------------------------------------------------- the pure naming of one coarse node *)
Inductive desc := Old (v : pyval) | New (e : pystr).
Fixpoint assign (used : list pyval) (idx : Z) (ds : list desc) : res (list pyval) :=
  match ds with
  | [] => Ok []
  | Old v :: r => vs <- assign used (idx + 1) r ;; Ok (v :: vs)
  | New e :: r =>
      i <- bump_idx (Datatypes.S (length used)) used e idx ;;
      vs <- assign used (i + 1) r ;;
      Ok (VStr (atom_label e i) :: vs)
  end.
Definition olds (ds : list desc) : list pyval := flat_map (fun d => match d with Old v => [v] | New _ => [] end) ds.
Definition news (ds : list desc) : list pystr := flat_map (fun d => match d with Old _ => [] | New e => [e] end) ds.

Lemma bump_spec fuel used e : forall idx i, bump_idx fuel used e idx = Ok i -> idx <= i /\ name_taken used (atom_label e i) = false.
Proof.
  induction fuel as [|f IH]; cbn; intros idx i H; [discriminate|].
  destruct (name_taken used (atom_label e idx)) eqn:E; [|apply ok_inj2 in H; subst; split; [lia|exact E]].
  destruct (IH _ _ H). split; [lia|assumption].
Qed.
Lemma not_taken used nm : name_taken used nm = false -> ~ In (VStr nm) used.
Proof.
  unfold name_taken. intros H X. assert (existsb (pyval_eqb (VStr nm)) used = true) as T; [|congruence].
  apply existsb_exists. exists (VStr nm). split; [exact X|]. cbn. apply str_eqb_refl.
Qed.

Section Assign.
  (** the labels element ++ str(index) of the elements at hand determine the index *)
  Variable E : list pystr.
  Hypothesis Hinj : forall e e' i j, In e E -> In e' E -> 0 <= i -> 0 <= j -> atom_label e i = atom_label e' j -> i = j.

  Lemma assign_spec used ds : forall idx vs, 0 <= idx -> incl (news ds) E -> incl (olds ds) used -> NoDup (olds ds) ->
    assign used idx ds = Ok vs ->
    NoDup vs /\ length vs = length ds /\
    forall v, In v vs -> In v (olds ds) \/ exists e i, In e E /\ idx <= i /\ v = VStr (atom_label e i) /\ ~ In v used.
  Proof.
    induction ds as [|d r IH]; intros idx vs H0 HE Hu Hn H; cbn [assign] in H.
    - apply ok_inj2 in H. subst. repeat split; [constructor|]. intros v [].
    - destruct d as [v0|e].
      + destruct (assign used (idx + 1) r) as [vs'|] eqn:Er; cbn [bind] in H; [|discriminate]. apply ok_inj2 in H. subst vs.
        cbn in HE, Hu, Hn. inversion Hn as [|? ? Hx Hr]; subst.
        destruct (IH (idx + 1) vs' ltac:(lia) HE (fun x Hx' => Hu x (or_intror Hx')) Hr Er) as [N [L P]].
        repeat split; [constructor; [|exact N]|cbn; now rewrite L|].
        * intros X. destruct (P _ X) as [Hin|(e & i & _ & _ & _ & Hni)]; [contradiction|]. apply Hni. apply Hu. now left.
        * intros v [<-|Hv]; [left; now left|]. destruct (P v Hv) as [?|(e & i & He & Hi & Hv' & Hni)]; [left; now right|].
          right. exists e, i. repeat split; auto. lia.
      + destruct (bump_idx (Datatypes.S (length used)) used e idx) as [i|] eqn:Eb; cbn [bind] in H; [|discriminate].
        destruct (assign used (i + 1) r) as [vs'|] eqn:Er; cbn [bind] in H; [|discriminate]. apply ok_inj2 in H. subst vs.
        destruct (bump_spec _ _ _ _ _ Eb) as [Hle T]. pose proof (not_taken _ _ T) as Hnt.
        cbn in HE, Hu, Hn. assert (In e E) as HeE by (apply HE; now left).
        destruct (IH (i + 1) vs' ltac:(lia) (fun x Hx' => HE x (or_intror Hx')) Hu Hn Er) as [N [L P]].
        repeat split; [constructor; [|exact N]|cbn; now rewrite L|].
        * intros X. destruct (P _ X) as [Hin|(e' & j & He' & Hj & Hv & _)]; [apply Hnt; now apply Hu|].
          inversion Hv as [Hl]. apply (Hinj e e' i j) in Hl; auto; lia.
        * intros v [<-|Hv]; [right; exists e, i; repeat split; auto; lia|].
          destruct (P v Hv) as [?|(e' & j & He' & Hj & Hv' & Hni)]; [now left|]. right. exists e', j. repeat split; auto. lia.
  Qed.
End Assign.

(** ---------------------------------------------------------------- the loop over one coarse node computes [assign] *)
From CGV Require Import Resolve.FragidProofs.

Definition name_in (mol : graph) (n : Z) : option pyval := node_get mol n (S "atomname").
Definition desc_of (mol : graph) (named : list Z) (n : Z) : res desc :=
  a <- node_attrs mol n ;;
  if zin_l n named then v <- of_option (aget (S "atomname") a) EKey ;; Ok (Old v)
  else el <- of_option (aget (S "element") a) EKey ;; e <- as_str el ;; Ok (New e).

Lemma zin_l_In k l : zin_l k l = true <-> In k l.
Proof.
  unfold zin_l. rewrite existsb_exists. split; [intros [x [H E]]; apply Z.eqb_eq in E; now subst|].
  intros H. exists k. split; [exact H|apply Z.eqb_refl].
Qed.
Lemma zin_l_cons k n l : k <> n -> zin_l k (n :: l) = zin_l k l.
Proof. intros N. unfold zin_l. cbn. destruct (Z.eqb_spec k n); [contradiction|reflexivity]. Qed.
Lemma node_get_attrs mol n a : node_attrs mol n = Ok a -> name_in mol n = aget (S "atomname") a.
Proof. unfold node_attrs, name_in, node_get. destruct (gfind n mol); [|discriminate]. intros H. apply ok_inj2 in H. now subst. Qed.
Lemma map_res_ext_in {A B} (f g : A -> res B) l : (forall x, In x l -> f x = g x) -> GraphOps.map_res f l = GraphOps.map_res g l.
Proof.
  induction l as [|x r IH]; intros H; [reflexivity|]. cbn [GraphOps.map_res]. rewrite (H x) by now left.
  rewrite IH; [reflexivity|]. intros y Hy. apply H. now right.
Qed.

Lemma inner_fold mn used : forall nodes mol fgs named idx mol' fgs' named' idx', NoDup nodes ->
  GraphOps.fold_res (name_node mn used) nodes (mol, fgs, named, idx) = Ok (mol', fgs', named', idx') ->
  exists ds vs, GraphOps.map_res (desc_of mol named) nodes = Ok ds /\ assign used idx ds = Ok vs /\
    map (name_in mol') nodes = map Some vs /\
    (forall k, ~ In k nodes -> node_attrs mol' k = node_attrs mol k) /\
    (forall k, In k named' <-> In k named \/ In k nodes).
Proof.
  induction nodes as [|n r IH]; intros mol fgs named idx mol' fgs' named' idx' Hn H.
  - cbn in H. apply ok_inj2 in H. injection H as -> -> -> ->. exists [], []. split; [reflexivity|]. split; [reflexivity|]. split; [reflexivity|]. split; [auto|]. intros k. cbn. tauto.
  - cbn [GraphOps.fold_res] in H. destruct (name_node mn used (mol, fgs, named, idx) n) as [st1|] eqn:E1; cbn [bind] in H; [|discriminate].
    destruct (name_node_inv _ _ _ _ _ _ _ _ E1) as (mol1 & named1 & idx1 & a1 & nm & Hcase & Ha1 & Hnm & ->).
    inversion Hn as [|? ? Hnr Hr]; subst.
    destruct (IH _ _ _ _ _ _ _ _ Hr H) as (ds' & vs' & Hds & Has & Hnames & Hkeep & Hnamed).
    assert (forall m, In m r -> desc_of mol1 named1 m = desc_of mol named m) as Hext.
    { intros m Hm. assert (m <> n) as Nm by (intros ->; contradiction). unfold desc_of.
      destruct Hcase as [(_ & -> & -> & _)|(_ & a & el & e & _ & _ & _ & _ & -> & ->)]; [reflexivity|].
      now rewrite attrs_set_other, zin_l_cons. }
    rewrite (map_res_ext_in _ _ r Hext) in Hds.
    assert (name_in mol' n = Some nm) as Hhead.
    { rewrite (node_get_attrs mol' n a1); [exact Hnm|]. now rewrite (Hkeep n Hnr). }
    destruct Hcase as [(Hz & -> & -> & ->)|(Hz & a & el & e & Ha & Hel & He & Hb & -> & ->)].
    + exists (Old nm :: ds'), (nm :: vs'). repeat split.
      * cbn [GraphOps.map_res]. unfold desc_of at 1. rewrite Ha1, Hz. cbn [bind]. rewrite Hnm. cbn [of_option bind]. now rewrite Hds.
      * cbn [assign]. now rewrite Has.
      * cbn [map]. now rewrite Hhead, Hnames.
      * intros k Hk. apply Hkeep. intros X. apply Hk. now right.
      * intros Hk. apply Hnamed in Hk as [Hk|Hk]; [now left|right; now right].
      * intros [Hk|[<-|Hk]]; apply Hnamed; [now left|left; now apply zin_l_In|now right].
    + assert (nm = VStr (atom_label e idx1)) as ->.
      { rewrite (attrs_set_same mol n _ _ a Ha) in Ha1. apply ok_inj2 in Ha1. subst a1. rewrite aget_aset_same in Hnm. congruence. }
      exists (New e :: ds'), (VStr (atom_label e idx1) :: vs'). repeat split.
      * cbn [GraphOps.map_res]. unfold desc_of at 1. rewrite Ha, Hz. cbn [bind]. rewrite Hel. cbn [of_option bind]. rewrite He. cbn [bind]. now rewrite Hds.
      * cbn [assign]. rewrite Hb. cbn [bind]. now rewrite Has.
      * cbn [map]. now rewrite Hhead, Hnames.
      * intros k Hk. rewrite Hkeep by (intros X; apply Hk; now right). apply attrs_set_other. intros ->. apply Hk. now left.
      * intros Hk. apply Hnamed in Hk as [[<-|Hk]|Hk]; [right; now left|now left|right; now right].
      * intros [Hk|[<-|Hk]]; apply Hnamed; [left; now right|left; now left|now right].
Qed.

(** ---------------------------------------------------------------- one coarse node, then all of them *)
Lemma olds_used mol named : forall nodes ds used, GraphOps.map_res (desc_of mol named) nodes = Ok ds ->
  used_names mol named nodes = Ok used -> olds ds = used.
Proof.
  unfold used_names. induction nodes as [|n r IH]; intros ds used Hd Hu.
  - cbn in Hd, Hu. apply ok_inj2 in Hd, Hu. now subst.
  - cbn [GraphOps.map_res] in Hd. destruct (desc_of mol named n) as [d|] eqn:Ed; cbn [bind] in Hd; [|discriminate Hd].
    destruct (GraphOps.map_res (desc_of mol named) r) as [ds'|] eqn:Er; cbn [bind] in Hd; [|discriminate Hd]. apply ok_inj2 in Hd. subst ds.
    unfold desc_of in Ed. cbn [filter] in Hu. destruct (node_attrs mol n) as [a|] eqn:Ea; cbn [bind] in Ed; [|discriminate Ed].
    destruct (zin_l n named).
    + cbn [GraphOps.map_res] in Hu. rewrite Ea in Hu. cbn [bind] in Hu.
      destruct (aget (S "atomname") a) as [v|]; cbn [of_option bind] in Ed, Hu; [|discriminate Ed]. apply ok_inj2 in Ed. subst d.
      destruct (GraphOps.map_res _ (filter _ r)) as [us|] eqn:Eu; cbn [bind] in Hu; [|discriminate Hu]. apply ok_inj2 in Hu. subst used.
      cbn. f_equal. now apply IH.
    + destruct (aget (S "element") a); cbn [of_option bind] in Ed; [|discriminate Ed]. destruct (as_str p); cbn [bind] in Ed; [|discriminate Ed].
      apply ok_inj2 in Ed. subst d. cbn. now apply IH.
Qed.

Section Unique.
  Variable E : list pystr.
  Hypothesis Hinj : forall e e' i j, In e E -> In e' E -> 0 <= i -> 0 <= j -> atom_label e i = atom_label e' j -> i = j.
  Definition elemsE (mol : graph) : Prop := forall k el, node_get mol k (S "element") = Some (VStr el) -> In el E.

  Lemma news_in_E mol named : elemsE mol -> forall nodes ds, GraphOps.map_res (desc_of mol named) nodes = Ok ds -> incl (news ds) E.
  Proof.
    intros HE. induction nodes as [|n r IH]; intros ds Hd; cbn [GraphOps.map_res] in Hd.
    - apply ok_inj2 in Hd. subst. intros x [].
    - destruct (desc_of mol named n) as [d|] eqn:Ed; cbn [bind] in Hd; [|discriminate Hd].
      destruct (GraphOps.map_res (desc_of mol named) r) as [ds'|] eqn:Er; cbn [bind] in Hd; [|discriminate Hd]. apply ok_inj2 in Hd. subst ds.
      unfold desc_of in Ed. destruct (node_attrs mol n) as [a|] eqn:Ea; cbn [bind] in Ed; [|discriminate Ed].
      destruct (zin_l n named).
      + destruct (aget (S "atomname") a); cbn [of_option bind] in Ed; [|discriminate Ed]. apply ok_inj2 in Ed. subst d. cbn. now apply IH.
      + destruct (aget (S "element") a) as [el|] eqn:Eel; cbn [of_option bind] in Ed; [|discriminate Ed].
        destruct el; cbn in Ed; try discriminate Ed. apply ok_inj2 in Ed. subst d. cbn. intros x [<-|Hx]; [|now apply (IH ds')].
        apply (HE n). unfold node_get. unfold node_attrs in Ea. destruct (gfind n mol); [|discriminate]. apply ok_inj2 in Ea. now subst.
  Qed.

  (** T1: the names a coarse node's atoms carry after its own pass are pairwise distinct *)
  Theorem group_names_unique mol fgs named mn nodes mol1 fgs1 named1 used :
    name_group2 (mol, fgs, named) (mn, nodes) = Ok (mol1, fgs1, named1) -> NoDup nodes -> elemsE mol ->
    used_names mol named nodes = Ok used -> NoDup used ->
    NoDup (map (name_in mol1) nodes) /\ (forall k, In k nodes -> In k named1) /\ (forall k, In k named -> In k named1).
  Proof.
    intros H Hn HE Hu Hnd. unfold name_group2 in H. cbn [fst snd] in H. rewrite Hu in H. cbn [bind] in H.
    match type of H with bind ?x _ = _ => destruct x as [[[[m f] nd] ix]|] eqn:Ef end; cbn [bind] in H; [|discriminate H].
    apply ok_inj2 in H. cbn [fst] in H. injection H as -> -> ->.
    destruct (inner_fold mn used nodes mol fgs named 0 mol1 fgs1 named1 ix Hn Ef) as (ds & vs & Hds & Has & Hnames & _ & Hnamed).
    pose proof (olds_used _ _ _ _ _ Hds Hu) as Ho.
    destruct (assign_spec E Hinj used ds 0 vs ltac:(lia) (news_in_E mol named HE nodes ds Hds)) as [N _]; auto.
    { rewrite Ho. apply incl_refl. } { now rewrite Ho. }
    split; [|split; intros k Hk; apply Hnamed; auto].
    rewrite Hnames. apply FinFun.Injective_map_NoDup; [intros x y Exy; congruence|exact N].
  Qed.

  (** T2: a later pass never renames an atom that is already named, and keeps the elements *)
  Lemma node_get_set_other2 g j a v k key : key <> a -> node_get (set_node_attr g j a v) k key = node_get g k key.
  Proof.
    intros N. unfold node_get, set_node_attr. destruct (Z.eq_dec k j) as [->|Nk].
    - rewrite gfind_gupdate_same by reflexivity. destruct (gfind j g); cbn; [now apply aget_aset_other|reflexivity].
    - now rewrite gfind_gupdate_other.
  Qed.
  Lemma node_get_set_other_node g j a v k key : k <> j -> node_get (set_node_attr g j a v) k key = node_get g k key.
  Proof. intros N. unfold node_get, set_node_attr. now rewrite gfind_gupdate_other. Qed.
  Lemma atomname_ne_element : S "element" <> S "atomname".
  Proof. intros H. apply str_eqb_eq in H. vm_compute in H. discriminate. Qed.
  Definition keeps (named0 : list Z) (mol0 : graph) (st : nstate) : Prop :=
    (forall k, In k named0 -> name_in (fst (fst st)) k = name_in mol0 k) /\ (forall k, In k named0 -> In k (snd st)) /\
    (forall k, node_get (fst (fst st)) k (S "element") = node_get mol0 k (S "element")).
  Lemma name_group2_keeps named0 mol0 st grp st' : keeps named0 mol0 st -> name_group2 st grp = Ok st' -> keeps named0 mol0 st'.
  Proof.
    intros Hk H. unfold name_group2 in H. destruct st as [[m f] nd].
    destruct (used_names m nd (snd grp)) as [used|]; cbn [bind] in H; [|discriminate H].
    match type of H with bind ?x _ = _ => destruct x as [r2|] eqn:E2 end; cbn [bind] in H; [|discriminate H]. apply ok_inj2 in H. subst st'.
    apply (fold_res_inv (fun st : nstate * Z => keeps named0 mol0 (fst st)) (name_node (fst grp) used) _) with (st := (m, f, nd, 0)) (st' := r2) in E2;
      [exact E2| |exact Hk].
    intros [[[m1 f1] n1] i1] x s2 [K1 [K2 K3]] Hx. cbn [fst snd] in *.
    destruct (name_node_inv _ _ _ _ _ _ _ _ Hx) as (mol1 & named1 & idx1 & a1 & nm & Hcase & _ & _ & ->). cbn [fst snd].
    destruct Hcase as [(_ & -> & -> & _)|(Hz & a & el & e & _ & _ & _ & _ & -> & ->)]; [repeat split; auto|].
    repeat split.
    - intros k Hkn. rewrite <- (K1 k Hkn). unfold name_in. destruct (Z.eq_dec k x) as [->|N].
      + exfalso. apply K2 in Hkn. apply zin_l_In in Hkn. congruence.
      + now apply node_get_set_other_node.
    - intros k Hkn. right. now apply K2.
    - intros k. rewrite <- K3. apply node_get_set_other2. apply atomname_ne_element.
  Qed.

  (** the proviso, read off the run: whenever a coarse node is processed, the names of its already-named atoms
      are pairwise distinct *)
  Fixpoint used_distinct (groups : list (Z * list Z)) (st : nstate) : Prop :=
    match groups with
    | [] => True
    | g :: r =>
        match used_names (fst (fst st)) (snd st) (snd g) with Ok used => NoDup used | Err _ => True end /\
        match name_group2 st g with Ok st' => used_distinct r st' | Err _ => True end
    end.

  Theorem groups_names_unique : forall groups st st', GraphOps.fold_res name_group2 groups st = Ok st' ->
    used_distinct groups st -> (forall g, In g groups -> NoDup (snd g)) -> elemsE (fst (fst st)) ->
    forall g, In g groups -> NoDup (map (name_in (fst (fst st'))) (snd g)).
  Proof.
    induction groups as [|g0 r IH]; intros st st' H Hd Hn HE g Hg; [contradiction|].
    cbn [GraphOps.fold_res] in H. destruct (name_group2 st g0) as [st1|] eqn:E1; cbn [bind] in H; [|discriminate H].
    cbn [used_distinct] in Hd. rewrite E1 in Hd. destruct Hd as [Hu Hd].
    assert (keeps (snd st1) (fst (fst st1)) st1) as K0 by (repeat split; auto).
    assert (keeps (snd st1) (fst (fst st1)) st') as K.
    { apply (fold_res_inv (keeps (snd st1) (fst (fst st1))) name_group2 r) with (st := st1); auto. intros; eapply name_group2_keeps; eauto. }
    assert (keeps [] (fst (fst st)) st1) as Kel.
    { eapply name_group2_keeps; [|exact E1]. repeat split; auto; intros k []. }
    assert (elemsE (fst (fst st1))) as HE1 by (intros k el Hk; apply (HE k); destruct Kel as [_ [_ K3]]; now rewrite <- K3).
    destruct Hg as [<-|Hg]; [|now apply (IH st1 st' H Hd (fun x Hx => Hn x (or_intror Hx)) HE1)].
    destruct st as [[mol fgs] named], st1 as [[mol1 fgs1] named1], g0 as [mn nodes]. cbn [fst snd] in *.
    destruct (used_names mol named nodes) as [used|] eqn:Eu.
    2:{ unfold name_group2 in E1. cbn [fst snd] in E1. rewrite Eu in E1. discriminate. }
    destruct (group_names_unique mol fgs named mn nodes mol1 fgs1 named1 used E1 (Hn _ (or_introl eq_refl)) HE Eu Hu) as [N [Hin _]].
    destruct K as [K1 _]. erewrite map_ext_in; [exact N|]. intros k Hk. apply K1. now apply Hin.
  Qed.

  (** names_unique_per_coarse_node, for the repaired set_atom_names_atomistic *)
  Theorem names_unique_per_coarse_node mol meta fgs mol' fgs' : set_atom_names mol meta fgs = Ok (mol', fgs') ->
    used_distinct (fraglist_of meta fgs) (mol, fgs, []) -> (forall g, In g (fraglist_of meta fgs) -> NoDup (snd g)) -> elemsE mol ->
    forall g, In g (fraglist_of meta fgs) -> NoDup (map (name_in mol') (snd g)).
  Proof.
    intros H Hd Hn HE g Hg. unfold set_atom_names in H.
    destruct (GraphOps.fold_res name_group2 (fraglist_of meta fgs) (mol, fgs, [])) as [r|] eqn:Ef; cbn [bind] in H; [|discriminate H].
    apply ok_inj2 in H. injection H as <- _.
    exact (groups_names_unique _ _ _ Ef Hd Hn HE g Hg).
  Qed.
End Unique.

(** ---------------------------------------------------------------- element ++ str(index) determines the index *)
Lemma digit_val_char d : (d < 10)%nat -> digit_val (digit_char d) = d.
Proof. intros H. do 10 (destruct d as [|d]; [reflexivity|]). lia. Qed.
Lemma nat_digits_val fuel : forall n acc, (n < fuel)%nat -> digits_val 0 (nat_digits fuel n acc) = digits_val (Z.of_nat n) acc.
Proof.
  induction fuel as [|f IH]; intros n acc H; [lia|]. cbn [nat_digits].
  assert ((n mod 10 < 10)%nat) as Hm by (apply Nat.mod_upper_bound; lia).
  destruct (Nat.ltb_spec n 10) as [Hl|Hl].
  - cbn [digits_val]. rewrite digit_val_char by exact Hm. rewrite Nat.mod_small by exact Hl. f_equal; lia.
  - assert ((n / 10 < f)%nat) as Hd by (assert (n / 10 < n)%nat by (apply Nat.div_lt; lia); lia).
    rewrite (IH (n / 10)%nat _ Hd). cbn [digits_val]. rewrite digit_val_char by exact Hm. f_equal.
    pose proof (Nat.div_mod n 10 ltac:(lia)). try lia.
Qed.
Lemma str_of_nat_val n : digits_val 0 (str_of_nat n) = Z.of_nat n.
Proof. unfold str_of_nat. rewrite nat_digits_val by lia. reflexivity. Qed.
Lemma digit_char_digit d : (d < 10)%nat -> is_digit (digit_char d) = true.
Proof. intros H. do 10 (destruct d as [|d]; [reflexivity|]). lia. Qed.
Lemma nat_digits_all fuel : forall n acc, forallb is_digit acc = true -> forallb is_digit (nat_digits fuel n acc) = true.
Proof.
  induction fuel as [|f IH]; intros n acc H; cbn [nat_digits]; [exact H|].
  assert (forallb is_digit (digit_char (n mod 10) :: acc) = true) as H'
    by (cbn [forallb]; rewrite H, digit_char_digit; [reflexivity|apply Nat.mod_upper_bound; lia]).
  destruct (n <? 10)%nat; [exact H'|now apply IH].
Qed.
Lemma nat_digits_ne fuel : forall n acc, acc <> [] \/ fuel <> 0%nat -> nat_digits fuel n acc <> [].
Proof.
  induction fuel as [|f IH]; intros n acc H; cbn [nat_digits]; [destruct H; [assumption|congruence]|].
  destruct (n <? 10)%nat; [discriminate|]. apply IH. left. discriminate.
Qed.
Definition digit_free (e : pystr) : Prop := forallb (fun c => negb (is_digit c)) e = true.
Lemma split_label : forall e e' d d', digit_free e -> digit_free e' -> forallb is_digit d = true -> forallb is_digit d' = true ->
  d <> [] -> d' <> [] -> e ++ d = e' ++ d' -> e = e' /\ d = d'.
Proof.
  unfold digit_free. induction e as [|c r IH]; destruct e' as [|c' r']; cbn [app forallb]; intros d d' He He' Hd Hd' Nd Nd' H.
  - auto.
  - exfalso. destruct d as [|x d]; [congruence|]. inversion H; subst. cbn in Hd. apply andb_true_iff in Hd as [Hx _].
    apply andb_true_iff in He' as [Hc _]. rewrite Hx in Hc. discriminate.
  - exfalso. destruct d' as [|x d']; [congruence|]. inversion H; subst. cbn in Hd'. apply andb_true_iff in Hd' as [Hx _].
    apply andb_true_iff in He as [Hc _]. rewrite Hx in Hc. discriminate.
  - inversion H; subst. apply andb_true_iff in He as [_ He]. apply andb_true_iff in He' as [_ He'].
    destruct (IH r' d d' He He' Hd Hd' Nd Nd' H2) as [-> ->]. auto.
Qed.
(** for element symbols (no digit in them) the label element ++ str(index) determines element and index *)
Theorem label_inj e e' i j : digit_free e -> digit_free e' -> 0 <= i -> 0 <= j -> atom_label e i = atom_label e' j -> e = e' /\ i = j.
Proof.
  intros He He' Hi Hj H. unfold atom_label in H.
  assert (forall z, 0 <= z -> str_of_Z z = str_of_nat (Z.to_nat z)) as Hs by (intros z Hz; destruct z; try reflexivity; lia).
  rewrite (Hs i Hi), (Hs j Hj) in H.
  assert (forall n, forallb is_digit (str_of_nat n) = true) as A by (intros n; unfold str_of_nat; apply nat_digits_all; reflexivity).
  assert (forall n, str_of_nat n <> []) as N by (intros n; unfold str_of_nat; apply nat_digits_ne; right; discriminate).
  destruct (split_label e e' _ _ He He' (A _) (A _) (N _) (N _) H) as [-> E].
  split; [reflexivity|]. apply (f_equal (digits_val 0)) in E. rewrite !str_of_nat_val in E. lia.
Qed.
Corollary label_inj_list (E : list pystr) : Forall digit_free E ->
  forall e e' i j, In e E -> In e' E -> 0 <= i -> 0 <= j -> atom_label e i = atom_label e' j -> i = j.
Proof. intros HF e e' i j He He' Hi Hj H. rewrite Forall_forall in HF. now destruct (label_inj e e' i j (HF _ He) (HF _ He') Hi Hj H). Qed.
