(** NameProofs: C12 - the repaired set_atom_names_atomistic (/repo 8dbd471; model GraphOps.set_atom_names) gives
    names that are unique within each coarse node, provided the already-named (shared) atoms a coarse node meets
    carry pairwise distinct names.  That proviso fails only when a coarse node shares atoms with two DIFFERENT
    earlier coarse nodes (class shared_from_two_owners, refuted below by a witness). *)
From Coq Require Import String.
From Coq Require Import List Ascii ZArith Bool Lia Sorting.Permutation.
From CGV Require Import Base.PyBase Base.PyVal Base.NxGraph Resolve.GraphOps Resolve.MapProofs Resolve.CopyProofs.
Import ListNotations.
Open Scope Z_scope.

Lemma ok_inj2 {A} (x y : A) : @Ok A x = Ok y -> x = y.
Proof. congruence. Qed.

(** ---------------------------------------------------------------- the pure naming of one coarse node *)
(** an atom of the coarse node is either already named (Old, with its name) or new (New, with its element and whether it
    belongs to several fragments) *)
Inductive desc := Old (v : pyval) | New (e : pystr) (sh : bool).
Definition taken_of (used shn : list pyval) (sh : bool) : list pyval := if sh then used ++ shn else used.
Fixpoint assign (used shn : list pyval) (idx : Z) (ds : list desc) : res (list pyval * list pyval) :=
  match ds with
  | [] => Ok ([], shn)
  | Old v :: r => '(vs, s') <- assign used shn (idx + 1) r ;; Ok (v :: vs, s')
  | New e sh :: r =>
      i <- bump_idx (Datatypes.S (length (taken_of used shn sh))) (taken_of used shn sh) e idx ;;
      let nm := VStr (atom_label e i) in
      '(vs, s') <- assign used (if sh then nm :: shn else shn) (i + 1) r ;;
      Ok (nm :: vs, s')
  end.
Definition olds (ds : list desc) : list pyval := flat_map (fun d => match d with Old v => [v] | New _ _ => [] end) ds.
Definition news (ds : list desc) : list pystr := flat_map (fun d => match d with Old _ => [] | New e _ => [e] end) ds.
Definition shared_news (ds : list desc) (vs : list pyval) : list pyval :=
  flat_map (fun dv => match fst dv with New _ true => [snd dv] | _ => [] end) (combine ds vs).

Lemma bump_spec fuel used e : forall idx i, bump_idx fuel used e idx = Ok i -> idx <= i /\ name_taken used (atom_label e i) = false.
Proof.
  induction fuel as [|f IH]; cbn; intros idx i H; [discriminate|].
  destruct (name_taken used (atom_label e idx)) eqn:E; [|apply ok_inj2 in H; subst; split; [lia|exact E]].
  destruct (IH _ _ H). split; [lia|assumption].
Qed.
Lemma not_taken used nm : name_taken used nm = false -> ~ In (VStr nm) used.
Proof.
  unfold name_taken. intros H X. assert (existsb (pyval_eqb (VStr nm)) used = true) as T; [|congruence].
  apply existsb_exists. exists (VStr nm). split; [exact X|]. cbn. apply str_eqb_refl.
Qed.

Section Assign.
  Variable E : list pystr.
  Hypothesis Hinj : forall e e' i j, In e E -> In e' E -> 0 <= i -> 0 <= j -> atom_label e i = atom_label e' j -> i = j.

  (** what the value at a position is, relative to the names taken at the START of the pass *)
  Definition good (used shn0 : list pyval) (idx : Z) (d : desc) (v : pyval) : Prop :=
    match d with
    | Old w => v = w
    | New e sh => In e E /\ exists i, idx <= i /\ v = VStr (atom_label e i) /\ ~ In v used /\ (sh = true -> ~ In v shn0)
    end.
  Lemma good_weaken used shn0 shn1 idx idx' d v : idx <= idx' -> incl shn0 shn1 -> good used shn1 idx' d v -> good used shn0 idx d v.
  Proof.
    intros Hi Hs. destruct d as [w|e sh]; cbn; [auto|]. intros [He (i & Hl & Hv & Hu & Hsn)]. split; [exact He|].
    exists i. repeat split; auto; [lia|]. intros T X. apply (Hsn T). now apply Hs.
  Qed.
  Lemma forall2_in {A B} (P : A -> B -> Prop) l m : Forall2 P l m -> forall b, In b m -> exists a, In a l /\ P a b.
  Proof. induction 1 as [|a b l m Hab F IH]; intros x []; [subst; exists a; split; [now left|assumption]|]. destruct (IH x H) as [a' [Ha Hp]]. exists a'. split; [now right|assumption]. Qed.

  Lemma Forall2_impl {A B} (P Q : A -> B -> Prop) l m : (forall a b, P a b -> Q a b) -> Forall2 P l m -> Forall2 Q l m.
  Proof. intros H. induction 1; constructor; auto. Qed.

  Lemma assign_spec used ds : forall shn idx vs shn', 0 <= idx -> incl (news ds) E -> incl (olds ds) used -> NoDup (olds ds) ->
    assign used shn idx ds = Ok (vs, shn') ->
    NoDup vs /\ Forall2 (good used shn idx) ds vs /\ (forall x, In x shn' <-> In x shn \/ In x (shared_news ds vs)).
  Proof.
    induction ds as [|d r IH]; intros shn idx vs shn' H0 HE Hu Hn H; cbn [assign] in H.
    - apply ok_inj2 in H. injection H as <- <-. repeat split; try constructor; cbn; tauto.
    - destruct d as [v0|e sh].
      + destruct (assign used shn (idx + 1) r) as [[vs' s']|] eqn:Er; cbn [bind] in H; [|discriminate H]. apply ok_inj2 in H. injection H as <- <-.
        cbn in HE, Hu, Hn. inversion Hn as [|? ? Hx Hr]; subst.
        destruct (IH shn (idx + 1) vs' s' ltac:(lia) HE (fun x Hx' => Hu x (or_intror Hx')) Hr Er) as [N [F P]].
        split; [|split].
        * constructor; [|exact N]. intros X. destruct (forall2_in _ _ _ F _ X) as [d [Hd Hg]]. destruct d as [w|e sh]; cbn in Hg.
          -- subst w. apply Hx. unfold olds. apply in_flat_map. exists (Old v0). split; [exact Hd|now left].
          -- destruct Hg as [_ (i & _ & _ & Hnu & _)]. apply Hnu. apply Hu. now left.
        * constructor; [reflexivity|]. eapply Forall2_impl; [|exact F]. intros d v. apply good_weaken; [lia|apply incl_refl].
        * intros x. rewrite P. cbn. tauto.
      + destruct (bump_idx _ (taken_of used shn sh) e idx) as [i|] eqn:Eb; cbn [bind] in H; [|discriminate H].
        destruct (assign used (if sh then VStr (atom_label e i) :: shn else shn) (i + 1) r) as [[vs' s']|] eqn:Er; cbn [bind] in H; [|discriminate H].
        apply ok_inj2 in H. injection H as <- <-.
        destruct (bump_spec _ _ _ _ _ Eb) as [Hle T]. pose proof (not_taken _ _ T) as Hnt.
        cbn in HE, Hu, Hn. assert (In e E) as HeE by (apply HE; now left).
        assert (~ In (VStr (atom_label e i)) used) as Hnu by (intros X; apply Hnt; unfold taken_of; destruct sh; [apply in_or_app; now left|exact X]).
        assert (sh = true -> ~ In (VStr (atom_label e i)) shn) as Hns by (intros -> X; apply Hnt; unfold taken_of; apply in_or_app; now right).
        destruct (IH _ (i + 1) vs' s' ltac:(lia) (fun x Hx' => HE x (or_intror Hx')) Hu Hn Er) as [N [F P]].
        split; [|split].
        * constructor; [|exact N]. intros X. destruct (forall2_in _ _ _ F _ X) as [d [Hd Hg]]. destruct d as [w|e' sh']; cbn in Hg.
          -- subst w. apply Hnu. apply Hu. unfold olds. apply in_flat_map. exists (Old (VStr (atom_label e i))). split; [exact Hd|now left].
          -- destruct Hg as [He' (j & Hj & Hv & _)]. inversion Hv as [Hl]. apply (Hinj e e' i j) in Hl; auto; lia.
        * constructor; [cbn; split; [exact HeE|]; exists i; repeat split; auto|].
          eapply Forall2_impl; [|exact F]. intros d v. apply good_weaken; [lia|]. destruct sh; [intros x Hx; now right|apply incl_refl].
        * intros x. rewrite P. cbn [shared_news combine flat_map fst snd]. destruct sh; cbn; rewrite ?in_app_iff; cbn; tauto.
  Qed.
End Assign.

(** ---------------------------------------------------------------- the loop over one coarse node computes [assign] *)
From CGV Require Import Resolve.FragidProofs.

Definition name_in (mol : graph) (n : Z) : option pyval := node_get mol n (S "atomname").
Definition desc_of (mol : graph) (named : list Z) (n : Z) : res desc :=
  a <- node_attrs mol n ;;
  if zin_l n named then v <- of_option (aget (S "atomname") a) EKey ;; Ok (Old v)
  else sh <- fragid_shared a ;; el <- of_option (aget (S "element") a) EKey ;; e <- as_str el ;; Ok (New e sh).

Lemma zin_l_In k l : zin_l k l = true <-> In k l.
Proof.
  unfold zin_l. rewrite existsb_exists. split; [intros [x [H E]]; apply Z.eqb_eq in E; now subst|].
  intros H. exists k. split; [exact H|apply Z.eqb_refl].
Qed.
Lemma zin_l_cons k n l : k <> n -> zin_l k (n :: l) = zin_l k l.
Proof. intros N. unfold zin_l. cbn. destruct (Z.eqb_spec k n); [contradiction|reflexivity]. Qed.
Lemma node_get_attrs mol n a : node_attrs mol n = Ok a -> name_in mol n = aget (S "atomname") a.
Proof. unfold node_attrs, name_in, node_get. destruct (gfind n mol); [|discriminate]. intros H. apply ok_inj2 in H. now subst. Qed.
Lemma map_res_ext_in {A B} (f g : A -> res B) l : (forall x, In x l -> f x = g x) -> GraphOps.map_res f l = GraphOps.map_res g l.
Proof.
  induction l as [|x r IH]; intros H; [reflexivity|]. cbn [GraphOps.map_res]. rewrite (H x) by now left.
  rewrite IH; [reflexivity|]. intros y Hy. apply H. now right.
Qed.

Lemma inner_fold mn used : forall nodes mol fgs named shn idx mol' fgs' named' shn' idx', NoDup nodes ->
  GraphOps.fold_res (name_node mn used) nodes (mol, fgs, named, shn, idx) = Ok (mol', fgs', named', shn', idx') ->
  exists ds vs, GraphOps.map_res (desc_of mol named) nodes = Ok ds /\ assign used shn idx ds = Ok (vs, shn') /\
    map (name_in mol') nodes = map Some vs /\
    (forall k, ~ In k nodes -> node_attrs mol' k = node_attrs mol k) /\
    (forall k, In k named' <-> In k named \/ In k nodes).
Proof.
  induction nodes as [|n r IH]; intros mol fgs named shn idx mol' fgs' named' shn' idx' Hn H.
  - cbn in H. apply ok_inj2 in H. injection H as -> -> -> -> ->. exists [], [].
    split; [reflexivity|]. split; [reflexivity|]. split; [reflexivity|]. split; [auto|]. intros k. cbn. tauto.
  - cbn [GraphOps.fold_res] in H. destruct (name_node mn used (mol, fgs, named, shn, idx) n) as [st1|] eqn:E1; cbn [bind] in H; [|discriminate H].
    destruct (name_node_inv _ _ _ _ _ _ _ _ _ E1) as (mol1 & named1 & shn1 & idx1 & a1 & nm & Hcase & Ha1 & Hnm & ->).
    inversion Hn as [|? ? Hnr Hr]; subst.
    destruct (IH _ _ _ _ _ _ _ _ _ _ Hr H) as (ds' & vs' & Hds & Has & Hnames & Hkeep & Hnamed).
    assert (forall m, In m r -> desc_of mol1 named1 m = desc_of mol named m) as Hext.
    { intros m Hm. assert (m <> n) as Nm by (intros ->; contradiction). unfold desc_of.
      destruct Hcase as [(_ & -> & -> & _)|(_ & a & sh & el & e & _ & _ & _ & _ & _ & -> & -> & _)]; [reflexivity|].
      now rewrite attrs_set_other, zin_l_cons. }
    rewrite (map_res_ext_in _ _ r Hext) in Hds.
    assert (name_in mol' n = Some nm) as Hhead.
    { rewrite (node_get_attrs mol' n a1); [exact Hnm|]. now rewrite (Hkeep n Hnr). }
    destruct Hcase as [(Hz & -> & -> & -> & ->)|(Hz & a & sh & el & e & Ha & Hsh & Hel & He & Hb & -> & -> & ->)].
    + exists (Old nm :: ds'), (nm :: vs'). split; [|split; [|split; [|split]]].
      * cbn [GraphOps.map_res]. unfold desc_of at 1. rewrite Ha1, Hz. cbn [bind]. rewrite Hnm. cbn [of_option bind]. now rewrite Hds.
      * cbn [assign]. now rewrite Has.
      * cbn [map]. now rewrite Hhead, Hnames.
      * intros k Hk. apply Hkeep. intros X. apply Hk. now right.
      * intros k. rewrite Hnamed. cbn. split; [intros [?|?]; auto|intros [?|[<-|?]]; auto]. left. now apply zin_l_In.
    + assert (nm = VStr (atom_label e idx1)) as ->.
      { rewrite (attrs_set_same mol n _ _ a Ha) in Ha1. apply ok_inj2 in Ha1. subst a1. rewrite aget_aset_same in Hnm. congruence. }
      exists (New e sh :: ds'), (VStr (atom_label e idx1) :: vs'). split; [|split; [|split; [|split]]].
      * cbn [GraphOps.map_res]. unfold desc_of at 1. rewrite Ha, Hz. cbn [bind]. rewrite Hsh. cbn [bind]. rewrite Hel. cbn [of_option bind].
        rewrite He. cbn [bind]. now rewrite Hds.
      * cbn [assign]. unfold taken_of. rewrite Hb. cbn [bind]. now rewrite Has.
      * cbn [map]. now rewrite Hhead, Hnames.
      * intros k Hk. rewrite Hkeep by (intros X; apply Hk; now right). apply attrs_set_other. intros ->. apply Hk. now left.
      * intros k. rewrite Hnamed. cbn. tauto.
Qed.

(** ---------------------------------------------------------------- one coarse node, then all of them *)
Definition fsv (o : option pyval) : res bool :=
  match o with
  | None => Ok false
  | Some (VList l) | Some (VTup l) => Ok (Nat.ltb 1 (length l))
  | Some (VStr s) => Ok (Nat.ltb 1 (length s))
  | Some (VDict d) => Ok (Nat.ltb 1 (length d))
  | Some _ => Err EType
  end.
Lemma fragid_shared_fsv a : fragid_shared a = fsv (aget (S "fragid") a).
Proof. reflexivity. Qed.
(** "belongs to several fragments", read from a fixed fragid lookup F (the naming never touches 'fragid') *)
Definition is_sh (F : Z -> option pyval) (n : Z) : Prop := fsv (F n) = Ok true.

Lemma olds_used mol named : forall nodes ds used, GraphOps.map_res (desc_of mol named) nodes = Ok ds ->
  used_names mol named nodes = Ok used -> olds ds = used.
Proof.
  unfold used_names. induction nodes as [|n r IH]; intros ds used Hd Hu.
  - cbn in Hd, Hu. apply ok_inj2 in Hd, Hu. now subst.
  - cbn [GraphOps.map_res] in Hd. destruct (desc_of mol named n) as [d|] eqn:Ed; cbn [bind] in Hd; [|discriminate Hd].
    destruct (GraphOps.map_res (desc_of mol named) r) as [ds'|] eqn:Er; cbn [bind] in Hd; [|discriminate Hd]. apply ok_inj2 in Hd. subst ds.
    unfold desc_of in Ed. cbn [filter] in Hu. destruct (node_attrs mol n) as [a|] eqn:Ea; cbn [bind] in Ed; [|discriminate Ed].
    destruct (zin_l n named).
    + cbn [GraphOps.map_res] in Hu. rewrite Ea in Hu. cbn [bind] in Hu.
      destruct (aget (S "atomname") a) as [v|]; cbn [of_option bind] in Ed, Hu; [|discriminate Ed]. apply ok_inj2 in Ed. subst d.
      destruct (GraphOps.map_res _ (filter _ r)) as [us|] eqn:Eu; cbn [bind] in Hu; [|discriminate Hu]. apply ok_inj2 in Hu. subst used.
      cbn. f_equal. now apply IH.
    + destruct (fragid_shared a); cbn [bind] in Ed; [|discriminate Ed].
      destruct (aget (S "element") a); cbn [of_option bind] in Ed; [|discriminate Ed]. destruct (as_str p); cbn [bind] in Ed; [|discriminate Ed].
      apply ok_inj2 in Ed. subst d. cbn. now apply IH.
Qed.
Lemma used_map mol named : forall nodes used, used_names mol named nodes = Ok used ->
  map Some used = map (name_in mol) (filter (fun n => zin_l n named) nodes).
Proof.
  unfold used_names. intros nodes. generalize (filter (fun n => zin_l n named) nodes). induction l as [|n r IH]; intros used H; cbn [GraphOps.map_res] in H.
  - apply ok_inj2 in H. now subst.
  - destruct (node_attrs mol n) as [a|] eqn:Ea; cbn [bind] in H; [|discriminate H].
    destruct (aget (S "atomname") a) as [v|] eqn:Ev; cbn [of_option bind] in H; [|discriminate H].
    destruct (GraphOps.map_res _ r) as [us|] eqn:Eu; cbn [bind] in H; [|discriminate H]. apply ok_inj2 in H. subst used.
    cbn [map]. rewrite (node_get_attrs mol n a Ea), Ev. f_equal. now apply IH.
Qed.
Lemma NoDup_map_inj_in {A B} (f : A -> B) l : NoDup l -> (forall x y, In x l -> In y l -> f x = f y -> x = y) -> NoDup (map f l).
Proof.
  induction 1 as [|x r Hx Hr IH]; intros Hi; cbn; constructor.
  - intros X. apply in_map_iff in X as [y [E Hy]]. apply Hx. rewrite (Hi x y); auto; [now left|now right].
  - apply IH. intros a b Ha Hb. apply Hi; now right.
Qed.
Lemma nodup_map_eq {A B} (f : A -> B) l x y : NoDup (map f l) -> In x l -> In y l -> f x = f y -> x = y.
Proof.
  induction l as [|a r IH]; cbn; intros H Hx Hy E; [contradiction|]. inversion H as [|? ? Ha Hr]; subst.
  destruct Hx as [<-|Hx]; destruct Hy as [<-|Hy]; auto.
  - exfalso. apply Ha. rewrite E. now apply in_map.
  - exfalso. apply Ha. rewrite <- E. now apply in_map.
Qed.
Lemma positional {A B C} (f : A -> res B) (g : A -> option C) (P : B -> C -> Prop) : forall nodes ds vs,
  GraphOps.map_res f nodes = Ok ds -> map g nodes = map Some vs -> Forall2 P ds vs ->
  forall n, In n nodes -> exists d v, f n = Ok d /\ g n = Some v /\ P d v /\ In (d, v) (combine ds vs).
Proof.
  induction nodes as [|x r IH]; intros ds vs Hd Hv F n Hn; [contradiction|].
  cbn [GraphOps.map_res] in Hd. destruct (f x) as [d|] eqn:Ed; cbn [bind] in Hd; [|discriminate Hd].
  destruct (GraphOps.map_res f r) as [ds'|] eqn:Er; cbn [bind] in Hd; [|discriminate Hd]. apply ok_inj2 in Hd. subst ds.
  destruct vs as [|v vs']; [discriminate|]. cbn [map] in Hv. injection Hv as Hv1 Hv2. inversion F; subst.
  destruct Hn as [<-|Hn].
  - exists d, v. repeat split; auto. now left.
  - destruct (IH ds' vs' eq_refl Hv2 H4 n Hn) as (d' & v' & A1 & A2 & A3 & A4). exists d', v'. repeat split; auto. now right.
Qed.

Section Unique.
  Variable E : list pystr.
  Hypothesis Hinj : forall e e' i j, In e E -> In e' E -> 0 <= i -> 0 <= j -> atom_label e i = atom_label e' j -> i = j.
  Definition elemsE (mol : graph) : Prop := forall k el, node_get mol k (S "element") = Some (VStr el) -> In el E.

  Lemma news_in_E mol named : elemsE mol -> forall nodes ds, GraphOps.map_res (desc_of mol named) nodes = Ok ds -> incl (news ds) E.
  Proof.
    intros HE. induction nodes as [|n r IH]; intros ds Hd; cbn [GraphOps.map_res] in Hd.
    - apply ok_inj2 in Hd. subst. intros x [].
    - destruct (desc_of mol named n) as [d|] eqn:Ed; cbn [bind] in Hd; [|discriminate Hd].
      destruct (GraphOps.map_res (desc_of mol named) r) as [ds'|] eqn:Er; cbn [bind] in Hd; [|discriminate Hd]. apply ok_inj2 in Hd. subst ds.
      unfold desc_of in Ed. destruct (node_attrs mol n) as [a|] eqn:Ea; cbn [bind] in Ed; [|discriminate Ed].
      destruct (zin_l n named).
      + destruct (aget (S "atomname") a); cbn [of_option bind] in Ed; [|discriminate Ed]. apply ok_inj2 in Ed. subst d. cbn. now apply IH.
      + destruct (fragid_shared a); cbn [bind] in Ed; [|discriminate Ed].
        destruct (aget (S "element") a) as [el|] eqn:Eel; cbn [of_option bind] in Ed; [|discriminate Ed].
        destruct el; cbn in Ed; try discriminate Ed. apply ok_inj2 in Ed. subst d. cbn. intros x [<-|Hx]; [|now apply (IH ds')].
        apply (HE n). unfold node_get. unfold node_attrs in Ea. destruct (gfind n mol); [|discriminate Ea]. apply ok_inj2 in Ea. now subst.
  Qed.

  (** the naming touches the attribute 'atomname' only *)
  Lemma node_get_set_other2 g j a v k key : key <> a -> node_get (set_node_attr g j a v) k key = node_get g k key.
  Proof.
    intros N. unfold node_get, set_node_attr. destruct (Z.eq_dec k j) as [->|Nk].
    - rewrite gfind_gupdate_same by reflexivity. destruct (gfind j g); cbn; [now apply aget_aset_other|reflexivity].
    - now rewrite gfind_gupdate_other.
  Qed.
  Lemma name_group2_other_keys st grp st' : name_group2 st grp = Ok st' ->
    forall k key, key <> S "atomname" -> node_get (ns_mol st') k key = node_get (ns_mol st) k key.
  Proof.
    intros H. unfold name_group2 in H. destruct st as [[[m f] nd] sn].
    destruct (used_names m nd (snd grp)) as [used|]; cbn [bind] in H; [|discriminate H].
    match type of H with bind ?x _ = _ => destruct x as [r2|] eqn:E2 end; cbn [bind] in H; [|discriminate H]. apply ok_inj2 in H. subst st'.
    set (P := fun st : nstate * Z => forall k key, key <> S "atomname" -> node_get (ns_mol (fst st)) k key = node_get m k key).
    assert (forall s1 x s2, P s1 -> name_node (fst grp) used s1 x = Ok s2 -> P s2) as Hstep.
    { intros s1 x s2 H1 Hx k key Hk. destruct (name_node_mol _ _ _ _ _ Hx) as [->|[v ->]]; [now apply H1|].
      rewrite node_get_set_other2 by exact Hk. now apply H1. }
    assert (P (m, f, nd, sn, 0)) as Hinit by (intros k key Hk; reflexivity).
    exact (fold_res_inv P (name_node (fst grp) used) (snd grp) Hstep _ _ Hinit E2).
  Qed.

  (** one coarse node: its names become pairwise distinct and the invariants about shared atoms are kept *)
  Lemma group_step F mol fgs named shn mn nodes mol1 fgs1 named1 shn1 :
    name_group2 (mol, fgs, named, shn) (mn, nodes) = Ok (mol1, fgs1, named1, shn1) -> NoDup nodes -> elemsE mol ->
    (forall k, node_get mol k (S "fragid") = F k) ->
    (forall n, In n nodes -> In n named -> is_sh F n) ->
    (forall n, In n named -> is_sh F n -> exists v, name_in mol n = Some v /\ In v shn) ->
    (forall n1 n2, In n1 named -> In n2 named -> is_sh F n1 -> is_sh F n2 -> name_in mol n1 = name_in mol n2 -> n1 = n2) ->
    NoDup (map (name_in mol1) nodes) /\
    (forall k, In k named1 <-> In k named \/ In k nodes) /\
    (forall k, In k named -> name_in mol1 k = name_in mol k) /\
    (forall n, In n named1 -> is_sh F n -> exists v, name_in mol1 n = Some v /\ In v shn1) /\
    (forall n1 n2, In n1 named1 -> In n2 named1 -> is_sh F n1 -> is_sh F n2 -> name_in mol1 n1 = name_in mol1 n2 -> n1 = n2).
  Proof.
    intros H Hn HE HF Hsh J2 J3. unfold name_group2 in H. cbn [fst snd] in H.
    destruct (used_names mol named nodes) as [used|] eqn:Hu; cbn [bind] in H; [|discriminate H].
    match type of H with bind ?x _ = _ => destruct x as [[[[[m f] nd] sn] ix]|] eqn:Ef end; cbn [bind] in H; [|discriminate H].
    apply ok_inj2 in H. cbn [fst] in H. injection H as -> -> -> ->.
    destruct (inner_fold mn used nodes mol fgs named shn 0 mol1 fgs1 named1 shn1 ix Hn Ef) as (ds & vs & Hds & Has & Hnames & Hkeep & Hnamed).
    pose proof (olds_used _ _ _ _ _ Hds Hu) as Ho.
    (* the already-named atoms of this coarse node carry distinct names *)
    assert (NoDup used) as Hnd.
    { apply (NoDup_map_inv Some). rewrite (used_map _ _ _ _ Hu). apply NoDup_map_inj_in; [now apply NoDup_filter|].
      intros x y Hx Hy Exy. apply filter_In in Hx as [Hx1 Hx2]. apply filter_In in Hy as [Hy1 Hy2].
      apply zin_l_In in Hx2, Hy2. apply J3; auto. }
    destruct (assign_spec E Hinj used ds shn 0 vs shn1 ltac:(lia) (news_in_E mol named HE nodes ds Hds)) as [N [F2 P]]; auto.
    { rewrite Ho. apply incl_refl. } { now rewrite Ho. }
    assert (NoDup (map (name_in mol1) nodes)) as Huniq
      by (rewrite Hnames; apply FinFun.Injective_map_NoDup; [intros x y Exy; congruence|exact N]).
    pose proof (positional _ _ _ nodes ds vs Hds Hnames F2) as Pos.
    (* names of atoms named before this pass are kept *)
    assert (forall k, In k named -> name_in mol1 k = name_in mol k) as Hold.
    { intros k Hk. destruct (in_dec Z.eq_dec k nodes) as [Hin|Hout].
      - destruct (Pos k Hin) as (d & v & Hd & Hv & Hg & _). unfold desc_of in Hd.
        destruct (node_attrs mol k) as [a|] eqn:Ea; cbn [bind] in Hd; [|discriminate Hd].
        apply zin_l_In in Hk. rewrite Hk in Hd. destruct (aget (S "atomname") a) as [w|] eqn:Ew; cbn [of_option bind] in Hd; [|discriminate Hd].
        apply ok_inj2 in Hd. subst d. cbn in Hg. subst v. now rewrite Hv, (node_get_attrs mol k a Ea).
      - unfold name_in, node_get. pose proof (Hkeep k Hout) as Ek. unfold node_attrs in Ek.
        destruct (gfind k mol1), (gfind k mol); try discriminate; [apply ok_inj2 in Ek; now rewrite Ek|reflexivity]. }
    (* a new atom of this pass that belongs to several fragments: its name is in shn1 and was not in shn *)
    assert (forall n, In n nodes -> ~ In n named -> is_sh F n ->
              exists v, name_in mol1 n = Some v /\ In v shn1 /\ ~ In v shn) as Hnew.
    { intros n Hin Hnn Hs. destruct (Pos n Hin) as (d & v & Hd & Hv & Hg & Hc). unfold desc_of in Hd.
      destruct (node_attrs mol n) as [a|] eqn:Ea; cbn [bind] in Hd; [|discriminate Hd].
      assert (zin_l n named = false) as Hz by (destruct (zin_l n named) eqn:Z1; [apply zin_l_In in Z1; contradiction|reflexivity]).
      rewrite Hz in Hd. destruct (fragid_shared a) as [sh|] eqn:Es; cbn [bind] in Hd; [|discriminate Hd].
      destruct (aget (S "element") a) as [el|]; cbn [of_option bind] in Hd; [|discriminate Hd].
      destruct (as_str el) as [e|]; cbn [bind] in Hd; [|discriminate Hd]. apply ok_inj2 in Hd. subst d.
      assert (sh = true) as ->.
      { unfold is_sh in Hs. rewrite <- HF in Hs. unfold node_get in Hs. unfold node_attrs in Ea.
        destruct (gfind n mol); [|discriminate Ea]. apply ok_inj2 in Ea. subst a. rewrite fragid_shared_fsv in Es. congruence. }
      cbn in Hg. destruct Hg as [_ (i & _ & -> & _ & Hns)]. exists (VStr (atom_label e i)). repeat split; auto.
      apply P. right. unfold shared_news. apply in_flat_map. exists (New e true, VStr (atom_label e i)). split; [exact Hc|now left]. }
    split; [exact Huniq|]. split; [exact Hnamed|]. split; [exact Hold|]. split.
    - intros n Hn1 Hs. apply Hnamed in Hn1. destruct (in_dec Z.eq_dec n named) as [Hin|Hnin].
      + destruct (J2 n Hin Hs) as [v [Hv Hi]]. exists v. split; [now rewrite Hold|]. apply P. now left.
      + destruct Hn1 as [?|Hn1]; [contradiction|]. destruct (Hnew n Hn1 Hnin Hs) as [v [Hv [Hi _]]]. eauto.
    - intros n1 n2 H1 H2 S1 S2 Eq. apply Hnamed in H1, H2.
      destruct (in_dec Z.eq_dec n1 nodes) as [I1|O1]; destruct (in_dec Z.eq_dec n2 nodes) as [I2|O2].
      + exact (nodup_map_eq _ _ _ _ Huniq I1 I2 Eq).
      + destruct H2 as [H2|?]; [|contradiction]. destruct (in_dec Z.eq_dec n1 named) as [N1|N1].
        * apply J3; auto. now rewrite <- (Hold n1 N1), <- (Hold n2 H2).
        * exfalso. destruct (Hnew n1 I1 N1 S1) as [v [Hv [_ Hns]]]. destruct (J2 n2 H2 S2) as [w [Hw Hi]].
          rewrite (Hold n2 H2), Hv, Hw in Eq. apply ok_some in Eq || idtac. congruence.
      + destruct H1 as [H1|?]; [|contradiction]. destruct (in_dec Z.eq_dec n2 named) as [N2|N2].
        * apply J3; auto. now rewrite <- (Hold n1 H1), <- (Hold n2 N2).
        * exfalso. destruct (Hnew n2 I2 N2 S2) as [v [Hv [_ Hns]]]. destruct (J2 n1 H1 S1) as [w [Hw Hi]].
          rewrite (Hold n1 H1), Hv, Hw in Eq. congruence.
      + destruct H1 as [H1|?]; [|contradiction]. destruct H2 as [H2|?]; [|contradiction].
        apply J3; auto. now rewrite <- (Hold n1 H1), <- (Hold n2 H2).
  Qed.

  (** an atom met again in a later coarse node belongs to several fragments (fragid has more than one entry): true for
      the coarse graphs annotate_fragments builds, where an atom is in the graph of every coarse node its fragid lists *)
  Fixpoint shared_ok (F : Z -> option pyval) (seen : list Z) (groups : list (Z * list Z)) : Prop :=
    match groups with
    | [] => True
    | g :: r => (forall n, In n (snd g) -> In n seen -> is_sh F n) /\ shared_ok F (seen ++ snd g) r
    end.

  Theorem groups_names_unique F : forall groups st st' seen, GraphOps.fold_res name_group2 groups st = Ok st' ->
    (forall g, In g groups -> NoDup (snd g)) -> elemsE (ns_mol st) -> (forall k, node_get (ns_mol st) k (S "fragid") = F k) ->
    shared_ok F seen groups -> (forall n, In n (ns_named st) -> In n seen) ->
    (forall n, In n (ns_named st) -> is_sh F n -> exists v, name_in (ns_mol st) n = Some v /\ In v (ns_shn st)) ->
    (forall n1 n2, In n1 (ns_named st) -> In n2 (ns_named st) -> is_sh F n1 -> is_sh F n2 ->
                   name_in (ns_mol st) n1 = name_in (ns_mol st) n2 -> n1 = n2) ->
    (forall g, In g groups -> NoDup (map (name_in (ns_mol st')) (snd g))) /\
    (forall k, In k (ns_named st) -> name_in (ns_mol st') k = name_in (ns_mol st) k).
  Proof.
    induction groups as [|g0 r IH]; intros st st' seen H Hn HE HF Hs J1 J2 J3.
    - cbn in H. apply ok_inj2 in H. subst. split; [intros g []|auto].
    - cbn [GraphOps.fold_res] in H. destruct (name_group2 st g0) as [st1|] eqn:E1; cbn [bind] in H; [|discriminate H].
      destruct Hs as [Hs0 Hsr]. destruct st as [[[mol fgs] named] shn], st1 as [[[mol1 fgs1] named1] shn1], g0 as [mn nodes].
      unfold ns_mol, ns_named, ns_shn in *. cbn [fst snd] in *.
      destruct (group_step F mol fgs named shn mn nodes mol1 fgs1 named1 shn1 E1 (Hn _ (or_introl eq_refl)) HE HF
                           (fun n Hin Hnm => Hs0 n Hin (J1 n Hnm)) J2 J3) as (U & Hnamed & Hold & J2' & J3').
      pose proof (name_group2_other_keys _ _ _ E1) as Hk. unfold ns_mol in Hk. cbn [fst] in Hk.
      assert (elemsE mol1) as HE1 by (intros k el Hel; apply (HE k); rewrite <- Hk; [exact Hel|]; intros X; apply str_eqb_eq in X; vm_compute in X; discriminate).
      assert (forall k, node_get mol1 k (S "fragid") = F k) as HF1
        by (intros k; rewrite Hk; [apply HF|]; intros X; apply str_eqb_eq in X; vm_compute in X; discriminate).
      destruct (IH (mol1, fgs1, named1, shn1) st' (seen ++ nodes) H (fun x Hx => Hn x (or_intror Hx)) HE1 HF1 Hsr) as [Ur Kr]; auto.
      { intros n Hin. apply Hnamed in Hin as [Hin|Hin]; apply in_or_app; [left; now apply J1|now right]. }
      unfold ns_mol, ns_named in *. cbn [fst snd] in *. split.
      + intros g [<-|Hg]; [|now apply Ur]. cbn [snd]. erewrite map_ext_in; [exact U|]. intros k Hkn. apply Kr. apply Hnamed. now right.
      + intros k Hkn. rewrite Kr by (apply Hnamed; now left). now apply Hold.
  Qed.

  (** names_unique_per_coarse_node, unconditional for the repaired set_atom_names_atomistic (/repo e15e5bd) *)
  Theorem names_unique_per_coarse_node mol meta fgs mol' fgs' : set_atom_names mol meta fgs = Ok (mol', fgs') ->
    (forall g, In g (fraglist_of meta fgs) -> NoDup (snd g)) -> elemsE mol ->
    shared_ok (fun k => node_get mol k (S "fragid")) [] (fraglist_of meta fgs) ->
    forall g, In g (fraglist_of meta fgs) -> NoDup (map (name_in mol') (snd g)).
  Proof.
    intros H Hn HE Hs g Hg. unfold set_atom_names in H.
    destruct (GraphOps.fold_res name_group2 (fraglist_of meta fgs) (mol, fgs, [], [])) as [r|] eqn:Ef; cbn [bind] in H; [|discriminate H].
    apply ok_inj2 in H. injection H as <- _.
    assert (forall n : Z, In n (ns_named (mol, fgs, [], [])) -> In n []) as A1 by (intros n []).
    assert (forall n : Z, In n (ns_named (mol, fgs, [], [])) -> is_sh (fun k => node_get mol k (S "fragid")) n ->
              exists v, name_in (ns_mol (mol, fgs, [], [])) n = Some v /\ In v (ns_shn (mol, fgs, [], []))) as A2 by (intros n []).
    assert (forall n1 n2 : Z, In n1 (ns_named (mol, fgs, [], [])) -> In n2 (ns_named (mol, fgs, [], [])) ->
              is_sh (fun k => node_get mol k (S "fragid")) n1 -> is_sh (fun k => node_get mol k (S "fragid")) n2 ->
              name_in (ns_mol (mol, fgs, [], [])) n1 = name_in (ns_mol (mol, fgs, [], [])) n2 -> n1 = n2) as A3 by (intros n1 n2 []).
    destruct (groups_names_unique (fun k => node_get mol k (S "fragid")) _ _ _ [] Ef Hn HE (fun k => eq_refl) Hs A1 A2 A3) as [U _].
    exact (U g Hg).
  Qed.
End Unique.

(** a decidable sufficient condition for [elemsE] *)
Definition elems_in (E : list pystr) (mol : graph) : bool :=
  forallb (fun n => match aget (S "element") (na n) with Some (VStr e) => str_in e E | _ => true end) mol.
Lemma elems_in_sound E mol : elems_in E mol = true -> elemsE E mol.
Proof.
  intros H k el Hk. unfold node_get in Hk. destruct (gfind k mol) as [n|] eqn:Eg; [|discriminate].
  apply gfind_in_graph in Eg. unfold elems_in in H. rewrite forallb_forall in H. specialize (H n Eg). rewrite Hk in H.
  unfold str_in in H. apply existsb_exists in H as [x [Hx Ex]]. apply str_eqb_eq in Ex. now subst.
Qed.

(** ---------------------------------------------------------------- element ++ str(index) determines the index *)
Lemma digit_val_char d : (d < 10)%nat -> digit_val (digit_char d) = d.
Proof. intros H. do 10 (destruct d as [|d]; [reflexivity|]). lia. Qed.
Lemma nat_digits_val fuel : forall n acc, (n < fuel)%nat -> digits_val 0 (nat_digits fuel n acc) = digits_val (Z.of_nat n) acc.
Proof.
  induction fuel as [|f IH]; intros n acc H; [lia|]. cbn [nat_digits].
  assert ((n mod 10 < 10)%nat) as Hm by (apply Nat.mod_upper_bound; lia).
  destruct (Nat.ltb_spec n 10) as [Hl|Hl].
  - cbn [digits_val]. rewrite digit_val_char by exact Hm. rewrite Nat.mod_small by exact Hl. f_equal; lia.
  - assert ((n / 10 < f)%nat) as Hd by (assert (n / 10 < n)%nat by (apply Nat.div_lt; lia); lia).
    rewrite (IH (n / 10)%nat _ Hd). cbn [digits_val]. rewrite digit_val_char by exact Hm. f_equal.
    pose proof (Nat.div_mod n 10 ltac:(lia)). try lia.
Qed.
Lemma str_of_nat_val n : digits_val 0 (str_of_nat n) = Z.of_nat n.
Proof. unfold str_of_nat. rewrite nat_digits_val by lia. reflexivity. Qed.
Lemma digit_char_digit d : (d < 10)%nat -> is_digit (digit_char d) = true.
Proof. intros H. do 10 (destruct d as [|d]; [reflexivity|]). lia. Qed.
Lemma nat_digits_all fuel : forall n acc, forallb is_digit acc = true -> forallb is_digit (nat_digits fuel n acc) = true.
Proof.
  induction fuel as [|f IH]; intros n acc H; cbn [nat_digits]; [exact H|].
  assert (forallb is_digit (digit_char (n mod 10) :: acc) = true) as H'
    by (cbn [forallb]; rewrite H, digit_char_digit; [reflexivity|apply Nat.mod_upper_bound; lia]).
  destruct (n <? 10)%nat; [exact H'|now apply IH].
Qed.
Lemma nat_digits_ne fuel : forall n acc, acc <> [] \/ fuel <> 0%nat -> nat_digits fuel n acc <> [].
Proof.
  induction fuel as [|f IH]; intros n acc H; cbn [nat_digits]; [destruct H; [assumption|congruence]|].
  destruct (n <? 10)%nat; [discriminate|]. apply IH. left. discriminate.
Qed.
Definition digit_free (e : pystr) : Prop := forallb (fun c => negb (is_digit c)) e = true.
Lemma split_label : forall e e' d d', digit_free e -> digit_free e' -> forallb is_digit d = true -> forallb is_digit d' = true ->
  d <> [] -> d' <> [] -> e ++ d = e' ++ d' -> e = e' /\ d = d'.
Proof.
  unfold digit_free. induction e as [|c r IH]; destruct e' as [|c' r']; cbn [app forallb]; intros d d' He He' Hd Hd' Nd Nd' H.
  - auto.
  - exfalso. destruct d as [|x d]; [congruence|]. inversion H; subst. cbn in Hd. apply andb_true_iff in Hd as [Hx _].
    apply andb_true_iff in He' as [Hc _]. rewrite Hx in Hc. discriminate.
  - exfalso. destruct d' as [|x d']; [congruence|]. inversion H; subst. cbn in Hd'. apply andb_true_iff in Hd' as [Hx _].
    apply andb_true_iff in He as [Hc _]. rewrite Hx in Hc. discriminate.
  - inversion H; subst. apply andb_true_iff in He as [_ He]. apply andb_true_iff in He' as [_ He'].
    destruct (IH r' d d' He He' Hd Hd' Nd Nd' H2) as [-> ->]. auto.
Qed.
(** for element symbols (no digit in them) the label element ++ str(index) determines element and index *)
Theorem label_inj e e' i j : digit_free e -> digit_free e' -> 0 <= i -> 0 <= j -> atom_label e i = atom_label e' j -> e = e' /\ i = j.
Proof.
  intros He He' Hi Hj H. unfold atom_label in H.
  assert (forall z, 0 <= z -> str_of_Z z = str_of_nat (Z.to_nat z)) as Hs by (intros z Hz; destruct z; try reflexivity; lia).
  rewrite (Hs i Hi), (Hs j Hj) in H.
  assert (forall n, forallb is_digit (str_of_nat n) = true) as A by (intros n; unfold str_of_nat; apply nat_digits_all; reflexivity).
  assert (forall n, str_of_nat n <> []) as N by (intros n; unfold str_of_nat; apply nat_digits_ne; right; discriminate).
  destruct (split_label e e' _ _ He He' (A _) (A _) (N _) (N _) H) as [-> E].
  split; [reflexivity|]. apply (f_equal (digits_val 0)) in E. rewrite !str_of_nat_val in E. lia.
Qed.
Corollary label_inj_list (E : list pystr) : Forall digit_free E ->
  forall e e' i j, In e E -> In e' E -> 0 <= i -> 0 <= j -> atom_label e i = atom_label e' j -> i = j.
Proof. intros HF e e' i j He He' Hi Hj H. rewrite Forall_forall in HF. now destruct (label_inj e e' i j (HF _ He) (HF _ He') Hi Hj H). Qed.
