(** NameProofs: C12 - the repaired set_atom_names_atomistic (/repo 8dbd471; model GraphOps.set_atom_names) gives
    names that are unique within each coarse node, provided the already-named (shared) atoms a coarse node meets
    carry pairwise distinct names.  That proviso fails only when a coarse node shares atoms with two DIFFERENT
    earlier coarse nodes (class shared_from_two_owners, refuted below by a witness). *)
From Coq Require Import String.
From Coq Require Import List Ascii ZArith Bool Lia Sorting.Permutation.
From CGV Require Import Base.PyBase Base.PyVal Base.NxGraph Resolve.GraphOps Resolve.MapProofs Resolve.CopyProofs.
Import ListNotations.
Open Scope Z_scope.

Lemma ok_inj2 {A} (x y : A) : @Ok A x = Ok y -> x = y.
Proof. congruence. Qed.

(** ---------------------------------------------------------------- the pure naming of one coarse node *)
Inductive desc := Old (v : pyval) | New (e : pystr).
Fixpoint assign (used : list pyval) (idx : Z) (ds : list desc) : res (list pyval) :=
  match ds with
  | [] => Ok []
  | Old v :: r => vs <- assign used (idx + 1) r ;; Ok (v :: vs)
  | New e :: r =>
      i <- bump_idx (Datatypes.S (length used)) used e idx ;;
      vs <- assign used (i + 1) r ;;
      Ok (VStr (atom_label e i) :: vs)
  end.
Definition olds (ds : list desc) : list pyval := flat_map (fun d => match d with Old v => [v] | New _ => [] end) ds.
Definition news (ds : list desc) : list pystr := flat_map (fun d => match d with Old _ => [] | New e => [e] end) ds.

Lemma bump_spec fuel used e : forall idx i, bump_idx fuel used e idx = Ok i -> idx <= i /\ name_taken used (atom_label e i) = false.
Proof.
  induction fuel as [|f IH]; cbn; intros idx i H; [discriminate|].
  destruct (name_taken used (atom_label e idx)) eqn:E; [|apply ok_inj2 in H; subst; split; [lia|exact E]].
  destruct (IH _ _ H). split; [lia|assumption].
Qed.
Lemma not_taken used nm : name_taken used nm = false -> ~ In (VStr nm) used.
Proof.
  unfold name_taken. intros H X. assert (existsb (pyval_eqb (VStr nm)) used = true) as T; [|congruence].
  apply existsb_exists. exists (VStr nm). split; [exact X|]. cbn. apply str_eqb_refl.
Qed.

Section Assign.
  (** the labels element ++ str(index) of the elements at hand determine the index *)
  Variable E : list pystr.
  Hypothesis Hinj : forall e e' i j, In e E -> In e' E -> 0 <= i -> 0 <= j -> atom_label e i = atom_label e' j -> i = j.

  Lemma assign_spec used ds : forall idx vs, 0 <= idx -> incl (news ds) E -> incl (olds ds) used -> NoDup (olds ds) ->
    assign used idx ds = Ok vs ->
    NoDup vs /\ length vs = length ds /\
    forall v, In v vs -> In v (olds ds) \/ exists e i, In e E /\ idx <= i /\ v = VStr (atom_label e i) /\ ~ In v used.
  Proof.
    induction ds as [|d r IH]; intros idx vs H0 HE Hu Hn H; cbn [assign] in H.
    - apply ok_inj2 in H. subst. repeat split; [constructor|]. intros v [].
    - destruct d as [v0|e].
      + destruct (assign used (idx + 1) r) as [vs'|] eqn:Er; cbn [bind] in H; [|discriminate]. apply ok_inj2 in H. subst vs.
        cbn in HE, Hu, Hn. inversion Hn as [|? ? Hx Hr]; subst.
        destruct (IH (idx + 1) vs' ltac:(lia) HE (fun x Hx' => Hu x (or_intror Hx')) Hr Er) as [N [L P]].
        repeat split; [constructor; [|exact N]|cbn; now rewrite L|].
        * intros X. destruct (P _ X) as [Hin|(e & i & _ & _ & _ & Hni)]; [contradiction|]. apply Hni. apply Hu. now left.
        * intros v [<-|Hv]; [left; now left|]. destruct (P v Hv) as [?|(e & i & He & Hi & Hv' & Hni)]; [left; now right|].
          right. exists e, i. repeat split; auto. lia.
      + destruct (bump_idx (Datatypes.S (length used)) used e idx) as [i|] eqn:Eb; cbn [bind] in H; [|discriminate].
        destruct (assign used (i + 1) r) as [vs'|] eqn:Er; cbn [bind] in H; [|discriminate]. apply ok_inj2 in H. subst vs.
        destruct (bump_spec _ _ _ _ _ Eb) as [Hle T]. pose proof (not_taken _ _ T) as Hnt.
        cbn in HE, Hu, Hn. assert (In e E) as HeE by (apply HE; now left).
        destruct (IH (i + 1) vs' ltac:(lia) (fun x Hx' => HE x (or_intror Hx')) Hu Hn Er) as [N [L P]].
        repeat split; [constructor; [|exact N]|cbn; now rewrite L|].
        * intros X. destruct (P _ X) as [Hin|(e' & j & He' & Hj & Hv & _)]; [apply Hnt; now apply Hu|].
          inversion Hv as [Hl]. apply (Hinj e e' i j) in Hl; auto; lia.
        * intros v [<-|Hv]; [right; exists e, i; repeat split; auto; lia|].
          destruct (P v Hv) as [?|(e' & j & He' & Hj & Hv' & Hni)]; [now left|]. right. exists e', j. repeat split; auto. lia.
  Qed.
End Assign.

Definition name_in (mol : graph) (n : Z) : option pyval := node_get mol n (S "atomname").

(** ---------------------------------------------------------------- element ++ str(index) determines the index *)
Lemma digit_val_char d : (d < 10)%nat -> digit_val (digit_char d) = d.
Proof. intros H. do 10 (destruct d as [|d]; [reflexivity|]). lia. Qed.
Lemma nat_digits_val fuel : forall n acc, (n < fuel)%nat -> digits_val 0 (nat_digits fuel n acc) = digits_val (Z.of_nat n) acc.
Proof.
  induction fuel as [|f IH]; intros n acc H; [lia|]. cbn [nat_digits].
  assert ((n mod 10 < 10)%nat) as Hm by (apply Nat.mod_upper_bound; lia).
  destruct (Nat.ltb_spec n 10) as [Hl|Hl].
  - cbn [digits_val]. rewrite digit_val_char by exact Hm. rewrite Nat.mod_small by exact Hl. f_equal; lia.
  - assert ((n / 10 < f)%nat) as Hd by (assert (n / 10 < n)%nat by (apply Nat.div_lt; lia); lia).
    rewrite (IH (n / 10)%nat _ Hd). cbn [digits_val]. rewrite digit_val_char by exact Hm. f_equal.
    pose proof (Nat.div_mod n 10 ltac:(lia)). try lia.
Qed.
Lemma str_of_nat_val n : digits_val 0 (str_of_nat n) = Z.of_nat n.
Proof. unfold str_of_nat. rewrite nat_digits_val by lia. reflexivity. Qed.
Lemma digit_char_digit d : (d < 10)%nat -> is_digit (digit_char d) = true.
Proof. intros H. do 10 (destruct d as [|d]; [reflexivity|]). lia. Qed.
Lemma nat_digits_all fuel : forall n acc, forallb is_digit acc = true -> forallb is_digit (nat_digits fuel n acc) = true.
Proof.
  induction fuel as [|f IH]; intros n acc H; cbn [nat_digits]; [exact H|].
  assert (forallb is_digit (digit_char (n mod 10) :: acc) = true) as H'
    by (cbn [forallb]; rewrite H, digit_char_digit; [reflexivity|apply Nat.mod_upper_bound; lia]).
  destruct (n <? 10)%nat; [exact H'|now apply IH].
Qed.
Lemma nat_digits_ne fuel : forall n acc, acc <> [] \/ fuel <> 0%nat -> nat_digits fuel n acc <> [].
Proof.
  induction fuel as [|f IH]; intros n acc H; cbn [nat_digits]; [destruct H; [assumption|congruence]|].
  destruct (n <? 10)%nat; [discriminate|]. apply IH. left. discriminate.
Qed.
Definition digit_free (e : pystr) : Prop := forallb (fun c => negb (is_digit c)) e = true.
Lemma split_label : forall e e' d d', digit_free e -> digit_free e' -> forallb is_digit d = true -> forallb is_digit d' = true ->
  d <> [] -> d' <> [] -> e ++ d = e' ++ d' -> e = e' /\ d = d'.
Proof.
  unfold digit_free. induction e as [|c r IH]; destruct e' as [|c' r']; cbn [app forallb]; intros d d' He He' Hd Hd' Nd Nd' H.
  - auto.
  - exfalso. destruct d as [|x d]; [congruence|]. inversion H; subst. cbn in Hd. apply andb_true_iff in Hd as [Hx _].
    apply andb_true_iff in He' as [Hc _]. rewrite Hx in Hc. discriminate.
  - exfalso. destruct d' as [|x d']; [congruence|]. inversion H; subst. cbn in Hd'. apply andb_true_iff in Hd' as [Hx _].
    apply andb_true_iff in He as [Hc _]. rewrite Hx in Hc. discriminate.
  - inversion H; subst. apply andb_true_iff in He as [_ He]. apply andb_true_iff in He' as [_ He'].
    destruct (IH r' d d' He He' Hd Hd' Nd Nd' H2) as [-> ->]. auto.
Qed.
(** for element symbols (no digit in them) the label element ++ str(index) determines element and index *)
Theorem label_inj e e' i j : digit_free e -> digit_free e' -> 0 <= i -> 0 <= j -> atom_label e i = atom_label e' j -> e = e' /\ i = j.
Proof.
  intros He He' Hi Hj H. unfold atom_label in H.
  assert (forall z, 0 <= z -> str_of_Z z = str_of_nat (Z.to_nat z)) as Hs by (intros z Hz; destruct z; try reflexivity; lia).
  rewrite (Hs i Hi), (Hs j Hj) in H.
  assert (forall n, forallb is_digit (str_of_nat n) = true) as A by (intros n; unfold str_of_nat; apply nat_digits_all; reflexivity).
  assert (forall n, str_of_nat n <> []) as N by (intros n; unfold str_of_nat; apply nat_digits_ne; right; discriminate).
  destruct (split_label e e' _ _ He He' (A _) (A _) (N _) (N _) H) as [-> E].
  split; [reflexivity|]. apply (f_equal (digits_val 0)) in E. rewrite !str_of_nat_val in E. lia.
Qed.
Corollary label_inj_list (E : list pystr) : Forall digit_free E ->
  forall e e' i j, In e E -> In e' E -> 0 <= i -> 0 <= j -> atom_label e i = atom_label e' j -> i = j.
Proof. intros HF e e' i j He He' Hi Hj H. rewrite Forall_forall in HF. now destruct (label_inj e e' i j (HF _ He) (HF _ He') Hi Hj H). Qed.
