(** DriversInst: the concrete resolver models are instances of the abstract driver machine
    Resolve/Drivers.v (C06), so the C06 theorems apply to them verbatim.
    (a) the END-TO-END resolver (PipelineFull.driver_step) is DEFINED as the instance;
    (b) Pipeline.resolve / resolve_iter / resolve_all (the transcript-based model the checks run) are proved
        to be simulated step by step by the instance with step := Pipeline.resolve_step. *)
From Coq Require Import String.
From Coq Require Import List Ascii ZArith Bool Lia.
From CGV Require Import Base.PyBase Base.PyVal Base.NxGraph Resolve.Bonding Resolve.GraphOps Resolve.Pipeline
     Resolve.PipelineFull Resolve.Drivers Resolve.DriversProofs.
Import ListNotations.
Open Scope nat_scope.

(** ---------------------------------------------------------------- (a) the end-to-end resolver *)
Definition full_state := Drivers.rstate level amol.
Definition full_fresh (base : graph) (ds : list level) (laa : bool) : full_state := fresh level amol (base, []) ds laa.
Definition full_resolve (legacy : bool) := Drivers.resolve level amol (driver_step legacy).
Definition full_resolve_iter (legacy : bool) := Drivers.resolve_iter level amol (driver_step legacy).
Definition full_resolve_all (legacy : bool) := Drivers.resolve_all level amol (driver_step legacy).

(** the C06 theorems, verbatim, for the end-to-end model *)
Theorem full_manual_is_prefix_of_iter legacy : forall m ds laa k st outs, k <= length ds ->
  full_resolve_iter legacy (fresh level amol m ds laa) = Ok (st, outs) ->
  exists stk, resolve_n level amol (driver_step legacy) k (fresh level amol m ds laa) = Ok (stk, firstn k outs).
Proof. exact (manual_is_prefix_of_iter level amol (driver_step legacy)). Qed.
Theorem full_all_is_last_of_iter legacy : forall m ds laa st outs,
  full_resolve_iter legacy (fresh level amol m ds laa) = Ok (st, outs) -> ds <> [] ->
  exists last, full_resolve_all legacy (fresh level amol m ds laa) = Ok (st, last)
               /\ nth_error outs (length ds - 1) = Some last.
Proof. exact (all_is_last_of_iter level amol (driver_step legacy)). Qed.
Theorem full_chain legacy : forall n st st' outs, resolve_n level amol (driver_step legacy) n st = Ok (st', outs) ->
  forall i out, nth_error outs i = Some out ->
  exists d, nth_error (dicts st) (counter st + i) = Some d /\
    driver_step legacy d (Nat.eqb (Datatypes.S (counter st + i)) (length (dicts st)) && last_all_atom st)
         (match i with 0 => molecule st | Datatypes.S j => match nth_error outs j with Some o => snd o | None => molecule st end end)
    = Ok out.
Proof. exact (chain level amol (driver_step legacy)). Qed.
Theorem full_past_end legacy : forall st, length (dicts st) <= counter st -> full_resolve legacy st = Err EIndex.
Proof. exact (past_end level amol (driver_step legacy)). Qed.

(** ---------------------------------------------------------------- (b) Pipeline.resolve is an instance *)
Definition tlevel := (fragdict * transcript)%type.
Definition tstep (legacy : bool) (l : tlevel) (all_atom : bool) (m : amol) : res (amol * amol) :=
  so <- resolve_step legacy all_atom (fst l) (fst m) (snd l) ;;
  Ok ((so_meta so, so_fgs so), (so_mol so, [])).

(** abstraction of the concrete resolver object, given the transcripts of ALL levels *)
Definition abs (trs : list transcript) (st : Pipeline.rstate) : Drivers.rstate tlevel amol :=
  {| molecule := (st_mol st, []); counter := st_counter st; dicts := combine (st_dicts st) trs;
     last_all_atom := st_laa st |}.
Definition out_abs (o : graph * fgraphs * graph) : amol * amol := ((fst (fst o), snd (fst o)), (snd o, [])).
(** the invariant of a resolver object made by a constructor: `resolutions` is the number of dictionaries *)
Definition inv (trs : list transcript) (st : Pipeline.rstate) : Prop :=
  st_res st = length (st_dicts st) /\ length trs = length (st_dicts st).

Lemma nth_error_combine {A B} (l : list A) : forall (m : list B) i a b,
  nth_error l i = Some a -> nth_error m i = Some b -> nth_error (combine l m) i = Some (a, b).
Proof.
  induction l as [|x r IH]; intros m i a b Ha Hb; destruct i; destruct m; cbn in *; try discriminate.
  - inversion Ha; inversion Hb; subst. reflexivity.
  - now apply IH.
Qed.
Lemma nth_error_combine_none {A B} (l : list A) : forall (m : list B) i,
  nth_error l i = None -> nth_error (combine l m) i = None.
Proof. induction l as [|x r IH]; intros m i H; destruct i; destruct m; cbn in *; try discriminate; auto. Qed.
Lemma nth_default_error {A} (l : list A) i d x : nth_error l i = Some x -> nth i l d = x.
Proof. revert i. induction l; intros [|i]; cbn; try discriminate; [intros H; now inversion H|apply IHl]. Qed.

(** one call: the concrete resolve() does exactly what the abstract driver does with step := resolve_step *)
Theorem resolve_is_instance trs st : inv trs st ->
  match Pipeline.resolve st (nth (st_counter st) trs no_transcript),
        Drivers.resolve tlevel amol (tstep (st_legacy st)) (abs trs st) with
  | Ok (st', o), Ok (dst', o') =>
      dst' = abs trs st' /\ o' = out_abs o /\ inv trs st' /\ st_legacy st' = st_legacy st
      /\ st_counter st' = Datatypes.S (st_counter st)
  | Err e, Err e' => e = e'
  | _, _ => False
  end.
Proof.
  intros [Hr Hl]. unfold Pipeline.resolve, Drivers.resolve, uses, abs, tlevel. cbn [dicts counter molecule last_all_atom].
  destruct (nth_error (st_dicts st) (st_counter st)) as [fd|] eqn:Ed.
  - assert (exists tr, nth_error trs (st_counter st) = Some tr) as [tr Et].
    { destruct (nth_error trs (st_counter st)) eqn:E; [eauto|]. apply nth_error_None in E.
      assert (st_counter st < length (st_dicts st)) by (apply nth_error_Some; congruence). lia. }
    rewrite (nth_error_combine _ _ _ _ _ Ed Et), (nth_default_error _ _ _ _ Et).
    unfold of_option, bind at 1. cbn [snd fst].
    rewrite combine_length, Hl, Nat.min_id. unfold is_all_atom. rewrite Hr. unfold tstep. cbn [fst snd].
    destruct (resolve_step (st_legacy st) _ fd (st_mol st) tr) as [so|e]; cbn; [|reflexivity].
    repeat split; auto.
  - rewrite (nth_error_combine_none _ _ _ Ed). cbn. reflexivity.
Qed.

(** n successive calls (resolve_iter's loop) *)
Lemma hd_skipn {A} (d : A) (l : list A) : forall c, match skipn c l with t :: _ => t | [] => d end = nth c l d.
Proof. induction l as [|t r IH]; intros [|c]; try reflexivity. apply IH. Qed.
Lemma tl_skipn {A} (l : list A) : forall c, tl (skipn c l) = skipn (Datatypes.S c) l.
Proof. induction l as [|t r IH]; intros [|c]; cbn [skipn tl]; try reflexivity. apply IH. Qed.
Theorem resolve_n_is_instance trs : forall n st, inv trs st ->
  match Pipeline.resolve_iter_n n st (skipn (st_counter st) trs),
        Drivers.resolve_n tlevel amol (tstep (st_legacy st)) n (abs trs st) with
  | Ok (st', os), Ok (dst', os') => dst' = abs trs st' /\ os' = map out_abs os /\ inv trs st'
  | Err e, Err e' => e = e'
  | _, _ => False
  end.
Proof.
  induction n as [|n IH]; intros st Hi; [cbn; auto|].
  cbn [Pipeline.resolve_iter_n Drivers.resolve_n].
  rewrite (hd_skipn no_transcript trs (st_counter st)).
  pose proof (resolve_is_instance trs st Hi) as H1.
  destruct (Pipeline.resolve st _) as [[st1 o]|e]; destruct (Drivers.resolve _ _ _ _) as [[dst1 o1]|e1]; try contradiction.
  - destruct H1 as [-> [-> [Hi1 [Hleg Hc]]]]. cbn.
    rewrite tl_skipn, <- Hc.
    specialize (IH st1 Hi1). rewrite Hleg in IH.
    destruct (Pipeline.resolve_iter_n n st1 _) as [[st2 os]|e2]; destruct (Drivers.resolve_n _ _ _ n _) as [[dst2 os2]|e3];
      try contradiction; cbn.
    + destruct IH as [-> [-> Hi2]]. auto.
    + exact IH.
  - cbn. exact H1.
Qed.

(** resolve_iter / resolve_all of a freshly constructed resolver object *)
Theorem resolve_iter_is_instance trs st : inv trs st -> st_counter st = 0 ->
  match Pipeline.resolve_iter st trs, Drivers.resolve_iter tlevel amol (tstep (st_legacy st)) (abs trs st) with
  | Ok (st', os), Ok (dst', os') => dst' = abs trs st' /\ os' = map out_abs os
  | Err e, Err e' => e = e'
  | _, _ => False
  end.
Proof.
  intros Hi Hc. unfold Pipeline.resolve_iter, Drivers.resolve_iter.
  change (dicts (abs trs st)) with (combine (st_dicts st) trs). unfold tlevel.
  destruct Hi as [Hr Hl]. rewrite combine_length, Hl, Nat.min_id, Hr.
  pose proof (resolve_n_is_instance trs (length (st_dicts st)) st (conj Hr Hl)) as H. rewrite Hc in H. cbn [skipn] in H.
  destruct (Pipeline.resolve_iter_n _ st trs) as [[st' os]|e]; destruct (Drivers.resolve_n _ _ _ _ _) as [[dst' os']|e'];
    try contradiction; [destruct H as [H1 [H2 _]]; auto|exact H].
Qed.
Theorem resolve_all_is_instance trs st : inv trs st -> st_counter st = 0 ->
  match Pipeline.resolve_all st trs, Drivers.resolve_all tlevel amol (tstep (st_legacy st)) (abs trs st) with
  | Ok (st', o), Ok (dst', o') => dst' = abs trs st' /\ o' = out_abs o
  | Err e, Err e' => e = e'
  | _, _ => False
  end.
Proof.
  intros Hi Hc. unfold Pipeline.resolve_all, Drivers.resolve_all.
  pose proof (resolve_iter_is_instance trs st Hi Hc) as H.
  destruct (Pipeline.resolve_iter st trs) as [[st' os]|e]; destruct (Drivers.resolve_iter _ _ _ _) as [[dst' os']|e'];
    try contradiction; cbn; [|exact H].
  destruct H as [-> ->]. rewrite <- map_rev. destruct (rev os); cbn; auto.
Qed.

(** the constructors establish the invariant *)
Lemma init_inv mol ds laa legacy trs : length trs = length ds -> inv trs (init mol ds laa legacy) /\ st_counter (init mol ds laa legacy) = 0.
Proof. intros H. repeat split; auto. Qed.
