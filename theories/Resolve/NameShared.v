(** NameShared: C12 - WHICH index an atom gets when atoms are shared between coarse nodes (squash operator), for the repaired
    set_atom_names_atomistic (/repo 8dbd471 + e15e5bd; model GraphOps.set_atom_names).  Closed form:
      - a coarse node's atoms are visited in the order of its graph with a counter idx that starts at 0;
      - an atom named before (its FIRST owner was an earlier coarse node) keeps that name; the counter advances by one;
      - a new atom gets element ++ str(i) where i is the LEAST index >= idx whose label is not a name already carried by an
        atom of this coarse node and - if the atom belongs to several coarse nodes - not the name of any shared atom named so
        far in the whole molecule; the counter continues at i + 1;
      - the names never change afterwards (first owner wins).
    [exact] below is this specification; it determines the names uniquely, and the model computes it (assign_exact, group_exact,
    set_atom_names_exact).  Corollaries: in the first coarse node with atoms every atom - shared or not - is named
    element ++ str(position); a new atom whose candidate label is free is named element ++ str(idx). *)
From Coq Require Import String.
From Coq Require Import List Ascii ZArith Bool Lia Sorting.Permutation.
From CGV Require Import Base.PyBase Base.PyVal Base.NxGraph Resolve.GraphOps Resolve.MapProofs Resolve.CopyProofs Resolve.NameProofs
     Resolve.FragidProofs.
Import ListNotations.
Open Scope Z_scope.

(** ---------------------------------------------------------------- `while atomname in used: idx += 1` finds the LEAST free index *)
Definition lfree (taken : list pyval) (e : pystr) (idx i : Z) : Prop :=
  idx <= i /\ name_taken taken (atom_label e i) = false /\ forall j, idx <= j < i -> name_taken taken (atom_label e j) = true.
Lemma bump_least fuel taken e : forall idx i, bump_idx fuel taken e idx = Ok i -> lfree taken e idx i.
Proof.
  induction fuel as [|f IH]; cbn; intros idx i H; [discriminate|].
  destruct (name_taken taken (atom_label e idx)) eqn:E.
  - destruct (IH _ _ H) as (A & B & C). split; [lia|]. split; [exact B|]. intros j Hj.
    destruct (Z.eq_dec j idx) as [->|N]; [exact E|apply C; lia].
  - apply ok_inj2 in H. subst i. split; [lia|]. split; [exact E|]. intros j Hj. lia.
Qed.
Lemma lfree_unique taken e idx i j : lfree taken e idx i -> lfree taken e idx j -> i = j.
Proof.
  intros (A1 & B1 & C1) (A2 & B2 & C2). destruct (Z.lt_trichotomy i j) as [L|[E|L]]; [|exact E|].
  - rewrite (C2 i) in B1 by lia. discriminate.
  - rewrite (C1 j) in B2 by lia. discriminate.
Qed.
Lemma lfree_here taken e idx : name_taken taken (atom_label e idx) = false -> lfree taken e idx idx.
Proof. intros H. split; [lia|]. split; [exact H|]. intros j Hj. lia. Qed.

(** the loop never runs out of fuel when the labels of one element are pairwise different (element symbols without digits):
    every taken candidate removes at least one entry from the names that can still be met *)
Lemma taken_in taken nm : name_taken taken nm = true -> In (VStr nm) taken.
Proof.
  unfold name_taken. intros H. apply existsb_exists in H as [x [Hx E]]. destruct x; cbn in E; try discriminate E.
  apply str_eqb_eq in E. now subst.
Qed.
Lemma filter_len {A} (p : A -> bool) l : (length (filter p l) <= length l)%nat.
Proof. induction l as [|x r IH]; cbn; [lia|]. destruct (p x); cbn; lia. Qed.
Definition drop_name (nm : pystr) (l : list pyval) : list pyval := filter (fun w => negb (pyval_eqb (VStr nm) w)) l.
Lemma drop_name_taken nm0 nm l : nm <> nm0 -> name_taken (drop_name nm0 l) nm = name_taken l nm.
Proof.
  intros N. unfold name_taken, drop_name. induction l as [|w r IH]; [reflexivity|]. cbn [filter existsb].
  destruct (pyval_eqb (VStr nm0) w) eqn:E0; cbn [negb].
  - rewrite IH. destruct (pyval_eqb (VStr nm) w) eqn:E1; [|reflexivity]. exfalso. apply N.
    destruct w; cbn in E0, E1; try discriminate E0. apply str_eqb_eq in E0, E1. congruence.
  - cbn [existsb]. now rewrite IH.
Qed.
Lemma drop_name_shorter nm l : name_taken l nm = true -> (length (drop_name nm l) < length l)%nat.
Proof.
  unfold name_taken, drop_name. induction l as [|w r IH]; cbn [existsb filter length]; [discriminate|].
  destruct (pyval_eqb (VStr nm) w) eqn:E; cbn [negb orb length].
  - intros _. pose proof (filter_len (fun w0 => negb (pyval_eqb (VStr nm) w0)) r). lia.
  - intros H. specialize (IH H). lia.
Qed.
Lemma bump_total e : (forall i j, 0 <= i -> 0 <= j -> atom_label e i = atom_label e j -> i = j) ->
  forall fuel taken idx, 0 <= idx -> (length taken < fuel)%nat -> exists i, bump_idx fuel taken e idx = Ok i.
Proof.
  intros Hinj. induction fuel as [|f IH]; intros taken idx H0 Hl; [exfalso; lia|]. cbn [bump_idx].
  destruct (name_taken taken (atom_label e idx)) eqn:E; [|eexists; reflexivity].
  pose proof (drop_name_shorter _ _ E) as Hs.
  assert (0 <= idx + 1) as H1 by lia. assert (length (drop_name (atom_label e idx) taken) < f)%nat as H2 by lia.
  destruct (IH (drop_name (atom_label e idx) taken) (idx + 1) H1 H2) as [i Hi]. exists i. rewrite <- Hi.
  assert (idx < idx + 1) as Hlt by lia. clear -Hinj H0 Hlt. revert Hlt. generalize (idx + 1).
  induction f as [|f IH2]; intros j Hj; [reflexivity|]. cbn [bump_idx].
  rewrite drop_name_taken by (intros X; apply Hinj in X; lia).
  destruct (name_taken taken (atom_label e j)); [apply IH2; lia|reflexivity].
Qed.

(** ---------------------------------------------------------------- the specification of one coarse node's pass *)
(** [exact used shn idx ds vs shn']: the names vs of the atoms ds (Old v: named before, New e sh: new, element e, sh = belongs to
    several coarse nodes) when the counter stands at idx, the names already carried by atoms of this coarse node are [used] and
    the names of the shared atoms named so far are [shn]; shn' = the shared names afterwards *)
Fixpoint exact (used shn : list pyval) (idx : Z) (ds : list desc) (vs : list pyval) (shn' : list pyval) : Prop :=
  match ds, vs with
  | [], [] => shn' = shn
  | Old v :: r, w :: ws => w = v /\ exact used shn (idx + 1) r ws shn'
  | New e sh :: r, w :: ws =>
      exists i, lfree (taken_of used shn sh) e idx i /\ w = VStr (atom_label e i) /\
                exact used (if sh then w :: shn else shn) (i + 1) r ws shn'
  | _, _ => False
  end.
Theorem assign_exact used : forall ds shn idx vs shn', assign used shn idx ds = Ok (vs, shn') -> exact used shn idx ds vs shn'.
Proof.
  induction ds as [|d r IH]; intros shn idx vs shn' H; cbn [assign] in H.
  - apply ok_inj2 in H. injection H as <- <-. reflexivity.
  - destruct d as [v|e sh].
    + destruct (assign used shn (idx + 1) r) as [[vs' s']|] eqn:Er; cbn [bind] in H; [|discriminate H]. apply ok_inj2 in H. injection H as <- <-.
      cbn [exact]. split; [reflexivity|]. now apply IH.
    + destruct (bump_idx _ (taken_of used shn sh) e idx) as [i|] eqn:Eb; cbn [bind] in H; [|discriminate H].
      destruct (assign used (if sh then VStr (atom_label e i) :: shn else shn) (i + 1) r) as [[vs' s']|] eqn:Er; cbn [bind] in H; [|discriminate H].
      apply ok_inj2 in H. injection H as <- <-. cbn [exact]. exists i. split; [exact (bump_least _ _ _ _ _ Eb)|]. split; [reflexivity|]. now apply IH.
Qed.
(** the specification determines the names *)
Theorem exact_unique used : forall ds shn idx vs1 s1 vs2 s2, exact used shn idx ds vs1 s1 -> exact used shn idx ds vs2 s2 -> vs1 = vs2 /\ s1 = s2.
Proof.
  induction ds as [|d r IH]; intros shn idx vs1 s1 vs2 s2 H1 H2; destruct vs1 as [|w1 r1], vs2 as [|w2 r2]; cbn [exact] in H1, H2; try contradiction.
  - split; [reflexivity|congruence].
  - destruct d; contradiction.
  - destruct d; contradiction.
  - destruct d; contradiction.
  - destruct d as [v|e sh].
    + destruct H1 as [-> H1], H2 as [-> H2]. destruct (IH _ _ _ _ _ _ H1 H2) as [-> ->]. auto.
    + destruct H1 as (i1 & L1 & -> & H1), H2 as (i2 & L2 & -> & H2). pose proof (lfree_unique _ _ _ _ _ L1 L2) as <-.
      destruct (IH _ _ _ _ _ _ H1 H2) as [-> ->]. auto.
Qed.
(** when the labels are pairwise different the model always returns the names the specification describes *)
Theorem assign_total E : (forall e i j, In e E -> 0 <= i -> 0 <= j -> atom_label e i = atom_label e j -> i = j) ->
  forall used ds shn idx, 0 <= idx -> incl (news ds) E -> exists vs shn', assign used shn idx ds = Ok (vs, shn').
Proof.
  intros Hinj used. induction ds as [|d r IH]; intros shn idx H0 HE; cbn [assign]; [eauto|].
  destruct d as [v|e sh].
  - destruct (IH shn (idx + 1) ltac:(lia) HE) as (vs & s' & ->). cbn [bind]. eauto.
  - cbn in HE. destruct (bump_total e (fun i j => Hinj e i j (HE e (or_introl eq_refl))) (Datatypes.S (length (taken_of used shn sh))) (taken_of used shn sh) idx H0 ltac:(lia)) as [i Hi].
    rewrite Hi. cbn [bind]. destruct (bump_least _ _ _ _ _ Hi) as [Hle _].
    destruct (IH (if sh then VStr (atom_label e i) :: shn else shn) (i + 1) ltac:(lia) (fun x Hx => HE x (or_intror Hx))) as (vs & s' & ->). cbn [bind]. eauto.
Qed.

(** closed form, no collision: a new atom whose candidate label is free is named element ++ str(counter) *)
Lemma exact_new_free used shn idx e sh r w ws shn' : exact used shn idx (New e sh :: r) (w :: ws) shn' ->
  name_taken (taken_of used shn sh) (atom_label e idx) = false ->
  w = VStr (atom_label e idx) /\ exact used (if sh then w :: shn else shn) (idx + 1) r ws shn'.
Proof.
  cbn [exact]. intros (i & L & -> & H) T. pose proof (lfree_unique _ _ _ _ _ L (lfree_here _ _ _ T)) as ->. auto.
Qed.
(** closed form, FIRST coarse node with atoms (nothing named before: used = [], no Old atom): every atom - shared or not - is
    named element ++ str(position), when labels are pairwise different *)
Fixpoint pos_names (idx : Z) (ds : list desc) : list pyval :=
  match ds with
  | [] => []
  | Old v :: r => v :: pos_names (idx + 1) r
  | New e _ :: r => VStr (atom_label e idx) :: pos_names (idx + 1) r
  end.
Theorem exact_first_group E : (forall e e' i j, In e E -> In e' E -> 0 <= i -> 0 <= j -> atom_label e i = atom_label e' j -> i = j) ->
  forall ds shn idx vs shn', 0 <= idx -> incl (news ds) E -> olds ds = [] ->
  (forall v, In v shn -> exists e j, In e E /\ 0 <= j < idx /\ v = VStr (atom_label e j)) ->
  exact [] shn idx ds vs shn' -> vs = pos_names idx ds.
Proof.
  intros Hinj. induction ds as [|d r IH]; intros shn idx vs shn' H0 HE Ho Hs H; destruct vs as [|w ws]; cbn [exact] in H; try contradiction.
  - reflexivity.
  - destruct d; contradiction.
  - destruct d as [v|e sh]; [cbn in Ho; discriminate Ho|]. cbn in HE, Ho.
    assert (In e E) as HeE by (apply HE; now left).
    assert (name_taken (taken_of [] shn sh) (atom_label e idx) = false) as T.
    { unfold taken_of. cbn [app]. destruct sh; [|reflexivity].
      destruct (name_taken shn (atom_label e idx)) eqn:T1; [|reflexivity]. exfalso. apply taken_in in T1.
      destruct (Hs _ T1) as (e' & j & He' & Hj & X). inversion X as [X']. apply (Hinj e e' idx j HeE He') in X'; lia. }
    destruct (exact_new_free _ _ _ _ _ _ _ _ _ H T) as [-> H']. cbn [pos_names]. f_equal.
    apply (IH (if sh then VStr (atom_label e idx) :: shn else shn) (idx + 1) ws shn'); auto; [lia|intros x Hx; apply HE; now right|].
    intros v Hv. destruct sh.
    + destruct Hv as [<-|Hv]; [exists e, idx; repeat split; auto; lia|]. destruct (Hs v Hv) as (e' & j & A & B & C). exists e', j. repeat split; auto; lia.
    + destruct (Hs v Hv) as (e' & j & A & B & C). exists e', j. repeat split; auto; lia.
Qed.

(** ---------------------------------------------------------------- one coarse node of set_atom_names *)
Definition olds_kept (d : desc) (v : pyval) : Prop := match d with Old w => v = w | New e _ => exists i, v = VStr (atom_label e i) end.
Lemma exact_forall2 used : forall ds shn idx vs shn', exact used shn idx ds vs shn' -> Forall2 olds_kept ds vs.
Proof.
  induction ds as [|d r IH]; intros shn idx vs shn' H; destruct vs as [|w ws]; cbn [exact] in H; try contradiction; [constructor|destruct d; contradiction|].
  destruct d as [v|e sh].
  - destruct H as [-> H]. constructor; [reflexivity|]. eapply IH. exact H.
  - destruct H as (i & _ & -> & H). constructor; [exists i; reflexivity|]. eapply IH. exact H.
Qed.
Theorem group_exact mol fgs named shn mn nodes mol1 fgs1 named1 shn1 :
  name_group2 (mol, fgs, named, shn) (mn, nodes) = Ok (mol1, fgs1, named1, shn1) -> NoDup nodes ->
  exists ds vs, GraphOps.map_res (desc_of mol named) nodes = Ok ds /\
    exact (olds ds) shn 0 ds vs shn1 /\
    map (name_in mol1) nodes = map Some vs /\
    (forall k, ~ In k nodes -> node_attrs mol1 k = node_attrs mol k) /\
    (forall k, In k named1 <-> In k named \/ In k nodes) /\
    (forall k, In k named -> name_in mol1 k = name_in mol k).
Proof.
  intros H Hn. unfold name_group2 in H. cbn [fst snd] in H.
  destruct (used_names mol named nodes) as [used|] eqn:Hu; cbn [bind] in H; [|discriminate H].
  match type of H with bind ?x _ = _ => destruct x as [[[[[m f] nd] sn] ix]|] eqn:Ef end; cbn [bind] in H; [|discriminate H].
  apply ok_inj2 in H. cbn [fst] in H. injection H as -> -> -> ->.
  destruct (inner_fold mn used nodes mol fgs named shn 0 mol1 fgs1 named1 shn1 ix Hn Ef) as (ds & vs & Hds & Has & Hnames & Hkeep & Hnamed).
  pose proof (olds_used _ _ _ _ _ Hds Hu) as Ho. pose proof (assign_exact _ _ _ _ _ _ Has) as Hex. rewrite <- Ho in Hex.
  exists ds, vs. split; [exact Hds|]. split; [exact Hex|]. split; [exact Hnames|]. split; [exact Hkeep|]. split; [exact Hnamed|].
  intros k Hk. destruct (in_dec Z.eq_dec k nodes) as [Hin|Hout].
  - destruct (positional _ _ _ nodes ds vs Hds Hnames (exact_forall2 _ _ _ _ _ _ Hex) k Hin) as (d & v & Hd & Hv & Hg & _). unfold desc_of in Hd.
    destruct (node_attrs mol k) as [a|] eqn:Ea; cbn [bind] in Hd; [|discriminate Hd].
    apply zin_l_In in Hk. rewrite Hk in Hd. destruct (aget (S "atomname") a) as [w|] eqn:Ew; cbn [of_option bind] in Hd; [|discriminate Hd].
    apply ok_inj2 in Hd. subst d. cbn in Hg. subst v. now rewrite Hv, (node_get_attrs mol k a Ea).
  - unfold name_in, node_get. pose proof (Hkeep k Hout) as Ek. unfold node_attrs in Ek.
    destruct (gfind k mol1), (gfind k mol); try discriminate; [apply ok_inj2 in Ek; now rewrite Ek|reflexivity].
Qed.

(** ---------------------------------------------------------------- all coarse nodes: first owner wins *)
Lemma groups_keep : forall groups st st', GraphOps.fold_res name_group2 groups st = Ok st' -> (forall g, In g groups -> NoDup (snd g)) ->
  (forall k, In k (ns_named st) -> name_in (ns_mol st') k = name_in (ns_mol st) k) /\
  (forall k, In k (ns_named st') <-> In k (ns_named st) \/ exists g, In g groups /\ In k (snd g)).
Proof.
  induction groups as [|g0 r IH]; intros st st' H Hn; cbn [GraphOps.fold_res] in H.
  - apply ok_inj2 in H. subst st'. split; [reflexivity|]. intros k. split; [now left|intros [?|[g [[] _]]]; assumption].
  - destruct (name_group2 st g0) as [st1|] eqn:E1; cbn [bind] in H; [|discriminate H].
    destruct st as [[[mol fgs] named] shn], st1 as [[[mol1 fgs1] named1] shn1], g0 as [mn nodes].
    destruct (group_exact _ _ _ _ _ _ _ _ _ _ E1 (Hn _ (or_introl eq_refl))) as (ds & vs & _ & _ & _ & _ & Hnamed & Hold).
    destruct (IH _ _ H (fun g Hg => Hn g (or_intror Hg))) as [K N]. unfold ns_mol, ns_named in *. cbn [fst snd] in *. split.
    + intros k Hk. rewrite K by (apply Hnamed; now left). now apply Hold.
    + intros k. rewrite N, Hnamed. split.
      * intros [[?|?]|[g [Hg Hk]]]; [now left|right; exists (mn, nodes); split; [now left|assumption]|right; exists g; split; [now right|assumption]].
      * intros [?|[g [[<-|Hg] Hk]]]; [left; now left|left; now right|right; exists g; auto].
Qed.

(** THE closed form on GraphOps.set_atom_names: for every coarse node (mn, nodes) of the fragment list, with the state
    (molA, namedA, shnA) the loop has reached before it - namedA = the atoms of the earlier coarse nodes, whose names are
    final -, the names the atoms of mn carry in the RETURNED graph are the ones [exact] describes: an atom of an earlier
    coarse node keeps its name, a new atom gets the least free index from the counter on *)
Theorem set_atom_names_exact mol meta fgs mol' fgs' : set_atom_names mol meta fgs = Ok (mol', fgs') ->
  (forall g, In g (fraglist_of meta fgs) -> NoDup (snd g)) ->
  forall pre mn nodes post, fraglist_of meta fgs = pre ++ (mn, nodes) :: post ->
  exists molA fgsA namedA shnA ds vs shnB,
    GraphOps.fold_res name_group2 pre (mol, fgs, [], []) = Ok (molA, fgsA, namedA, shnA) /\
    (forall k, In k namedA <-> exists g, In g pre /\ In k (snd g)) /\
    (forall k, In k namedA -> name_in mol' k = name_in molA k) /\
    GraphOps.map_res (desc_of molA namedA) nodes = Ok ds /\
    exact (olds ds) shnA 0 ds vs shnB /\
    map (name_in mol') nodes = map Some vs.
Proof.
  intros H Hn pre mn nodes post Efl. unfold set_atom_names in H. rewrite Efl in H, Hn. rewrite VirtualProofs.fold_res_app in H.
  destruct (GraphOps.fold_res name_group2 pre (mol, fgs, [], [])) as [[[[molA fgsA] namedA] shnA]|] eqn:Epre; cbn [bind] in H; [|discriminate H].
  cbn [GraphOps.fold_res] in H. destruct (name_group2 (molA, fgsA, namedA, shnA) (mn, nodes)) as [[[[molB fgsB] namedB] shnB]|] eqn:Eg; cbn [bind] in H; [|discriminate H].
  destruct (GraphOps.fold_res name_group2 post (molB, fgsB, namedB, shnB)) as [r|] eqn:Epost; cbn [bind] in H; [|discriminate H].
  apply ok_inj2 in H. injection H as <- _.
  assert (NoDup nodes) as Nn by (apply (Hn (mn, nodes)); apply in_or_app; right; now left).
  destruct (groups_keep pre _ _ Epre (fun g Hg => Hn g (in_or_app _ _ _ (or_introl Hg)))) as [_ NA]. unfold ns_named in NA. cbn [fst snd] in NA.
  destruct (group_exact _ _ _ _ _ _ _ _ _ _ Eg Nn) as (ds & vs & Hds & Hex & Hnames & _ & HnamedB & HoldB).
  destruct (groups_keep post _ _ Epost (fun g Hg => Hn g (in_or_app pre ((mn, nodes) :: post) g (or_intror (or_intror Hg))))) as [KP _].
  unfold ns_mol, ns_named in KP. cbn [fst snd] in KP. fold (ns_mol r) in *.
  exists molA, fgsA, namedA, shnA, ds, vs, shnB. split; [reflexivity|]. split.
  { intros k. rewrite NA. split; [intros [[]|X]; exact X|intros X; now right]. }
  split; [intros k Hk; rewrite KP by (apply HnamedB; now left); now apply HoldB|]. split; [exact Hds|]. split; [exact Hex|].
  rewrite <- Hnames. apply map_ext_in. intros k Hk. apply KP. apply HnamedB. now right.
Qed.

(** ---------------------------------------------------------------- the names of the shared atoms named so far *)
Lemma exact_shn used : forall ds shn idx vs shn', exact used shn idx ds vs shn' ->
  forall x, In x shn' <-> In x shn \/ In x (shared_news ds vs).
Proof.
  induction ds as [|d r IH]; intros shn idx vs shn' H; destruct vs as [|w ws]; cbn [exact] in H; try contradiction.
  - subst shn'. intros x. cbn. tauto.
  - destruct d; contradiction.
  - destruct d as [v|e sh].
    + destruct H as [-> H]. intros x. rewrite (IH _ _ _ _ H). cbn. tauto.
    + destruct H as (i & _ & -> & H). intros x. rewrite (IH _ _ _ _ H). unfold shared_news. cbn [combine flat_map fst snd].
      destruct sh; cbn; rewrite ?in_app_iff; cbn; tauto.
Qed.
Lemma combine_nodes {A B C} (f : A -> res B) (g : A -> option C) : forall nodes ds vs,
  GraphOps.map_res f nodes = Ok ds -> map g nodes = map Some vs ->
  forall d v, In (d, v) (combine ds vs) -> exists n, In n nodes /\ f n = Ok d /\ g n = Some v.
Proof.
  induction nodes as [|x r IH]; intros ds vs Hd Hv d v Hin; cbn [GraphOps.map_res] in Hd.
  - apply ok_inj2 in Hd. subst ds. destruct Hin.
  - destruct (f x) as [d0|] eqn:Ed; cbn [bind] in Hd; [|discriminate Hd].
    destruct (GraphOps.map_res f r) as [ds'|] eqn:Er; cbn [bind] in Hd; [|discriminate Hd]. apply ok_inj2 in Hd. subst ds.
    destruct vs as [|v0 vs']; [discriminate|]. cbn [map] in Hv. injection Hv as Hv1 Hv2. destruct Hin as [Hin|Hin].
    + inversion Hin; subst. exists x. repeat split; auto. now left.
    + destruct (IH ds' vs' eq_refl Hv2 d v Hin) as (n & A1 & B1 & C1). exists n. repeat split; auto. now right.
Qed.
(** "belongs to several coarse nodes": the fragid of the atom has more than one entry (never touched by the naming) *)
Definition sh_of (mol : graph) (n : Z) : Prop := fsv (node_get mol n (S "fragid")) = Ok true.
Lemma desc_new_inv mol named n e sh : desc_of mol named n = Ok (New e sh) -> ~ In n named /\ fsv (node_get mol n (S "fragid")) = Ok sh.
Proof.
  unfold desc_of. destruct (node_attrs mol n) as [a|] eqn:Ea; cbn [bind]; [|discriminate].
  destruct (zin_l n named) eqn:Z1; [destruct (aget (S "atomname") a); cbn; discriminate|].
  destruct (fragid_shared a) as [s|] eqn:Es; cbn [bind]; [|discriminate].
  destruct (aget (S "element") a); cbn [of_option bind]; [|discriminate]. destruct (as_str p); cbn [bind]; [|discriminate].
  intros H. apply ok_inj2 in H. injection H as _ <-. split.
  - intros X. apply zin_l_In in X. congruence.
  - rewrite <- Es, fragid_shared_fsv. unfold node_get. unfold node_attrs in Ea. destruct (gfind n mol); [|discriminate Ea]. apply ok_inj2 in Ea. now subst.
Qed.
Lemma desc_old_inv mol named n v : desc_of mol named n = Ok (Old v) -> In n named.
Proof.
  unfold desc_of. destruct (node_attrs mol n) as [a|]; cbn [bind]; [|discriminate].
  destruct (zin_l n named) eqn:Z1; [intros _; now apply zin_l_In|].
  destruct (fragid_shared a); cbn [bind]; [|discriminate]. destruct (aget (S "element") a); cbn [of_option bind]; [|discriminate].
  destruct (as_str p); cbn [bind]; discriminate.
Qed.
Lemma group_shn mol fgs named shn mn nodes mol1 fgs1 named1 shn1 :
  name_group2 (mol, fgs, named, shn) (mn, nodes) = Ok (mol1, fgs1, named1, shn1) -> NoDup nodes ->
  forall v, In v shn1 <-> In v shn \/ exists n, In n nodes /\ ~ In n named /\ sh_of mol n /\ name_in mol1 n = Some v.
Proof.
  intros H Hn v. destruct (group_exact _ _ _ _ _ _ _ _ _ _ H Hn) as (ds & vs & Hds & Hex & Hnames & _ & _ & _).
  rewrite (exact_shn _ _ _ _ _ _ Hex v). split; (intros [?|X]; [now left|right]).
  - unfold shared_news in X. apply in_flat_map in X as [[d w] [Hin Hw]]. cbn [fst snd] in Hw.
    destruct d as [?|e sh]; [destruct Hw|]. destruct sh; [|destruct Hw]. destruct Hw as [<-|[]].
    destruct (combine_nodes _ _ _ _ _ Hds Hnames _ _ Hin) as (n & A & B0 & C0). destruct (desc_new_inv _ _ _ _ _ B0) as [N S0].
    exists n. repeat split; auto.
  - destruct X as (n & Hin & Nn & Hs & Hv).
    destruct (positional _ _ _ nodes ds vs Hds Hnames (exact_forall2 _ _ _ _ _ _ Hex) n Hin) as (d & w & Hd & Hw & _ & Hc).
    rewrite Hv in Hw. inversion Hw; subst w. destruct d as [u|e sh]; [exfalso; apply Nn; eapply desc_old_inv; exact Hd|].
    destruct (desc_new_inv _ _ _ _ _ Hd) as [_ S0]. unfold sh_of in Hs. rewrite Hs in S0. inversion S0; subst sh.
    unfold shared_news. apply in_flat_map. exists (New e true, v). split; [exact Hc|now left].
Qed.
Definition shn_inv (st : nstate) : Prop :=
  forall v, In v (ns_shn st) <-> exists n, In n (ns_named st) /\ sh_of (ns_mol st) n /\ name_in (ns_mol st) n = Some v.
Lemma fragid_ne_atomname : S "fragid" <> S "atomname".
Proof. intros X. apply str_eqb_eq in X. vm_compute in X. discriminate. Qed.
Lemma groups_shn_inv : forall groups st st', GraphOps.fold_res name_group2 groups st = Ok st' -> (forall g, In g groups -> NoDup (snd g)) ->
  shn_inv st -> shn_inv st'.
Proof.
  induction groups as [|g0 r IH]; intros st st' H Hn Hi; cbn [GraphOps.fold_res] in H; [apply ok_inj2 in H; now subst|].
  destruct (name_group2 st g0) as [st1|] eqn:E1; cbn [bind] in H; [|discriminate H].
  apply (IH st1 st' H (fun g Hg => Hn g (or_intror Hg))). clear IH H.
  pose proof (name_group2_other_keys _ _ _ E1) as Hk.
  destruct st as [[[mol fgs] named] shn], st1 as [[[mol1 fgs1] named1] shn1], g0 as [mn nodes].
  pose proof (Hn _ (or_introl eq_refl)) as Nn. cbn [snd] in Nn.
  destruct (group_exact _ _ _ _ _ _ _ _ _ _ E1 Nn) as (_ & _ & _ & _ & _ & _ & Hnamed & Hold).
  pose proof (group_shn _ _ _ _ _ _ _ _ _ _ E1 Nn) as Hs.
  unfold shn_inv, ns_mol, ns_named, ns_shn in *. cbn [fst snd] in *.
  assert (forall n, sh_of mol1 n <-> sh_of mol n) as Hsh by (intros n; unfold sh_of; now rewrite (Hk n _ fragid_ne_atomname)).
  intros v. rewrite Hs, Hi. split.
  - intros [(n & A & B0 & C0)|(n & A & B0 & C0 & D)].
    + exists n. split; [apply Hnamed; now left|]. split; [now apply Hsh|]. now rewrite Hold.
    + exists n. split; [apply Hnamed; now right|]. split; [now apply Hsh|exact D].
  - intros (n & A & B0 & C0). apply Hnamed in A. apply Hsh in B0. destruct (in_dec Z.eq_dec n named) as [I|N].
    + left. exists n. repeat split; auto. now rewrite <- Hold.
    + right. destruct A as [A|A]; [contradiction|]. exists n. repeat split; auto.
Qed.

(** the closed form, with the shared names spelled out on the RETURNED graph: [shnA] = the names (final) of the atoms of the
    earlier coarse nodes that belong to several coarse nodes *)
Theorem set_atom_names_closed_form mol meta fgs mol' fgs' : set_atom_names mol meta fgs = Ok (mol', fgs') ->
  (forall g, In g (fraglist_of meta fgs) -> NoDup (snd g)) ->
  forall pre mn nodes post, fraglist_of meta fgs = pre ++ (mn, nodes) :: post ->
  exists (molA : graph) (namedA : list Z) (shnA : list pyval) ds vs shnB,
    (forall k, In k namedA <-> exists g, In g pre /\ In k (snd g)) /\
    (forall k, In k namedA -> name_in molA k = name_in mol' k) /\
    (forall k key, key <> S "atomname" -> node_get molA k key = node_get mol k key) /\
    (forall v, In v shnA <-> exists n, In n namedA /\ sh_of mol n /\ name_in mol' n = Some v) /\
    GraphOps.map_res (desc_of molA namedA) nodes = Ok ds /\
    exact (olds ds) shnA 0 ds vs shnB /\
    map (name_in mol') nodes = map Some vs.
Proof.
  intros H Hn pre mn nodes post Efl.
  destruct (set_atom_names_exact _ _ _ _ _ H Hn pre mn nodes post Efl) as (molA & fgsA & namedA & shnA & ds & vs & shnB & Epre & NA & KA & Hds & Hex & Hnames).
  exists molA, namedA, shnA, ds, vs, shnB.
  assert (forall g, In g pre -> NoDup (snd g)) as Hnp by (intros g Hg; apply Hn; rewrite Efl; apply in_or_app; now left).
  assert (forall k key, key <> S "atomname" -> node_get molA k key = node_get mol k key) as Hkeys.
  { set (P := fun st : nstate => forall k key, key <> S "atomname" -> node_get (ns_mol st) k key = node_get mol k key).
    assert (P (molA, fgsA, namedA, shnA)) as HP; [|exact HP].
    apply (fold_res_inv P name_group2 pre) with (st := (mol, fgs, [], [])); [|intros k key _; reflexivity|exact Epre].
    intros st x st1 Hst Hx k key Hk. rewrite (name_group2_other_keys _ _ _ Hx k key Hk). now apply Hst. }
  split; [exact NA|]. split; [intros k Hk; symmetry; now apply KA|]. split; [exact Hkeys|]. split; [|auto].
  assert (shn_inv (mol, fgs, [], [])) as I0.
  { intros v. unfold ns_shn, ns_named. cbn [fst snd]. split; [intros []|intros (n & [] & _)]. }
  pose proof (groups_shn_inv pre _ _ Epre Hnp I0) as IA. unfold shn_inv, ns_shn, ns_named, ns_mol in IA. cbn [fst snd] in IA.
  intros v. rewrite IA. split; intros (n & A & B0 & C0); exists n; (split; [exact A|]); split.
  - unfold sh_of in *. now rewrite <- (Hkeys n _ fragid_ne_atomname).
  - now rewrite KA.
  - unfold sh_of in *. now rewrite (Hkeys n _ fragid_ne_atomname).
  - now rewrite <- KA.
Qed.

(** ---------------------------------------------------------------- the closed form read off the RETURNED graph alone *)
From CGV Require Dialect.ReturnedAnnot Resolve.NameStep Hydro.Squash Hydro.Hydrogens Stereo.EzImpl Stereo.EzProofs.
From CGV Require Import Resolve.Bonding Resolve.Pipeline Resolve.PipelineFull.
Lemma desc_of_agree m1 m2 named n : has_node m1 n = true -> has_node m2 n = true ->
  (forall key, key <> S "atomname" -> node_get m1 n key = node_get m2 n key) ->
  (In n named -> name_in m1 n = name_in m2 n) -> desc_of m1 named n = desc_of m2 named n.
Proof.
  intros H1 H2 Hk Hn. unfold desc_of. unfold has_node in H1, H2. unfold node_attrs.
  destruct (gfind n m1) as [r1|] eqn:G1; [|discriminate H1]. destruct (gfind n m2) as [r2|] eqn:G2; [|discriminate H2]. cbn [bind].
  assert (forall key, key <> S "atomname" -> aget key (na r1) = aget key (na r2)) as Hk' by (intros key N; specialize (Hk key N); unfold node_get in Hk; now rewrite G1, G2 in Hk).
  destruct (zin_l n named) eqn:Z1.
  - apply zin_l_In in Z1. specialize (Hn Z1). unfold name_in, node_get in Hn. rewrite G1, G2 in Hn. now rewrite Hn.
  - rewrite !fragid_shared_fsv, (Hk' _ fragid_ne_atomname).
    assert (S "element" <> S "atomname") as Ne by (intros X; apply str_eqb_eq in X; vm_compute in X; discriminate). now rewrite (Hk' _ Ne).
Qed.
Theorem set_atom_names_closed_form_returned mol meta fgs mol' fgs' : set_atom_names mol meta fgs = Ok (mol', fgs') ->
  (forall g, In g (fraglist_of meta fgs) -> NoDup (snd g)) ->
  forall pre mn nodes post, fraglist_of meta fgs = pre ++ (mn, nodes) :: post ->
  exists (namedA : list Z) (shnA : list pyval) ds vs shnB,
    (forall k, In k namedA <-> exists g, In g pre /\ In k (snd g)) /\
    (forall v, In v shnA <-> exists n, In n namedA /\ sh_of mol' n /\ name_in mol' n = Some v) /\
    GraphOps.map_res (desc_of mol' namedA) nodes = Ok ds /\
    exact (olds ds) shnA 0 ds vs shnB /\
    map (name_in mol') nodes = map Some vs.
Proof.
  intros H Hn pre mn nodes post Efl.
  destruct (set_atom_names_closed_form _ _ _ _ _ H Hn pre mn nodes post Efl) as (molA & namedA & shnA & ds & vs & shnB & NA & KA & Hkeys & HS & Hds & Hex & Hnames).
  pose proof (ReturnedAnnot.set_atom_names_keeps _ _ _ _ _ H) as Hfin.
  exists namedA, shnA, ds, vs, shnB. split; [exact NA|]. split; [|split; [|auto]].
  - intros v. rewrite HS. split; intros (n & A1 & B1 & C1); exists n; repeat split; auto; unfold sh_of in *;
      [now rewrite (Hfin n _ fragid_ne_atomname)|now rewrite <- (Hfin n _ fragid_ne_atomname)].
  - rewrite <- Hds. apply map_res_ext_in. intros n Hin. symmetry. apply desc_of_agree.
    + (* n is a node of molA: its description was computed *)
      clear -Hds Hin. revert ds Hds. induction nodes as [|x r IH]; intros ds Hds; [destruct Hin|]. cbn [GraphOps.map_res] in Hds.
      destruct (desc_of molA namedA x) as [d|] eqn:Ed; cbn [bind] in Hds; [|discriminate Hds].
      destruct (GraphOps.map_res (desc_of molA namedA) r) as [ds'|] eqn:Er; cbn [bind] in Hds; [|discriminate Hds].
      destruct Hin as [<-|Hin]; [|exact (IH Hin ds' eq_refl)].
      unfold desc_of, node_attrs in Ed. unfold has_node. destruct (gfind x molA); [reflexivity|discriminate Ed].
    + assert (exists v, name_in mol' n = Some v) as [v Hv].
      { clear -Hnames Hin. revert vs Hnames. induction nodes as [|x r IH]; intros vs Hnames; [destruct Hin|]. destruct vs as [|v vs']; [discriminate|].
        cbn [map] in Hnames. injection Hnames as H1 H2. destruct Hin as [<-|Hin]; [eauto|exact (IH Hin vs' H2)]. }
      unfold name_in, node_get in Hv. unfold has_node. destruct (gfind n mol'); [reflexivity|discriminate Hv].
    + intros key N. now rewrite Hkeys, (Hfin n key N).
    + intros Hna. now apply KA.
Qed.

(** fraglist_of reads only the node keys of the coarse 'graph' attributes *)
Lemma fg_get_keys : forall fgs fgs', fg_keys fgs = fg_keys fgs' -> forall k, option_map node_keys (fg_get k fgs) = option_map node_keys (fg_get k fgs').
Proof.
  induction fgs as [|[k0 g0] r IH]; intros [|[k1 g1] r'] H k; cbn in H; try discriminate H; [reflexivity|].
  injection H as -> Hg Hr. cbn [fg_get]. destruct (Z.eqb k k1); [cbn [option_map]; f_equal; exact Hg|now apply IH].
Qed.
Lemma fraglist_of_keys meta fgs fgs' : fg_keys fgs = fg_keys fgs' -> fraglist_of meta fgs = fraglist_of meta fgs'.
Proof.
  intros H. unfold fraglist_of. induction meta as [|mn r IH]; [reflexivity|]. cbn [flat_map]. rewrite IH. f_equal.
  pose proof (fg_get_keys _ _ H (nk mn)) as E. destruct (fg_get (nk mn) fgs) as [g|], (fg_get (nk mn) fgs') as [g'|]; cbn in E; try discriminate E; [|reflexivity].
  injection E as E. destruct g as [|x t], g' as [|y t']; try discriminate E; [reflexivity|]. now rewrite E.
Qed.

(** every RETURNED all-atom end-to-end step on a coarse graph with distinct keys: the closed form, in terms of the returned fine
    graph and the returned coarse 'graph' attributes alone *)
Theorem step_shared_names_closed_form legacy fd prev car fo :
  resolve_step_full legacy true fd prev car = Ok fo -> NoDup (node_keys prev) ->
  forall pre mn nodes post, fraglist_of (fo_meta fo) (fo_fgs fo) = pre ++ (mn, nodes) :: post ->
  exists (namedA : list Z) (shnA : list pyval) ds vs shnB,
    (forall k, In k namedA <-> exists g, In g pre /\ In k (snd g)) /\
    (forall v, In v shnA <-> exists n, In n namedA /\ sh_of (fo_mol fo) n /\ name_in (fo_mol fo) n = Some v) /\
    GraphOps.map_res (desc_of (fo_mol fo) namedA) nodes = Ok ds /\
    exact (olds ds) shnA 0 ds vs shnB /\
    map (name_in (fo_mol fo)) nodes = map Some vs.
Proof.
  intros H Hp pre mn nodes post Efl.
  assert (NoDup (node_keys (fo_m6 fo)) /\ node_keys (fo_meta fo) = node_keys prev) as [Hn Hm].
  { revert H. unfold resolve_step_full.
    destruct (resolve_disconnected fd _) as [[m1 fg1]|]; cbn [bind]; [|discriminate].
    destruct (bonding_step legacy true _ m1 fg1) as [[m2 fg2]|]; cbn [bind]; [|discriminate].
    destruct (Hydro.Squash.squash_atoms m2) as [m3|]; cbn [bind]; [|discriminate].
    destruct (Hydro.Hydrogens.rebuild_h_atoms_default m3 car) as [m4|]; cbn [bind]; [|discriminate].
    destruct (sort_nodes_by_attr m4) as [m5|] eqn:E5; cbn [bind]; [|discriminate].
    destruct (Stereo.EzImpl.annotate_ez_isomers_cgsmiles m5) as [m6|] eqn:E6; cbn [bind]; [|discriminate].
    destruct (annotate_fragments _ m6) as [f6|]; cbn [bind]; [|discriminate].
    destruct (set_atom_names m6 _ f6) as [[m7 f7]|]; cbn [bind]; [|discriminate].
    intros H. apply ok_inj2 in H. subst fo. cbn [fo_m6 fo_meta]. split; [|apply NameStep.keys_set_nodes_from].
    rewrite (proj2 (Stereo.EzProofs.chiral_stays_annotate m5 m6 0 E6)). exact (NameStep.sort_nodup _ _ E5). }
  rewrite <- Hm in Hp.
  destruct (NameStep.aa_tail _ _ _ _ _ H) as [fgs0 [Ea Es]].
  destruct (NameStep.annotate_groups_any _ _ _ Ea Hn Hp) as [Hnd _].
  rewrite (fraglist_of_keys _ _ _ (set_atom_names_keys _ _ _ _ _ Es)) in Efl.
  exact (set_atom_names_closed_form_returned _ _ _ _ _ Es Hnd pre mn nodes post Efl).
Qed.

(** ---------------------------------------------------------------- the index never falls behind the position *)
(** in a coarse node whose counter starts at idx the atom at position p, when it is new, gets an index >= idx + p; it gets
    exactly idx + p when no atom before it in this coarse node stepped over a taken label and its own candidate label is free *)
Lemma exact_index_ge used : forall ds shn idx vs shn', exact used shn idx ds vs shn' ->
  forall p e sh, nth_error ds p = Some (New e sh) -> exists i, nth_error vs p = Some (VStr (atom_label e i)) /\ idx + Z.of_nat p <= i.
Proof.
  induction ds as [|d r IH]; intros shn idx vs shn' H p e sh Hp; [destruct p; discriminate Hp|].
  destruct vs as [|w ws]; cbn [exact] in H; [destruct d; contradiction|].
  destruct d as [v|e0 sh0].
  - destruct H as [-> H]. destruct p as [|p]; [discriminate Hp|]. cbn [nth_error] in Hp |- *.
    destruct (IH _ _ _ _ H p e sh Hp) as [i [Hi Hle]]. exists i. split; [exact Hi|lia].
  - destruct H as (i0 & (L0 & _) & -> & H). destruct p as [|p]; cbn [nth_error] in Hp |- *.
    + inversion Hp; subst. exists i0. split; [reflexivity|lia].
    + destruct (IH _ _ _ _ H p e sh Hp) as [i [Hi Hle]]. exists i. split; [exact Hi|lia].
Qed.
