(** EdgeCopy: C02 "same internal bonds and bond orders" for the graphs a COARSE resolution step RETURNS, as a corollary of the
    Compose component's skeleton theorem (Compose/Levels.coarse_step_any: bonding, identity squash, sort, annotate threaded).
    Domain: inputs that are a well-formed CUT of a molecule (Compose/CutModel: every coarse node has a fragment, descriptors
    carry unique labels, legacy convention); in that domain every template edge has its copy between the copies of its two
    atoms, with the template's order, and both atoms record the coarse key of the part. *)
From Coq Require Import String.
From Coq Require Import List Ascii ZArith Bool Lia.
From CGV Require Import Base.PyBase Base.PyVal Base.NxGraph Resolve.Bonding Resolve.GraphOps Resolve.Pipeline Resolve.PipelineFull.
From CGV Require Import Compose.CutModel Compose.CutPos Compose.CutSkeleton Compose.CutWf Compose.ComposeFlat Compose.Levels.
Import ListNotations.
Open Scope Z_scope.

Theorem step_edges_copy E fd prev car : wf_cut E -> templates_ok E fd -> is_base E (next_meta prev) ->
  exists fo, resolve_step_full true false fd prev car = Ok fo /\ fo_meta fo = next_meta prev /\
    forall p name xs T, nth_error (c_parts E) p = Some (name, xs) -> fd_get name fd = Some T ->
    forall i j d, In (i, j, d) (edges_data T) ->
      exists x y, nth_error xs (Z.to_nat i) = Some x /\ nth_error xs (Z.to_nat j) = Some y /\
        has_edge (fo_mol fo) (phi E x) (phi E y) = true /\
        edge_get (fo_mol fo) (phi E x) (phi E y) (S "order") = aget (S "order") d /\
        node_get (fo_mol fo) (phi E x) (S "fragid") = Some (VList [VInt (Z.of_nat p)]) /\
        node_get (fo_mol fo) (phi E y) (S "fragid") = Some (VList [VInt (Z.of_nat p)]).
Proof.
  intros W HT HB. destruct (coarse_step_any E fd prev car W HT HB) as (fo & Hfo & Hmeta & _ & _ & Sk & _).
  exists fo. split; [exact Hfo|]. split; [exact Hmeta|]. intros p name xs T Hp HfdT i j d Hin.
  pose proof (wc_nodup E W) as Hnd.
  assert (In (name, xs) (c_parts E)) as Hpart by (eapply nth_error_In; exact Hp).
  destruct (HT name xs Hpart) as (T' & HfdT' & IT). rewrite HfdT in HfdT'. injection HfdT' as <-.
  destruct (it_edges _ _ _ _ IT i j d Hin) as (ni & nj & x & y & b & -> & -> & Hx & Hy & Hb & Hj & Ho & _ & _).
  exists x, y. rewrite !Nat2Z.id. split; [exact Hx|]. split; [exact Hy|].
  destruct (phi_part E Hnd p name xs ni x Hp Hx) as [_ Ox]. destruct (phi_part E Hnd p name xs nj y Hp Hy) as [_ Oy].
  assert (In x (flat E)) as Fx by (eapply part_in_flat; [exact Hp|eapply nth_error_In; exact Hx]).
  assert (In y (flat E)) as Fy by (eapply part_in_flat; [exact Hp|eapply nth_error_In; exact Hy]).
  destruct (sk_edges _ _ _ Sk x y Fx Fy) as (He & Hord & _ & _).
  pose proof (proj2 (find_bond_spec E W x y b) (conj Hb Hj)) as Hfb.
  assert (is_cut E b = false) as Hnc.
  { unfold is_cut. apply negb_false_iff, Nat.eqb_eq. unfold joins in Hj. apply orb_true_iff in Hj as [Hj|Hj];
      apply andb_true_iff in Hj as [A B]; apply Z.eqb_eq in A, B; rewrite A, B; congruence. }
  split; [rewrite He; unfold bonded; now rewrite Hfb|]. split.
  - rewrite Hord. unfold result_order. now rewrite Hfb, Hnc, Ho.
  - destruct (sk_attrs _ _ _ Sk x Fx) as [Hfx _]. destruct (sk_attrs _ _ _ Sk y Fy) as [Hfy _]. rewrite Hfx, Hfy, Ox, Oy. auto.
Qed.
