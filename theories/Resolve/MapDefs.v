(** MapDefs: executable definitions (NO proofs) of the clauses of C02 / C11 / C12, evaluated on
    the IMPLEMENTATION's returned graphs by the checks and used by the statements. *)
From Coq Require Import String.
From Coq Require Import List Ascii ZArith Bool Lia.
From CGV Require Import Base.PyBase Base.PyVal Base.NxGraph Resolve.GraphOps.
Import ListNotations.
Open Scope Z_scope.

Definition zmem (k : Z) (l : list Z) : bool := existsb (Z.eqb k) l.
Definition subset (a b : list Z) : bool := forallb (fun x => zmem x b) a.
Definition same_set (a b : list Z) : bool := subset a b && subset b a.
Fixpoint nodupb (l : list Z) : bool :=
  match l with [] => true | x :: r => negb (zmem x r) && nodupb r end.

(** fragid of a fine node as a list of values ([] when absent or not a list) *)
Definition fragid_vals (a : attrs) : list pyval :=
  match aget (S "fragid") a with Some (VList l) => l | _ => [] end.
Definition mapping_vals (a : attrs) : list pyval :=
  match aget (S "mapping") a with Some (VList l) => l | _ => [] end.
Definition has_fragid (k : Z) (a : attrs) : bool :=
  existsb (fun v => pyval_eqb v (VInt k)) (fragid_vals a).
Definition recording (mol : graph) (k : Z) : list Z :=
  map nk (filter (fun n => has_fragid k (na n)) mol).
Definition shared (a : attrs) : bool := negb (Nat.leb (length (fragid_vals a)) 1).

(** fragname of a coarse node, and whether it is virtual for a fragment dictionary *)
Definition fragname_of (n : nrec) : option pystr :=
  match aget (S "fragname") (na n) with Some (VStr s) => Some s | _ => None end.
Definition template_of (fd : fragdict) (n : nrec) : option (pystr * graph) :=
  match fragname_of n with
  | Some s => match fd_get s fd with Some g => Some (s, g) | None => None end
  | None => None
  end.
Definition is_virtual (fd : fragdict) (n : nrec) : bool :=
  match template_of fd n with Some _ => false | None => true end.

(** the fine node that is the copy of template node t of coarse node k: its i-th fragid is k and its
    i-th mapping entry is (fragname, t) *)
Definition located (k : Z) (F : pystr) (t : Z) (a : attrs) : bool :=
  existsb (fun fm => pyval_eqb (fst fm) (VInt k) && pyval_eqb (snd fm) (VTup [VStr F; VInt t]))
          (combine (fragid_vals a) (mapping_vals a)).
Definition locate (g : graph) (k : Z) (F : pystr) (t : Z) : list Z :=
  map nk (filter (fun n => located k F t (na n)) g).
Definition locate1 (g : graph) (k : Z) (F : pystr) (t : Z) : option Z :=
  match locate g k F t with [n] => Some n | _ => None end.

(** ---- C02 clause 1: non-empty fragid, all coarse keys *)
Definition c02_fragid_ok (meta mol : graph) : bool :=
  forallb (fun n =>
    match fragid_vals (na n) with
    | [] => false
    | l => forallb (fun v => match v with VInt k => zmem k (node_keys meta) | _ => false end) l
    end) mol.
(** ---- clause 2: coarse node k carries exactly the fine nodes recording k; sub-graph edges induced *)
Definition induced_ok (mol g : graph) : bool :=
  forallb (fun e => has_edge mol (fst (fst e)) (snd (fst e))) (edges_data g)
  && forallb (fun e => let u := fst (fst e) in let v := snd (fst e) in
                       negb (has_node g u && has_node g v) || has_edge g u v) (edges_data mol).
Definition c02_exact_ok (meta mol : graph) (fgs : fgraphs) : bool :=
  forallb (fun mn =>
    match fg_get (nk mn) fgs with
    | Some g => nodupb (node_keys g) && same_set (node_keys g) (recording mol (nk mn)) && induced_ok mol g
    | None => false
    end) meta.
(** ---- clause 3: the coarse graphs cover the fine graph *)
Definition c02_cover_ok (meta mol : graph) (fgs : fgraphs) : bool :=
  forallb (fun n => existsb (fun mn => match fg_get (nk mn) fgs with Some g => has_node g (nk n) | None => false end) meta)
          mol.

(** ---- clause 4/5: copy of the template through the mapping *)
Definition attr_skip (aa : bool) (k : pystr) : bool :=
  str_in k ([S "fragid"; S "hcount"; S "ez_isomer_class"] ++ (if aa then [S "atomname"; S "aromatic"] else [])).
Definition attrs_copied (aa : bool) (tmpl fine : attrs) : bool :=
  forallb (fun kv => attr_skip aa (fst kv)
                     || match aget (fst kv) fine with Some v => pyval_eqb v (snd kv) | None => false end) tmpl.
Definition opt_val_eqb (a b : option pyval) : bool :=
  match a, b with Some x, Some y => pyval_eqb x y | None, None => true | _, _ => false end.

(** the aromaticity transcript (pre, post graphs of rebuild_h_atoms) changed the order of the copy of
    template edge (a, b) *)
Definition arom_changed (pp : option (graph * graph)) (k : Z) (F : pystr) (a b : Z) : bool :=
  match pp with
  | None => false
  | Some (pre, post) =>
      match locate1 pre k F a, locate1 pre k F b, locate1 post k F a, locate1 post k F b with
      | Some u, Some v, Some u', Some v' =>
          negb (opt_val_eqb (edge_get pre u v (S "order")) (edge_get post u' v' (S "order")))
      | _, _, _, _ => false
      end
  end.

Definition node_copy_ok (aa : bool) (mol : graph) (k : Z) (F : pystr) (tn : nrec) : bool :=
  match locate1 mol k F (nk tn) with
  | None => false
  | Some n =>
      match node_attrs mol n with
      | Ok a => shared a || attrs_copied aa (na tn) a
      | Err _ => false
      end
  end.
Definition edge_copy_ok (pp : option (graph * graph)) (mol : graph) (k : Z) (F : pystr) (e : Z * Z * attrs) : bool :=
  let '(a, b, d) := e in
  match locate1 mol k F a, locate1 mol k F b with
  | Some u, Some v =>
      if Z.eqb u v then Z.eqb a b else     (* two DIFFERENT template atoms on one fine atom: the internal bond is gone *)
      has_edge mol u v
      && (opt_val_eqb (aget (S "order") d) (edge_get mol u v (S "order")) || arom_changed pp k F a b
          || match node_attrs mol u, node_attrs mol v with Ok x, Ok y => shared x || shared y | _, _ => false end)
  | _, _ => false
  end.
(** no extra internal bond: a fine edge between two unshared copies of template atoms of k that was
    not made by a bonding descriptor is a template edge *)
Definition no_extra_edge (mol tmpl : graph) (k : Z) (F : pystr) : bool :=
  let img := flat_map (fun tn => match locate1 mol k F (nk tn) with Some n => [(n, nk tn)] | None => [] end) tmpl in
  forallb (fun e =>
    let '(u, v, d) := e in
    match zmap_get img u, zmap_get img v with
    | Some a, Some b =>
        ahas (S "bonding") d || ahas (S "contraction") d || has_edge tmpl a b
        || match node_attrs mol u, node_attrs mol v with Ok x, Ok y => shared x || shared y | _, _ => false end
    | _, _ => true
    end) (edges_data mol).
Definition fragname_reported (mol : graph) (k : Z) (F : pystr) : bool :=
  forallb (fun n => negb (has_fragid k (na n)) || shared (na n)
                    || opt_val_eqb (aget (S "fragname") (na n)) (Some (VStr F))) mol.

Definition c02_copy_code (aa : bool) (pp : option (graph * graph)) (fd : fragdict) (meta mol : graph) (fgs : fgraphs) : nat :=
  fold_right (fun mn acc =>
    match acc with
    | O =>
        match template_of fd mn with
        | None => match fg_get (nk mn) fgs with
                  | Some [] | None => 0%nat
                  | Some _ => 6%nat     (* a coarse node without fragment carries fine nodes *)
                  end
        | Some (F, tmpl) =>
            if negb (forallb (node_copy_ok aa mol (nk mn) F) tmpl) then 4%nat
            else if negb (nodupb (flat_map (fun tn => match locate1 mol (nk mn) F (nk tn) with Some n => [n] | None => [] end) tmpl)) then 4%nat
            else if negb (forallb (edge_copy_ok pp mol (nk mn) F) (edges_data tmpl)) then 5%nat
            else if negb (no_extra_edge mol tmpl (nk mn) F) then 5%nat
            else if negb (fragname_reported mol (nk mn) F) then 7%nat
            else 0%nat
        end
    | n => n
    end) 0%nat (rev meta).

(** ---- clause 8: two atoms joined by the squash operator are ONE fine node recording both coarse nodes; a surviving
    fine edge whose bonding descriptor starts with '!' means the pair was not merged (one of the two atoms then
    records only one of the coarse nodes it stems from) *)
Definition squash_bonding (v : pyval) : bool :=
  match v with
  | VTup (VStr ("!"%char :: _) :: _) | VList (VStr ("!"%char :: _) :: _) => true
  | _ => false
  end.
Definition no_squash_edge (mol : graph) : bool :=
  forallb (fun e => match aget (S "bonding") (snd e) with Some v => negb (squash_bonding v) | None => true end) (edges_data mol).

Definition holds_C02 (aa : bool) (pp : option (graph * graph)) (fd : fragdict) (meta mol : graph) (fgs : fgraphs) : nat :=
  if negb (c02_fragid_ok meta mol) then 1%nat
  else if negb (c02_exact_ok meta mol fgs) then 2%nat
  else if negb (c02_cover_ok meta mol fgs) then 3%nat
  else if negb (no_squash_edge mol) then 8%nat
  else c02_copy_code aa pp fd meta mol fgs.

(** ---- defect class shared by C02 and C11: the running fragment counter differs from the coarse key
    for some instantiated coarse node (with reader-made keys 0..n-1: a virtual node precedes a real one) *)
Fixpoint counter_mismatch (fd : fragdict) (meta : graph) (cnt : Z) : bool :=
  match meta with
  | [] => false
  | mn :: r => if is_virtual fd mn then counter_mismatch fd r cnt
               else negb (Z.eqb (nk mn) cnt) || counter_mismatch fd r (cnt + 1)
  end.
Definition virtual_not_last (fd : fragdict) (meta : graph) : bool := counter_mismatch fd meta 0.

(** ---- C12 clauses *)
Definition keys_are_range (g : graph) : bool :=
  let n := length g in
  nodupb (node_keys g) && forallb (fun k => (0 <=? k) && (k <? Z.of_nat n)) (node_keys g).
Definition fragid_ints (a : attrs) : list Z :=
  flat_map (fun v => match v with VInt k => [k] | _ => [] end) (fragid_vals a).
(** keys ascending <-> (fragid, ·) ascending: for all nodes u, v: key u < key v -> fragid u <= fragid v *)
Definition sorted_by_fragid (g : graph) : bool :=
  forallb (fun u => forallb (fun v =>
    negb (nk u <? nk v) || match lex_cmp (fragid_ints (na u)) (fragid_ints (na v)) with Gt => false | _ => true end) g) g.
(** among equal fragids the old key order is kept: given the pre-sort graph, node i of the result carries
    the attributes of the i-th pre-sort node in (fragid, old key) order — checked through the multiset of
    (fragid, old key) pairs by the model correspondence; here: same number of nodes and same fragid multiset *)
Definition all_singletons (g : graph) : bool := forallb (fun n => Nat.eqb (length (fragid_vals (na n))) 1) g.
(** contiguous blocks in coarse order: the keys with fragid [k], listed by coarse key, concatenate to 0..n-1 *)
Definition blocks_contiguous (meta g : graph) : bool :=
  negb (all_singletons g) ||
  let ks := fold_right (fun k acc => if zmem k acc then acc else k :: acc) []
                       (flat_map (fun n => fragid_ints (na n)) g) in
  let sorted_ks := map snd (isort (map (fun k => ([k], k)) ks)) in
  let blocks := map (fun k => map snd (isort (map (fun x => ([x], x)) (recording g k)))) sorted_ks in
  let flat := concat blocks in
  forallb (fun p => Z.eqb (fst p) (snd p)) (combine flat (map Z.of_nat (seq 0 (length g))))
  && Nat.eqb (length flat) (length g).

(** the same read off the RETURNED coarse graphs: listing the coarse nodes by ascending key, the (sorted) node sets of
    their graphs concatenate to 0..n-1 - the block of a coarse node sits where its KEY puts it *)
Definition blocks_by_coarse (g : graph) (fgs : fgraphs) : bool :=
  negb (all_singletons g) ||
  let ks := map snd (isort (map (fun kg => ([fst kg], fst kg)) fgs)) in
  let blocks := map (fun k => match fg_get k fgs with
                              | Some h => map snd (isort (map (fun x => ([x], x)) (node_keys h)))
                              | None => [] end) ks in
  let flat := concat blocks in
  Nat.eqb (length flat) (length g)
  && forallb (fun p => Z.eqb (fst p) (snd p)) (combine flat (map Z.of_nat (seq 0 (length g)))).

Definition atomname_of (a : attrs) : option pystr :=
  match aget (S "atomname") a with Some (VStr s) => Some s | _ => None end.
Definition element_of (a : attrs) : option pystr :=
  match aget (S "element") a with Some (VStr s) => Some s | _ => None end.
Fixpoint index_z (k : Z) (l : list Z) (i : Z) : option Z :=
  match l with [] => None | x :: r => if Z.eqb x k then Some i else index_z k r (i + 1) end.
(** atom name = element + decimal index; in a coarse node WITHOUT shared atom the index is the position of the atom
    in the coarse node (repaired set_atom_names_atomistic, /repo 8dbd471: a shared atom keeps the name of its first
    coarse node and later indices step over taken names) *)
Definition digits_suffix (el nm : pystr) : bool := prefixb el nm && py_isdigit (skipn (length el) nm).
Definition node_shared (mol : graph) (k : Z) : bool :=
  match node_attrs mol k with Ok a => shared a | Err _ => false end.
Definition positional_names (mol g : graph) : bool :=
  forallb (fun ni => match node_attrs mol (fst ni) with
                     | Ok a => match atomname_of a, element_of a with
                               | Some nm, Some el => str_eqb nm (el ++ str_of_Z (snd ni))
                               | _, _ => false end
                     | Err _ => false end)
          (combine (node_keys g) (map Z.of_nat (seq 0 (length g)))).
Definition names_element_index (mol : graph) (fgs : fgraphs) : bool :=
  forallb (fun n => match atomname_of (na n), element_of (na n) with
                    | Some nm, Some el => digits_suffix el nm
                    | _, _ => false end) mol
  && forallb (fun kg => existsb (node_shared mol) (node_keys (snd kg)) || positional_names mol (snd kg)) fgs.
Fixpoint str_nodupb (l : list pystr) : bool :=
  match l with [] => true | x :: r => negb (str_in x r) && str_nodupb r end.
(** names unique within each coarse node (names read from the returned fine graph) *)
Definition names_unique (mol : graph) (fgs : fgraphs) : bool :=
  forallb (fun kg =>
    str_nodupb (flat_map (fun k => match node_attrs mol k with
                                   | Ok a => match atomname_of a with Some s => [s] | None => [] end
                                   | Err _ => [] end) (node_keys (snd kg)))) fgs.
Definition has_shared (mol : graph) : bool := existsb (fun n => shared (na n)) mol.
(** residual defect class of the atom naming: a coarse node holds two atoms that were first named in two DIFFERENT
    earlier coarse nodes (their names were chosen independently and may coincide) *)
Fixpoint first_owner (n : Z) (fgs : fgraphs) : option Z :=
  match fgs with [] => None | (k, g) :: r => if has_node g n then Some k else first_owner n r end.
Definition foreign_owners (fgs : fgraphs) (kg : Z * graph) : list Z :=
  flat_map (fun n => match first_owner n fgs with
                     | Some k => if Z.eqb k (fst kg) then [] else [k]
                     | None => [] end) (node_keys (snd kg)).
Definition two_owners (fgs : fgraphs) : bool :=
  existsb (fun kg => match foreign_owners fgs kg with
                     | [] => false
                     | k :: r => existsb (fun k' => negb (Z.eqb k k')) r end) fgs.
