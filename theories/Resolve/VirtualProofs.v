(** VirtualProofs: C11 (virtual nodes, zero-order edges) and the input-only-dependence lemmas of C12
    (fragment lookup under permutation, constructors), about the models in GraphOps.v / Pipeline.v and
    the proved bond fold of Bonding.v. *)
From Coq Require Import String.
From Coq Require Import List Ascii ZArith Bool Lia Sorting.Permutation.
From CGV Require Import Base.PyBase Base.PyVal Base.NxGraph Resolve.Bonding Resolve.GraphOps Resolve.Pipeline.
Import ListNotations.
Open Scope Z_scope.

(** ---------------------------------------------------------------- the virtual-node test *)
Definition has_order (wa : Z * attrs) : Prop := exists o, aget (S "order") (snd wa) = Some o.
Definition zero_order (wa : Z * attrs) : Prop := exists o, aget (S "order") (snd wa) = Some o /\ order_is_zero o = true.
Definition nonzero_order (wa : Z * attrs) : Prop := exists o, aget (S "order") (snd wa) = Some o /\ order_is_zero o = false.

Lemma map_res_cons {A B} (f : A -> res B) x r :
  map_res f (x :: r) = (y <- f x ;; ys <- map_res f r ;; Ok (y :: ys)).
Proof. reflexivity. Qed.

Lemma orders_all l : Forall has_order l ->
  exists os, map_res (fun wa : Z * attrs => of_option (aget (S "order") (snd wa)) EKey) l = Ok os /\
             Forall2 (fun wa o => aget (S "order") (snd wa) = Some o) l os.
Proof.
  induction 1 as [|x r [o Ho] Hr [os [E F]]]; [exists []; split; [reflexivity|constructor]|].
  rewrite map_res_cons, Ho, E. exists (o :: os). split; [reflexivity|now constructor].
Qed.

Theorem virtual_ok_zero mn : Forall zero_order (nadj mn) -> virtual_ok mn = Ok tt.
Proof.
  intros H. unfold virtual_ok.
  destruct (orders_all (nadj mn)) as [os [E F]].
  { eapply Forall_impl; [|exact H]. intros wa [o [Ho _]]. now exists o. }
  rewrite E. cbn.
  assert (forallb order_is_zero os = true) as ->; [|reflexivity].
  clear E. induction F as [|wa o l os' Hwo F IH]; [reflexivity|]. inversion H; subst. cbn.
  destruct H2 as [o' [Ho' Z]]. rewrite Hwo in Ho'. inversion Ho'; subst. rewrite Z. now apply IH.
Qed.

Theorem virtual_ok_reject mn : Forall has_order (nadj mn) -> Exists nonzero_order (nadj mn) ->
  virtual_ok mn = Err (ESyntax (S "nofrag")).
Proof.
  intros H X. unfold virtual_ok. destruct (orders_all (nadj mn) H) as [os [E F]]. rewrite E. cbn.
  assert (forallb order_is_zero os = false) as ->; [|reflexivity].
  clear E H. induction F as [|wa o l os' Hwo F IH]; [inversion X|]. cbn.
  inversion X as [? ? [o' [Ho' Z]]|? ? X']; subst.
  - rewrite Hwo in Ho'. inversion Ho'; subst. now rewrite Z.
  - rewrite (IH X'). apply andb_false_r.
Qed.

(** skip_virtual: the instantiation loop adds nothing for a virtual node *)
Theorem skip_virtual fd st mn fv :
  aget (S "fragname") (na mn) = Some fv -> lookup_fragment fd fv = None -> Forall zero_order (nadj mn) ->
  disc_step fd st mn = Ok st.
Proof.
  intros Hf Hl Hz. unfold disc_step. destruct st as [mol fgs]. rewrite Hf. cbn. rewrite Hl.
  now rewrite (virtual_ok_zero mn Hz).
Qed.
(** C11_reject: a fragment-less node with an edge of order >= 1 raises SyntaxError *)
Theorem reject_step fd st mn fv :
  aget (S "fragname") (na mn) = Some fv -> lookup_fragment fd fv = None ->
  Forall has_order (nadj mn) -> Exists nonzero_order (nadj mn) ->
  disc_step fd st mn = Err (ESyntax (S "nofrag")).
Proof.
  intros Hf Hl Ho Hx. unfold disc_step. destruct st as [mol fgs]. rewrite Hf. cbn. rewrite Hl.
  now rewrite (virtual_ok_reject mn Ho Hx).
Qed.

Lemma fold_res_app {A B} (f : B -> A -> res B) l1 : forall l2 b,
  fold_res f (l1 ++ l2) b = (b' <- fold_res f l1 b ;; fold_res f l2 b').
Proof. induction l1 as [|x r IH]; cbn; intros; [reflexivity|]. destruct (f b x); cbn; [apply IH|reflexivity]. Qed.

(** lifted to the whole loop: once the nodes before it are instantiated, the run is rejected *)
Theorem C11_reject_run fd pre mn post st fv :
  fold_res (disc_step fd) pre (gempty, []) = Ok st ->
  aget (S "fragname") (na mn) = Some fv -> lookup_fragment fd fv = None ->
  Forall has_order (nadj mn) -> Exists nonzero_order (nadj mn) ->
  resolve_disconnected fd (pre ++ mn :: post) = Err (ESyntax (S "nofrag")).
Proof.
  intros Hp Hf Hl Ho Hx. unfold resolve_disconnected. rewrite fold_res_app, Hp. cbn.
  now rewrite (reject_step fd st mn fv Hf Hl Ho Hx).
Qed.
(** and a virtual node anywhere in the coarse graph does not change what the loop builds *)
Theorem skip_virtual_run fd pre mn post fv :
  aget (S "fragname") (na mn) = Some fv -> lookup_fragment fd fv = None -> Forall zero_order (nadj mn) ->
  resolve_disconnected fd (pre ++ mn :: post) = resolve_disconnected fd (pre ++ post).
Proof.
  intros Hf Hl Hz. unfold resolve_disconnected. rewrite !fold_res_app.
  destruct (fold_res (disc_step fd) pre (gempty, [])) as [st|]; cbn; [|reflexivity].
  now rewrite (skip_virtual fd st mn fv Hf Hl Hz).
Qed.

(** ---------------------------------------------------------------- order-0 edges make no bond *)
Theorem no_bond_for_order0 legacy arom a b s acc : edge_loop legacy arom (Z.to_nat 0) a b s acc = Ok (s, acc).
Proof. reflexivity. Qed.
Theorem no_bond_for_nonpositive legacy arom edges : Forall (fun e : Z * Z * Z => snd e <= 0) edges ->
  forall s acc, edges_from_bonding legacy arom edges s acc = Ok (s, acc).
Proof.
  induction 1 as [|[[a b] o] r Ho Hr IH]; intros s acc; cbn; [reflexivity|].
  cbn in Ho. replace (Z.to_nat o) with O by lia. cbn. apply IH.
Qed.
(** a zero-order edge anywhere in the base edge list is inert *)
Theorem zero_edge_inert legacy arom pre a b post : forall s acc,
  edges_from_bonding legacy arom (pre ++ (a, b, 0) :: post) s acc = edges_from_bonding legacy arom (pre ++ post) s acc.
Proof.
  induction pre as [|[[x y] o] r IH]; intros s acc; cbn; [reflexivity|].
  destruct (edge_loop legacy arom (Z.to_nat o) x y s acc) as [[s' acc']|]; cbn; [apply IH|reflexivity].
Qed.

(** ---------------------------------------------------------------- fragment lookup and definition order *)
Lemma fd_get_notin name d : ~ In name (map fst d) -> fd_get name d = None.
Proof.
  induction d as [|[k g] r IH]; cbn; intros H; [reflexivity|].
  destruct (str_eqb_spec name k) as [->|N]; [exfalso; auto|]. apply IH. tauto.
Qed.
(** frag_order_irrelevant: with unique names, permuting the definitions does not change any lookup *)
Theorem frag_order_irrelevant d d' : Permutation d d' -> NoDup (map fst d) -> forall name, fd_get name d = fd_get name d'.
Proof.
  induction 1 as [|[k g] l l' P IH|[k1 g1] [k2 g2] l|l1 l2 l3 P1 IH1 P2 IH2]; intros Hn name; cbn in *.
  - reflexivity.
  - inversion Hn; subst. destruct (str_eqb name k); [reflexivity|now apply IH].
  - inversion Hn as [|? ? N1 Hn']; subst.
    destruct (str_eqb_spec name k1) as [E1|E1]; destruct (str_eqb_spec name k2) as [E2|E2]; try reflexivity.
    exfalso. apply N1. left. congruence.
  - rewrite IH1 by exact Hn. apply IH2. eapply Permutation_NoDup; [|exact Hn]. now apply Permutation_map.
Qed.

Lemma fold_res_ext {A B} (f g : B -> A -> res B) l : (forall b x, f b x = g b x) -> forall b, fold_res f l b = fold_res g l b.
Proof. intros E. induction l as [|x r IH]; intros b; cbn; [reflexivity|]. rewrite E. destruct (g b x); cbn; auto. Qed.

Theorem resolve_step_frag_order legacy aa d d' prev tr :
  Permutation d d' -> NoDup (map fst d) -> resolve_step legacy aa d prev tr = resolve_step legacy aa d' prev tr.
Proof.
  intros P Hn. unfold resolve_step, resolve_disconnected.
  rewrite (fold_res_ext (disc_step d) (disc_step d')); [reflexivity|].
  intros [mol fgs] mn. unfold disc_step, lookup_fragment.
  destruct (aget (S "fragname") (na mn)) as [[| | | |s| | |]|]; cbn; try reflexivity.
  now rewrite (frag_order_irrelevant d d' P Hn s).
Qed.

(** ---------------------------------------------------------------- the three constructors *)
Section Ctors.
  Variable read_cgsmiles : pystr -> res graph.
  Variable read_fragments : pystr -> bool -> res fragdict.

  (** from corresponding inputs (the whole string | base graph + fragment string | base string + fragment
      graphs) the three constructors build the same resolver state *)
  Theorem ctor_agree s e0 rest mol ds laa legacy frs bs :
    find_blocks s = e0 :: rest -> read_cgsmiles e0 = Ok mol ->
    read_fragment_strings read_fragments rest laa = Ok ds ->
    find_blocks frs = rest -> forallb (fun n => ahas (S "fragname") (na n)) mol = true ->
    find_blocks bs = [e0] ->
    from_string read_cgsmiles read_fragments s laa legacy = Ok (init mol ds laa legacy) /\
    from_graph read_fragments frs mol laa legacy = Ok (init mol ds laa legacy) /\
    from_fragment_dicts read_cgsmiles bs ds laa legacy = Ok (init mol ds laa legacy).
  Proof.
    intros Hs Hm Hd Hf Hn Hb. unfold from_string, from_graph, from_fragment_dicts.
    rewrite Hs, Hm, Hf, Hd, Hb, Hm. unfold bind. rewrite Hn. auto.
  Qed.
End Ctors.

(** resolve() is a function of the resolver state and the transcript: the counter decides the dictionary
    and whether the level is all-atom; resolve_iter runs `resolutions` steps from the current counter *)
Theorem resolve_counter st tr st' out : resolve st tr = Ok (st', out) ->
  st_counter st' = Datatypes.S (st_counter st) /\ st_dicts st' = st_dicts st /\ st_res st' = st_res st /\
  st_mol st' = snd out /\ st_meta st' = fst (fst out).
Proof.
  unfold resolve. destruct (nth_error (st_dicts st) (st_counter st)); cbn; [|discriminate].
  destruct (resolve_step _ _ _ _ _); cbn; [|discriminate]. intros H. inversion H; subst. cbn. auto.
Qed.
(** a second resolve_all on the same resolver object runs out of fragment dictionaries (IndexError) *)
Theorem resolve_exhausted st tr : st_counter st = length (st_dicts st) -> resolve st tr = Err EIndex.
Proof.
  intros H. unfold resolve. assert (nth_error (st_dicts st) (st_counter st) = None) as ->; [|reflexivity].
  apply nth_error_None. lia.
Qed.
