(** C11Check: metamorphic oracle for C11: a resolvable input, and the same input with virtual nodes /
    zero-order edges inserted; [rho] maps every coarse key of the original to its key in the modified
    base graph (monotone). *)
From Coq Require Import String.
From Coq Require Import List Ascii ZArith Bool Lia.
From CGV Require Import Base.PyBase Base.PyVal Base.NxGraph Resolve.Bonding Resolve.GraphOps Resolve.Pipeline
     Resolve.StepCheck Resolve.PipelineFull Resolve.FullCheck Resolve.MapDefs.
Import ListNotations.
Open Scope Z_scope.

Record case := { c_kind : nat;               (* 0 = metamorphic pair, 1 = must be rejected *)
                 c_orig : stepcase; c_modf : stepcase; c_rho : list (Z * Z) }.

Definition corr_ok (c : case) : bool :=
  step_corr (c_orig c) && step_corr (c_modf c) && full_corr (c_orig c) && full_corr (c_modf c).

Definition strip_fragid (g : graph) : graph :=
  map (fun n => {| nk := nk n; na := adel (S "fragid") (na n); nadj := nadj n |}) g.
Definition rename_val (rho : list (Z * Z)) (v : pyval) : pyval :=
  match v with VInt k => match zmap_get rho k with Some k' => VInt k' | None => VNone end | _ => VNone end.
Definition fragid_renamed (rho : list (Z * Z)) (g g' : graph) : bool :=
  Nat.eqb (length g) (length g') &&
  forallb (fun nn => pyval_eqb (VList (map (rename_val rho) (fragid_vals (na (fst nn))))) (VList (fragid_vals (na (snd nn)))))
          (combine g g').
Definition nodes_of (k : Z) (fgs : fgraphs) : list Z :=
  match fg_get k fgs with Some g => node_keys g | None => [] end.

Definition prop_fail (c : case) : nat :=
  match c_kind c with
  | 1%nat => if str_eqb (sc_exc (c_modf c)) (S "SyntaxError") then 0%nat else 8%nat
  | _ =>
      match sc_out (c_orig c), sc_out (c_modf c) with
      | None, _ => 0%nat                        (* the original is not resolvable: outside the domain *)
      | Some _, None => 9%nat
      | Some (fgs, mol), Some (fgs', mol') =>
          if negb (graph_eqb (strip_fragid mol) (strip_fragid mol')) then 1%nat
          else if negb (fragid_renamed (c_rho c) mol mol') then 2%nat
          else if negb (forallb (fun kk => nodupb (nodes_of (snd kk) fgs')
                                           && same_set (nodes_of (fst kk) fgs) (nodes_of (snd kk) fgs')) (c_rho c)) then 3%nat
          else if negb (forallb (fun kg => zmem (fst kg) (map snd (c_rho c))
                                           || match snd kg with [] => true | _ => false end) fgs') then 4%nat
          else 0%nat
      end
  end.
Definition in_class (c : case) : bool := virtual_not_last (sc_fd (c_modf c)) (sc_meta (c_modf c)).
