(** CopyOnto: the template copy is ONTO the atoms that record the coarse key.  For a coarse graph with distinct keys every atom of
    the disconnected (and of the bonded) molecule whose fragid is [key of mn] is the copy of a template atom of mn's fragment:
    the map cf of EdgeCopyGen.disconnected_edges_copy / BondedCopy.bonded_edges_copy, restated with this converse. *)
From Coq Require Import String.
From Coq Require Import List Ascii ZArith Bool Lia Permutation.
From CGV Require Import Base.PyBase Base.PyVal Base.NxGraph Resolve.Bonding Resolve.BondingDefs Resolve.GraphOps Resolve.MapProofs Resolve.CopyProofs
     Hydro.GraphLemmas Hydro.SquashDefs.
From CGV Require Resolve.SortGraphProofs Hydro.SquashProofs Resolve.NameProofs Resolve.VirtualProofs Resolve.NameStep.
From CGV Require Import Compose.GraphFacts Compose.GraphAdj Resolve.EdgeCopyGen Resolve.BondedCopy Resolve.CoarseCopy.
Import ListNotations.
Open Scope Z_scope.

Lemma node_get_of_attrs g h x key : node_attrs g x = node_attrs h x -> node_get g x key = node_get h x key.
Proof. unfold node_attrs, node_get. destruct (gfind x g), (gfind x h); intros E; try discriminate E; [inversion E as [Y]; now rewrite Y|reflexivity]. Qed.

(** a node an instantiation step adds is the copy of a template atom and records the coarse key *)
Lemma disc_step_new fd mol fgs mn mol2 fgs2 : tmpl_dict fd -> disc_step fd (mol, fgs) mn = Ok (mol2, fgs2) ->
  forall x, In x (node_keys mol2) -> In x (node_keys mol) \/
    (node_get mol2 x (S "fragid") = Some (VList [VInt (nk mn)]) /\
     forall fv name frag off fo, aget (S "fragname") (na mn) = Some fv -> lookup_fragment fd fv = Some (name, frag) ->
       merge_offsets mol = Ok (off, fo) -> exists a, In a (node_keys frag) /\ x = map_get (correspondence off frag) a).
Proof.
  intros Hd H x Hx. pose proof H as H'. unfold disc_step in H.
  destruct (aget (S "fragname") (na mn)) as [fv|] eqn:Hf; cbn [of_option bind] in H; [|discriminate H].
  destruct (lookup_fragment fd fv) as [[name frag]|] eqn:Hl.
  - destruct (lookup_fragment_get _ _ _ _ Hl) as [_ Hg]. pose proof (Hd _ _ Hg) as Hw.
    destruct (disc_step_real _ _ _ _ _ _ _ _ _ Hf Hl H') as [mol1 [corr [Hm E2]]].
    destruct (merge_graphs_keys _ _ _ _ Hm (wf_tmpl_template _ Hw)) as [K _].
    destruct (merge_graphs_corr _ _ _ _ Hm) as [off [fo [Ho Ec]]].
    destruct (disc_step_copy _ _ _ _ _ _ _ _ _ Hf Hl (wf_tmpl_template _ Hw) H') as [off' [fo' [Ho' Hc]]].
    rewrite Ho in Ho'. inversion Ho'; subst off' fo'.
    rewrite E2, stamp_keys, K in Hx. apply in_app_or in Hx as [Hx|Hx]; [now left|]. right.
    subst corr. rewrite <- (corr_values off frag (wf_nodup _ (wt_wf _ Hw))) in Hx. apply in_map_iff in Hx as [n [En Hn]].
    split.
    + destruct (Hc n Hn) as [a' [_ A]]. rewrite <- En. unfold node_get. unfold node_attrs in A.
      destruct (gfind _ mol2) as [r|]; [|discriminate A]. inversion A as [Y]. rewrite Y. apply stamped_fragid.
    + intros fv0 name0 frag0 off0 fo0 Hf0 Hl0 Ho0. inversion Hf0; subst fv0. rewrite Hl in Hl0. inversion Hl0; subst name0 frag0.
      rewrite Ho in Ho0. inversion Ho0; subst off0 fo0. exists (nk n). split; [unfold node_keys; now apply in_map|now symmetry].
  - destruct (virtual_ok mn); cbn [bind] in H; [|discriminate H]. inversion H; subst. now left.
Qed.
Lemma fold_new fd : tmpl_dict fd -> forall l mol fgs mol2 fgs2, GraphOps.fold_res (disc_step fd) l (mol, fgs) = Ok (mol2, fgs2) ->
  forall x, In x (node_keys mol2) -> In x (node_keys mol) \/ exists mn', In mn' l /\ node_get mol2 x (S "fragid") = Some (VList [VInt (nk mn')]).
Proof.
  intros Hd. induction l as [|mn r IH]; intros mol fgs mol2 fgs2 H x Hx; cbn [GraphOps.fold_res] in H.
  - inversion H; subst. now left.
  - destruct (disc_step fd (mol, fgs) mn) as [[m1 f1]|] eqn:E; cbn [bind] in H; [|discriminate H].
    destruct (IH _ _ _ _ H x Hx) as [Hin|[mn' [Hm' Hg]]]; [|right; exists mn'; split; [now right|exact Hg]].
    destruct (disc_step_new _ _ _ _ _ _ Hd E x Hin) as [Hold|[Hnew _]]; [now left|]. right. exists mn. split; [now left|].
    destruct (disconnected_keeps fd Hd _ _ _ _ _ H x Hin) as (_ & A & _). rewrite (node_get_of_attrs _ _ _ _ A). exact Hnew.
Qed.

(** EdgeCopyGen.disconnected_edges_copy with the converse: when the coarse keys are distinct, every atom that records exactly
    [key of mn] is the copy of a template atom *)
Theorem disconnected_copy_onto fd meta mol fgs : tmpl_dict fd -> resolve_disconnected fd meta = Ok (mol, fgs) ->
  forall pre mn post fv name frag, meta = pre ++ mn :: post ->
  aget (S "fragname") (na mn) = Some fv -> lookup_fragment fd fv = Some (name, frag) ->
  exists cf : Z -> Z,
    (forall a b, In a (node_keys frag) -> In b (node_keys frag) -> cf a = cf b -> a = b) /\
    (forall n, In n frag -> node_get mol (cf (nk n)) (S "fragid") = Some (VList [VInt (nk mn)]) /\
                            node_get mol (cf (nk n)) (S "mapping") = Some (mapping_val name (nk n)) /\
                            forall key, key <> S "fragid" -> key <> S "mapping" -> key <> S "ez_isomer_atoms" ->
                                        node_get mol (cf (nk n)) key = aget key (na n)) /\
    (forall a b, In a (node_keys frag) -> In b (node_keys frag) -> edge_attrs mol (cf a) (cf b) = tmpl_edge frag a b) /\
    (NoDup (node_keys meta) -> forall x, node_get mol x (S "fragid") = Some (VList [VInt (nk mn)]) -> exists a, In a (node_keys frag) /\ x = cf a).
Proof.
  intros Hd H pre mn post fv name frag -> Hf Hl. unfold resolve_disconnected in H. rewrite VirtualProofs.fold_res_app in H.
  destruct (GraphOps.fold_res (disc_step fd) pre (gempty, [])) as [[ma fa]|] eqn:Epre; cbn [bind] in H; [|discriminate H].
  cbn [GraphOps.fold_res] in H. destruct (disc_step fd (ma, fa) mn) as [[mb fb]|] eqn:E; cbn [bind] in H; [|discriminate H].
  destruct (lookup_fragment_get _ _ _ _ Hl) as [_ Hg]. pose proof (Hd _ _ Hg) as Hw. pose proof (wf_nodup _ (wt_wf _ Hw)) as Hn.
  destruct (disc_step_copy _ _ _ _ _ _ _ _ _ Hf Hl (wf_tmpl_template _ Hw) E) as [off [fo [Ho Hc]]].
  destruct (disc_step_edges _ _ _ _ _ _ _ _ _ Hf Hl Hw E) as [off' [fo' [Ho' [He _]]]]. rewrite Ho in Ho'. inversion Ho'; subst off' fo'.
  set (cf := map_get (correspondence off frag)) in *. exists cf.
  assert (forall k, In k (node_keys frag) -> In (cf k) (node_keys mb)) as Hin.
  { intros k Hk. unfold node_keys in Hk. apply in_map_iff in Hk as [n [<- Hn']]. destruct (Hc n Hn') as [a' [_ A]]. apply gfind_has. eapply node_attrs_has; exact A. }
  split; [|split; [|split]].
  - intros a b Ha Hb Eq. apply (NameProofs.nodup_map_eq cf (node_keys frag)); auto.
    unfold node_keys. rewrite map_map. unfold cf. rewrite corr_values by exact Hn. apply correspondence_injective.
  - intros n Hn'. destruct (Hc n Hn') as [a' [Mn A]].
    assert (In (nk n) (node_keys frag)) as Hk by (unfold node_keys; now apply in_map).
    destruct (disconnected_keeps fd Hd _ _ _ _ _ H (cf (nk n)) (Hin _ Hk)) as (_ & A2 & _).
    unfold node_get. unfold node_attrs in A, A2. destruct (gfind (cf (nk n)) mol) as [r|]; destruct (gfind (cf (nk n)) mb) as [r'|]; try discriminate.
    inversion A2 as [X]. inversion A as [Y]. rewrite X, Y. split; [apply stamped_fragid|]. split; [apply stamped_mapping|].
    intros key K1 K2 K3. rewrite (stamped_other _ _ _ _ key K1 K2). exact (frag_copy_attrs _ _ _ _ key Mn K1 K3).
  - intros a b Ha Hb. destruct (disconnected_keeps fd Hd _ _ _ _ _ H (cf a) (Hin _ Ha)) as (_ & _ & E2). rewrite E2. now apply He.
  - intros Nd x Hx.
    assert (forall mn', In mn' pre \/ In mn' post -> nk mn' <> nk mn) as Hdiff.
    { intros mn' Hm' Ek. unfold node_keys in Nd. rewrite map_app in Nd. cbn [map] in Nd. apply NoDup_remove_2 in Nd. apply Nd. rewrite <- Ek.
      apply in_or_app. destruct Hm' as [Hm'|Hm']; [left|right]; now apply in_map. }
    assert (In x (node_keys mol)) as Hxm by (eapply node_get_some_in; exact Hx).
    destruct (fold_new fd Hd post mb fb mol fgs H x Hxm) as [Hxb|[mn' [Hm' Hg']]].
    + destruct (disc_step_new _ _ _ _ _ _ Hd E x Hxb) as [Hxa|[_ Hnew]].
      * exfalso. destruct (fold_new fd Hd pre gempty [] ma fa Epre x Hxa) as [[]|[mn' [Hm' Hg']]].
        assert (GraphOps.fold_res (disc_step fd) (mn :: post) (ma, fa) = Ok (mol, fgs)) as Hrest by (cbn [GraphOps.fold_res]; rewrite E; exact H).
        destruct (disconnected_keeps fd Hd _ _ _ _ _ Hrest x Hxa) as (_ & A & _). rewrite (node_get_of_attrs _ _ _ _ A), Hg' in Hx.
        inversion Hx as [Ek]. exact (Hdiff mn' (or_introl Hm') Ek).
      * exact (Hnew fv name frag off fo Hf Hl Ho).
    + exfalso. rewrite Hg' in Hx. inversion Hx as [Ek]. exact (Hdiff mn' (or_intror Hm') Ek).
Qed.

(** BondedCopy.bonded_edges_copy with the converse *)
Theorem bonded_copy_onto fd meta m1 fg1 legacy aa m2 fg2 : tmpl_dict fd -> resolve_disconnected fd meta = Ok (m1, fg1) ->
  bonding_step legacy aa meta m1 fg1 = Ok (m2, fg2) -> (forall es, base_edges meta = Ok es -> wf_edges es) ->
  forall pre mn post fv name frag, meta = pre ++ mn :: post ->
  aget (S "fragname") (na mn) = Some fv -> lookup_fragment fd fv = Some (name, frag) ->
  exists cf : Z -> Z,
    (forall a b, In a (node_keys frag) -> In b (node_keys frag) -> cf a = cf b -> a = b) /\
    (forall n, In n frag -> node_get m2 (cf (nk n)) (S "fragid") = Some (VList [VInt (nk mn)]) /\
                            node_get m2 (cf (nk n)) (S "mapping") = Some (mapping_val name (nk n)) /\
                            forall key, key <> S "fragid" -> key <> S "mapping" -> key <> S "ez_isomer_atoms" -> key <> S "hcount" ->
                                        node_get m2 (cf (nk n)) key = aget key (na n)) /\
    (forall a b, In a (node_keys frag) -> In b (node_keys frag) -> edge_attrs m2 (cf a) (cf b) = tmpl_edge frag a b) /\
    (NoDup (node_keys meta) -> forall x, node_get m2 x (S "fragid") = Some (VList [VInt (nk mn)]) -> exists a, In a (node_keys frag) /\ x = cf a).
Proof.
  intros Hd H1 H2 Hwe pre mn post fv name frag Em Hf Hl.
  destruct (disconnected_copy_onto fd meta m1 fg1 Hd H1 pre mn post fv name frag Em Hf Hl) as (cf & Inj & Hnodes & Hedges & Onto).
  assert (S "fragid" <> S "hcount") as N1 by (intros X; apply str_eqb_eq in X; vm_compute in X; discriminate).
  assert (S "mapping" <> S "hcount") as N2 by (intros X; apply str_eqb_eq in X; vm_compute in X; discriminate).
  exists cf. split; [exact Inj|]. split; [|split].
  - intros n Hn. destruct (Hnodes n Hn) as [A [B Ck]].
    rewrite (bonding_node_get _ _ _ _ _ _ _ _ _ N1 H2), (bonding_node_get _ _ _ _ _ _ _ _ _ N2 H2). split; [exact A|]. split; [exact B|].
    intros key K1 K2 K3 K4. rewrite (bonding_node_get _ _ _ _ _ _ _ _ _ K4 H2). now apply Ck.
  - intros a b Ha Hb. destruct (bonding_keeps_edges _ _ _ _ _ _ _ H2) as (s1 & bonds & Hb0 & Hkeep). rewrite Hkeep; [now apply Hedges|].
    intros bd Hbd. unfold bonds_of in Hb0. destruct (base_edges meta) as [es|] eqn:Ees; cbn [bind] in Hb0; [|discriminate Hb0].
    destruct (tables_of fg1) as [s0|] eqn:Et; cbn [bind] in Hb0; [|discriminate Hb0].
    pose proof (disconnected_fg_inv fd meta m1 fg1 Hd H1) as Hi.
    assert (wf_state s0) as Ws by (apply (tables_wf fg1); [intros k g Hg; exact (proj1 (Hi k g Hg))|exact Et]).
    destruct (bond_in_tables legacy _ es s0 s1 bonds (Hwe es eq_refl) Ws Hb0 bd Hbd) as (Nst & Hu & Hv).
    assert (forall c x, In x (map fst (slookup c s0)) -> node_get m1 x (S "fragid") = Some (VList [VInt c])) as Hfid.
    { intros c x Hx. destruct (tables_lookup fg1 s0 c Et) as [E0|[g [Hg Ht]]]; [rewrite E0 in Hx; destruct Hx|].
      rewrite (table_keys _ _ Ht) in Hx. apply gna_keys_in in Hx. apply NameStep.fg_get_in in Hg. exact (proj2 (proj2 (Hi c g Hg) x Hx)). }
    pose proof (Hfid _ _ Hu) as Fu. pose proof (Hfid _ _ Hv) as Fv.
    assert (forall t, In t (node_keys frag) -> node_get m1 (cf t) (S "fragid") = Some (VList [VInt (nk mn)])) as Fc.
    { intros t Ht. unfold node_keys in Ht. apply in_map_iff in Ht as [n [<- Hn]]. exact (proj1 (Hnodes n Hn)). }
    destruct (upair (cf a) (cf b) (b_u bd) (b_v bd)) eqn:U; [|reflexivity]. exfalso. apply Nst. apply upair_true in U.
    pose proof (Fc a Ha) as Fa. pose proof (Fc b Hb) as Fb.
    destruct U as [[X Y]|[X Y]]; rewrite X in Fa; rewrite Y in Fb; congruence.
  - intros Nd x Hx. rewrite (bonding_node_get _ _ _ _ _ _ _ _ _ N1 H2) in Hx. exact (Onto Nd x Hx).
Qed.
