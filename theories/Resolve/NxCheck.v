(** NxCheck: operation-sequence correspondence of Base/NxGraph.v with networkx (3.x): the harness runs
    the same random operation list on a real networkx.Graph and records the final structure (node order,
    adjacency order, attribute dicts) and the G.edges enumeration.  No proofs. *)
From Coq Require Import String.
From Coq Require Import List Ascii ZArith Bool Lia.
From CGV Require Import Base.PyBase Base.PyVal Base.NxGraph Resolve.GraphOps.
Import ListNotations.
Open Scope Z_scope.

Inductive nxop :=
| OAddNode (k : Z) (a : attrs)
| OAddEdge (u v : Z) (a : attrs)
| ORemoveNode (k : Z)
| ORemoveEdge (u v : Z)
| OCopy
| ORelabel (m : list (Z * Z))
| OContract (u v : Z)
| OSetNode (k : Z) (a : pystr) (v : pyval)
| OSetAll (a : pystr) (v : pyval)
| OSetFrom (a : pystr) (d : list (Z * pyval)).

Definition strip_contraction (g : graph) : graph :=
  map (fun n => {| nk := nk n; na := adel (S "contraction") (na n);
                   nadj := map (fun wa => (fst wa, adel (S "contraction") (snd wa))) (nadj n) |}) g.

Definition run_op (g : graph) (o : nxop) : res graph :=
  match o with
  | OAddNode k a => Ok (add_node g k a)
  | OAddEdge u v a => Ok (add_edge g u v a)
  | ORemoveNode k => if has_node g k then Ok (remove_node g k) else Err EKey
  | ORemoveEdge u v => if has_edge g u v then Ok (remove_edge g u v) else Err EKey
  | OCopy => Ok (gcopy g)
  | ORelabel m => Ok (relabel_copy g m)
  | OContract u v => r <- contracted_nodes g u v ;; Ok (strip_contraction (fst r))
  | OSetNode k a v => if has_node g k then Ok (set_node_attr g k a v) else Err EKey
  | OSetAll a v => Ok (set_all_nodes g a v)
  | OSetFrom a d => Ok (set_nodes_from g a d)
  end.

Record nxcase := { nx_ops : list nxop;
                   nx_final : option graph;              (* None: networkx raised *)
                   nx_edges : list (Z * Z);              (* list(G.edges) *)
                   nx_attr : pystr;
                   nx_get : list (Z * pyval) }.          (* nx.get_node_attributes(G, nx_attr) *)

Fixpoint zz_eqb (a b : list (Z * Z)) : bool :=
  match a, b with
  | [], [] => true
  | (u, v) :: a', (u', v') :: b' => Z.eqb u u' && Z.eqb v v' && zz_eqb a' b'
  | _, _ => false
  end.
Fixpoint zv_eqb (a b : list (Z * pyval)) : bool :=
  match a, b with
  | [], [] => true
  | (u, v) :: a', (u', v') :: b' => Z.eqb u u' && pyval_eqb v v' && zv_eqb a' b'
  | _, _ => false
  end.

Definition nx_corr (c : nxcase) : bool :=
  match fold_res run_op (nx_ops c) gempty, nx_final c with
  | Ok g, Some h => graph_eqb g h && zz_eqb (edges_list g) (nx_edges c)
                    && zv_eqb (get_node_attributes g (nx_attr c)) (nx_get c)
  | Err _, None => true
  | _, _ => false
  end.
