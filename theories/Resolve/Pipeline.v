(** Pipeline: Impl model (NO proofs) of MoleculeResolver.__init__ / resolve / resolve_iter /
    resolve_all and the three constructors (resolve.py).
    One resolution step =
      disconnected -> bonding -> [squash] -> [rebuild_h] -> sort -> [ez annotate] -> annotate_fragments -> [atom names]
    The bracketed steps that run third-party code (pysmiles) or belong to the Hydro component
    (squash_atoms, rebuild_h_atoms, annotate_ez_isomers_cgsmiles) are taken from a TRANSCRIPT recorded by
    the harness inside a real resolve(); without a transcript they are the identity and the step fails
    closed ([ENoReturn]) when the identity would be wrong (a '!' bond, an all-atom level, an
    'ez_isomer_class' annotation). *)
From Coq Require Import String.
From Coq Require Import List Ascii ZArith Bool Lia.
From CGV Require Import Base.PyBase Base.PyVal Base.NxGraph Resolve.Bonding Resolve.GraphOps.
Import ListNotations.
Open Scope Z_scope.

Record transcript := { tr_squash : option graph; tr_hyd : option graph; tr_ez : option graph }.
Definition no_transcript : transcript := {| tr_squash := None; tr_hyd := None; tr_ez := None |}.

(** squash_atoms acts only on edges whose 'bonding' starts with '!' *)
Definition is_squash_bonding (v : pyval) : bool :=
  match v with
  | VTup (VStr ("!"%char :: _) :: _) | VList (VStr ("!"%char :: _) :: _) => true
  | _ => false
  end.
Definition has_squash (m : graph) : bool :=
  existsb (fun e => match aget (S "bonding") (snd e) with Some v => is_squash_bonding v | None => false end)
          (edges_data m).
Definition has_ez_class (m : graph) : bool :=
  match get_node_attributes m (S "ez_isomer_class") with [] => false | _ => true end.

(** every intermediate the harness can observe *)
Record step_out := {
  so_meta : graph;       (* coarse graph (previous molecule, fragname := atomname) *)
  so_m2 : graph;         (* fine graph after edges_from_bonding_descrpt *)
  so_fg2 : fgraphs;      (* fragment graphs after edges_from_bonding_descrpt *)
  so_m5 : graph;         (* after sort_nodes_by_attr *)
  so_mol : graph;        (* returned fine graph *)
  so_fgs : fgraphs       (* returned coarse 'graph' attributes *)
}.

Definition resolve_step (legacy all_atom : bool) (fd : fragdict) (prev : graph) (tr : transcript) : res step_out :=
  (* new_fragnames = get_node_attributes(meta, "atomname"); set_node_attributes(meta, …, "fragname") *)
  let meta := set_nodes_from prev (S "fragname") (get_node_attributes prev (S "atomname")) in
  '(m1, fg1) <- resolve_disconnected fd meta ;;
  '(m2, fg2) <- bonding_step legacy all_atom meta m1 fg1 ;;
  m3 <- match tr_squash tr with
        | Some g => Ok g
        | None => if has_squash m2 then Err ENoReturn else Ok m2
        end ;;
  m4 <- (if all_atom then of_option (tr_hyd tr) ENoReturn else Ok m3) ;;
  m5 <- sort_nodes_by_attr m4 ;;
  m6 <- (if all_atom then
           match tr_ez tr with
           | Some g => Ok g
           | None => if has_ez_class m5 then Err ENoReturn else Ok m5
           end
         else Ok m5) ;;
  fgs <- annotate_fragments meta m6 ;;
  '(m7, fgs') <- (if all_atom then set_atom_names m6 meta fgs else Ok (m6, fgs)) ;;
  Ok {| so_meta := meta; so_m2 := m2; so_fg2 := fg2; so_m5 := m5; so_mol := m7; so_fgs := fgs' |}.

(** ------------------------------------------------------------------ the resolver object *)
Record rstate := {
  st_meta : graph; st_fgs : fgraphs;     (* self.meta_graph (+ its 'graph' attributes) *)
  st_mol : graph;                        (* self.molecule *)
  st_dicts : list fragdict;              (* self.fragment_dicts *)
  st_laa : bool;                         (* self.last_all_atom *)
  st_counter : nat;                      (* self.resolution_counter *)
  st_res : nat;                          (* self.resolutions *)
  st_legacy : bool
}.

(** __init__: the set_node_attributes on the EMPTY meta graph is a no-op (nodes not in G are skipped) *)
Definition init (mol : graph) (dicts : list fragdict) (laa legacy : bool) : rstate :=
  {| st_meta := set_nodes_from gempty (S "atomname") (get_node_attributes mol (S "fragname"));
     st_fgs := []; st_mol := mol; st_dicts := dicts; st_laa := laa; st_counter := 0%nat;
     st_res := length dicts; st_legacy := legacy |}.

Definition is_all_atom (st : rstate) : bool :=
  Nat.eqb (Datatypes.S (st_counter st)) (st_res st) && st_laa st.

(** resolve(): returns the new state and (meta graph, its fragment graphs, fine graph) *)
Definition resolve (st : rstate) (tr : transcript) : res (rstate * (graph * fgraphs * graph)) :=
  fd <- of_option (nth_error (st_dicts st) (st_counter st)) EIndex ;;
  so <- resolve_step (st_legacy st) (is_all_atom st) fd (st_mol st) tr ;;
  Ok ({| st_meta := so_meta so; st_fgs := so_fgs so; st_mol := so_mol so; st_dicts := st_dicts st;
         st_laa := st_laa st; st_counter := Datatypes.S (st_counter st); st_res := st_res st;
         st_legacy := st_legacy st |},
      (so_meta so, so_fgs so, so_mol so)).

(** resolve_iter: `for _ in range(self.resolutions): yield self.resolve()` (n = remaining iterations) *)
Fixpoint resolve_iter_n (n : nat) (st : rstate) (trs : list transcript)
  : res (rstate * list (graph * fgraphs * graph)) :=
  match n with
  | O => Ok (st, [])
  | Datatypes.S k =>
      let tr := match trs with t :: _ => t | [] => no_transcript end in
      '(st1, out) <- resolve st tr ;;
      '(st2, outs) <- resolve_iter_n k st1 (tl trs) ;;
      Ok (st2, out :: outs)
  end.
Definition resolve_iter (st : rstate) (trs : list transcript) := resolve_iter_n (st_res st) st trs.
(** `*_, (meta_graph, graph) = self.resolve_iter()`: ValueError when nothing is yielded *)
Definition resolve_all (st : rstate) (trs : list transcript) : res (rstate * (graph * fgraphs * graph)) :=
  '(st', outs) <- resolve_iter st trs ;;
  match rev outs with o :: _ => Ok (st', o) | [] => Err EValue end.

(** ------------------------------------------------------------------ constructors *)
(** re.findall(r"\{[^\}]+\}", s) *)
Fixpoint span_nonclose (s : pystr) : pystr * pystr :=
  match s with
  | [] => ([], [])
  | c :: r => if Ascii.eqb c "}"%char then ([], s) else let '(a, b) := span_nonclose r in (c :: a, b)
  end.
Fixpoint find_blocks_fuel (fuel : nat) (s : pystr) : list pystr :=
  match fuel with
  | O => []
  | Datatypes.S f =>
      match s with
      | [] => []
      | c :: r =>
          if Ascii.eqb c "{"%char then
            match span_nonclose r with
            | (x :: body, _ :: rest) => ("{"%char :: x :: body ++ ["}"%char]) :: find_blocks_fuel f rest
            | _ => find_blocks_fuel f r
            end
          else find_blocks_fuel f r
      end
  end.
Definition find_blocks (s : pystr) : list pystr := find_blocks_fuel (Datatypes.S (length s)) s.

Section Constructors.
  (** the two parsers are other components (reader, fragments); here they are parameters *)
  Variable read_cgsmiles : pystr -> res graph.
  Variable read_fragments : pystr -> bool -> res fragdict.

  (** read_fragment_strings: the last one is all-atom iff last_all_atom *)
  Fixpoint read_fragment_strings (l : list pystr) (laa : bool) : res (list fragdict) :=
    match l with
    | [] => Ok []
    | x :: r =>
        d <- read_fragments x (match r with [] => laa | _ => false end) ;;
        ds <- read_fragment_strings r laa ;;
        Ok (d :: ds)
    end.

  Definition from_string (s : pystr) (laa legacy : bool) : res rstate :=
    match find_blocks s with
    | [] => Err EIndex
    | e0 :: rest =>
        mol <- read_cgsmiles e0 ;;
        ds <- read_fragment_strings rest laa ;;
        Ok (init mol ds laa legacy)
    end.

  Definition from_graph (s : pystr) (meta : graph) (laa legacy : bool) : res rstate :=
    ds <- read_fragment_strings (find_blocks s) laa ;;
    if forallb (fun n => ahas (S "fragname") (na n)) meta then Ok (init meta ds laa legacy) else Err EIO.

  Definition from_fragment_dicts (s : pystr) (ds : list fragdict) (laa legacy : bool) : res rstate :=
    match find_blocks s with
    | [] => Err EIndex
    | [e0] => mol <- read_cgsmiles e0 ;; Ok (init mol ds laa legacy)
    | _ => Err EIO
    end.
End Constructors.
