(** SourcePrims: the primitives the GENERATED functions of theories/Gen/GraphUtilsGen.v are built from
    (tools/gen_graphutils.py translates /repo/cgsmiles/graph_utils.py statement by statement on every run).
    One definition per networkx / builtin call the source makes, over NxGraph / PyVal; NO proofs here.
    Dicts are insertion-ordered association lists with dict semantics (assignment to an existing key
    overwrites in place).  Where a builtin is polymorphic in Python the primitive covers the value
    domain of the hand-written models (GraphOps): node keys are ints, sort keys are lists of ints. *)
From Coq Require Import String.
From Coq Require Import List Ascii ZArith Bool Lia.
From CGV Require Import Base.PyBase Base.PyVal Base.NxGraph Resolve.Bonding Resolve.GraphOps.
Import ListNotations.
Open Scope Z_scope.

(** ------------------------------------------------------------------ dicts with int keys *)
Fixpoint zd_get {V} (d : list (Z * V)) (k : Z) : option V :=
  match d with [] => None | (a, b) :: r => if Z.eqb a k then Some b else zd_get r k end.
Fixpoint zd_set {V} (d : list (Z * V)) (k : Z) (v : V) : list (Z * V) :=
  match d with
  | [] => [(k, v)]
  | (a, b) :: r => if Z.eqb a k then (a, v) :: r else (a, b) :: zd_set r k v
  end.
(** d[k] *)
Definition zd_getitem {V} (d : list (Z * V)) (k : Z) : res V := of_option (zd_get d k) EKey.
(** d[v] for a Python value v: the keys are ints, True/False hash and compare as 1/0, list/dict are
    unhashable.  (A float that equals an int key would be found by Python; floats are carried as text here
    and answer KeyError.) *)
Definition zd_getitem_pv {V} (d : list (Z * V)) (v : pyval) : res V :=
  match v with
  | VInt z => of_option (zd_get d z) EKey
  | VBool b => of_option (zd_get d (if b then 1 else 0)) EKey
  | VList _ | VDict _ => Err EType
  | _ => Err EKey
  end.
(** {k: v for ...}: built by successive assignment *)
Definition zd_of_pairs {V} (l : list (Z * V)) : list (Z * V) :=
  fold_left (fun d kv => zd_set d (fst kv) (snd kv)) l [].
Definition dict_items {K V} (d : list (K * V)) : list (K * V) := d.
Definition dict_truthy {K V} (d : list (K * V)) : bool := match d with [] => false | _ => true end.

(** ------------------------------------------------------------------ builtins *)
(** enumerate(l, start) *)
Definition py_enumerate {A} (start : Z) (l : list A) : list (Z * A) := enumerate_from start l.
(** the try: iter(v) except TypeError test *)
Definition py_is_iterable (v : pyval) : bool :=
  match v with VStr _ | VList _ | VTup _ | VDict _ => true | _ => false end.
Definition py_isinstance_str (v : pyval) : bool := match v with VStr _ => true | _ => false end.
(** iteration over a Python value *)
Definition py_iter (v : pyval) : res (list pyval) :=
  match v with
  | VList l | VTup l => Ok l
  | VStr s => Ok (map (fun c => VStr [c]) s)
  | VDict d => Ok (map fst d)
  | _ => Err EType
  end.
(** sorted(l, key=lambda x: (value, node)): the values must be lists of ints (TypeError otherwise, the
    domain of GraphOps.sort_items); tuples compare lexicographically, so does [key_ltb] *)
Fixpoint insert_by {A} (kx : sort_key * A) (l : list (sort_key * A)) : list (sort_key * A) :=
  match l with
  | [] => [kx]
  | y :: r => if key_ltb (fst kx) (fst y) then kx :: y :: r else y :: insert_by kx r
  end.
Definition py_sorted_by {A} (key : A -> pyval * Z) (l : list A) : res (list A) :=
  ks <- map_res (fun x => v <- ints_of (fst (key x)) ;; Ok ((v, snd (key x)), x)) l ;;
  Ok (map snd (fold_right insert_by [] ks)).

(** ------------------------------------------------------------------ networkx *)
Definition nx_get_node_attributes (g : graph) (name : pystr) : list (Z * pyval) := get_node_attributes g name.
Definition nx_relabel_nodes_copy (g : graph) (m : list (Z * Z)) : graph := relabel_copy g m.
Definition nx_set_node_attributes (g : graph) (d : list (Z * pyval)) (name : pystr) : graph := set_nodes_from g name d.

(** ------------------------------------------------------------------ more builtins (merge_graphs) *)
(** d.get(k, default) / d[k] / k in d on an attribute dict *)
Definition attrs_get (a : attrs) (k : pystr) (default : pyval) : pyval :=
  match aget k a with Some v => v | None => default end.
Definition attrs_getitem (a : attrs) (k : pystr) : res pyval := of_option (aget k a) EKey.
(** v[i] for a constant i >= 0: list/tuple by position, str by character, dict by the key i *)
Definition py_getitem_pv (v : pyval) (i : Z) : res pyval :=
  match v with
  | VList l | VTup l => of_option (nth_error l (Z.to_nat i)) EIndex
  | VStr s => match nth_error s (Z.to_nat i) with Some c => Ok (VStr [c]) | None => Err EIndex end
  | VDict d => match find (fun kv => pyval_eqb (fst kv) (VInt i)) d with Some kv => Ok (snd kv) | None => Err EKey end
  | _ => Err EType
  end.
(** v + n for an int n: ints and bools add; floats are not computed with in these models (TypeError, as
    every other type) *)
Definition py_add_pv_int (v : pyval) (n : Z) : res Z := z <- as_int v ;; Ok (z + n).
(** max(v) of a Python value: a list/tuple of ints (ValueError when empty, TypeError for other contents) *)
Definition py_max_pv (v : pyval) : res Z := l <- ints_of v ;; py_max l.
Definition list_truthy {A} (l : list A) : bool := match l with [] => false | _ => true end.

(** ------------------------------------------------------------------ more networkx *)
Definition nx_len (g : graph) : Z := Z.of_nat (length g).
Definition nx_nodes (g : graph) : list Z := node_keys g.
Definition nx_edges (g : graph) : list (Z * Z) := edges_list g.
Definition nx_node_attrs (g : graph) (k : Z) : res attrs := node_attrs g k.
Definition nx_edge_attrs (g : graph) (u v : Z) : res attrs := edge_attrs g u v.
Definition nx_add_node (g : graph) (k : Z) (a : attrs) : graph := add_node g k a.
Definition nx_add_edge (g : graph) (u v : Z) (a : attrs) : graph := add_edge g u v a.

(** ------------------------------------------------------------------ defaultdict(list), itertools (annotate_fragments) *)
(** hash(v) succeeds: list and dict are unhashable, a tuple is hashable when its elements are *)
Fixpoint py_hashable (v : pyval) : bool :=
  match v with
  | VList _ | VDict _ => false
  | VTup l => (fix go (l : list pyval) : bool := match l with [] => true | x :: r => py_hashable x && go r end) l
  | _ => true
  end.
(** a defaultdict(list) keyed by Python values, in insertion order.  Keys are compared with [pyval_eqb]: an int
    key and a bool/float key that Python considers equal (1 == True == 1.0) are kept apart here. *)
Definition ddl (A : Type) := list (pyval * list A).
Fixpoint ddl_get {A} (d : ddl A) (k : pyval) : list A :=
  match d with [] => [] | (k', l) :: r => if pyval_eqb k k' then l else ddl_get r k end.
Fixpoint ddl_upd {A} (d : ddl A) (k : pyval) (xs : list A) : ddl A :=
  match d with
  | [] => [(k, xs)]
  | (k', l) :: r => if pyval_eqb k k' then (k', l ++ xs) :: r else (k', l) :: ddl_upd r k xs
  end.
(** d[k].append(x) and d[k] += xs: the key is created when missing (also for an empty xs) *)
Definition ddl_append {A} (d : ddl A) (k : pyval) (x : A) : res (ddl A) :=
  if py_hashable k then Ok (ddl_upd d k [x]) else Err EType.
Definition ddl_extend {A} (d : ddl A) (k : pyval) (xs : list A) : res (ddl A) :=
  if py_hashable k then Ok (ddl_upd d k xs) else Err EType.
(** itertools.combinations(l, r=2) *)
Definition py_combinations2 {A} (l : list A) : list (A * A) := pairs l.

(** ------------------------------------------------------------------ graph-valued node attributes
    A graph is not a [pyval]: the 'graph' attribute of the nodes of a coarse graph G is kept beside G as an
    [fgraphs] store (as the hand-written models do). *)
Definition nx_Graph : graph := gempty.
Definition nx_has_edge (g : graph) (u v : Z) : bool := has_edge g u v.
(** G.nodes[n]['graph'] = h *)
Definition nx_set_node_graph (g : graph) (store : fgraphs) (n : Z) (h : graph) : res fgraphs :=
  if has_node g n then Ok (fg_set n h store) else Err EKey.
(** G.nodes[n].get('graph', None) *)
Definition nx_get_node_graph (g : graph) (store : fgraphs) (n : Z) : res (option graph) :=
  if has_node g n then Ok (fg_get n store) else Err EKey.

(** ------------------------------------------------------------------ sets, while, strings (set_atom_names_atomistic) *)
(** a set is kept as the list of its members, newest first; only membership tests and add are translated
    (never iteration or len) *)
Definition zset_mem (x : Z) (s : list Z) : bool := existsb (Z.eqb x) s.
Definition sset_mem (x : pystr) (s : list pystr) : bool := existsb (str_eqb x) s.
(** x in s for a str x and a set of Python values *)
Definition pvset_mem_str (x : pystr) (s : list pyval) : bool := existsb (pyval_eqb (VStr x)) s.
Definition set_add_int (s : list Z) (x : Z) : list Z := if zset_mem x s then s else x :: s.
Definition set_add_str (s : list pystr) (x : pystr) : list pystr := if sset_mem x s then s else x :: s.
(** len(v) *)
Definition py_len_pv (v : pyval) : res Z :=
  match v with
  | VList l | VTup l => Ok (Z.of_nat (length l))
  | VStr s => Ok (Z.of_nat (length s))
  | VDict d => Ok (Z.of_nat (length d))
  | _ => Err EType
  end.
(** v + s for a str s *)
Definition py_add_pv_str (v : pyval) (s : pystr) : res pystr := x <- as_str v ;; Ok (x ++ s).
Definition py_assert (b : bool) : res unit := if b then Ok tt else Err EAssert.
(** while cond: body.  The translator bounds the number of iterations by 1 + the sizes of the sets the
    condition tests; running out of this fuel is the error EOutOfFuel (never a silent answer). *)
Fixpoint py_while {St} (fuel : nat) (cond : St -> bool) (body : St -> res St) (st : St) : res St :=
  match fuel with
  | O => Err EOutOfFuel
  | Datatypes.S f => if cond st then st' <- body st ;; py_while f cond body st' else Ok st
  end.
(** a Python value used as node key of a graph whose keys are ints (KeyError for anything else; see [ddl]
    for bool/float) *)
Definition py_node_key (v : pyval) : res Z := match v with VInt z => Ok z | _ => Err EKey end.
(** G.nodes[n][k] = v *)
Definition nx_set_node_item (g : graph) (n : Z) (k : pystr) (v : pyval) : res graph :=
  if has_node g n then Ok (set_node_attr g n k v) else Err EKey.
(** bool(G) *)
Definition nx_truthy (g : graph) : bool := match g with [] => false | _ => true end.
(** the value of G.nodes[n].get('graph', None): truth value, .nodes *)
Definition opt_graph_truthy (o : option graph) : bool := match o with Some g => nx_truthy g | None => false end.
Definition opt_graph_nodes (o : option graph) : res (list Z) :=
  match o with Some g => Ok (node_keys g) | None => Err EAttr end.
(** G.nodes[mn]['graph'].nodes[n][k] = v *)
Definition nx_set_store_node_item (g : graph) (store : fgraphs) (mn n : Z) (k : pystr) (v : pyval) : res fgraphs :=
  if has_node g mn then
    match fg_get mn store with
    | Some h => if has_node h n then Ok (fg_set mn (set_node_attr h n k v) store) else Err EKey
    | None => Err EKey
    end
  else Err EKey.
