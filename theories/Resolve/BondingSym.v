(** BondingSym: the compatibility test generated from resolve.py is symmetric — whether two
    descriptors may pair does not depend on which fragment is taken as the source. *)
From Coq Require Import String.
From Coq Require Import List Ascii ZArith Bool.
From CGV Require Import Base.PyBase Base.PyVal Gen.ResolveGen Resolve.Bonding Resolve.BondingDefs Resolve.BondingSpec.
Import ListNotations.
Open Scope char_scope.

Lemma Compat_sym legacy lk lt rk rt : Compat legacy lk lt rk rt = Compat legacy rk rt lk lt.
Proof.
  unfold Compat, compl.
  destruct (str_eqb_spec lt rt) as [E|E], (str_eqb_spec rt lt) as [E'|E']; try congruence;
  destruct (Ascii.eqb_spec lk rk) as [K|K], (Ascii.eqb_spec rk lk) as [K'|K']; try congruence; subst;
  destruct legacy;
  repeat match goal with |- context [Ascii.eqb ?a ?b] => destruct (Ascii.eqb_spec a b); subst end;
  try reflexivity; try congruence.
Qed.

Lemma compat_str_sym legacy l r : compat_str legacy l r = compat_str legacy r l.
Proof. destruct l as [|lk lt], r as [|rk rt]; try reflexivity. apply Compat_sym. Qed.

(** on the generated code: both argument orders succeed together and give the same answer *)
Theorem compatible_sym legacy l r b b' :
  compatible l r legacy = Ok b -> compatible r l legacy = Ok b' -> b = b'.
Proof.
  intros H H'. apply compatible_ok in H. apply compatible_ok in H'. subst. apply compat_str_sym.
Qed.

Example ex_sym : compatible (S ">x1") (S "<x1") true = Ok true /\ compatible (S "<x1") (S ">x1") true = Ok true.
Proof. split; reflexivity. Qed.

(** a directional descriptor never pairs with one of its own direction (generated code, both conventions) *)
Theorem compatible_same_direction legacy k t t' : k = ">" \/ k = "<" ->
  compatible (k :: t) (k :: t') legacy = Ok false.
Proof.
  intros [-> | ->]; rewrite compatible_spec; f_equal; unfold Compat, compl; destruct legacy; cbn;
    rewrite ?andb_false_r; reflexivity.
Qed.

(** label-insensitive convention: only the symbol kinds count, labels and order digits are ignored *)
Theorem compatible_new_ignores_labels lk lt lt' rk rt rt' :
  compatible (lk :: lt) (rk :: rt) false = compatible (lk :: lt') (rk :: rt') false.
Proof. rewrite !compatible_spec. reflexivity. Qed.
