(** CutFold: the WHOLE bonding step of property C01.  If every base edge's cut bonds are written as
    dedicated, uniquely labelled descriptor pairs, and the labels used for different base edges
    are different on every fragment they share, then [edges_from_bonding] over all base edges
    (each with order = number of its cut bonds) creates exactly the cut bonds of the molecule:
    the created (atom, descriptor, atom, descriptor) tuples are a permutation of all cut pairs,
    whatever order the base graph lists its edges in and however ambiguous the scan order is. *)
From Coq Require Import String.
From Coq Require Import List Ascii ZArith Bool Lia Permutation.
From CGV Require Import Base.PyBase Base.PyVal Gen.ResolveGen Resolve.Bonding Resolve.BondingDefs
     Resolve.BondingSpec Resolve.BondingProofs Resolve.BondingCheck Resolve.CutCheck Resolve.CutBonding.
Import ListNotations.
Open Scope Z_scope.

Definition edge_of (e : cutedge) : Z * Z * Z := (ce_a e, ce_b e, Z.of_nat (length (ce_L e))).

Theorem forced_fold legacy arom : forall ES s acc s' acc',
  wf_state s -> Forall (ded_in legacy s) ES -> ForallOrdPairs disjoint_edges ES ->
  edges_from_bonding legacy arom (map edge_of ES) s acc = Ok (s', acc') ->
  exists new, acc' = acc ++ new /\ Permutation (map bond_cp new) (concat (map ce_L ES)) /\
              Forall (fun bd => exists e, In e ES /\ b_src bd = ce_a e /\ b_tgt bd = ce_b e) new.
Proof.
  induction ES as [|e r IH]; intros s acc s' acc' W D Dis; cbn [map edges_from_bonding].
  - intros [= <- <-]. exists []. rewrite app_nil_r. repeat split; constructor.
  - destruct e as [[a b] L]. unfold edge_of at 1. cbn [ce_a ce_b ce_L fst snd].
    rewrite Nat2Z.id.
    destruct (edge_loop legacy arom (length L) a b s acc) as [[s1 acc1]|er] eqn:E; cbn [bind]; [|discriminate].
    intros Run. inversion D as [|? ? [Nab De] Dr]; subst. cbn [ce_a ce_b ce_L fst snd] in *.
    inversion Dis as [|? ? Dhead Dtail]; subst.
    destruct (unique_labels_forced_gen legacy arom (length L) L a b s acc s1 acc1 eq_refl Nab W De E)
      as [[n1 [A1 [P1 F1]]] [W1 Hoth]].
    assert (Dr1 : Forall (ded_in legacy s1) r).
    { rewrite Forall_forall in *. intros e' He'. apply Hoth; [now apply Dr|now apply Dhead]. }
    destruct (IH _ _ _ _ W1 Dr1 Dtail Run) as [n2 [A2 [P2 F2]]].
    exists (n1 ++ n2). split; [rewrite A2, A1, app_assoc; reflexivity|]. split.
    + rewrite map_app. cbn [concat map ce_L snd]. now apply Permutation_app.
    + apply Forall_app. split.
      * eapply Forall_impl; [|exact F1]. cbn. intros bd [H1 H2]. exists (a, b, L). split; [now left|now split].
      * eapply Forall_impl; [|exact F2]. cbn. intros bd [e [He H]]. exists e. split; [now right|assumption].
Qed.

(** the executable tests of the hypotheses are sound *)
Lemma disjoint_edges_b_sound e e' : disjoint_edges_b e e' = true -> disjoint_edges e e'.
Proof.
  unfold disjoint_edges_b, disjoint_edges. cbn [forallb]. rewrite andb_true_r. intros H x d Hd Hd'.
  apply andb_true_iff in H as [Ha Hb]. rewrite forallb_forall in Ha, Hb.
  unfold on in Hd. apply in_app_or in Hd. destruct Hd as [Hd|Hd].
  - destruct (Z.eqb_spec x (ce_a e)) as [->|]; [|contradiction].
    assert (Hin : In d (on (ce_a e) e)) by (unfold on; rewrite Z.eqb_refl; apply in_or_app; now left).
    specialize (Ha d Hin). apply negb_true_iff in Ha. apply In_str_in in Hd'. congruence.
  - destruct (Z.eqb_spec x (ce_b e)) as [->|]; [|contradiction].
    assert (Hin : In d (on (ce_b e) e)) by (unfold on; rewrite Z.eqb_refl; apply in_or_app; now right).
    specialize (Hb d Hin). apply negb_true_iff in Hb. apply In_str_in in Hd'. congruence.
Qed.
Lemma pairwise_b_sound es : pairwise_b disjoint_edges_b es = true -> ForallOrdPairs disjoint_edges es.
Proof.
  induction es as [|e r IH]; cbn; [constructor|]. intros H. apply andb_true_iff in H as [H1 H2].
  constructor; [|auto]. rewrite forallb_forall in H1. rewrite Forall_forall. intros e' He'.
  apply disjoint_edges_b_sound. auto.
Qed.

(** the created bonds do not depend on the order in which the base graph lists its edges *)
Lemma concat_perm {A} (l l' : list (list A)) : Permutation l l' -> Permutation (concat l) (concat l').
Proof.
  induction 1 as [|x l l' _ IH|x y l|l l' l'' _ IH1 _ IH2]; cbn.
  - constructor.
  - now apply Permutation_app_head.
  - rewrite !app_assoc. apply Permutation_app_tail. apply Permutation_app_comm.
  - now transitivity (concat l').
Qed.

Theorem forced_fold_order_independent legacy arom : forall ES ES' s s1 b1 s2 b2,
  Permutation ES ES' -> wf_state s ->
  Forall (ded_in legacy s) ES -> ForallOrdPairs disjoint_edges ES ->
  Forall (ded_in legacy s) ES' -> ForallOrdPairs disjoint_edges ES' ->
  edges_from_bonding legacy arom (map edge_of ES) s [] = Ok (s1, b1) ->
  edges_from_bonding legacy arom (map edge_of ES') s [] = Ok (s2, b2) ->
  Permutation (map bond_cp b1) (map bond_cp b2).
Proof.
  intros ES ES' s s1 b1 s2 b2 P W D1 O1 D2 O2 R1 R2.
  destruct (forced_fold legacy arom ES s [] s1 b1 W D1 O1 R1) as [n1 [E1 [P1 _]]].
  destruct (forced_fold legacy arom ES' s [] s2 b2 W D2 O2 R2) as [n2 [E2 [P2 _]]].
  cbn in E1, E2. subst b1 b2.
  rewrite P1. rewrite P2. apply concat_perm. now apply Permutation_map.
Qed.
