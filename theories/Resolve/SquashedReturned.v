(** SquashedReturned: the copy statement of C02 in the RETURNED graphs of steps that DO squash atoms (coarse and all-atom, any
    dictionary of well-formed templates with numeric hydrogen counts, any aromaticity transcript the contract accepts).
    Chain: BondedCopy (template copy in the bonded graph fo_m2) - Hydro's quotient theorems (QuotientProofs.squash_quotient,
    squash_memberships, QuotientAttrs.squash_keeps_attrs: fo_m3 is the quotient of fo_m2 by the `!` classes, the survivor of a
    class lists the fragid / mapping entries of ALL members and keeps its other attributes) - the TAIL of the step (transcript,
    hydrogen completion, sort, E/Z annotation, atom names) which embeds fo_m3 into the returned graph.
    Result: every template atom of every coarse node with a fragment has ONE image in the returned graph (the survivor of its
    class, renumbered); the image lists the coarse key and the (fragname, atom) pair - a merged atom lists every coarse key of its
    class and nothing else; images of bonded template atoms are equal or adjacent, and two images are adjacent only if members of
    their classes were bonded; when the coarse keys are distinct every atom of the squashed graph (= every returned atom that hydrogen
    completion did not add) that records a coarse key is the image of a template atom of that node (CopyOnto). *)
From Coq Require Import String.
From Coq Require Import List Ascii ZArith Bool Lia Permutation.
From CGV Require Import Base.PyBase Base.PyVal Base.NxGraph Gen.HydroGen Resolve.Bonding Resolve.BondingDefs Resolve.GraphOps
     Resolve.MapProofs Resolve.CopyProofs Hydro.GraphLemmas Hydro.SquashDefs Resolve.Pipeline Resolve.PipelineFull Resolve.FragidProofs.
From CGV Require Resolve.SortGraphProofs Hydro.Squash Hydro.Hydrogens Hydro.RebuildProofs Hydro.SquashProofs Stereo.EzImpl Stereo.EzProofs
     Compose.RebuildWf Compose.CutSorted Dialect.ReturnedCar Dialect.ReturnedAnnot Hydro.QuotientDefs Hydro.QuotientProofs Hydro.QuotientAttrs
     Hydro.NumTotal Hydro.SquashTotal Hydro.SquashTotalAny Hydro.ShareCutTotal.
From CGV Require Import Compose.GraphFacts Compose.GraphAdj Resolve.EdgeCopyGen Resolve.BondedCopy Resolve.WfMerged Resolve.CoarseCopy
     Resolve.AllAtomCopy Resolve.SquashedCopy Resolve.CopyOnto.
From CGV Require Import Hydro.QuotientDefs.
Import ListNotations.
Open Scope Z_scope.

(** ---------------------------------------------------------------- squash_atoms keeps attribute lists dicts *)
Lemma dicts_map f g : (forall n, NoDup (map fst (na n)) -> NoDup (map fst (na (f n)))) -> dicts g -> dicts (map f g).
Proof. intros Hf. unfold ReturnedCar.dicts. induction 1; cbn; constructor; auto. Qed.
Lemma dicts_filter p g : dicts g -> dicts (filter p g).
Proof. unfold ReturnedCar.dicts. induction 1 as [|n r Hn Hr IH]; cbn; [constructor|]. destruct (p n); [constructor|]; auto. Qed.
Lemma dicts_remove_node g k : dicts g -> dicts (remove_node g k).
Proof. intros H. unfold remove_node. apply dicts_map; [intros n Hn; exact Hn|]. now apply dicts_filter. Qed.
Lemma dicts_gcopy g : dicts g -> dicts (gcopy g).
Proof.
  intros H. unfold gcopy.
  assert (forall l acc, dicts acc -> dicts l -> dicts (fold_left (fun acc n => add_node acc (nk n) (na n)) l acc)) as H1.
  { induction l as [|n r IH]; intros acc Ha Hl; [exact Ha|]. cbn [fold_left]. inversion Hl; subst. apply IH; [|assumption]. now apply dicts_add_node. }
  apply fold_left_inv; [|apply H1; [constructor|exact H]].
  intros acc n Ha. apply fold_left_inv; [|exact Ha]. intros acc2 wa Ha2. now apply dicts_add_edge.
Qed.
Lemma dicts_contracted sl g u v g' : dicts g -> Squash.contracted sl g u v = Ok g' -> dicts g'.
Proof.
  intros H. unfold Squash.contracted. destruct (gfind v g) as [nv|]; [|discriminate].
  set (h := fold_left _ _ _). destruct (gfind u h) as [nu|]; [|discriminate]. intros E. inversion E; subst. apply dicts_set.
  unfold h. apply fold_left_inv; [|now apply dicts_remove_node, dicts_gcopy].
  intros acc [[pw px] d] Ha. unfold Squash.remap_edge. destruct (_ && _); [exact Ha|]. destruct (negb _); now apply dicts_add_edge.
Qed.
Lemma dicts_concat keep rm g attr g' : dicts g -> Squash.concat_attr keep rm g attr = Ok g' -> dicts g'.
Proof.
  intros H. unfold Squash.concat_attr. destruct (node_attrs g keep) as [n|]; cbn [bind]; [|discriminate].
  destruct (aget attr n) as [old|]; cbn [of_option bind]; [|discriminate]. destruct (aget (S "contraction") n) as [c|]; cbn [of_option bind]; [|discriminate].
  destruct c; cbn [bind]; try discriminate. destruct (Squash.dict_get _ _) as [vd|]; cbn [of_option bind]; [|discriminate].
  destruct vd; cbn [bind]; try discriminate. destruct (Squash.dict_get _ _) as [add|]; cbn [of_option bind]; [|discriminate].
  destruct old; try discriminate. destruct add; try discriminate. intros E. inversion E. now apply dicts_set.
Qed.
Lemma dicts_hcount_min keep rm g g' : dicts g -> Squash.hcount_min keep rm g = Ok g' -> dicts g'.
Proof.
  intros H. unfold Squash.hcount_min. destruct (node_attrs g keep) as [n|]; cbn [bind]; [|discriminate].
  destruct (aget (S "contraction") n) as [c|]; cbn [of_option bind]; [|discriminate].
  destruct c; cbn [bind]; try discriminate. destruct (Squash.dict_get _ _) as [vd|]; cbn [of_option bind]; [|discriminate].
  destruct vd; cbn [bind]; try discriminate.
  destruct (aget squash_min_attr n) as [a|]; [|intros E; inversion E; now subst].
  destruct (Squash.dict_get _ _) as [b|]; [|intros E; inversion E; now subst].
  destruct (Hydrogens.half_of_num a); cbn [bind]; [|discriminate]. destruct (Hydrogens.half_of_num b); cbn [bind]; [|discriminate].
  intros E. inversion E. now apply dicts_set.
Qed.
Lemma hfold_inv {A St} (P : St -> Prop) (f : St -> A -> res St) l :
  (forall st x st', P st -> f st x = Ok st' -> P st') -> forall st st', P st -> Hydrogens.fold_res f l st = Ok st' -> P st'.
Proof.
  intros Hf. induction l as [|x r IH]; cbn [Hydrogens.fold_res]; intros st st' Hs H; [inversion H; now subst|].
  destruct (f st x) as [st1|] eqn:E; cbn [bind] in H; [|discriminate]. eapply IH; [|exact H]. eapply Hf; eauto.
Qed.
Lemma dicts_squash g g' : dicts g -> Squash.squash_atoms g = Ok g' -> dicts g'.
Proof.
  intros H. unfold Squash.squash_atoms. destruct (Hydrogens.fold_res _ _ _) as [st|] eqn:E; cbn [bind]; [|discriminate].
  intros X. inversion X; subst. apply (hfold_inv (fun st : Squash.sqstate => dicts (fst st)) Squash.squash_step _) with (st := (g, [])) (st' := st) in E; [exact E| |exact H].
  intros [g0 sq] [[a b] bond] st' Hg. cbn [fst] in Hg. unfold Squash.squash_step.
  destruct (Squash.starts_squash bond) as [is|]; cbn [bind]; [|discriminate]. destruct (negb is); [intros X0; inversion X0; now subst|].
  destruct (Squash.sq_root _ sq a) as [keep|]; cbn [bind]; [|discriminate]. destruct (Squash.sq_root _ sq b) as [rm|]; cbn [bind]; [|discriminate].
  destruct (Z.eqb keep rm); [intros X0; inversion X0; now subst|].
  destruct (Squash.contracted _ g0 keep rm) as [g1|] eqn:E1; cbn [bind]; [|discriminate].
  destruct (Hydrogens.fold_res (Squash.concat_attr keep rm) squash_concat_attrs g1) as [g2|] eqn:E2; cbn [bind]; [|discriminate].
  destruct (Squash.hcount_min keep rm g2) as [g3|] eqn:E3; cbn [bind]; [|discriminate]. intros X0. inversion X0; subst. cbn [fst].
  eapply dicts_hcount_min; [|exact E3]. eapply (hfold_inv (fun g => dicts g)); [|eapply dicts_contracted; [exact Hg|exact E1]|exact E2].
  intros s x s' Hs Hx. eapply dicts_concat; eauto.
Qed.

(** ---------------------------------------------------------------- the membership lists of a survivor, converse direction *)
(** the atoms removed by a plan are removed once, and never one that an earlier merge already removed *)
Lemma plan_removed_once ps : forall sq, SquashProofs.fwd sq ->
  NoDup (map snd (squash_plan sq ps)) /\ forall x, In x (map snd (squash_plan sq ps)) -> ~ In x (SquashProofs.sq_keys sq).
Proof.
  induction ps as [|[a b] r IH]; intros sq F; cbn [squash_plan]; [split; [constructor|intros x []]|].
  set (keep := sq_pass sq a). set (rm := sq_pass sq b).
  destruct (Z.eqb_spec keep rm) as [E|N]; [apply IH; exact F|].
  assert (~ In rm (SquashProofs.sq_keys sq)) as Hr by (apply SquashProofs.pass_not_key; exact F).
  assert (~ In keep (SquashProofs.sq_keys sq)) as Hk by (apply SquashProofs.pass_not_key; exact F).
  assert (SquashProofs.fwd (sq ++ [(rm, keep)])) as F2 by (apply SquashProofs.fwd_snoc; auto).
  destruct (IH _ F2) as [Nd Hd]. cbn [map snd]. split.
  - constructor; [|exact Nd]. intros X. apply (Hd rm X). unfold SquashProofs.sq_keys. rewrite map_app. apply in_or_app. right. now left.
  - intros x [<-|Hx]; [exact Hr|]. intros X. apply (Hd x Hx). unfold SquashProofs.sq_keys. rewrite map_app. apply in_or_app. now left.
Qed.
Lemma plan_sq_keys plan : SquashProofs.sq_keys (plan_sq plan) = map snd plan.
Proof. unfold SquashProofs.sq_keys, plan_sq. rewrite map_map. reflexivity. Qed.
(** an entry in the list of a survivor y stems from a member of y's class *)
Lemma merged_lists_from plan : NoDup (map snd plan) -> forall (F : Z -> list pyval) y v, ~ In y (map snd plan) ->
  In v (merged_lists F plan y) -> exists k, In v (F k) /\ sq_pass (plan_sq plan) k = y.
Proof.
  induction plan as [|[keep rm] r IH]; intros Nd F y v Hy Hin; [exists y; split; [exact Hin|reflexivity]|].
  cbn [map snd] in Nd, Hy. inversion Nd as [|? ? Hrm Nr]; subst. cbn [merged_lists] in Hin.
  assert (y <> rm) as Nyr by (intros X; apply Hy; now left). assert (~ In y (map snd r)) as Hy' by (intros X; apply Hy; now right).
  destruct (IH Nr _ y v Hy' Hin) as [k [Hk Pk]]. cbn beta in Hk.
  assert (forall z, sq_pass (plan_sq ((keep, rm) :: r)) z = sq_pass (plan_sq r) (if Z.eqb z rm then keep else z)) as Pc by (intros z; reflexivity).
  destruct (Z.eqb k keep) eqn:Ek.
  - apply Z.eqb_eq in Ek. subst k. apply in_app_or in Hk as [Hk|Hk].
    + exists keep. split; [exact Hk|]. rewrite Pc. destruct (Z.eqb keep rm); exact Pk.
    + exists rm. split; [exact Hk|]. rewrite Pc, Z.eqb_refl. exact Pk.
  - exists k. split; [exact Hk|]. rewrite Pc. destruct (Z.eqb_spec k rm) as [Ekr|_]; [|exact Pk].
    subst k. exfalso. apply Nyr. rewrite <- Pk. apply QuotientProofs.pass_nonkey. now rewrite plan_sq_keys.
Qed.
Lemma plan_fwd ps : forall sq, SquashProofs.fwd sq -> SquashProofs.fwd (sq ++ plan_sq (squash_plan sq ps)).
Proof.
  induction ps as [|[a b] r IH]; intros sq F; cbn [squash_plan]; [cbn; now rewrite app_nil_r|].
  set (keep := sq_pass sq a). set (rm := sq_pass sq b).
  destruct (Z.eqb_spec keep rm) as [E|N]; [apply IH; exact F|].
  assert (~ In rm (SquashProofs.sq_keys sq)) as Hr by (apply SquashProofs.pass_not_key; exact F).
  assert (~ In keep (SquashProofs.sq_keys sq)) as Hk by (apply SquashProofs.pass_not_key; exact F).
  assert (SquashProofs.fwd (sq ++ [(rm, keep)])) as F2 by (apply SquashProofs.fwd_snoc; auto).
  specialize (IH _ F2). cbn [plan_sq map fst snd]. rewrite <- app_assoc in IH. exact IH.
Qed.
(** a node of the squashed graph is no atom the plan removed *)
Lemma survivor_not_removed g y : rho g y = y -> ~ In y (map snd (squash_plan [] (bang_items g))).
Proof.
  intros E. rewrite <- plan_sq_keys, <- E. unfold rho. apply SquashProofs.pass_not_key. exact (plan_fwd (bang_items g) [] I).
Qed.

(** ---------------------------------------------------------------- the tail of a step embeds the squashed graph *)
(** attribute keys the tail of a step writes (hydrogen completion, aromaticity transcript, sort, E/Z, names) *)
Definition tail_keys : list pystr := [S "hcount"; S "aromatic"; S "ez_isomer_atoms"; S "ez_isomer"; S "ez_isomer_class"; S "atomname"].
Lemma tail_embed aa car meta m3 m4 m5 m6 f6 m7 f7 :
  wf_graph m3 -> dicts m3 -> (forall n, In n m3 -> aget (S "fragid") (na n) <> None) ->
  (aa = true -> forall g1, car = Some g1 -> RebuildWf.all_no_rs g1) ->
  (if aa then Hydrogens.rebuild_h_atoms_default m3 car else Ok m3) = Ok m4 ->
  sort_nodes_by_attr m4 = Ok m5 ->
  (if aa then EzImpl.annotate_ez_isomers_cgsmiles m5 else Ok m5) = Ok m6 ->
  (if aa then set_atom_names m6 meta f6 else Ok (m6, f6)) = Ok (m7, f7) ->
  exists sg : Z -> Z,
    (forall x y, In x (node_keys m3) -> In y (node_keys m3) -> sg x = sg y -> x = y) /\
    (forall x key v, In x (node_keys m3) -> ~ In key tail_keys -> node_get m3 x key = Some v -> node_get m7 (sg x) key = Some v) /\
    (forall x y, In x (node_keys m3) -> In y (node_keys m3) -> has_edge m7 (sg x) (sg y) = has_edge m3 x y).
Proof.
  intros W3 D3 F3 Rs E4 E5 E6 E8. destruct aa.
  - destruct car as [g1|]; [|discriminate E4]. specialize (Rs eq_refl g1 eq_refl).
    unfold Hydrogens.rebuild_h_atoms_default, Hydrogens.rebuild_h_atoms in E4.
    destruct (Hydrogens.transcript_contract m3 g1) eqn:Ct; [|discriminate E4].
    change rebuild_keep_bonding_default with false in E4.
    pose proof (c_wf4 m3 g1 m4 W3 D3 Ct Rs E4) as W4.
    pose proof (c_fragid4 m3 g1 m4 W3 D3 F3 Ct Rs E4) as Fid4.
    destruct (SortGraphProofs.sort_graph m4 m5 W4 Fid4 E5) as (m & Em0 & Inj & _ & _ & Hhe & Hng).
    assert (forall x, In x (node_keys m3) -> In x (node_keys m4)) as Hin4 by (intros x Hx; exact (c_in4 m3 g1 m4 W3 D3 Ct Rs E4 _ Hx)).
    exists (map_get m). split; [|split].
    + intros x y Hx Hy E. apply Inj; [now apply Hin4|now apply Hin4|exact E].
    + intros x key v Hx Hk Hv. unfold tail_keys in Hk. cbn [In] in Hk.
      rewrite (ReturnedAnnot.set_atom_names_keeps _ _ _ _ _ E8 _ key) by (intros X; apply Hk; rewrite X; tauto).
      rewrite (EzProofs.annotate_keeps _ _ _ key) by (try exact E6; intros X; apply Hk; rewrite X; tauto).
      rewrite (Hng _ key (Hin4 _ Hx)) by (intros X; apply Hk; rewrite X; tauto).
      apply (c_attr m3 g1 m4 W3 D3 Ct Rs E4 _ key v Hx); [intros X; apply Hk; rewrite X; tauto|intros X; apply Hk; rewrite X; tauto|exact Hv].
    + intros x y Hx Hy. rewrite (names_has_edge _ _ _ _ _ _ _ E8), (ez_has_edge _ _ _ _ E6), (Hhe _ _ (Hin4 x Hx) (Hin4 y Hy)).
      exact (c_edge m3 g1 m4 W3 D3 Ct Rs E4 _ _ Hx Hy).
  - inversion E4; subst m4. inversion E6; subst m6. inversion E8; subst m7 f7.
    destruct (SortGraphProofs.sort_graph m3 m5 W3 (CutSorted.gna_all_keys _ _ F3) E5) as (m & Em0 & Inj & _ & _ & Hhe & Hng).
    exists (map_get m). split; [exact Inj|]. split.
    + intros x key v Hx Hk Hv. unfold tail_keys in Hk. cbn [In] in Hk. rewrite (Hng _ key Hx) by (intros X; apply Hk; rewrite X; tauto). exact Hv.
    + intros x y Hx Hy. now apply Hhe.
Qed.

(** ---------------------------------------------------------------- the returned graph of a squashing step *)
Definition mapping_entry (name : pystr) (t : Z) : pyval := VTup [VStr name; VInt t].
(** keys a step writes, with the 'contraction' bookkeeping of networkx' contracted_nodes *)
Definition written_keys_sq : list pystr := S "contraction" :: written_keys.

Lemma nattrs_in g k : In k (node_keys g) -> exists a, nattrs g k = Some a.
Proof. intros H. apply gfind_has in H. unfold has_node in H. unfold nattrs. destruct (gfind k g); [eexists; reflexivity|discriminate]. Qed.
Lemma node_get_nattrs g k key : node_get g k key = match nattrs g k with Some a => aget key a | None => None end.
Proof. unfold node_get, nattrs. destruct (gfind k g); reflexivity. Qed.

Theorem step_squashed_returned legacy aa fd prev car fo : tmpl_dict fd -> wf_attrs fd -> NumTotal.hnum_dict fd ->
  resolve_step_full legacy aa fd prev car = Ok fo ->
  (forall es, base_edges (fo_meta fo) = Ok es -> wf_edges es) ->
  (aa = true -> forall g1, car = Some g1 -> RebuildWf.all_no_rs g1) ->
  exists sg : Z -> Z,
    (forall x y, In x (node_keys (fo_m3 fo)) -> In y (node_keys (fo_m3 fo)) -> sg x = sg y -> x = y) /\
    (forall x y, In x (node_keys (fo_m3 fo)) -> In y (node_keys (fo_m3 fo)) -> has_edge (fo_mol fo) (sg x) (sg y) = has_edge (fo_m3 fo) x y) /\
    forall pre mn post fv name frag, fo_meta fo = pre ++ mn :: post ->
    aget (S "fragname") (na mn) = Some fv -> lookup_fragment fd fv = Some (name, frag) ->
    exists cf0 : Z -> Z,
      (forall a b, In a (node_keys frag) -> In b (node_keys frag) -> cf0 a = cf0 b -> a = b) /\
      (forall n, In n frag ->
         In (cf0 (nk n)) (node_keys (fo_m2 fo)) /\ In (rho (fo_m2 fo) (cf0 (nk n))) (node_keys (fo_m3 fo)) /\
         exists l lm,
           node_get (fo_mol fo) (sg (rho (fo_m2 fo) (cf0 (nk n)))) (S "fragid") = Some (VList l) /\ In (VInt (nk mn)) l /\
           node_get (fo_mol fo) (sg (rho (fo_m2 fo) (cf0 (nk n)))) (S "mapping") = Some (VList lm) /\ In (mapping_entry name (nk n)) lm /\
           l = merged_lists (ShareCutTotal.lists_fn (fo_m2 fo) (S "fragid")) (squash_plan [] (bang_items (fo_m2 fo))) (rho (fo_m2 fo) (cf0 (nk n))) /\
           lm = merged_lists (ShareCutTotal.lists_fn (fo_m2 fo) (S "mapping")) (squash_plan [] (bang_items (fo_m2 fo))) (rho (fo_m2 fo) (cf0 (nk n))) /\
           (forall v, In v l -> exists p, In p (node_keys (fo_m2 fo)) /\ rho (fo_m2 fo) p = rho (fo_m2 fo) (cf0 (nk n)) /\
                                         node_get (fo_m2 fo) p (S "fragid") = Some (VList [v])) /\
           (rho (fo_m2 fo) (cf0 (nk n)) = cf0 (nk n) -> forall key v, ~ In key written_keys_sq -> aget key (na n) = Some v ->
              node_get (fo_mol fo) (sg (cf0 (nk n))) key = Some v)) /\
      (forall a b, In a (node_keys frag) -> In b (node_keys frag) -> has_edge frag a b = true ->
         rho (fo_m2 fo) (cf0 a) = rho (fo_m2 fo) (cf0 b) \/
         has_edge (fo_mol fo) (sg (rho (fo_m2 fo) (cf0 a))) (sg (rho (fo_m2 fo) (cf0 b))) = true) /\
      (forall a b, In a (node_keys frag) -> In b (node_keys frag) ->
         has_edge (fo_mol fo) (sg (rho (fo_m2 fo) (cf0 a))) (sg (rho (fo_m2 fo) (cf0 b))) = true ->
         exists p q, rho (fo_m2 fo) p = rho (fo_m2 fo) (cf0 a) /\ rho (fo_m2 fo) q = rho (fo_m2 fo) (cf0 b) /\ has_edge (fo_m2 fo) p q = true) /\
      (NoDup (node_keys (fo_meta fo)) -> forall x l, In x (node_keys (fo_m3 fo)) ->
         node_get (fo_mol fo) (sg x) (S "fragid") = Some (VList l) -> In (VInt (nk mn)) l ->
         exists a, In a (node_keys frag) /\ rho (fo_m2 fo) (cf0 a) = x).
Proof.
  intros Hd Hwa Hnd H. unfold resolve_step_full in H. cbv zeta in H.
  destruct (resolve_disconnected fd _) as [[m1 fg1]|] eqn:E1; cbn [bind] in H; [|discriminate H].
  destruct (bonding_step legacy aa _ m1 fg1) as [[m2 fg2]|] eqn:E2; cbn [bind] in H; [|discriminate H].
  destruct (Squash.squash_atoms m2) as [m3|] eqn:E3; cbn [bind] in H; [|discriminate H].
  destruct (if aa then Hydrogens.rebuild_h_atoms_default m3 car else Ok m3) as [m4|] eqn:E4; cbn [bind] in H; [|discriminate H].
  destruct (sort_nodes_by_attr m4) as [m5|] eqn:E5; cbn [bind] in H; [|discriminate H].
  destruct (if aa then EzImpl.annotate_ez_isomers_cgsmiles m5 else Ok m5) as [m6|] eqn:E6; cbn [bind] in H; [|discriminate H].
  destruct (annotate_fragments _ m6) as [f6|]; cbn [bind] in H; [|discriminate H].
  destruct (if aa then set_atom_names m6 _ f6 else Ok (m6, f6)) as [[m7 f7]|] eqn:E8; cbn [bind] in H; [|discriminate H].
  inversion H; subst fo. clear H. cbn [fo_meta fo_m2 fo_m3 fo_mol]. intros Hwe Rs.
  set (meta := set_nodes_from prev (S "fragname") (get_node_attributes prev (S "atomname"))) in *.
  pose proof (tmpl_dict_wf _ Hd) as Hwd.
  destruct (bonded_gok _ _ _ _ _ _ _ _ Hd E1 E2 Hwe) as [W2 _].
  pose proof (dicts_bonding _ _ _ _ _ _ _ (dicts_disconnected _ _ _ _ Hwa E1) E2) as D2.
  pose proof (bonded_keys _ _ _ _ _ _ _ _ Hd E1 E2 Hwe) as K21.
  assert (length m2 = length m1) as L21 by (apply (f_equal (@length Z)) in K21; unfold node_keys in K21; now rewrite !map_length in K21).
  pose proof (SquashTotal.typed_inv_typed_g _ (SquashTotalAny.bonding_step_typed_any _ _ _ _ _ _ _ (SquashTotal.resolve_disconnected_typed _ _ _ _ Hwd E1) E2 L21)) as T2.
  pose proof (NumTotal.num_inv_hnum_g _ (NumTotal.bonding_step_num_any _ _ _ _ _ _ _ (NumTotal.resolve_disconnected_num _ _ _ _ Hwd Hnd E1) E2 L21)) as HN2.
  pose proof (ShareCutTotal.typed_lists_of m2 T2) as L2.
  set (Fl := ShareCutTotal.lists_fn m2 (S "fragid")) in *. set (Ml := ShareCutTotal.lists_fn m2 (S "mapping")) in *.
  set (plan := squash_plan [] (bang_items m2)).
  destruct (QuotientProofs.squash_quotient m2 m3 W2 E3) as (W3 & K3 & Q3 & R3).
  pose proof (QuotientProofs.squash_memberships m2 m3 Fl Ml W2 L2 HN2 E3) as ML. fold plan in ML.
  pose proof (QuotientAttrs.squash_keeps_attrs m2 m3 Fl Ml W2 L2 HN2 E3) as KP.
  pose proof (dicts_squash m2 m3 D2 E3) as D3.
  assert (forall n, In n m3 -> aget (S "fragid") (na n) <> None) as F3.
  { intros n Hn. assert (nattrs m3 (nk n) = Some (na n)) as Na by (unfold nattrs; now rewrite (gfind_in m3 (wf_nodup _ W3) n Hn)).
    destruct (ML _ _ Na) as [Ef _]. rewrite Ef. discriminate. }
  destruct (tail_embed aa car meta m3 m4 m5 m6 f6 m7 f7 W3 D3 F3 Rs E4 E5 E6 E8) as (sg & SInj & SAttr & SEdge).
  assert (S "fragid" <> S "hcount") as Nfh by (intros X; apply str_eqb_eq in X; vm_compute in X; discriminate).
  (* every atom of the bonded graph records exactly one coarse key *)
  assert (forall p l, node_get m2 p (S "fragid") = Some (VList l) -> exists c, l = [VInt c]) as Single.
  { intros p l Hp. rewrite (bonding_node_get _ _ _ _ _ _ _ p _ Nfh E2) in Hp.
    destruct (resolve_disconnected_inv fd meta m1 fg1 Hwd E1) as [_ Ha]. unfold node_get in Hp.
    destruct (gfind p m1) as [rp|] eqn:G; [|discriminate Hp]. destruct (Ha p (na rp)) as [c [_ Hc]]; [unfold node_attrs; now rewrite G|].
    rewrite Hc in Hp. inversion Hp. eauto. }
  exists sg. split; [exact SInj|]. split; [exact SEdge|].
  intros pre mn post fv name frag Em Hf Hl.
  destruct (bonded_copy_onto fd meta m1 fg1 legacy aa m2 fg2 Hd E1 E2 Hwe pre mn post fv name frag Em Hf Hl) as (cf0 & Inj0 & Hn0 & He0 & Onto0).
  assert (forall t, In t (node_keys frag) -> In (cf0 t) (node_keys m2)) as Hin2.
  { intros t Ht. unfold node_keys in Ht. apply in_map_iff in Ht as [n [<- Hn]]. eapply node_get_some_in. exact (proj1 (Hn0 n Hn)). }
  exists cf0. split; [exact Inj0|]. split; [|split; [|split]].
  - intros n Hn. assert (In (nk n) (node_keys frag)) as Hk by (unfold node_keys; now apply in_map).
    destruct (Hn0 n Hn) as [A [B Ck]]. pose proof (Hin2 _ Hk) as Hp. set (p := cf0 (nk n)) in *. pose proof (R3 p Hp) as Hy. set (y := rho m2 p) in *.
    split; [exact Hp|]. split; [exact Hy|].
    destruct (nattrs_in m3 y Hy) as [ay Nay]. destruct (ML y ay Nay) as [Fy My].
    exists (merged_lists Fl plan y), (merged_lists Ml plan y).
    assert (S "fragid" <> S "atomname" /\ S "mapping" <> S "atomname") as [Nfa Nma] by (split; intros X; apply str_eqb_eq in X; vm_compute in X; discriminate).
    assert (~ In (S "fragid") tail_keys) as Tf by (intros X; vm_compute in X; intuition discriminate).
    assert (~ In (S "mapping") tail_keys) as Tm by (intros X; vm_compute in X; intuition discriminate).
    split; [apply (SAttr y _ _ Hy Tf); rewrite node_get_nattrs, Nay; exact Fy|].
    split; [unfold y, rho; apply ShareCutTotal.merged_lists_incl; unfold Fl, ShareCutTotal.lists_fn; rewrite node_get_nattrs in A;
            destruct (nattrs m2 p); [rewrite A; now left|discriminate A]|].
    split; [apply (SAttr y _ _ Hy Tm); rewrite node_get_nattrs, Nay; exact My|].
    split; [unfold y, rho; apply ShareCutTotal.merged_lists_incl; unfold Ml, ShareCutTotal.lists_fn; rewrite node_get_nattrs in B;
            destruct (nattrs m2 p); [rewrite B; now left|discriminate B]|].
    split; [reflexivity|]. split; [reflexivity|].
    split.
    + intros v Hv.
      assert (rho m2 y = y) as Ry by (rewrite K3 in Hy; apply filter_In in Hy as [_ Hy]; now apply Z.eqb_eq in Hy).
      destruct (merged_lists_from plan (proj1 (plan_removed_once (bang_items m2) [] I)) Fl y v (survivor_not_removed m2 y Ry) Hv) as [q [Hq Pq]].
      unfold Fl, ShareCutTotal.lists_fn in Hq. destruct (nattrs m2 q) as [aq|] eqn:Nq; [|destruct Hq].
      destruct (aget (S "fragid") aq) as [vq|] eqn:Eq; [|destruct Hq]. destruct vq; try destruct Hq.
      assert (node_get m2 q (S "fragid") = Some (VList l)) as Gq by (rewrite node_get_nattrs, Nq; exact Eq).
      destruct (Single q l Gq) as [c ->]. destruct Hq as [<-|[]]. exists q. split; [|split; [exact Pq|exact Gq]].
      eapply node_get_some_in. exact Gq.
    + intros Ey key v Hkk Hv. unfold written_keys_sq, written_keys in Hkk. cbn [In] in Hkk. fold p. fold y in Ey. rewrite <- Ey.
      destruct (KP y ay Nay) as (a0 & N0 & K0).
      apply (SAttr y key v Hy); [unfold tail_keys; cbn [In]; intros X; apply Hkk; tauto|].
      rewrite node_get_nattrs, Nay, K0 by (try (intros X; apply Hkk; rewrite X; tauto); change squash_min_attr with (S "hcount"); intros X; apply Hkk; rewrite X; tauto).
      rewrite Ey in N0. specialize (Ck key). rewrite node_get_nattrs, N0 in Ck. rewrite Ck; [exact Hv| | | |]; intros X; apply Hkk; rewrite X; tauto.
  - intros a b Ha Hb Hab. set (r := rho m2).
    destruct (Z.eqb_spec (r (cf0 a)) (r (cf0 b))) as [E|N]; [now left|]. right.
    rewrite SEdge by (apply R3; now apply Hin2). rewrite Q3. unfold qedge. fold r.
    apply andb_true_iff. split; [apply negb_true_iff, Z.eqb_neq; exact N|].
    assert (has_edge m2 (cf0 a) (cf0 b) = true) as H2.
    { rewrite has_edge_attrs, (He0 a b Ha Hb). unfold tmpl_edge. rewrite has_edge_attrs in Hab. destruct (edge_attrs frag a b); [reflexivity|discriminate Hab]. }
    rewrite (QuotientProofs.has_edge_dir _ _ _ W2) in H2. unfold qedge in H2. apply andb_true_iff in H2 as [_ H2].
    apply existsb_exists in H2 as [e [Hin' He']]. apply andb_true_iff in He' as [A B]. apply Z.eqb_eq in A, B.
    apply existsb_exists. exists e. split; [exact Hin'|]. rewrite A, B, !Z.eqb_refl. reflexivity.
  - intros a b Ha Hb Hab. rewrite SEdge in Hab by (apply R3; now apply Hin2). rewrite Q3 in Hab. unfold qedge in Hab.
    apply andb_true_iff in Hab as [Hne Hex]. apply existsb_exists in Hex as [[p q] [Hin' He']]. cbn [fst snd] in He'.
    apply andb_true_iff in He' as [A B]. apply Z.eqb_eq in A, B. exists p, q. split; [exact A|]. split; [exact B|].
    rewrite (QuotientProofs.has_edge_dir _ _ _ W2). unfold qedge. apply andb_true_iff. split.
    + apply negb_true_iff, Z.eqb_neq. intros X. subst q. apply negb_true_iff, Z.eqb_neq in Hne. apply Hne. now rewrite <- A, <- B.
    + apply existsb_exists. exists (p, q). split; [exact Hin'|]. cbn [fst snd]. now rewrite !Z.eqb_refl.
  - intros Nd x l Hx Hg Hl0.
    assert (~ In (S "fragid") tail_keys) as Tf by (intros X; vm_compute in X; intuition discriminate).
    destruct (nattrs_in m3 x Hx) as [ax Nax]. destruct (ML x ax Nax) as [Fx _].
    assert (node_get m7 (sg x) (S "fragid") = Some (VList (merged_lists Fl plan x))) as Hg2
      by (apply (SAttr x _ _ Hx Tf); rewrite node_get_nattrs, Nax; exact Fx).
    rewrite Hg in Hg2. inversion Hg2; subst l.
    assert (rho m2 x = x) as Rx by (rewrite K3 in Hx; apply filter_In in Hx as [_ Hx]; now apply Z.eqb_eq in Hx).
    destruct (merged_lists_from plan (proj1 (plan_removed_once (bang_items m2) [] I)) Fl x _ (survivor_not_removed m2 x Rx) Hl0) as [q [Hq Pq]].
    unfold Fl, ShareCutTotal.lists_fn in Hq. destruct (nattrs m2 q) as [aq|] eqn:Nq; [|destruct Hq].
    destruct (aget (S "fragid") aq) as [vq|] eqn:Eq; [|destruct Hq]. destruct vq; try destruct Hq.
    assert (node_get m2 q (S "fragid") = Some (VList l)) as Gq by (rewrite node_get_nattrs, Nq; exact Eq).
    destruct (Single q l Gq) as [c ->]. destruct Hq as [Ec|[]]. inversion Ec; subst c.
    destruct (Onto0 Nd q Gq) as [a [Ha Ea]]. exists a. split; [exact Ha|]. rewrite <- Ea. exact Pq.
Qed.

(** ---------------------------------------------------------------- in terms of the returned coarse-node graphs *)
Lemma step_mol_m6 legacy aa fd prev car fo : resolve_step_full legacy aa fd prev car = Ok fo ->
  forall k key, key <> S "atomname" -> node_get (fo_mol fo) k key = node_get (fo_m6 fo) k key.
Proof.
  intros H. unfold resolve_step_full in H. cbv zeta in H.
  destruct (resolve_disconnected fd _) as [[m1 fg1]|]; cbn [bind] in H; [|discriminate H].
  destruct (bonding_step legacy aa _ m1 fg1) as [[m2 fg2]|]; cbn [bind] in H; [|discriminate H].
  destruct (Squash.squash_atoms m2) as [m3|]; cbn [bind] in H; [|discriminate H].
  destruct (if aa then Hydrogens.rebuild_h_atoms_default m3 car else Ok m3) as [m4|]; cbn [bind] in H; [|discriminate H].
  destruct (sort_nodes_by_attr m4) as [m5|]; cbn [bind] in H; [|discriminate H].
  destruct (if aa then EzImpl.annotate_ez_isomers_cgsmiles m5 else Ok m5) as [m6|]; cbn [bind] in H; [|discriminate H].
  destruct (annotate_fragments _ m6) as [f6|]; cbn [bind] in H; [|discriminate H].
  destruct (if aa then set_atom_names m6 _ f6 else Ok (m6, f6)) as [[m7 f7]|] eqn:E8; cbn [bind] in H; [|discriminate H].
  inversion H; subst fo. cbn [fo_mol fo_m6]. intros k key Hk. destruct aa.
  - exact (ReturnedAnnot.set_atom_names_keeps _ _ _ _ _ E8 k key Hk).
  - inversion E8; subst. reflexivity.
Qed.
Lemma node_get_gna g n a v : node_get g n a = Some v -> In (n, v) (get_node_attributes g a).
Proof.
  unfold node_get. destruct (gfind n g) as [r|] eqn:G; [|discriminate]. intros Hv. unfold get_node_attributes. apply in_flat_map.
  exists r. split; [exact (gfind_in_graph _ _ _ G)|]. rewrite Hv, (gfind_key _ _ _ G). now left.
Qed.
(** the 'graph' attribute the step returns for coarse node mn contains, for EVERY template atom of mn's fragment, an atom whose
    fragid lists mn's key and whose mapping lists (fragname, template atom) - also when atoms were squashed *)
Theorem step_squashed_graphs legacy aa fd prev car fo : tmpl_dict fd -> wf_attrs fd -> NumTotal.hnum_dict fd ->
  resolve_step_full legacy aa fd prev car = Ok fo ->
  (forall es, base_edges (fo_meta fo) = Ok es -> wf_edges es) ->
  (aa = true -> forall g1, car = Some g1 -> RebuildWf.all_no_rs g1) ->
  forall pre mn post fv name frag g, fo_meta fo = pre ++ mn :: post ->
  aget (S "fragname") (na mn) = Some fv -> lookup_fragment fd fv = Some (name, frag) -> In (nk mn, g) (fo_fgs fo) ->
  forall n, In n frag -> exists y l lm, In y (node_keys g) /\
    node_get (fo_mol fo) y (S "fragid") = Some (VList l) /\ In (VInt (nk mn)) l /\
    node_get (fo_mol fo) y (S "mapping") = Some (VList lm) /\ In (mapping_entry name (nk n)) lm.
Proof.
  intros Hd Hwa Hnd H Hwe Rs pre mn post fv name frag g Em Hf Hl Hg n Hn.
  destruct (step_squashed_returned _ _ _ _ _ _ Hd Hwa Hnd H Hwe Rs) as (sg & _ & _ & Hall).
  destruct (Hall pre mn post fv name frag Em Hf Hl) as (cf0 & _ & Hnodes & _).
  destruct (Hnodes n Hn) as (_ & _ & l & lm & Fl & Il & Fm & Im & _).
  exists (sg (rho (fo_m2 fo) (cf0 (nk n)))), l, lm. split; [|auto].
  destruct (step_frag_exact_iff _ _ _ _ _ _ _ _ (tmpl_dict_wf _ Hd) Hwa H Hg) as (g0 & fgs0 & _ & _ & Ek & Hex). rewrite Ek. apply Hex.
  assert (S "fragid" <> S "atomname") as Nfa by (intros X; apply str_eqb_eq in X; vm_compute in X; discriminate).
  rewrite (step_mol_m6 _ _ _ _ _ _ H _ _ Nfa) in Fl.
  exists (VList l), l. split; [now apply node_get_gna|]. split; [reflexivity|exact Il].
Qed.
