(** EdgeCopyGen: the EDGE part of the template copy for ARBITRARY fragment dictionaries and coarse graphs (Resolve/EdgeCopy.v has
    it for whole steps on the cut domain of the Compose component): merge_graphs gives every pair of template atoms a, b the
    edge the template has between them (same attribute dict, no edge where the template has none) and leaves the edges of the
    old nodes alone; the stamping loop of resolve_disconnected_molecule does not touch edges; later instantiations do not
    touch the copy.  Template hypotheses: hydro's wf_graph (distinct keys, symmetric closed adjacency, no loop), no duplicate
    adjacency entry, both directions of an edge carry the same dict (networkx stores ONE dict per edge). *)
From Coq Require Import String.
From Coq Require Import List Ascii ZArith Bool Lia Permutation.
From CGV Require Import Base.PyBase Base.PyVal Base.NxGraph Resolve.Bonding Resolve.GraphOps Resolve.MapProofs Resolve.CopyProofs
     Hydro.GraphLemmas Hydro.SquashDefs.
From CGV Require Resolve.SortGraphProofs Hydro.SquashProofs Resolve.NameProofs.
From CGV Require Import Compose.GraphFacts Compose.GraphAdj Compose.CutModel Compose.CutDisc Compose.SortIdentity.
Import ListNotations.
Open Scope Z_scope.

Record wf_tmpl (T : graph) : Prop := {
  wt_wf : wf_graph T;
  wt_adj : adj_nodup T;
  wt_sym : forall a b, edge_attrs T a b = edge_attrs T b a }.

Lemma edge_attrs_absent g x y : has_node g x = false -> edge_attrs g x y = Err EKey.
Proof. unfold has_node, edge_attrs. destruct (gfind x g); [discriminate|reflexivity]. Qed.
Lemma merge_fold_edges off1 fo (f : Z -> Z) tgt : forall acc g x y,
  GraphOps.fold_res (fun acc n => a <- merge_node off1 fo (na n) ;; Ok (add_node acc (f (nk n)) a)) tgt acc = Ok g ->
  edge_attrs g x y = edge_attrs acc x y.
Proof.
  induction tgt as [|n r IH]; cbn [GraphOps.fold_res]; intros acc g x y H; [inversion H; reflexivity|].
  destruct (merge_node off1 fo (na n)) as [a|]; cbn [bind] in H; [|discriminate H]. rewrite (IH _ _ x y H). apply edge_attrs_add_node.
Qed.

Theorem merge_edges_copy src tgt g corr : merge_graphs src tgt = Ok (g, corr) -> wf_tmpl tgt ->
  (forall a b, In a (node_keys tgt) -> In b (node_keys tgt) ->
     edge_attrs g (map_get corr a) (map_get corr b) = match edge_attrs tgt a b with Ok d => Ok (aupdate [] d) | Err _ => Err EKey end) /\
  (forall x y, In x (node_keys src) -> edge_attrs g x y = edge_attrs src x y).
Proof.
  intros H [Wf Adj Sym]. pose proof (wf_nodup _ Wf) as Hn.
  destruct (merge_graphs_corr _ _ _ _ H) as [off [fo [Ho Ec]]]. subst corr.
  pose proof (corr_fresh src tgt off fo Ho Hn) as Hfr.
  assert (NoDup (map (fun n => map_get (correspondence off tgt) (nk n)) tgt)) as Hnd
    by (rewrite corr_values by exact Hn; apply correspondence_injective).
  set (cf := map_get (correspondence off tgt)) in *.
  assert (forall a b, In a (node_keys tgt) -> In b (node_keys tgt) -> cf a = cf b -> a = b) as Inj.
  { intros a b Ha Hb E. apply (NameProofs.nodup_map_eq cf (node_keys tgt)); auto. unfold node_keys. now rewrite map_map. }
  assert (forall k, In k (node_keys tgt) -> has_node src (cf k) = false) as Hfr'.
  { intros k Hk. unfold node_keys in Hk. apply in_map_iff in Hk as [n [<- Hin]]. now apply Hfr. }
  revert H. unfold merge_graphs. rewrite Ho. unfold bind at 1. fold cf.
  destruct (GraphOps.fold_res _ tgt src) as [src1|] eqn:Ef; [|discriminate]. unfold bind. intros H. inversion H; subst g. clear H.
  assert (forall k, In k (node_keys tgt) -> has_node src1 (cf k) = true) as Hkeys.
  { intros k Hk. unfold node_keys in Hk. apply in_map_iff in Hk as [n [<- Hin]].
    destruct (merge_fold_attrs (off + 1) fo cf tgt src src1 Ef Hnd Hfr n Hin) as [a' [_ A]]. eapply node_attrs_has; exact A. }
  assert (HE : forall e, In e (edges_data tgt) -> In (eu e) (node_keys tgt) /\ In (ev e) (node_keys tgt) /\ eu e <> ev e /\
                        edge_attrs tgt (eu e) (ev e) = Ok (ed e)).
  { intros e He. destruct (edges_data_pairs tgt Wf Adj e He) as (Hu & Hv & N & Ea). repeat split; auto; now apply gfind_has. }
  rewrite (merge_edge_fold cf (edges_data tgt) src1)
    by (intros e He; destruct (HE e He) as (Hu & Hv & N & _); intros X; apply N; now apply Inj).
  set (EL := map (fun e : Z * Z * attrs => (cf (eu e), cf (ev e), ed e)) (edges_data tgt)).
  assert (HEL : forall e', In e' EL -> exists e, In e (edges_data tgt) /\ e' = (cf (eu e), cf (ev e), ed e)).
  { intros e' He'. apply in_map_iff in He' as (e & <- & He). eauto. }
  destruct (add_edges_spec EL src1) as (_ & _ & E).
  - intros e' He'. destruct (HEL e' He') as (e & He & ->). destruct (HE e He) as (Hu & Hv & N & _).
    unfold eu at 1 3, ev at 1 3. cbn [fst snd]. repeat split; [now apply Hkeys|now apply Hkeys|]. intros X. apply N. now apply Inj.
  - intros e' He'. destruct (HEL e' He') as (e & He & ->). destruct (HE e He) as (Hu & _). unfold eu at 1, ev at 1. cbn [fst snd].
    rewrite has_edge_attrs, (merge_fold_edges _ _ _ _ _ _ _ _ Ef), (edge_attrs_absent src _ _ (Hfr' _ Hu)). reflexivity.
  - unfold EL. apply FOP_map. pose proof (edges_data_once tgt Hn Adj) as Once. unfold unordered_nodup, edges_list in Once. apply FOP_map in Once.
    eapply FOP_impl; [|exact Once]. cbn [fst snd]. intros e1 e2 H1 H2 Hne. destruct (upair _ _ _ _) eqn:U; [|reflexivity]. exfalso. apply Hne.
    unfold eu at 1 3, ev at 1 3 in U. cbn [fst snd] in U. apply upair_true in U.
    destruct (HE e1 H1) as (A1 & A2 & _). destruct (HE e2 H2) as (B1 & B2 & _).
    destruct U as [[X Y]|[X Y]]; apply Inj in X; auto; apply Inj in Y; auto.
  - split.
    + intros a b Ha Hb. rewrite E. destruct (find_edge (cf a) (cf b) EL) as [e'|] eqn:F.
      * apply find_some in F as [Hin U]. destruct (HEL e' Hin) as (e & He & ->). destruct (HE e He) as (Hu & Hv & N & Ea).
        unfold ed at 1. cbn [snd]. unfold eu at 1, ev at 1 in U. cbn [fst snd] in U. apply upair_true in U.
        destruct U as [[X Y]|[X Y]]; apply Inj in X; auto; apply Inj in Y; auto; subst a b.
        -- now rewrite Ea.
        -- now rewrite (Sym (ev e) (eu e)), Ea.
      * rewrite (merge_fold_edges _ _ _ _ _ _ _ _ Ef), (edge_attrs_absent src _ _ (Hfr' _ Ha)).
        destruct (edge_attrs tgt a b) as [d|] eqn:Ea; [|reflexivity]. exfalso.
        destruct (edge_listed tgt Wf a b (edge_attrs_ok_has _ _ _ _ Ea)) as [e Fe]. apply find_some in Fe as [Hin U].
        unfold find_edge in F. pose proof (find_none _ _ F (cf (eu e), cf (ev e), ed e)) as X. cbn beta in X.
        assert (In (cf (eu e), cf (ev e), ed e) EL) as HinEL by (unfold EL; apply in_map_iff; exists e; auto). specialize (X HinEL).
        change (upair (cf a) (cf b) (cf (eu e)) (cf (ev e)) = false) in X. apply upair_true in U.
        assert (upair (cf a) (cf b) (cf (eu e)) (cf (ev e)) = true); [|congruence]. apply upair_true. destruct U as [[-> ->]|[-> ->]]; auto.
    + intros x y Hx. rewrite E. assert (find_edge x y EL = None) as ->.
      { unfold find_edge. apply find_none_all. intros e' He'. destruct (HEL e' He') as (e & He & ->). destruct (HE e He) as (Hu & Hv & _).
        change (upair x y (cf (eu e)) (cf (ev e)) = false). destruct (upair _ _ _ _) eqn:U; [|reflexivity]. exfalso. apply upair_true in U.
        apply gfind_has in Hx. destruct U as [[X _]|[X _]]; subst x; [rewrite (Hfr' _ Hu) in Hx|rewrite (Hfr' _ Hv) in Hx]; discriminate. }
      apply (merge_fold_edges _ _ _ _ _ _ _ _ Ef).
Qed.

(** ---------------------------------------------------------------- one instantiation step *)
Definition tmpl_dict (fd : fragdict) : Prop := forall name g, fd_get name fd = Some g -> wf_tmpl g.
Lemma wf_tmpl_template T : wf_tmpl T -> wf_template T.
Proof.
  intros [Wf _ _]. split; [exact (wf_nodup _ Wf)|]. intros u v d H.
  destruct (SortGraphProofs.edges_endpoints T u v d Wf H) as [Hu Hv]. split; now apply gfind_has.
Qed.
Lemma tmpl_dict_wf fd : tmpl_dict fd -> wf_dict fd.
Proof. intros H name g Hg. apply wf_tmpl_template. exact (H name g Hg). Qed.

Definition tmpl_edge (frag : graph) (a b : Z) : res attrs :=
  match edge_attrs frag a b with Ok d => Ok (aupdate [] d) | Err _ => Err EKey end.

Theorem disc_step_edges fd mol fgs mn fv name frag mol2 fgs2 :
  aget (S "fragname") (na mn) = Some fv -> lookup_fragment fd fv = Some (name, frag) -> wf_tmpl frag ->
  disc_step fd (mol, fgs) mn = Ok (mol2, fgs2) ->
  exists off fo, merge_offsets mol = Ok (off, fo) /\
    (forall a b, In a (node_keys frag) -> In b (node_keys frag) ->
       edge_attrs mol2 (map_get (correspondence off frag) a) (map_get (correspondence off frag) b) = tmpl_edge frag a b) /\
    (forall x y, In x (node_keys mol) -> edge_attrs mol2 x y = edge_attrs mol x y).
Proof.
  intros Hf Hl Hw H. destruct (disc_step_real _ _ _ _ _ _ _ _ _ Hf Hl H) as [mol1 [corr [Hm ->]]].
  destruct (merge_graphs_corr _ _ _ _ Hm) as [off [fo [Ho Ec]]]. subst corr. exists off, fo. split; [exact Ho|].
  destruct (merge_edges_copy _ _ _ _ Hm Hw) as [A B]. split.
  - intros a b Ha Hb. rewrite stamp_edges. now apply A.
  - intros x y Hx. rewrite stamp_edges. now apply B.
Qed.

(** an instantiation step leaves the nodes that exist alone: keys, attributes, edges *)
Lemma disc_step_keeps fd mol fgs mn mol2 fgs2 : tmpl_dict fd -> disc_step fd (mol, fgs) mn = Ok (mol2, fgs2) ->
  forall x, In x (node_keys mol) -> In x (node_keys mol2) /\ node_attrs mol2 x = node_attrs mol x /\ forall y, edge_attrs mol2 x y = edge_attrs mol x y.
Proof.
  intros Hd H x Hx. unfold disc_step in H.
  destruct (aget (S "fragname") (na mn)) as [fv|] eqn:Hf; cbn [of_option bind] in H; [|discriminate H].
  destruct (lookup_fragment fd fv) as [[name frag]|] eqn:Hl.
  - destruct (lookup_fragment_get _ _ _ _ Hl) as [_ Hg]. pose proof (Hd _ _ Hg) as Hw.
    assert (disc_step fd (mol, fgs) mn = Ok (mol2, fgs2)) as H' by (unfold disc_step; rewrite Hf; cbn [of_option bind]; rewrite Hl; exact H).
    destruct (disc_step_real _ _ _ _ _ _ _ _ _ Hf Hl H') as [mol1 [corr [Hm ->]]].
    destruct (merge_graphs_keys _ _ _ _ Hm (wf_tmpl_template _ Hw)) as [K A].
    destruct (merge_graphs_corr _ _ _ _ Hm) as [off [fo [Ho Ec]]]. subst corr.
    destruct (merge_edges_copy _ _ _ _ Hm Hw) as [_ B]. split; [|split].
    + rewrite stamp_keys, K. apply in_or_app. now left.
    + rewrite stamp_other; [now apply A|]. intros X. apply in_map_iff in X as [n [En Hn]].
      pose proof (corr_fresh mol frag off fo Ho (wf_nodup _ (wt_wf _ Hw)) n Hn) as Fr. rewrite En in Fr. apply gfind_has in Hx. congruence.
    + intros y. rewrite stamp_edges. now apply B.
  - destruct (virtual_ok mn); cbn [bind] in H; [|discriminate H]. inversion H; subst. auto.
Qed.
Lemma disconnected_keeps fd : tmpl_dict fd -> forall l mol fgs mol2 fgs2, GraphOps.fold_res (disc_step fd) l (mol, fgs) = Ok (mol2, fgs2) ->
  forall x, In x (node_keys mol) -> In x (node_keys mol2) /\ node_attrs mol2 x = node_attrs mol x /\ forall y, edge_attrs mol2 x y = edge_attrs mol x y.
Proof.
  intros Hd. induction l as [|mn r IH]; intros mol fgs mol2 fgs2 H x Hx; cbn [GraphOps.fold_res] in H.
  - inversion H; subst. auto.
  - destruct (disc_step fd (mol, fgs) mn) as [[m1 f1]|] eqn:E; cbn [bind] in H; [|discriminate H].
    destruct (disc_step_keeps _ _ _ _ _ _ Hd E x Hx) as (K1 & A1 & E1). destruct (IH _ _ _ _ H x K1) as (K2 & A2 & E2).
    split; [exact K2|]. split; [now rewrite A2|]. intros y. now rewrite E2.
Qed.

(** ---------------------------------------------------------------- the whole instantiation loop *)
(** for every coarse node with a fragment (at any position, arbitrary coarse graph, arbitrary dictionary of well-formed
    templates) there is a map [cf] from template atoms to fine nodes of the disconnected molecule such that the copy of atom t
    records exactly [coarse key] and [(fragname, t)] and otherwise carries the template's attributes, and between the copies of a and b there is exactly the edge the
    template has between a and b, with the template's attribute dict *)
Theorem disconnected_edges_copy fd meta mol fgs : tmpl_dict fd -> resolve_disconnected fd meta = Ok (mol, fgs) ->
  forall pre mn post fv name frag, meta = pre ++ mn :: post ->
  aget (S "fragname") (na mn) = Some fv -> lookup_fragment fd fv = Some (name, frag) ->
  exists cf : Z -> Z,
    (forall a b, In a (node_keys frag) -> In b (node_keys frag) -> cf a = cf b -> a = b) /\
    (forall n, In n frag -> node_get mol (cf (nk n)) (S "fragid") = Some (VList [VInt (nk mn)]) /\
                            node_get mol (cf (nk n)) (S "mapping") = Some (mapping_val name (nk n)) /\
                            forall key, key <> S "fragid" -> key <> S "mapping" -> key <> S "ez_isomer_atoms" ->
                                        node_get mol (cf (nk n)) key = aget key (na n)) /\
    (forall a b, In a (node_keys frag) -> In b (node_keys frag) -> edge_attrs mol (cf a) (cf b) = tmpl_edge frag a b).
Proof.
  intros Hd H pre mn post fv name frag -> Hf Hl. unfold resolve_disconnected in H. rewrite VirtualProofs.fold_res_app in H.
  destruct (GraphOps.fold_res (disc_step fd) pre (gempty, [])) as [[ma fa]|]; cbn [bind] in H; [|discriminate H].
  cbn [GraphOps.fold_res] in H. destruct (disc_step fd (ma, fa) mn) as [[mb fb]|] eqn:E; cbn [bind] in H; [|discriminate H].
  destruct (lookup_fragment_get _ _ _ _ Hl) as [_ Hg]. pose proof (Hd _ _ Hg) as Hw. pose proof (wf_nodup _ (wt_wf _ Hw)) as Hn.
  destruct (disc_step_copy _ _ _ _ _ _ _ _ _ Hf Hl (wf_tmpl_template _ Hw) E) as [off [fo [Ho Hc]]].
  destruct (disc_step_edges _ _ _ _ _ _ _ _ _ Hf Hl Hw E) as [off' [fo' [Ho' [He _]]]]. rewrite Ho in Ho'. inversion Ho'; subst off' fo'.
  set (cf := map_get (correspondence off frag)) in *. exists cf.
  assert (forall k, In k (node_keys frag) -> In (cf k) (node_keys mb)) as Hin.
  { intros k Hk. unfold node_keys in Hk. apply in_map_iff in Hk as [n [<- Hn']]. destruct (Hc n Hn') as [a' [_ A]]. apply gfind_has. eapply node_attrs_has; exact A. }
  split; [|split].
  - intros a b Ha Hb Eq. apply (NameProofs.nodup_map_eq cf (node_keys frag)); auto.
    unfold node_keys. rewrite map_map. unfold cf. rewrite corr_values by exact Hn. apply correspondence_injective.
  - intros n Hn'. destruct (Hc n Hn') as [a' [Mn A]].
    assert (In (nk n) (node_keys frag)) as Hk by (unfold node_keys; now apply in_map).
    destruct (disconnected_keeps fd Hd _ _ _ _ _ H (cf (nk n)) (Hin _ Hk)) as (_ & A2 & _).
    unfold node_get. unfold node_attrs in A, A2. destruct (gfind (cf (nk n)) mol) as [r|]; destruct (gfind (cf (nk n)) mb) as [r'|]; try discriminate.
    inversion A2 as [X]. inversion A as [Y]. rewrite X, Y. split; [apply stamped_fragid|]. split; [apply stamped_mapping|].
    intros key K1 K2 K3. rewrite (stamped_other _ _ _ _ key K1 K2). exact (frag_copy_attrs _ _ _ _ key Mn K1 K3).
  - intros a b Ha Hb. destruct (disconnected_keeps fd Hd _ _ _ _ _ H (cf a) (Hin _ Ha)) as (_ & _ & E2). rewrite E2. now apply He.
Qed.

(** ---------------------------------------------------------------- the bonding stage only touches the bonded pairs *)
Lemma edge_attrs_snoc_empty g k x y : edge_attrs (g ++ [{| nk := k; na := []; nadj := [] |}]) x y = edge_attrs g x y.
Proof.
  unfold edge_attrs. rewrite gfind_app_fresh. destruct (gfind x g); [reflexivity|]. cbn [nk]. destruct (Z.eqb k x); reflexivity.
Qed.
Lemma edge_attrs_add_edge_other g u v d x y : upair x y u v = false -> edge_attrs (add_edge g u v d) x y = edge_attrs g x y.
Proof.
  intros U. unfold add_edge.
  set (g1 := if has_node g u then g else g ++ [{| nk := u; na := []; nadj := [] |}]).
  set (g2 := if has_node g1 v then g1 else g1 ++ [{| nk := v; na := []; nadj := [] |}]).
  assert (edge_attrs g2 x y = edge_attrs g x y) as <-.
  { unfold g2, g1. destruct (has_node g u); destruct (has_node _ v); rewrite ?edge_attrs_snoc_empty; reflexivity. }
  generalize (match edge_attrs g2 u v with Ok d0 => d0 | Err _ => [] end). intros old. generalize g2. clear g1 g2. intros g2.
  unfold edge_attrs. rewrite !gfind_gupdate by reflexivity.
  assert (~ (x = u /\ y = v)) as N1 by (intros C; assert (upair x y u v = true) as T by (apply upair_true; tauto); congruence).
  assert (~ (x = v /\ y = u)) as N2 by (intros C; assert (upair x y u v = true) as T by (apply upair_true; tauto); congruence).
  destruct (Z.eqb_spec x v) as [Exv|Nxv]; destruct (Z.eqb_spec x u) as [Exu|Nxu]; destruct (gfind x g2) as [n|]; cbn [option_map nadj]; try reflexivity;
    rewrite ?adj_get_adj_set; repeat match goal with |- context [Z.eqb y ?w] => destruct (Z.eqb_spec y w); [exfalso; tauto|] end; reflexivity.
Qed.
Lemma apply_bond_other aa mol b mol' x y : apply_bond aa mol b = Ok mol' -> upair x y (b_u b) (b_v b) = false ->
  edge_attrs mol' x y = edge_attrs mol x y.
Proof.
  unfold apply_bond. intros H U. rewrite <- (edge_attrs_add_edge_other mol (b_u b) (b_v b) (bond_attrs b) x y U).
  destruct aa; [|inversion H; reflexivity]. revert H. generalize (add_edge mol (b_u b) (b_v b) (bond_attrs b)). generalize [b_u b; b_v b].
  induction l as [|n r IH]; intros g H; cbn [GraphOps.fold_res] in H; [inversion H; reflexivity|].
  match type of H with bind ?s _ = _ => destruct s as [g1|] eqn:E; cbn [bind] in H; [|discriminate H] end.
  rewrite (IH _ H). clear -E.
  destruct (node_get g n (S "element")) as [el|]; cbn [of_option bind] in E; [|discriminate E].
  destruct (pyval_eqb el (VStr (S "H"))); [inversion E; reflexivity|].
  destruct (node_get g n (S "hcount")) as [hc|]; cbn [of_option bind] in E; [|discriminate E].
  destruct (dec_hcount _ hc); cbn [bind] in E; [|discriminate E]. inversion E. apply edge_attrs_set_node_attr.
Qed.
(** every edge other than the ones between bonded atom pairs comes out of edges_from_bonding_descrpt as it went in *)
Theorem bonding_keeps_edges legacy aa meta mol fgs mol' fgs' : bonding_step legacy aa meta mol fgs = Ok (mol', fgs') ->
  exists s1 bonds, bonds_of legacy meta mol fgs = Ok (s1, bonds) /\
    forall x y, (forall b, In b bonds -> upair x y (b_u b) (b_v b) = false) -> edge_attrs mol' x y = edge_attrs mol x y.
Proof.
  unfold bonding_step. destruct (bonds_of legacy meta mol fgs) as [[s1 bonds]|]; cbn [bind]; [|discriminate].
  destruct (GraphOps.fold_res (apply_bond aa) bonds mol) as [m2|] eqn:E; cbn [bind]; [|discriminate]. intros H. inversion H; subst. clear H.
  exists s1, bonds. split; [reflexivity|]. revert mol E. induction bonds as [|b r IH]; intros mol E x y Hb; cbn [GraphOps.fold_res] in E; [inversion E; reflexivity|].
  destruct (apply_bond aa mol b) as [m1|] eqn:Eb; cbn [bind] in E; [|discriminate E].
  rewrite (IH _ E x y) by (intros b' Hb'; apply Hb; now right). apply (apply_bond_other _ _ _ _ _ _ Eb). apply Hb. now left.
Qed.
