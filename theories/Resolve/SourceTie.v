(** SourceTie: the functions GENERATED on every run from the text of /repo/cgsmiles/graph_utils.py
    (theories/Gen/GraphUtilsGen.v, by tools/gen_graphutils.py) are equal to the hand-written models of
    theories/Resolve/GraphOps.v that every theorem of the resolver is about.  A semantic change of the
    Python functions changes the generated terms and breaks these proofs. *)
From Coq Require Import String.
From Coq Require Import List Ascii ZArith Bool Lia Sorting.Permutation.
From CGV Require Import Base.PyBase Base.PyVal Base.NxGraph Resolve.Bonding Resolve.GraphOps Resolve.SourcePrims
     Resolve.SortProofs Gen.GraphUtilsGen.
From CGV Require Resolve.NameStep.
Import ListNotations.
Open Scope Z_scope.

(** ------------------------------------------------------------------ dict facts *)
Lemma zd_get_zmap m k : zd_get m k = zmap_get m k.
Proof. induction m as [|[a b] r IH]; cbn; [reflexivity|]. now rewrite IH. Qed.

Lemma zd_set_fresh {V} (d : list (Z * V)) k v : ~ In k (map fst d) -> zd_set d k v = d ++ [(k, v)].
Proof.
  induction d as [|[a b] r IH]; cbn; intros H; [reflexivity|].
  destruct (Z.eqb_spec a k) as [->|N]; [exfalso; apply H; now left|]. rewrite IH; [reflexivity|]. intros X. apply H. now right.
Qed.
Lemma zd_fold_fresh {V} (l : list (Z * V)) : forall acc, NoDup (map fst acc ++ map fst l) ->
  fold_left (fun d kv => zd_set d (fst kv) (snd kv)) l acc = acc ++ l.
Proof.
  induction l as [|[k v] r IH]; cbn [fold_left map fst snd]; intros acc H; [now rewrite app_nil_r|].
  rewrite zd_set_fresh.
  - rewrite IH; [now rewrite <- app_assoc|]. rewrite map_app, <- app_assoc. exact H.
  - apply NoDup_remove_2 in H. intros X. apply H. apply in_or_app. now left.
Qed.
Lemma zd_of_pairs_nodup {V} (l : list (Z * V)) : NoDup (map fst l) -> zd_of_pairs l = l.
Proof. intros H. unfold zd_of_pairs. now rewrite zd_fold_fresh. Qed.

Lemma attr_keys_nodup g a : NoDup (node_keys g) -> NoDup (map fst (get_node_attributes g a)).
Proof.
  unfold get_node_attributes, node_keys. induction g as [|n r IH]; cbn; intros H; [constructor|].
  inversion H as [|? ? Hn Hr]; subst. rewrite map_app. destruct (aget a (na n)); cbn; [|now apply IH].
  constructor; [|now apply IH]. intros X. apply Hn. clear - X.
  induction r as [|x r IH]; cbn in *; [contradiction|]. rewrite map_app in X. apply in_app_or in X as [X|X]; [|right; now apply IH].
  destruct (aget a (na x)); cbn in X; [|contradiction]. destruct X as [X|[]]. now left.
Qed.

(** ------------------------------------------------------------------ sorted(...) *)
Lemma insert_by_fst {A} (kx : sort_key * A) l : map fst (insert_by kx l) = insert_key (fst kx) (map fst l).
Proof. induction l as [|y r IH]; cbn; [reflexivity|]. destruct (key_ltb (fst kx) (fst y)); cbn; [reflexivity|]. now rewrite IH. Qed.
Lemma isort_by_fst {A} (l : list (sort_key * A)) : map fst (fold_right insert_by [] l) = isort (map fst l).
Proof. unfold isort. induction l as [|x r IH]; cbn; [reflexivity|]. now rewrite insert_by_fst, IH. Qed.
Lemma insert_by_forall {A} (P : sort_key * A -> Prop) kx l : P kx -> Forall P l -> Forall P (insert_by kx l).
Proof.
  intros Hk H. induction H as [|y r Hy Hr IH]; cbn; [now repeat constructor|].
  destruct (key_ltb _ _); repeat constructor; assumption.
Qed.
Lemma isort_by_forall {A} (P : sort_key * A -> Prop) l : Forall P l -> Forall P (fold_right insert_by [] l).
Proof. induction 1; cbn; [constructor|]. now apply insert_by_forall. Qed.

(** the items keyed for sorting: same conversions, same first error, as GraphOps.sort_items *)
Definition tagged (items : list (Z * pyval)) :=
  map_res (fun x : Z * pyval => v <- ints_of (snd x) ;; Ok ((v, fst x), x)) items.
Lemma tagged_spec items :
  match map_res (fun kv : Z * pyval => l <- ints_of (snd kv) ;; Ok (l, fst kv)) items with
  | Ok ks => exists ks', tagged items = Ok ks' /\ map fst ks' = ks /\ Forall (fun p => snd (fst p) = fst (snd p)) ks'
  | Err e => tagged items = Err e
  end.
Proof.
  unfold tagged. induction items as [|[k v] r IH]; cbn [map_res fst snd].
  - exists []. repeat split; constructor.
  - destruct (ints_of v) as [l|e]; cbn [bind]; [|reflexivity].
    destruct (map_res _ r) as [ks|e]; cbn [bind].
    + destruct IH as [ks' [E [M F]]]. rewrite E. cbn [bind]. exists (((l, k), (k, v)) :: ks'). cbn. rewrite M. repeat split. now constructor.
    + rewrite IH. reflexivity.
Qed.

Lemma enumerate_keys {A} (l : list (Z * A)) : forall s,
  map (fun it_ : Z * (Z * A) => let '(x6, x7) := it_ in (fst x7, x6)) (combine (map (fun i => 0 + Z.of_nat i) (seq s (length l))) l)
  = combine (map fst l) (map Z.of_nat (seq s (length l))).
Proof. induction l as [|x r IH]; intros s; cbn; [reflexivity|]. now rewrite IH. Qed.

(** ------------------------------------------------------------------ the reference loop *)
Definition not_bool (v : pyval) : Prop := match v with VBool _ => False | _ => True end.
Lemma strict_get_prim m v : not_bool v -> strict_get m v = (z <- zd_getitem_pv m v ;; Ok (VInt z)).
Proof. intros NB. destruct v; cbn in NB |- *; try contradiction; cbn; try reflexivity. rewrite zd_get_zmap. destruct (zmap_get m z); reflexivity. Qed.
Lemma strict_list_prim m l : Forall not_bool l ->
  GraphOps.map_res (strict_get m) l = (l' <- GraphOps.map_res (fun it_ => t7_ <- zd_getitem_pv m it_ ;; Ok t7_) l ;; Ok (map VInt l')).
Proof.
  induction 1 as [|x r Hx Hr IH]; cbn [GraphOps.map_res]; [reflexivity|]. rewrite strict_get_prim, IH by exact Hx.
  destruct (zd_getitem_pv m x); cbn [bind]; [|reflexivity].
  match goal with |- context [GraphOps.map_res ?f r] => destruct (GraphOps.map_res f r) end; reflexivity.
Qed.

(** the values of a node-reference attribute on which the hand-written model agrees with the source: not a dict
    (Python iterates a dict's keys; the model answers TypeError) and no bool used as a node key (Python finds
    mapping[True] under the key 1; the model answers KeyError) *)
Definition ref_ok (v : pyval) : Prop :=
  match v with
  | VDict _ | VBool _ => False
  | VList l | VTup l => Forall not_bool l
  | _ => True
  end.
(** one iteration of the inner loop computes [remap_val] *)
Definition ref_body (m : list (Z * Z)) :=
  (fun (st_ : bool * list (Z * pyval)) (it_ : Z * pyval) => let '(x11, x13) := st_ in let '(x14, x15) := it_ in
  x11 <- (if (py_is_iterable x15) then (let x11 := (negb (py_isinstance_str x15)) in
  Ok (x11)) else (let x11 := false in
  Ok (x11))) ;;
  x17 <- (if x11 then (t6_ <- py_iter x15 ;; t8_ <- GraphOps.map_res (fun it_ => let x16 := it_ in t7_ <- zd_getitem_pv m x16 ;; Ok t7_) t6_ ;; let x17 := t8_ in
  Ok ((VList (map (fun e_ => (VInt e_)) x17)))) else (t9_ <- zd_getitem_pv m x15 ;; let x17 := t9_ in
  Ok ((VInt x17)))) ;;
  let x13 := zd_set x13 x14 x17 in
  Ok (x11, x13)).
Lemma ref_body_spec m b acc k v : ref_ok v ->
  ref_body m (b, acc) (k, v) = (v' <- remap_val m v ;; Ok (py_is_iterable v && negb (py_isinstance_str v), zd_set acc k v')).
Proof.
  intros H. unfold ref_body. destruct v; cbn in H |- *; try contradiction;
    try (now destruct (zd_get m z)); try reflexivity.
  - rewrite zd_get_zmap. now destruct (zmap_get m z).
  - rewrite strict_list_prim by exact H. now destruct (GraphOps.map_res _ l).
  - rewrite strict_list_prim by exact H. now destruct (GraphOps.map_res _ l).
Qed.
Lemma ref_loop m items : Forall (fun kv => ref_ok (snd kv)) items -> forall b acc, NoDup (map fst acc ++ map fst items) ->
  match GraphOps.map_res (fun kv : Z * pyval => v' <- remap_val m (snd kv) ;; Ok (fst kv, v')) items with
  | Ok nd => exists b', fold_res (ref_body m) items (b, acc) = Ok (b', acc ++ nd)
  | Err e => fold_res (ref_body m) items (b, acc) = Err e
  end.
Proof.
  induction 1 as [|[k v] r Hv Hr IH]; intros b acc ND; cbn [GraphOps.map_res fold_res fst snd].
  - exists b. now rewrite app_nil_r.
  - rewrite ref_body_spec by exact Hv. cbn [fst snd] in *. destruct (remap_val m v) as [v'|e]; cbn [bind]; [|reflexivity].
    assert (F : zd_set acc k v' = acc ++ [(k, v')]).
    { apply zd_set_fresh. cbn in ND. apply NoDup_remove_2 in ND. intros X. apply ND. apply in_or_app. now left. }
    rewrite F. specialize (IH (py_is_iterable v && negb (py_isinstance_str v)) (acc ++ [(k, v')])).
    rewrite map_app, <- app_assoc in IH. specialize (IH ND).
    destruct (GraphOps.map_res _ r) as [nd|e]; cbn [bind].
    + destruct IH as [b' E]. exists b'. rewrite E. now rewrite <- app_assoc.
    + exact IH.
Qed.

(** every attribute dict of relabel_copy g m is the attribute dict of a node of g (or empty) *)
Definition all_na (P : attrs -> Prop) (g : graph) : Prop := Forall (fun n => P (na n)) g.
Lemma all_na_gupdate (P : attrs -> Prop) k f g : all_na P g -> (forall n, P (na n) -> P (na (f n))) -> all_na P (gupdate k f g).
Proof.
  intros H Hf. induction H as [|n r Hn Hr IH]; cbn; [constructor|].
  destruct (Z.eqb (nk n) k); constructor; auto.
Qed.
Lemma all_na_add_node_empty (P : attrs -> Prop) k g : P [] -> all_na P g -> all_na P (add_node g k []).
Proof.
  intros P0 H. unfold add_node. destruct (has_node g k).
  - apply all_na_gupdate; [exact H|]. intros n Hn. exact Hn.
  - apply Forall_app. split; [exact H|]. repeat constructor. exact P0.
Qed.
Lemma all_na_add_edge (P : attrs -> Prop) u v d g : P [] -> all_na P g -> all_na P (add_edge g u v d).
Proof.
  intros P0 H. unfold add_edge.
  set (g1 := if has_node g u then g else _).
  assert (H1 : all_na P g1) by (subst g1; destruct (has_node g u); [exact H|apply Forall_app; split; [exact H|repeat constructor; exact P0]]).
  set (g2 := if has_node g1 v then g1 else _).
  assert (H2 : all_na P g2) by (subst g2; destruct (has_node g1 v); [exact H1|apply Forall_app; split; [exact H1|repeat constructor; exact P0]]).
  apply all_na_gupdate; [apply all_na_gupdate; [exact H2|]|]; intros n Hn; exact Hn.
Qed.
Lemma all_na_fold {X} (P : attrs -> Prop) (f : graph -> X -> graph) l : (forall g x, In x l -> all_na P g -> all_na P (f g x)) ->
  forall g, all_na P g -> all_na P (fold_left f l g).
Proof.
  induction l as [|x r IH]; cbn; intros Hf g H; [exact H|]. apply IH; [intros; apply Hf; [now right|assumption]|].
  apply Hf; [now left|exact H].
Qed.
Lemma all_na_relabel (P : attrs -> Prop) g m : P [] -> all_na P g -> all_na P (relabel_copy g m).
Proof.
  intros P0 H. unfold relabel_copy.
  apply all_na_fold; [intros; now apply all_na_add_edge|].
  apply all_na_fold.
  - intros h n Hn Hh. apply all_na_gupdate; [exact Hh|]. intros x _. cbn. unfold all_na in H. rewrite Forall_forall in H. now apply H.
  - apply all_na_fold; [intros; now apply all_na_add_node_empty|constructor].
Qed.
Lemma all_na_attr (Q : pyval -> Prop) a g : all_na (fun d => match aget a d with Some v => Q v | None => True end) g ->
  Forall (fun kv => Q (snd kv)) (get_node_attributes g a).
Proof.
  unfold get_node_attributes. induction 1 as [|n r Hn Hr IH]; cbn; [constructor|].
  apply Forall_app. split; [|exact IH]. destruct (aget a (na n)); repeat constructor. exact Hn.
Qed.

(** ------------------------------------------------------------------ sort_nodes_by_attr *)
(** the values the node-reference attribute may hold ([ref_ok]) *)
Definition refs_modelled (g : graph) : Prop :=
  all_na (fun d => match aget (S "ez_isomer_atoms") d with Some v => ref_ok v | None => True end) g.

Theorem sort_is_source : forall g, NoDup (node_keys g) -> refs_modelled g ->
  gen_sort_nodes_by_attr g sort_attr_default relative_attr_default = GraphOps.sort_nodes_by_attr g.
Proof.
  intros g ND RM. unfold gen_sort_nodes_by_attr, GraphOps.sort_nodes_by_attr, sort_mapping, sort_items,
    sort_attr_default, relative_attr_default, nx_get_node_attributes, dict_items, py_sorted_by.
  pose proof (tagged_spec (get_node_attributes g (S "fragid"))) as T. unfold tagged in T. cbn [fst snd] in T |- *.
  destruct (GraphOps.map_res (fun kv : Z * pyval => l <- ints_of (snd kv) ;; Ok (l, fst kv)) _) as [ks|e] eqn:EK; cbn [bind].
  2:{ rewrite T. reflexivity. }
  destruct T as [ks' [E [M F]]]. rewrite E. cbn [bind].
  assert (MAP : zd_of_pairs (map (fun it_ : Z * (Z * pyval) => let '(x6, x7) := it_ in (fst x7, x6))
                  (py_enumerate 0 (map snd (fold_right insert_by [] ks')))) = mapping_of (isort ks)).
  { unfold py_enumerate, enumerate_from. rewrite enumerate_keys. rewrite map_length.
    assert (K : map fst (map snd (fold_right insert_by [] ks')) = map snd (isort ks)).
    { rewrite <- M, <- isort_by_fst. rewrite !map_map. apply map_ext_in. intros p Hp.
      pose proof (isort_by_forall _ _ F) as G. rewrite Forall_forall in G. symmetry. exact (G p Hp). }
    rewrite K. unfold mapping_of.
    assert (L : length (fold_right insert_by [] ks') = length (isort ks)).
    { rewrite <- M, <- isort_by_fst. now rewrite map_length. }
    rewrite L. apply zd_of_pairs_nodup. rewrite map_fst_combine by now rewrite !map_length, seq_length.
    apply (Permutation_NoDup (l := map snd ks)); [apply Permutation_map, Permutation_sym, isort_perm|].
    rewrite (sort_items_keys g ks EK). now apply attr_keys_nodup. }
  rewrite MAP. set (m := mapping_of (isort ks)). unfold nx_relabel_nodes_copy. set (h := relabel_copy g m).
  cbn [fold_res].
  assert (RH : Forall (fun kv : Z * pyval => ref_ok (snd kv)) (get_node_attributes h (S "ez_isomer_atoms"))).
  { apply all_na_attr. apply all_na_relabel; [exact I|exact RM]. }
  pose proof (ref_loop m _ RH true []) as R. cbn [map app] in R.
  specialize (R (attr_keys_nodup h _ (NameStep.relabel_copy_nodup g m))).
  fold (ref_body m).
  destruct (GraphOps.map_res (fun kv : Z * pyval => v' <- remap_val m (snd kv) ;; Ok (fst kv, v')) _) as [nd|e]; cbn [bind].
  - destruct R as [b' R]. rewrite R. cbn [bind app]. unfold nx_set_node_attributes, dict_truthy.
    destruct nd; reflexivity.
  - rewrite R. reflexivity.
Qed.
