(** SourceTie: the functions GENERATED on every run from the text of /repo/cgsmiles/graph_utils.py
    (theories/Gen/GraphUtilsGen.v, by tools/gen_graphutils.py) are equal to the hand-written models of
    theories/Resolve/GraphOps.v that every theorem of the resolver is about.  A semantic change of the
    Python functions changes the generated terms and breaks these proofs. *)
From Coq Require Import String.
From Coq Require Import List Ascii ZArith Bool Lia Sorting.Permutation.
From CGV Require Import Base.PyBase Base.PyVal Base.NxGraph Resolve.Bonding Resolve.GraphOps Resolve.SourcePrims
     Resolve.SortProofs Gen.GraphUtilsGen.
Import ListNotations.
Open Scope Z_scope.

(** ------------------------------------------------------------------ graph facts (kept local: this file depends on
    Base, GraphOps, SortProofs and the generated file only) *)
Lemma st_gfind_has g k : has_node g k = true <-> In k (node_keys g).
Proof.
  unfold has_node. induction g as [|n r IH]; cbn; [split; [discriminate|tauto]|].
  destruct (Z.eqb_spec (nk n) k) as [E|N]; [split; auto|]. rewrite IH. split; [auto|intros [H|H]; [contradiction|exact H]].
Qed.
Lemma st_gfind_nodup g n : NoDup (node_keys g) -> In n g -> gfind (nk n) g = Some n.
Proof.
  induction g as [|m r IH]; cbn; [contradiction|]. intros ND [->|I].
  - now rewrite Z.eqb_refl.
  - inversion ND as [|? ? NI ND']; subst. destruct (Z.eqb_spec (nk m) (nk n)) as [E|_]; [|auto].
    exfalso. apply NI. rewrite E. unfold node_keys. now apply in_map.
Qed.
Lemma st_keys_gupdate k f g : (forall n, nk (f n) = nk n) -> node_keys (gupdate k f g) = node_keys g.
Proof.
  intros Hf. unfold node_keys. induction g as [|n r IH]; cbn; [reflexivity|].
  destruct (Z.eqb (nk n) k); cbn; [now rewrite Hf|now rewrite IH].
Qed.
Lemma st_nodup_snoc (l : list Z) x : NoDup l -> ~ In x l -> NoDup (l ++ [x]).
Proof.
  intros Hl Hx. induction Hl as [|y r Hy Hr IH]; cbn; [repeat constructor; intros []|].
  constructor.
  - intros X. apply in_app_or in X as [X|[X|[]]]; [contradiction|]. apply Hx. now left.
  - apply IH. intros X. apply Hx. now right.
Qed.
Lemma st_ensure_nodup g k : NoDup (node_keys g) ->
  NoDup (node_keys (if has_node g k then g else g ++ [{| nk := k; na := []; nadj := [] |}])).
Proof.
  intros H. destruct (has_node g k) eqn:E; [exact H|]. unfold node_keys. rewrite map_app. cbn [map nk].
  apply st_nodup_snoc; [exact H|]. intros X. apply st_gfind_has in X. congruence.
Qed.
Lemma st_add_node_nodup g k a : NoDup (node_keys g) -> NoDup (node_keys (add_node g k a)).
Proof.
  intros H. unfold add_node. destruct (has_node g k) eqn:E; [now rewrite st_keys_gupdate by reflexivity|].
  unfold node_keys. rewrite map_app. cbn [map nk]. apply st_nodup_snoc; [exact H|]. intros X. apply st_gfind_has in X. congruence.
Qed.
Lemma st_add_edge_nodup g u v d : NoDup (node_keys g) -> NoDup (node_keys (add_edge g u v d)).
Proof. intros H. unfold add_edge. rewrite !st_keys_gupdate by reflexivity. now apply st_ensure_nodup, st_ensure_nodup. Qed.
Lemma st_fold_nodup {A} (f : graph -> A -> graph) : (forall g x, NoDup (node_keys g) -> NoDup (node_keys (f g x))) ->
  forall l g, NoDup (node_keys g) -> NoDup (node_keys (fold_left f l g)).
Proof. intros Hf. induction l as [|x r IH]; cbn [fold_left]; intros g H; [exact H|]. apply IH, Hf, H. Qed.
Lemma st_relabel_copy_nodup g m : NoDup (node_keys (relabel_copy g m)).
Proof.
  unfold relabel_copy. apply st_fold_nodup; [intros; now apply st_add_edge_nodup|].
  apply st_fold_nodup; [intros h x Hh; now rewrite st_keys_gupdate by reflexivity|].
  apply st_fold_nodup; [intros; now apply st_add_node_nodup|constructor].
Qed.

(** ------------------------------------------------------------------ dict facts *)
Lemma zd_get_zmap m k : zd_get m k = zmap_get m k.
Proof. induction m as [|[a b] r IH]; cbn; [reflexivity|]. now rewrite IH. Qed.

Lemma zd_set_fresh {V} (d : list (Z * V)) k v : ~ In k (map fst d) -> zd_set d k v = d ++ [(k, v)].
Proof.
  induction d as [|[a b] r IH]; cbn; intros H; [reflexivity|].
  destruct (Z.eqb_spec a k) as [->|N]; [exfalso; apply H; now left|]. rewrite IH; [reflexivity|]. intros X. apply H. now right.
Qed.
Lemma zd_fold_fresh {V} (l : list (Z * V)) : forall acc, NoDup (map fst acc ++ map fst l) ->
  fold_left (fun d kv => zd_set d (fst kv) (snd kv)) l acc = acc ++ l.
Proof.
  induction l as [|[k v] r IH]; cbn [fold_left map fst snd]; intros acc H; [now rewrite app_nil_r|].
  rewrite zd_set_fresh.
  - rewrite IH; [now rewrite <- app_assoc|]. rewrite map_app, <- app_assoc. exact H.
  - apply NoDup_remove_2 in H. intros X. apply H. apply in_or_app. now left.
Qed.
Lemma zd_of_pairs_nodup {V} (l : list (Z * V)) : NoDup (map fst l) -> zd_of_pairs l = l.
Proof. intros H. unfold zd_of_pairs. now rewrite zd_fold_fresh. Qed.

Lemma attr_keys_nodup g a : NoDup (node_keys g) -> NoDup (map fst (get_node_attributes g a)).
Proof.
  unfold get_node_attributes, node_keys. induction g as [|n r IH]; cbn; intros H; [constructor|].
  inversion H as [|? ? Hn Hr]; subst. rewrite map_app. destruct (aget a (na n)); cbn; [|now apply IH].
  constructor; [|now apply IH]. intros X. apply Hn. clear - X.
  induction r as [|x r IH]; cbn in *; [contradiction|]. rewrite map_app in X. apply in_app_or in X as [X|X]; [|right; now apply IH].
  destruct (aget a (na x)); cbn in X; [|contradiction]. destruct X as [X|[]]. now left.
Qed.

(** ------------------------------------------------------------------ sorted(...) *)
Lemma insert_by_fst {A} (kx : sort_key * A) l : map fst (insert_by kx l) = insert_key (fst kx) (map fst l).
Proof. induction l as [|y r IH]; cbn; [reflexivity|]. destruct (key_ltb (fst kx) (fst y)); cbn; [reflexivity|]. now rewrite IH. Qed.
Lemma isort_by_fst {A} (l : list (sort_key * A)) : map fst (fold_right insert_by [] l) = isort (map fst l).
Proof. unfold isort. induction l as [|x r IH]; cbn; [reflexivity|]. now rewrite insert_by_fst, IH. Qed.
Lemma insert_by_forall {A} (P : sort_key * A -> Prop) kx l : P kx -> Forall P l -> Forall P (insert_by kx l).
Proof.
  intros Hk H. induction H as [|y r Hy Hr IH]; cbn; [now repeat constructor|].
  destruct (key_ltb _ _); repeat constructor; assumption.
Qed.
Lemma isort_by_forall {A} (P : sort_key * A -> Prop) l : Forall P l -> Forall P (fold_right insert_by [] l).
Proof. induction 1; cbn; [constructor|]. now apply insert_by_forall. Qed.

(** the items keyed for sorting: same conversions, same first error, as GraphOps.sort_items *)
Definition tagged (items : list (Z * pyval)) :=
  map_res (fun x : Z * pyval => v <- ints_of (snd x) ;; Ok ((v, fst x), x)) items.
Lemma tagged_spec items :
  match map_res (fun kv : Z * pyval => l <- ints_of (snd kv) ;; Ok (l, fst kv)) items with
  | Ok ks => exists ks', tagged items = Ok ks' /\ map fst ks' = ks /\ Forall (fun p => snd (fst p) = fst (snd p)) ks'
  | Err e => tagged items = Err e
  end.
Proof.
  unfold tagged. induction items as [|[k v] r IH]; cbn [map_res fst snd].
  - exists []. repeat split; constructor.
  - destruct (ints_of v) as [l|e]; cbn [bind]; [|reflexivity].
    destruct (map_res _ r) as [ks|e]; cbn [bind].
    + destruct IH as [ks' [E [M F]]]. rewrite E. cbn [bind]. exists (((l, k), (k, v)) :: ks'). cbn. rewrite M. repeat split. now constructor.
    + rewrite IH. reflexivity.
Qed.

Lemma enumerate_keys {A} (l : list (Z * A)) : forall s,
  map (fun it_ : Z * (Z * A) => let '(x6, x7) := it_ in (fst x7, x6)) (combine (map (fun i => 0 + Z.of_nat i) (seq s (length l))) l)
  = combine (map fst l) (map Z.of_nat (seq s (length l))).
Proof. induction l as [|x r IH]; intros s; cbn; [reflexivity|]. now rewrite IH. Qed.

(** ------------------------------------------------------------------ the reference loop *)
Definition not_bool (v : pyval) : Prop := match v with VBool _ => False | _ => True end.
Lemma strict_get_prim m v : not_bool v -> strict_get m v = (z <- zd_getitem_pv m v ;; Ok (VInt z)).
Proof. intros NB. destruct v; cbn in NB |- *; try contradiction; cbn; try reflexivity. rewrite zd_get_zmap. destruct (zmap_get m z); reflexivity. Qed.
Lemma strict_list_prim m l : Forall not_bool l ->
  GraphOps.map_res (strict_get m) l = (l' <- GraphOps.map_res (fun it_ => t7_ <- zd_getitem_pv m it_ ;; Ok t7_) l ;; Ok (map VInt l')).
Proof.
  induction 1 as [|x r Hx Hr IH]; cbn [GraphOps.map_res]; [reflexivity|]. rewrite strict_get_prim, IH by exact Hx.
  destruct (zd_getitem_pv m x); cbn [bind]; [|reflexivity].
  match goal with |- context [GraphOps.map_res ?f r] => destruct (GraphOps.map_res f r) end; reflexivity.
Qed.

(** the values of a node-reference attribute on which the hand-written model agrees with the source: not a dict
    (Python iterates a dict's keys; the model answers TypeError) and no bool used as a node key (Python finds
    mapping[True] under the key 1; the model answers KeyError) *)
Definition ref_ok (v : pyval) : Prop :=
  match v with
  | VDict _ | VBool _ => False
  | VList l | VTup l => Forall not_bool l
  | _ => True
  end.
(** one iteration of the inner loop computes [remap_val] *)
Definition ref_body (m : list (Z * Z)) :=
  (fun (st_ : bool * list (Z * pyval)) (it_ : Z * pyval) => let '(x11, x13) := st_ in let '(x14, x15) := it_ in
  x11 <- (if (py_is_iterable x15) then (let x11 := (negb (py_isinstance_str x15)) in
  Ok (x11)) else (let x11 := false in
  Ok (x11))) ;;
  x17 <- (if x11 then (t6_ <- py_iter x15 ;; t8_ <- GraphOps.map_res (fun it_ => let x16 := it_ in t7_ <- zd_getitem_pv m x16 ;; Ok t7_) t6_ ;; let x17 := t8_ in
  Ok ((VList (map (fun e_ => (VInt e_)) x17)))) else (t9_ <- zd_getitem_pv m x15 ;; let x17 := t9_ in
  Ok ((VInt x17)))) ;;
  let x13 := zd_set x13 x14 x17 in
  Ok (x11, x13)).
Lemma ref_body_spec m b acc k v : ref_ok v ->
  ref_body m (b, acc) (k, v) = (v' <- remap_val m v ;; Ok (py_is_iterable v && negb (py_isinstance_str v), zd_set acc k v')).
Proof.
  intros H. unfold ref_body. destruct v; cbn in H |- *; try contradiction;
    try (now destruct (zd_get m z)); try reflexivity.
  - rewrite zd_get_zmap. now destruct (zmap_get m z).
  - rewrite strict_list_prim by exact H. now destruct (GraphOps.map_res _ l).
  - rewrite strict_list_prim by exact H. now destruct (GraphOps.map_res _ l).
Qed.
Lemma ref_loop m items : Forall (fun kv => ref_ok (snd kv)) items -> forall b acc, NoDup (map fst acc ++ map fst items) ->
  match GraphOps.map_res (fun kv : Z * pyval => v' <- remap_val m (snd kv) ;; Ok (fst kv, v')) items with
  | Ok nd => exists b', fold_res (ref_body m) items (b, acc) = Ok (b', acc ++ nd)
  | Err e => fold_res (ref_body m) items (b, acc) = Err e
  end.
Proof.
  induction 1 as [|[k v] r Hv Hr IH]; intros b acc ND; cbn [GraphOps.map_res fold_res fst snd].
  - exists b. now rewrite app_nil_r.
  - rewrite ref_body_spec by exact Hv. cbn [fst snd] in *. destruct (remap_val m v) as [v'|e]; cbn [bind]; [|reflexivity].
    assert (F : zd_set acc k v' = acc ++ [(k, v')]).
    { apply zd_set_fresh. cbn in ND. apply NoDup_remove_2 in ND. intros X. apply ND. apply in_or_app. now left. }
    rewrite F. specialize (IH (py_is_iterable v && negb (py_isinstance_str v)) (acc ++ [(k, v')])).
    rewrite map_app, <- app_assoc in IH. specialize (IH ND).
    destruct (GraphOps.map_res _ r) as [nd|e]; cbn [bind].
    + destruct IH as [b' E]. exists b'. rewrite E. now rewrite <- app_assoc.
    + exact IH.
Qed.

(** every attribute dict of relabel_copy g m is the attribute dict of a node of g (or empty) *)
Definition all_na (P : attrs -> Prop) (g : graph) : Prop := Forall (fun n => P (na n)) g.
Lemma all_na_gupdate (P : attrs -> Prop) k f g : all_na P g -> (forall n, P (na n) -> P (na (f n))) -> all_na P (gupdate k f g).
Proof.
  intros H Hf. induction H as [|n r Hn Hr IH]; cbn; [constructor|].
  destruct (Z.eqb (nk n) k); constructor; auto.
Qed.
Lemma all_na_add_node_empty (P : attrs -> Prop) k g : P [] -> all_na P g -> all_na P (add_node g k []).
Proof.
  intros P0 H. unfold add_node. destruct (has_node g k).
  - apply all_na_gupdate; [exact H|]. intros n Hn. exact Hn.
  - apply Forall_app. split; [exact H|]. repeat constructor. exact P0.
Qed.
Lemma all_na_add_edge (P : attrs -> Prop) u v d g : P [] -> all_na P g -> all_na P (add_edge g u v d).
Proof.
  intros P0 H. unfold add_edge.
  set (g1 := if has_node g u then g else _).
  assert (H1 : all_na P g1) by (subst g1; destruct (has_node g u); [exact H|apply Forall_app; split; [exact H|repeat constructor; exact P0]]).
  set (g2 := if has_node g1 v then g1 else _).
  assert (H2 : all_na P g2) by (subst g2; destruct (has_node g1 v); [exact H1|apply Forall_app; split; [exact H1|repeat constructor; exact P0]]).
  apply all_na_gupdate; [apply all_na_gupdate; [exact H2|]|]; intros n Hn; exact Hn.
Qed.
Lemma all_na_fold {X} (P : attrs -> Prop) (f : graph -> X -> graph) l : (forall g x, In x l -> all_na P g -> all_na P (f g x)) ->
  forall g, all_na P g -> all_na P (fold_left f l g).
Proof.
  induction l as [|x r IH]; cbn; intros Hf g H; [exact H|]. apply IH; [intros; apply Hf; [now right|assumption]|].
  apply Hf; [now left|exact H].
Qed.
Lemma all_na_relabel (P : attrs -> Prop) g m : P [] -> all_na P g -> all_na P (relabel_copy g m).
Proof.
  intros P0 H. unfold relabel_copy.
  apply all_na_fold; [intros; now apply all_na_add_edge|].
  apply all_na_fold.
  - intros h n Hn Hh. apply all_na_gupdate; [exact Hh|]. intros x _. cbn. unfold all_na in H. rewrite Forall_forall in H. now apply H.
  - apply all_na_fold; [intros; now apply all_na_add_node_empty|constructor].
Qed.
Lemma all_na_attr (Q : pyval -> Prop) a g : all_na (fun d => match aget a d with Some v => Q v | None => True end) g ->
  Forall (fun kv => Q (snd kv)) (get_node_attributes g a).
Proof.
  unfold get_node_attributes. induction 1 as [|n r Hn Hr IH]; cbn; [constructor|].
  apply Forall_app. split; [|exact IH]. destruct (aget a (na n)); repeat constructor. exact Hn.
Qed.

(** ------------------------------------------------------------------ sort_nodes_by_attr *)
(** the values the node-reference attribute may hold ([ref_ok]) *)
Definition refs_modelled (g : graph) : Prop :=
  all_na (fun d => match aget (S "ez_isomer_atoms") d with Some v => ref_ok v | None => True end) g.

Theorem sort_is_source : forall g, NoDup (node_keys g) -> refs_modelled g ->
  gen_sort_nodes_by_attr g sort_attr_default relative_attr_default = GraphOps.sort_nodes_by_attr g.
Proof.
  intros g ND RM. unfold gen_sort_nodes_by_attr, GraphOps.sort_nodes_by_attr, sort_mapping, sort_items,
    sort_attr_default, relative_attr_default, nx_get_node_attributes, dict_items, py_sorted_by.
  pose proof (tagged_spec (get_node_attributes g (S "fragid"))) as T. unfold tagged in T. cbn [fst snd] in T |- *.
  destruct (GraphOps.map_res (fun kv : Z * pyval => l <- ints_of (snd kv) ;; Ok (l, fst kv)) _) as [ks|e] eqn:EK; cbn [bind].
  2:{ rewrite T. reflexivity. }
  destruct T as [ks' [E [M F]]]. rewrite E. cbn [bind].
  assert (MAP : zd_of_pairs (map (fun it_ : Z * (Z * pyval) => let '(x6, x7) := it_ in (fst x7, x6))
                  (py_enumerate 0 (map snd (fold_right insert_by [] ks')))) = mapping_of (isort ks)).
  { unfold py_enumerate, enumerate_from. rewrite enumerate_keys. rewrite map_length.
    assert (K : map fst (map snd (fold_right insert_by [] ks')) = map snd (isort ks)).
    { rewrite <- M, <- isort_by_fst. rewrite !map_map. apply map_ext_in. intros p Hp.
      pose proof (isort_by_forall _ _ F) as G. rewrite Forall_forall in G. symmetry. exact (G p Hp). }
    rewrite K. unfold mapping_of.
    assert (L : length (fold_right insert_by [] ks') = length (isort ks)).
    { rewrite <- M, <- isort_by_fst. now rewrite map_length. }
    rewrite L. apply zd_of_pairs_nodup. rewrite map_fst_combine by now rewrite !map_length, seq_length.
    apply (Permutation_NoDup (l := map snd ks)); [apply Permutation_map, Permutation_sym, isort_perm|].
    rewrite (sort_items_keys g ks EK). now apply attr_keys_nodup. }
  rewrite MAP. set (m := mapping_of (isort ks)). unfold nx_relabel_nodes_copy. set (h := relabel_copy g m).
  cbn [fold_res].
  assert (RH : Forall (fun kv : Z * pyval => ref_ok (snd kv)) (get_node_attributes h (S "ez_isomer_atoms"))).
  { apply all_na_attr. apply all_na_relabel; [exact I|exact RM]. }
  pose proof (ref_loop m _ RH true []) as R. cbn [map app] in R.
  specialize (R (attr_keys_nodup h _ (st_relabel_copy_nodup g m))).
  fold (ref_body m).
  destruct (GraphOps.map_res (fun kv : Z * pyval => v' <- remap_val m (snd kv) ;; Ok (fst kv, v')) _) as [nd|e]; cbn [bind].
  - destruct R as [b' R]. rewrite R. cbn [bind app]. unfold nx_set_node_attributes, dict_truthy.
    destruct nd; reflexivity.
  - rewrite R. reflexivity.
Qed.

(** ================================================================== merge_graphs *)
(** representation invariants of a networkx graph (a dict of nodes, each with a dict of neighbours) *)
Definition adj_ok (g : graph) : Prop :=
  NoDup (node_keys g) /\ (forall n, In n g -> NoDup (map fst (nadj n))) /\
  (forall n w, In n g -> In w (map fst (nadj n)) -> In w (node_keys g)).

Fixpoint corr_from (s : Z) (ks : list Z) : list (Z * Z) :=
  match ks with [] => [] | k :: r => (k, s) :: corr_from (s + 1) r end.
Lemma corr_from_combine off ks : forall a,
  combine ks (map (fun i => off + 1 + Z.of_nat i) (seq a (length ks))) = corr_from (off + 1 + Z.of_nat a) ks.
Proof.
  induction ks as [|k r IH]; intros a; cbn [length seq map combine corr_from]; [reflexivity|].
  rewrite IH. do 2 f_equal. lia.
Qed.
Lemma correspondence_from off g : correspondence off g = corr_from (off + 1) (node_keys g).
Proof.
  unfold correspondence. rewrite <- (map_length nk g). fold (node_keys g). rewrite corr_from_combine. f_equal. cbn. lia.
Qed.
Lemma corr_from_snoc ks k : forall s, corr_from s (ks ++ [k]) = corr_from s ks ++ [(k, s + Z.of_nat (length ks))].
Proof.
  induction ks as [|x r IH]; intros s; cbn [app corr_from length].
  - cbn. now rewrite Z.add_0_r.
  - rewrite IH. cbn [app]. replace (s + 1 + Z.of_nat (length r)) with (s + Z.of_nat (Datatypes.S (length r))) by lia. reflexivity.
Qed.
Lemma corr_from_keys ks : forall s, map fst (corr_from s ks) = ks.
Proof. induction ks as [|x r IH]; intros s; cbn; [reflexivity|]. now rewrite IH. Qed.
Lemma corr_from_get pre k rest : ~ In k pre -> forall s,
  map_get (corr_from s (pre ++ k :: rest)) k = s + Z.of_nat (length pre).
Proof.
  unfold map_get. induction pre as [|x r IH]; intros NI s; cbn [app corr_from find fst snd length].
  - rewrite Z.eqb_refl. cbn. lia.
  - destruct (Z.eqb_spec x k) as [->|N]; [exfalso; apply NI; now left|].
    rewrite IH by (intros X; apply NI; now right). lia.
Qed.
Lemma zd_getitem_map_get (m : list (Z * Z)) u : In u (map fst m) -> zd_getitem m u = Ok (map_get m u).
Proof.
  unfold zd_getitem, map_get. induction m as [|[a b] r IH]; cbn [map fst In zd_get find]; [contradiction|].
  intros H. destruct (Z.eqb_spec a u) as [->|N]; [reflexivity|]. apply IH. destruct H; [contradiction|assumption].
Qed.
Lemma enumerate_from_cons {A} s (x : A) l : enumerate_from s (x :: l) = (s, x) :: enumerate_from (s + 1) l.
Proof.
  unfold enumerate_from. cbn [length seq map combine]. f_equal; [f_equal; lia|].
  rewrite <- seq_shift, map_map. f_equal. apply map_ext. intros i. lia.
Qed.

(** the values of 'ez_isomer_atoms' on which model and source agree in merge_graphs: the source evaluates
    v[0] + offset BEFORE v[1] (a one-element list with a non-number raises TypeError, the model IndexError);
    it may index a str or a dict (the model answers TypeError) *)
Definition ez_modelled (v : pyval) : Prop :=
  match v with
  | VList [x] | VTup [x] => exists z, as_int x = Ok z
  | VStr [] | VDict _ => False
  | _ => True
  end.
Definition ez_values_modelled (g : graph) : Prop :=
  all_na (fun d => match aget (S "ez_isomer_atoms") d with Some v => ez_modelled v | None => True end) g.

Definition merge_body1 (x3 x4 : Z) (x1 : graph) :=
  (fun (st_ : list (Z * Z) * graph) (it_ : Z * Z) => let '(x6, x0) := st_ in let '(x7, x8) := it_ in
  let x6 := zd_set x6 x8 x7 in
  t12_ <- nx_node_attrs x1 x8 ;; let x9 := t12_ in
  t13_ <- py_add_pv_int (attrs_get x9 (S "fragid") (VInt (0))) x3 ;; let x9 := aset (S "fragid") (VList (map (fun e_ => (VInt e_)) [t13_])) x9 in
  x9 <- (if (ahas (S "ez_isomer_atoms") x9) then (t14_ <- attrs_getitem x9 (S "ez_isomer_atoms") ;; t15_ <- py_getitem_pv t14_ 0 ;; t16_ <- py_add_pv_int t15_ x4 ;; t17_ <- attrs_getitem x9 (S "ez_isomer_atoms") ;; t18_ <- py_getitem_pv t17_ 1 ;; t19_ <- py_add_pv_int t18_ x4 ;; let x9 := aset (S "ez_isomer_atoms") (VTup [(VInt (fst ((t16_ + (1)), (t19_ + (1))))); (VInt (snd ((t16_ + (1)), (t19_ + (1)))))]) x9 in
  Ok (x9)) else (Ok (x9))) ;;
  let x0 := nx_add_node x0 x7 x9 in
  Ok (x6, x0)).

Lemma as_int_err v e : as_int v = Err e -> e = EType.
Proof. destruct v; cbn; congruence. Qed.

Lemma shift_ez_spec off a : match aget (S "ez_isomer_atoms") a with Some v => ez_modelled v | None => True end ->
  (if ahas (S "ez_isomer_atoms") a
   then t14_ <- attrs_getitem a (S "ez_isomer_atoms") ;; t15_ <- py_getitem_pv t14_ 0 ;; t16_ <- py_add_pv_int t15_ off ;;
        t17_ <- attrs_getitem a (S "ez_isomer_atoms") ;; t18_ <- py_getitem_pv t17_ 1 ;; t19_ <- py_add_pv_int t18_ off ;;
        Ok (aset (S "ez_isomer_atoms") (VTup [VInt (fst (t16_ + 1, t19_ + 1)); VInt (snd (t16_ + 1, t19_ + 1))]) a)
   else Ok a) = shift_ez (off + 1) a.
Proof.
  unfold shift_ez, ahas, attrs_getitem. destruct (aget (S "ez_isomer_atoms") a) as [v|]; [|reflexivity].
  cbn [of_option bind]. intros H. unfold py_add_pv_int.
  destruct v as [| | | |s|l|l|d]; cbn in H |- *; try reflexivity; try contradiction.
  - destruct s; [contradiction|reflexivity].
  - destruct l as [|x [|y r]]; cbn; [reflexivity| |].
    + destruct H as [z ->]. reflexivity.
    + destruct (as_int x) as [x'|e] eqn:Ex; cbn [bind]; [|reflexivity].
      change (Pos.to_nat 1) with 1%nat. cbn [nth_error of_option bind].
      destruct (as_int y) as [y'|e] eqn:Ey; cbn [bind]; [|reflexivity]. now rewrite <- !Z.add_assoc.
  - destruct l as [|x [|y r]]; cbn; [reflexivity| |].
    + destruct H as [z ->]. reflexivity.
    + destruct (as_int x) as [x'|e] eqn:Ex; cbn [bind]; [|reflexivity].
      change (Pos.to_nat 1) with 1%nat. cbn [nth_error of_option bind].
      destruct (as_int y) as [y'|e] eqn:Ey; cbn [bind]; [|reflexivity]. now rewrite <- !Z.add_assoc.
Qed.

Lemma merge_body1_spec fo off tgt corr acc idx n : node_attrs tgt (nk n) = Ok (na n) ->
  match aget (S "ez_isomer_atoms") (na n) with Some v => ez_modelled v | None => True end ->
  merge_body1 fo off tgt (corr, acc) (idx, nk n)
  = (a <- merge_node (off + 1) fo (na n) ;; Ok (zd_set corr (nk n) idx, add_node acc idx a)).
Proof.
  intros NA EZ. unfold merge_body1, nx_node_attrs. rewrite NA. cbn [bind]. unfold merge_node, attrs_get, py_add_pv_int.
  assert (F : (match aget (S "fragid") (na n) with Some v => as_int v | None => Ok 0 end)
              = as_int (match aget (S "fragid") (na n) with Some v => v | None => VInt 0 end))
    by (destruct (aget (S "fragid") (na n)); reflexivity).
  rewrite F. destruct (as_int _) as [f|e]; cbn [bind map]; [|reflexivity].
  set (a' := aset (S "fragid") (VList [VInt (f + fo)]) (na n)).
  assert (EZ' : match aget (S "ez_isomer_atoms") a' with Some v => ez_modelled v | None => True end).
  { subst a'. rewrite aget_aset_other; [exact EZ|]. intros X. apply (f_equal (@length _)) in X. cbn in X. discriminate. }
  rewrite <- (shift_ez_spec off a' EZ').
  reflexivity.
Qed.

Lemma merge_loop1 fo off tgt : NoDup (node_keys tgt) -> ez_values_modelled tgt ->
  forall suf pre acc, tgt = pre ++ suf ->
  fold_res (merge_body1 fo off tgt) (enumerate_from (off + 1 + Z.of_nat (length pre)) (node_keys suf)) (corr_from (off + 1) (node_keys pre), acc)
  = (src1 <- fold_res (fun acc n => a <- merge_node (off + 1) fo (na n) ;; Ok (add_node acc (map_get (correspondence off tgt) (nk n)) a)) suf acc ;;
     Ok (correspondence off tgt, src1)).
Proof.
  intros ND EZ. induction suf as [|n r IH]; intros pre acc E.
  - cbn. rewrite app_nil_r in E. subst pre. now rewrite correspondence_from.
  - cbn [node_keys map]. rewrite enumerate_from_cons. cbn [fold_res].
    assert (In_n : In n tgt) by (rewrite E; apply in_or_app; right; now left).
    rewrite merge_body1_spec.
    2:{ unfold node_attrs. now rewrite (st_gfind_nodup tgt n ND In_n). }
    2:{ unfold ez_values_modelled, all_na in EZ. rewrite Forall_forall in EZ. exact (EZ n In_n). }
    assert (NI : ~ In (nk n) (node_keys pre)).
    { rewrite E in ND. unfold node_keys in ND. rewrite map_app in ND. cbn [map] in ND. now apply NoDup_remove_2 in ND as X; intros Y; apply X; apply in_or_app; left. }
    assert (G : map_get (correspondence off tgt) (nk n) = off + 1 + Z.of_nat (length pre)).
    { rewrite correspondence_from, E. unfold node_keys. rewrite map_app. cbn [map]. rewrite corr_from_get by exact NI. now rewrite map_length. }
    rewrite G. destruct (merge_node (off + 1) fo (na n)) as [a|e]; cbn [bind]; [|reflexivity].
    specialize (IH (pre ++ [n]) (add_node acc (off + 1 + Z.of_nat (length pre)) a)).
    rewrite <- app_assoc in IH. specialize (IH E).
    rewrite app_length in IH. cbn [length] in IH. unfold node_keys in IH at 2. rewrite map_app in IH. cbn [map] in IH.
    rewrite corr_from_snoc, map_length in IH.
    rewrite zd_set_fresh by (now rewrite corr_from_keys).
    replace (off + 1 + Z.of_nat (length pre) + 1) with (off + 1 + Z.of_nat (length pre + 1)) by lia.
    exact IH.
Qed.

(** ------------------------------------------------------------------ the edge loop *)
Definition merge_body2 (x6 : list (Z * Z)) (x1 : graph) :=
  (fun (st_ : graph) (it_ : Z * Z) => let x0 := st_ in let '(x10, x11) := it_ in
  t20_ <- zd_getitem x6 x10 ;; t21_ <- zd_getitem x6 x11 ;; x0 <- (if (negb (Z.eqb t20_ t21_)) then (t22_ <- nx_edge_attrs x1 (fst (x10, x11)) (snd (x10, x11)) ;; let x12 := t22_ in
  t23_ <- zd_getitem x6 x10 ;; t24_ <- zd_getitem x6 x11 ;; let x0 := nx_add_edge x0 t23_ t24_ x12 in
  Ok (x0)) else (Ok (x0))) ;;
  Ok (x0)).
Lemma merge_body2_spec corr tgt acc u v d : In u (map fst corr) -> In v (map fst corr) -> edge_attrs tgt u v = Ok d ->
  merge_body2 corr tgt acc (u, v)
  = Ok (if Z.eqb (map_get corr u) (map_get corr v) then acc else add_edge acc (map_get corr u) (map_get corr v) d).
Proof.
  intros Hu Hv Hd. unfold merge_body2, nx_edge_attrs, nx_add_edge. rewrite !zd_getitem_map_get by assumption.
  cbn [bind fst snd]. rewrite Hd. cbn [bind]. now destruct (Z.eqb _ _).
Qed.
Lemma merge_loop2 corr tgt es : Forall (fun e : Z * Z * attrs => In (fst (fst e)) (map fst corr) /\ In (snd (fst e)) (map fst corr)
                                           /\ edge_attrs tgt (fst (fst e)) (snd (fst e)) = Ok (snd e)) es ->
  forall acc, fold_res (merge_body2 corr tgt) (map (fun e => (fst (fst e), snd (fst e))) es) acc
  = Ok (fold_left (fun acc e => let '(u, v, d) := e in
                     if Z.eqb (map_get corr u) (map_get corr v) then acc
                     else add_edge acc (map_get corr u) (map_get corr v) d) es acc).
Proof.
  induction 1 as [|[[u v] d] r [Hu [Hv Hd]] Hr IH]; intros acc; cbn [map fold_res fold_left fst snd]; [reflexivity|].
  cbn [fst snd] in *. rewrite (merge_body2_spec corr tgt acc u v d Hu Hv Hd). cbn [bind]. apply IH.
Qed.

Lemma edges_from_in g : forall seen e, In e (edges_from g seen) ->
  exists n, In n g /\ fst (fst e) = nk n /\ In (snd (fst e), snd e) (nadj n).
Proof.
  induction g as [|n r IH]; intros seen e H; cbn in H; [contradiction|].
  apply in_app_or in H as [H|H].
  - apply in_flat_map in H as [[w a] [Hw He]]. cbn in He. destruct (existsb _ seen); [contradiction|].
    destruct He as [<-|[]]. exists n. cbn. repeat split; [now left|exact Hw].
  - destruct (IH _ _ H) as [m [Hm X]]. exists m. split; [now right|exact X].
Qed.
Lemma adj_get_in v d l : NoDup (map fst l) -> In (v, d) l -> adj_get v l = Some d.
Proof.
  induction l as [|[w a] r IH]; cbn; intros ND H; [contradiction|]. inversion ND as [|? ? NI ND']; subst.
  destruct H as [H|H].
  - inversion H; subst. now rewrite Z.eqb_refl.
  - destruct (Z.eqb_spec w v) as [->|N]; [|now apply IH]. exfalso. apply NI. change v with (fst (v, d)). now apply in_map.
Qed.
Lemma edges_lookup g : adj_ok g ->
  Forall (fun e : Z * Z * attrs => In (fst (fst e)) (node_keys g) /\ In (snd (fst e)) (node_keys g)
                                   /\ edge_attrs g (fst (fst e)) (snd (fst e)) = Ok (snd e)) (edges_data g).
Proof.
  intros [ND [AD CL]]. apply Forall_forall. intros [[u v] d] H. apply edges_from_in in H as [n [Hn [Hu Hv]]]. cbn [fst snd] in *.
  subst u. repeat split.
  - unfold node_keys. now apply in_map.
  - apply (CL n v Hn). change v with (fst (v, d)). now apply in_map.
  - unfold edge_attrs. rewrite (st_gfind_nodup g n ND Hn). now rewrite (adj_get_in v d (nadj n) (AD n Hn) Hv).
Qed.

Theorem merge_is_source : forall src tgt, adj_ok tgt -> ez_values_modelled tgt ->
  gen_merge_graphs src tgt = GraphOps.merge_graphs src tgt.
Proof.
  intros src tgt OK EZ. pose proof OK as [ND _].
  unfold gen_merge_graphs, GraphOps.merge_graphs, merge_offsets.
  assert (OFF : (if Z.eqb (nx_len src) 0 then Ok (0, -1, 0)
                 else t1_ <- py_max (nx_nodes src) ;; t2_ <- nx_node_attrs src t1_ ;;
                      t3_ <- py_max_pv (attrs_get t2_ (S "fragid") (VList (map (fun e_ => VInt e_) [0]))) ;; Ok (t3_ + 1, t1_, t1_))
                = (p <- match src with
                        | [] => Ok (-1, 0)
                        | n0 :: r => let mx := zmax_list (node_keys r) (nk n0) in
                            a <- node_attrs src mx ;;
                            fids <- match aget (S "fragid") a with Some v => ints_of v | None => Ok [0] end ;;
                            m <- py_max fids ;; Ok (mx, m + 1)
                        end ;; Ok (snd p, fst p, if Z.eqb (nx_len src) 0 then 0 else fst p))).
  { destruct src as [|n0 r]; [reflexivity|]. unfold nx_len. cbn [length]. rewrite Nat2Z.inj_succ.
    destruct (Z.eqb_spec (Z.succ (Z.of_nat (length r))) 0) as [X|_]; [lia|].
    unfold nx_nodes, nx_node_attrs, py_max_pv, attrs_get. cbn [node_keys map py_max bind]. fold (node_keys r).
    destruct (node_attrs (n0 :: r) _) as [a|e]; cbn [bind]; [|reflexivity].
    destruct (aget (S "fragid") a) as [v|]; cbn [bind].
    - destruct (ints_of v) as [l|e]; cbn [bind]; [|reflexivity]. destruct (py_max l); reflexivity.
    - reflexivity. }
  cbv zeta in OFF |- *. rewrite OFF. clear OFF.
  destruct (match src with [] => _ | _ => _ end) as [[off fo]|e]; cbn [bind fst snd]; [|reflexivity].
  unfold py_enumerate, nx_nodes.
  match goal with |- bind (fold_res ?f _ _) _ = _ => change f with (merge_body1 fo off tgt) end.
  pose proof (merge_loop1 fo off tgt ND EZ tgt [] src eq_refl) as L1. cbn [length node_keys map corr_from] in L1.
  replace (off + 1 + Z.of_nat 0) with (off + 1) in L1 by (cbn; lia). fold (node_keys tgt) in L1. rewrite L1. clear L1.
  destruct (fold_res _ tgt src) as [src1|e]; cbn [bind]; [|reflexivity].
  match goal with |- bind (fold_res ?f _ _) _ = _ => change f with (merge_body2 (correspondence off tgt) tgt) end.
  unfold nx_edges, edges_list.
  rewrite merge_loop2; [reflexivity|].
  rewrite correspondence_from, corr_from_keys. now apply edges_lookup.
Qed.

(** ================================================================== annotate_fragments *)
Lemma fold_res_pure {A B} (f : B -> A -> res B) (g : B -> A -> B) : (forall b x, f b x = Ok (g b x)) ->
  forall l b, fold_res f l b = Ok (fold_left g l b).
Proof. intros H. induction l as [|x r IH]; intros b; cbn [fold_res fold_left]; [reflexivity|]. rewrite H. cbn [bind]. apply IH. Qed.

(** the entries of a 'fragid' list on which model and source agree: ints, and str / None (hashable, never a
    coarse key).  A bool or float entry equals an int key in Python, an unhashable entry raises TypeError;
    the hand-written model ignores all of them. *)
Definition entry_simple (v : pyval) : Prop := match v with VInt _ | VStr _ | VNone => True | _ => False end.
(** a 'fragid' value: a list/tuple of such entries, or something that is not iterable (TypeError in both);
    a str or dict value is iterated by the source, the model answers TypeError *)
Definition fragid_ok (v : pyval) : Prop :=
  match v with
  | VList l | VTup l => Forall entry_simple l
  | VStr _ | VDict _ => False
  | _ => True
  end.
Definition fragids_modelled (mol : graph) : Prop :=
  all_na (fun d => match aget (S "fragid") d with Some v => fragid_ok v | None => True end) mol.

Lemma simple_eqb x y : entry_simple x -> pyval_eqb x y = true -> x = y.
Proof.
  destruct x; cbn; try contradiction; intros _; destruct y; try discriminate.
  - reflexivity.
  - intros H. apply Z.eqb_eq in H. now subst.
  - intros H. apply str_eqb_eq in H. now subst.
Qed.
Lemma int_eqb k y : pyval_eqb (VInt k) y = true -> y = VInt k.
Proof. intros H. symmetry. apply simple_eqb; [exact I|exact H]. Qed.
Lemma simple_hashable x : entry_simple x -> py_hashable x = true.
Proof. destruct x; cbn; try contradiction; reflexivity. Qed.

Lemma ddl_get_upd {A} (x : pyval) (xs : list A) k : entry_simple x -> forall d,
  ddl_get (ddl_upd d x xs) (VInt k) = if pyval_eqb (VInt k) x then ddl_get d (VInt k) ++ xs else ddl_get d (VInt k).
Proof.
  intros Sx. induction d as [|[k' l] r IH]; cbn [ddl_upd ddl_get].
  - destruct (pyval_eqb (VInt k) x); reflexivity.
  - destruct (pyval_eqb x k') eqn:E.
    + apply (simple_eqb _ _ Sx) in E. subst k'. cbn [ddl_get]. destruct (pyval_eqb (VInt k) x); reflexivity.
    + cbn [ddl_get]. destruct (pyval_eqb (VInt k) k') eqn:E2.
      * apply int_eqb in E2. subst k'. destruct (pyval_eqb (VInt k) x) eqn:E3; [|reflexivity].
        apply int_eqb in E3. subst x. cbn in E. rewrite Z.eqb_refl in E. discriminate.
      * exact IH.
Qed.

Definition annot_inner (x5 : Z) :=
  (fun (st_ : ddl Z) (it_ : pyval) => let x4 := st_ in let x7 := it_ in
  x4 <- ddl_append x4 x7 x5 ;;
  Ok (x4)).
Lemma annot_inner_loop node l : Forall entry_simple l -> forall d,
  exists d', fold_res (annot_inner node) l d = Ok d' /\
             forall k, ddl_get d' (VInt k) = ddl_get d (VInt k) ++ repeat node (zcount k l).
Proof.
  induction 1 as [|x r Hx Hr IH]; intros d; cbn [fold_res].
  - exists d. split; [reflexivity|]. intros k. cbn. now rewrite app_nil_r.
  - unfold annot_inner at 1. unfold ddl_append. rewrite (simple_hashable x Hx). cbn [bind].
    destruct (IH (ddl_upd d x [node])) as [d' [E G]]. exists d'. split; [exact E|]. intros k. rewrite G, ddl_get_upd by exact Hx.
    unfold zcount. cbn [filter]. destruct x; cbn in Hx |- *; try contradiction; try reflexivity.
    rewrite (Z.eqb_sym k z). destruct (Z.eqb z k); cbn [length repeat]; [now rewrite <- app_assoc|reflexivity].
Qed.

Definition annot_body1 :=
  (fun (st_ : ddl Z) (it_ : Z * pyval) => let x4 := st_ in let '(x5, x6) := it_ in
  t2_ <- py_iter x6 ;; x4 <- fold_res (fun st_ it_ => let x4 := st_ in let x7 := it_ in
  x4 <- ddl_append x4 x7 x5 ;;
  Ok (x4)) t2_ (x4) ;;
  Ok (x4)).
Lemma annot_body1_list n l d v : Forall entry_simple l -> v = VList l \/ v = VTup l ->
  exists d1, annot_body1 d (n, v) = Ok d1 /\ forall k, ddl_get d1 (VInt k) = ddl_get d (VInt k) ++ repeat n (zcount k l).
Proof.
  intros Hl Hv. destruct (annot_inner_loop n l Hl d) as [d1 [E1 G1]]. exists d1. split; [|exact G1].
  unfold annot_inner in E1. unfold annot_body1. destruct Hv as [-> | ->]; cbn [py_iter bind]; rewrite E1; reflexivity.
Qed.
Lemma annot_loop1 items : Forall (fun kv : Z * pyval => fragid_ok (snd kv)) items -> forall d,
  match GraphOps.map_res (fun kv : Z * pyval => l <- as_list (snd kv) ;; Ok (fst kv, l)) items with
  | Ok fm => exists d', fold_res annot_body1 items d = Ok d' /\
                        forall k, ddl_get d' (VInt k) = ddl_get d (VInt k) ++ members_of fm k
  | Err e => fold_res annot_body1 items d = Err e
  end.
Proof.
  induction 1 as [|[n v] r Hv Hr IH]; intros d; cbn [GraphOps.map_res fold_res fst snd].
  - exists d. split; [reflexivity|]. intros k. cbn. now rewrite app_nil_r.
  - cbn [snd] in Hv.
    assert (C : (exists l, (v = VList l \/ v = VTup l) /\ Forall entry_simple l) \/ (as_list v = Err EType /\ forall d, annot_body1 d (n, v) = Err EType)).
    { destruct v; cbn in Hv; try contradiction; try (right; split; [reflexivity|intros; reflexivity]); left; exists l; auto. }
    destruct C as [[l [Hl Fl]]|[E1 E2]].
    + destruct (annot_body1_list n l d v Fl Hl) as [d1 [B G1]]. rewrite B. cbn [bind].
      assert (AL : as_list v = Ok l) by (destruct Hl as [-> | ->]; reflexivity). rewrite AL. cbn [bind].
      specialize (IH d1). destruct (GraphOps.map_res _ r) as [fm|e]; cbn [bind].
      * destruct IH as [d' [E G]]. exists d'. split; [exact E|]. intros k. rewrite G, G1. unfold members_of. cbn [flat_map fst snd].
        now rewrite <- app_assoc.
      * exact IH.
    + rewrite E1, E2. reflexivity.
Qed.

Definition annot_body2 (x0 x2 : graph) (x4 : ddl Z) :=
  (fun (st_ : fgraphs) (it_ : Z) => let x1 := st_ in let x8 := it_ in
  let x9 := nx_Graph in
  x9 <- fold_res (fun st_ it_ => let x9 := st_ in let x5 := it_ in
  t3_ <- nx_node_attrs x2 x5 ;; let x10 := t3_ in
  let x9 := nx_add_node x9 x5 x10 in
  Ok (x9)) (ddl_get x4 (VInt x8)) (x9) ;;
  let x11 := (py_combinations2 (ddl_get x4 (VInt x8))) in
  x9 <- fold_res (fun st_ it_ => let x9 := st_ in let '(x12, x13) := it_ in
  x9 <- (if (nx_has_edge x2 x12 x13) then (let x9 := nx_add_edge x9 x12 x13 [] in
  Ok (x9)) else (Ok (x9))) ;;
  Ok (x9)) x11 (x9) ;;
  x1 <- nx_set_node_graph x0 x1 x8 x9 ;;
  Ok (x1)).
Lemma annot_body2_spec meta mol d fm s k : ddl_get d (VInt k) = members_of fm k -> has_node meta k = true ->
  annot_body2 meta mol d s k = (g <- frag_subgraph mol (members_of fm k) ;; Ok (fg_set k g s)).
Proof.
  intros G H. unfold annot_body2, frag_subgraph, nx_set_node_graph, py_combinations2, nx_Graph. rewrite G, H.
  change (fun (st_ : graph) (it_ : Z) => t3_ <- nx_node_attrs mol it_ ;; Ok (nx_add_node st_ it_ t3_))
    with (fun acc n => a <- node_attrs mol n ;; Ok (add_node acc n a)).
  destruct (fold_res _ (members_of fm k) gempty) as [g1|e]; cbn [bind]; [|reflexivity].
  rewrite (fold_res_pure _ (fun acc ab => if has_edge mol (fst ab) (snd ab) then add_edge acc (fst ab) (snd ab) [] else acc)).
  - reflexivity.
  - intros b [x y]. unfold nx_has_edge, nx_add_edge. cbn [fst snd]. now destruct (has_edge mol x y).
Qed.
Lemma annot_loop2 meta mol d fm : (forall k, ddl_get d (VInt k) = members_of fm k) ->
  forall l s, (forall mn, In mn l -> has_node meta (nk mn) = true) ->
  fold_res (annot_body2 meta mol d) (node_keys l) s
  = (new <- GraphOps.map_res (fun mn => g <- frag_subgraph mol (members_of fm (nk mn)) ;; Ok (nk mn, g)) l ;;
     Ok (fold_left (fun s kg => fg_set (fst kg) (snd kg) s) new s)).
Proof.
  intros G. induction l as [|mn r IH]; intros s H; cbn [node_keys map fold_res GraphOps.map_res]; [reflexivity|].
  rewrite (annot_body2_spec meta mol d fm s (nk mn) (G _)) by (apply H; now left).
  destruct (frag_subgraph mol _) as [g|e]; cbn [bind]; [|reflexivity].
  fold (node_keys r). rewrite IH by (intros; apply H; now right).
  destruct (GraphOps.map_res _ r); reflexivity.
Qed.

Lemma has_node_in g n : In n g -> has_node g (nk n) = true.
Proof. intros H. apply st_gfind_has. unfold node_keys. now apply in_map. Qed.

(** the source assigns the new fragment graph to the 'graph' attribute of every coarse node: the store the coarse
    graph had before is updated key by key with the list the model returns *)
Theorem annotate_is_source : forall meta fgs0 mol, fragids_modelled mol ->
  gen_annotate_fragments meta fgs0 mol
  = (new <- GraphOps.annotate_fragments meta mol ;; Ok (fold_left (fun s kg => fg_set (fst kg) (snd kg) s) new fgs0, meta)).
Proof.
  intros meta fgs0 mol FM. unfold gen_annotate_fragments, GraphOps.annotate_fragments, fragid_map, nx_get_node_attributes, dict_items.
  cbv zeta.
  match goal with |- bind (fold_res ?f _ _) _ = _ => change f with annot_body1 end.
  pose proof (annot_loop1 (get_node_attributes mol (S "fragid")) (all_na_attr fragid_ok _ mol FM) []) as L1.
  destruct (GraphOps.map_res _ (get_node_attributes mol (S "fragid"))) as [fm|e]; cbn [bind].
  2:{ rewrite L1. reflexivity. }
  destruct L1 as [d [E G]]. rewrite E. cbn [bind]. cbn [ddl_get app] in G.
  match goal with |- bind (fold_res ?f _ _) _ = _ => change f with (annot_body2 meta mol d) end.
  unfold nx_nodes. rewrite (annot_loop2 meta mol d fm G meta fgs0 (has_node_in meta)).
  destruct (GraphOps.map_res _ meta); reflexivity.
Qed.

(** when the coarse graph carries no fragment graphs yet, or carries one for every node in node order (what
    resolve_disconnected leaves), the updated store IS the list the model returns *)
Lemma fg_set_fresh k g s : ~ In k (map fst s) -> fg_set k g s = s ++ [(k, g)].
Proof.
  induction s as [|[k' g'] r IH]; cbn; intros H; [reflexivity|].
  destruct (Z.eqb_spec k k') as [->|N]; [exfalso; apply H; now left|]. rewrite IH; [reflexivity|]. intros X. apply H. now right.
Qed.
Lemma fg_fold_fresh new : forall s, NoDup (map fst s ++ map fst new) ->
  fold_left (fun s (kg : Z * graph) => fg_set (fst kg) (snd kg) s) new s = s ++ new.
Proof.
  induction new as [|[k g] r IH]; cbn [fold_left map fst snd]; intros s H; [now rewrite app_nil_r|].
  rewrite fg_set_fresh.
  - rewrite IH; [now rewrite <- app_assoc|]. rewrite map_app, <- app_assoc. exact H.
  - apply NoDup_remove_2 in H. intros X. apply H. apply in_or_app. now left.
Qed.
Lemma annotate_keys meta mol new : GraphOps.annotate_fragments meta mol = Ok new -> map fst new = node_keys meta.
Proof.
  unfold GraphOps.annotate_fragments. destruct (fragid_map mol) as [fm|]; cbn [bind]; [|discriminate].
  revert new. induction meta as [|mn r IH]; intros new; cbn [GraphOps.map_res node_keys map].
  - intros H. inversion H. reflexivity.
  - destruct (frag_subgraph mol _) as [g|]; cbn [bind]; [|discriminate].
    destruct (GraphOps.map_res _ r) as [ys|]; cbn [bind]; [|discriminate]. intros H. inversion H. cbn. f_equal. now apply IH.
Qed.
Theorem annotate_is_source_fresh : forall meta mol, NoDup (node_keys meta) -> fragids_modelled mol ->
  gen_annotate_fragments meta [] mol = (new <- GraphOps.annotate_fragments meta mol ;; Ok (new, meta)).
Proof.
  intros meta mol ND FM. rewrite annotate_is_source by exact FM.
  destruct (GraphOps.annotate_fragments meta mol) as [new|e] eqn:E; cbn [bind]; [|reflexivity].
  rewrite fg_fold_fresh; [reflexivity|]. cbn [map app]. now rewrite (annotate_keys meta mol new E).
Qed.
Lemma fg_set_mid k g g' pre post : ~ In k (map fst pre) -> fg_set k g (pre ++ (k, g') :: post) = pre ++ (k, g) :: post.
Proof.
  induction pre as [|[k' h] r IH]; cbn; intros H.
  - now rewrite Z.eqb_refl.
  - destruct (Z.eqb_spec k k') as [->|N]; [exfalso; apply H; now left|]. rewrite IH; [reflexivity|]. intros X. apply H. now right.
Qed.
Lemma fg_fold_replace new : forall pre s, map fst s = map fst new -> NoDup (map fst pre ++ map fst new) ->
  fold_left (fun s (kg : Z * graph) => fg_set (fst kg) (snd kg) s) new (pre ++ s) = pre ++ new.
Proof.
  induction new as [|[k g] r IH]; intros pre s E ND; cbn [fold_left map fst snd] in *.
  - destruct s; [reflexivity|discriminate].
  - destruct s as [|[k' g'] s']; [discriminate|]. cbn [map fst] in E. inversion E as [[E1 E2]]. subst k'.
    rewrite fg_set_mid by (apply NoDup_remove_2 in ND; intros X; apply ND; apply in_or_app; now left).
    change (pre ++ (k, g) :: s') with (pre ++ [(k, g)] ++ s'). rewrite app_assoc. rewrite IH.
    + now rewrite <- app_assoc.
    + exact E2.
    + rewrite map_app, <- app_assoc. exact ND.
Qed.
Theorem annotate_is_source_inplace : forall meta fgs0 mol, NoDup (node_keys meta) -> map fst fgs0 = node_keys meta ->
  fragids_modelled mol ->
  gen_annotate_fragments meta fgs0 mol = (new <- GraphOps.annotate_fragments meta mol ;; Ok (new, meta)).
Proof.
  intros meta fgs0 mol ND K FM. rewrite annotate_is_source by exact FM.
  destruct (GraphOps.annotate_fragments meta mol) as [new|e] eqn:E; cbn [bind]; [|reflexivity].
  pose proof (annotate_keys meta mol new E) as KN.
  pose proof (fg_fold_replace new [] fgs0) as R. cbn [app map] in R. rewrite R; [reflexivity|congruence|now rewrite KN].
Qed.

(** ================================================================== set_atom_names_atomistic (with a coarse graph) *)
(** ---- element ++ str(index) determines a non-negative index *)
Lemma st_digit_val_char d : (d < 10)%nat -> digit_val (digit_char d) = d.
Proof. intros H. do 10 (destruct d as [|d]; [reflexivity|]). lia. Qed.
Lemma st_nat_digits_val fuel : forall n acc, (n < fuel)%nat -> digits_val 0 (nat_digits fuel n acc) = digits_val (Z.of_nat n) acc.
Proof.
  induction fuel as [|f IH]; intros n acc H; [lia|]. cbn [nat_digits].
  assert ((n mod 10 < 10)%nat) as Hm by (apply Nat.mod_upper_bound; lia).
  destruct (Nat.ltb_spec n 10) as [Hl|Hl].
  - cbn [digits_val]. rewrite st_digit_val_char by exact Hm. rewrite Nat.mod_small by exact Hl. f_equal; lia.
  - assert ((n / 10 < f)%nat) as Hd by (assert (n / 10 < n)%nat by (apply Nat.div_lt; lia); lia).
    rewrite (IH (n / 10)%nat _ Hd). cbn [digits_val]. rewrite st_digit_val_char by exact Hm. f_equal.
    pose proof (Nat.div_mod n 10 ltac:(lia)). try lia.
Qed.
Lemma st_str_of_nat_val n : digits_val 0 (str_of_nat n) = Z.of_nat n.
Proof. unfold str_of_nat. rewrite st_nat_digits_val by lia. reflexivity. Qed.
Lemma label_inj_nonneg e i j : 0 <= i -> 0 <= j -> atom_label e i = atom_label e j -> i = j.
Proof.
  unfold atom_label. intros Hi Hj H. apply app_inv_head in H.
  assert (S1 : forall z, 0 <= z -> str_of_Z z = str_of_nat (Z.to_nat z)) by (intros z Hz; destruct z; [reflexivity|reflexivity|lia]).
  rewrite (S1 i Hi), (S1 j Hj) in H. apply (f_equal (digits_val 0)) in H. rewrite !st_str_of_nat_val in H. lia.
Qed.

(** ---- the fuel of the name search never runs out (pigeonhole), so any larger fuel gives the same index *)
Lemma bump_mono used e : forall f idx i k, bump_idx f used e idx = Ok i -> bump_idx (f + k) used e idx = Ok i.
Proof.
  induction f as [|f IH]; intros idx i k H; cbn in H; [discriminate|]. cbn [Nat.add bump_idx].
  destruct (name_taken used (atom_label e idx)); [now apply IH|exact H].
Qed.
Lemma bump_err used e : forall f idx x, bump_idx f used e idx = Err x ->
  forall j, (j < f)%nat -> name_taken used (atom_label e (idx + Z.of_nat j)) = true.
Proof.
  induction f as [|f IH]; intros idx x H j Hj; [lia|]. cbn in H.
  destruct (name_taken used (atom_label e idx)) eqn:T; [|discriminate].
  destruct j as [|j]; [now rewrite Z.add_0_r|].
  replace (idx + Z.of_nat (Datatypes.S j)) with (idx + 1 + Z.of_nat j) by lia. apply (IH _ _ H). lia.
Qed.
Lemma name_taken_in used nm : name_taken used nm = true -> In (VStr nm) used.
Proof.
  unfold name_taken. intros H. apply existsb_exists in H as [x [Hx E]]. apply simple_eqb in E; [now subst|exact I].
Qed.
Lemma bump_total used e idx f : 0 <= idx -> (length used < f)%nat -> exists i, bump_idx f used e idx = Ok i.
Proof.
  intros Hi Hf. destruct (bump_idx f used e idx) as [i|x] eqn:E; [now exists i|]. exfalso.
  pose proof (bump_err used e f idx x E) as T.
  set (L := map (fun j => VStr (atom_label e (idx + Z.of_nat j))) (seq 0 f)).
  assert (ND : NoDup L).
  { subst L. apply FinFun.Injective_map_NoDup; [|apply seq_NoDup].
    intros a b H. inversion H as [H1]. apply label_inj_nonneg in H1; lia. }
  assert (IN : incl L used).
  { subst L. intros v Hv. apply in_map_iff in Hv as [j [<- Hj]]. apply in_seq in Hj. apply name_taken_in, T. lia. }
  pose proof (NoDup_incl_length ND IN) as LE. subst L. rewrite map_length, seq_length in LE. lia.
Qed.
Lemma bump_any_fuel used e idx k : 0 <= idx ->
  bump_idx (Datatypes.S (length used + k)) used e idx = bump_idx (Datatypes.S (length used)) used e idx.
Proof.
  intros Hi. destruct (bump_total used e idx (Datatypes.S (length used)) Hi ltac:(lia)) as [i E]. rewrite E.
  replace (Datatypes.S (length used + k)) with (Datatypes.S (length used) + k)%nat by lia. now apply bump_mono.
Qed.
Lemma bump_spec_st used e : forall f idx i, bump_idx f used e idx = Ok i -> idx <= i /\ name_taken used (atom_label e i) = false.
Proof.
  induction f as [|f IH]; intros idx i H; cbn in H; [discriminate|].
  destruct (name_taken used (atom_label e idx)) eqn:T.
  - apply IH in H. split; [lia|tauto].
  - inversion H. subst. split; [lia|exact T].
Qed.

Lemma while_bump (taken : list pyval) (e : pystr) (cond : Z * pystr -> bool) (body : Z * pystr -> res (Z * pystr)) :
  (forall i nm, body (i, nm) = Ok (i + 1, atom_label e (i + 1))) -> (forall i nm, cond (i, nm) = name_taken taken nm) ->
  forall fuel idx, py_while fuel cond body (idx, atom_label e idx) = (i <- bump_idx fuel taken e idx ;; Ok (i, atom_label e i)).
Proof.
  intros B C. induction fuel as [|f IH]; intros idx; cbn [py_while bump_idx bind]; [reflexivity|].
  rewrite C. destruct (name_taken taken (atom_label e idx)); [|reflexivity]. rewrite B. cbn [bind]. apply IH.
Qed.

Lemma name_taken_strs l nm : name_taken (map VStr l) nm = sset_mem nm l.
Proof. unfold name_taken, sset_mem. induction l as [|x r IH]; [reflexivity|]. cbn [map existsb]. rewrite IH. reflexivity. Qed.
Lemma name_taken_app a b nm : name_taken (a ++ b) nm = name_taken a nm || name_taken b nm.
Proof. unfold name_taken. apply existsb_app. Qed.
Lemma ltb_len n : Z.ltb 1 (Z.of_nat n) = Nat.ltb 1 n.
Proof. destruct (Z.ltb_spec 1 (Z.of_nat n)), (Nat.ltb_spec 1 n); try reflexivity; lia. Qed.
Lemma node_attrs_has g k a : node_attrs g k = Ok a -> has_node g k = true.
Proof. unfold node_attrs, has_node. destruct (gfind k g); [reflexivity|discriminate]. Qed.
Lemma fg_get_set_same k g s : fg_get k (fg_set k g s) = Some g.
Proof.
  induction s as [|[k' g'] r IH]; cbn; [now rewrite Z.eqb_refl|].
  destruct (Z.eqb k k') eqn:E; cbn; rewrite E; [reflexivity|exact IH].
Qed.
Lemma fg_get_set_other k k' g s : k <> k' -> fg_get k (fg_set k' g s) = fg_get k s.
Proof.
  intros N. induction s as [|[k2 g2] r IH]; cbn.
  - destruct (Z.eqb_spec k k'); [contradiction|reflexivity].
  - destruct (Z.eqb_spec k' k2) as [->|N2]; cbn.
    + destruct (Z.eqb_spec k k2); [contradiction|reflexivity].
    + destruct (Z.eqb k k2); [reflexivity|exact IH].
Qed.
Lemma keys_set_attr g k a v : node_keys (set_node_attr g k a v) = node_keys g.
Proof. unfold set_node_attr. now apply st_keys_gupdate. Qed.

(** ---- one atom *)
Definition names_inner (x1 : graph) (x4 : pyval) (x12 : list pyval) :=
  (fun (st_ : Z * graph * list Z * list pystr * fgraphs) (it_ : Z) => let '(x13, x0, x9, x10, x2) := st_ in let x7 := it_ in
  '(x13, x0, x9, x10) <- (if (negb (zset_mem x7 x9)) then (t37_ <- nx_node_attrs x0 x7 ;; t38_ <- py_len_pv (attrs_get t37_ (S "fragid") (VList [])) ;; let x14 := (Z.ltb (1) t38_) in
  t39_ <- nx_node_attrs x0 x7 ;; t40_ <- attrs_getitem t39_ (S "element") ;; t41_ <- py_add_pv_str t40_ (str_of_Z x13) ;; let x15 := t41_ in
  '(x13, x15) <- py_while (Datatypes.S (length x12 + length x10)) (fun st_ => let '(x13, x15) := st_ in ((pvset_mem_str x15 x12) || (x14 && (sset_mem x15 x10)))) (fun st_ => let '(x13, x15) := st_ in
  let x13 := (x13 + (1)) in
  t42_ <- nx_node_attrs x0 x7 ;; t43_ <- attrs_getitem t42_ (S "element") ;; t44_ <- py_add_pv_str t43_ (str_of_Z x13) ;; let x15 := t44_ in
  Ok (x13, x15)) (x13, x15) ;;
  x0 <- nx_set_node_item x0 x7 (S "atomname") (VStr x15) ;;
  let x9 := set_add_int x9 x7 in
  x10 <- (if x14 then (let x10 := set_add_str x10 x15 in
  Ok (x10)) else (Ok (x10))) ;;
  Ok (x13, x0, x9, x10)) else (Ok (x13, x0, x9, x10))) ;;
  let x13 := (x13 + (1)) in
  x2 <- (if (nx_truthy x1) then (t45_ <- nx_node_attrs x0 x7 ;; t46_ <- attrs_getitem t45_ (S "atomname") ;; let x15 := t46_ in
  t47_ <- py_node_key x4 ;; x2 <- nx_set_store_node_item x1 x2 t47_ x7 (S "atomname") x15 ;;
  Ok (x2)) else (Ok (x2))) ;;
  Ok (x13, x0, x9, x10, x2)).

(** the naming part alone (what the source does when the atom is not named yet) against the model *)
Definition fresh_part (x12 : list pyval) (x13 : Z) (x0 : graph) (x9 : list Z) (x10 : list pystr) (x7 : Z) :=
  (t37_ <- nx_node_attrs x0 x7 ;; t38_ <- py_len_pv (attrs_get t37_ (S "fragid") (VList [])) ;; let x14 := (Z.ltb (1) t38_) in
  t39_ <- nx_node_attrs x0 x7 ;; t40_ <- attrs_getitem t39_ (S "element") ;; t41_ <- py_add_pv_str t40_ (str_of_Z x13) ;; let x15 := t41_ in
  '(x13, x15) <- py_while (Datatypes.S (length x12 + length x10)) (fun st_ => let '(x13, x15) := st_ in ((pvset_mem_str x15 x12) || (x14 && (sset_mem x15 x10)))) (fun st_ => let '(x13, x15) := st_ in
  let x13 := (x13 + (1)) in
  t42_ <- nx_node_attrs x0 x7 ;; t43_ <- attrs_getitem t42_ (S "element") ;; t44_ <- py_add_pv_str t43_ (str_of_Z x13) ;; let x15 := t44_ in
  Ok (x13, x15)) (x13, x15) ;;
  x0 <- nx_set_node_item x0 x7 (S "atomname") (VStr x15) ;;
  let x9 := set_add_int x9 x7 in
  x10 <- (if x14 then (let x10 := set_add_str x10 x15 in
  Ok (x10)) else (Ok (x10))) ;;
  Ok (x13, x0, x9, x10)).
Definition model_fresh (used : list pyval) (idx : Z) (mol : graph) (named : list Z) (shn : list pyval) (node : Z) :=
  (a <- node_attrs mol node ;;
   sh <- fragid_shared a ;;
   el <- of_option (aget (S "element") a) EKey ;;
   e <- as_str el ;;
   let taken := if sh then used ++ shn else used in
   i <- bump_idx (Datatypes.S (length taken)) taken e idx ;;
   let nm := VStr (atom_label e i) in
   Ok (set_node_attr mol node (S "atomname") nm, node :: named, (if sh then nm :: shn else shn), i)).

Lemma shared_prim a : (t38_ <- py_len_pv (attrs_get a (S "fragid") (VList [])) ;; Ok (Z.ltb 1 t38_)) = fragid_shared a.
Proof.
  unfold fragid_shared, attrs_get. destruct (aget (S "fragid") a) as [v|]; [|reflexivity].
  destruct v; cbn; try reflexivity; now rewrite ltb_len.
Qed.

Lemma fresh_spec used idx mol named shn' node : 0 <= idx -> zset_mem node named = false ->
  match model_fresh used idx mol named (map VStr shn') node with
  | Ok (mol1, named1, shn1, i) => exists shn1', fresh_part used idx mol named shn' node = Ok (i, mol1, named1, shn1')
                                   /\ shn1 = map VStr shn1' /\ idx <= i
  | Err e => fresh_part used idx mol named shn' node = Err e
  end.
Proof.
  intros Hi Hn. unfold model_fresh, fresh_part, nx_node_attrs.
  destruct (node_attrs mol node) as [a|x] eqn:NA; cbn [bind]; [|reflexivity].
  rewrite <- shared_prim. destruct (py_len_pv _) as [len|x]; cbn [bind]; [|reflexivity].
  set (sh := Z.ltb 1 len). unfold attrs_getitem.
  destruct (aget (S "element") a) as [el|] eqn:EL; cbn [of_option bind]; [|reflexivity].
  unfold py_add_pv_str. destruct (as_str el) as [e|x] eqn:AS; cbn [bind]; [|reflexivity].
  set (taken := if sh then used ++ map VStr shn' else used).
  change (e ++ str_of_Z idx) with (atom_label e idx).
  rewrite (while_bump taken e).
  2:{ intros i nm. reflexivity. }
  2:{ intros i nm. subst taken. destruct sh; cbn [andb].
      - now rewrite name_taken_app, name_taken_strs.
      - now rewrite orb_false_r. }
  assert (F : bump_idx (Datatypes.S (length used + length shn')) taken e idx = bump_idx (Datatypes.S (length taken)) taken e idx).
  { subst taken. destruct sh.
    - now rewrite app_length, map_length.
    - now apply bump_any_fuel. }
  rewrite F. destruct (bump_idx (Datatypes.S (length taken)) taken e idx) as [i|x] eqn:B; cbn [bind]; [|reflexivity].
  apply bump_spec_st in B as [Li T]. unfold nx_set_node_item. rewrite (node_attrs_has _ _ _ NA). cbn [bind].
  unfold set_add_int. rewrite Hn. destruct sh.
  - exists (atom_label e i :: shn'). subst taken. rewrite name_taken_app, name_taken_strs in T. apply orb_false_iff in T as [_ T].
    unfold set_add_str. rewrite T. cbn [bind map]. repeat split. exact Li.
  - exists shn'. cbn [bind]. repeat split. exact Li.
Qed.

(** the state of the source's loop and the state of the model's *)
Definition R5 (st : Z * graph * list Z * list pystr * fgraphs) : nstate * Z :=
  let '(idx, mol, named, shn, fgs) := st in ((mol, fgs, named, map VStr shn), idx).

Lemma names_inner_spec meta mn used idx mol named shn' fgs g node :
  nx_truthy meta = true -> has_node meta mn = true -> fg_get mn fgs = Some g -> has_node g node = true -> 0 <= idx ->
  match name_node mn used (R5 (idx, mol, named, shn', fgs)) node with
  | Ok st1' => exists idx1 mol1 named1 shn1 fgs1 g1,
        names_inner meta (VInt mn) used (idx, mol, named, shn', fgs) node = Ok (idx1, mol1, named1, shn1, fgs1)
        /\ R5 (idx1, mol1, named1, shn1, fgs1) = st1' /\ 0 <= idx1
        /\ fg_get mn fgs1 = Some g1 /\ node_keys g1 = node_keys g /\ (forall k, k <> mn -> fg_get k fgs1 = fg_get k fgs)
  | Err e => names_inner meta (VInt mn) used (idx, mol, named, shn', fgs) node = Err e
  end.
Proof.
  intros TM HM FG HG Hi. unfold name_node, R5, names_inner.
  change (zin_l node named) with (zset_mem node named).
  assert (TAIL : forall idx1 mol1 named1 shn1,
    0 <= idx1 ->
    match (a1 <- node_attrs mol1 node ;; nm <- of_option (aget (S "atomname") a1) EKey ;;
           let fgs1 := match fg_get mn fgs with Some g => fg_set mn (set_node_attr g node (S "atomname") nm) fgs | None => fgs end in
           Ok (mol1, fgs1, named1, map VStr shn1, idx1 + 1)) with
    | Ok st1' => exists idx2 mol2 named2 shn2 fgs1 g1,
        (let x13 := idx1 + 1 in
         x2 <- (if nx_truthy meta then (t45_ <- nx_node_attrs mol1 node ;; t46_ <- attrs_getitem t45_ (S "atomname") ;; let x15 := t46_ in
                  t47_ <- py_node_key (VInt mn) ;; x2 <- nx_set_store_node_item meta fgs t47_ node (S "atomname") x15 ;; Ok x2) else Ok fgs) ;;
         Ok (x13, mol1, named1, shn1, x2)) = Ok (idx2, mol2, named2, shn2, fgs1)
        /\ R5 (idx2, mol2, named2, shn2, fgs1) = st1' /\ 0 <= idx2
        /\ fg_get mn fgs1 = Some g1 /\ node_keys g1 = node_keys g /\ (forall k, k <> mn -> fg_get k fgs1 = fg_get k fgs)
    | Err e => (let x13 := idx1 + 1 in
         x2 <- (if nx_truthy meta then (t45_ <- nx_node_attrs mol1 node ;; t46_ <- attrs_getitem t45_ (S "atomname") ;; let x15 := t46_ in
                  t47_ <- py_node_key (VInt mn) ;; x2 <- nx_set_store_node_item meta fgs t47_ node (S "atomname") x15 ;; Ok x2) else Ok fgs) ;;
         Ok (x13, mol1, named1, shn1, x2)) = Err e
    end).
  { intros idx1 mol1 named1 shn1 H1. rewrite TM. unfold nx_node_attrs, attrs_getitem.
    destruct (node_attrs mol1 node) as [a1|x]; cbn [bind]; [|reflexivity].
    destruct (aget (S "atomname") a1) as [nm|]; cbn [of_option bind]; [|reflexivity].
    cbn [py_node_key bind]. unfold nx_set_store_node_item. rewrite HM, FG, HG. cbn [bind].
    exists (idx1 + 1), mol1, named1, shn1, (fg_set mn (set_node_attr g node (S "atomname") nm) fgs), (set_node_attr g node (S "atomname") nm).
    repeat split; [lia|apply fg_get_set_same|apply keys_set_attr|]. intros k Hk. now apply fg_get_set_other. }
  destruct (zset_mem node named) eqn:Hn; cbn [negb].
  - cbn [bind]. apply TAIL. exact Hi.
  - pose proof (fresh_spec used idx mol named shn' node Hi Hn) as F. unfold model_fresh in F.
    change (t37_ <- nx_node_attrs mol node ;; _) with (fresh_part used idx mol named shn' node).
    match goal with |- match bind ?m _ with _ => _ end => destruct m as [[[[mol1 named1] shn1] i]|x] eqn:MF end.
    + destruct F as [shn1' [F [-> Li]]]. rewrite F. cbn [bind]. apply TAIL. lia.
    + rewrite F. reflexivity.
Qed.

(** ---- one coarse node *)
Lemma names_inner_loop meta mn used g : nx_truthy meta = true -> has_node meta mn = true ->
  forall ns idx mol named shn' fgs g0, fg_get mn fgs = Some g0 -> node_keys g0 = node_keys g -> incl ns (node_keys g) -> 0 <= idx ->
  match fold_res (name_node mn used) ns (R5 (idx, mol, named, shn', fgs)) with
  | Ok r' => exists idx1 mol1 named1 shn1 fgs1 g1,
        fold_res (names_inner meta (VInt mn) used) ns (idx, mol, named, shn', fgs) = Ok (idx1, mol1, named1, shn1, fgs1)
        /\ R5 (idx1, mol1, named1, shn1, fgs1) = r'
        /\ fg_get mn fgs1 = Some g1 /\ node_keys g1 = node_keys g /\ (forall k, k <> mn -> fg_get k fgs1 = fg_get k fgs)
  | Err e => fold_res (names_inner meta (VInt mn) used) ns (idx, mol, named, shn', fgs) = Err e
  end.
Proof.
  intros TM HM. induction ns as [|n r IH]; intros idx mol named shn' fgs g0 FG KG IN Hi; cbn [fold_res].
  - exists idx, mol, named, shn', fgs, g0. repeat split; assumption.
  - assert (HG : has_node g0 n = true) by (apply st_gfind_has; rewrite KG; apply IN; now left).
    pose proof (names_inner_spec meta mn used idx mol named shn' fgs g0 n TM HM FG HG Hi) as S1.
    destruct (name_node mn used (R5 (idx, mol, named, shn', fgs)) n) as [st1'|e]; cbn [bind].
    + destruct S1 as [idx1 [mol1 [named1 [shn1 [fgs1 [g1 [E1 [R1 [Hi1 [FG1 [KG1 O1]]]]]]]]]]]. rewrite E1. cbn [bind]. subst st1'.
      specialize (IH idx1 mol1 named1 shn1 fgs1 g1 FG1 (eq_trans KG1 KG) (fun x Hx => IN x (or_intror Hx)) Hi1).
      destruct (fold_res (name_node mn used) r _) as [r'|e].
      * destruct IH as [idx2 [mol2 [named2 [shn2 [fgs2 [g2 [E2 [R2 [FG2 [KG2 O2]]]]]]]]]].
        exists idx2, mol2, named2, shn2, fgs2, g2. repeat split; try assumption. intros k Hk. now rewrite O2, O1.
      * exact IH.
    + rewrite S1. reflexivity.
Qed.

Definition names_group (x1 : graph) :=
  (fun (st_ : graph * list Z * list pystr * fgraphs) (it_ : pyval * list Z) => let '(x0, x9, x10, x2) := st_ in let '(x4, x11) := it_ in
  t36_ <- map_res (fun it_ => let x7 := it_ in t34_ <- nx_node_attrs x0 x7 ;; t35_ <- attrs_getitem t34_ (S "atomname") ;; Ok t35_) (filter (fun it_ => let x7 := it_ in (zset_mem x7 x9)) x11) ;; let x12 := t36_ in
  let x13 := (0) in
  '(x13, x0, x9, x10, x2) <- fold_res (names_inner x1 x4 x12) x11 (x13, x0, x9, x10, x2) ;;
  Ok (x0, x9, x10, x2)).
Definition R4 (st : graph * list Z * list pystr * fgraphs) : nstate :=
  let '(mol, named, shn, fgs) := st in (mol, fgs, named, map VStr shn).

Lemma map_res_ext {A B} (f g : A -> res B) l : (forall x, f x = g x) -> GraphOps.map_res f l = GraphOps.map_res g l.
Proof. intros H. induction l as [|x r IH]; cbn; [reflexivity|]. now rewrite H, IH. Qed.
Lemma used_prim mol named ns :
  GraphOps.map_res (fun it_ => let x7 := it_ in t34_ <- nx_node_attrs mol x7 ;; t35_ <- attrs_getitem t34_ (S "atomname") ;; Ok t35_)
                   (filter (fun it_ => let x7 := it_ in zset_mem x7 named) ns) = used_names mol named ns.
Proof.
  unfold used_names. apply map_res_ext. intros n. unfold nx_node_attrs, attrs_getitem.
  destruct (node_attrs mol n) as [a|]; cbn [bind]; [|reflexivity]. now destruct (aget (S "atomname") a).
Qed.

Lemma names_group_spec meta mn ns g mol named shn' fgs : nx_truthy meta = true -> has_node meta mn = true ->
  fg_get mn fgs = Some g -> incl ns (node_keys g) ->
  match name_group2 (R4 (mol, named, shn', fgs)) (mn, ns) with
  | Ok r' => exists mol1 named1 shn1 fgs1 g1,
        names_group meta (mol, named, shn', fgs) (VInt mn, ns) = Ok (mol1, named1, shn1, fgs1)
        /\ R4 (mol1, named1, shn1, fgs1) = r'
        /\ fg_get mn fgs1 = Some g1 /\ node_keys g1 = node_keys g /\ (forall k, k <> mn -> fg_get k fgs1 = fg_get k fgs)
  | Err e => names_group meta (mol, named, shn', fgs) (VInt mn, ns) = Err e
  end.
Proof.
  intros TM HM FG IN. unfold name_group2, R4, names_group. cbn [fst snd]. rewrite used_prim.
  destruct (used_names mol named ns) as [used|e]; cbn [bind]; [|reflexivity].
  pose proof (names_inner_loop meta mn used g TM HM ns 0 mol named shn' fgs g FG eq_refl IN ltac:(lia)) as L. unfold R5 in L at 1.
  destruct (fold_res (name_node mn used) ns _) as [r'|e]; cbn [bind].
  - destruct L as [idx1 [mol1 [named1 [shn1 [fgs1 [g1 [E1 [R1 [FG1 [KG1 O1]]]]]]]]]]. rewrite E1. cbn [bind].
    exists mol1, named1, shn1, fgs1, g1. subst r'. repeat split; assumption.
  - rewrite L. reflexivity.
Qed.

(** ---- all coarse nodes *)
Definition inj_groups (gs : list (Z * list Z)) : ddl Z := map (fun kl => (VInt (fst kl), snd kl)) gs.
Definition groups_ok (meta : graph) (fgs : fgraphs) (gs : list (Z * list Z)) : Prop :=
  forall mn ns, In (mn, ns) gs -> has_node meta mn = true /\ exists g, fg_get mn fgs = Some g /\ incl ns (node_keys g).

Lemma names_outer meta : nx_truthy meta = true -> forall gs mol named shn' fgs, groups_ok meta fgs gs ->
  match fold_res name_group2 gs (R4 (mol, named, shn', fgs)) with
  | Ok r' => exists st1, fold_res (names_group meta) (inj_groups gs) (mol, named, shn', fgs) = Ok st1 /\ R4 st1 = r'
  | Err e => fold_res (names_group meta) (inj_groups gs) (mol, named, shn', fgs) = Err e
  end.
Proof.
  intros TM. induction gs as [|[mn ns] r IH]; intros mol named shn' fgs OK; cbn [fold_res inj_groups map fst snd].
  - exists (mol, named, shn', fgs). split; reflexivity.
  - destruct (OK mn ns (or_introl eq_refl)) as [HM [g [FG IN]]].
    pose proof (names_group_spec meta mn ns g mol named shn' fgs TM HM FG IN) as S1.
    destruct (name_group2 (R4 (mol, named, shn', fgs)) (mn, ns)) as [r1|e]; cbn [bind].
    + destruct S1 as [mol1 [named1 [shn1 [fgs1 [g1 [E1 [R1 [FG1 [KG1 O1]]]]]]]]]. rewrite E1. cbn [bind]. subst r1.
      fold (inj_groups r). apply IH. intros mn' ns' H'. destruct (OK mn' ns' (or_intror H')) as [HM' [g' [FG' IN']]]. split; [exact HM'|].
      destruct (Z.eq_dec mn' mn) as [->|N].
      * exists g1. split; [exact FG1|]. rewrite KG1. rewrite FG in FG'. inversion FG'. subst g'. exact IN'.
      * exists g'. split; [now rewrite O1|exact IN'].
    + rewrite S1. reflexivity.
Qed.

(** ---- the groups: fraglist built from the coarse nodes' fragment graphs *)
Definition names_collect (x1 : graph) (x2 : fgraphs) :=
  (fun (st_ : ddl Z) (it_ : Z) => let x3 := st_ in let x4 := it_ in
  t3_ <- nx_get_node_graph x1 x2 x4 ;; let x5 := t3_ in
  x3 <- (if (opt_graph_truthy x5) then (t4_ <- opt_graph_nodes x5 ;; x3 <- ddl_extend x3 (VInt x4) t4_ ;;
  Ok (x3)) else (Ok (x3))) ;;
  Ok (x3)).
Lemma ddl_upd_fresh {A} (d : list (Z * list A)) k (xs : list A) : ~ In k (map fst d) ->
  ddl_upd (map (fun kl => (VInt (fst kl), snd kl)) d) (VInt k) xs = map (fun kl => (VInt (fst kl), snd kl)) (d ++ [(k, xs)]).
Proof.
  induction d as [|[k' l] r IH]; cbn [map ddl_upd fst snd app]; intros H; [reflexivity|].
  cbn [pyval_eqb]. destruct (Z.eqb_spec k k') as [->|N]; [exfalso; apply H; now left|].
  rewrite IH; [reflexivity|]. intros X. apply H. now right.
Qed.
Lemma fraglist_keys l fgs : incl (map fst (fraglist_of l fgs)) (node_keys l).
Proof.
  unfold fraglist_of. induction l as [|m r IH]; cbn; [intros x []|]. rewrite map_app. intros x Hx. apply in_app_or in Hx as [Hx|Hx].
  - destruct (fg_get (nk m) fgs) as [g|]; [|contradiction]. destruct g; [contradiction|]. destruct Hx as [<-|[]]. now left.
  - right. now apply IH.
Qed.
Lemma names_collect_loop meta fgs : forall l acc, (forall m, In m l -> has_node meta (nk m) = true) ->
  NoDup (map fst acc ++ node_keys l) ->
  fold_res (names_collect meta fgs) (node_keys l) (inj_groups acc) = Ok (inj_groups (acc ++ fraglist_of l fgs)).
Proof.
  induction l as [|m r IH]; intros acc HM ND; cbn [node_keys map fold_res].
  - unfold fraglist_of. cbn. now rewrite app_nil_r.
  - unfold names_collect at 1, nx_get_node_graph. rewrite (HM m (or_introl eq_refl)). cbn [bind].
    fold (node_keys r). unfold fraglist_of. cbn [flat_map]. fold (fraglist_of r fgs).
    assert (NI : ~ In (nk m) (map fst acc)).
    { cbn [node_keys map] in ND. apply NoDup_remove_2 in ND. intros X. apply ND. apply in_or_app. now left. }
    assert (ND0 : NoDup (map fst acc ++ node_keys r)).
    { cbn [node_keys map] in ND. now apply NoDup_remove_1 in ND. }
    assert (ND1 : forall xs, NoDup (map fst (acc ++ [(nk m, xs)]) ++ node_keys r)).
    { intros xs. rewrite map_app, <- app_assoc. exact ND. }
    destruct (fg_get (nk m) fgs) as [g|]; cbn [opt_graph_truthy].
    + destruct g as [|n0 g']; cbn [nx_truthy].
      * cbn [bind app]. apply IH; [intros; apply HM; now right|exact ND0].
      * cbn [opt_graph_nodes bind]. unfold ddl_extend. cbn [py_hashable bind].
        unfold inj_groups at 1. rewrite ddl_upd_fresh by exact NI. fold (inj_groups (acc ++ [(nk m, node_keys (n0 :: g'))])).
        rewrite IH; [now rewrite <- app_assoc|intros; apply HM; now right|apply ND1].
    + cbn [bind app]. apply IH; [intros; apply HM; now right|exact ND0].
Qed.

Lemma fraglist_ok meta fgs : groups_ok meta fgs (fraglist_of meta fgs).
Proof.
  intros mn ns H. unfold fraglist_of in H. apply in_flat_map in H as [m [Hm H]].
  destruct (fg_get (nk m) fgs) as [g|] eqn:FG; [|contradiction]. destruct g as [|n0 g'] eqn:EG; [contradiction|].
  destruct H as [H|[]]. inversion H. subst mn ns. split; [now apply has_node_in|]. exists (n0 :: g'). split; [exact FG|]. intros x Hx. exact Hx.
Qed.

Lemma if_true {A} (b : bool) (x y : A) : b = true -> (if b then x else y) = x.
Proof. now intros ->. Qed.
(** with a (non-empty) coarse graph whose keys are distinct: the source names the atoms as the model does *)
Theorem names_is_source : forall mol meta fgs, meta <> [] -> NoDup (node_keys meta) ->
  gen_set_atom_names_atomistic mol meta fgs = GraphOps.set_atom_names mol meta fgs.
Proof.
  intros mol meta fgs NE ND. unfold gen_set_atom_names_atomistic, GraphOps.set_atom_names.
  assert (TM : nx_truthy meta = true) by (destruct meta; [contradiction|reflexivity]).
  cbv zeta. rewrite (if_true _ _ _ TM).
  match goal with |- bind (bind (fold_res ?f _ _) _) _ = _ => change f with (names_collect meta fgs) end.
  unfold nx_nodes. pose proof (names_collect_loop meta fgs meta [] (has_node_in meta) ND) as C. cbn [inj_groups map app] in C.
  rewrite C. cbn [bind]. unfold dict_items.
  match goal with |- bind (fold_res ?f _ _) _ = _ => change f with (names_group meta) end.
  pose proof (names_outer meta TM (fraglist_of meta fgs) mol [] [] fgs (fraglist_ok meta fgs)) as O. unfold R4 in O at 1. cbn [map] in O.
  fold (inj_groups (fraglist_of meta fgs)).
  destruct (fold_res name_group2 (fraglist_of meta fgs) (mol, fgs, [], [])) as [r'|e]; cbn [bind].
  - destruct O as [[[[mol1 named1] shn1] fgs1] [E R]]. rewrite E. cbn [bind]. subst r'. reflexivity.
  - rewrite O. reflexivity.
Qed.

(** ================================================================== set_atom_names_atomistic(molecule) without a coarse graph *)
(** the 'fragid' values on which model and source agree: a one-element list/tuple holds an int (or something
    unhashable: TypeError in both); a str or dict has a len() in Python (the model answers TypeError) *)
Definition nometa_fragid_ok (v : pyval) : Prop :=
  match v with
  | VList [x] | VTup [x] => (exists k, x = VInt k) \/ py_hashable x = false
  | VStr _ | VDict _ => False
  | _ => True
  end.
Definition nometa_modelled (mol : graph) : Prop :=
  all_na (fun d => match aget (S "fragid") d with Some v => nometa_fragid_ok v | None => True end) mol.

(** ---- grouping *)
Definition nm_collect :=
  (fun (st_ : ddl Z) (it_ : Z * pyval) => let x2 := st_ in let '(x4, x5) := it_ in
  t3_ <- py_len_pv x5 ;; _ <- py_assert (Z.eqb t3_ (1)) ;;
  t4_ <- py_getitem_pv x5 0 ;; x2 <- ddl_append x2 t4_ x4 ;;
  Ok (x2)).
Definition nm_group_model :=
  (fun (acc : list (Z * list Z)) (kv : Z * pyval) =>
     l <- as_list (snd kv) ;;
     match l with
     | [VInt k] => Ok (group_add k (fst kv) acc)
     | [_] => Err EType
     | _ => Err EAssert
     end).
Lemma ddl_upd_group k n acc : ddl_upd (inj_groups acc) (VInt k) [n] = inj_groups (group_add k n acc).
Proof.
  unfold inj_groups. induction acc as [|[k' l] r IH]; cbn [map ddl_upd group_add fst snd]; [reflexivity|].
  cbn [pyval_eqb]. destruct (Z.eqb k k'); cbn [map fst snd]; [reflexivity|]. now rewrite IH.
Qed.
Lemma nm_collect_step acc n v : nometa_fragid_ok v ->
  nm_collect (inj_groups acc) (n, v) = match nm_group_model acc (n, v) with Ok acc' => Ok (inj_groups acc') | Err e => Err e end.
Proof.
  intros H. unfold nm_collect, nm_group_model. cbn [fst snd].
  destruct v as [| | | |s|l|l|d]; cbn in H |- *; try reflexivity; try contradiction.
  - destruct l as [|x [|y r]]; cbn; [reflexivity| |].
    + destruct H as [[k ->]|H].
      * cbn. now rewrite ddl_upd_group.
      * unfold ddl_append. rewrite H. destruct x; try (cbn in H; discriminate H); reflexivity.
    + destruct (Pos.of_succ_nat (length r)); cbn; now destruct x.
  - destruct l as [|x [|y r]]; cbn; [reflexivity| |].
    + destruct H as [[k ->]|H].
      * cbn. now rewrite ddl_upd_group.
      * unfold ddl_append. rewrite H. destruct x; try (cbn in H; discriminate H); reflexivity.
    + destruct (Pos.of_succ_nat (length r)); cbn; now destruct x.
Qed.
Lemma nm_collect_loop items : Forall (fun kv : Z * pyval => nometa_fragid_ok (snd kv)) items -> forall acc,
  fold_res nm_collect items (inj_groups acc)
  = match fold_res nm_group_model items acc with Ok grp => Ok (inj_groups grp) | Err e => Err e end.
Proof.
  induction 1 as [|[n v] r Hv Hr IH]; intros acc; cbn [fold_res]; [reflexivity|].
  rewrite (nm_collect_step acc n v Hv). destruct (nm_group_model acc (n, v)) as [acc'|e]; cbn [bind]; [apply IH|reflexivity].
Qed.

(** what the groups contain *)
Lemma group_add_perm k n acc : Permutation (concat (map snd (group_add k n acc))) (n :: concat (map snd acc)).
Proof.
  induction acc as [|[k' l] r IH]; cbn [group_add map snd concat]; [now rewrite app_nil_r|].
  destruct (Z.eqb k k'); cbn [map snd concat].
  - rewrite <- app_assoc. cbn [app]. rewrite <- Permutation_middle. reflexivity.
  - rewrite IH. rewrite Permutation_middle. reflexivity.
Qed.
Lemma nm_groups_facts items : forall acc grp, fold_res nm_group_model items acc = Ok grp ->
  Permutation (concat (map snd grp)) (concat (map snd acc) ++ map fst items)
  /\ Forall (fun kv : Z * pyval => py_len_pv (snd kv) = Ok 1) items.
Proof.
  induction items as [|[n v] r IH]; intros acc grp H; cbn [fold_res] in H.
  - inversion H. subst. cbn. rewrite app_nil_r. split; [reflexivity|constructor].
  - destruct (nm_group_model acc (n, v)) as [acc'|] eqn:E; cbn [bind] in H; [|discriminate].
    destruct (IH _ _ H) as [P F]. unfold nm_group_model in E. cbn [fst snd] in E.
    destruct (as_list v) as [l|] eqn:AL; cbn [bind] in E; [|discriminate].
    destruct l as [|x [|y l']]; [discriminate| |destruct x; discriminate]. destruct x; try discriminate. inversion E. subst acc'. split.
    + rewrite P. rewrite group_add_perm. cbn [map fst app]. rewrite <- Permutation_middle. reflexivity.
    + constructor; [|exact F]. cbn [snd]. destruct v; try discriminate; cbn in AL; inversion AL; subst; reflexivity.
Qed.

(** ---- naming *)
Definition nm_inner (x10 : list pyval) :=
  (fun (st_ : Z * graph * list Z * list pystr) (it_ : Z) => let '(x11, x0, x6, x7) := st_ in let x4 := it_ in
  '(x11, x0, x6, x7) <- (if (negb (zset_mem x4 x6)) then (t27_ <- nx_node_attrs x0 x4 ;; t28_ <- py_len_pv (attrs_get t27_ (S "fragid") (VList [])) ;; let x12 := (Z.ltb (1) t28_) in
  t29_ <- nx_node_attrs x0 x4 ;; t30_ <- attrs_getitem t29_ (S "element") ;; t31_ <- py_add_pv_str t30_ (str_of_Z x11) ;; let x13 := t31_ in
  '(x11, x13) <- py_while (Datatypes.S (length x10 + length x7)) (fun st_ => let '(x11, x13) := st_ in ((pvset_mem_str x13 x10) || (x12 && (sset_mem x13 x7)))) (fun st_ => let '(x11, x13) := st_ in
  let x11 := (x11 + (1)) in
  t32_ <- nx_node_attrs x0 x4 ;; t33_ <- attrs_getitem t32_ (S "element") ;; t34_ <- py_add_pv_str t33_ (str_of_Z x11) ;; let x13 := t34_ in
  Ok (x11, x13)) (x11, x13) ;;
  x0 <- nx_set_node_item x0 x4 (S "atomname") (VStr x13) ;;
  let x6 := set_add_int x6 x4 in
  x7 <- (if x12 then (let x7 := set_add_str x7 x13 in
  Ok (x7)) else (Ok (x7))) ;;
  Ok (x11, x0, x6, x7)) else (Ok (x11, x0, x6, x7))) ;;
  let x11 := (x11 + (1)) in
  Ok (x11, x0, x6, x7)).

(** the atom carries a 'fragid' of length one *)
Definition fid1 (g : graph) (n : Z) : Prop :=
  exists a v, node_attrs g n = Ok a /\ aget (S "fragid") a = Some v /\ py_len_pv v = Ok 1.
Lemma node_attrs_set g n' k x n :
  node_attrs (set_node_attr g n' k x) n
  = match node_attrs g n with Ok a => Ok (if Z.eqb n n' then aset k x a else a) | Err e => Err e end.
Proof.
  unfold node_attrs, set_node_attr. induction g as [|m r IH]; cbn [gupdate gfind]; [reflexivity|].
  destruct (Z.eqb (nk m) n') eqn:E1; cbn [gfind nk na].
  - destruct (Z.eqb (nk m) n) eqn:E2.
    + apply Z.eqb_eq in E1, E2. assert (X : n = n') by congruence. rewrite <- X. rewrite Z.eqb_refl. reflexivity.
    + destruct (gfind n r); [|reflexivity]. destruct (Z.eqb_spec n n') as [E3|_]; [|reflexivity]. subst n'. congruence.
  - destruct (Z.eqb (nk m) n) eqn:E2.
    + destruct (Z.eqb_spec n n') as [E3|_]; [|reflexivity]. subst n'. congruence.
    + exact IH.
Qed.
Lemma fid1_set g n' x n : fid1 g n -> fid1 (set_node_attr g n' (S "atomname") x) n.
Proof.
  intros [a [v [NA [FG L]]]]. unfold fid1. rewrite node_attrs_set, NA.
  destruct (Z.eqb n n').
  - exists (aset (S "atomname") x a), v. split; [reflexivity|]. split; [|exact L].
    rewrite aget_aset_other; [exact FG|]. intros X. apply (f_equal (@length _)) in X. cbn in X. discriminate.
  - exists a, v. split; [reflexivity|]. split; [exact FG|exact L].
Qed.
Lemma zset_mem_false n l : ~ In n l -> zset_mem n l = false.
Proof.
  unfold zset_mem. intros H. destruct (existsb (Z.eqb n) l) eqn:E; [|reflexivity].
  apply existsb_exists in E as [x [Hx E]]. apply Z.eqb_eq in E. subst. contradiction.
Qed.

Lemma nm_inner_step idx mol named shn n : fid1 mol n -> ~ In n named ->
  match name_one (-1) (mol, []) (idx, n) with
  | Ok (mol', fgs') => nm_inner [] (idx, mol, named, shn) n = Ok (idx + 1, mol', n :: named, shn) /\ fgs' = []
                       /\ (forall k, fid1 mol k -> fid1 mol' k)
  | Err e => nm_inner [] (idx, mol, named, shn) n = Err e
  end.
Proof.
  intros [a [v [NA [FG L]]]] NI. unfold name_one, nm_inner, nx_node_attrs. rewrite (zset_mem_false n named NI). cbn [negb].
  rewrite NA. cbn [bind]. unfold attrs_get. rewrite FG, L. cbn [bind]. change (Z.ltb 1 1) with false.
  unfold attrs_getitem. destruct (aget (S "element") a) as [el|]; cbn [of_option bind]; [|reflexivity].
  unfold py_add_pv_str. destruct (as_str el) as [e|x]; cbn [bind]; [|reflexivity].
  cbn [py_while pvset_mem_str existsb orb andb bind fg_get].
  unfold nx_set_node_item. rewrite (node_attrs_has _ _ _ NA). cbn [bind]. unfold set_add_int. rewrite (zset_mem_false n named NI).
  repeat split. intros k Hk. now apply fid1_set.
Qed.

Lemma nm_inner_loop : forall ns idx mol named shn, (forall n, In n ns -> fid1 mol n) -> (forall n, In n ns -> ~ In n named) -> NoDup ns ->
  match fold_res (name_one (-1)) (enumerate_from idx ns) (mol, []) with
  | Ok (mol', fgs') => fold_res (nm_inner []) ns (idx, mol, named, shn) = Ok (idx + Z.of_nat (length ns), mol', rev ns ++ named, shn)
                       /\ fgs' = [] /\ (forall k, fid1 mol k -> fid1 mol' k)
  | Err e => fold_res (nm_inner []) ns (idx, mol, named, shn) = Err e
  end.
Proof.
  induction ns as [|n r IH]; intros idx mol named shn F NI ND.
  - cbn. repeat split; [now rewrite Z.add_0_r|auto].
  - rewrite enumerate_from_cons. cbn [fold_res].
    pose proof (nm_inner_step idx mol named shn n (F n (or_introl eq_refl)) (NI n (or_introl eq_refl))) as S1.
    destruct (name_one (-1) (mol, []) (idx, n)) as [[mol1 fgs1]|e]; cbn [bind].
    + destruct S1 as [E1 [-> K1]]. rewrite E1. cbn [bind]. inversion ND as [|? ? Hn Hr]; subst.
      specialize (IH (idx + 1) mol1 (n :: named) shn (fun x Hx => K1 x (F x (or_intror Hx)))).
      assert (NI' : forall x, In x r -> ~ In x (n :: named)).
      { intros x Hx [<-|X]; [contradiction|]. exact (NI x (or_intror Hx) X). }
      specialize (IH NI' Hr).
      match type of IH with match ?F with _ => _ end => match goal with |- match ?G with _ => _ end => change G with F end end.
      destruct (fold_res (name_one (-1)) (enumerate_from (idx + 1) r) (mol1, [])) as [[mol2 fgs2]|e].
      * destruct IH as [E2 [-> K2]]. rewrite E2. repeat split.
        -- replace (idx + Z.of_nat (length (n :: r))) with (idx + 1 + Z.of_nat (length r)) by (cbn [length]; lia).
           cbn [rev]. rewrite <- app_assoc. reflexivity.
        -- intros k Hk. apply K2, K1, Hk.
      * exact IH.
    + rewrite S1. reflexivity.
Qed.

Definition nm_group :=
  (fun (st_ : graph * list Z * list pystr) (it_ : pyval * list Z) => let '(x0, x6, x7) := st_ in let '(x8, x9) := it_ in
  t26_ <- map_res (fun it_ => let x4 := it_ in t24_ <- nx_node_attrs x0 x4 ;; t25_ <- attrs_getitem t24_ (S "atomname") ;; Ok t25_) (filter (fun it_ => let x4 := it_ in (zset_mem x4 x6)) x9) ;; let x10 := t26_ in
  let x11 := (0) in
  '(x11, x0, x6, x7) <- fold_res (nm_inner x10) x9 (x11, x0, x6, x7) ;;
  Ok (x0, x6, x7)).
Lemma filter_none {A} (f : A -> bool) l : (forall x, In x l -> f x = false) -> filter f l = [].
Proof. induction l as [|x r IH]; cbn; intros H; [reflexivity|]. rewrite (H x (or_introl eq_refl)). apply IH. intros; apply H; now right. Qed.

Lemma nodup_app_parts {A} (a b : list A) : NoDup (a ++ b) -> NoDup a /\ NoDup b /\ (forall x, In x a -> In x b -> False).
Proof.
  induction a as [|y r IH]; cbn; intros H; [repeat split; [constructor|exact H|intros x []]|].
  inversion H as [|? ? Hy Hr]; subst. destruct (IH Hr) as [Ha [Hb D]]. repeat split.
  - constructor; [|exact Ha]. intros X. apply Hy, in_or_app. now left.
  - exact Hb.
  - intros x [<-|Hx] Hb'; [apply Hy, in_or_app; now right|exact (D x Hx Hb')].
Qed.
Lemma nm_outer : forall grp mol named shn,
  (forall n, In n (concat (map snd grp)) -> fid1 mol n /\ ~ In n named) -> NoDup (concat (map snd grp)) ->
  match fold_res (fun st g => fold_res (name_one (-1)) (enumerate_from 0 (snd g)) st) grp (mol, []) with
  | Ok (mol', fgs') => exists named' shn', fold_res nm_group (inj_groups grp) (mol, named, shn) = Ok (mol', named', shn') /\ fgs' = []
  | Err e => fold_res nm_group (inj_groups grp) (mol, named, shn) = Err e
  end.
Proof.
  induction grp as [|[k ns] r IH]; intros mol named shn F ND; cbn [fold_res inj_groups map fst snd].
  - exists named, shn. split; reflexivity.
  - cbn [map snd concat] in F, ND.
    assert (Fn : forall n, In n ns -> fid1 mol n) by (intros n Hn; apply F, in_or_app; now left).
    assert (Nn : forall n, In n ns -> ~ In n named) by (intros n Hn; apply F, in_or_app; now left).
    assert (G : nm_group (mol, named, shn) (VInt k, ns)
                = ('(x11, x0, x6, x7) <- fold_res (nm_inner []) ns (0, mol, named, shn) ;; Ok (x0, x6, x7))).
    { unfold nm_group. rewrite filter_none by (intros x Hx; apply zset_mem_false, Nn, Hx). reflexivity. }
    rewrite G. clear G.
    destruct (nodup_app_parts _ _ ND) as [NDa [NDb DJ]].
    pose proof (nm_inner_loop ns 0 mol named shn Fn Nn NDa) as L.
    destruct (fold_res (name_one (-1)) (enumerate_from 0 ns) (mol, [])) as [[mol1 fgs1]|e]; cbn [bind].
    + destruct L as [E1 [-> K1]]. rewrite E1. cbn [bind]. fold (inj_groups r). apply IH.
      * intros n Hn. split; [apply K1, F, in_or_app; now right|].
        intros X. apply in_app_or in X as [X|X].
        -- apply in_rev in X. exact (DJ n X Hn).
        -- exact (proj2 (F n (in_or_app _ _ _ (or_intror Hn))) X).
      * exact NDb.
    + rewrite L. reflexivity.
Qed.

Lemma attr_lookup g a n v : NoDup (node_keys g) -> In (n, v) (get_node_attributes g a) ->
  exists d, node_attrs g n = Ok d /\ aget a d = Some v.
Proof.
  intros ND H. unfold get_node_attributes in H. apply in_flat_map in H as [m [Hm H]].
  destruct (aget a (na m)) as [w|] eqn:E; [|contradiction]. destruct H as [H|[]]. inversion H. subst n w.
  exists (na m). unfold node_attrs. now rewrite (st_gfind_nodup g m ND Hm).
Qed.

Theorem names_nometa_is_source : forall mol, NoDup (node_keys mol) -> nometa_modelled mol ->
  gen_set_atom_names_atomistic_nometa mol = GraphOps.set_atom_names_nometa mol.
Proof.
  intros mol ND NM. unfold gen_set_atom_names_atomistic_nometa, GraphOps.set_atom_names_nometa, nx_get_node_attributes, dict_items.
  cbv zeta.
  match goal with |- bind (fold_res ?f _ _) _ = _ => change f with nm_collect end.
  match goal with |- _ = bind (fold_res ?f _ _) _ => change f with nm_group_model end.
  pose proof (nm_collect_loop (get_node_attributes mol (S "fragid")) (all_na_attr nometa_fragid_ok _ mol NM) []) as C.
  cbn [inj_groups map] in C. rewrite C. clear C.
  destruct (fold_res nm_group_model (get_node_attributes mol (S "fragid")) []) as [grp|e] eqn:EG; cbn [bind]; [|reflexivity].
  destruct (nm_groups_facts _ _ _ EG) as [P L1]. cbn [map concat app] in P.
  match goal with |- bind (fold_res ?f _ _) _ = _ => change f with nm_group end.
  assert (NDg : NoDup (concat (map snd grp))).
  { apply (Permutation_NoDup (Permutation_sym P)). now apply attr_keys_nodup. }
  assert (Fg : forall n, In n (concat (map snd grp)) -> fid1 mol n /\ ~ In n []).
  { intros n Hn. split; [|intros []]. apply (Permutation_in _ P) in Hn. apply in_map_iff in Hn as [[n' v] [<- Hv]].
    destruct (attr_lookup mol _ n' v ND Hv) as [d [NA FG]]. exists d, v. repeat split; try assumption.
    rewrite Forall_forall in L1. exact (L1 _ Hv). }
  pose proof (nm_outer grp mol [] [] Fg NDg) as O.
  match type of O with match ?F with _ => _ end => match goal with |- _ = bind ?G _ => change G with F end end.
  match type of O with match ?F with _ => _ end => destruct F as [[mol' fgs']|e] end; cbn [bind].
  - destruct O as [named' [shn' [E _]]]. rewrite E. reflexivity.
  - rewrite O. reflexivity.
Qed.
