(** NameClosed: the CLOSED FORM of set_atom_names_atomistic when no atom belongs to several fragments (every fragid list has at
    most one entry - no squash operator joined two fragments): the i-th atom of a coarse node, in the order of the coarse node's
    graph, is named element ++ str(i).  Holds for the graphs every all-atom step returns ([step_names_closed_form]). *)
From Coq Require Import String.
From Coq Require Import List Ascii ZArith Bool Lia Sorting.Permutation.
From CGV Require Import Base.PyBase Base.PyVal Base.NxGraph Resolve.Bonding Resolve.GraphOps Resolve.Pipeline Resolve.PipelineFull
     Resolve.MapProofs Resolve.CopyProofs Resolve.FragidProofs Resolve.NameProofs Resolve.NameStep Resolve.SingleFragid.
From CGV Require Hydro.Hydrogens Hydro.Squash Stereo.EzImpl Stereo.EzProofs.
Import ListNotations.
Open Scope Z_scope.

(** ---------------------------------------------------------------- the list model on fresh, unshared atoms *)
Fixpoint labels (idx : Z) (es : list pystr) : list pyval :=
  match es with [] => [] | e :: r => VStr (atom_label e idx) :: labels (idx + 1) r end.
Lemma assign_plain shn : forall es idx, assign [] shn idx (map (fun e => New e false) es) = Ok (labels idx es, shn).
Proof.
  induction es as [|e r IH]; intros idx; [reflexivity|]. cbn [map assign taken_of length bump_idx name_taken existsb].
  cbn [bind]. rewrite IH. reflexivity.
Qed.
Lemma labels_nth : forall es idx i e, nth_error es i = Some e -> nth_error (labels idx es) i = Some (VStr (atom_label e (idx + Z.of_nat i))).
Proof.
  induction es as [|x r IH]; intros idx i e H; [destruct i; discriminate|]. destruct i as [|i]; cbn [nth_error labels] in *.
  - inversion H. now rewrite Z.add_0_r.
  - rewrite (IH _ _ _ H). do 3 f_equal. lia.
Qed.

(** ---------------------------------------------------------------- one coarse node *)
Definition elem (mol : graph) (n : Z) (e : pystr) : Prop := exists el, node_get mol n (S "element") = Some el /\ as_str el = Ok e.
(** the fragid of n does not read as "several fragments" (no fragid, or fewer than two entries) *)
Definition unshared (mol : graph) (n : Z) : Prop := forall a, node_attrs mol n = Ok a -> fragid_shared a <> Ok true.

Lemma descs_plain mol named : forall nodes ds, (forall n, In n nodes -> ~ In n named) -> (forall n, In n nodes -> unshared mol n) ->
  GraphOps.map_res (desc_of mol named) nodes = Ok ds ->
  exists es, ds = map (fun e => New e false) es /\ Forall2 (elem mol) nodes es.
Proof.
  induction nodes as [|n r IH]; intros ds Hnn Hu H; cbn [GraphOps.map_res] in H.
  - apply ok_inj2 in H. subst. exists []. split; [reflexivity|constructor].
  - destruct (desc_of mol named n) as [d|] eqn:Ed; cbn [bind] in H; [|discriminate H].
    destruct (GraphOps.map_res (desc_of mol named) r) as [ds'|] eqn:Er; cbn [bind] in H; [|discriminate H]. apply ok_inj2 in H. subst ds.
    destruct (IH ds' (fun x Hx => Hnn x (or_intror Hx)) (fun x Hx => Hu x (or_intror Hx)) eq_refl) as [es [-> F]].
    unfold desc_of in Ed. destruct (node_attrs mol n) as [a|] eqn:Ea; cbn [bind] in Ed; [|discriminate Ed].
    assert (zin_l n named = false) as Hz.
    { destruct (zin_l n named) eqn:Z; [|reflexivity]. apply zin_l_In in Z. exfalso. apply (Hnn n (or_introl eq_refl) Z). }
    rewrite Hz in Ed. destruct (fragid_shared a) as [[|]|] eqn:Es; cbn [bind] in Ed; [exfalso; exact (Hu n (or_introl eq_refl) a Ea Es)| |discriminate Ed].
    destruct (aget (S "element") a) as [el|] eqn:Eel; cbn [of_option bind] in Ed; [|discriminate Ed].
    destruct (as_str el) as [e|] eqn:Ee; cbn [bind] in Ed; [|discriminate Ed]. apply ok_inj2 in Ed. subst d.
    exists (e :: es). split; [reflexivity|]. constructor; [|exact F]. exists el. split; [|exact Ee].
    unfold node_get. unfold node_attrs in Ea. destruct (gfind n mol); [|discriminate Ea]. apply ok_inj2 in Ea. now subst a.
Qed.

Lemma group_closed mol fgs named shn mn nodes mol1 fgs1 named1 shn1 :
  name_group2 (mol, fgs, named, shn) (mn, nodes) = Ok (mol1, fgs1, named1, shn1) -> NoDup nodes ->
  (forall n, In n nodes -> ~ In n named) -> (forall n, In n nodes -> unshared mol n) ->
  exists es, Forall2 (elem mol) nodes es /\ map (name_in mol1) nodes = map Some (labels 0 es) /\
    (forall k, ~ In k nodes -> node_attrs mol1 k = node_attrs mol k) /\ (forall k, In k named1 <-> In k named \/ In k nodes).
Proof.
  intros H Hn Hnn Hu. unfold name_group2 in H. cbn [fst snd] in H.
  assert (used_names mol named nodes = Ok []) as Hused.
  { unfold used_names. assert (filter (fun n => zin_l n named) nodes = []) as ->; [|reflexivity].
    clear -Hnn. induction nodes as [|n r IH]; [reflexivity|]. cbn [filter].
    destruct (zin_l n named) eqn:Z; [apply zin_l_In in Z; exfalso; apply (Hnn n (or_introl eq_refl) Z)|].
    apply IH. intros x Hx. apply Hnn. now right. }
  rewrite Hused in H. cbn [bind] in H.
  match type of H with bind ?x _ = _ => destruct x as [[[[[m f] nd] sn] ix]|] eqn:Ef end; cbn [bind] in H; [|discriminate H].
  apply ok_inj2 in H. cbn [fst] in H. injection H as -> -> -> ->.
  destruct (inner_fold mn [] nodes mol fgs named shn 0 mol1 fgs1 named1 shn1 ix Hn Ef) as (ds & vs & Hds & Has & Hnames & Hkeep & Hnamed).
  destruct (descs_plain mol named nodes ds Hnn Hu Hds) as [es [-> F]].
  rewrite assign_plain in Has. apply ok_inj2 in Has. injection Has as <- _.
  exists es. auto.
Qed.

Lemma nodup_app_parts {A} (a b : list A) : NoDup (a ++ b) -> NoDup a /\ NoDup b /\ forall x, In x a -> ~ In x b.
Proof.
  induction a as [|x r IH]; cbn; intros H; [repeat split; [constructor|exact H|intros x []]|]. inversion H as [|? ? Hx Hr]; subst.
  destruct (IH Hr) as (Na & Nb & D). repeat split; [constructor; [intros X; apply Hx; apply in_or_app; now left|exact Na]|exact Nb|].
  intros y [<-|Hy]; [intros X; apply Hx; apply in_or_app; now right|now apply D].
Qed.

(** ---------------------------------------------------------------- all coarse nodes *)
Theorem groups_closed : forall groups st st', GraphOps.fold_res name_group2 groups st = Ok st' ->
  NoDup (concat (map snd groups)) ->
  (forall n, In n (concat (map snd groups)) -> ~ In n (ns_named st)) ->
  (forall n, In n (concat (map snd groups)) -> unshared (ns_mol st) n) ->
  (forall g, In g groups -> exists es, Forall2 (elem (ns_mol st)) (snd g) es /\ map (name_in (ns_mol st')) (snd g) = map Some (labels 0 es)) /\
  (forall k, ~ In k (concat (map snd groups)) -> node_attrs (ns_mol st') k = node_attrs (ns_mol st) k).
Proof.
  induction groups as [|[mn nodes] r IH]; intros st st' H Hnd Hnn Hu.
  - cbn in H. apply ok_inj2 in H. subst. split; [intros g []|auto].
  - cbn [GraphOps.fold_res] in H. destruct (name_group2 st (mn, nodes)) as [st1|] eqn:E1; cbn [bind] in H; [|discriminate H].
    destruct st as [[[mol fgs] named] shn], st1 as [[[mol1 fgs1] named1] shn1]. unfold ns_mol, ns_named in *. cbn [fst snd map concat] in *.
    destruct (nodup_app_parts _ _ Hnd) as (Hnd0 & Hndr & Hdisj).
    destruct (group_closed mol fgs named shn mn nodes mol1 fgs1 named1 shn1 E1 Hnd0
               (fun n Hn => Hnn n (in_or_app _ _ _ (or_introl Hn))) (fun n Hn => Hu n (in_or_app _ _ _ (or_introl Hn))))
      as (es & F & Hnames & Hkeep & Hnamed).
    assert (forall n, In n (concat (map snd r)) -> ~ In n nodes) as Hdisj' by (intros n Hn Hx; exact (Hdisj n Hx Hn)).
    destruct (IH (mol1, fgs1, named1, shn1) st' H Hndr) as [Gr Kr].
    + intros n Hn Hx. unfold ns_named in Hx. cbn [fst snd] in Hx. apply Hnamed in Hx as [Hx|Hx]; [exact (Hnn n (in_or_app _ _ _ (or_intror Hn)) Hx)|exact (Hdisj' n Hn Hx)].
    + intros n Hn a Ha. unfold ns_mol in Ha. cbn [fst] in Ha. rewrite (Hkeep n (Hdisj' n Hn)) in Ha. exact (Hu n (in_or_app _ _ _ (or_intror Hn)) a Ha).
    + unfold ns_mol, ns_named in *. cbn [fst snd] in *. split.
      * intros g [<-|Hg].
        -- exists es. split; [exact F|]. cbn [snd]. rewrite <- Hnames. apply map_ext_in. intros k Hk. unfold name_in, node_get.
           pose proof (Kr k (Hdisj k Hk)) as X. unfold node_attrs in X. destruct (gfind k (fst (fst (fst st')))), (gfind k mol1); try discriminate X; [inversion X; reflexivity|reflexivity].
        -- destruct (Gr g Hg) as [es' [F' N']]. exists es'. split; [|exact N'].
           assert (forall n, In n (snd g) -> ~ In n nodes) as Hg'.
           { intros n Hn. apply Hdisj'. apply in_concat. exists (snd g). split; [now apply in_map|exact Hn]. }
           clear -F' Hkeep Hg'. induction F' as [|n e l l' Hne F' IHF]; constructor.
           ++ destruct Hne as [el [Hel He]]. exists el. split; [|exact He]. unfold node_get in *.
              pose proof (Hkeep n (Hg' n (or_introl eq_refl))) as X. unfold node_attrs in X. destruct (gfind n mol1), (gfind n mol); try discriminate X; [injection X as Y; rewrite <- Y; exact Hel|exact Hel].
           ++ apply IHF. intros x Hx. apply Hg'. now right.
      * intros k Hk. rewrite Kr by (intros X; apply Hk; apply in_or_app; now right). apply Hkeep. intros X. apply Hk. apply in_or_app. now left.
Qed.

(** ---------------------------------------------------------------- set_atom_names and the returned step *)
Lemma shared_ok_disjoint F : (forall n, ~ is_sh F n) -> forall groups seen, shared_ok F seen groups ->
  (forall g, In g groups -> NoDup (snd g)) -> NoDup seen -> NoDup (seen ++ concat (map snd groups)).
Proof.
  intros Hno. induction groups as [|g r IH]; intros seen Hs Hn Hseen; cbn [map concat]; [now rewrite app_nil_r|].
  destruct Hs as [Hs0 Hsr]. rewrite app_assoc. apply IH; [exact Hsr|intros x Hx; apply Hn; now right|].
  apply NoDup_app_intro; [exact Hseen|apply Hn; now left|]. intros x Hx Hg. exact (Hno x (Hs0 x Hg Hx)).
Qed.
Lemma unshared_not_sh mol n : unshared mol n -> ~ is_sh (fun k => node_get mol k (S "fragid")) n.
Proof.
  intros Hu Hs. unfold is_sh, node_get in Hs. unfold unshared, node_attrs in Hu. destruct (gfind n mol) as [r|]; [|discriminate Hs].
  apply (Hu (na r) eq_refl). now rewrite fragid_shared_fsv.
Qed.

Theorem names_closed_form mol meta fgs mol' fgs' : set_atom_names mol meta fgs = Ok (mol', fgs') ->
  NoDup (concat (map snd (fraglist_of meta fgs))) -> (forall n, unshared mol n) ->
  forall g, In g (fraglist_of meta fgs) -> exists es, Forall2 (elem mol) (snd g) es /\ map (name_in mol') (snd g) = map Some (labels 0 es).
Proof.
  intros H Hnd Hu g Hg. unfold set_atom_names in H.
  destruct (GraphOps.fold_res name_group2 (fraglist_of meta fgs) (mol, fgs, [], [])) as [r|] eqn:Ef; cbn [bind] in H; [|discriminate H].
  apply ok_inj2 in H. injection H as <- _.
  destruct (groups_closed _ _ _ Ef Hnd) as [G _]; [intros n _ []|intros n _; apply Hu|]. exact (G g Hg).
Qed.

(** the graphs an all-atom step RETURNS: if no atom of the sorted fine graph belongs to several fragments, the i-th atom of every
    returned coarse node is named element ++ str(i) *)
Theorem step_names_closed_form legacy fd prev car fo :
  resolve_step_full legacy true fd prev car = Ok fo -> NoDup (node_keys prev) -> (forall n, unshared (fo_m6 fo) n) ->
  forall k g, In (k, g) (fo_fgs fo) ->
  exists es, Forall2 (elem (fo_m6 fo)) (node_keys g) es /\ map (name_in (fo_mol fo)) (node_keys g) = map Some (labels 0 es).
Proof.
  intros H Hp Hu.
  assert (NoDup (node_keys (fo_m6 fo)) /\ node_keys (fo_meta fo) = node_keys prev) as [Hn Hm].
  { revert H. unfold resolve_step_full.
    destruct (resolve_disconnected fd _) as [[m1 fg1]|]; cbn [bind]; [|discriminate].
    destruct (bonding_step legacy true _ m1 fg1) as [[m2 fg2]|]; cbn [bind]; [|discriminate].
    destruct (Squash.squash_atoms m2) as [m3|]; cbn [bind]; [|discriminate].
    destruct (Hydrogens.rebuild_h_atoms_default m3 car) as [m4|]; cbn [bind]; [|discriminate].
    destruct (sort_nodes_by_attr m4) as [m5|] eqn:E5; cbn [bind]; [|discriminate].
    destruct (EzImpl.annotate_ez_isomers_cgsmiles m5) as [m6|] eqn:E6; cbn [bind]; [|discriminate].
    destruct (annotate_fragments _ m6) as [f6|]; cbn [bind]; [|discriminate].
    destruct (set_atom_names m6 _ f6) as [[m7 f7]|]; cbn [bind]; [|discriminate].
    intros H. apply ok_inj2 in H. subst fo. cbn [fo_m6 fo_meta]. split; [|apply keys_set_nodes_from].
    rewrite (proj2 (EzProofs.chiral_stays_annotate m5 m6 0 E6)). exact (sort_nodup _ _ E5). }
  rewrite <- Hm in Hp. intros k g Hg. destruct (aa_tail _ _ _ _ _ H) as [fgs0 [Ea Es]].
  destruct (annotate_groups_any _ _ _ Ea Hn Hp) as [Hnd Hsh].
  pose proof (shared_ok_disjoint _ (fun n => unshared_not_sh _ n (Hu n)) _ [] Hsh Hnd (NoDup_nil _)) as Hdis. cbn [app] in Hdis.
  pose proof (names_closed_form _ _ _ _ _ Es Hdis Hu) as U.
  pose proof (set_atom_names_keys _ _ _ _ _ Es) as Hk. pose proof (frag_keys _ _ _ Ea) as Hfk.
  assert (In (k, node_keys g) (fg_keys fgs0)) as Hin.
  { rewrite <- Hk. unfold fg_keys. apply in_map_iff. exists (k, g). auto. }
  unfold fg_keys in Hin. apply in_map_iff in Hin as [[k0 g0] [Eq Hg0]]. cbn [fst snd] in Eq. injection Eq as -> Eq2. rewrite <- Eq2.
  destruct (node_keys g0) as [|x r] eqn:En; [exists []; split; [constructor|reflexivity]|]. rewrite <- En.
  apply (U (k, node_keys g0)). unfold fraglist_of. apply in_flat_map.
  assert (In k (node_keys (fo_meta fo))) as Hkm by (rewrite <- Hfk; apply in_map_iff; exists (k, g0); auto).
  unfold node_keys in Hkm. apply in_map_iff in Hkm as [mn [Ek Hmn]]. exists mn. split; [exact Hmn|].
  rewrite Ek, (fg_get_of_in k g0 fgs0); [|rewrite Hfk; exact Hp|exact Hg0].
  destruct g0 as [|y t]; [discriminate En|now left].
Qed.
(** position by position *)
Corollary step_name_at legacy fd prev car fo :
  resolve_step_full legacy true fd prev car = Ok fo -> NoDup (node_keys prev) -> (forall n, unshared (fo_m6 fo) n) ->
  forall k g i n, In (k, g) (fo_fgs fo) -> nth_error (node_keys g) i = Some n ->
  exists e, elem (fo_m6 fo) n e /\ name_in (fo_mol fo) n = Some (VStr (atom_label e (Z.of_nat i))).
Proof.
  intros H Hp Hu k g i n Hg Hi. destruct (step_names_closed_form _ _ _ _ _ H Hp Hu k g Hg) as [es [F N]].
  assert (exists e, nth_error es i = Some e /\ elem (fo_m6 fo) n e) as [e [He Hel]].
  { clear N. revert i Hi. induction F as [|x e l l' Hxe F IH]; intros i Hi; [destruct i; discriminate|].
    destruct i as [|i]; cbn [nth_error] in *; [inversion Hi; subst; eauto|now apply IH]. }
  exists e. split; [exact Hel|].
  assert (nth_error (map (name_in (fo_mol fo)) (node_keys g)) i = Some (name_in (fo_mol fo) n)) as A by (now apply map_nth_error).
  rewrite N in A. rewrite (map_nth_error Some i _ (labels_nth es 0 i e He)) in A. rewrite Z.add_0_l in A. congruence.
Qed.

(** ---------------------------------------------------------------- steps that squash nothing *)
(** no hypothesis about intermediate graphs is left: for every all-atom end-to-end step that squashes nothing (fo_m3 = fo_m2), on a
    coarse graph with distinct keys and a well-formed dictionary, the i-th atom of every returned coarse node is named
    element ++ str(i) *)
Theorem step_name_at_nosquash legacy fd prev car fo : wf_dict fd -> wf_attrs fd ->
  resolve_step_full legacy true fd prev car = Ok fo -> fo_m3 fo = fo_m2 fo -> NoDup (node_keys prev) ->
  forall k g i n, In (k, g) (fo_fgs fo) -> nth_error (node_keys g) i = Some n ->
  exists e, elem (fo_m6 fo) n e /\ name_in (fo_mol fo) n = Some (VStr (atom_label e (Z.of_nat i))).
Proof.
  intros Hw Hwa H Hs Hp. apply (step_name_at _ _ _ _ _ H Hp). intros n a Ha.
  exact (step_not_shared _ _ _ _ _ _ Hw Hwa H Hs n a Ha).
Qed.
