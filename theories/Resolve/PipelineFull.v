(** PipelineFull: one resolution step modelled END TO END.  The three stages that Pipeline.resolve_step
    takes from recorded graphs are here the models of their own components:
      squash_atoms                   Hydro/Squash.v      (repaired code, faithful contracted_nodes)
      rebuild_h_atoms                Hydro/Hydrogens.v   (only pysmiles' correct_aromatic_rings is a transcript
                                                          [car], guarded by Hydrogens.transcript_contract)
      annotate_ez_isomers_cgsmiles   Stereo/EzImpl.v
    so that an all-atom step needs ONE transcript (the graph right after the aromaticity correction) and a
    coarse step none.  No proofs. *)
From Coq Require Import String.
From Coq Require Import List Ascii ZArith Bool Lia.
From CGV Require Import Base.PyBase Base.PyVal Base.NxGraph Resolve.Bonding Resolve.GraphOps Resolve.Pipeline.
From CGV Require Hydro.Hydrogens Hydro.Squash Stereo.EzImpl.
Import ListNotations.
Open Scope Z_scope.

Record full_out := {
  fo_meta : graph;
  fo_m2 : graph;      (* after edges_from_bonding_descrpt *)
  fo_m3 : graph;      (* after squash_atoms *)
  fo_m4 : graph;      (* after rebuild_h_atoms (all-atom) *)
  fo_m5 : graph;      (* after sort_nodes_by_attr *)
  fo_m6 : graph;      (* after annotate_ez_isomers_cgsmiles (all-atom) *)
  fo_mol : graph;     (* returned fine graph *)
  fo_fgs : fgraphs    (* returned coarse 'graph' attributes *)
}.

Definition resolve_step_full (legacy all_atom : bool) (fd : fragdict) (prev : graph) (car : option graph)
  : res full_out :=
  let meta := set_nodes_from prev (S "fragname") (get_node_attributes prev (S "atomname")) in
  '(m1, fg1) <- resolve_disconnected fd meta ;;
  '(m2, fg2) <- bonding_step legacy all_atom meta m1 fg1 ;;
  m3 <- Squash.squash_atoms m2 ;;
  m4 <- (if all_atom then Hydrogens.rebuild_h_atoms_default m3 car else Ok m3) ;;
  m5 <- sort_nodes_by_attr m4 ;;
  m6 <- (if all_atom then EzImpl.annotate_ez_isomers_cgsmiles m5 else Ok m5) ;;
  fgs <- annotate_fragments meta m6 ;;
  '(m7, fgs') <- (if all_atom then set_atom_names m6 meta fgs else Ok (m6, fgs)) ;;
  Ok {| fo_meta := meta; fo_m2 := m2; fo_m3 := m3; fo_m4 := m4; fo_m5 := m5; fo_m6 := m6; fo_mol := m7; fo_fgs := fgs' |}.

(** the step in the shape of the abstract driver machine (Resolve/Drivers.v): a level is a fragment
    dictionary with the aromaticity transcript of that level; a molecule is a graph with the 'graph'
    attributes of its nodes (empty for a fine graph that has not been a coarse graph yet) *)
Definition level := (fragdict * option graph)%type.
Definition amol := (graph * fgraphs)%type.
Definition driver_step (legacy : bool) (l : level) (all_atom : bool) (m : amol) : res (amol * amol) :=
  fo <- resolve_step_full legacy all_atom (fst l) (fst m) (snd l) ;;
  Ok ((fo_meta fo, fo_fgs fo), (fo_mol fo, [])).
