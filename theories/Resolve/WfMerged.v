(** WfMerged: the fine graph the instantiation loop and the bonding stage build is a well-formed networkx graph, for ANY fragment
    dictionary and coarse graph: distinct keys, closed symmetric adjacency, no self-loop ([wf_graph], hydro's record), and both
    directions of an edge carry the same attribute dict ([sym_attrs]; networkx stores one dict per edge).  Only the bonding stage
    needs a hypothesis: no bond joins an atom with itself. *)
From Coq Require Import String.
From Coq Require Import List Ascii ZArith Bool Lia Permutation.
From CGV Require Import Base.PyBase Base.PyVal Base.NxGraph Resolve.Bonding Resolve.GraphOps Resolve.MapProofs Resolve.CopyProofs
     Hydro.GraphLemmas Hydro.SquashDefs.
From CGV Require Resolve.NameStep.
From CGV Require Import Compose.GraphFacts Compose.GraphAdj Resolve.EdgeCopyGen.
Import ListNotations.
Open Scope Z_scope.

Definition sym_attrs (g : graph) : Prop := forall a b, edge_attrs g a b = edge_attrs g b a.

(** ---------------------------------------------------------------- add_edge in general (end points may be new) *)
Definition ensure (g : graph) (k : Z) : graph := if has_node g k then g else g ++ [{| nk := k; na := []; nadj := [] |}].
Lemma ensure_has g k : has_node (ensure g k) k = true.
Proof.
  unfold ensure. destruct (has_node g k) eqn:E; [exact E|]. unfold has_node. rewrite gfind_app_fresh.
  destruct (gfind k g); [reflexivity|]. cbn [nk]. now rewrite Z.eqb_refl.
Qed.
Lemma ensure_has_old g k x : has_node g x = true -> has_node (ensure g k) x = true.
Proof. unfold ensure. destruct (has_node g k); [auto|]. unfold has_node. rewrite gfind_app_fresh. destruct (gfind x g); [reflexivity|discriminate]. Qed.
Lemma ensure_edges g k x y : edge_attrs (ensure g k) x y = edge_attrs g x y.
Proof. unfold ensure. destruct (has_node g k); [reflexivity|apply edge_attrs_snoc_empty]. Qed.
Lemma add_edge_pair g u v d :
  let d' := aupdate (match edge_attrs g u v with Ok o => o | Err _ => [] end) d in
  edge_attrs (add_edge g u v d) u v = Ok d' /\ edge_attrs (add_edge g u v d) v u = Ok d'.
Proof.
  cbv zeta. unfold add_edge. fold (ensure g u). fold (ensure (ensure g u) v). set (g2 := ensure (ensure g u) v).
  assert (edge_attrs g2 u v = edge_attrs g u v) as -> by (unfold g2; now rewrite !ensure_edges).
  set (d' := aupdate (match edge_attrs g u v with Ok o => o | Err _ => [] end) d).
  assert (has_node g2 u = true) as Hu by (unfold g2; apply ensure_has_old, ensure_has).
  assert (has_node g2 v = true) as Hv by (unfold g2; apply ensure_has).
  unfold edge_attrs. rewrite !gfind_gupdate by reflexivity. rewrite !Z.eqb_refl. unfold has_node in Hu, Hv.
  destruct (gfind u g2) as [nu|]; [|discriminate Hu]. destruct (gfind v g2) as [nv|]; [|discriminate Hv]. cbn [option_map nadj].
  split.
  - destruct (Z.eqb u v) eqn:E; cbn [option_map nadj]; rewrite ?adj_get_adj_set, ?Z.eqb_refl; try reflexivity.
    apply Z.eqb_eq in E. subst v. now rewrite Z.eqb_refl.
  - destruct (Z.eqb v u) eqn:E; cbn [option_map nadj]; rewrite ?adj_get_adj_set, ?Z.eqb_refl; reflexivity.
Qed.
Lemma has_edge_add_edge_any g u v d x y : has_edge (add_edge g u v d) x y = has_edge g x y || upair x y u v.
Proof.
  rewrite !has_edge_attrs. destruct (upair x y u v) eqn:U.
  - rewrite orb_true_r. destruct (add_edge_pair g u v d) as [P1 P2]. apply upair_true in U. destruct U as [[-> ->]|[-> ->]]; [now rewrite P1|now rewrite P2].
  - rewrite orb_false_r. now rewrite (edge_attrs_add_edge_other g u v d x y U).
Qed.

(** ---------------------------------------------------------------- wf_graph under the three mutators *)
Lemma has_edge_eq g h : (forall x y, edge_attrs h x y = edge_attrs g x y) -> forall x y, has_edge h x y = has_edge g x y.
Proof. intros H x y. now rewrite !has_edge_attrs, H. Qed.
Lemma wf_add_edge g u v d : wf_graph g -> u <> v -> wf_graph (add_edge g u v d).
Proof.
  intros [Hn Hc Hs Hl] N. constructor.
  - now apply NameStep.add_edge_nodup.
  - intros y x H. rewrite has_edge_add_edge_any in H. apply orb_true_iff in H as [H|H].
    + apply MapProofs.has_node_add_edge. left. exact (Hc y x H).
    + apply MapProofs.has_node_add_edge. right. apply upair_true in H. tauto.
  - intros y x. rewrite !has_edge_add_edge_any, (Hs y x). f_equal. apply upair_flip.
  - intros y. rewrite has_edge_add_edge_any, Hl. cbn [orb]. destruct (upair y y u v) eqn:U; [|reflexivity]. apply upair_true in U. exfalso. apply N. destruct U as [[<- <-]|[<- <-]]; reflexivity.
Qed.
Lemma wf_add_node g k a : wf_graph g -> wf_graph (add_node g k a).
Proof.
  intros [Hn Hc Hs Hl]. pose proof (has_edge_eq g (add_node g k a) (edge_attrs_add_node g k a)) as He. constructor.
  - now apply NameStep.add_node_nodup.
  - intros y x H. rewrite He in H. apply MapProofs.has_node_add_node. left. exact (Hc y x H).
  - intros y x. now rewrite !He.
  - intros y. now rewrite He.
Qed.
Lemma wf_set_node_attr g k a v : wf_graph g -> wf_graph (set_node_attr g k a v).
Proof.
  intros [Hn Hc Hs Hl]. pose proof (has_edge_eq g (set_node_attr g k a v) (edge_attrs_set_node_attr g k a v)) as He. constructor.
  - now rewrite keys_set.
  - intros y x H. rewrite He in H. apply gfind_has. rewrite keys_set. apply gfind_has. exact (Hc y x H).
  - intros y x. now rewrite !He.
  - intros y. now rewrite He.
Qed.
Lemma sym_add_edge g u v d : sym_attrs g -> sym_attrs (add_edge g u v d).
Proof.
  intros Hs a b. destruct (upair a b u v) eqn:U.
  - destruct (add_edge_pair g u v d) as [P1 P2]. apply upair_true in U. destruct U as [[-> ->]|[-> ->]]; congruence.
  - rewrite (edge_attrs_add_edge_other g u v d a b U). rewrite (edge_attrs_add_edge_other g u v d b a); [apply Hs|].
    rewrite upair_flip. exact U.
Qed.
Lemma sym_add_node g k a : sym_attrs g -> sym_attrs (add_node g k a).
Proof. intros Hs x y. now rewrite !edge_attrs_add_node. Qed.
Lemma sym_set_node_attr g k a v : sym_attrs g -> sym_attrs (set_node_attr g k a v).
Proof. intros Hs x y. now rewrite !edge_attrs_set_node_attr. Qed.

(** ---------------------------------------------------------------- the stages *)
Definition gok (g : graph) : Prop := wf_graph g /\ sym_attrs g.
Lemma gok_empty : gok gempty.
Proof. split; [constructor; [constructor|intros y x H; discriminate H|reflexivity|reflexivity]|intros a b; reflexivity]. Qed.
Lemma gok_add_node g k a : gok g -> gok (add_node g k a).
Proof. intros [W S0]. split; [now apply wf_add_node|now apply sym_add_node]. Qed.
Lemma gok_set g k a v : gok g -> gok (set_node_attr g k a v).
Proof. intros [W S0]. split; [now apply wf_set_node_attr|now apply sym_set_node_attr]. Qed.
Lemma gok_add_edge g u v d : gok g -> u <> v -> gok (add_edge g u v d).
Proof. intros [W S0] N. split; [now apply wf_add_edge|now apply sym_add_edge]. Qed.

Lemma gok_merge src tgt g corr : gok src -> merge_graphs src tgt = Ok (g, corr) -> gok g.
Proof.
  intros H. unfold merge_graphs. destruct (merge_offsets src) as [[off fo]|]; cbn [bind]; [|discriminate].
  destruct (GraphOps.fold_res _ tgt src) as [src1|] eqn:E1; cbn [bind]; [|discriminate]. intros E. inversion E; subst. clear E.
  apply fold_left_inv.
  - intros acc0 [[u v] d] Hacc. destruct (Z.eqb_spec (map_get (correspondence off tgt) u) (map_get (correspondence off tgt) v)); [exact Hacc|now apply gok_add_edge].
  - eapply (fold_res_inv gok); [|exact H|exact E1]. intros b x b' Hb Eb. cbn in Eb.
    destruct (merge_node _ _ _); cbn in Eb; [|discriminate]. inversion Eb. now apply gok_add_node.
Qed.
Lemma gok_disc_step fd mol fgs mn mol' fgs' : gok mol -> disc_step fd (mol, fgs) mn = Ok (mol', fgs') -> gok mol'.
Proof.
  intros H. unfold disc_step. destruct (aget (S "fragname") (na mn)) as [fv|]; cbn [of_option bind]; [|discriminate].
  destruct (lookup_fragment fd fv) as [[name frag]|].
  - destruct (merge_graphs mol frag) as [[mol1 corr]|] eqn:Em; cbn [bind]; [|discriminate].
    destruct (frag_graph_of mol1 frag corr (nk mn) name); cbn [bind]; [|discriminate]. intros E. inversion E; subst.
    apply fold_left_inv; [intros acc0 x Hacc; now apply gok_set, gok_set|]. eapply gok_merge; eauto.
  - destruct (virtual_ok mn) as [u|e]; cbn; [|intros X; discriminate X]. intros E. inversion E; now subst.
Qed.
(** the disconnected molecule is a well-formed graph with one dict per edge, whatever the dictionary and the coarse graph *)
Theorem gok_disconnected fd meta mol fgs : resolve_disconnected fd meta = Ok (mol, fgs) -> gok mol.
Proof.
  unfold resolve_disconnected. intros E.
  refine (fold_res_inv (fun st => gok (fst st)) (disc_step fd) meta _ (gempty, []) (mol, fgs) _ E).
  - intros [m f] x [m' f'] Hb Eb. cbn in *. eapply gok_disc_step; eauto.
  - exact gok_empty.
Qed.
Lemma gok_apply_bond aa mol b mol' : gok mol -> b_u b <> b_v b -> apply_bond aa mol b = Ok mol' -> gok mol'.
Proof.
  intros H N. unfold apply_bond. pose proof (gok_add_edge mol (b_u b) (b_v b) (bond_attrs b) H N) as H1. destruct aa.
  - apply (fold_res_inv gok); [|exact H1]. intros m n m' Hm.
    destruct (node_get m n (S "element")) as [el|]; cbn [of_option bind]; [|discriminate].
    destruct (pyval_eqb el _); [intros E; inversion E; now subst|].
    destruct (node_get m n (S "hcount")) as [hc|]; cbn [of_option bind]; [|discriminate].
    destruct (dec_hcount _ hc); cbn [bind]; [|discriminate]. intros E. inversion E. now apply gok_set.
  - intros E. inversion E. now subst.
Qed.
(** ... and stays one through the bonding stage as long as no bond joins an atom with itself *)
Theorem gok_bonding legacy aa meta mol fgs mol' fgs' : gok mol -> bonding_step legacy aa meta mol fgs = Ok (mol', fgs') ->
  (forall s1 bonds, bonds_of legacy meta mol fgs = Ok (s1, bonds) -> forall b, In b bonds -> b_u b <> b_v b) -> gok mol'.
Proof.
  intros H. unfold bonding_step. destruct (bonds_of legacy meta mol fgs) as [[s1 bonds]|]; cbn [bind]; [|discriminate].
  destruct (GraphOps.fold_res (apply_bond aa) bonds mol) as [m|] eqn:E; cbn [bind]; [|discriminate]. intros X Hb. inversion X; subst. clear X.
  specialize (Hb s1 bonds eq_refl). revert mol H E. induction bonds as [|b r IH]; intros mol H E; cbn [GraphOps.fold_res] in E; [inversion E; now subst|].
  destruct (apply_bond aa mol b) as [m1|] eqn:Eb; cbn [bind] in E; [|discriminate E].
  apply (IH (fun x Hx => Hb x (or_intror Hx)) m1); [|exact E]. exact (gok_apply_bond _ _ _ _ H (Hb b (or_introl eq_refl)) Eb).
Qed.
