(** SampleDefs: definitions (NO proofs, independent of the generated code) used by the statements
    of C16/C17 and by their executable oracles. *)
From Coq Require Import String.
From Coq Require Import List Ascii ZArith Bool.
From CGV Require Import Base.PyBase Base.PyVal Sample.GenSupport Sample.SampleImpl.
Import ListNotations.
Open Scope char_scope.

(** order-suffix default: a descriptor that does not end in a digit gets order 1 *)
Definition dflt (s : pystr) : pystr :=
  match rev s with c :: _ => if is_digit c then s else s ++ ["1"] | [] => s end.
Definition dflt_dict {V} (d : list (pystr * V)) : list (pystr * V) :=
  fold_left (fun acc kv => dict_set (dflt (fst kv)) (snd kv) acc) d [].
Definition dflt_fragreact {V} (d : list (pystr * list (pystr * V))) : list (pystr * list (pystr * V)) :=
  fold_left (fun acc kv => dict_set (dflt (fst kv)) (dflt_dict (snd kv)) acc) d [].

Definition last_char (s : pystr) : option ascii := match rev s with c :: _ => Some c | [] => None end.
Definition same_order (d1 d2 : pystr) : bool :=
  match last_char d1, last_char d2 with Some a, Some b => Ascii.eqb a b | _, _ => false end.
(** complementary descriptors of equal order, in the words of C16:
    '$…' with '$…' (labels free, same order digit); '>L' with '<L' (same label and order) *)
Definition compl_spec (d1 d2 : pystr) : bool :=
  match d1, d2 with
  | k1 :: r1, k2 :: r2 =>
      if Ascii.eqb k1 "$" then Ascii.eqb k2 "$" && same_order d1 d2
      else if Ascii.eqb k1 ">" then Ascii.eqb k2 "<" && str_eqb r1 r2
      else if Ascii.eqb k1 "<" then Ascii.eqb k2 ">" && str_eqb r1 r2
      else false
  | _, _ => false
  end.
(** the descriptor kinds the property speaks about *)
Definition kind_in_domain (d : pystr) : bool :=
  match d with k :: _ => Ascii.eqb k "$" || Ascii.eqb k ">" || Ascii.eqb k "<" | [] => false end.

Open Scope Z_scope.
Fixpoint cnt (d : pystr) (l : list pystr) : nat :=
  match l with [] => 0%nat | x :: r => ((if str_eqb d x then 1 else 0) + cnt d r)%nat end.
Definition bonding_list (o : option (list pystr)) : list pystr := match o with Some l => l | None => [] end.

(** ** on the model's molecule *)
Definition fragid_at (m : mol) (k : Z) : option Z :=
  match find_node k (m_nodes m) with Some n => Some (n_fragid n) | None => None end.
Definition is_inter (m : mol) (e : medge) : bool :=
  match fragid_at m (e_u e), fragid_at m (e_v e) with
  | Some a, Some b => negb (Z.eqb a b)
  | _, _ => false
  end.
Definition inter_bonds (m : mol) : list medge := filter (is_inter m) (m_edges m).
Definition frag_ids (m : mol) : list Z := nodup Z.eq_dec (map n_fragid (m_nodes m)).
Definition frag_count (m : mol) : nat := length (frag_ids m).

(** paths along edges (either direction) *)
Inductive path (es : list (Z * Z)) : Z -> Z -> Prop :=
| path_refl : forall a, path es a a
| path_step : forall a b c, (In (a, b) es \/ In (b, a) es) -> path es b c -> path es a c.
Definition mol_edges (m : mol) : list (Z * Z) := map (fun e => (e_u e, e_v e)) (m_edges m).
Definition Connected (m : mol) : Prop :=
  forall a b, In a (map n_key (m_nodes m)) -> In b (map n_key (m_nodes m)) -> path (mol_edges m) a b.
Definition tpl_connected (t : template) : Prop :=
  forall a b, In a (map t_key (f_nodes t)) -> In b (map t_key (f_nodes t)) -> path (map fst (f_edges t)) a b.

(** templates as returned by read_fragments: distinct keys, fragid 0, edges between own nodes *)
Definition wf_template (t : template) : Prop :=
  NoDup (map t_key (f_nodes t)) /\ Forall (fun n => t_fragid n = 0) (f_nodes t) /\ f_nodes t <> [] /\
  Forall (fun e => In (fst (fst e)) (map t_key (f_nodes t)) /\ In (snd (fst e)) (map t_key (f_nodes t))) (f_edges t).
Definition wf_frags (fd : fragdict) : Prop := Forall (fun ft => wf_template (snd ft)) fd.

(** descriptor occurrences consumed at node k by the bonds of a list of edges *)
Definition used_at (k : Z) (d : pystr) (es : list medge) : nat :=
  fold_right (fun e acc =>
     match e_bonding e with
     | Some (d1, d2) => ((if Z.eqb (e_u e) k && str_eqb d d1 then 1 else 0)
                         + (if Z.eqb (e_v e) k && str_eqb d d2 then 1 else 0) + acc)%nat
     | None => acc
     end) 0%nat es.
Definition left_at (m : mol) (k : Z) (d : pystr) : nat :=
  match find_node k (m_nodes m) with Some n => cnt d (bonding_list (n_bonding n)) | None => 0%nat end.

(** ** copies of templates inside the molecule (copy_iso_template) *)
(** node [n] is the copy of template node [t], the i-th node of a copy merged at key offset [off]
    with fragment offset [fo]: key by position, membership, ALL other attributes identical, and
    its descriptors are what is left of the template's (some consumed or withdrawn) *)
Definition copy_of (sp : Z * Z * nat * tnode) (n : mnode) : Prop :=
  let '(fo, off, i, t) := sp in
  n_key n = off + 1 + Z.of_nat i /\ n_fragid n = t_fragid t + fo /\ n_attrs n = t_attrs t /\
  forall d, (cnt d (bonding_list (n_bonding n)) <= cnt d (bonding_list (t_bonding t)))%nat.
Record block := { b_tpl : template; b_off : Z; b_fo : Z }.
Fixpoint spec_nodes (fo off : Z) (i : nat) (ts : list tnode) : list (Z * Z * nat * tnode) :=
  match ts with [] => [] | t :: r => (fo, off, i, t) :: spec_nodes fo off (Datatypes.S i) r end.
Definition block_spec (b : block) : list (Z * Z * nat * tnode) := spec_nodes (b_fo b) (b_off b) 0 (f_nodes (b_tpl b)).
(** the template's edges through the merge correspondence (attributes, hence orders, unchanged) *)
Definition block_edges (b : block) : list medge :=
  match mk_edges (mk_corr (b_off b) 0 (f_nodes (b_tpl b))) (f_edges (b_tpl b)) with Ok es => es | Err _ => [] end.
Definition is_template_edge (e : medge) : bool := match e_bonding e with None => true | Some _ => false end.
(** the molecule is, block by block, the copies of the templates [bs]; its edges without 'bonding'
    are, block by block, the templates' edges through the correspondence *)
Definition copies_of (m : mol) (bs : list block) : Prop :=
  Forall2 copy_of (concat (map block_spec bs)) (m_nodes m) /\
  filter is_template_edge (m_edges m) = concat (map block_edges bs).

(** ** attribute lists of template nodes *)
(** template attribute lists as read_fragments returns them: dicts (distinct keys); 'fragid' and
    'bonding' are kept in their own fields of [tnode]; no chirality annotation 'rs_isomer' *)
Definition tattrs_ok (a : attrs) : Prop :=
  NoDup (map fst a) /\ ~ In (S "fragid") (map fst a) /\ ~ In (S "bonding") (map fst a) /\ ~ In (S "rs_isomer") (map fst a).
Definition frags_attrs_ok (fd : fragdict) : Prop :=
  Forall (fun ft => Forall (fun t => tattrs_ok (t_attrs t)) (f_nodes (snd ft))) fd.

(** decidable form, evaluated on every case of the checks *)
Definition tattrs_okb (a : attrs) : bool :=
  (fix nodupb (l : list pystr) : bool := match l with [] => true | x :: r => negb (str_in x r) && nodupb r end) (map fst a)
  && negb (str_in (S "fragid") (map fst a)) && negb (str_in (S "bonding") (map fst a)) && negb (str_in (S "rs_isomer") (map fst a)).
Definition frags_attrs_okb (fd : fragdict) : bool :=
  forallb (fun ft => forallb (fun t => tattrs_okb (t_attrs t)) (f_nodes (snd ft))) fd.
