(** SampleTree: the sampled molecule is a connected tree of fragment copies (C16), by induction
    over the growth loop, for every sequence of random picks. *)
From Coq Require Import String.
From Coq Require Import List Ascii ZArith Bool Lia.
From CGV Require Import Base.PyBase Base.PyVal Base.PyGen Sample.GenSupport Gen.SamplerGen Sample.SampleImpl
     Sample.SampleDefs Sample.SampleSpec Sample.SampleProofs.
Import ListNotations.
Open Scope Z_scope.

(** * paths *)
Lemma path_incl es es' a b : incl es es' -> path es a b -> path es' a b.
Proof.
  intros I H. induction H as [a|a b c Hab _ IH]; [constructor|].
  eapply path_step; [|exact IH]. destruct Hab as [H|H]; [left|right]; now apply I.
Qed.
Lemma path_trans es a b c : path es a b -> path es b c -> path es a c.
Proof. intros H1 H2. induction H1 as [a|a b0 c0 Hab _ IH]; [assumption|]. eapply path_step; [exact Hab|now apply IH]. Qed.
Lemma path_edge es a b : In (a, b) es \/ In (b, a) es -> path es a b.
Proof. intros H. eapply path_step; [exact H|constructor]. Qed.
Lemma path_sym es a b : path es a b -> path es b a.
Proof.
  intros H. induction H as [a|a b c Hab _ IH]; [constructor|].
  eapply path_trans; [exact IH|]. apply path_edge. tauto.
Qed.

(** * correspondence of merge_graphs *)
Lemma mk_corr_fst off i ts : map fst (mk_corr off i ts) = map t_key ts.
Proof. revert i. induction ts as [|t r IH]; intros i; cbn; [reflexivity|]. now rewrite IH. Qed.
Lemma mk_nodes_keys fo off i ts : map n_key (mk_nodes fo off i ts) = map snd (mk_corr off i ts).
Proof. revert i. induction ts as [|t r IH]; intros i; cbn; [reflexivity|]. now rewrite IH. Qed.
Lemma assocz_in {A} k (v : A) l : assocz k l = Some v -> In (k, v) l.
Proof.
  induction l as [|[k' v'] r IH]; cbn; [discriminate|]. destruct (Z.eqb_spec k k') as [->|N].
  - intros [= ->]. now left.
  - intros H. right. auto.
Qed.
Lemma in_assocz {A} k (v : A) l : NoDup (map fst l) -> In (k, v) l -> assocz k l = Some v.
Proof.
  induction l as [|[k' v'] r IH]; cbn; [tauto|]. intros ND. inversion ND as [|? ? Hn ND']; subst.
  intros [[= -> ->]|H].
  - now rewrite Z.eqb_refl.
  - destruct (Z.eqb_spec k k') as [->|N]; [|auto]. exfalso. apply Hn. change k' with (fst (k', v)). now apply in_map.
Qed.

Definition uv (e : medge) : Z * Z := (e_u e, e_v e).
Lemma mk_edges_in corr tes es a b at_ : mk_edges corr tes = Ok es -> In (a, b, at_) tes ->
  exists ca cb, assocz a corr = Some ca /\ assocz b corr = Some cb /\ (ca = cb \/ In (ca, cb) (map uv es)).
Proof.
  revert es. induction tes as [|[[a' b'] at'] r IH]; intros es; cbn [mk_edges]; [intros _ []|].
  destruct (assocz a' corr) as [ca|] eqn:Ea; cbn [of_option bind]; [|discriminate].
  destruct (assocz b' corr) as [cb|] eqn:Eb; cbn [of_option bind]; [|discriminate].
  destruct (mk_edges corr r) as [rest|] eqn:Er; cbn [bind]; [|discriminate].
  intros [= <-] [[= -> -> ->]|Hin].
  - exists ca, cb. split; [assumption|]. split; [assumption|].
    destruct (Z.eqb_spec ca cb); [now left|right; now left].
  - destruct (IH rest eq_refl Hin) as (x & y & H1 & H2 & H3). exists x, y. split; [assumption|]. split; [assumption|].
    destruct H3 as [H3|H3]; [now left|right]. destruct (Z.eqb ca cb); [assumption|now right].
Qed.
Lemma mk_edges_bonding corr tes es : mk_edges corr tes = Ok es -> Forall (fun e => e_bonding e = None) es.
Proof.
  revert es. induction tes as [|[[a' b'] at'] r IH]; intros es; cbn [mk_edges]; [intros [= <-]; constructor|].
  destruct (assocz a' corr) as [ca|]; cbn [of_option bind]; [|discriminate].
  destruct (assocz b' corr) as [cb|]; cbn [of_option bind]; [|discriminate].
  destruct (mk_edges corr r) as [rest|]; cbn [bind]; [|discriminate].
  intros [= <-]. specialize (IH rest eq_refl). destruct (Z.eqb ca cb); [assumption|constructor; [reflexivity|assumption]].
Qed.

(** a path in the template is a path between the images in the copy *)
Lemma path_mapped corr tes es : mk_edges corr tes = Ok es -> forall a c, path (map fst tes) a c ->
  forall ca cc, assocz a corr = Some ca -> assocz c corr = Some cc -> path (map uv es) ca cc.
Proof.
  intros Hm a c H. induction H as [a|a b c Hab _ IH]; intros ca cc Ha Hc.
  - rewrite Ha in Hc. injection Hc as <-. constructor.
  - assert (exists at_, In (a, b, at_) tes \/ In (b, a, at_) tes) as [at_ Hin].
    { destruct Hab as [H|H]; apply in_map_iff in H as [[[x y] at_] [E Hin]]; cbn in E; injection E as -> ->;
        exists at_; tauto. }
    destruct Hin as [Hin|Hin]; destruct (mk_edges_in _ _ _ _ _ _ Hm Hin) as (x & y & H1 & H2 & H3).
    + rewrite Ha in H1. injection H1 as <-. eapply path_trans; [|apply (IH _ _ H2 Hc)].
      destruct H3 as [->|H3]; [constructor|apply path_edge; now left].
    + rewrite Ha in H2. injection H2 as <-. eapply path_trans; [|apply (IH _ _ H1 Hc)].
      destruct H3 as [->|H3]; [constructor|apply path_edge; now right].
Qed.

(** * find_open_bonds only lists nodes of the molecule *)
Lemma group_add_inv {A} d (x : A) g d' l' : In (d', l') (group_add d x g) ->
  (exists l, In (d', l) g /\ (l' = l \/ l' = l ++ [x])) \/ l' = [x].
Proof.
  induction g as [|[e l] r IH]; cbn.
  - intros [[= <- <-]|[]]. now right.
  - destruct (str_eqb d e).
    + intros [[= <- <-]|H]; left; [exists l; split; [now left|now right]|exists l'; split; [now right|now left]].
    + intros [[= <- <-]|H]; [left; exists l; split; [now left|now left]|].
      destruct (IH H) as [[l0 [H1 H2]]|H1]; [left; exists l0; split; [now right|assumption]|now right].
Qed.
Lemma find_open_bonds_keys m d l x : In (d, l) (find_open_bonds m) -> In x l -> In x (map n_key (m_nodes m)).
Proof.
  unfold find_open_bonds.
  assert (G : forall ns g0 (P : Z -> Prop), (forall d l x, In (d, l) g0 -> In x l -> P x) ->
              (forall n, In n ns -> P (n_key n)) ->
              forall d l x, In (d, l) (fold_left (fun g n => match n_bonding n with
                        | None => g | Some ds => fold_left (fun g2 d => group_add d (n_key n) g2) ds g end) ns g0) ->
                            In x l -> P x).
  { induction ns as [|n r IH]; intros g0 P H0 Hn d0 l0 x0; cbn [fold_left]; [apply H0|].
    apply IH; [|intros; apply Hn; now right].
    destruct (n_bonding n) as [ds|]; [|exact H0].
    assert (Pn : P (n_key n)) by (apply Hn; now left). clear - H0 Pn. revert g0 H0.
    induction ds as [|d1 ds IH]; intros g0 H0; cbn [fold_left]; [exact H0|].
    apply IH. intros d2 l2 x2 Hin Hx. destruct (group_add_inv _ _ _ _ _ Hin) as [[l3 [H1 [-> | ->]]]| ->].
    - eapply H0; eassumption.
    - apply in_app_or in Hx as [Hx|[<-|[]]]; [eapply H0; eassumption|assumption].
    - destruct Hx as [<-|[]]. assumption. }
  intros H Hx. eapply (G (m_nodes m) [] (fun x => In x (map n_key (m_nodes m)))); try eassumption.
  - intros ? ? ? [].
  - intros n Hn. now apply in_map.
Qed.
Lemma dict_get_in {V} (d : list (pystr * V)) k v : dict_get d k = Some v -> In (k, v) d.
Proof.
  induction d as [|[k' v'] r IH]; cbn; [discriminate|]. destruct (str_eqb_spec k k') as [->|N].
  - intros [= ->]. now left.
  - intros H. right. auto.
Qed.

(** * keys and edges after a step *)
Lemma update_keys k b ns : map n_key (update_node k (set_bonding b) ns) = map n_key ns.
Proof.
  pose proof (update_kf k b ns) as H. apply (f_equal (map fst)) in H. rewrite !map_map in H. exact H.
Qed.
Lemma remove_desc_keys ns k d ns' : remove_desc ns k d = Ok ns' -> map n_key ns' = map n_key ns.
Proof. intros H. apply remove_desc_inv in H as (n & ds & ds' & _ & _ & _ & ->). apply update_keys. Qed.
Lemma terminal_step_keys term c ns s ns' : terminal_step term c ns s = Ok ns' -> map n_key ns' = map n_key ns.
Proof.
  unfold terminal_step. destruct (find_node s ns) as [n|]; cbn [of_option bind]; [|discriminate].
  destruct (str_in c term); [destruct (n_bonding n); [|discriminate]|]; intros [= <-]; apply update_keys.
Qed.

Definition bond_edges (m : mol) : list medge :=
  filter (fun e => match e_bonding e with Some _ => true | None => false end) (m_edges m).
Lemma filter_none es : Forall (fun e => e_bonding e = None) es ->
  filter (fun e => match e_bonding e with Some _ => true | None => false end) es = [].
Proof. induction 1 as [|e r H _ IH]; cbn; [reflexivity|]. now rewrite H. Qed.

Section Tree.
  Variable M : Type.
  Variables (c0 : Z -> M) (madd : M -> M -> M) (mltb : M -> M -> bool) (misz : M -> bool).
  Variable R : Type.
  Variable pick : R -> nat -> option (list M) -> res (nat * R).
  Variable cfg : config M.
  Hypothesis Wf : wf_frags (c_frags cfg).
  Hypothesis Tc : Forall (fun ft => tpl_connected (snd ft)) (c_frags cfg).
  Notation step := (step M c0 misz R pick cfg).
  Notation grow := (grow M c0 madd mltb misz R pick cfg).

  Lemma frag_props nm tpl : dict_get (c_frags cfg) nm = Some tpl -> wf_template tpl /\ tpl_connected tpl.
  Proof.
    intros H. apply dict_get_in in H. pose proof Wf as W. pose proof Tc as T. unfold wf_frags in W.
    rewrite Forall_forall in W, T. split; [apply (W _ H)|apply (T _ H)].
  Qed.

  (** the new copy is connected inside the merged graph *)
  Lemma copy_connected tpl off es : wf_template tpl -> tpl_connected tpl ->
    mk_edges (mk_corr off 0 (f_nodes tpl)) (f_edges tpl) = Ok es ->
    forall x y, In x (map snd (mk_corr off 0 (f_nodes tpl))) -> In y (map snd (mk_corr off 0 (f_nodes tpl))) ->
      path (map uv es) x y.
  Proof.
    intros [ND _] C Hm x y Hx Hy.
    apply in_map_iff in Hx as [[a x'] [E1 Hx]]. apply in_map_iff in Hy as [[b y'] [E2 Hy]]. cbn in E1, E2. subst x' y'.
    assert (NDc : NoDup (map fst (mk_corr off 0 (f_nodes tpl)))) by (rewrite mk_corr_fst; assumption).
    eapply path_mapped; [exact Hm| |apply in_assocz; eassumption|apply in_assocz; eassumption].
    apply C; rewrite <- (mk_corr_fst off 0).
    - change a with (fst (a, x)). now apply in_map.
    - change b with (fst (b, y)). now apply in_map.
  Qed.

  (** ** each step adds exactly one fragment copy and exactly one bond, and keeps the molecule connected *)
  Theorem step_adds_one_fragment_one_bond rng m m' r rng' : step rng m = Ok (m', r, rng') ->
    exists tpl off fo es bond,
      dict_get (c_frags cfg) (r_fragname r) = Some tpl /\
      map n_key (m_nodes m') = map n_key (m_nodes m) ++ map n_key (mk_nodes fo off 0 (f_nodes tpl)) /\
      m_edges m' = (m_edges m ++ es) ++ [bond] /\ Forall (fun e => e_bonding e = None) es /\
      e_bonding bond = Some (r_bonding r, r_compl r) /\ e_u bond = r_source r /\ e_v bond = r_target r /\
      In (r_source r) (map n_key (m_nodes m)) /\ In (r_target r) (map n_key (mk_nodes fo off 0 (f_nodes tpl))) /\
      (kind_in_domain (r_bonding r) = true -> compl_spec (r_bonding r) (r_compl r) = true) /\
      bond_edges m' = bond_edges m ++ [bond] /\
      (Connected m -> Connected m').
  Proof.
    unfold SampleImpl.step.
    destruct (step_select M c0 misz R pick cfg rng (find_open_bonds m)) as [[s rng1]|] eqn:Es; cbn [bind]; [|discriminate].
    destruct (step_apply M cfg m s) as [[m1 tgt]|] eqn:Ea; cbn [bind]; [|discriminate].
    intros [= <- <- <-]. cbn [r_fragname r_bonding r_compl r_source r_target].
    destruct (select_complementary M c0 misz R pick cfg _ _ _ _ Es) as (Hb & (srcs & Hs1 & Hs2) & Hc & Hcs & Hf).
    destruct (step_apply_inv M cfg _ _ _ _ Ea) as (tpl & off & fo & es & ns1 & ns2 & o & D1 & D2 & D3 & D4 & H1 & H2 & H3 & He).
    destruct (frag_props _ _ D1) as [Wt Ct].
    assert (Hsrc : In (s_source s) (map n_key (m_nodes m)))
      by (eapply find_open_bonds_keys; [apply dict_get_in; exact Hs1|exact Hs2]).
    assert (Hk : map n_key (m_nodes m1) = map n_key (m_nodes m) ++ map n_key (mk_nodes fo off 0 (f_nodes tpl))).
    { rewrite (terminal_step_keys _ _ _ _ _ H3), (remove_desc_keys _ _ _ _ H2), (remove_desc_keys _ _ _ _ H1).
      apply map_app. }
    assert (Ht : In tgt (map n_key (mk_nodes fo off 0 (f_nodes tpl)))).
    { rewrite mk_nodes_keys. apply assocz_in in D4. change tgt with (snd (s_tnode s, tgt)). now apply in_map. }
    pose proof (mk_edges_bonding _ _ _ D3) as Hnone.
    eexists tpl, off, fo, es, _. split; [exact D1|]. split; [exact Hk|]. split; [exact He|]. split; [exact Hnone|].
    split; [reflexivity|]. split; [reflexivity|]. split; [reflexivity|]. split; [exact Hsrc|]. split; [exact Ht|].
    split; [exact Hcs|]. split.
    - unfold bond_edges. rewrite He, !filter_app, (filter_none _ Hnone), app_nil_r. reflexivity.
    - intros Cm.
      set (E' := mol_edges m1).
      assert (I1 : incl (mol_edges m) E') by (unfold E', mol_edges; rewrite He, !map_app; intros x Hx; apply in_or_app; left; apply in_or_app; now left).
      assert (I2 : incl (map uv es) E') by (unfold E', mol_edges; rewrite He, !map_app; intros x Hx; apply in_or_app; left; apply in_or_app; now right).
      assert (Ib : In (s_source s, tgt) E') by (unfold E', mol_edges; rewrite He, !map_app; apply in_or_app; right; now left).
      assert (P : forall x, In x (map n_key (m_nodes m1)) -> path E' (s_source s) x).
      { intros x Hx. rewrite Hk in Hx. apply in_app_or in Hx as [Hx|Hx].
        - eapply path_incl; [exact I1|]. now apply Cm.
        - eapply path_step; [left; exact Ib|]. eapply path_incl; [exact I2|].
          rewrite mk_nodes_keys in Hx, Ht. eapply copy_connected; eassumption. }
      intros a b Ha Hb'. eapply path_trans; [apply path_sym; now apply P|now apply P].
  Qed.

  (** the first fragment *)
  Lemma first_connected tpl m0 corr : wf_template tpl -> tpl_connected tpl ->
    merge_graphs mol_empty tpl = Ok (m0, corr) -> Connected m0 /\ bond_edges m0 = [].
  Proof.
    unfold merge_graphs, merge_offsets. cbn [m_nodes mol_empty bind]. intros Wt Ct.
    destruct (mk_edges (mk_corr (-1) 0 (f_nodes tpl)) (f_edges tpl)) as [es|] eqn:D3; cbn [bind]; [|discriminate].
    intros [= <- <-]. split.
    - intros a b. cbn [m_nodes app]. rewrite mk_nodes_keys. intros Ha Hb.
      unfold mol_edges. cbn [m_edges app]. eapply copy_connected; eassumption.
    - unfold bond_edges. cbn [m_edges app]. apply filter_none. eapply mk_edges_bonding; eassumption.
  Qed.

  (** ** the whole loop: #bonds = #steps, connected *)
  Theorem grow_tree target fuel : forall rng m cw log m' cw' log' rng',
    grow target fuel rng m cw log = Ok (m', cw', log', rng') ->
    Connected m -> length (bond_edges m) = length log ->
    Connected m' /\ length (bond_edges m') = length log' /\
    (exists new, log' = log ++ new) /\
    Forall (fun e => match e_bonding e with
                     | Some (d1, d2) => kind_in_domain d1 = true -> compl_spec d1 d2 = true
                     | None => True end) (skipn (length (bond_edges m)) (bond_edges m')).
  Proof.
    induction fuel as [|f IH]; intros rng m cw log m' cw' log' rng'; cbn [SampleImpl.grow].
    - destruct (loop_guard mltb cw target); [discriminate|]. intros [= <- <- <- <-] C L.
      split; [assumption|]. split; [assumption|]. split; [exists []; now rewrite app_nil_r|].
      rewrite skipn_all. constructor.
    - destruct (loop_guard mltb cw target).
      + destruct (step rng m) as [[[m1 r] rng1]|] eqn:E; cbn [bind]; [|discriminate].
        destruct (dict_get (c_masses cfg) (r_fragname r)) as [x|]; cbn [of_option bind]; [|discriminate].
        intros H C L.
        destruct (step_adds_one_fragment_one_bond _ _ _ _ _ E) as (tpl & off & fo & es & bond & _ & _ & _ & _ & Hb & _ & _ & _ & _ & Hcs & Hbe & Hc).
        assert (L1 : length (bond_edges m1) = length (log ++ [r])) by (rewrite Hbe, !app_length, L; reflexivity).
        destruct (IH _ _ _ _ _ _ _ _ H (Hc C) L1) as (C' & L' & [new Hn] & F).
        split; [assumption|]. split; [assumption|]. split; [exists (r :: new); rewrite Hn, <- app_assoc; reflexivity|].
        (* the bonds of m' from position |bonds m| on: the new bond, then the later ones *)
        assert (Hpre : exists rest, bond_edges m' = bond_edges m1 ++ rest /\
                                    skipn (length (bond_edges m1)) (bond_edges m') = rest).
        { clear - H Wf Tc. revert H. generalize (madd cw x) (log ++ [r]) rng1 m1. clear - Wf Tc.
          induction f as [|f IH]; intros cw log rng m; cbn [SampleImpl.grow].
          - destruct (loop_guard mltb cw target); [discriminate|]. intros [= <- <- <- <-]. exists [].
            rewrite app_nil_r, skipn_all. tauto.
          - destruct (loop_guard mltb cw target).
            + destruct (step rng m) as [[[m1 r] rng1]|] eqn:E; cbn [bind]; [|discriminate].
              destruct (dict_get (c_masses cfg) (r_fragname r)) as [x|]; cbn [of_option bind]; [|discriminate].
              intros H. destruct (IH _ _ _ _ H) as [rest [H1 H2]].
              destruct (step_adds_one_fragment_one_bond _ _ _ _ _ E) as (tpl & off & fo & es & bond & _ & _ & _ & _ & _ & _ & _ & _ & _ & _ & Hbe & _).
              exists (bond :: rest). rewrite H1, Hbe, <- app_assoc. split; [reflexivity|].
              rewrite skipn_app, skipn_all, Nat.sub_diag. reflexivity.
            + intros [= <- <- <- <-]. exists []. rewrite app_nil_r, skipn_all. tauto. }
        destruct Hpre as [rest [Hr1 Hr2]]. rewrite Hr2 in F.
        rewrite Hr1, Hbe, <- app_assoc, skipn_app, skipn_all, Nat.sub_diag. cbn [app skipn].
        constructor; [rewrite Hb; exact Hcs|exact F].
      + intros [= <- <- <- <-] C L. split; [assumption|]. split; [assumption|].
        split; [exists []; now rewrite app_nil_r|]. rewrite skipn_all. constructor.
  Qed.

  (** ** tree_of_fragments: a run of sample() from scratch.  The copies are the start fragment
      plus one per recorded step; the inter-fragment bonds are the edges carrying a 'bonding'
      attribute (template edges never do). *)
  Theorem tree_of_fragments target fuel rng start nm i0 m cw log rng' :
    sample_growth M c0 madd mltb misz R pick cfg target fuel rng start = Ok (nm, i0, m, cw, log, rng') ->
    Connected m /\ (length (bond_edges m) + 1 = Datatypes.S (length log))%nat /\
    Forall (fun e => match e_bonding e with
                     | Some (d1, d2) => kind_in_domain d1 = true -> compl_spec d1 d2 = true
                     | None => True end) (bond_edges m).
  Proof.
    unfold sample_growth.
    destruct (start_fragment M misz R pick cfg rng start) as [[[nm0 i] rng0]|]; cbn [bind]; [|discriminate].
    destruct (dict_get (c_frags cfg) nm0) as [tpl|] eqn:D; cbn [of_option bind]; [|discriminate].
    destruct (merge_graphs mol_empty tpl) as [[m0 corr]|] eqn:Em; cbn [bind]; [|discriminate].
    destruct (grow target fuel rng0 m0 (c0 current_weight_start) []) as [[[[m1 cw1] log1] rng1]|] eqn:G; cbn [bind]; [|discriminate].
    intros [= <- <- <- <- <- <-]. destruct (frag_props _ _ D) as [Wt Ct].
    destruct (first_connected _ _ _ Wt Ct Em) as [C0 B0].
    destruct (grow_tree _ _ _ _ _ _ _ _ _ _ G C0) as (C & L & _ & F); [rewrite B0; reflexivity|].
    split; [assumption|]. split; [rewrite L; lia|]. rewrite B0 in F. exact F.
  Qed.
End Tree.
