(** SampleHistoryFail: the history machine of C17 with the module-level generator of `random` as ONE cell
    shared by all samplers, INCLUDING what a failed sample() leaves behind.

    sample() consumes the generator pick by pick; when it raises (IndexError: no open bond / no
    candidate; ValueError: all eligible weights zero; IOError: no complementary descriptor; KeyError)
    the picks drawn before the failure stay consumed (random.choice([]) and random.choices with a
    non-finite total raise BEFORE they draw).  [sample_growth_s] is sample_growth with the generator
    state threaded through failures; [growth_refines] proves it returns the same result.  The machine
    [hstep2] keeps the state in both cases.  Theorems: construct(seed); sample = a fresh run whatever
    came before (also after failed samples); construct A; construct B(seed_B); sample A = A's
    tables run from seed_B; a sample after a failed sample = a run from the state the failed call
    reached, which is the constructor's seed state again when the failure drew nothing. *)
From Coq Require Import String.
From Coq Require Import List Ascii ZArith Bool.
From CGV Require Import Base.PyBase Base.PyVal Base.PyGen Sample.GenSupport Gen.SamplerGen Sample.SampleImpl Sample.SampleHistory.
Import ListNotations.
Open Scope Z_scope.

Section HistoryFail.
  Variable M : Type.
  Variables (c0 : Z -> M) (madd : M -> M -> M) (mltb : M -> M -> bool) (misz : M -> bool).
  Variable R : Type.
  Variable rseed : Z -> R.
  Variable pick : R -> nat -> option (list M) -> res (nat * R).

  (** generator state after the call, and its result *)
  Definition sbind {A B} (m : R * res A) (k : A -> R -> R * res B) : R * res B :=
    match m with (r, Ok a) => k a r | (r, Err e) => (r, Err e) end.
  Definition lift {A} (m : R * res A) : res (A * R) := match m with (r, Ok a) => Ok (a, r) | (_, Err e) => Err e end.

  Definition choose_s {A} (rng : R) (l : list A) (w : option (list M)) : R * res (A * nat) :=
    match l with
    | [] => (rng, Err EIndex)
    | _ =>
        match w with
        | None => match pick rng (length l) None with
                  | Ok (i, rng') => (rng', x <- of_option (nth_error l i) EOutOfFuel ;; Ok (x, i))
                  | Err e => (rng, Err e)
                  end
        | Some ws =>
            if forallb misz ws then (rng, Err EValue) else
            match pick rng (length l) (Some ws) with
            | Ok (i, rng') => (rng', x <- of_option (nth_error l i) EOutOfFuel ;;
                                     wi <- of_option (nth_error ws i) EOutOfFuel ;;
                                     if misz wi then Err EOutOfFuel else Ok (x, i))
            | Err e => (rng, Err e)
            end
        end
    end.
  Lemma choose_refines {A} rng (l : list A) w :
    choose M misz R pick rng l w = match choose_s rng l w with (r, Ok (x, i)) => Ok (x, i, r) | (_, Err e) => Err e end.
  Proof.
    unfold choose, choose_s. destruct l as [|a l]; [reflexivity|]. destruct w as [ws|].
    - destruct (forallb misz ws); [reflexivity|]. destruct (pick rng (length (a :: l)) (Some ws)) as [[i r]|]; cbn [bind]; [|reflexivity].
      destruct (nth_error (a :: l) i); cbn [of_option bind]; [|reflexivity].
      destruct (nth_error ws i) as [wi|]; cbn [of_option bind]; [|reflexivity]. destruct (misz wi); reflexivity.
    - destruct (pick rng (length (a :: l)) None) as [[i r]|]; cbn [bind]; [|reflexivity].
      destruct (nth_error (a :: l) i); reflexivity.
  Qed.

  Definition select_op_s (rng : R) (bonds : list pystr) (probs : option (list (pystr * M))) : R * res (pystr * nat) :=
    match probs with
    | Some (kv :: p) => choose_s rng bonds (Some (select_weights c0 bonds (kv :: p)))
    | _ => choose_s rng bonds None
    end.
  Lemma select_op_refines rng bonds probs :
    select_op M c0 misz R pick rng bonds probs =
    match select_op_s rng bonds probs with (r, Ok (x, i)) => Ok (x, i, r) | (_, Err e) => Err e end.
  Proof. unfold select_op, select_op_s. destruct probs as [[|kv p]|]; apply choose_refines. Qed.

  Definition step_select_s (cfg : config M) (rng : R) (ob : list (pystr * list Z)) : R * res sel :=
    sbind (select_op_s rng (map fst ob) (Some (c_poly cfg))) (fun bi rng =>
      match dict_get ob (fst bi) with
      | None => (rng, Err EKey)
      | Some srcs =>
          sbind (choose_s rng srcs None) (fun si rng =>
            match find_complementary_bonding_descriptor (fst bi) (map fst (c_byb cfg)) with
            | Err e => (rng, Err e)
            | Ok compl_bonds =>
                sbind (select_op_s rng compl_bonds (dict_get (c_fragreact cfg) (fst bi))) (fun ci rng =>
                  sbind (choose_s rng (dict_get_default (c_byb cfg) (fst ci) []) None) (fun fi rng =>
                    (rng, Ok {| s_bonding := fst bi; s_source := fst si; s_compl := fst ci; s_fragname := fst (fst fi);
                                s_tnode := snd (fst fi); s_picks := [snd bi; snd si; snd ci; snd fi] |})))
            end)
      end).
  Lemma step_select_refines cfg rng ob : step_select M c0 misz R pick cfg rng ob = lift (step_select_s cfg rng ob).
  Proof.
    unfold step_select, step_select_s, sbind, lift. rewrite select_op_refines.
    destruct (select_op_s rng (map fst ob) (Some (c_poly cfg))) as [r1 [[b i1]|e]]; cbn [bind fst snd]; [|reflexivity].
    destruct (dict_get ob b) as [srcs|]; cbn [of_option bind]; [|reflexivity]. rewrite choose_refines.
    destruct (choose_s r1 srcs None) as [r2 [[s i2]|e]]; cbn [bind fst snd]; [|reflexivity].
    destruct (find_complementary_bonding_descriptor b (map fst (c_byb cfg))) as [cb|e]; cbn [bind]; [|reflexivity].
    rewrite select_op_refines. destruct (select_op_s r2 cb (dict_get (c_fragreact cfg) b)) as [r3 [[c i3]|e]]; cbn [bind fst snd]; [|reflexivity].
    rewrite choose_refines. destruct (choose_s r3 (dict_get_default (c_byb cfg) c []) None) as [r4 [[ft i4]|e]]; cbn [bind fst snd]; reflexivity.
  Qed.

  Definition step_s (cfg : config M) (rng : R) (m : mol) : R * res (mol * srec) :=
    let ob := find_open_bonds m in
    sbind (step_select_s cfg rng ob) (fun s rng' =>
      match step_apply M cfg m s with
      | Ok (m', tgt) => (rng', Ok (m', {| r_ob := ob; r_bonding := s_bonding s; r_source := s_source s; r_compl := s_compl s;
                                         r_fragname := s_fragname s; r_tnode := s_tnode s; r_target := tgt; r_picks := s_picks s |}))
      | Err e => (rng', Err e)
      end).
  Lemma step_refines cfg rng m :
    step M c0 misz R pick cfg rng m = match step_s cfg rng m with (r, Ok (m', s)) => Ok (m', s, r) | (_, Err e) => Err e end.
  Proof.
    unfold step, step_s, sbind. rewrite step_select_refines. unfold lift.
    destruct (step_select_s cfg rng (find_open_bonds m)) as [r [s|e]]; cbn [bind]; [|reflexivity].
    destruct (step_apply M cfg m s) as [[m' tgt]|e]; reflexivity.
  Qed.

  Fixpoint grow_s (cfg : config M) (target : M) (fuel : nat) (rng : R) (m : mol) (cw : M) (log : list srec)
    : R * res (mol * M * list srec) :=
    if loop_guard mltb cw target then
      match fuel with
      | O => (rng, Err EOutOfFuel)
      | Datatypes.S f =>
          match step_s cfg rng m with
          | (rng', Ok (m', r)) =>
              match dict_get (c_masses cfg) (r_fragname r) with
              | Some mass => grow_s cfg target f rng' m' (madd cw mass) (log ++ [r])
              | None => (rng', Err EKey)
              end
          | (rng', Err e) => (rng', Err e)
          end
      end
    else (rng, Ok (m, cw, log)).
  Lemma grow_refines cfg target fuel : forall rng m cw log,
    grow M c0 madd mltb misz R pick cfg target fuel rng m cw log =
    match grow_s cfg target fuel rng m cw log with (r, Ok (m', cw', log')) => Ok (m', cw', log', r) | (_, Err e) => Err e end.
  Proof.
    induction fuel as [|f IH]; intros rng m cw log; cbn [grow grow_s]; destruct (loop_guard mltb cw target); try reflexivity.
    rewrite step_refines. destruct (step_s cfg rng m) as [r [[m' s]|e]]; cbn [bind]; [|reflexivity].
    destruct (dict_get (c_masses cfg) (r_fragname s)); cbn [of_option bind]; [apply IH|reflexivity].
  Qed.

  Definition start_fragment_s (cfg : config M) (rng : R) (start : option pystr) : R * res (pystr * list nat) :=
    match start with
    | Some (c :: s) => (rng, Ok (c :: s, []))
    | _ => sbind (choose_s rng (map fst (c_frags cfg)) None) (fun ni rng' => (rng', Ok (fst ni, [snd ni])))
    end.
  Definition after_start (cfg : config M) (target : M) (fuel : nat) (nm : pystr) (i0 : list nat) (rng : R)
    : R * res (pystr * list nat * mol * M * list srec) :=
    match dict_get (c_frags cfg) nm with
    | None => (rng, Err EKey)
    | Some tpl =>
        match merge_graphs mol_empty tpl with
        | Err e => (rng, Err e)
        | Ok (m0, _) =>
            sbind (grow_s cfg target fuel rng m0 (c0 current_weight_start) []) (fun g rng =>
              (rng, Ok (nm, i0, fst (fst g), snd (fst g), snd g)))
        end
    end.
  Definition sample_growth_s (cfg : config M) (target : M) (fuel : nat) (rng : R) (start : option pystr)
    : R * res (pystr * list nat * mol * M * list srec) :=
    sbind (start_fragment_s cfg rng start) (fun ni rng => after_start cfg target fuel (fst ni) (snd ni) rng).

  Lemma after_start_refines cfg target fuel nm i0 r0 :
    (tpl <- of_option (dict_get (c_frags cfg) nm) EKey ;;
     '(m0, _) <- merge_graphs mol_empty tpl ;;
     '(m, cw, log, rng) <- grow M c0 madd mltb misz R pick cfg target fuel r0 m0 (c0 current_weight_start) [] ;;
     Ok (nm, i0, m, cw, log, rng)) =
    match after_start cfg target fuel nm i0 r0 with
    | (r, Ok (nm, i0, m, cw, log)) => Ok (nm, i0, m, cw, log, r)
    | (_, Err e) => Err e
    end.
  Proof.
    unfold after_start, sbind. destruct (dict_get (c_frags cfg) nm) as [tpl|]; cbn [of_option bind]; [|reflexivity].
    destruct (merge_graphs mol_empty tpl) as [[m0 corr]|e]; cbn [bind]; [|reflexivity]. rewrite grow_refines.
    destruct (grow_s cfg target fuel r0 m0 (c0 current_weight_start) []) as [r [[[m cw] log]|e]]; reflexivity.
  Qed.

  (** [growth_refines]: the state-threading version returns exactly what sample_growth returns, and on
      success the same final generator state *)
  Theorem growth_refines cfg target fuel rng start :
    sample_growth M c0 madd mltb misz R pick cfg target fuel rng start =
    match sample_growth_s cfg target fuel rng start with
    | (r, Ok (nm, i0, m, cw, log)) => Ok (nm, i0, m, cw, log, r)
    | (_, Err e) => Err e
    end.
  Proof.
    unfold sample_growth, sample_growth_s, start_fragment, start_fragment_s, sbind.
    destruct start as [[|c s]|].
    - rewrite choose_refines. destruct (choose_s rng (map fst (c_frags cfg)) None) as [r0 [[nm i]|e]]; cbn [bind fst snd]; [apply after_start_refines|reflexivity].
    - cbn [bind fst snd]. apply after_start_refines.
    - rewrite choose_refines. destruct (choose_s rng (map fst (c_frags cfg)) None) as [r0 [[nm i]|e]]; cbn [bind fst snd]; [apply after_start_refines|reflexivity].
  Qed.
  Corollary growth_refines_result cfg target fuel rng start :
    snd (sample_growth_s cfg target fuel rng start) =
    match sample_growth M c0 madd mltb misz R pick cfg target fuel rng start with
    | Ok (nm, i0, m, cw, log, _) => Ok (nm, i0, m, cw, log)
    | Err e => Err e
    end.
  Proof.
    rewrite growth_refines. destruct (sample_growth_s cfg target fuel rng start) as [r [[[[[nm i0] m] cw] log]|e]]; reflexivity.
  Qed.

  (** a call that fails before the first draw leaves the generator untouched: e.g. a start fragment
      name that is not in the dict (KeyError), an empty fragment dict (IndexError) *)
  Lemma start_missing_keeps_state cfg target fuel rng c s :
    dict_get (c_frags cfg) (c :: s) = None ->
    sample_growth_s cfg target fuel rng (Some (c :: s)) = (rng, Err EKey).
  Proof. intros E. unfold sample_growth_s, start_fragment_s, sbind, after_start. cbn [fst]. rewrite E. reflexivity. Qed.

  (** * the machine: ONE generator cell, kept across successful AND failed calls *)
  Notation args := (args M).
  Notation call := (call M).
  Notation hstate := (hstate M R).
  Notation output := (output M).
  Notation lookup := (lookup M).
  Definition hstep2 (st : hstate) (c : call) : hstate * output :=
    match c with
    | SampleHistory.Construct _ id a seed =>
        let rng := rseed seed in
        match init M (a_frags M a) (a_poly M a) (a_fragreact M a) (a_term M a) (a_masses M a) with
        | Ok cfg => ({| h_rng := rng; h_samplers := (id, cfg) :: h_samplers M R st |}, None)
        | Err e => ({| h_rng := rng; h_samplers := h_samplers M R st |}, Some (Err e))
        end
    | SampleHistory.Sample _ id target start fuel =>
        match lookup id (h_samplers M R st) with
        | None => (st, Some (Err EName))
        | Some cfg =>
            let '(rng', out) := sample_growth_s cfg target fuel (h_rng M R st) start in
            ({| h_rng := rng'; h_samplers := h_samplers M R st |}, Some out)
        end
    end.
  Fixpoint hrun2 (st : hstate) (cs : list call) : hstate * list output :=
    match cs with
    | [] => (st, [])
    | c :: r => let '(st1, o) := hstep2 st c in let '(st2, os) := hrun2 st1 r in (st2, o :: os)
    end.

  Lemma hrun2_app st h1 h2 : hrun2 st (h1 ++ h2) =
    let '(st1, o1) := hrun2 st h1 in let '(st2, o2) := hrun2 st1 h2 in (st2, o1 ++ o2).
  Proof.
    revert st. induction h1 as [|c r IH]; intros st; cbn [app hrun2].
    - destruct (hrun2 st h2); reflexivity.
    - destruct (hstep2 st c) as [st1 o]. rewrite IH. destruct (hrun2 st1 r) as [st2 os]. destruct (hrun2 st2 h2). reflexivity.
  Qed.

  Definition result_of (cfg : config M) (target : M) (fuel : nat) (rng : R) (start : option pystr) :=
    snd (sample_growth_s cfg target fuel rng start).

  (** the former machine (Sample/SampleHistory.v) is this one on every call that does not fail: same
      output, same next state *)
  Lemma hstep2_agrees st c :
    match snd (hstep M c0 madd mltb misz R rseed pick st c) with
    | Some (Err _) => True
    | _ => hstep2 st c = hstep M c0 madd mltb misz R rseed pick st c
    end.
  Proof.
    destruct c as [id a seed|id target start fuel]; cbn [hstep hstep2].
    - destruct (init M (a_frags M a) (a_poly M a) (a_fragreact M a) (a_term M a) (a_masses M a)); cbn [snd]; [reflexivity|exact I].
    - destruct (lookup id (h_samplers M R st)) as [cfg|]; cbn [snd]; [|exact I]. rewrite growth_refines.
      destruct (sample_growth_s cfg target fuel (h_rng M R st) start) as [r [[[[[nm i0] m] cw] log]|e]]; cbn [snd]; [reflexivity|exact I].
  Qed.

  (** whatever the history before it, a constructor call leaves the shared generator in the state of its seed
      (also when the constructor raises after its first statement) *)
  Lemma construct_resets_generator st pre id a seed :
    h_rng M R (fst (hrun2 st (pre ++ [Construct M id a seed]))) = rseed seed.
  Proof.
    rewrite hrun2_app. destruct (hrun2 st pre) as [st1 o1]. cbn [hrun2 hstep2].
    destruct (init M (a_frags M a) (a_poly M a) (a_fragreact M a) (a_term M a) (a_masses M a)); reflexivity.
  Qed.
  (** and a sample call changes nothing but the generator: the registry of samplers is untouched *)
  Lemma sample_keeps_samplers st id target start fuel :
    h_samplers M R (fst (hstep2 st (Sample M id target start fuel))) = h_samplers M R st.
  Proof.
    cbn [hstep2]. destruct (lookup id (h_samplers M R st)) as [cfg|]; [|reflexivity].
    destruct (sample_growth_s cfg target fuel (h_rng M R st) start); reflexivity.
  Qed.

  (** seed determinism survives failed samples: whatever calls came before — constructions, samples
      that succeeded, samples that FAILED half-way — construct(seed); sample(w) is the fresh run *)
  Theorem seed_determines2 : forall st id a seed target start fuel cfg,
    init M (a_frags M a) (a_poly M a) (a_fragreact M a) (a_term M a) (a_masses M a) = Ok cfg ->
    snd (hrun2 st [Construct M id a seed; Sample M id target start fuel]) =
    [None; Some (result_of cfg target fuel (rseed seed) start)] /\
    snd (hrun2 st [Construct M id a seed; Sample M id target start fuel]) = fresh_run M c0 madd mltb misz R rseed pick a seed target start fuel.
  Proof.
    intros st id a seed target start fuel cfg E. unfold fresh_run, result_of. cbn [hrun2 hstep2]. rewrite E.
    cbn [lookup SampleHistory.lookup h_samplers h_rng]. rewrite Nat.eqb_refl.
    rewrite <- growth_refines_result.
    destruct (sample_growth_s cfg target fuel (rseed seed) start) as [r out]. split; reflexivity.
  Qed.
  Corollary seed_determines2_any_history : forall h1 h2 st1 st2 id a seed target start fuel cfg,
    init M (a_frags M a) (a_poly M a) (a_fragreact M a) (a_term M a) (a_masses M a) = Ok cfg ->
    snd (hrun2 (fst (hrun2 st1 h1)) [Construct M id a seed; Sample M id target start fuel]) =
    snd (hrun2 (fst (hrun2 st2 h2)) [Construct M id a seed; Sample M id target start fuel]).
  Proof.
    intros h1 h2 st1 st2 id a seed target start fuel cfg E.
    destruct (seed_determines2 (fst (hrun2 st1 h1)) id a seed target start fuel cfg E) as [-> _].
    destruct (seed_determines2 (fst (hrun2 st2 h2)) id a seed target start fuel cfg E) as [-> _]. reflexivity.
  Qed.

  (** the interleaving construct A(seed_A); construct B(seed_B); sample A: B's constructor reseeded the
      shared generator, so A samples with ITS OWN tables from the state of seed_B — what a fresh
      construct A(seed_B); sample would return; seed_A is forgotten.  (Also when B's constructor raises
      after its first statement: the reseeding has happened.) *)
  Theorem interleaved_sample : forall st ida idb a b seed_a seed_b target start fuel cfga,
    ida <> idb ->
    init M (a_frags M a) (a_poly M a) (a_fragreact M a) (a_term M a) (a_masses M a) = Ok cfga ->
    exists ob, snd (hrun2 st [Construct M ida a seed_a; Construct M idb b seed_b; Sample M ida target start fuel]) =
               [None; ob; Some (result_of cfga target fuel (rseed seed_b) start)] /\
      nth 1 (fresh_run M c0 madd mltb misz R rseed pick a seed_b target start fuel) None
        = Some (result_of cfga target fuel (rseed seed_b) start).
  Proof.
    intros st ida idb a b seed_a seed_b target start fuel cfga Nab Ea. unfold result_of, fresh_run. rewrite Ea.
    cbn [hrun2 hstep2 nth]. rewrite Ea. cbn [h_samplers h_rng].
    assert (Nb : Nat.eqb idb ida = false) by (apply Nat.eqb_neq; congruence).
    destruct (init M (a_frags M b) (a_poly M b) (a_fragreact M b) (a_term M b) (a_masses M b)) as [cfgb|e];
      cbn [lookup SampleHistory.lookup h_samplers h_rng]; rewrite ?Nb, Nat.eqb_refl;
      rewrite <- growth_refines_result; destruct (sample_growth_s cfga target fuel (rseed seed_b) start) as [r out];
      eexists; split; reflexivity.
  Qed.

  (** a sample after a FAILED sample runs from the state the failed call reached *)
  Theorem sample_after_failed : forall st id a seed t1 s1 f1 t2 s2 f2 cfg,
    init M (a_frags M a) (a_poly M a) (a_fragreact M a) (a_term M a) (a_masses M a) = Ok cfg ->
    snd (hrun2 st [Construct M id a seed; Sample M id t1 s1 f1; Sample M id t2 s2 f2]) =
    [None; Some (result_of cfg t1 f1 (rseed seed) s1);
     Some (result_of cfg t2 f2 (fst (sample_growth_s cfg t1 f1 (rseed seed) s1)) s2)].
  Proof.
    intros st id a seed t1 s1 f1 t2 s2 f2 cfg E. unfold result_of. cbn [hrun2 hstep2]. rewrite E.
    cbn [lookup SampleHistory.lookup h_samplers h_rng]. rewrite Nat.eqb_refl.
    destruct (sample_growth_s cfg t1 f1 (rseed seed) s1) as [r1 o1]. cbn [h_samplers h_rng lookup SampleHistory.lookup fst snd].
    rewrite Nat.eqb_refl. destruct (sample_growth_s cfg t2 f2 r1 s2) as [r2 o2]. reflexivity.
  Qed.
  (** in particular a call that failed before its first draw (unknown start fragment) is invisible:
      the next sample is the fresh run *)
  Corollary sample_after_early_failure : forall st id a seed t1 f1 c s t2 s2 f2 cfg,
    init M (a_frags M a) (a_poly M a) (a_fragreact M a) (a_term M a) (a_masses M a) = Ok cfg ->
    dict_get (c_frags cfg) (c :: s) = None ->
    snd (hrun2 st [Construct M id a seed; Sample M id t1 (Some (c :: s)) f1; Sample M id t2 s2 f2]) =
    [None; Some (Err EKey); Some (result_of cfg t2 f2 (rseed seed) s2)].
  Proof.
    intros st id a seed t1 f1 c s t2 s2 f2 cfg E D. rewrite (sample_after_failed st id a seed t1 (Some (c :: s)) f1 t2 s2 f2 cfg E).
    unfold result_of. rewrite (start_missing_keeps_state cfg t1 f1 (rseed seed) c s D). reflexivity.
  Qed.
End HistoryFail.
