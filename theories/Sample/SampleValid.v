(** SampleValid: the explicit validity predicate of a random pick, and its relation to the
    model's error [EOutOfFuel] ("a pick the generator cannot produce"). *)
From Coq Require Import String.
From Coq Require Import List Ascii ZArith Bool Lia.
From CGV Require Import Base.PyBase Base.PyVal Base.PyGen Sample.GenSupport Gen.SamplerGen Sample.SampleImpl
     Sample.SampleDefs Sample.SampleProofs.
Import ListNotations.

Section Valid.
  Variable M : Type.
  Variable misz : M -> bool.
  Variable R : Type.
  Variable pick : R -> nat -> option (list M) -> res (nat * R).

  (** index in range; under random.choices the entry has non-zero weight (justified for the real
      generator by [zero_weight_never_selected] / [choices_index_in_range]) *)
  Definition valid_draw {A} (l : list A) (w : option (list M)) (i : nat) : bool :=
    (i <? length l)%nat &&
    match w with
    | Some ws => match nth_error ws i with Some wi => negb (misz wi) | None => false end
    | None => true
    end.

  (** a successful choice consumed a valid draw, and returned the element at that index *)
  Theorem choose_ok_valid {A} rng (l : list A) w x i rng' :
    choose M misz R pick rng l w = Ok (x, i, rng') -> valid_draw l w i = true /\ nth_error l i = Some x.
  Proof.
    intros H. destruct (choose_ok M misz R pick _ _ _ _ _ _ H) as [Hn Hw]. split; [|assumption].
    unfold valid_draw. assert (i < length l)%nat by (apply nth_error_Some; congruence).
    destruct (Nat.ltb_spec i (length l)); [|lia]. cbn [andb].
    destruct w as [ws|]; [|reflexivity]. destruct Hw as [wi [-> ->]]. reflexivity.
  Qed.
  (** conversely, with a valid draw delivered by the generator the choice does not fail (unless all
      weights are zero / the list is empty: the modelled exceptions of the implementation) *)
  Theorem valid_draw_choose {A} rng (l : list A) w i rng' :
    pick rng (length l) w = Ok (i, rng') -> valid_draw l w i = true -> l <> [] ->
    (forall ws, w = Some ws -> forallb misz ws = false) ->
    exists x, choose M misz R pick rng l w = Ok (x, i, rng').
  Proof.
    intros Hp Hv Hl Hz. unfold valid_draw in Hv. apply andb_true_iff in Hv as [Hi Hw].
    apply Nat.ltb_lt in Hi. destruct (nth_error l i) as [x|] eqn:E; [|apply nth_error_None in E; lia].
    exists x. unfold choose. destruct l as [|a l]; [congruence|]. destruct w as [ws|].
    - rewrite (Hz ws eq_refl), Hp. cbn [bind]. rewrite E. cbn [of_option bind].
      destruct (nth_error ws i) as [wi|]; [|discriminate]. cbn [of_option bind].
      apply negb_true_iff in Hw. now rewrite Hw.
    - rewrite Hp. cbn [bind]. rewrite E. reflexivity.
  Qed.
End Valid.
