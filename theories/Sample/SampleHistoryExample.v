(** SampleHistoryExample: concrete histories for the non-vacuity Examples of the history theorems of C17
    (Sample/SampleHistoryFail.v): a sampler whose growth dead-ends (IndexError) after five draws, and the
    interleaving construct A; construct B; sample A.  Carrier Z, generator = list of indices. *)
From Coq Require Import String.
From Coq Require Import List Ascii ZArith Bool.
From CGV Require Import Base.PyBase Base.PyVal Base.PyGen Sample.GenSupport Gen.SamplerGen Sample.SampleImpl Sample.SampleDefs
     Sample.SampleExample Sample.SampleHistory Sample.SampleHistoryFail.
Import ListNotations.
Open Scope Z_scope.

(** #A=[$]C : after one growth step no descriptor is left *)
Definition ex_dead_args : args Z :=
  {| a_frags := [(S "A", {| f_nodes := [ex_node 0 (Some [S "$1"]) "A"]; f_edges := [] |})];
     a_poly := []; a_fragreact := []; a_term := []; a_masses := [(S "A", 10)] |}.
Definition ex_args : args Z :=
  {| a_frags := ex_frags; a_poly := [(S ">", 1); (S "<", 2); (S "$A", 1); (S "$B", 0)];
     a_fragreact := [(S "$A", [(S "$A", 0); (S "$B", 3)])]; a_term := [S "$B"]; a_masses := [(S "A", 28); (S "B", 15)] |}.
(** "seeding": seed 1 -> the long valid run of SampleExample, seed 2 -> a run that starts with the other fragment, others -> ten zeros *)
Definition ex_rseed (s : Z) : list nat :=
  if s =? 1 then ex_picks else if s =? 2 then 1%nat :: repeat 0%nat 8 else repeat 0%nat 10.
Definition ex_hrun2 := hrun2 Z (fun z => z) Z.add Z.ltb (Z.eqb 0) (list nat) ex_rseed zpick.
Definition ex_growth_s := sample_growth_s Z (fun z => z) Z.add Z.ltb (Z.eqb 0) (list nat) zpick.
Definition ex_st0 : hstate Z (list nat) := {| h_rng := []; h_samplers := [] |}.
Definition start_name (o : output Z) : option pystr :=
  match o with Some (Ok (nm, _, _, _, _)) => Some nm | _ => None end.

(** a failed sample keeps the draws it made consumed: ten indices, growth dead-ends after five *)
Example failed_sample_consumes :
  exists cfg, init Z (a_frags Z ex_dead_args) [] [] [] (a_masses Z ex_dead_args) = Ok cfg /\
    ex_growth_s cfg 100 20%nat (ex_rseed 0) None = (repeat 0%nat 5, Err EIndex) /\
    map start_name (snd (ex_hrun2 ex_st0 [Construct Z 0 ex_dead_args 0; Sample Z 0 100 None 20; Sample Z 0 5 None 20; Sample Z 0 5 None 20]))
      = [None; None; Some (S "A"); None] /\
    nth 3 (snd (ex_hrun2 ex_st0 [Construct Z 0 ex_dead_args 0; Sample Z 0 100 None 20; Sample Z 0 5 None 20; Sample Z 0 5 None 20])) None
      = Some (Err EStopIter).
Proof. eexists. split; [vm_compute; reflexivity|]. split; [vm_compute; reflexivity|]. split; vm_compute; reflexivity. Qed.

(** construct A(1); construct B(2); sample A starts with fragment B as construct A(2); sample does, not with A as
    construct A(1); sample does *)
Example interleaving_uses_last_seed :
  map start_name (snd (ex_hrun2 ex_st0 [Construct Z 0 ex_args 1; Construct Z 1 ex_dead_args 2; Sample Z 0 50 None 40])) = [None; None; Some (S "B")] /\
  map start_name (snd (ex_hrun2 ex_st0 [Construct Z 0 ex_args 2; Sample Z 0 50 None 40])) = [None; Some (S "B")] /\
  map start_name (snd (ex_hrun2 ex_st0 [Construct Z 0 ex_args 1; Sample Z 0 50 None 40])) = [None; Some (S "A")].
Proof. split; [vm_compute; reflexivity|]. split; vm_compute; reflexivity. Qed.
