(** SampleProofs: theorems about the Impl model of the sampler (Sample/SampleImpl.v over the
    GENERATED helper functions), for EVERY sequence of random picks, hence every seed and RNG. *)
From Coq Require Import String.
From Coq Require Import List Ascii ZArith Bool Lia.
From CGV Require Import Base.PyBase Base.PyVal Base.PyGen Sample.GenSupport Gen.SamplerGen Sample.SampleImpl
     Sample.SampleDefs Sample.SampleSpec.
Import ListNotations.
Open Scope Z_scope.

(** * random.choices: cumulative sums + bisect.  This models the THIRD-PARTY selection rule of
    CPython's random.choices (cum_weights = accumulate(weights); index = bisect(cum_weights,
    random() * total, 0, n - 1)) over integer weights; bisect_right on a sorted list is the number
    of leading entries <= x (its specification; the binary search itself is not modelled). *)
Fixpoint cumsum (acc : Z) (ws : list Z) : list Z :=
  match ws with [] => [] | w :: r => (acc + w) :: cumsum (acc + w) r end.
Fixpoint bisect_right (a : list Z) (x : Z) (hi : nat) : nat :=
  match hi, a with
  | Datatypes.S h, y :: r => if y <=? x then Datatypes.S (bisect_right r x h) else O
  | _, _ => O
  end.
Definition choices_index (ws : list Z) (x : Z) : nat := bisect_right (cumsum 0 ws) x (length ws - 1).
Definition zsum (ws : list Z) : Z := fold_right Z.add 0 ws.

Lemma choices_index_pos_gen ws : forall acc x, ws <> [] -> Forall (fun w => 0 <= w) ws ->
  acc <= x < acc + zsum ws ->
  exists w, nth_error ws (bisect_right (cumsum acc ws) x (length ws - 1)) = Some w /\ 0 < w.
Proof.
  induction ws as [|w r IH]; intros acc x N F Hx; [congruence|].
  inversion F as [|? ? Hw Fr]; subst. destruct r as [|w2 r'].
  - cbn in *. exists w. split; [reflexivity|lia].
  - replace (length (w :: w2 :: r') - 1)%nat with (Datatypes.S (length (w2 :: r') - 1)) by (cbn [length]; lia).
    cbn [cumsum bisect_right]. destruct (Z.leb_spec (acc + w) x).
    + cbn [nth_error]. apply IH; [discriminate|assumption|]. cbn [zsum fold_right] in *. lia.
    + exists w. split; [reflexivity|lia].
Qed.
(** an entry of weight 0 is never returned for a draw in [0, total) *)
Theorem zero_weight_never_selected ws x : Forall (fun w => 0 <= w) ws -> 0 <= x < zsum ws ->
  nth_error ws (choices_index ws x) <> Some 0.
Proof.
  intros F Hx. assert (N : ws <> []) by (destruct ws; [cbn in Hx; lia|discriminate]).
  destruct (choices_index_pos_gen ws 0 x N F Hx) as [w [Hn Hw]]. unfold choices_index. rewrite Hn. intros [= ->]. lia.
Qed.
(** and the index is in range *)
Theorem choices_index_in_range ws x : Forall (fun w => 0 <= w) ws -> 0 <= x < zsum ws ->
  (choices_index ws x < length ws)%nat.
Proof.
  intros F Hx. assert (N : ws <> []) by (destruct ws; [cbn in Hx; lia|discriminate]).
  destruct (choices_index_pos_gen ws 0 x N F Hx) as [w [Hn _]]. apply nth_error_Some. unfold choices_index. congruence.
Qed.
Example choices_index_ex : map (choices_index [0; 2; 0; 3; 0]) [0; 1; 2; 3; 4] = [1; 1; 3; 3; 3]%nat.
Proof. reflexivity. Qed.

(** * The model's weighted choice never returns an entry of weight 0, never an index out of range *)
Section Carrier.
  Variable M : Type.
  Variables (c0 : Z -> M) (madd : M -> M -> M) (mltb : M -> M -> bool) (misz : M -> bool).
  Variable R : Type.
  Variable pick : R -> nat -> option (list M) -> res (nat * R).
  Notation choose := (choose M misz R pick).
  Notation select_op := (select_op M c0 misz R pick).
  Notation config := (config M).

  Lemma choose_ok {A} rng (l : list A) w x i rng' : choose rng l w = Ok (x, i, rng') ->
    nth_error l i = Some x /\
    match w with Some ws => exists wi, nth_error ws i = Some wi /\ misz wi = false | None => True end.
  Proof.
    unfold SampleImpl.choose. destruct l as [|a l]; [discriminate|]. destruct w as [ws|].
    - destruct (forallb misz ws); [discriminate|].
      destruct (pick rng (length (a :: l)) (Some ws)) as [[j r]|]; cbn [bind]; [|discriminate].
      destruct (nth_error (a :: l) j) as [y|] eqn:E1; cbn [of_option bind]; [|discriminate].
      destruct (nth_error ws j) as [wi|] eqn:E2; cbn [of_option bind]; [|discriminate].
      destruct (misz wi) eqn:E3; [discriminate|]. intros [= <- <- <-]. split; [assumption|]. exists wi. now split.
    - destruct (pick rng (length (a :: l)) None) as [[j r]|]; cbn [bind]; [|discriminate].
      destruct (nth_error (a :: l) j) as [y|] eqn:E1; cbn [of_option bind]; [|discriminate].
      intros [= <- <- <-]. now split.
  Qed.

  (** the descriptor chosen by _select_bonding_operator is one of the candidates, and when a
      non-empty table is given its (defaulted) weight is not zero *)
  Lemma select_op_ok rng bonds probs b i rng' : select_op rng bonds probs = Ok (b, i, rng') ->
    In b bonds /\
    match probs with
    | Some (kv :: p) => NoDup bonds -> misz (dict_get_default (kv :: p) b (c0 0)) = false
    | _ => True
    end.
  Proof.
    unfold SampleImpl.select_op. destruct probs as [[|kv p]|]; intros H; apply choose_ok in H as [Hn Hw];
      (split; [eapply nth_error_In; eassumption|]); try exact I.
    intros ND. destruct Hw as [wi [Hwi Hz]]. unfold select_weights in Hwi.
    rewrite nth_error_map in Hwi. rewrite Hn in Hwi. cbn in Hwi. now injection Hwi as <-.
  Qed.
End Carrier.
