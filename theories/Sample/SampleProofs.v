(** SampleProofs: theorems about the Impl model of the sampler (Sample/SampleImpl.v over the
    GENERATED helper functions), for EVERY sequence of random picks, hence every seed and RNG. *)
From Coq Require Import String.
From Coq Require Import List Ascii ZArith Bool Lia.
From CGV Require Import Base.PyBase Base.PyVal Base.PyGen Sample.GenSupport Gen.SamplerGen Sample.SampleImpl
     Sample.SampleDefs Sample.SampleSpec.
Import ListNotations.
Open Scope Z_scope.

(** * random.choices: cumulative sums + bisect.  This models the THIRD-PARTY selection rule of
    CPython's random.choices (cum_weights = accumulate(weights); index = bisect(cum_weights,
    random() * total, 0, n - 1)) over integer weights; bisect_right on a sorted list is the number
    of leading entries <= x (its specification; the binary search itself is not modelled). *)
Fixpoint cumsum (acc : Z) (ws : list Z) : list Z :=
  match ws with [] => [] | w :: r => (acc + w) :: cumsum (acc + w) r end.
Fixpoint bisect_right (a : list Z) (x : Z) (hi : nat) : nat :=
  match hi, a with
  | Datatypes.S h, y :: r => if y <=? x then Datatypes.S (bisect_right r x h) else O
  | _, _ => O
  end.
Definition choices_index (ws : list Z) (x : Z) : nat := bisect_right (cumsum 0 ws) x (length ws - 1).
Definition zsum (ws : list Z) : Z := fold_right Z.add 0 ws.

Lemma choices_index_pos_gen ws : forall acc x, ws <> [] -> Forall (fun w => 0 <= w) ws ->
  acc <= x < acc + zsum ws ->
  exists w, nth_error ws (bisect_right (cumsum acc ws) x (length ws - 1)) = Some w /\ 0 < w.
Proof.
  induction ws as [|w r IH]; intros acc x N F Hx; [congruence|].
  inversion F as [|? ? Hw Fr]; subst. destruct r as [|w2 r'].
  - cbn in *. exists w. split; [reflexivity|lia].
  - replace (length (w :: w2 :: r') - 1)%nat with (Datatypes.S (length (w2 :: r') - 1)) by (cbn [length]; lia).
    cbn [cumsum bisect_right]. destruct (Z.leb_spec (acc + w) x).
    + cbn [nth_error]. apply IH; [discriminate|assumption|]. cbn [zsum fold_right] in *. lia.
    + exists w. split; [reflexivity|lia].
Qed.
(** an entry of weight 0 is never returned for a draw in [0, total) *)
Theorem zero_weight_never_selected ws x : Forall (fun w => 0 <= w) ws -> 0 <= x < zsum ws ->
  nth_error ws (choices_index ws x) <> Some 0.
Proof.
  intros F Hx. assert (N : ws <> []) by (destruct ws; [cbn in Hx; lia|discriminate]).
  destruct (choices_index_pos_gen ws 0 x N F Hx) as [w [Hn Hw]]. unfold choices_index. rewrite Hn. intros [= ->]. lia.
Qed.
(** and the index is in range *)
Theorem choices_index_in_range ws x : Forall (fun w => 0 <= w) ws -> 0 <= x < zsum ws ->
  (choices_index ws x < length ws)%nat.
Proof.
  intros F Hx. assert (N : ws <> []) by (destruct ws; [cbn in Hx; lia|discriminate]).
  destruct (choices_index_pos_gen ws 0 x N F Hx) as [w [Hn _]]. apply nth_error_Some. unfold choices_index. congruence.
Qed.
Example choices_index_ex : map (choices_index [0; 2; 0; 3; 0]) [0; 1; 2; 3; 4] = [1; 1; 3; 3; 3]%nat.
Proof. reflexivity. Qed.

(** * The model's weighted choice never returns an entry of weight 0, never an index out of range *)
Section Carrier.
  Variable M : Type.
  Variables (c0 : Z -> M) (madd : M -> M -> M) (mltb : M -> M -> bool) (misz : M -> bool).
  Variable R : Type.
  Variable pick : R -> nat -> option (list M) -> res (nat * R).
  Notation choose := (choose M misz R pick).
  Notation select_op := (select_op M c0 misz R pick).
  Notation config := (config M).

  Lemma choose_ok {A} rng (l : list A) w x i rng' : choose rng l w = Ok (x, i, rng') ->
    nth_error l i = Some x /\
    match w with Some ws => exists wi, nth_error ws i = Some wi /\ misz wi = false | None => True end.
  Proof.
    unfold SampleImpl.choose. destruct l as [|a l]; [discriminate|]. destruct w as [ws|].
    - destruct (forallb misz ws); [discriminate|].
      destruct (pick rng (length (a :: l)) (Some ws)) as [[j r]|]; cbn [bind]; [|discriminate].
      destruct (nth_error (a :: l) j) as [y|] eqn:E1; cbn [of_option bind]; [|discriminate].
      destruct (nth_error ws j) as [wi|] eqn:E2; cbn [of_option bind]; [|discriminate].
      destruct (misz wi) eqn:E3; [discriminate|]. intros [= <- <- <-]. split; [assumption|]. exists wi. now split.
    - destruct (pick rng (length (a :: l)) None) as [[j r]|]; cbn [bind]; [|discriminate].
      destruct (nth_error (a :: l) j) as [y|] eqn:E1; cbn [of_option bind]; [|discriminate].
      intros [= <- <- <-]. now split.
  Qed.

  (** the descriptor chosen by _select_bonding_operator is one of the candidates, and when a
      non-empty table is given its (defaulted) weight is not zero *)
  Lemma select_op_ok rng bonds probs b i rng' : select_op rng bonds probs = Ok (b, i, rng') ->
    In b bonds /\
    match probs with
    | Some (kv :: p) => NoDup bonds -> misz (dict_get_default (kv :: p) b (c0 0)) = false
    | _ => True
    end.
  Proof.
    unfold SampleImpl.select_op. destruct probs as [[|kv p]|]; intros H; apply choose_ok in H as [Hn Hw];
      (split; [eapply nth_error_In; eassumption|]); try exact I.
    intros ND. destruct Hw as [wi [Hwi Hz]]. unfold select_weights in Hwi.
    rewrite nth_error_map in Hwi. rewrite Hn in Hwi. cbn in Hwi. now injection Hwi as <-.
  Qed.
End Carrier.

(** * The stop rule, from the loop guard only, over the generic carrier *)
Section Loop.
  Variable M : Type.
  Variables (c0 : Z -> M) (madd : M -> M -> M) (mltb : M -> M -> bool) (misz : M -> bool).
  Variable R : Type.
  Variable pick : R -> nat -> option (list M) -> res (nat * R).
  Notation grow := (grow M c0 madd mltb misz R pick).
  Notation step := (step M c0 misz R pick).

  (** masses of the fragments named by a piece of trajectory *)
  Fixpoint masses_of (cfg : config M) (l : list srec) : option (list M) :=
    match l with
    | [] => Some []
    | r :: l' => match dict_get (c_masses cfg) (r_fragname r), masses_of cfg l' with
                 | Some x, Some xs => Some (x :: xs) | _, _ => None end
    end.
  Lemma masses_of_app cfg a b xs ys : masses_of cfg a = Some xs -> masses_of cfg b = Some ys ->
    masses_of cfg (a ++ b) = Some (xs ++ ys).
  Proof.
    revert xs. induction a as [|r a IH]; cbn; intros xs.
    - now intros [= <-].
    - destruct (dict_get (c_masses cfg) (r_fragname r)); [|discriminate].
      destruct (masses_of cfg a) as [xs'|]; [|discriminate]. intros [= <-] Hb. now rewrite (IH xs' eq_refl Hb).
  Qed.

  (** at exit the guard is false for the accumulated weight; the accumulated weight is the left
      fold of the masses of the fragments added in the loop; before the last addition the guard
      was true.  With the generated guard [ltb current target]: sum >= target, and < target
      without the last fragment. *)
  Theorem stop_rule cfg target fuel : forall rng m cw log m' cw' log' rng',
    grow cfg target fuel rng m cw log = Ok (m', cw', log', rng') ->
    exists new ms, log' = log ++ new /\ masses_of cfg new = Some ms /\ cw' = fold_left madd ms cw /\
      loop_guard mltb cw' target = false /\
      (forall front last, ms = front ++ [last] -> loop_guard mltb (fold_left madd front cw) target = true).
  Proof.
    induction fuel as [|f IH]; intros rng m cw log m' cw' log' rng'; cbn [SampleImpl.grow].
    - destruct (loop_guard mltb cw target) eqn:G; [discriminate|]. intros [= <- <- <- <-].
      exists [], []. rewrite app_nil_r. repeat split; try assumption. intros [|? ?] ? H; discriminate.
    - destruct (loop_guard mltb cw target) eqn:G.
      + destruct (step cfg rng m) as [[[m1 r] rng1]|] eqn:E; cbn [bind]; [|discriminate].
        destruct (dict_get (c_masses cfg) (r_fragname r)) as [x|] eqn:Ex; cbn [of_option bind]; [|discriminate].
        intros H. destruct (IH _ _ _ _ _ _ _ _ H) as [new [ms [Hl [Hm [Hc [Hg Hf]]]]]].
        exists (r :: new), (x :: ms). split; [rewrite Hl, <- app_assoc; reflexivity|].
        split; [cbn; rewrite Ex, Hm; reflexivity|]. split; [assumption|]. split; [assumption|].
        intros front last Hfl. destruct front as [|y front].
        * cbn. assumption.
        * cbn in Hfl. injection Hfl as <- Hms. cbn. eapply Hf. eassumption.
      + intros [= <- <- <- <-]. exists [], []. rewrite app_nil_r. repeat split; try assumption.
        intros [|? ?] ? H; discriminate.
  Qed.
End Loop.

(** the stop rule at Z, in the words of C17 *)
Corollary stop_rule_Z (R : Type) pick cfg target fuel rng m log m' cw' log' rng' :
  grow Z (fun z => z) Z.add Z.ltb (Z.eqb 0) R pick cfg target fuel rng m 0 log = Ok (m', cw', log', rng') ->
  exists new ms, log' = log ++ new /\ masses_of Z cfg new = Some ms /\
    target <= zsum ms /\ (forall front last, ms = front ++ [last] -> zsum front < target).
Proof.
  intros H. apply stop_rule in H. destruct H as [new [ms [Hl [Hm [Hc [Hg Hf]]]]]].
  assert (FS : forall l a, fold_left Z.add l a = a + zsum l).
  { unfold zsum. induction l as [|x l IH]; intros a; cbn [fold_left fold_right]; [lia|]. rewrite IH. lia. }
  exists new, ms. split; [assumption|]. split; [assumption|]. unfold loop_guard in *. split.
  - rewrite Hc, FS in Hg. apply Z.ltb_ge in Hg. lia.
  - intros front last E. specialize (Hf front last E). rewrite FS in Hf. apply Z.ltb_lt in Hf. lia.
Qed.

(** * One growth step *)
Lemma find_update_same k f ns : (forall n, n_key (f n) = n_key n) ->
  find_node k (update_node k f ns) = option_map f (find_node k ns).
Proof.
  intros Hf. induction ns as [|n r IH]; cbn; [reflexivity|].
  destruct (Z.eqb_spec (n_key n) k) as [E|N]; cbn.
  - rewrite Hf, E, Z.eqb_refl. reflexivity.
  - destruct (Z.eqb_spec (n_key n) k); [contradiction|assumption].
Qed.
Lemma find_update_other k k' f ns : (forall n, n_key (f n) = n_key n) -> k <> k' ->
  find_node k (update_node k' f ns) = find_node k ns.
Proof.
  intros Hf N. induction ns as [|n r IH]; cbn; [reflexivity|].
  destruct (Z.eqb_spec (n_key n) k') as [E|N']; cbn.
  - rewrite Hf. destruct (Z.eqb_spec (n_key n) k); [congruence|reflexivity].
  - destruct (Z.eqb_spec (n_key n) k); [reflexivity|assumption].
Qed.
Lemma set_bonding_key b n : n_key (set_bonding b n) = n_key n. Proof. reflexivity. Qed.
Definition kf (n : mnode) : Z * Z := (n_key n, n_fragid n).
Lemma update_kf k b ns : map kf (update_node k (set_bonding b) ns) = map kf ns.
Proof. induction ns as [|n r IH]; cbn; [reflexivity|]. destruct (Z.eqb (n_key n) k); cbn; [reflexivity|now rewrite IH]. Qed.

Lemma cnt_remove1_same d l l' : remove1 d l = Some l' -> (cnt d l' + 1 = cnt d l)%nat.
Proof.
  revert l'. induction l as [|x r IH]; cbn; intros l'; [discriminate|].
  destruct (str_eqb_spec d x) as [->|N].
  - intros [= <-]. lia.
  - destruct (remove1 d r) as [r'|]; [|discriminate]. intros [= <-]. cbn.
    destruct (str_eqb_spec d x); [contradiction|]. specialize (IH r' eq_refl). lia.
Qed.
Lemma cnt_remove1_other d e l l' : d <> e -> remove1 e l = Some l' -> cnt d l' = cnt d l.
Proof.
  intros N. revert l'. induction l as [|x r IH]; cbn; intros l'; [discriminate|].
  destruct (str_eqb_spec e x) as [->|N2].
  - intros [= <-]. destruct (str_eqb_spec d x); [contradiction|reflexivity].
  - destruct (remove1 e r) as [r'|]; [|discriminate]. intros [= <-]. cbn. now rewrite (IH r' eq_refl).
Qed.
Lemma cnt_filter_le d f l : (cnt d (filter f l) <= cnt d l)%nat.
Proof. induction l as [|x r IH]; cbn; [lia|]. destruct (f x); cbn; lia. Qed.

Lemma remove_desc_inv ns k d ns' : remove_desc ns k d = Ok ns' ->
  exists n ds ds', find_node k ns = Some n /\ n_bonding n = Some ds /\ remove1 d ds = Some ds' /\
                   ns' = update_node k (set_bonding (Some ds')) ns.
Proof.
  unfold remove_desc. destruct (find_node k ns) as [n|]; cbn [of_option bind]; [|discriminate].
  destruct (n_bonding n) as [ds|] eqn:B; cbn [of_option bind]; [|discriminate].
  destruct (remove1 d ds) as [ds'|] eqn:E; cbn [of_option bind]; [|discriminate].
  intros [= <-]. exists n, ds, ds'. repeat split; assumption.
Qed.

Section Step.
  Variable M : Type.
  Variables (c0 : Z -> M) (misz : M -> bool).
  Variable R : Type.
  Variable pick : R -> nat -> option (list M) -> res (nat * R).
  Notation step_select := (step_select M c0 misz R pick).
  Notation step_apply := (@step_apply M).
  Variable cfg : config M.

  (** the four decisions: the site is an open descriptor, the partner is complementary *)
  Theorem select_complementary rng ob s rng' : step_select cfg rng ob = Ok (s, rng') ->
    In (s_bonding s) (map fst ob) /\
    (exists srcs, dict_get ob (s_bonding s) = Some srcs /\ In (s_source s) srcs) /\
    In (s_compl s) (map fst (c_byb cfg)) /\
    (kind_in_domain (s_bonding s) = true -> compl_spec (s_bonding s) (s_compl s) = true) /\
    In (s_fragname s, s_tnode s) (dict_get_default (c_byb cfg) (s_compl s) []).
  Proof.
    unfold SampleImpl.step_select.
    destruct (select_op M c0 misz R pick rng (map fst ob) (Some (c_poly cfg))) as [[[b i1] r1]|] eqn:E1; cbn [bind]; [|discriminate].
    destruct (dict_get ob b) as [srcs|] eqn:E2; cbn [of_option bind]; [|discriminate].
    destruct (choose M misz R pick r1 srcs None) as [[[src i2] r2]|] eqn:E3; cbn [bind]; [|discriminate].
    destruct (find_complementary_bonding_descriptor b (map fst (c_byb cfg))) as [cb|] eqn:E4; cbn [bind]; [|discriminate].
    destruct (select_op M c0 misz R pick r2 cb (dict_get (c_fragreact cfg) b)) as [[[c i3] r3]|] eqn:E5; cbn [bind]; [|discriminate].
    destruct (choose M misz R pick r3 (dict_get_default (c_byb cfg) c []) None) as [[[ft i4] r4]|] eqn:E6; cbn [bind]; [|discriminate].
    intros [= <- <-]. cbn.
    apply select_op_ok in E1 as [H1 _]. apply choose_ok in E3 as [H3 _]. apply select_op_ok in E5 as [H5 _].
    apply choose_ok in E6 as [H6 _]. destruct (find_compl_sound _ _ _ E4 c H5) as [Hin Hc].
    split; [assumption|]. split; [exists srcs; split; [assumption|eapply nth_error_In; eassumption]|].
    split; [assumption|]. split; [assumption|]. destruct ft. eapply nth_error_In; eassumption.
  Qed.

  (** zero reactivities: with a non-empty polymer table the site has non-zero weight; with a
      non-empty conditional table for the site the partner has non-zero conditional weight *)
  Theorem select_nonzero rng ob s rng' : step_select cfg rng ob = Ok (s, rng') ->
    (match c_poly cfg with kv :: p => misz (dict_get_default (kv :: p) (s_bonding s) (c0 0)) = false | [] => True end) /\
    (match dict_get (c_fragreact cfg) (s_bonding s) with
     | Some (kv :: p) => misz (dict_get_default (kv :: p) (s_compl s) (c0 0)) = false
     | _ => True end).
  Proof.
    unfold SampleImpl.step_select.
    destruct (select_op M c0 misz R pick rng (map fst ob) (Some (c_poly cfg))) as [[[b i1] r1]|] eqn:E1; cbn [bind]; [|discriminate].
    destruct (dict_get ob b) as [srcs|] eqn:E2; cbn [of_option bind]; [|discriminate].
    destruct (choose M misz R pick r1 srcs None) as [[[src i2] r2]|] eqn:E3; cbn [bind]; [|discriminate].
    destruct (find_complementary_bonding_descriptor b (map fst (c_byb cfg))) as [cb|] eqn:E4; cbn [bind]; [|discriminate].
    destruct (select_op M c0 misz R pick r2 cb (dict_get (c_fragreact cfg) b)) as [[[c i3] r3]|] eqn:E5; cbn [bind]; [|discriminate].
    destruct (choose M misz R pick r3 (dict_get_default (c_byb cfg) c []) None) as [[[ft i4] r4]|] eqn:E6; cbn [bind]; [|discriminate].
    intros [= <- <-]. cbn. split.
    - unfold SampleImpl.select_op in E1. destruct (c_poly cfg) as [|kv p]; [exact I|].
      apply choose_ok in E1 as [Hn [wi [Hw Hz]]]. unfold select_weights in Hw. rewrite nth_error_map, Hn in Hw.
      cbn in Hw. now injection Hw as <-.
    - unfold SampleImpl.select_op in E5. destruct (dict_get (c_fragreact cfg) b) as [[|kv p]|]; try exact I.
      apply choose_ok in E5 as [Hn [wi [Hw Hz]]]. unfold select_weights in Hw. rewrite nth_error_map, Hn in Hw.
      cbn in Hw. now injection Hw as <-.
  Qed.

  (** shape of the molecule after the deterministic part of the step *)
  Lemma step_apply_inv m s m' tgt : step_apply cfg m s = Ok (m', tgt) ->
    exists tpl off fo es ns1 ns2 order,
      dict_get (c_frags cfg) (s_fragname s) = Some tpl /\ merge_offsets m = Ok (off, fo) /\
      mk_edges (mk_corr off 0 (f_nodes tpl)) (f_edges tpl) = Ok es /\
      assocz (s_tnode s) (mk_corr off 0 (f_nodes tpl)) = Some tgt /\
      remove_desc (m_nodes m ++ mk_nodes fo off 0 (f_nodes tpl)) (s_source s) (s_bonding s) = Ok ns1 /\
      remove_desc ns1 tgt (s_compl s) = Ok ns2 /\
      terminal_step (c_term cfg) (s_compl s) ns2 (s_source s) = Ok (m_nodes m') /\
      m_edges m' = (m_edges m ++ es) ++ [{| e_u := s_source s; e_v := tgt; e_bonding := Some (s_bonding s, s_compl s);
                                            e_attrs := [(S "order", VInt order)] |}].
  Proof.
    unfold SampleImpl.step_apply, merge_graphs.
    destruct (dict_get (c_frags cfg) (s_fragname s)) as [tpl|] eqn:D1; cbn [of_option bind]; [|discriminate].
    destruct (merge_offsets m) as [[off fo]|] eqn:D2; cbn [bind]; [|discriminate].
    destruct (mk_edges (mk_corr off 0 (f_nodes tpl)) (f_edges tpl)) as [es|] eqn:D3; cbn [bind]; [|discriminate].
    destruct (assocz (s_tnode s) (mk_corr off 0 (f_nodes tpl))) as [t|] eqn:D4; cbn [of_option bind]; [|discriminate].
    destruct (py_last (s_bonding s)) as [ch|]; cbn [bind]; [|discriminate].
    destruct (py_int [ch]) as [order|]; cbn [bind]; [|discriminate].
    cbn [m_nodes m_edges].
    destruct (remove_desc _ (s_source s) (s_bonding s)) as [ns1|] eqn:E1; cbn [bind]; [|discriminate].
    destruct (remove_desc ns1 t (s_compl s)) as [ns2|] eqn:E2; cbn [bind]; [|discriminate].
    destruct (terminal_step (c_term cfg) (s_compl s) ns2 (s_source s)) as [ns3|] eqn:E3; cbn [bind]; [|discriminate].
    intros [= <- <-]. exists tpl, off, fo, es, ns1, ns2, order. cbn. repeat split; try reflexivity; assumption.
  Qed.

  (** terminal handling, the two branches after the bond *)
  Theorem terminal_closes_atom m s m' tgt : step_apply cfg m s = Ok (m', tgt) ->
    str_in (s_compl s) (c_term cfg) = true ->
    exists n, find_node (s_source s) (m_nodes m') = Some n /\ n_bonding n = None.
  Proof.
    intros H T. destruct (step_apply_inv _ _ _ _ H) as (tpl & off & fo & es & ns1 & ns2 & o & _ & _ & _ & _ & _ & _ & H3 & _).
    unfold terminal_step in H3. destruct (find_node (s_source s) ns2) as [n|] eqn:F; cbn [of_option bind] in H3; [|discriminate].
    rewrite T in H3. destruct (n_bonding n); [|discriminate]. injection H3 as <-.
    rewrite find_update_same, F by apply set_bonding_key. eexists. split; reflexivity.
  Qed.
  Theorem terminal_withdrawn m s m' tgt : step_apply cfg m s = Ok (m', tgt) ->
    str_in (s_compl s) (c_term cfg) = false ->
    exists n ds, find_node (s_source s) (m_nodes m') = Some n /\ n_bonding n = Some ds /\
                 Forall (fun d => str_in d (c_term cfg) = false) ds.
  Proof.
    intros H T. destruct (step_apply_inv _ _ _ _ H) as (tpl & off & fo & es & ns1 & ns2 & o & _ & _ & _ & _ & _ & _ & H3 & _).
    unfold terminal_step in H3. destruct (find_node (s_source s) ns2) as [n|] eqn:F; cbn [of_option bind] in H3; [|discriminate].
    rewrite T in H3. injection H3 as <-.
    rewrite find_update_same, F by apply set_bonding_key. eexists. eexists. split; [reflexivity|]. split; [reflexivity|].
    apply Forall_forall. intros d Hd. apply filter_In in Hd as [_ Hd]. now apply negb_true_iff in Hd.
  Qed.
  (** an atom without 'bonding' never gets descriptors again (it cannot even be selected) *)
  Theorem closed_stays_closed m s m' tgt k n : step_apply cfg m s = Ok (m', tgt) ->
    find_node k (m_nodes m) = Some n -> n_bonding n = None ->
    exists n', find_node k (m_nodes m') = Some n' /\ n_bonding n' = None.
  Proof.
    intros H F B. destruct (step_apply_inv _ _ _ _ H) as (tpl & off & fo & es & ns1 & ns2 & o & _ & _ & _ & _ & H1 & H2 & H3 & _).
    assert (F0 : find_node k (m_nodes m ++ mk_nodes fo off 0 (f_nodes tpl)) = Some n).
    { clear - F. induction (m_nodes m) as [|x r IH]; cbn in *; [discriminate|]. destruct (Z.eqb (n_key x) k); auto. }
    apply remove_desc_inv in H1 as (n1 & ds1 & ds1' & Fa & Ba & _ & ->).
    assert (Nk1 : k <> s_source s) by (intros ->; rewrite F0 in Fa; injection Fa as <-; congruence).
    assert (F1 : find_node k (update_node (s_source s) (set_bonding (Some ds1')) (m_nodes m ++ mk_nodes fo off 0 (f_nodes tpl))) = Some n)
      by (rewrite find_update_other by (try apply set_bonding_key; assumption); assumption).
    apply remove_desc_inv in H2 as (n2 & ds2 & ds2' & Fb & Bb & _ & ->).
    assert (Nk2 : k <> tgt) by (intros ->; rewrite F1 in Fb; injection Fb as <-; congruence).
    unfold terminal_step in H3.
    match type of H3 with context [find_node (s_source s) ?l] => destruct (find_node (s_source s) l) as [n3|] end;
      cbn [of_option bind] in H3; [|discriminate].
    exists n. split; [|assumption].
    destruct (str_in (s_compl s) (c_term cfg)); [destruct (n_bonding n3); [|discriminate]|]; injection H3 as <-;
      rewrite !find_update_other by (try apply set_bonding_key; assumption); assumption.
  Qed.
End Step.
