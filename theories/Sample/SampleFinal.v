(** SampleFinal: the finalisation of MoleculeSampler.sample() on the networkx graph itself:
      molecule  |->  rebuild_h_atoms (all-atom)  |->  sort_nodes_by_attr("fragid")  |->  atom names
    The growing molecule of Sample/SampleImpl.v (nodes in insertion order, edges in creation
    order) is replayed into Base.NxGraph (add_node / add_edge in the order the code calls them), which
    yields networkx' node order AND adjacency order.  The three steps are the models of the other
    components: Hydro.Hydrogens.rebuild_h_atoms (only pysmiles' correct_aromatic_rings is a
    transcript, with its checked contract), Resolve.GraphOps.sort_nodes_by_attr and
    set_atom_names_nometa.  NO proofs here. *)
From Coq Require Import String.
From Coq Require Import List Ascii ZArith Bool.
From CGV Require Import Base.PyBase Base.PyVal Base.NxGraph Sample.SampleImpl.
From CGV Require Resolve.GraphOps Hydro.Hydrogens.
Import ListNotations.
Open Scope Z_scope.

Definition to_nx (m : mol) : graph :=
  let g0 := fold_left (fun g n => add_node g (fst (onode_of n)) (snd (onode_of n))) (m_nodes m) gempty in
  fold_left (fun g e => let '(u, v, a) := oedge_of e in add_edge g u v a) (m_edges m) g0.

(** [car]: the recorded graph right after pysmiles.correct_aromatic_rings (None: it raised) *)
Definition finalise_nx (all_atom : bool) (g : graph) (car : option graph) : res graph :=
  g1 <- (if all_atom then Hydrogens.rebuild_h_atoms_default g car else Ok g) ;;
  g2 <- GraphOps.sort_nodes_by_attr g1 ;;
  if all_atom then GraphOps.set_atom_names_nometa g2 else Ok g2.
