(** SampleTemplateNx: the fragment graph handed to compute_mass, replayed into Base.NxGraph
    ([template_nx]: add_node per template node, add_edge per template edge, as in Sample/SampleFinal.to_nx),
    REPRESENTS the template in the sense of Sample/SampleMassHydro.v and satisfies the structural
    hypotheses of the hydrogen component's end-to-end theorem.  Hence [mass_is_hydro_mass]:
    the sampler's compute_mass = the mass loop over Hydro's completion of the fragment graph. *)
From Coq Require Import String.
From Coq Require Import List Ascii ZArith Bool Lia.
From CGV Require Import Base.PyBase Base.PyVal Base.PyGen Base.NxGraph Sample.GenSupport Gen.SamplerGen Sample.SampleImpl
     Sample.SampleDefs Sample.SampleProofs Sample.SampleMass Sample.SampleMassDefs Sample.SampleMassHydro.
From CGV Require Gen.HydroGen Hydro.Hydrogens Hydro.HydroDefs Hydro.GraphLemmas Hydro.HydrogensProofs Hydro.SquashDefs
     Hydro.SquashProofs Hydro.RebuildProofs.
Import ListNotations.
Open Scope Z_scope.
Import GraphLemmas.
Module SP := SquashProofs.

(** what compute_mass needs of a template (decidable, evaluated on every case of the check):
    distinct node keys; edges between own nodes, no self loop, no pair twice; attribute lists are dicts;
    no 'rs_isomer' *)
Fixpoint distinct_pairs (l : list (Z * Z * attrs)) : Prop :=
  match l with
  | [] => True
  | e :: r => fst (fst e) <> snd (fst e) /\
              Forall (fun e' => SP.eqpair (fst (fst e')) (snd (fst e')) (fst (fst e)) (snd (fst e)) = false) r /\
              distinct_pairs r
  end.
Definition mass_wf (t : template) : Prop :=
  NoDup (map t_key (f_nodes t)) /\
  Forall (fun e => In (fst (fst e)) (map t_key (f_nodes t)) /\ In (snd (fst e)) (map t_key (f_nodes t)) /\
                   NoDup (map fst (snd e))) (f_edges t) /\
  distinct_pairs (f_edges t) /\
  Forall (fun n => tattrs_ok (t_attrs n)) (f_nodes t).

(** * attribute facts *)
Lemma aget_notin k a : ~ In k (map fst a) -> aget k a = None.
Proof.
  induction a as [|[k' v] r IH]; cbn; [reflexivity|]. intros N. destruct (str_eqb_spec k k') as [->|_]; [exfalso; apply N; now left|].
  apply IH. intro X. apply N. now right.
Qed.
Lemma aget_aupdate_nd k b : NoDup (map fst b) -> forall a,
  aget k (aupdate a b) = match aget k b with Some v => Some v | None => aget k a end.
Proof.
  unfold aupdate. induction b as [|[k0 v0] b IH]; intros ND a; cbn [fold_left aget fst snd]; [reflexivity|].
  inversion ND as [|? ? Hn ND']; subst. rewrite IH by exact ND'. destruct (str_eqb_spec k k0) as [->|N].
  - rewrite (aget_notin k0 b Hn). apply aget_aset_same.
  - rewrite aget_aset_other by exact N. reflexivity.
Qed.
Lemma aget_app k a b : aget k (a ++ b) = match aget k a with Some v => Some v | None => aget k b end.
Proof. induction a as [|[k' v] r IH]; cbn; [reflexivity|]. destruct (str_eqb k k'); [reflexivity|exact IH]. Qed.

Lemma tattrs_get k t : k <> S "fragid" -> k <> S "bonding" -> aget k (tattrs t) = aget k (t_attrs t).
Proof.
  intros N1 N2. unfold tattrs. rewrite aget_app. destruct (aget k (t_attrs t)); [reflexivity|].
  cbn [app aget]. destruct (str_eqb_spec k (S "fragid")); [contradiction|].
  destruct (t_bonding t); cbn [aget]; [|reflexivity]. destruct (str_eqb_spec k (S "bonding")); [contradiction|reflexivity].
Qed.

(** * one add_edge between two present, not yet connected, distinct nodes *)
Lemma sum_orders_app_one l w d s o : Hydrogens.sum_orders l = Ok s -> Hydrogens.order_half d = Ok o ->
  Hydrogens.sum_orders (l ++ [(w, d)]) = Ok (s + o).
Proof.
  revert s. induction l as [|[w' d'] l IH]; intros s Hs Ho.
  - cbn in Hs. inversion Hs; subst. cbn. rewrite Ho. cbn. f_equal. lia.
  - cbn [app Hydrogens.sum_orders] in *. destruct (Hydrogens.order_half d') as [o'|]; cbn [bind] in *; [|discriminate].
    destruct (Hydrogens.sum_orders l) as [s'|] eqn:E; cbn [bind] in *; [|discriminate]. inversion Hs; subst s.
    rewrite (IH s' eq_refl Ho). cbn [bind]. f_equal. lia.
Qed.

Lemma add_edge_fresh_gfind g a b d : a <> b -> has_node g a = true -> has_node g b = true ->
  has_edge g a b = false -> has_edge g b a = false ->
  forall k n, gfind k g = Some n ->
    gfind k (add_edge g a b d) =
      Some {| nk := nk n; na := na n;
              nadj := nadj n ++ (if Z.eqb k a then [(b, aupdate [] d)] else if Z.eqb k b then [(a, aupdate [] d)] else []) |}.
Proof.
  intros Nab Ha Hb Eab Eba k n Gk. unfold add_edge. rewrite Ha, Hb.
  assert (Eo : edge_attrs g a b = Err EKey).
  { unfold edge_attrs. unfold has_edge in Eab. destruct (gfind a g) as [m|]; [|reflexivity]. destruct (adj_get b (nadj m)); [discriminate|reflexivity]. }
  rewrite Eo. rewrite gfind_gupdate by reflexivity. rewrite gfind_gupdate by reflexivity.
  destruct (Z.eqb_spec k b) as [->|Nb].
  - destruct (Z.eqb_spec b a) as [E|_]; [congruence|]. rewrite Gk. cbn [option_map]. f_equal.
    unfold has_edge in Eba. rewrite Gk in Eba. rewrite HydrogensProofs.adj_set_fresh; [reflexivity|].
    destruct (adj_get a (nadj n)); [discriminate|reflexivity].
  - destruct (Z.eqb_spec k a) as [->|Na].
    + rewrite Gk. cbn [option_map]. f_equal. unfold has_edge in Eab. rewrite Gk in Eab.
      rewrite HydrogensProofs.adj_set_fresh; [reflexivity|]. destruct (adj_get b (nadj n)); [discriminate|reflexivity].
    + rewrite Gk. destruct n; cbn. rewrite app_nil_r. reflexivity.
Qed.

Lemma add_edge_is_add_edges g a b d : add_edge g a b d = SP.add_edges [(a, b, d)] g.
Proof. reflexivity. Qed.

Lemma order_half_of_int d o : NoDup (map fst d) -> attr_int_default (S "order") d 1 = Ok o ->
  Hydrogens.order_half (aupdate [] d) = Ok (2 * o).
Proof.
  intros ND. unfold attr_int_default, Hydrogens.order_half. rewrite aget_aupdate_nd by exact ND.
  destruct (aget (S "order") d) as [[]|]; cbn [aget]; try discriminate; intros [= <-]; reflexivity.
Qed.

(** * the fold of add_edge: bond orders add up to the template's bond sums *)
Lemma sum_orders_add_edges l : forall g, distinct_pairs l ->
  (forall e, In e l -> has_node g (fst (fst e)) = true /\ has_node g (snd (fst e)) = true /\ NoDup (map fst (snd e)) /\
                       has_edge g (fst (fst e)) (snd (fst e)) = false /\ has_edge g (snd (fst e)) (fst (fst e)) = false) ->
  forall k n, gfind k g = Some n ->
    exists n', gfind k (SP.add_edges l g) = Some n' /\ na n' = na n /\
      forall s b, Hydrogens.sum_orders (nadj n) = Ok s -> bond_sum k l = Ok b -> Hydrogens.sum_orders (nadj n') = Ok (s + 2 * b).
Proof.
  induction l as [|[[a b] d] l IH]; intros g Dp Hl k n Gk.
  - exists n. split; [exact Gk|]. split; [reflexivity|]. intros s b0 Hs Hb. cbn in Hb. inversion Hb; subst. rewrite Z.add_0_r. exact Hs.
  - destruct Dp as (Nab & Fd & Dp'). cbn [fst snd] in Nab.
    destruct (Hl (a, b, d) (or_introl eq_refl)) as (Ha & Hb & Nd & Eab & Eba). cbn [fst snd] in *.
    unfold SP.add_edges. cbn [fold_left fst snd]. fold (SP.add_edges l (add_edge g a b d)).
    pose proof (add_edge_fresh_gfind g a b d Nab Ha Hb Eab Eba k n Gk) as G1.
    destruct (SP.add_edges_spec [(a, b, d)] g) as (K1 & _ & E1).
    { intros e [<-|[]]. cbn [fst snd]. split; assumption. }
    rewrite <- add_edge_is_add_edges in K1, E1.
    edestruct (IH (add_edge g a b d) Dp') as (n' & Gn' & An' & Sn'); [|exact G1|].
    { intros e Hin. destruct (Hl e (or_intror Hin)) as (H1 & H2 & H3 & H4 & H5).
      rewrite (SP.has_node_same_keys _ g (fst (fst e)) K1), (SP.has_node_same_keys _ g (snd (fst e)) K1). split; [exact H1|]. split; [exact H2|]. split; [exact H3|].
      rewrite !E1, H4, H5. cbn [existsb fst snd orb]. rewrite Forall_forall in Fd. specialize (Fd e Hin). cbn [fst snd] in Fd.
      rewrite !orb_false_r. split; [exact Fd|]. unfold SP.eqpair in *. rewrite orb_comm.
      rewrite (andb_comm (_ =? a)), (andb_comm (_ =? b)). exact Fd. }
    exists n'. split; [exact Gn'|]. split; [exact An'|]. intros s b0 Hs Hb0. cbn [na nadj] in *.
    cbn [bond_sum] in Hb0. destruct (bond_sum k l) as [rest|] eqn:Er; cbn [bind] in Hb0; [|discriminate].
    destruct (Z.eqb_spec a k) as [->|Nak]; cbn [orb] in Hb0.
    + destruct (attr_int_default (S "order") d 1) as [o|] eqn:Eo; cbn [bind] in Hb0; [|discriminate]. inversion Hb0; subst b0.
      rewrite Z.eqb_refl in Sn'. rewrite (Sn' (s + 2 * o) rest); [f_equal; lia| |reflexivity].
      apply sum_orders_app_one; [exact Hs|apply order_half_of_int; assumption].
    + destruct (Z.eqb_spec k a) as [E|_]; [congruence|]. destruct (Z.eqb_spec b k) as [->|Nbk].
      * destruct (attr_int_default (S "order") d 1) as [o|] eqn:Eo; cbn [bind] in Hb0; [|discriminate]. inversion Hb0; subst b0.
        rewrite Z.eqb_refl in Sn'. rewrite (Sn' (s + 2 * o) rest); [f_equal; lia| |reflexivity].
        apply sum_orders_app_one; [exact Hs|apply order_half_of_int; assumption].
      * destruct (Z.eqb_spec k b) as [E|_]; [congruence|]. inversion Hb0; subst b0. rewrite app_nil_r in Sn'. apply Sn'; [exact Hs|reflexivity].
Qed.

(** * the replayed fragment graph *)
Lemma fold_add_tnode_fresh (ns : list tnode) : forall acc,
  NoDup (node_keys acc ++ map t_key ns) ->
  fold_left (fun g n => add_node g (t_key n) (tattrs n)) ns acc = acc ++ map tnrec ns.
Proof.
  induction ns as [|n r IH]; intros acc ND; cbn [fold_left map]; [now rewrite app_nil_r|].
  assert (Hfresh : has_node acc (t_key n) = false).
  { destruct (has_node acc (t_key n)) eqn:E; [|reflexivity]. apply SP.has_node_keys in E. exfalso.
    cbn [map] in ND. apply NoDup_remove_2 in ND. apply ND. apply in_or_app. now left. }
  unfold add_node at 2. rewrite Hfresh. rewrite IH.
  - rewrite <- app_assoc. reflexivity.
  - unfold node_keys. rewrite map_app, <- app_assoc. cbn [map app nk]. exact ND.
Qed.
Lemma template_nx_eq t : NoDup (map t_key (f_nodes t)) ->
  template_nx t = SP.add_edges (f_edges t) (map tnrec (f_nodes t)).
Proof. intros ND. unfold template_nx, SP.add_edges. rewrite fold_add_tnode_fresh by exact ND. reflexivity. Qed.

Lemma gfind_tnrec ns t : NoDup (map t_key ns) -> In t ns -> gfind (t_key t) (map tnrec ns) = Some (tnrec t).
Proof.
  induction ns as [|x r IH]; intros ND Hin; [destruct Hin|]. cbn [map gfind tnrec nk].
  inversion ND as [|? ? Hn ND']; subst. destruct Hin as [->|Hin]; [now rewrite Z.eqb_refl|].
  destruct (Z.eqb_spec (t_key x) (t_key t)) as [E|_]; [|now apply IH].
  exfalso. apply Hn. rewrite E. now apply in_map.
Qed.

Lemma existsb_eqpair_sym_ (l : list (Z * Z * attrs)) y x :
  existsb (fun e => SP.eqpair y x (fst (fst e)) (snd (fst e))) l =
  existsb (fun e => SP.eqpair x y (fst (fst e)) (snd (fst e))) l.
Proof.
  induction l as [|e r IHr]; cbn [existsb]; [reflexivity|]. rewrite IHr. f_equal.
  unfold SP.eqpair. rewrite orb_comm. f_equal; apply andb_comm.
Qed.

Lemma forall2_rep_ (P : tnode -> nrec -> Prop) (G : Z -> option nrec) ns : forall l,
  Forall2 (fun k n => G k = Some n) (map t_key ns) l ->
  (forall tn, In tn ns -> forall n, G (t_key tn) = Some n -> P tn n) -> Forall2 P ns l.
Proof.
  induction ns as [|tn r IH]; intros l F Per; inversion F as [|? n ? l' Gn F']; subst; constructor.
  - apply Per; [now left|exact Gn].
  - apply IH; [exact F'|]. intros tn' Hin. apply Per. now right.
Qed.

Theorem template_nx_represents t : mass_wf t ->
  represents t (template_nx t) /\
  NoDup (node_keys (template_nx t)) /\ RebuildProofs.closed_g (template_nx t) /\ RebuildProofs.noself_g (template_nx t) /\
  (forall i n, gfind i (template_nx t) = Some n -> RebuildProofs.no_rs n).
Proof.
  intros (ND & He & Dp & Ha). rewrite (template_nx_eq t ND). set (g0 := map tnrec (f_nodes t)).
  assert (K0 : node_keys g0 = map t_key (f_nodes t)) by (unfold g0, node_keys; rewrite map_map; reflexivity).
  assert (E0 : forall y x, has_edge g0 y x = false).
  { intros y x. unfold has_edge. destruct (gfind y g0) as [n|] eqn:G; [|reflexivity].
    apply gfind_In in G. unfold g0 in G. apply in_map_iff in G as [n0 [<- _]]. reflexivity. }
  assert (Hn0 : forall e, In e (f_edges t) -> has_node g0 (fst (fst e)) = true /\ has_node g0 (snd (fst e)) = true).
  { intros e Hin. rewrite Forall_forall in He. destruct (He e Hin) as (Hu & Hv & _).
    split; apply SP.has_node_keys; rewrite K0; assumption. }
  destruct (SP.add_edges_spec (f_edges t) g0 Hn0) as (K & N & E). set (g := SP.add_edges (f_edges t) g0) in *.
  assert (Hall : forall e, In e (f_edges t) -> has_node g0 (fst (fst e)) = true /\ has_node g0 (snd (fst e)) = true /\ NoDup (map fst (snd e)) /\
                       has_edge g0 (fst (fst e)) (snd (fst e)) = false /\ has_edge g0 (snd (fst e)) (fst (fst e)) = false).
  { intros e Hin. destruct (Hn0 e Hin) as [A B]. rewrite Forall_forall in He. destruct (He e Hin) as (_ & _ & C). rewrite !E0. auto. }
  assert (Ndg : NoDup (node_keys g)) by (rewrite K, K0; exact ND).
  assert (Nself : forall e, In e (f_edges t) -> fst (fst e) <> snd (fst e)).
  { clear - Dp. induction (f_edges t) as [|e r IH]; intros e' Hin; [destruct Hin|]. destruct Dp as (A & _ & B).
    destruct Hin as [<-|Hin]; [exact A|now apply IH]. }
  assert (W : SquashDefs.wf_graph g).
  { constructor.
    - exact Ndg.
    - intros y x Hx. rewrite E, E0 in Hx. cbn [orb] in Hx. apply existsb_exists in Hx as [e [Hin Hp]].
      rewrite Forall_forall in He. destruct (He e Hin) as (Hu & Hv & _). apply SP.has_node_keys. rewrite K, K0.
      unfold SP.eqpair in Hp. apply orb_true_iff in Hp as [Hp|Hp]; apply andb_true_iff in Hp as [_ Hp]; apply Z.eqb_eq in Hp; subst x; assumption.
    - intros y x. rewrite !E, !E0. cbn [orb]. apply existsb_eqpair_sym_.
    - intros y. rewrite E, E0. cbn [orb]. apply not_true_is_false. intros Hx. apply existsb_exists in Hx as [e [Hin Hp]].
      specialize (Nself e Hin). unfold SP.eqpair in Hp.
      apply orb_true_iff in Hp as [Hp|Hp]; apply andb_true_iff in Hp as [H1 H2]; apply Z.eqb_eq in H1, H2; congruence. }
  destruct (RebuildProofs.wf_graph_structural g W) as (_ & Cl & Ns).
  assert (Per : forall tn, In tn (f_nodes t) -> exists n', gfind (t_key tn) g = Some n' /\ na n' = tattrs tn /\
            forall b, bond_sum (t_key tn) (f_edges t) = Ok b -> Hydrogens.sum_orders (nadj n') = Ok (2 * b)).
  { intros tn Hin. destruct (sum_orders_add_edges (f_edges t) g0 Dp Hall (t_key tn) (tnrec tn) (gfind_tnrec _ _ ND Hin)) as (n' & G' & A' & S').
    exists n'. split; [exact G'|]. split; [exact A'|]. intros b Hb. apply (S' 0 b); [reflexivity|exact Hb]. }
  split; [|split; [exact Ndg|split; [exact Cl|split; [exact Ns|]]]].
  - unfold represents. pose proof (nodup_list_gfind g Ndg) as F. rewrite K, K0 in F.
    assert (Per' : forall tn, In tn (f_nodes t) -> forall n, gfind (t_key tn) g = Some n -> node_rep (f_edges t) tn n).
    { intros tn Hin n Gn. destruct (Per tn Hin) as (n' & G' & A' & S'). rewrite Gn in G'. inversion G'; subst n'.
      split; [rewrite A'; apply tattrs_get; intro X; vm_compute in X; discriminate|].
      split; [rewrite A'; apply tattrs_get; intro X; vm_compute in X; discriminate|exact S']. }
    exact (forall2_rep_ _ _ _ _ F Per').
  - intros i n Gi. assert (Hi : In i (map t_key (f_nodes t))).
    { rewrite <- K0, <- K. destruct (in_dec Z.eq_dec i (node_keys g)) as [X|X]; [exact X|]. apply gfind_none_keys in X. congruence. }
    apply in_map_iff in Hi as (tn & <- & Hin). destruct (Per tn Hin) as (n' & G' & A' & _). rewrite Gi in G'. inversion G'; subst n'.
    unfold RebuildProofs.no_rs. rewrite A', tattrs_get by (intro X; vm_compute in X; discriminate).
    rewrite Forall_forall in Ha. destruct (Ha tn Hin) as (_ & _ & _ & Hr). apply aget_notin. exact Hr.
Qed.

(** soundness of the decidable form [mass_wfb] (Sample/SampleMassDefs.v) *)
Lemma eqpair_same y x a b : SampleMassDefs.eqpair y x a b = SP.eqpair y x a b.
Proof. reflexivity. Qed.
Lemma znodupb_sound l : znodupb l = true -> NoDup l.
Proof.
  induction l as [|x r IH]; cbn; [constructor|]. intros H. apply andb_true_iff in H as [H1 H2]. constructor; [|auto].
  intros Hin. apply negb_true_iff in H1. assert (existsb (Z.eqb x) r = true) by (apply existsb_exists; exists x; split; [exact Hin|apply Z.eqb_refl]). congruence.
Qed.
Lemma str_in_In x l : str_in x l = true <-> In x l.
Proof.
  induction l as [|y r IH]; cbn; [split; [discriminate|tauto]|]. destruct (str_eqb_spec x y) as [->|N]; cbn.
  - split; auto.
  - rewrite IH. split; [auto|]. intros [E|H]; [congruence|exact H].
Qed.
Lemma snodupb_sound l : snodupb l = true -> NoDup l.
Proof.
  induction l as [|x r IH]; cbn; [constructor|]. intros H. apply andb_true_iff in H as [H1 H2]. constructor; [|auto].
  intros Hin. apply str_in_In in Hin. rewrite Hin in H1. discriminate.
Qed.
Lemma existsb_zeqb x l : existsb (Z.eqb x) l = true -> In x l.
Proof. intros H. apply existsb_exists in H as (y & Hin & E). apply Z.eqb_eq in E. now subst. Qed.
Lemma distinct_pairsb_sound l : distinct_pairsb l = true -> distinct_pairs l.
Proof.
  induction l as [|e r IH]; cbn [distinct_pairsb distinct_pairs]; [trivial|]. intros H.
  apply andb_true_iff in H as [H H3]. apply andb_true_iff in H as [H1 H2]. split; [|split; [|auto]].
  - apply negb_true_iff in H1. now apply Z.eqb_neq.
  - rewrite forallb_forall in H2. apply Forall_forall. intros e' Hin. specialize (H2 e' Hin). now apply negb_true_iff in H2.
Qed.
Lemma tattrs_okb_sound a : tattrs_okb a = true -> tattrs_ok a.
Proof.
  unfold tattrs_okb, tattrs_ok. intros H. apply andb_true_iff in H as [H H4]. apply andb_true_iff in H as [H H3].
  apply andb_true_iff in H as [H1 H2]. split; [apply snodupb_sound; exact H1|].
  repeat split; intros X; apply str_in_In in X; rewrite X in *; discriminate.
Qed.
Lemma mass_wfb_sound t : mass_wfb t = true -> mass_wf t.
Proof.
  unfold mass_wfb, mass_wf. intros H. apply andb_true_iff in H as [H H4]. apply andb_true_iff in H as [H H3].
  apply andb_true_iff in H as [H1 H2]. split; [apply znodupb_sound; exact H1|]. split; [|split; [apply distinct_pairsb_sound; exact H3|]].
  - rewrite forallb_forall in H2. apply Forall_forall. intros e Hin. specialize (H2 e Hin).
    apply andb_true_iff in H2 as [H2 Hc]. apply andb_true_iff in H2 as [Ha Hb].
    split; [apply existsb_zeqb; exact Ha|]. split; [apply existsb_zeqb; exact Hb|apply snodupb_sound; exact Hc].
  - rewrite forallb_forall in H4. apply Forall_forall. intros n Hin. apply tattrs_okb_sound. auto.
Qed.

(** * the mass of a fragment is the mass loop over Hydro's completion of the fragment graph *)
Section Final.
  Variable M : Type.
  Variables (c0 : Z -> M) (madd : M -> M -> M).

  (** [mass_is_hydro_mass]: for a fragment with distinct keys / own edges / no repeated pair / dict
      attributes, whose aromaticity step leaves the graph unchanged (non-aromatic fragments): whenever the
      sampler's mass model yields x, so does compute_mass's loop over the graph Hydro's model of
      rebuild_h_atoms returns for the fragment graph (any carrier: same additions in the same order) *)
  Theorem mass_is_hydro_mass pte t ca g' x : mass_wf t ->
    Hydrogens.rebuild_after_car false ca (template_nx t) = Ok g' ->
    compute_mass M c0 madd pte t = Ok x ->
    nx_mass M c0 madd pte g' = Ok x.
  Proof.
    intros W Hr Hm. destruct (template_nx_represents t W) as (Rep & Nd & Cl & Ns & Rs).
    exact (mass_from_hydro M c0 madd pte t ca (template_nx t) g' x Rep Nd Cl Ns Rs Hr Hm).
  Qed.
End Final.

(** non-vacuity: the ethanolate-like fragment C([H])C[O-] with integer table masses: the fragment is
    well-formed, Hydro's model completes it (4 more hydrogens: nodes C H C O H H H H), and both
    mass computations give 2*12 + 16 + 5*1 *)
Definition ex_mass_tpl : template :=
  let nd k e q := {| t_key := k; t_fragid := 0; t_bonding := None; t_attrs := [(S "element", VStr e); (S "charge", VInt q)] |} in
  {| f_nodes := [nd 0 (S "C") 0; nd 1 (S "H") 0; nd 2 (S "C") 0; nd 3 (S "O") (-1)];
     f_edges := [(0, 1, [(S "order", VInt 1)]); (0, 2, [(S "order", VInt 1)]); (2, 3, [(S "order", VInt 1)])] |}.
Example mass_is_hydro_mass_nonvacuous :
  let pte := [(S "H", 1); (S "C", 12); (S "O", 16)] in
  mass_wf ex_mass_tpl /\
  exists g', Hydrogens.rebuild_after_car false HydroGen.rebuild_copy_attrs_default (template_nx ex_mass_tpl) = Ok g' /\
    map elt g' = map (fun e => Some (VStr (S e))) ["C"; "H"; "C"; "O"; "H"; "H"; "H"; "H"]%string /\
    compute_mass Z (fun z => z) Z.add pte ex_mass_tpl = Ok 45 /\
    nx_mass Z (fun z => z) Z.add pte g' = Ok 45.
Proof.
  split; [apply mass_wfb_sound; vm_compute; reflexivity|]. eexists. split; [vm_compute; reflexivity|].
  split; [vm_compute; reflexivity|]. split; vm_compute; reflexivity.
Qed.
