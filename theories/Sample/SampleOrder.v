(** SampleOrder: every candidate list handed to random.choice / random.choices is an explicit,
    ORDER-PRESERVING function of the insertion orders of the inputs (fragment dict order, node
    order, descriptor order on a node, node insertion order of the growing molecule): grouping by
    first appearance, filtering in order.  No set / hash iteration order enters; together with
    [seed_determines] (Sample/SampleHistory.v) this is seed determinism across interpreter
    processes (PYTHONHASHSEED).  The lemma about [find_complementary_bonding_descriptor] is about
    the definition GENERATED from cgsmiles_utils.py: iterating a set there (seeded change C17-1)
    leaves the translatable shapes, and would not satisfy [find_compl_exact]. *)
From Coq Require Import String.
From Coq Require Import List Ascii ZArith Bool Lia.
From CGV Require Import Base.PyBase Base.PyVal Base.PyGen Sample.GenSupport Gen.SamplerGen Sample.SampleImpl
     Sample.SampleDefs Sample.SampleSpec Sample.SampleProofs.
Import ListNotations.
Open Scope char_scope.

(** * grouping by key in order of first appearance (defaultdict(list) filled in a loop) *)
Definition group_all {A} (l : list (pystr * A)) (g : list (pystr * list A)) : list (pystr * list A) :=
  fold_left (fun g p => group_add (fst p) (snd p) g) l g.
(** keys in order of first appearance *)
Definition dedup_into (acc l : list pystr) : list pystr :=
  fold_left (fun acc d => if str_in d acc then acc else acc ++ [d]) l acc.
Definition dedup (l : list pystr) : list pystr := dedup_into [] l.

Lemma group_add_keys {A} d (x : A) g :
  map fst (group_add d x g) = if str_in d (map fst g) then map fst g else map fst g ++ [d].
Proof.
  unfold str_in. induction g as [|[e l] r IH]; cbn [group_add map fst existsb]; [reflexivity|].
  destruct (str_eqb d e) eqn:E; cbn [map fst orb]; [reflexivity|]. rewrite IH.
  destruct (existsb (str_eqb d) (map fst r)); reflexivity.
Qed.
Lemma group_add_get {A} d (x : A) g d' :
  dict_get_default (group_add d x g) d' [] = dict_get_default g d' [] ++ (if str_eqb d' d then [x] else []).
Proof.
  unfold dict_get_default. induction g as [|[e l] r IH]; cbn.
  - destruct (str_eqb d' d); reflexivity.
  - destruct (str_eqb_spec d e) as [->|N]; cbn.
    + destruct (str_eqb d' e); [reflexivity|]. destruct (dict_get r d'); now rewrite app_nil_r.
    + destruct (str_eqb_spec d' e) as [->|N2]; [|exact IH].
      destruct (str_eqb_spec e d); [congruence|]. now rewrite app_nil_r.
Qed.

Theorem group_all_keys {A} (l : list (pystr * A)) : forall g,
  map fst (group_all l g) = dedup_into (map fst g) (map fst l).
Proof.
  induction l as [|[d x] r IH]; intros g; cbn; [reflexivity|].
  unfold group_all in *. cbn [fold_left fst snd]. rewrite IH, group_add_keys. reflexivity.
Qed.
Theorem group_all_get {A} (l : list (pystr * A)) d : forall g,
  dict_get_default (group_all l g) d [] = dict_get_default g d [] ++ map snd (filter (fun p => str_eqb d (fst p)) l).
Proof.
  induction l as [|[e x] r IH]; intros g; cbn; [now rewrite app_nil_r|].
  unfold group_all in *. cbn [fold_left fst snd]. rewrite IH, group_add_get, <- app_assoc.
  destruct (str_eqb d e); reflexivity.
Qed.

(** * the two grouped tables of the sampler *)
Definition open_pairs (m : mol) : list (pystr * Z) :=
  flat_map (fun n => map (fun d => (d, n_key n)) (bonding_list (n_bonding n))) (m_nodes m).
Definition frag_pairs (fd : fragdict) : list (pystr * (pystr * Z)) :=
  flat_map (fun ft => flat_map (fun n => map (fun d => (d, (fst ft, t_key n))) (bonding_list (t_bonding n)))
                               (f_nodes (snd ft))) fd.

Lemma fold_group_inner {A} (ds : list pystr) (x : A) g :
  fold_left (fun g2 d => group_add d x g2) ds g = group_all (map (fun d => (d, x)) ds) g.
Proof. revert g. induction ds as [|d r IH]; intros g; cbn; [reflexivity|]. apply IH. Qed.
Lemma group_all_app {A} (a b : list (pystr * A)) g : group_all (a ++ b) g = group_all b (group_all a g).
Proof. unfold group_all. apply fold_left_app. Qed.

(** find_open_bonds: descriptors in order of first appearance over the nodes (insertion order),
    for each descriptor the nodes carrying it, in node order, once per occurrence *)
Theorem find_open_bonds_pairs m : find_open_bonds m = group_all (open_pairs m) [].
Proof.
  unfold find_open_bonds, open_pairs. generalize (@nil (pystr * list Z)).
  induction (m_nodes m) as [|n r IH]; intros g; cbn [fold_left flat_map]; [reflexivity|].
  rewrite group_all_app, IH. f_equal. destruct (n_bonding n) as [ds|]; cbn [bonding_list]; [apply fold_group_inner|reflexivity].
Qed.
Theorem fragments_by_bonding_pairs fd : fragments_by_bonding fd = group_all (frag_pairs fd) [].
Proof.
  unfold fragments_by_bonding, frag_pairs. generalize (@nil (pystr * list (pystr * Z))).
  induction fd as [|[nm t] r IH]; intros g; cbn [fold_left flat_map fst snd]; [reflexivity|].
  rewrite group_all_app, IH. f_equal. unfold frag_by_bonding_of. revert g.
  induction (f_nodes t) as [|n ns IHn]; intros g; cbn [fold_left flat_map]; [reflexivity|].
  rewrite group_all_app, IHn. f_equal. destruct (t_bonding n) as [ds|]; cbn [bonding_list]; [apply fold_group_inner|reflexivity].
Qed.
Corollary open_bonds_keys_order m : map fst (find_open_bonds m) = dedup (map fst (open_pairs m)).
Proof. rewrite find_open_bonds_pairs, group_all_keys. reflexivity. Qed.
Corollary open_bonds_nodes_order m d :
  dict_get_default (find_open_bonds m) d [] = map snd (filter (fun p => str_eqb d (fst p)) (open_pairs m)).
Proof. rewrite find_open_bonds_pairs, group_all_get. reflexivity. Qed.
Corollary byb_keys_order fd : map fst (fragments_by_bonding fd) = dedup (map fst (frag_pairs fd)).
Proof. rewrite fragments_by_bonding_pairs, group_all_keys. reflexivity. Qed.
Corollary byb_fragments_order fd d :
  dict_get_default (fragments_by_bonding fd) d [] = map snd (filter (fun p => str_eqb d (fst p)) (frag_pairs fd)).
Proof. rewrite fragments_by_bonding_pairs, group_all_get. reflexivity. Qed.

(** * the GENERATED complement look-up, exactly: for '$' the eligible '$' descriptors of the same
    order IN THE ORDER of the eligible list; otherwise the one flipped descriptor *)
Definition dollar_partner (d c : pystr) : bool :=
  match c with k2 :: _ => Ascii.eqb k2 "$" && same_order c d | [] => false end.
Definition flipped (d : pystr) : pystr :=
  match d with
  | k :: r => if Ascii.eqb k "<" then ">" :: r else if Ascii.eqb k ">" then "<" :: r else d
  | [] => []
  end.

Theorem find_compl_exact d elig : d <> [] -> Forall (fun c => c <> []) elig ->
  find_complementary_bonding_descriptor d elig =
    match d with
    | k :: _ =>
        if Ascii.eqb k "$" && match elig with [] => false | _ => true end
        then Ok (filter (dollar_partner d) elig)
        else if str_in (flipped d) elig then Ok [flipped d] else Err EIO
    | [] => Err EIndex
    end.
Proof.
  destruct d as [|k r]; [congruence|]. intros _ Hne.
  unfold find_complementary_bonding_descriptor, unwrap_return. cbn [bind ret].
  rewrite !py_index_first.
  change (S "$") with ["$"]; change (S "<") with ["<"]; change (S ">") with [">"].
  unfold py_and, py_eq, py_not, py_in_list, py_concat. cbn [bind ret pyeqb PyEq_str py_slice_from skipn].
  rewrite !str_eqb_1.
  destruct (Ascii.eqb_spec k "$") as [->|Nd]; cbn [andb].
  - destruct elig as [|e0 er]; cbn [bind ret].
    + cbn. reflexivity.
    + match goal with |- context [py_for _ _ ?f] => set (body := f) end.
      destruct (py_index_last ("$" :: r)) as [cd [Hid Hld]]; [discriminate|].
      assert (L : forall (l : list pystr) acc, Forall (fun c => c <> []) l ->
                py_for (id l) acc body = Ok (RNext (acc ++ filter (dollar_partner ("$" :: r)) l))).
      { induction l as [|x l IH]; intros acc Hl; cbn [py_for id filter]; [now rewrite app_nil_r|].
        inversion Hl as [|? ? Hx Hl']; subst. unfold body at 1. destruct x as [|k2 r2]; [congruence|].
        destruct (py_index_last (k2 :: r2)) as [cx [Hix Hlx]]; [discriminate|].
        assert (Hdp : dollar_partner ("$" :: r) (k2 :: r2) = Ascii.eqb k2 "$" && Ascii.eqb cx cd)
          by (unfold dollar_partner, same_order; rewrite Hlx, Hld; reflexivity).
        rewrite Hdp. cbn [bind ret]. rewrite py_index_first, Hix, Hid. cbn [bind ret]. rewrite !str_eqb_1.
        destruct (Ascii.eqb k2 "$"); cbn [andb bind ret].
        - destruct (Ascii.eqb cx cd); cbn [bind ret]; unfold id in IH; rewrite IH by assumption;
            [rewrite <- app_assoc; reflexivity|reflexivity].
        - unfold id in IH. now rewrite IH. }
      rewrite (L _ [] Hne). reflexivity.
  - cbn [bind ret app]. unfold flipped.
    destruct (Ascii.eqb_spec k "<") as [->|Nl]; cbn [bind ret].
    + destruct (str_in (">" :: r) elig); reflexivity.
    + destruct (Ascii.eqb_spec k ">") as [->|Ng]; cbn [bind ret].
      * destruct (str_in ("<" :: r) elig); reflexivity.
      * destruct (str_in (k :: r) elig); reflexivity.
Qed.

(** * one growth step: the chosen items are the entries, at the picked indices, of lists that are
    the order-preserving functions above of the molecule and of the fragment dict *)
Section Select.
  Variable M : Type.
  Variables (c0 : Z -> M) (misz : M -> bool).
  Variable R : Type.
  Variable pick : R -> nat -> option (list M) -> res (nat * R).
  Variable cfg : config M.

  Theorem step_select_determined rng ob s rng' :
    step_select M c0 misz R pick cfg rng ob = Ok (s, rng') ->
    exists i1 i2 i3 i4 cb, s_picks s = [i1; i2; i3; i4] /\
      nth_error (map fst ob) i1 = Some (s_bonding s) /\
      nth_error (dict_get_default ob (s_bonding s) []) i2 = Some (s_source s) /\
      find_complementary_bonding_descriptor (s_bonding s) (map fst (c_byb cfg)) = Ok cb /\
      nth_error cb i3 = Some (s_compl s) /\
      nth_error (dict_get_default (c_byb cfg) (s_compl s) []) i4 = Some (s_fragname s, s_tnode s).
  Proof.
    unfold step_select.
    destruct (select_op M c0 misz R pick rng (map fst ob) (Some (c_poly cfg))) as [[[b i1] r1]|] eqn:E1; cbn [bind]; [|discriminate].
    destruct (dict_get ob b) as [srcs|] eqn:E2; cbn [of_option bind]; [|discriminate].
    destruct (choose M misz R pick r1 srcs None) as [[[src i2] r2]|] eqn:E3; cbn [bind]; [|discriminate].
    destruct (find_complementary_bonding_descriptor b (map fst (c_byb cfg))) as [cb|] eqn:E4; cbn [bind]; [|discriminate].
    destruct (select_op M c0 misz R pick r2 cb (dict_get (c_fragreact cfg) b)) as [[[c i3] r3]|] eqn:E5; cbn [bind]; [|discriminate].
    destruct (choose M misz R pick r3 (dict_get_default (c_byb cfg) c []) None) as [[[ft i4] r4]|] eqn:E6; cbn [bind]; [|discriminate].
    intros [= <- <-]. cbn. exists i1, i2, i3, i4, cb. split; [reflexivity|].
    assert (S1 : forall rng bonds probs b i rng', select_op M c0 misz R pick rng bonds probs = Ok (b, i, rng') -> nth_error bonds i = Some b).
    { intros ? ? probs ? ? ? H. unfold select_op in H. destruct probs as [[|kv p]|]; apply (choose_ok M misz R pick) in H; tauto. }
    split; [eapply S1; eassumption|]. split.
    - unfold dict_get_default. rewrite E2. apply (choose_ok M misz R pick) in E3. tauto.
    - split; [exact E4|]. split; [eapply S1; eassumption|]. apply (choose_ok M misz R pick) in E6. destruct ft. tauto.
  Qed.
End Select.
