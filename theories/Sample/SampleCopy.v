(** SampleCopy: copy_iso_template (C16).  Every fragment copy in the sampled molecule, selected
    by its fragid, is its template through the merge correspondence: node i of the copy has key
    offset+1+i, all attributes of template node i except 'fragid' (the copy's number) and the
    descriptors already consumed or withdrawn; the edges inside the copy are the template's edges
    through the correspondence with unchanged attributes (orders).  By induction over the growth
    loop, for every sequence of random picks.  (The resolver component proves the analogous fact
    for its NxGraph model of merge_graphs, Resolve/CopyProofs.frag_copy; the sampler model has its
    own merge_graphs, so the argument is repeated on it.) *)
From Coq Require Import String.
From Coq Require Import List Ascii ZArith Bool Lia.
From CGV Require Import Base.PyBase Base.PyVal Base.PyGen Sample.GenSupport Gen.SamplerGen Sample.SampleImpl
     Sample.SampleDefs Sample.SampleSpec Sample.SampleProofs Sample.SampleTree Sample.SampleFragid.
Import ListNotations.
Open Scope Z_scope.

Lemma mk_nodes_copy fo off ts : forall i, Forall2 copy_of (spec_nodes fo off i ts) (mk_nodes fo off i ts).
Proof.
  induction ts as [|t r IH]; intros i; cbn; constructor; [|apply IH].
  cbn. repeat split; intros; lia.
Qed.

Lemma Forall2_update {S} (R : S -> mnode -> Prop) k f n0 : forall sp ns,
  Forall2 R sp ns -> find_node k ns = Some n0 -> (forall s, R s n0 -> R s (f n0)) ->
  Forall2 R sp (update_node k f ns).
Proof.
  induction 1 as [|s n sp ns Hsn Hrest IH]; intros F Hf; cbn in *; [constructor|].
  destruct (Z.eqb (n_key n) k).
  - injection F as ->. constructor; [now apply Hf|assumption].
  - constructor; [assumption|]. now apply IH.
Qed.

Lemma copy_of_set_bonding sp n b : copy_of sp n ->
  (forall d, (cnt d (bonding_list b) <= cnt d (bonding_list (n_bonding n)))%nat) -> copy_of sp (set_bonding b n).
Proof.
  destruct sp as [[[fo off] i] t]. intros (H1 & H2 & H3 & H4) Hb. cbn. repeat split; try assumption.
  intros d. specialize (H4 d). specialize (Hb d). lia.
Qed.

Lemma remove_desc_copies sp ns k d ns' : Forall2 copy_of sp ns -> remove_desc ns k d = Ok ns' -> Forall2 copy_of sp ns'.
Proof.
  intros F H. apply remove_desc_inv in H as (n & ds & ds' & Fn & B & Rm & ->).
  eapply Forall2_update; [exact F|exact Fn|]. intros s Hs. apply copy_of_set_bonding; [exact Hs|].
  intros d'. rewrite B. cbn [bonding_list]. destruct (str_eqb_spec d' d) as [->|N].
  - pose proof (cnt_remove1_same _ _ _ Rm). lia.
  - rewrite (cnt_remove1_other _ _ _ _ N Rm). lia.
Qed.
Lemma terminal_step_copies sp term c ns s ns' : Forall2 copy_of sp ns -> terminal_step term c ns s = Ok ns' -> Forall2 copy_of sp ns'.
Proof.
  intros F. unfold terminal_step. destruct (find_node s ns) as [n|] eqn:Fn; cbn [of_option bind]; [|discriminate].
  destruct (str_in c term).
  - destruct (n_bonding n); [|discriminate]. intros [= <-]. eapply Forall2_update; [exact F|exact Fn|].
    intros sp0 Hs. apply copy_of_set_bonding; [exact Hs|]. intros d. cbn. lia.
  - intros [= <-]. eapply Forall2_update; [exact F|exact Fn|].
    intros sp0 Hs. apply copy_of_set_bonding; [exact Hs|]. intros d. cbn [bonding_list].
    destruct (n_bonding n); cbn [bonding_list]; [apply cnt_filter_le|cbn; lia].
Qed.

Lemma filter_tpl_none es : Forall (fun e => e_bonding e = None) es -> filter is_template_edge es = es.
Proof. induction 1 as [|e r H _ IH]; cbn; [reflexivity|]. unfold is_template_edge at 1. now rewrite H, IH. Qed.

Section Copy.
  Variable M : Type.
  Variables (c0 : Z -> M) (madd : M -> M -> M) (mltb : M -> M -> bool) (misz : M -> bool).
  Variable R : Type.
  Variable pick : R -> nat -> option (list M) -> res (nat * R).
  Variable cfg : config M.
  Hypothesis Wf : wf_frags (c_frags cfg).

  (** the invariant: blocks with their templates' names, fragment offsets 0,1,2,... *)
  Definition copy_inv (m : mol) (names : list pystr) (bs : list block) : Prop :=
    copies_of m bs /\
    Forall2 (fun nm b => dict_get (c_frags cfg) nm = Some (b_tpl b)) names bs /\
    map b_fo bs = zseq 0 (length bs) /\
    Forall (fun b => exists es, mk_edges (mk_corr (b_off b) 0 (f_nodes (b_tpl b))) (f_edges (b_tpl b)) = Ok es) bs /\
    Shape m (length bs).

  Lemma copy_first nm tpl m0 corr : dict_get (c_frags cfg) nm = Some tpl -> wf_template tpl ->
    merge_graphs mol_empty tpl = Ok (m0, corr) ->
    copy_inv m0 [nm] [{| b_tpl := tpl; b_off := -1; b_fo := 0 |}].
  Proof.
    intros D Wt Em. pose proof (shape_first _ _ _ Wt Em) as Sh. revert Em.
    unfold merge_graphs, merge_offsets. cbn [m_nodes mol_empty bind].
    destruct (mk_edges (mk_corr (-1) 0 (f_nodes tpl)) (f_edges tpl)) as [es|] eqn:D3; cbn [bind]; [|discriminate].
    intros [= <- <-]. split; [split|].
    - cbn [map concat block_spec b_fo b_off b_tpl m_nodes app]. rewrite app_nil_r. apply mk_nodes_copy.
    - cbn [map concat m_edges app]. unfold block_edges. cbn [b_off b_tpl]. rewrite D3, app_nil_r.
      apply filter_tpl_none. eapply mk_edges_bonding; eassumption.
    - split; [constructor; [exact D|constructor]|]. split; [reflexivity|].
      split; [constructor; [cbn; eauto|constructor]|]. exact Sh.
  Qed.

  Lemma copy_step rng m m' r rng' names bs : copy_inv m names bs ->
    step M c0 misz R pick cfg rng m = Ok (m', r, rng') ->
    exists b, copy_inv m' (names ++ [r_fragname r]) (bs ++ [b]).
  Proof.
    intros ((Hn & He) & Hnames & Hfo & Hmk & Sh) Hs. pose proof (shape_step M c0 misz R pick cfg Wf _ _ _ _ _ _ Sh Hs) as Sh'.
    revert Hs. unfold step.
    destruct (step_select M c0 misz R pick cfg rng (find_open_bonds m)) as [[s rng1]|] eqn:Es; cbn [bind]; [|discriminate].
    destruct (step_apply M cfg m s) as [[m1 tgt]|] eqn:Ea; cbn [bind]; [|discriminate].
    intros [= <- <- <-]. cbn [r_fragname].
    destruct (step_apply_inv M cfg _ _ _ _ Ea) as (tpl & off & fo & es & ns1 & ns2 & o & D1 & D2 & D3 & D4 & H1 & H2 & H3 & Hed).
    pose proof (shape_offsets _ _ Sh) as Ho. rewrite Ho in D2. injection D2 as <- <-.
    set (b := {| b_tpl := tpl; b_off := Z.of_nat (length (m_nodes m)) - 1; b_fo := Z.of_nat (length bs) |}).
    exists b. split; [split|].
    - rewrite map_app, concat_app. cbn [map concat]. rewrite app_nil_r.
      eapply terminal_step_copies; [|exact H3]. eapply remove_desc_copies; [|exact H2]. eapply remove_desc_copies; [|exact H1].
      apply Forall2_app; [exact Hn|]. unfold block_spec, b. cbn [b_fo b_off b_tpl]. apply mk_nodes_copy.
    - assert (Hb : block_edges b = es) by (unfold block_edges, b; cbn [b_off b_tpl]; rewrite D3; reflexivity).
      rewrite Hed, !filter_app, He, map_app, concat_app. cbn [map concat filter]. rewrite Hb, !app_nil_r.
      rewrite (filter_tpl_none _ (mk_edges_bonding _ _ _ D3)). reflexivity.
    - split; [apply Forall2_app; [exact Hnames|constructor; [exact D1|constructor]]|].
      split; [rewrite map_app, app_length, Hfo; cbn [map length b_fo b]; rewrite zseq_app; reflexivity|].
      split; [apply Forall_app; split; [exact Hmk|constructor; [cbn; eauto|constructor]]|].
      rewrite app_length. cbn [length]. replace (length bs + 1)%nat with (Datatypes.S (length bs)) by lia. exact Sh'.
  Qed.

  Lemma copy_grow target fuel : forall rng m cw log m' cw' log' rng' names bs,
    grow M c0 madd mltb misz R pick cfg target fuel rng m cw log = Ok (m', cw', log', rng') ->
    copy_inv m names bs ->
    exists new bs', log' = log ++ new /\ copy_inv m' (names ++ map r_fragname new) (bs ++ bs').
  Proof.
    induction fuel as [|f IH]; intros rng m cw log m' cw' log' rng' names bs; cbn [grow].
    - destruct (loop_guard mltb cw target); [discriminate|]. intros [= <- <- <- <-] I. exists [], []. now rewrite !app_nil_r.
    - destruct (loop_guard mltb cw target).
      + destruct (step M c0 misz R pick cfg rng m) as [[[m1 r] rng1]|] eqn:E; cbn [bind]; [|discriminate].
        destruct (dict_get (c_masses cfg) (r_fragname r)) as [x|]; cbn [of_option bind]; [|discriminate].
        intros H I. destruct (copy_step _ _ _ _ _ _ _ I E) as [b I1].
        destruct (IH _ _ _ _ _ _ _ _ _ _ H I1) as (new & bs' & Hl & I2).
        exists (r :: new), (b :: bs'). split; [rewrite Hl, <- app_assoc; reflexivity|].
        cbn [map]. rewrite <- !app_assoc in I2. exact I2.
      + intros [= <- <- <- <-] I. exists [], []. now rewrite !app_nil_r.
  Qed.

  (** ** copy_iso_template *)
  Theorem copy_iso_template target fuel rng start nm i0 m cw log rng' :
    sample_growth M c0 madd mltb misz R pick cfg target fuel rng start = Ok (nm, i0, m, cw, log, rng') ->
    exists bs, copies_of m bs /\
      Forall2 (fun name b => dict_get (c_frags cfg) name = Some (b_tpl b)) (nm :: map r_fragname log) bs /\
      map b_fo bs = zseq 0 (length bs) /\
      Forall (fun b => exists es, mk_edges (mk_corr (b_off b) 0 (f_nodes (b_tpl b))) (f_edges (b_tpl b)) = Ok es) bs.
  Proof.
    unfold sample_growth.
    destruct (start_fragment M misz R pick cfg rng start) as [[[nm0 i] rng0]|]; cbn [bind]; [|discriminate].
    destruct (dict_get (c_frags cfg) nm0) as [tpl|] eqn:D; cbn [of_option bind]; [|discriminate].
    destruct (merge_graphs mol_empty tpl) as [[m0 corr]|] eqn:Em; cbn [bind]; [|discriminate].
    destruct (grow M c0 madd mltb misz R pick cfg target fuel rng0 m0 (c0 current_weight_start) []) as [[[[m1 cw1] log1] rng1]|] eqn:G; cbn [bind]; [|discriminate].
    intros [= <- <- <- <- <- <-].
    assert (Wt : wf_template tpl).
    { pose proof D as D'. apply dict_get_in in D'. pose proof Wf as W. unfold wf_frags in W. rewrite Forall_forall in W. apply (W _ D'). }
    destruct (copy_grow _ _ _ _ _ _ _ _ _ _ _ _ G (copy_first _ _ _ _ D Wt Em)) as (new & bs' & Hl & (Hc & Hn & Hf & Hm & _)).
    cbn [app] in Hl. subst log1. eexists. split; [exact Hc|]. split; [exact Hn|]. split; [exact Hf|exact Hm].
  Qed.

  (** selected by fragid: the nodes carrying fragid j are exactly the nodes of block j *)
  Lemma spec_nodes_fo fo off ts : forall i, Forall (fun sp => fst (fst (fst sp)) = fo) (spec_nodes fo off i ts).
  Proof. induction ts as [|t r IH]; intros i; cbn; constructor; [reflexivity|apply IH]. Qed.
  Theorem copy_selected_by_fragid sp n b : wf_template (b_tpl b) -> copy_of sp n -> In sp (block_spec b) -> n_fragid n = b_fo b.
  Proof.
    intros (_ & F0 & _) Hc Hin. destruct sp as [[[fo off] i] t]. destruct Hc as (_ & Hf & _).
    pose proof (spec_nodes_fo (b_fo b) (b_off b) (f_nodes (b_tpl b)) 0) as Hs. rewrite Forall_forall in Hs.
    specialize (Hs _ Hin). cbn in Hs. subst fo.
    assert (Ht : In t (f_nodes (b_tpl b))).
    { clear - Hin. unfold block_spec in Hin. revert Hin. generalize 0%nat.
      induction (f_nodes (b_tpl b)) as [|t0 r IH]; intros j; cbn; [tauto|]. intros [[= _ _ ->]|H]; [now left|right; eapply IH; eassumption]. }
    rewrite Forall_forall in F0. rewrite (F0 _ Ht) in Hf. lia.
  Qed.
End Copy.
