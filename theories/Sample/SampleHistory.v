(** SampleHistory: the history machine for seed determinism (C17).  The only state shared
    between calls is the module-level generator of `random` (one cell [h_rng]) and the sampler
    objects.  `MoleculeSampler.__init__` overwrites the WHOLE generator state (`random.seed(a=seed)`,
    first statement, also when the constructor fails later); `sample` reads the generator and its own
    sampler object, nothing else.  The generator is abstract: any type [R], any [rseed], any [pick]. *)
From Coq Require Import String.
From Coq Require Import List Ascii ZArith Bool.
From CGV Require Import Base.PyBase Base.PyVal Base.PyGen Sample.GenSupport Gen.SamplerGen Sample.SampleImpl.
Import ListNotations.
Open Scope Z_scope.

Section History.
  Variable M : Type.
  Variables (c0 : Z -> M) (madd : M -> M -> M) (mltb : M -> M -> bool) (misz : M -> bool).
  Variable R : Type.
  Variable rseed : Z -> R.
  Variable pick : R -> nat -> option (list M) -> res (nat * R).

  Record args := { a_frags : fragdict; a_poly : list (pystr * M); a_fragreact : list (pystr * list (pystr * M));
                   a_term : list pystr; a_masses : list (pystr * M) }.
  Inductive call :=
  | Construct (id : nat) (a : args) (seed : Z)
  | Sample (id : nat) (target : M) (start : option pystr) (fuel : nat).
  Record hstate := { h_rng : R; h_samplers : list (nat * config M) }.
  Definition output := option (res (pystr * list nat * mol * M * list srec)).

  Fixpoint lookup (id : nat) (l : list (nat * config M)) : option (config M) :=
    match l with [] => None | (i, c) :: r => if Nat.eqb i id then Some c else lookup id r end.

  Definition hstep (st : hstate) (c : call) : hstate * output :=
    match c with
    | Construct id a seed =>
        let rng := rseed seed in
        match init M (a_frags a) (a_poly a) (a_fragreact a) (a_term a) (a_masses a) with
        | Ok cfg => ({| h_rng := rng; h_samplers := (id, cfg) :: h_samplers st |}, None)
        | Err e => ({| h_rng := rng; h_samplers := h_samplers st |}, Some (Err e))
        end
    | Sample id target start fuel =>
        match lookup id (h_samplers st) with
        | None => (st, Some (Err EName))
        | Some cfg =>
            match sample_growth M c0 madd mltb misz R pick cfg target fuel (h_rng st) start with
            | Ok (nm, i0, m, cw, log, rng') => ({| h_rng := rng'; h_samplers := h_samplers st |}, Some (Ok (nm, i0, m, cw, log)))
            | Err e => (st, Some (Err e))   (* the generator state after a failed call is not modelled *)
            end
        end
    end.
  Fixpoint hrun (st : hstate) (cs : list call) : hstate * list output :=
    match cs with
    | [] => (st, [])
    | c :: r => let '(st1, o) := hstep st c in let '(st2, os) := hrun st1 r in (st2, o :: os)
    end.

  (** what construct(seed); sample(w) returns, as a function of its own arguments only *)
  Definition fresh_run (a : args) (seed : Z) (target : M) (start : option pystr) (fuel : nat) : list output :=
    match init M (a_frags a) (a_poly a) (a_fragreact a) (a_term a) (a_masses a) with
    | Ok cfg => [None;
                 Some (match sample_growth M c0 madd mltb misz R pick cfg target fuel (rseed seed) start with
                       | Ok (nm, i0, m, cw, log, _) => Ok (nm, i0, m, cw, log)
                       | Err e => Err e end)]
    | Err e => [Some (Err e); Some (Err EName)]
    end.

  (** whatever calls came before (any state of the generator, any other samplers, also one with
      the same id), constructing with a seed and sampling yields the same output *)
  Theorem seed_determines : forall st id a seed target start fuel,
    match init M (a_frags a) (a_poly a) (a_fragreact a) (a_term a) (a_masses a) with
    | Ok _ => snd (hrun st [Construct id a seed; Sample id target start fuel]) = fresh_run a seed target start fuel
    | Err _ => True
    end.
  Proof.
    intros st id a seed target start fuel. unfold fresh_run.
    destruct (init M (a_frags a) (a_poly a) (a_fragreact a) (a_term a) (a_masses a)) as [cfg|e] eqn:E; [|exact I].
    cbn [hrun hstep]. rewrite E. cbn [lookup h_samplers h_rng]. rewrite Nat.eqb_refl.
    destruct (sample_growth M c0 madd mltb misz R pick cfg target fuel (rseed seed) start) as [[[[[[nm i0] m] cw] log] rng']|e];
      reflexivity.
  Qed.
  (** hence two histories agree on it *)
  Corollary seed_determines_histories : forall h1 h2 st1 st2 id a seed target start fuel cfg,
    init M (a_frags a) (a_poly a) (a_fragreact a) (a_term a) (a_masses a) = Ok cfg ->
    snd (hrun (fst (hrun st1 h1)) [Construct id a seed; Sample id target start fuel]) =
    snd (hrun (fst (hrun st2 h2)) [Construct id a seed; Sample id target start fuel]).
  Proof.
    intros h1 h2 st1 st2 id a seed target start fuel cfg E.
    pose proof (seed_determines (fst (hrun st1 h1)) id a seed target start fuel) as H1.
    pose proof (seed_determines (fst (hrun st2 h2)) id a seed target start fuel) as H2.
    rewrite E in H1, H2. congruence.
  Qed.
End History.
