(** SampleNumbering: numbering_canonical (C16).  After `sort_nodes_by_attr(molecule, "fragid")` the
    node keys are 0..n-1, ascending in (fragid, old key); the iteration order of the nodes is the
    old one (relabel_nodes(copy=True)); naming does not touch the keys.  Instantiates the resolver
    component's theorems about the same function (Resolve/SortProofs.v: isort_perm, isort_sorted,
    sort_items_keys, mapping_fst/snd, block_contiguous, block_order; Resolve/CopyProofs.v:
    map_get_combine) on the graph the sampler hands to it. *)
From Coq Require Import String.
From Coq Require Import List Ascii ZArith Bool Lia Sorting.Sorted Sorting.Permutation.
From CGV Require Import Base.PyBase Base.PyVal Base.NxGraph Resolve.Bonding Resolve.GraphOps Resolve.MapProofs
     Resolve.CopyProofs Resolve.SortProofs.
From CGV Require Sample.SampleImpl Sample.SampleFinal.
Import ListNotations.
Open Scope Z_scope.

(** ** node keys under relabel_copy *)
Lemma keys_fold_add_node (f : Z -> Z) (l : graph) : forall acc,
  NoDup (node_keys acc ++ map f (node_keys l)) ->
  node_keys (fold_left (fun a n => add_node a (f (nk n)) []) l acc) = node_keys acc ++ map f (node_keys l).
Proof.
  induction l as [|n r IH]; intros acc ND; cbn [fold_left node_keys map]; [now rewrite app_nil_r|].
  unfold node_keys in *. cbn [map] in ND.
  assert (Hfresh : has_node acc (f (nk n)) = false).
  { destruct (has_node acc (f (nk n))) eqn:E; [|reflexivity]. apply gfind_has in E. exfalso.
    apply NoDup_remove_2 in ND. apply ND. apply in_or_app. now left. }
  rewrite IH.
  - rewrite keys_add_node, Hfresh. unfold node_keys. rewrite <- app_assoc. reflexivity.
  - rewrite keys_add_node, Hfresh. unfold node_keys. rewrite <- app_assoc. cbn [app].
    apply NoDup_Add with (a := f (nk n)) (l := map nk acc ++ map f (map nk r)).
    + apply Add_app.
    + split; [apply NoDup_remove_1 in ND; exact ND|apply NoDup_remove_2 in ND; exact ND].
Qed.
Lemma keys_fold_gupdate (f : Z -> Z) (l : graph) : forall acc,
  node_keys (fold_left (fun a n => gupdate (f (nk n)) (fun x => {| nk := nk x; na := na n; nadj := nadj x |}) a) l acc)
  = node_keys acc.
Proof. induction l as [|n r IH]; intros acc; cbn [fold_left]; [reflexivity|]. rewrite IH. now apply keys_gupdate. Qed.
Lemma keys_fold_add_edge (f : Z -> Z) (es : list (Z * Z * attrs)) : forall acc,
  (forall u v d, In (u, v, d) es -> In (f u) (node_keys acc) /\ In (f v) (node_keys acc)) ->
  node_keys (fold_left (fun a e => add_edge a (f (fst (fst e))) (f (snd (fst e))) (snd e)) es acc) = node_keys acc.
Proof.
  induction es as [|[[u v] d] r IH]; intros acc H; cbn [fold_left fst snd]; [reflexivity|].
  destruct (H u v d (or_introl eq_refl)) as [Hu Hv].
  assert (K : node_keys (add_edge acc (f u) (f v) d) = node_keys acc) by (apply keys_add_edge_in; apply gfind_has; assumption).
  rewrite IH; [exact K|]. intros u' v' d' Hin. rewrite K. apply (H u' v' d'). now right.
Qed.

(** graphs handed to the sort: distinct keys, edges join nodes of the graph *)
Definition wf_graph (g : graph) : Prop :=
  NoDup (node_keys g) /\ forall u v d, In (u, v, d) (edges_data g) -> In u (node_keys g) /\ In v (node_keys g).

Theorem relabel_copy_keys g m : wf_graph g -> NoDup (map (map_get m) (node_keys g)) ->
  node_keys (relabel_copy g m) = map (map_get m) (node_keys g).
Proof.
  intros [_ Hcl] ND. unfold relabel_copy.
  assert (K0 : node_keys (fold_left (fun acc n => add_node acc (map_get m (nk n)) []) g gempty) = map (map_get m) (node_keys g))
    by (rewrite keys_fold_add_node; [reflexivity|exact ND]).
  rewrite (keys_fold_add_edge (map_get m)).
  - now rewrite keys_fold_gupdate.
  - intros u v d Hin. rewrite keys_fold_gupdate, K0. destruct (Hcl u v d Hin) as [Hu Hv]. split; now apply in_map.
Qed.
Lemma set_nodes_from_keys a d : forall g, node_keys (set_nodes_from g a d) = node_keys g.
Proof. unfold set_nodes_from. induction d as [|kv r IH]; intros g; cbn [fold_left]; [reflexivity|]. rewrite IH. apply keys_set. Qed.

Lemma gna_all_keys g a : (forall n, In n g -> aget a (na n) <> None) -> map fst (get_node_attributes g a) = node_keys g.
Proof.
  unfold get_node_attributes, node_keys. induction g as [|n r IH]; intros H; cbn [flat_map map]; [reflexivity|].
  destruct (aget a (na n)) eqn:E; [|exfalso; apply (H n (or_introl eq_refl)); exact E].
  cbn [app map fst]. f_equal. apply IH. intros x Hx. apply H. now right.
Qed.

(** ** numbering_canonical *)
Theorem numbering_canonical g g2 : wf_graph g -> (forall n, In n g -> aget (S "fragid") (na n) <> None) ->
  sort_nodes_by_attr g = Ok g2 ->
  exists ks, sort_items g = Ok ks /\ map snd ks = node_keys g /\
    let sorted := isort ks in let m := mapping_of sorted in
    (* the old (fragid, key) pairs in strictly ascending order, a permutation of all nodes *)
    StronglySorted key_lt sorted /\ Permutation sorted ks /\
    (* listed in that order the nodes receive the new keys 0, 1, ..., n-1 *)
    map (map_get m) (map snd sorted) = map Z.of_nat (seq 0 (length g)) /\
    (* the graph keeps its node (iteration) order, re-keyed *)
    node_keys g2 = map (map_get m) (node_keys g) /\
    Permutation (node_keys g2) (map Z.of_nat (seq 0 (length g))).
Proof.
  intros Wg Hf. unfold sort_nodes_by_attr, sort_mapping.
  destruct (sort_items g) as [ks|] eqn:E; [|discriminate]. cbn [bind].
  destruct (map_res _ (get_node_attributes (relabel_copy g (mapping_of (isort ks))) (S "ez_isomer_atoms"))) as [nd|]; [|discriminate].
  cbn [bind]. intros [= <-]. exists ks. split; [reflexivity|].
  assert (Hk : map snd ks = node_keys g) by (rewrite (sort_items_keys g ks E); now apply gna_all_keys).
  split; [exact Hk|]. cbn zeta.
  assert (NDk : NoDup (map snd ks)) by (rewrite Hk; apply Wg).
  assert (Hlen : length (isort ks) = length g).
  { transitivity (length ks); [apply Permutation_length, isort_perm|].
    transitivity (length (map snd ks)); [symmetry; apply map_length|]. rewrite Hk. apply map_length. }
  assert (NDs : NoDup (map snd (isort ks))) by (eapply Permutation_NoDup; [apply Permutation_map, Permutation_sym, isort_perm|exact NDk]).
  assert (Hnew : map (map_get (mapping_of (isort ks))) (map snd (isort ks)) = map Z.of_nat (seq 0 (length g))).
  { unfold mapping_of. rewrite map_get_combine; [now rewrite Hlen|exact NDs|now rewrite !map_length, seq_length]. }
  assert (Pk : Permutation (node_keys g) (map snd (isort ks))) by (rewrite <- Hk; apply Permutation_map, Permutation_sym, isort_perm).
  assert (Pn : Permutation (map (map_get (mapping_of (isort ks))) (node_keys g)) (map Z.of_nat (seq 0 (length g))))
    by (rewrite <- Hnew; now apply Permutation_map).
  assert (NDn : NoDup (map (map_get (mapping_of (isort ks))) (node_keys g))).
  { eapply Permutation_NoDup; [apply Permutation_sym; exact Pn|]. apply FinFun.Injective_map_NoDup; [intros a b; lia|apply seq_NoDup]. }
  split; [apply isort_sorted; eapply NoDup_map_inv; exact NDk|]. split; [apply isort_perm|]. split; [exact Hnew|].
  rewrite set_nodes_from_keys, (relabel_copy_keys g _ Wg NDn). split; [reflexivity|exact Pn].
Qed.

(** naming does not change the keys *)
Lemma name_one_keys mn st idx_node st' : name_one mn st idx_node = Ok st' -> node_keys (fst st') = node_keys (fst st).
Proof.
  destruct st as [mol fgs], idx_node as [idx node]. unfold name_one.
  destruct (node_attrs mol node) as [a|]; cbn [bind]; [|discriminate].
  destruct (aget (S "element") a) as [el|]; cbn [of_option bind]; [|discriminate].
  destruct (as_str el) as [e|]; cbn [bind]; [|discriminate].
  destruct (fg_get mn fgs); intros [= <-]; cbn [fst]; apply keys_set.
Qed.
Lemma fold_res_keys {B} (f : graph * fgraphs -> B -> res (graph * fgraphs)) :
  (forall st x st', f st x = Ok st' -> node_keys (fst st') = node_keys (fst st)) ->
  forall l st st', fold_res f l st = Ok st' -> node_keys (fst st') = node_keys (fst st).
Proof.
  intros H. induction l as [|x r IH]; intros st st'; cbn [fold_res]; [now intros [= <-]|].
  destruct (f st x) as [st1|] eqn:E; cbn [bind]; [|discriminate]. intros H1. rewrite (IH _ _ H1). eapply H; eassumption.
Qed.
Theorem naming_keeps_keys g g' : set_atom_names_nometa g = Ok g' -> node_keys g' = node_keys g.
Proof.
  intros H. unfold set_atom_names_nometa in H.
  match type of H with (bind ?x _) = _ => destruct x as [grp|]; cbn [bind] in H; [|discriminate] end.
  match type of H with (bind ?x _) = _ => destruct x as [r|] eqn:E; cbn [bind] in H; [|discriminate] end.
  injection H as <-.
  apply (fold_res_keys (fun st gr => fold_res (name_one (-1)) (enumerate_from 0 (snd gr)) st)) in E; [exact E|].
  intros st x st' H. eapply (fold_res_keys (name_one (-1))); [|exact H]. intros; eapply name_one_keys; eassumption.
Qed.

(** ** the sampler's finalisation: whatever graph [g1] the hydrogen step leaves, the returned
    molecule has the keys of [numbering_canonical] applied to it *)
Theorem sample_numbering_canonical aa g car gf : SampleFinal.finalise_nx aa g car = Ok gf ->
  exists g1, (if aa then Hydro.Hydrogens.rebuild_h_atoms_default g car else Ok g) = Ok g1 /\
    (wf_graph g1 -> (forall n, In n g1 -> aget (S "fragid") (na n) <> None) ->
     exists ks, sort_items g1 = Ok ks /\ map snd ks = node_keys g1 /\
       StronglySorted key_lt (isort ks) /\ Permutation (isort ks) ks /\
       map (map_get (mapping_of (isort ks))) (map snd (isort ks)) = map Z.of_nat (seq 0 (length g1)) /\
       node_keys gf = map (map_get (mapping_of (isort ks))) (node_keys g1) /\
       Permutation (node_keys gf) (map Z.of_nat (seq 0 (length g1)))).
Proof.
  unfold SampleFinal.finalise_nx.
  destruct (if aa then Hydro.Hydrogens.rebuild_h_atoms_default g car else Ok g) as [g1|]; cbn [bind]; [|discriminate].
  destruct (sort_nodes_by_attr g1) as [g2|] eqn:Es; cbn [bind]; [|discriminate].
  intros H. exists g1. split; [reflexivity|]. intros Wg Hf.
  destruct (numbering_canonical _ _ Wg Hf Es) as (ks & H1 & H2 & H3 & H4 & H5 & H6 & H7). exists ks.
  assert (K : node_keys gf = node_keys g2) by (destruct aa; [now apply naming_keeps_keys|now injection H as <-]).
  rewrite K. repeat split; assumption.
Qed.
