(** SampleImpl: executable Impl model of the random polymer sampler
      sample.py           MoleculeSampler.__init__ / add_fragment / sample, _select_bonding_operator
      cgsmiles_utils.py   find_open_bonds   (find_complementary_bonding_descriptor is GENERATED)
      graph_utils.py      merge_graphs as used here, sort_nodes_by_attr, set_atom_names_atomistic
      pysmiles_utils.py   compute_mass (hydrogen count by the valence rule of pysmiles.fill_valence)
    over the definitions GENERATED from the source (Gen/SamplerGen.v): the complement look-up, the
    order-suffix defaults, the weight look-up, the loop guard.  NO proofs here.

    Randomness is explicit.  Every call of random.choice / random.choices consumes one *pick* =
    the INDEX of the chosen element, delivered by [pick] from an abstract generator state [R]
    (instances: the list of recorded indices; an abstract seeded generator for histories).
    Errors: EIndex = IndexError (empty candidate list), EValue = ValueError (all weights 0: numpy
    yields nan weights and random.choices refuses a non-finite total), EIO = IOError (no
    complementary descriptor), EKey = KeyError;  EOutOfFuel = the pick is one the generator
    cannot produce (index out of range, or an entry of weight 0 under random.choices' cumulative
    sum + bisect rule, lemma [zero_weight_never_selected]);  EStopIter = recorded picks exhausted.

    Masses and reactivities live in a GENERIC carrier (M, c0, madd, mltb, misz): instantiated at
    Z for theorems and at PrimFloat.float for bit-exact execution (Sample/SampleCheck.v). *)
From Coq Require Import String.
From Coq Require Import List Ascii ZArith Bool.
From CGV Require Import Base.PyBase Base.PyVal Base.PyGen Sample.GenSupport Gen.SamplerGen Gen.HydroGen.
Import ListNotations.
Open Scope Z_scope.

(** * Fragment templates (values of fragment_dict) and the growing molecule *)
Record tnode := { t_key : Z; t_fragid : Z; t_bonding : option (list pystr); t_attrs : attrs }.
Record template := { f_nodes : list tnode; f_edges : list (Z * Z * attrs) }.
Definition fragdict := list (pystr * template).

(** a molecule node: 'fragid' is the one-element list [n_fragid]; 'bonding' may be deleted *)
Record mnode := { n_key : Z; n_fragid : Z; n_bonding : option (list pystr); n_attrs : attrs }.
Record medge := { e_u : Z; e_v : Z; e_bonding : option (pystr * pystr); e_attrs : attrs }.
(** nodes in insertion order; edges in creation order (networkx' enumeration order of edges is
    not modelled: edges are compared as a set) *)
Record mol := { m_nodes : list mnode; m_edges : list medge }.
Definition mol_empty : mol := {| m_nodes := []; m_edges := [] |}.

Fixpoint assocz {A} (k : Z) (l : list (Z * A)) : option A :=
  match l with [] => None | (k', v) :: r => if Z.eqb k k' then Some v else assocz k r end.
Fixpoint find_node (k : Z) (ns : list mnode) : option mnode :=
  match ns with [] => None | n :: r => if Z.eqb (n_key n) k then Some n else find_node k r end.
Fixpoint update_node (k : Z) (f : mnode -> mnode) (ns : list mnode) : list mnode :=
  match ns with [] => [] | n :: r => if Z.eqb (n_key n) k then f n :: r else n :: update_node k f r end.
Definition set_bonding (b : option (list pystr)) (n : mnode) : mnode :=
  {| n_key := n_key n; n_fragid := n_fragid n; n_bonding := b; n_attrs := n_attrs n |}.

(** * graph_utils.merge_graphs *)
Definition mk_node (fo off : Z) (i : nat) (t : tnode) : mnode :=
  {| n_key := off + 1 + Z.of_nat i; n_fragid := t_fragid t + fo; n_bonding := t_bonding t; n_attrs := t_attrs t |}.
Fixpoint mk_nodes (fo off : Z) (i : nat) (ts : list tnode) : list mnode :=
  match ts with [] => [] | t :: r => mk_node fo off i t :: mk_nodes fo off (Datatypes.S i) r end.
Fixpoint mk_corr (off : Z) (i : nat) (ts : list tnode) : list (Z * Z) :=
  match ts with [] => [] | t :: r => (t_key t, off + 1 + Z.of_nat i) :: mk_corr off (Datatypes.S i) r end.
Fixpoint mk_edges (corr : list (Z * Z)) (es : list (Z * Z * attrs)) : res (list medge) :=
  match es with
  | [] => Ok []
  | (a, b, at_) :: r =>
      ca <- of_option (assocz a corr) EKey ;;
      cb <- of_option (assocz b corr) EKey ;;
      rest <- mk_edges corr r ;;
      Ok (if Z.eqb ca cb then rest else {| e_u := ca; e_v := cb; e_bonding := None; e_attrs := at_ |} :: rest)
  end.
(** max(source_graph.nodes) *)
Definition max_key (ns : list mnode) : Z :=
  match ns with [] => -1 | n :: r => zmax_list (map n_key r) (n_key n) end.
(** (offset, fragment_offset) *)
Definition merge_offsets (m : mol) : res (Z * Z) :=
  match m_nodes m with
  | [] => Ok (-1, 0)
  | _ => let mx := max_key (m_nodes m) in
         n <- of_option (find_node mx (m_nodes m)) EKey ;;
         Ok (mx, n_fragid n + 1)
  end.
Definition merge_graphs (m : mol) (t : template) : res (mol * list (Z * Z)) :=
  '(off, fo) <- merge_offsets m ;;
  let corr := mk_corr off 0 (f_nodes t) in
  es <- mk_edges corr (f_edges t) ;;
  Ok ({| m_nodes := m_nodes m ++ mk_nodes fo off 0 (f_nodes t); m_edges := m_edges m ++ es |}, corr).

(** * cgsmiles_utils.find_open_bonds and the same grouping in __init__ (fragments_by_bonding):
    a defaultdict(list) keyed by descriptor in order of first appearance *)
Fixpoint group_add {A} (d : pystr) (x : A) (g : list (pystr * list A)) : list (pystr * list A) :=
  match g with
  | [] => [(d, [x])]
  | (d', l) :: r => if str_eqb d d' then (d', l ++ [x]) :: r else (d', l) :: group_add d x r
  end.
Definition find_open_bonds (m : mol) : list (pystr * list Z) :=
  fold_left (fun g n => match n_bonding n with
                        | None => g
                        | Some ds => fold_left (fun g2 d => group_add d (n_key n) g2) ds g
                        end) (m_nodes m) [].
Definition frag_by_bonding_of (name : pystr) (t : template) (g0 : list (pystr * list (pystr * Z)))
  : list (pystr * list (pystr * Z)) :=
  fold_left (fun g n => match t_bonding n with
                        | None => g
                        | Some ds => fold_left (fun g2 d => group_add d (name, t_key n) g2) ds g
                        end) (f_nodes t) g0.
Definition fragments_by_bonding (fd : fragdict) : list (pystr * list (pystr * Z)) :=
  fold_left (fun g ft => frag_by_bonding_of (fst ft) (snd ft) g) fd [].

(** * pysmiles_utils.compute_mass: hydrogens by the rule of fill_valence (respect_hcount=False
    after the hcount reset): missing = max(first valence >= bonds, or the largest) - bonds, 0) *)
Fixpoint valence_of (e : pystr) (q : Z) (tb : list ((pystr * Z) * option (list Z))) : option (list Z) :=
  match tb with
  | [] => None
  | ((e', q'), v) :: r => if str_eqb e e' && Z.eqb q q' then v else valence_of e q r
  end.
Definition h_missing (vals : list Z) (bonds : Z) : Z :=
  match filter (fun v => bonds <=? v) vals with
  | v :: _ => v - bonds
  | [] => 0        (* over-valent: val[-1] - bonds < 0, clipped to 0; unknown valence: 0 *)
  end.
Definition attr_str (k : pystr) (a : attrs) : res pystr :=
  match aget k a with Some (VStr s) => Ok s | Some _ => Err EType | None => Err EKey end.
Definition attr_int_default (k : pystr) (a : attrs) (d : Z) : res Z :=
  match aget k a with Some (VInt z) => Ok z | Some _ => Err EType | None => Ok d end.
(** sum of the integer 'order's of the template edges at a node (default 1); a non-integer
    order (aromatic 1.5) is outside the modelled part: EType *)
Fixpoint bond_sum (k : Z) (es : list (Z * Z * attrs)) : res Z :=
  match es with
  | [] => Ok 0
  | (a, b, at_) :: r =>
      rest <- bond_sum k r ;;
      if Z.eqb a k || Z.eqb b k then o <- attr_int_default (S "order") at_ 1 ;; Ok (o + rest) else Ok rest
  end.
(** number of hydrogens rebuild_h_atoms adds to a fragment template *)
Fixpoint template_hcount (ns : list tnode) (es : list (Z * Z * attrs)) : res Z :=
  match ns with
  | [] => Ok 0
  | n :: r =>
      rest <- template_hcount r es ;;
      e <- attr_str (S "element") (t_attrs n) ;;
      if str_eqb e (S "H") then Ok rest else
      q <- attr_int_default (S "charge") (t_attrs n) 0 ;;
      b <- bond_sum (t_key n) es ;;
      match valence_of e q valence_table with
      | Some vals => Ok (h_missing vals b + rest)
      | None => Err EValue
      end
  end.

Section Carrier.
  Variable M : Type.
  Variable c0 : Z -> M.              (* integer constants of the source *)
  Variable madd : M -> M -> M.
  Variable mltb : M -> M -> bool.
  Variable misz : M -> bool.         (* x == 0 *)

  Fixpoint repeat_add (x : M) (n : nat) (acc : M) : M :=
    match n with O => acc | Datatypes.S k => repeat_add x k (madd acc x) end.
  (** mass = 0; for node in molecule.nodes: mass += PTE[element]['AtomicMass'] (hydrogens last) *)
  Definition compute_mass (pte : list (pystr * M)) (t : template) : res M :=
    nh <- template_hcount (f_nodes t) (f_edges t) ;;
    heavy <- (fix go (ns : list tnode) (acc : M) : res M :=
                match ns with
                | [] => Ok acc
                | n :: r => e <- attr_str (S "element") (t_attrs n) ;;
                            x <- of_option (dict_get pte e) EKey ;; go r (madd acc x)
                end) (f_nodes t) (c0 0) ;;
    mh <- of_option (dict_get pte (S "H")) EKey ;;
    Ok (repeat_add mh (Z.to_nat nh) heavy).

  (** * MoleculeSampler.__init__ *)
  Record config := {
    c_frags : fragdict;
    c_poly : list (pystr * M);                       (* polymer_reactivities, after defaults *)
    c_fragreact : list (pystr * list (pystr * M));   (* fragment_reactivities, after defaults *)
    c_term : list pystr;                             (* terminal_bonds, after defaults *)
    c_masses : list (pystr * M);                     (* fragment_masses *)
    c_byb : list (pystr * list (pystr * Z)) }.       (* fragments_by_bonding *)

  Fixpoint init_fragreact (fr : list (pystr * list (pystr * M))) (acc : list (pystr * list (pystr * M)))
    : res (list (pystr * list (pystr * M))) :=
    match fr with
    | [] => Ok acc
    | (k, probs) :: r => k' <- patch_key k ;; p' <- set_bond_order_defaults_dict probs ;;
                         init_fragreact r (dict_set k' p' acc)
    end.
  Definition init (fd : fragdict) (poly : list (pystr * M)) (fr : list (pystr * list (pystr * M)))
             (term : list pystr) (masses : list (pystr * M)) : res config :=
    p <- set_bond_order_defaults_dict poly ;;
    f <- init_fragreact fr [] ;;
    t <- set_bond_order_defaults_list term ;;
    Ok {| c_frags := fd; c_poly := p; c_fragreact := f; c_term := t; c_masses := masses;
          c_byb := fragments_by_bonding fd |}.
  (** the mass table when guess_mass_from_PTE *)
  Fixpoint mass_table (pte : list (pystr * M)) (fd : fragdict) (acc : list (pystr * M)) : res (list (pystr * M)) :=
    match fd with
    | [] => Ok acc
    | (nm, t) :: r => x <- compute_mass pte t ;; mass_table pte r (dict_set nm x acc)
    end.

  (** * random.choice / random.choices given the index the generator delivers *)
  Variable R : Type.
  (** [pick rng n weights]: the index chosen among n candidates *)
  Variable pick : R -> nat -> option (list M) -> res (nat * R).

  Definition choose {A} (rng : R) (l : list A) (w : option (list M)) : res (A * nat * R) :=
    match l with
    | [] => Err EIndex
    | _ =>
        match w with
        | None => '(i, rng') <- pick rng (length l) None ;;
                  x <- of_option (nth_error l i) EOutOfFuel ;; Ok (x, i, rng')
        | Some ws =>
            if forallb misz ws then Err EValue else
            '(i, rng') <- pick rng (length l) (Some ws) ;;
            x <- of_option (nth_error l i) EOutOfFuel ;;
            wi <- of_option (nth_error ws i) EOutOfFuel ;;
            if misz wi then Err EOutOfFuel else Ok (x, i, rng')
        end
    end.
  (** _select_bonding_operator(bonds, probabilities): weights only when the dict is non-empty *)
  Definition select_op (rng : R) (bonds : list pystr) (probs : option (list (pystr * M))) : res (pystr * nat * R) :=
    match probs with
    | Some (kv :: p) => choose rng bonds (Some (select_weights c0 bonds (kv :: p)))
    | _ => choose rng bonds None
    end.

  (** * add_fragment *)
  Fixpoint remove1 (d : pystr) (l : list pystr) : option (list pystr) :=
    match l with
    | [] => None
    | x :: r => if str_eqb d x then Some r else match remove1 d r with Some r' => Some (x :: r') | None => None end
    end.
  (** molecule.nodes[k]['bonding'].remove(d) *)
  Definition remove_desc (ns : list mnode) (k : Z) (d : pystr) : res (list mnode) :=
    n <- of_option (find_node k ns) EKey ;;
    ds <- of_option (n_bonding n) EKey ;;
    ds' <- of_option (remove1 d ds) EValue ;;
    Ok (update_node k (set_bonding (Some ds')) ns).
  Definition terminal_step (term : list pystr) (compl : pystr) (ns : list mnode) (source : Z) : res (list mnode) :=
    n <- of_option (find_node source ns) EKey ;;
    if str_in compl term then
      match n_bonding n with
      | None => Err EKey
      | Some _ => Ok (update_node source (set_bonding None) ns)
      end
    else
      let other := match n_bonding n with Some ds => ds | None => [] end in
      Ok (update_node source (set_bonding (Some (filter (fun b => negb (str_in b term)) other))) ns).

  (** what one growth step did (the trajectory) *)
  Record srec := { r_ob : list (pystr * list Z); r_bonding : pystr; r_source : Z; r_compl : pystr;
                   r_fragname : pystr; r_tnode : Z; r_target : Z; r_picks : list nat }.
  (** the four random decisions, given the open bonds *)
  Record sel := { s_bonding : pystr; s_source : Z; s_compl : pystr; s_fragname : pystr; s_tnode : Z;
                  s_picks : list nat }.

  Definition step_select (cfg : config) (rng : R) (ob : list (pystr * list Z)) : res (sel * R) :=
    '(bonding, i1, rng) <- select_op rng (map fst ob) (Some (c_poly cfg)) ;;
    srcs <- of_option (dict_get ob bonding) EKey ;;
    '(source, i2, rng) <- choose rng srcs None ;;
    compl_bonds <- find_complementary_bonding_descriptor bonding (map fst (c_byb cfg)) ;;
    '(compl, i3, rng) <- select_op rng compl_bonds (dict_get (c_fragreact cfg) bonding) ;;
    '(ft, i4, rng) <- choose rng (dict_get_default (c_byb cfg) compl []) None ;;
    Ok ({| s_bonding := bonding; s_source := source; s_compl := compl; s_fragname := fst ft;
           s_tnode := snd ft; s_picks := [i1; i2; i3; i4] |}, rng).

  (** merge, bond, book-keeping of the descriptors, terminal handling; returns the new node key *)
  Definition step_apply (cfg : config) (m : mol) (s : sel) : res (mol * Z) :=
    tpl <- of_option (dict_get (c_frags cfg) (s_fragname s)) EKey ;;
    '(m1, corr) <- merge_graphs m tpl ;;
    tgt <- of_option (assocz (s_tnode s) corr) EKey ;;
    order <- (c <- py_last (s_bonding s) ;; py_int [c]) ;;
    let bond := {| e_u := s_source s; e_v := tgt; e_bonding := Some (s_bonding s, s_compl s);
                   e_attrs := [(S "order", VInt order)] |} in
    ns1 <- remove_desc (m_nodes m1) (s_source s) (s_bonding s) ;;
    ns2 <- remove_desc ns1 tgt (s_compl s) ;;
    ns3 <- terminal_step (c_term cfg) (s_compl s) ns2 (s_source s) ;;
    Ok ({| m_nodes := ns3; m_edges := m_edges m1 ++ [bond] |}, tgt).

  Definition step (cfg : config) (rng : R) (m : mol) : res (mol * srec * R) :=
    let ob := find_open_bonds m in
    '(s, rng') <- step_select cfg rng ob ;;
    '(m', tgt) <- step_apply cfg m s ;;
    Ok (m', {| r_ob := ob; r_bonding := s_bonding s; r_source := s_source s; r_compl := s_compl s;
               r_fragname := s_fragname s; r_tnode := s_tnode s; r_target := tgt; r_picks := s_picks s |}, rng').

  (** * sample: the guarded loop `while current_weight < target_weight` (guard GENERATED) *)
  Fixpoint grow (cfg : config) (target : M) (fuel : nat) (rng : R) (m : mol) (cw : M) (log : list srec)
    : res (mol * M * list srec * R) :=
    if loop_guard mltb cw target then
      match fuel with
      | O => Err EOutOfFuel
      | Datatypes.S f =>
          '(m', r, rng') <- step cfg rng m ;;
          mass <- of_option (dict_get (c_masses cfg) (r_fragname r)) EKey ;;
          grow cfg target f rng' m' (madd cw mass) (log ++ [r])
      end
    else Ok (m, cw, log, rng).

  (** start fragment: given by name (a non-empty string) or chosen uniformly *)
  Definition start_fragment (cfg : config) (rng : R) (start : option pystr) : res (pystr * list nat * R) :=
    match start with
    | Some (c :: s) => Ok (c :: s, [], rng)
    | _ => '(nm, i, rng') <- choose rng (map fst (c_frags cfg)) None ;; Ok (nm, [i], rng')
    end.
  Definition sample_growth (cfg : config) (target : M) (fuel : nat) (rng : R) (start : option pystr)
    : res (pystr * list nat * mol * M * list srec * R) :=
    '(nm, i0, rng) <- start_fragment cfg rng start ;;
    tpl <- of_option (dict_get (c_frags cfg) nm) EKey ;;
    '(m0, _) <- merge_graphs mol_empty tpl ;;
    '(m, cw, log, rng) <- grow cfg target fuel rng m0 (c0 current_weight_start) [] ;;
    Ok (nm, i0, m, cw, log, rng).
End Carrier.

Arguments c_frags {M}. Arguments c_poly {M}. Arguments c_fragreact {M}. Arguments c_term {M}.
Arguments c_masses {M}. Arguments c_byb {M}.

(** the generator state "list of recorded indices" *)
Definition pick_list {M} (rng : list nat) (n : nat) (w : option (list M)) : res (nat * list nat) :=
  match rng with [] => Err EStopIter | i :: r => Ok (i, r) end.

(** * The observable graph form: nodes (key, attrs) in order, edges (u, v, attrs) *)
Definition ograph := (list (Z * attrs) * list (Z * Z * attrs))%type.

Definition onode_of (n : mnode) : Z * attrs :=
  (n_key n, n_attrs n ++ [(S "fragid", VList [VInt (n_fragid n)])]
            ++ match n_bonding n with Some ds => [(S "bonding", VList (map VStr ds))] | None => [] end).
Definition oedge_of (e : medge) : Z * Z * attrs :=
  (e_u e, e_v e, e_attrs e ++ match e_bonding e with
                              | Some (a, b) => [(S "bonding", VTup [VStr a; VStr b])]
                              | None => [] end).
Definition observe_mol (m : mol) : ograph := (map onode_of (m_nodes m), map oedge_of (m_edges m)).
