(** SampleMassHydro: the sampler's mass model DERIVED from the hydrogen component's node-by-node
    model of rebuild_h_atoms (Hydro/Hydrogens.v, end-to-end theorem Hydro/RebuildProofs.v).

    compute_mass(fragment) = copy; rebuild_h_atoms(copy); mass = 0; for node in copy.nodes: mass += PTE[element].
    Part 1 (Hydro only): the NODE ORDER of the completed graph: the original atoms in their order
    (elements unchanged), then the added hydrogens, as many as the per-atom counts of fill_valence add up to.
    Part 2: for every graph that represents the template (elements, charges, bond sums), the
    sampler's [compute_mass] (Sample/SampleImpl.v, any carrier, in particular binary64 with its
    non-associative addition) is the loop `for node in molecule.nodes: mass += PTE[element]` run over
    the graph Hydro's [rebuild_after_car] returns. *)
From Coq Require Import String.
From Coq Require Import List Ascii ZArith Bool Lia.
From CGV Require Import Base.PyBase Base.PyVal Base.PyGen Base.NxGraph Sample.GenSupport Gen.SamplerGen Sample.SampleImpl
     Sample.SampleDefs Sample.SampleProofs Sample.SampleMass Sample.SampleMassDefs.
From CGV Require Gen.HydroGen Hydro.Hydrogens Hydro.HydroDefs Hydro.GraphLemmas Hydro.HydrogensProofs Hydro.SquashProofs
     Hydro.RebuildProofs.
Import ListNotations.
Open Scope Z_scope.

Module H := Hydrogens.
Module RP := RebuildProofs.
Import GraphLemmas.

(** * Part 1: node order of the completed graph (Hydro only) *)
Definition sum_nat (l : list nat) : nat := fold_right Nat.add O l.

(** the hydrogen count fill_valence stores on an atom after the reset (respect_hcount=False) *)
Definition hcount_of (n : nrec) : res Z :=
  if H.is_H (na n) then Ok 0 else
  val <- H.valence_of (na n) ;; b <- H.sum_orders (nadj n) ;; Ok (Z.max (H.missing_of val b) 0).

Lemma filled_hcount n n3 : RP.filled n n3 -> exists hc, hcount_of n = Ok hc /\ RP.hcount_int (na n3) = Ok hc /\ 0 <= hc.
Proof.
  intros (_ & _ & _ & Hh & Hv). unfold hcount_of. destruct (H.is_H (na n)) eqn:E.
  - exists 0. split; [reflexivity|]. split; [apply Hh; reflexivity|lia].
  - destruct (Hv eq_refl) as (val & b & Ev & Eb & Ec). rewrite Ev, Eb. cbn [bind]. eexists. split; [reflexivity|]. split; [exact Ec|lia].
Qed.

Definition hcn (g : graph) (k : Z) : nat :=
  match gfind k g with
  | Some n => match RP.hcount_int (na n) with Ok hc => Z.to_nat hc | Err _ => O end
  | None => O
  end.

Lemma keys_add_h_step_exact g k g' n : gfind k g = Some n -> H.add_h_step g k = Ok g' ->
  exists hc, RP.hcount_int (na n) = Ok hc /\ node_keys g' = node_keys g ++ H.fresh_keys g hc.
Proof.
  intros G Hs. unfold H.add_h_step, node_attrs in Hs. rewrite G in Hs. cbn [bind] in Hs.
  fold (RP.hcount_int (na n)) in Hs. destruct (RP.hcount_int (na n)) as [hc|]; cbn [bind] in Hs; [|discriminate].
  exists hc. split; [reflexivity|].
  set (idxs := H.fresh_keys g hc) in *.
  assert (Hf : forall j, In j idxs -> gfind j g = None) by (intros j; apply HydrogensProofs.fresh_keys_fresh).
  assert (K : node_keys (del_node_attr (H.attach_h g k idxs) k (S "hcount")) = node_keys g ++ idxs).
  { unfold del_node_attr. rewrite node_keys_gupdate by reflexivity. unfold H.attach_h.
    pose proof (RP.keys_add_nodes HydroGen.h_atom_defaults idxs g (HydrogensProofs.fresh_keys_nodup g hc) Hf) as K1.
    rewrite RP.keys_add_edges_to; [exact K1| |].
    - apply SquashProofs.has_node_keys. rewrite K1. apply in_or_app. left. apply SquashProofs.has_node_keys.
      apply SquashProofs.has_node_gfind. eauto.
    - intros j Hj. apply SquashProofs.has_node_keys. rewrite K1. apply in_or_app. now right. }
  destruct (aget (S "rs_isomer") (na n)).
  - destruct (as_list p) as [l|]; cbn [bind] in Hs; [|discriminate].
    destruct (H.map_res _ l); cbn [bind] in Hs; [|discriminate]. inversion Hs; subst g'.
    rewrite SquashProofs.keys_set_node_attr. exact K.
  - inversion Hs; subst g'. exact K.
Qed.

Lemma keys_add_h_fold_count ks : NoDup ks -> forall acc g', RP.closed_g acc ->
  (forall k, In k ks -> exists n, gfind k acc = Some n /\ RP.no_rs n) ->
  H.fold_res H.add_h_step ks acc = Ok g' ->
  exists hs, node_keys g' = node_keys acc ++ hs /\ (forall j, In j hs -> gfind j acc = None) /\
             length hs = sum_nat (map (hcn acc) ks) /\
             (forall j, In j hs -> forall k, In k (node_keys acc) -> k < j).
Proof.
  induction ks as [|k ks IH]; intros Hnd acc g' Hcl Hks Hf.
  - cbn in Hf. inversion Hf; subst. exists []. rewrite app_nil_r. repeat split; intros j [].
  - cbn [H.fold_res] in Hf. destruct (H.add_h_step acc k) as [acc1|] eqn:S1; cbn [bind] in Hf; [|discriminate].
    inversion Hnd as [|? ? Hk Hnd']; subst.
    destruct (Hks k (or_introl eq_refl)) as (n & Gk & Rk).
    destruct (RP.add_h_step_spec acc k acc1 n Hcl Gk Rk S1) as (hc & Ehc & G1 & Gj & Go & Cl1).
    destruct (keys_add_h_step_exact acc k acc1 n Gk S1) as (hc' & Ehc' & K1).
    rewrite Ehc in Ehc'. inversion Ehc'; subst hc'. cbn zeta in *. set (idxs := H.fresh_keys acc hc) in *.
    assert (Fresh : forall j, In j idxs -> gfind j acc = None) by (intros j; apply HydrogensProofs.fresh_keys_fresh).
    assert (Same : forall i m, gfind i acc = Some m -> i <> k -> gfind i acc1 = Some m).
    { intros i m Gi Ni. rewrite Go; [assumption|assumption|]. intro X. rewrite (Fresh i X) in Gi. discriminate. }
    assert (Hks' : forall k', In k' ks -> exists n', gfind k' acc1 = Some n' /\ RP.no_rs n').
    { intros k' Hin. destruct (Hks k' (or_intror Hin)) as (n' & G' & R'). exists n'. split; [|assumption].
      apply Same; [assumption|]. intro X. subst. contradiction. }
    destruct (IH Hnd' acc1 g' Cl1 Hks' Hf) as (hs & Kg & Fr & Len & Ab).
    exists (idxs ++ hs). split; [rewrite Kg, K1, app_assoc; reflexivity|]. split; [|split].
    + intros j Hj. apply in_app_or in Hj as [Hj|Hj]; [now apply Fresh|].
      specialize (Fr j Hj). destruct (gfind j acc) as [m|] eqn:Gm; [|reflexivity].
      destruct (Z.eq_dec j k) as [->|Nj]; [rewrite G1 in Fr; discriminate|].
      rewrite (Same _ _ Gm Nj) in Fr. discriminate.
    + rewrite app_length, Len. cbn [map sum_nat fold_right]. f_equal.
      * unfold hcn. rewrite Gk, Ehc. apply RP.fresh_keys_length.
      * fold (sum_nat (map (hcn acc) ks)). f_equal. apply map_ext_in. intros k' Hin. unfold hcn.
        destruct (Hks k' (or_intror Hin)) as (n' & G' & _). rewrite G'.
        rewrite (Same _ _ G'); [reflexivity|]. intro X. subst. contradiction.
    + intros j Hj k0 Hk0. apply in_app_or in Hj as [Hj|Hj].
      * unfold idxs, H.fresh_keys in Hj. apply in_map_iff in Hj as (i & <- & _).
        pose proof (HydrogensProofs.max_key_ge acc k0 Hk0). lia.
      * apply (Ab j Hj). rewrite K1. apply in_or_app. now left.
Qed.

Lemma keys_inherit_attr k anchor g attr g' : H.inherit_attr k anchor g attr = Ok g' -> node_keys g' = node_keys g.
Proof.
  unfold H.inherit_attr. destruct (node_attrs g k) as [nn|]; cbn [bind]; [|discriminate].
  destruct (ahas attr nn); [intros [= <-]; reflexivity|].
  destruct (node_attrs g anchor) as [an|]; cbn [bind]; [|discriminate]. intros [= <-]. apply SquashProofs.keys_set_node_attr.
Qed.
Lemma keys_fold_res {B} (f : graph -> B -> res graph) :
  (forall g x g', f g x = Ok g' -> node_keys g' = node_keys g) ->
  forall l g g', H.fold_res f l g = Ok g' -> node_keys g' = node_keys g.
Proof.
  intros Hf. induction l as [|x l IH]; intros g g' E; cbn [H.fold_res] in E; [inversion E; reflexivity|].
  destruct (f g x) as [g1|] eqn:E1; cbn [bind] in E; [|discriminate]. rewrite (IH _ _ E). eapply Hf; eassumption.
Qed.
Lemma keys_inherit_all ca g g' : H.inherit_all ca g = Ok g' -> node_keys g' = node_keys g.
Proof.
  unfold H.inherit_all. apply keys_fold_res. intros g0 k g1. unfold H.inherit_step.
  destruct (node_attrs g0 k) as [n|]; cbn [bind]; [|discriminate].
  destruct (H.wants_inherit n); [|intros [= <-]; reflexivity].
  destruct (neighbors g0 k) as [|anchor r]; [discriminate|].
  apply keys_fold_res. intros a b c. apply keys_inherit_attr.
Qed.

Lemma forall2_gfind_cons n r ks l : Forall2 (fun k m => gfind k r = Some m) ks l -> ~ In (nk n) ks ->
  Forall2 (fun k m => gfind k (n :: r) = Some m) ks l.
Proof.
  induction 1 as [|k m ks l Hkm F IHF]; intros Hn; constructor.
  - cbn. destruct (Z.eqb_spec (nk n) k) as [E|_]; [exfalso; apply Hn; now left|exact Hkm].
  - apply IHF. intro X. apply Hn. now right.
Qed.
Lemma nodup_list_gfind (g : graph) : NoDup (node_keys g) -> Forall2 (fun k n => gfind k g = Some n) (node_keys g) g.
Proof.
  induction g as [|n r IH]; intros ND; [constructor|]. inversion ND as [|? ? Hn ND']; subst.
  change (node_keys (n :: r)) with (nk n :: node_keys r).
  constructor; [cbn; now rewrite Z.eqb_refl|]. apply forall2_gfind_cons; [apply IH; exact ND'|exact Hn].
Qed.

Definition is_H_elt (o : option pyval) : Prop := o = Some (VStr (S "H")).
Lemma is_H_elt_of a : H.is_H a = true -> aget (S "element") a = Some (VStr (S "H")).
Proof.
  unfold H.is_H, H.is_elem. destruct (aget (S "element") a) as [[]|]; try discriminate.
  intros E. apply str_eqb_eq in E. now subst.
Qed.

(** [rebuild_node_order]: the node list of the completed graph carries the elements of the original
    atoms, in their order, followed by one "H" per added hydrogen; the number of added hydrogens
    is the sum of the per-atom counts max(bonds_missing, 0) (0 for atoms that are hydrogens) *)
Theorem rebuild_node_order ca g1 g' :
  NoDup (node_keys g1) -> RP.closed_g g1 -> RP.noself_g g1 -> (forall i n, gfind i g1 = Some n -> RP.no_rs n) ->
  H.rebuild_after_car false ca g1 = Ok g' ->
  exists hcs, Forall2 (fun n hc => hcount_of n = Ok hc /\ 0 <= hc) g1 hcs /\
    map elt g' = map elt g1 ++ repeat (Some (VStr (S "H"))) (sum_nat (map Z.to_nat hcs)).
Proof.
  intros Hnd Hcl Hns Hrs Hr.
  destruct (RP.rebuild_end_to_end ca g1 g' Hnd Hcl Hns Hrs Hr) as (C1 & C2 & C3).
  unfold H.rebuild_after_car in Hr.
  change HydroGen.rebuild_reset_attr with (S "hcount") in Hr. change HydroGen.rebuild_reset_value with 0 in Hr.
  change HydroGen.rebuild_respect_hcount with false in Hr.
  destruct (H.fill_valence false (set_all_nodes g1 (S "hcount") (VInt 0))) as [g3|] eqn:F; cbn [bind] in Hr; [|discriminate].
  destruct (RP.phase01 g1 g3 Hnd F) as (K3 & P3).
  destruct (H.add_explicit_hydrogens g3) as [g5|] eqn:A; cbn [bind] in Hr; [|discriminate].
  unfold H.add_explicit_hydrogens in A. rewrite K3 in A.
  assert (In3 : forall i n3, gfind i g3 = Some n3 -> exists n, gfind i g1 = Some n /\ RP.filled n n3).
  { intros i n3 G. specialize (P3 i). destruct (gfind i g1) as [n|]; [|congruence].
    destruct P3 as (n3' & G' & Fl). rewrite G in G'. inversion G'; subst. eauto. }
  assert (Cl3 : RP.closed_g g3).
  { intros i n3 w a G Hin. destruct (In3 i n3 G) as (n & G1 & (_ & Adj & _)). rewrite Adj in Hin.
    pose proof (Hcl i n w a G1 Hin) as X. specialize (P3 w). destruct (gfind w g1); [|congruence].
    destruct P3 as (? & -> & _). discriminate. }
  assert (Ks3 : forall k, In k (node_keys g1) -> exists n3, gfind k g3 = Some n3 /\ RP.no_rs n3).
  { intros k Hin. destruct (gfind_some_keys k g1 Hin) as [n G1]. specialize (P3 k). rewrite G1 in P3.
    destruct P3 as (n3 & G3 & (_ & _ & At & _)). exists n3. split; [assumption|]. unfold RP.no_rs.
    rewrite At by (intro X; vm_compute in X; discriminate). exact (Hrs k n G1). }
  destruct (keys_add_h_fold_count (node_keys g1) Hnd g3 g5 Cl3 Ks3 A) as (hs & K5 & Fr5 & Len5 & _).
  pose proof (keys_inherit_all ca g5 g' Hr) as Kg.
  assert (Nd3 : NoDup (node_keys g3)) by (rewrite K3; exact Hnd).
  destruct (RP.keys_add_h_fold (node_keys g1) g3 g5 Nd3) as [Nd5 _]; [intros k Hk; rewrite K3; exact Hk|exact A|].
  assert (Ndg : NoDup (node_keys g')) by (rewrite Kg; exact Nd5).
  (* the per-atom counts *)
  assert (Hc : exists hcs, Forall2 (fun n hc => hcount_of n = Ok hc /\ 0 <= hc) g1 hcs /\
                           map (hcn g3) (node_keys g1) = map Z.to_nat hcs).
  { pose proof (nodup_list_gfind g1 Hnd) as F2. revert F2. generalize (node_keys g1) as ks. intros ks F2.
    induction F2 as [|k n ks l Gk F2 IH]; [exists []; split; [constructor|reflexivity]|].
    destruct IH as (hcs & Fh & Em). specialize (P3 k). rewrite Gk in P3. destruct P3 as (n3 & G3 & Fl).
    destruct (filled_hcount n n3 Fl) as (hc & E1 & E2 & E3). exists (hc :: hcs). split; [constructor; [split; assumption|exact Fh]|].
    cbn [map]. rewrite Em. f_equal. unfold hcn. rewrite G3, E2. reflexivity. }
  destruct Hc as (hcs & Fh & Em). exists hcs. split; [exact Fh|].
  (* the elements along the key list of g' *)
  pose proof (nodup_list_gfind g' Ndg) as Fg. rewrite Kg, K5, K3 in Fg.
  apply Forall2_app_inv_l in Fg as (l1 & l2 & F1 & F2 & Eg'). rewrite Eg', map_app. clear Eg'. f_equal.
  - pose proof (nodup_list_gfind g1 Hnd) as Fo. clear - F1 Fo C1 C2. revert l1 F1.
    induction Fo as [|k n ks l Gk Fo IH]; intros l1 F1; inversion F1 as [|? n' ? l1' Gk' F1']; subst; [reflexivity|].
    cbn [map]. f_equal; [|now apply IH]. unfold elt. destruct (H.is_H (na n)) eqn:EH.
    + destruct (C2 k n Gk EH) as (n2 & G2 & _ & Keep). rewrite Gk' in G2. inversion G2; subst n2.
      rewrite (is_H_elt_of _ EH). apply Keep; [intro X; vm_compute in X; discriminate|apply is_H_elt_of; exact EH].
    + destruct (C1 k n Gk EH) as (val & b & idxs & n2 & _ & _ & _ & _ & _ & G2 & _ & At & _). rewrite Gk' in G2. inversion G2; subst n2.
      apply At. intro X; vm_compute in X; discriminate.
  - rewrite <- Em, <- Len5.
    assert (E : forall j m, In j hs -> gfind j g' = Some m -> elt m = Some (VStr (S "H"))).
    { intros j m Hj Gm. assert (G1 : gfind j g1 = None).
      { specialize (Fr5 j Hj). specialize (P3 j). destruct (gfind j g1); [|reflexivity]. destruct P3 as (? & X & _). congruence. }
      destruct (C3 j m G1 Gm) as (k & _ & _ & EH). apply is_H_elt_of. exact EH. }
    clear - F2 E. induction F2 as [|j m hs l Gm F2 IH]; [reflexivity|]. cbn [map length repeat]. f_equal.
    + apply (E j m); [now left|exact Gm].
    + apply IH. intros j' m' Hj. apply E. now right.
Qed.

(** [rebuild_keys_order]: the keys of the completed graph are the original keys in their order followed by the keys
    of the added hydrogens, each of which is ABOVE every original key (so any ordering by (fragid, key) puts the atoms
    of a fragment, explicit hydrogens included, before the hydrogens that complete it) and is a hydrogen bonded to
    exactly one original atom *)
Theorem rebuild_keys_order ca g1 g' :
  NoDup (node_keys g1) -> RP.closed_g g1 -> RP.noself_g g1 -> (forall i n, gfind i g1 = Some n -> RP.no_rs n) ->
  H.rebuild_after_car false ca g1 = Ok g' ->
  exists hs, node_keys g' = node_keys g1 ++ hs /\
    (forall j, In j hs -> (forall k, In k (node_keys g1) -> k < j) /\
       exists m k, gfind j g' = Some m /\ In k (node_keys g1) /\ nadj m = [(k, H.h_edge_attrs)] /\ H.is_H (na m) = true).
Proof.
  intros Hnd Hcl Hns Hrs Hr.
  destruct (RP.rebuild_end_to_end ca g1 g' Hnd Hcl Hns Hrs Hr) as (_ & _ & C3).
  unfold H.rebuild_after_car in Hr.
  change HydroGen.rebuild_reset_attr with (S "hcount") in Hr. change HydroGen.rebuild_reset_value with 0 in Hr.
  change HydroGen.rebuild_respect_hcount with false in Hr.
  destruct (H.fill_valence false (set_all_nodes g1 (S "hcount") (VInt 0))) as [g3|] eqn:F; cbn [bind] in Hr; [|discriminate].
  destruct (RP.phase01 g1 g3 Hnd F) as (K3 & P3).
  destruct (H.add_explicit_hydrogens g3) as [g5|] eqn:A; cbn [bind] in Hr; [|discriminate].
  unfold H.add_explicit_hydrogens in A. rewrite K3 in A.
  assert (In3 : forall i n3, gfind i g3 = Some n3 -> exists n, gfind i g1 = Some n /\ RP.filled n n3).
  { intros i n3 G. specialize (P3 i). destruct (gfind i g1) as [n|]; [|congruence].
    destruct P3 as (n3' & G' & Fl). rewrite G in G'. inversion G'; subst. eauto. }
  assert (Cl3 : RP.closed_g g3).
  { intros i n3 w a G Hin. destruct (In3 i n3 G) as (n & G1 & (_ & Adj & _)). rewrite Adj in Hin.
    pose proof (Hcl i n w a G1 Hin) as X. specialize (P3 w). destruct (gfind w g1); [|congruence].
    destruct P3 as (? & -> & _). discriminate. }
  assert (Ks3 : forall k, In k (node_keys g1) -> exists n3, gfind k g3 = Some n3 /\ RP.no_rs n3).
  { intros k Hin. destruct (gfind_some_keys k g1 Hin) as [n G1]. specialize (P3 k). rewrite G1 in P3.
    destruct P3 as (n3 & G3 & (_ & _ & At & _)). exists n3. split; [assumption|]. unfold RP.no_rs.
    rewrite At by (intro X; vm_compute in X; discriminate). exact (Hrs k n G1). }
  destruct (keys_add_h_fold_count (node_keys g1) Hnd g3 g5 Cl3 Ks3 A) as (hs & K5 & Fr5 & _ & Ab).
  pose proof (keys_inherit_all ca g5 g' Hr) as Kg.
  exists hs. split; [rewrite Kg, K5, K3; reflexivity|]. intros j Hj. split.
  - intros k Hk. apply (Ab j Hj). rewrite K3. exact Hk.
  - assert (G1 : gfind j g1 = None).
    { specialize (Fr5 j Hj). specialize (P3 j). destruct (gfind j g1); [|reflexivity]. destruct P3 as (? & X & _). congruence. }
    destruct (gfind_some_keys j g') as [m Gm]; [rewrite Kg, K5; apply in_or_app; now right|].
    destruct (C3 j m G1 Gm) as (k & Hk & Adj & EH). exists m, k. split; [exact Gm|]. split; [|split; assumption].
    destruct (in_dec Z.eq_dec k (node_keys g1)) as [X|X]; [exact X|]. apply gfind_none_keys in X. contradiction.
Qed.

(** * Part 2: the sampler's compute_mass is the mass loop over the completed graph *)
(** the valence table has capitalised element symbols only and no wildcard row *)
Lemma table_keys_capitalised :
  forallb (fun row => str_eqb (H.capitalize (fst (fst row))) (fst (fst row)) && negb (str_eqb (fst (fst row)) (S "*")))
          HydroGen.valence_table = true.
Proof. vm_compute. reflexivity. Qed.
Lemma table_row_key e q r : H.table_row e q = Some r -> H.capitalize e = e /\ e <> S "*".
Proof.
  unfold H.table_row. destruct (find _ HydroGen.valence_table) as [row|] eqn:F; [|discriminate]. intros _.
  apply find_some in F as [Hin Hp]. apply andb_true_iff in Hp as [Hp _]. apply str_eqb_eq in Hp.
  pose proof table_keys_capitalised as T. rewrite forallb_forall in T. specialize (T row Hin).
  apply andb_true_iff in T as [T1 T2]. apply str_eqb_eq in T1. rewrite Hp in T1, T2. split; [exact T1|].
  intros ->. rewrite str_eqb_refl in T2. discriminate.
Qed.

(** a graph node represents a template node: same element and charge, and its bond orders (half units)
    add up to twice the template's integer bond sum *)
Definition node_rep (es : list (Z * Z * attrs)) (t : tnode) (n : nrec) : Prop :=
  aget (S "element") (na n) = aget (S "element") (t_attrs t) /\
  aget (S "charge") (na n) = aget (S "charge") (t_attrs t) /\
  forall b, bond_sum (t_key t) es = Ok b -> H.sum_orders (nadj n) = Ok (2 * b).
Definition represents (t : template) (g : graph) : Prop := Forall2 (node_rep (f_edges t)) (f_nodes t) g.

Lemma rep_hcount es ns g : Forall2 (node_rep es) ns g -> forall nh hcs, template_hcount ns es = Ok nh ->
  Forall2 (fun n hc => hcount_of n = Ok hc /\ 0 <= hc) g hcs -> sum_nat (map Z.to_nat hcs) = Z.to_nat nh /\ 0 <= nh.
Proof.
  induction 1 as [|t n ns g (Re & Rq & Rb) F IH]; intros nh hcs Ht Fh; inversion Fh as [|? hc ? hcs' [Eh Ph] Fh']; subst.
  - cbn in Ht. inversion Ht. split; [reflexivity|lia].
  - cbn [template_hcount] in Ht. destruct (template_hcount ns es) as [rest|] eqn:Er; cbn [bind] in Ht; [|discriminate].
    destruct (IH rest hcs' eq_refl Fh') as [IH1 IH2].
    unfold attr_str in Ht. destruct (aget (S "element") (t_attrs t)) as [[| | | |e| | |]|] eqn:Ee; cbn [bind] in Ht; try discriminate.
    unfold hcount_of, H.is_H, H.is_elem in Eh. rewrite Re in Eh.
    destruct (str_eqb e (S "H")) eqn:EH.
    + inversion Ht; subst nh. inversion Eh; subst hc. cbn [map sum_nat fold_right]. split; [exact IH1|exact IH2].
    + unfold attr_int_default in Ht. 
      assert (Eq : exists q, H.charge_of (na n) = Ok q /\ attr_int_default (S "charge") (t_attrs t) 0 = Ok q).
      { unfold H.charge_of, attr_int_default. rewrite Rq. destruct (aget (S "charge") (t_attrs t)) as [[]|]; try discriminate; eauto. }
      destruct Eq as (q & Eq1 & Eq2). unfold attr_int_default in Eq2. rewrite Eq2 in Ht. cbn [bind] in Ht.
      destruct (bond_sum (t_key t) es) as [b|] eqn:Eb; cbn [bind] in Ht; [|discriminate].
      rewrite valence_of_is_table_row in Ht. destruct (H.table_row e q) as [[vals|]|] eqn:Et; try discriminate.
      inversion Ht; subst nh. rewrite h_missing_is_hydro.
      destruct (table_row_key e q _ Et) as [Cap Nw].
      assert (Ev : H.valence_of (na n) = Ok vals).
      { unfold H.valence_of. rewrite Re. destruct (str_eqb_spec e (S "*")) as [->|_]; [contradiction|].
        rewrite Eq1. cbn [bind]. rewrite Cap, Et. reflexivity. }
      rewrite Ev, (Rb b eq_refl) in Eh. cbn [bind] in Eh. inversion Eh; subst hc.
      cbn [map sum_nat fold_right]. fold (sum_nat (map Z.to_nat hcs')). rewrite IH1. split; [|lia].
      rewrite Z2Nat.inj_add by lia. reflexivity.
Qed.

Section MassLoop.
  Variable M : Type.
  Variables (c0 : Z -> M) (madd : M -> M -> M).

  Notation nx_mass_from := (SampleMassDefs.nx_mass_from M madd).
  Notation nx_mass := (SampleMassDefs.nx_mass M c0 madd).

  Fixpoint mass_elts (pte : list (pystr * M)) (l : list (option pyval)) (acc : M) : res M :=
    match l with
    | [] => Ok acc
    | o :: r => e <- attr_str (S "element") (match o with Some v => [(S "element", v)] | None => [] end) ;;
                x <- of_option (dict_get pte e) EKey ;; mass_elts pte r (madd acc x)
    end.
  Lemma attr_str_elt a : attr_str (S "element") a =
    attr_str (S "element") (match aget (S "element") a with Some v => [(S "element", v)] | None => [] end).
  Proof. unfold attr_str. destruct (aget (S "element") a) as [v|]; [|reflexivity]. cbn. reflexivity. Qed.
  Lemma nx_mass_elts pte g : forall acc, nx_mass_from pte g acc = mass_elts pte (map elt g) acc.
  Proof.
    induction g as [|n r IH]; intros acc; cbn [nx_mass_from mass_elts map]; [reflexivity|].
    rewrite (attr_str_elt (na n)). unfold elt at 1. destruct (attr_str _ _) as [p|]; cbn [bind]; [|reflexivity].
    destruct (dict_get pte p); cbn [of_option bind]; [apply IH|reflexivity].
  Qed.
  Lemma heavy_sum_elts pte ns : forall acc,
    heavy_sum M madd pte ns acc = mass_elts pte (map (fun t => aget (S "element") (t_attrs t)) ns) acc.
  Proof.
    induction ns as [|n r IH]; intros acc; [reflexivity|]. rewrite heavy_sum_cons. cbn [mass_elts map].
    rewrite (attr_str_elt (t_attrs n)). destruct (attr_str _ _) as [p|]; cbn [bind]; [|reflexivity].
    destruct (dict_get pte p); cbn [of_option bind]; [apply IH|reflexivity].
  Qed.
  Lemma mass_elts_app pte l1 l2 : forall acc,
    mass_elts pte (l1 ++ l2) acc = (y <- mass_elts pte l1 acc ;; mass_elts pte l2 y).
  Proof.
    induction l1 as [|o r IH]; intros acc; [reflexivity|]. cbn [app mass_elts].
    destruct (attr_str _ _) as [p|]; cbn [bind]; [|reflexivity]. destruct (dict_get pte p); cbn [of_option bind]; [apply IH|reflexivity].
  Qed.
  Lemma mass_elts_repeat_H pte mh : dict_get pte (S "H") = Some mh -> forall n acc,
    mass_elts pte (repeat (Some (VStr (S "H"))) n) acc = Ok (repeat_add M madd mh n acc).
  Proof.
    intros E. induction n as [|k IH]; intros acc; [reflexivity|]. cbn [repeat mass_elts repeat_add].
    change (attr_str (S "element") [(S "element", VStr (S "H"))]) with (Ok (S "H") : res pystr). cbn [bind]. rewrite E. cbn [of_option bind]. apply IH.
  Qed.

  (** [mass_from_hydro]: for every graph [g1] that represents the template [t] (elements, charges, bond
      sums; the fragment graph itself, or the state after pysmiles' aromaticity step when it keeps the
      orders) and satisfies the structural hypotheses of the hydrogen component's theorem: if the
      sampler's mass model yields [x], then the mass loop of compute_mass over the graph that Hydro's model
      of rebuild_h_atoms returns yields the same [x] — in ANY carrier, additions in the same order. *)
  Theorem mass_from_hydro pte t ca g1 g' x :
    represents t g1 ->
    NoDup (node_keys g1) -> RP.closed_g g1 -> RP.noself_g g1 -> (forall i n, gfind i g1 = Some n -> RP.no_rs n) ->
    H.rebuild_after_car false ca g1 = Ok g' ->
    compute_mass M c0 madd pte t = Ok x ->
    nx_mass pte g' = Ok x.
  Proof.
    intros Rep Hnd Hcl Hns Hrs Hr Hm.
    destruct (rebuild_node_order ca g1 g' Hnd Hcl Hns Hrs Hr) as (hcs & Fh & Eg).
    unfold compute_mass in Hm. destruct (template_hcount (f_nodes t) (f_edges t)) as [nh|] eqn:Eh; cbn [bind] in Hm; [|discriminate].
    match type of Hm with context [bind (?go (f_nodes t) (c0 0))] => change go with (heavy_sum M madd pte) in Hm end.
    destruct (heavy_sum M madd pte (f_nodes t) (c0 0)) as [heavy|] eqn:Es; cbn [bind] in Hm; [|discriminate].
    destruct (dict_get pte (S "H")) as [mh|] eqn:EH; cbn [of_option bind] in Hm; [|discriminate].
    inversion Hm; subst x. clear Hm.
    destruct (rep_hcount _ _ _ Rep nh hcs Eh Fh) as [Ec _].
    unfold nx_mass. rewrite nx_mass_elts, Eg, mass_elts_app.
    assert (Em : map elt g1 = map (fun t => aget (S "element") (t_attrs t)) (f_nodes t)).
    { clear - Rep. unfold represents in Rep. induction Rep as [|t0 n ns g (Re & _) F IH]; [reflexivity|]. cbn [map]. unfold elt at 1. now rewrite Re, IH. }
    rewrite Em, <- heavy_sum_elts, Es. cbn [bind]. rewrite (mass_elts_repeat_H pte mh EH), Ec. reflexivity.
  Qed.

  (** with the aromaticity transcript: rebuild_h_atoms as a whole *)
  Corollary mass_from_hydro_rebuild pte t ca g car g' x :
    NoDup (node_keys g) -> RP.closed_g g -> RP.noself_g g ->
    H.rebuild_h_atoms false ca g car = Ok g' ->
    (forall g1, car = Some g1 -> represents t g1 /\ forall i n, gfind i g1 = Some n -> RP.no_rs n) ->
    compute_mass M c0 madd pte t = Ok x ->
    nx_mass pte g' = Ok x.
  Proof.
    intros Hnd Hcl Hns Hr Hc Hm.
    destruct (RP.rebuild_h_atoms_end_to_end ca g car g' Hnd Hcl Hns Hr) as (g1 & Ec & _ & Nd1 & Cl1 & Ns1 & Hr1).
    destruct (Hc g1 Ec) as [Rep Hrs]. exact (mass_from_hydro pte t ca g1 g' x Rep Nd1 Cl1 Ns1 Hrs Hr1 Hm).
  Qed.
End MassLoop.
