(** SampleExample: a concrete sampler at the Z carrier with a long valid run, used by the
    non-vacuity Examples of C16/C17 (definitions only). *)
From Coq Require Import String.
From Coq Require Import List Ascii ZArith Bool.
From CGV Require Import Base.PyBase Base.PyVal Base.PyGen Sample.GenSupport Gen.SamplerGen Sample.SampleImpl Sample.SampleDefs.
Import ListNotations.
Open Scope Z_scope.

Definition ex_node (k : Z) (b : option (list pystr)) (nm : string) : tnode :=
  {| t_key := k; t_fragid := 0; t_bonding := b; t_attrs := [(S "element", VStr (S "C")); (S "fragname", VStr (S nm))] |}.
(** #A=[>]CC[<][$A]   #B=[<]C[$B]    ('$B' terminal) *)
Definition ex_A : template :=
  {| f_nodes := [ex_node 0 (Some [S ">1"]) "A"; ex_node 1 (Some [S "<1"; S "$A1"]) "A"];
     f_edges := [(0, 1, [(S "order", VInt 1)])] |}.
Definition ex_B : template := {| f_nodes := [ex_node 0 (Some [S "<1"; S "$B1"]) "B"]; f_edges := [] |}.
Definition ex_frags : fragdict := [(S "A", ex_A); (S "B", ex_B)].
Definition ex_cfg : res (config Z) :=
  init Z ex_frags [(S ">", 1); (S "<", 2); (S "$A", 1); (S "$B", 0)] [(S "$A", [(S "$A", 0); (S "$B", 3)])]
       [S "$B"] [(S "A", 28); (S "B", 15)].
Definition zpick := @pick_list Z.
Definition ex_picks : list nat := [0; 0;0;0;0; 0;0;0;0; 0;0;1;0; 0;0;0;1; 1;0;0;0; 0;0;1;0; 1;0;0;0]%nat.
Definition ex_run :=
  match ex_cfg with
  | Ok cfg => sample_growth Z (fun z => z) Z.add Z.ltb (Z.eqb 0) (list nat) zpick cfg 120 (length ex_picks) ex_picks None
  | Err e => Err e
  end.
