(** SampleValence: valence completeness of all-atom samples (C16) as a COROLLARY of the hydrogen
    component's end-to-end theorem (Hydro/RebuildProofs.v, property C09).  What is proved here is
    that the graph the sampler hands to rebuild_h_atoms satisfies the structural hypotheses of that
    theorem (distinct keys, every neighbour is a node, no self loops) for EVERY run of sample():
    the replay [to_nx] of the grown molecule is a well-formed graph in the sense of Hydro/SquashDefs. *)
From Coq Require Import String.
From Coq Require Import List Ascii ZArith Bool Lia.
From CGV Require Import Base.PyBase Base.PyVal Base.PyGen Base.NxGraph Sample.GenSupport Gen.SamplerGen
     Sample.SampleImpl Sample.SampleDefs Sample.SampleSpec Sample.SampleProofs Sample.SampleTree Sample.SampleFragid
     Sample.SampleFinal.
From CGV Require Gen.HydroGen Hydro.Hydrogens Hydro.HydroDefs Hydro.GraphLemmas Hydro.SquashDefs Hydro.SquashProofs
     Hydro.HydrogensProofs Hydro.RebuildProofs Resolve.MapProofs.
Import ListNotations.
Open Scope Z_scope.

(** * no self loops among the model's edges *)
Definition noself (m : mol) : Prop := Forall (fun e => e_u e <> e_v e) (m_edges m).
Lemma mk_edges_noself corr tes es : mk_edges corr tes = Ok es -> Forall (fun e => e_u e <> e_v e) es.
Proof.
  revert es. induction tes as [|[[a b] at_] r IH]; intros es; cbn [mk_edges]; [intros [= <-]; constructor|].
  destruct (assocz a corr) as [ca|]; cbn [of_option bind]; [|discriminate].
  destruct (assocz b corr) as [cb|]; cbn [of_option bind]; [|discriminate].
  destruct (mk_edges corr r) as [rest|]; cbn [bind]; [|discriminate].
  intros [= <-]. specialize (IH rest eq_refl). destruct (Z.eqb_spec ca cb); [assumption|constructor; [exact n|assumption]].
Qed.

Section Wf.
  Variable M : Type.
  Variables (c0 : Z -> M) (madd : M -> M -> M) (mltb : M -> M -> bool) (misz : M -> bool).
  Variable R : Type.
  Variable pick : R -> nat -> option (list M) -> res (nat * R).
  Variable cfg : config M.
  Hypothesis Wf : wf_frags (c_frags cfg).

  Lemma noself_step rng m k m' r rng' : Shape m k -> noself m ->
    step M c0 misz R pick cfg rng m = Ok (m', r, rng') -> noself m'.
  Proof.
    intros Sh Ns. unfold step.
    destruct (step_select M c0 misz R pick cfg rng (find_open_bonds m)) as [[s rng1]|] eqn:Es; cbn [bind]; [|discriminate].
    destruct (step_apply M cfg m s) as [[m1 tgt]|] eqn:Ea; cbn [bind]; [|discriminate].
    intros [= <- _ _]. destruct (select_complementary M c0 misz R pick cfg _ _ _ _ Es) as (_ & (srcs & Hs1 & Hs2) & _).
    assert (Hsrc : In (s_source s) (map n_key (m_nodes m))) by (eapply find_open_bonds_keys; [apply dict_get_in; exact Hs1|exact Hs2]).
    destruct (step_apply_inv M cfg _ _ _ _ Ea) as (tpl & off & fo & es & ns1 & ns2 & o & D1 & D2 & D3 & D4 & _ & _ & _ & He).
    rewrite (shape_offsets _ _ Sh) in D2. injection D2 as <- <-.
    unfold noself. rewrite He. apply Forall_app. split; [apply Forall_app; split; [exact Ns|eapply mk_edges_noself; eassumption]|].
    constructor; [|constructor]. cbn [e_u e_v].
    rewrite (sh_keys _ _ Sh) in Hsrc. apply zseq_in in Hsrc.
    apply assocz_in in D4. assert (Ht : In tgt (map snd (mk_corr (Z.of_nat (length (m_nodes m)) - 1) 0 (f_nodes tpl))))
      by (change tgt with (snd (s_tnode s, tgt)); now apply in_map).
    rewrite <- (mk_nodes_keys 0), mk_nodes_keys_seq in Ht. apply in_map_iff in Ht as [j [<- _]]. lia.
  Qed.

  (** structural facts about the molecule after sample(): distinct keys, edges between nodes, no loops *)
  Theorem sample_structure target fuel rng start nm i0 m cw log rng' :
    sample_growth M c0 madd mltb misz R pick cfg target fuel rng start = Ok (nm, i0, m, cw, log, rng') ->
    NoDup (map n_key (m_nodes m)) /\
    Forall (fun e => In (e_u e) (map n_key (m_nodes m)) /\ In (e_v e) (map n_key (m_nodes m))) (m_edges m) /\
    noself m.
  Proof.
    unfold sample_growth.
    destruct (start_fragment M misz R pick cfg rng start) as [[[nm0 i] rng0]|]; cbn [bind]; [|discriminate].
    destruct (dict_get (c_frags cfg) nm0) as [tpl|] eqn:D; cbn [of_option bind]; [|discriminate].
    destruct (merge_graphs mol_empty tpl) as [[m0 corr]|] eqn:Em; cbn [bind]; [|discriminate].
    destruct (grow M c0 madd mltb misz R pick cfg target fuel rng0 m0 (c0 current_weight_start) []) as [[[[m1 cw1] log1] rng1]|] eqn:G; cbn [bind]; [|discriminate].
    intros [= <- <- <- <- <- <-].
    assert (Wt : wf_template tpl).
    { apply dict_get_in in D. pose proof Wf as W. unfold wf_frags in W. rewrite Forall_forall in W. apply (W _ D). }
    pose proof (shape_first _ _ _ Wt Em) as Sh0.
    assert (Ns0 : noself m0).
    { revert Em. unfold merge_graphs, merge_offsets. cbn [m_nodes mol_empty bind].
      destruct (mk_edges (mk_corr (-1) 0 (f_nodes tpl)) (f_edges tpl)) as [es|] eqn:D3; cbn [bind]; [|discriminate].
      intros [= <- _]. unfold noself. cbn [m_edges app]. eapply mk_edges_noself; eassumption. }
    assert (Hg : forall fuel rng m cw log m' cw' log' rng' k, grow M c0 madd mltb misz R pick cfg target fuel rng m cw log = Ok (m', cw', log', rng') ->
                 Shape m k -> noself m -> exists k', Shape m' k' /\ noself m').
    { clear - Wf. induction fuel as [|f IH]; intros rng m cw log m' cw' log' rng' k; cbn [grow].
      - destruct (loop_guard mltb cw target); [discriminate|]. intros [= <- <- <- <-] S N. eauto.
      - destruct (loop_guard mltb cw target).
        + destruct (step M c0 misz R pick cfg rng m) as [[[m1 r] rng1]|] eqn:E; cbn [bind]; [|discriminate].
          destruct (dict_get (c_masses cfg) (r_fragname r)) as [x|]; cbn [of_option bind]; [|discriminate].
          intros H S N. eapply IH; [exact H|eapply (shape_step M c0 misz R pick cfg Wf); eassumption|eapply noself_step; eassumption].
        + intros [= <- <- <- <-] S N. eauto. }
    destruct (Hg _ _ _ _ _ _ _ _ _ _ G Sh0 Ns0) as (k' & Sh & Ns).
    split; [rewrite (sh_keys _ _ Sh); unfold zseq; apply FinFun.Injective_map_NoDup; [intros a b Hab; lia|apply seq_NoDup]|].
    split; [apply (sh_edges _ _ Sh)|exact Ns].
  Qed.
End Wf.

(** * the replay into networkx is a well-formed graph *)
Definition nrec_of (n : mnode) : nrec := {| nk := fst (onode_of n); na := snd (onode_of n); nadj := [] |}.
Lemma fold_add_node_fresh (ns : list mnode) : forall acc,
  NoDup (node_keys acc ++ map n_key ns) ->
  fold_left (fun g n => add_node g (fst (onode_of n)) (snd (onode_of n))) ns acc = acc ++ map nrec_of ns.
Proof.
  induction ns as [|n r IH]; intros acc ND; cbn [fold_left map]; [now rewrite app_nil_r|].
  assert (Hfresh : has_node acc (n_key n) = false).
  { destruct (has_node acc (n_key n)) eqn:E; [|reflexivity]. apply MapProofs.gfind_has in E. exfalso.
    cbn [map] in ND. apply NoDup_remove_2 in ND. apply ND. apply in_or_app. now left. }
  unfold add_node at 2. cbn [fst onode_of]. rewrite Hfresh. rewrite IH.
  - rewrite <- app_assoc. reflexivity.
  - unfold node_keys. rewrite map_app, <- app_assoc. cbn [map app nk]. exact ND.
Qed.

Lemma to_nx_add_edges m : to_nx m =
  SquashProofs.add_edges (map oedge_of (m_edges m))
    (fold_left (fun g n => add_node g (fst (onode_of n)) (snd (onode_of n))) (m_nodes m) gempty).
Proof.
  unfold to_nx, SquashProofs.add_edges. generalize (fold_left (fun g n => add_node g (fst (onode_of n)) (snd (onode_of n))) (m_nodes m) gempty).
  induction (m_edges m) as [|e r IH]; intros g; cbn [fold_left map]; [reflexivity|].
  rewrite <- IH. destruct (oedge_of e) as [[u v] a]. reflexivity.
Qed.

Lemma existsb_eqpair_sym (l : list (Z * Z * attrs)) y x :
  existsb (fun e => SquashProofs.eqpair y x (fst (fst e)) (snd (fst e))) l =
  existsb (fun e => SquashProofs.eqpair x y (fst (fst e)) (snd (fst e))) l.
Proof.
  induction l as [|e r IHr]; cbn [existsb]; [reflexivity|]. rewrite IHr. f_equal.
  unfold SquashProofs.eqpair. rewrite orb_comm. f_equal; apply andb_comm.
Qed.

Theorem to_nx_wf m : NoDup (map n_key (m_nodes m)) ->
  Forall (fun e => In (e_u e) (map n_key (m_nodes m)) /\ In (e_v e) (map n_key (m_nodes m))) (m_edges m) ->
  noself m ->
  SquashDefs.wf_graph (to_nx m) /\ node_keys (to_nx m) = map n_key (m_nodes m) /\
  forall n, In n (m_nodes m) -> SquashDefs.nattrs (to_nx m) (n_key n) = Some (snd (onode_of n)).
Proof.
  intros ND He Ns. rewrite to_nx_add_edges. rewrite fold_add_node_fresh by exact ND. cbn [app gempty].
  set (g0 := map nrec_of (m_nodes m)).
  assert (K0 : node_keys g0 = map n_key (m_nodes m)) by (unfold g0, node_keys; rewrite map_map; reflexivity).
  assert (E0 : forall y x, has_edge g0 y x = false).
  { intros y x. unfold has_edge. destruct (gfind y g0) as [n|] eqn:G; [|reflexivity].
    apply GraphLemmas.gfind_In in G. unfold g0 in G. apply in_map_iff in G as [n0 [<- _]]. reflexivity. }
  destruct (SquashProofs.add_edges_spec (map oedge_of (m_edges m)) g0) as (K & N & E).
  { intros e Hin. apply in_map_iff in Hin as [e0 [<- Hin]]. rewrite Forall_forall in He. destruct (He _ Hin) as [Hu Hv].
    cbn [oedge_of fst snd]. split; apply SquashProofs.has_node_keys; rewrite K0; assumption. }
  split; [|split].
  - constructor.
    + rewrite K, K0. exact ND.
    + intros y x H. rewrite E, E0 in H. cbn [orb] in H. apply existsb_exists in H as [e [Hin Hp]].
      apply in_map_iff in Hin as [e0 [<- Hin]]. cbn [oedge_of fst snd] in Hp. rewrite Forall_forall in He. destruct (He _ Hin) as [Hu Hv].
      apply SquashProofs.has_node_keys. rewrite K, K0. unfold SquashProofs.eqpair in Hp.
      apply orb_true_iff in Hp as [Hp|Hp]; apply andb_true_iff in Hp as [_ Hp]; apply Z.eqb_eq in Hp; subst x; assumption.
    + intros y x. rewrite !E, !E0. cbn [orb]. apply existsb_eqpair_sym.
    + intros y. rewrite E, E0. cbn [orb]. apply not_true_is_false. intros H. apply existsb_exists in H as [e [Hin Hp]].
      apply in_map_iff in Hin as [e0 [<- Hin]]. cbn [oedge_of fst snd] in Hp. unfold noself in Ns. rewrite Forall_forall in Ns.
      specialize (Ns _ Hin). unfold SquashProofs.eqpair in Hp.
      apply orb_true_iff in Hp as [Hp|Hp]; apply andb_true_iff in Hp as [H1 H2]; apply Z.eqb_eq in H1, H2; congruence.
  - rewrite K. exact K0.
  - intros n Hin. rewrite N. unfold SquashDefs.nattrs, g0.
    assert (G : gfind (n_key n) (map nrec_of (m_nodes m)) = Some (nrec_of n)).
    { clear - ND Hin. induction (m_nodes m) as [|x r IH]; [destruct Hin|]. cbn [map gfind nrec_of nk fst onode_of].
      inversion ND as [|? ? Hn ND']; subst. destruct Hin as [->|Hin]; [now rewrite Z.eqb_refl|].
      destruct (Z.eqb_spec (n_key x) (n_key n)) as [E|_]; [|now apply IH].
      exfalso. apply Hn. rewrite E. now apply in_map. }
    rewrite G. reflexivity.
Qed.

(** * valence completeness of all-atom samples *)
Section Valence.
  Variable M : Type.
  Variables (c0 : Z -> M) (madd : M -> M -> M) (mltb : M -> M -> bool) (misz : M -> bool).
  Variable R : Type.
  Variable pick : R -> nat -> option (list M) -> res (nat * R).
  Variable cfg : config M.
  Hypothesis Wf : wf_frags (c_frags cfg).

  (** the molecule handed to rebuild_h_atoms by sample() satisfies the hypotheses of the hydrogen
      component's theorems, for every run *)
  Theorem sample_graph_wf target fuel rng start nm i0 m cw log rng' :
    sample_growth M c0 madd mltb misz R pick cfg target fuel rng start = Ok (nm, i0, m, cw, log, rng') ->
    SquashDefs.wf_graph (to_nx m) /\
    NoDup (node_keys (to_nx m)) /\ RebuildProofs.closed_g (to_nx m) /\ RebuildProofs.noself_g (to_nx m).
  Proof.
    intros H. destruct (sample_structure M c0 madd mltb misz R pick cfg Wf _ _ _ _ _ _ _ _ _ _ H) as (ND & He & Ns).
    destruct (to_nx_wf m ND He Ns) as (W & _ & _). split; [exact W|]. apply RebuildProofs.wf_graph_structural. exact W.
  Qed.

  (** hence, by Hydro/RebuildProofs.rebuild_h_atoms_end_to_end (property C09): if the hydrogen step
      returns, pysmiles' aromaticity transcript [g1] honoured its contract and the rest of the step
      ran on a structurally sound graph *)
  Theorem sample_rebuild target fuel rng start nm i0 m cw log rng' ca car g' :
    sample_growth M c0 madd mltb misz R pick cfg target fuel rng start = Ok (nm, i0, m, cw, log, rng') ->
    Hydrogens.rebuild_h_atoms false ca (to_nx m) car = Ok g' ->
    exists g1, car = Some g1 /\ Hydrogens.transcript_contract (to_nx m) g1 = true /\
      NoDup (node_keys g1) /\ RebuildProofs.closed_g g1 /\ RebuildProofs.noself_g g1 /\
      Hydrogens.rebuild_after_car false ca g1 = Ok g'.
  Proof.
    intros H Hr. destruct (sample_graph_wf _ _ _ _ _ _ _ _ _ _ H) as (_ & ND & Cl & Ns).
    exact (RebuildProofs.rebuild_h_atoms_end_to_end ca (to_nx m) car g' ND Cl Ns Hr).
  Qed.

  (** valence completeness (statement of C09) for every all-atom sample: every non-hydrogen atom
      [k] of the molecule whose bond sum [b] (half units) fits within the usual valences of its
      element and charge receives exactly (least fitting valence - b/2) hydrogens, each bonded to
      [k] only, and afterwards its bond orders add up to that valence *)
  Theorem sample_valence_complete target fuel rng start nm i0 m cw log rng' ca car g' :
    sample_growth M c0 madd mltb misz R pick cfg target fuel rng start = Ok (nm, i0, m, cw, log, rng') ->
    Hydrogens.rebuild_h_atoms false ca (to_nx m) car = Ok g' ->
    exists g1, car = Some g1 /\
      ((forall i n, gfind i g1 = Some n -> RebuildProofs.no_rs n) ->
       forall k n, gfind k g1 = Some n -> Hydrogens.is_H (na n) = false ->
         exists val b idxs n', Hydrogens.valence_of (na n) = Ok val /\ Hydrogens.sum_orders (nadj n) = Ok b /\
           gfind k g' = Some n' /\ nadj n' = nadj n ++ map (fun j => (j, Hydrogens.h_edge_attrs)) idxs /\
           (forall j, In j idxs -> exists h, gfind j g' = Some h /\ nadj h = [(k, Hydrogens.h_edge_attrs)] /\ Hydrogens.is_H (na h) = true) /\
           (HydroDefs.fits val b -> exists v, HydroDefs.least_fitting val b v /\
              (Z.even b = true -> 2 * Z.of_nat (length idxs) = 2 * v - b /\ Hydrogens.sum_orders (nadj n') = Ok (2 * v)) /\
              (Z.even b = false -> 2 * Z.of_nat (length idxs) = 2 * v - b - 1 /\ Hydrogens.sum_orders (nadj n') = Ok (2 * v - 1)))).
  Proof.
    intros H Hr. destruct (sample_rebuild _ _ _ _ _ _ _ _ _ _ _ _ _ H Hr) as (g1 & -> & _ & ND & Cl & Ns & Ha).
    exists g1. split; [reflexivity|]. intros Hrs k n G NH.
    destruct (RebuildProofs.rebuild_end_to_end ca g1 g' ND Cl Ns Hrs Ha) as (C1 & _ & _).
    destruct (C1 k n G NH) as (val & b & idxs & n' & Hv & Hb & Hlen & _ & _ & G' & Hadj & _ & Hh).
    exists val, b, idxs, n'. split; [exact Hv|]. split; [exact Hb|]. split; [exact G'|]. split; [exact Hadj|]. split.
    - intros j Hj. destruct (Hh j Hj) as (h & H1 & H2 & H3 & _). exists h. auto.
    - intros Hf. exact (RebuildProofs.rebuild_valence_sum (na n) val b idxs (nadj n') (nadj n) Hv Hf Hb Hlen Hadj).
  Qed.
End Valence.
