(** SampleHydrogenOrder: in an all-atom sample the hydrogens ADDED by rebuild_h_atoms get keys above every key of
    the grown molecule (C16, canonical numbering inside a copy).  The grown molecule contains the template atoms
    of every copy, explicit hydrogens and single-hydrogen fragments included; the later sort by (fragid, key)
    therefore puts, inside every copy, the template atoms first and the completing hydrogens after them: this
    is what the oracle of C16 reads positionally.  Corollary of [rebuild_keys_order] (Sample/SampleMassHydro.v,
    about the hydrogen component's model) and [sample_completed] (Sample/SampleSorted.v). *)
From Coq Require Import String.
From Coq Require Import List Ascii ZArith Bool Lia.
From CGV Require Import Base.PyBase Base.PyVal Base.PyGen Base.NxGraph Sample.GenSupport Gen.SamplerGen
     Sample.SampleImpl Sample.SampleDefs Sample.SampleProofs Sample.SampleFinal Sample.SampleValence Sample.SampleSorted
     Sample.SampleMassHydro.
From CGV Require Gen.HydroGen Hydro.Hydrogens Hydro.GraphLemmas Hydro.SquashDefs Hydro.RebuildProofs.
Import ListNotations.
Open Scope Z_scope.

Lemma skeleton_keys g g1 : Forall2 RebuildProofs.same_skeleton g g1 -> node_keys g1 = node_keys g.
Proof. induction 1 as [|n m g g1 [Hk _] F IH]; [reflexivity|]. unfold node_keys in *. cbn. congruence. Qed.

Section Order.
  Variable M : Type.
  Variables (c0 : Z -> M) (madd : M -> M -> M) (mltb : M -> M -> bool) (misz : M -> bool).
  Variable R : Type.
  Variable pick : R -> nat -> option (list M) -> res (nat * R).
  Variable cfg : config M.
  Hypothesis Wf : wf_frags (c_frags cfg).
  Hypothesis Ha : frags_attrs_ok (c_frags cfg).

  Theorem sample_hydrogens_after_atoms target fuel rng start nm i0 m cw log rng' car g' :
    sample_growth M c0 madd mltb misz R pick cfg target fuel rng start = Ok (nm, i0, m, cw, log, rng') ->
    Hydrogens.rebuild_h_atoms_default (to_nx m) car = Ok g' ->
    exists hs, node_keys g' = map n_key (m_nodes m) ++ hs /\
      forall j, In j hs ->
        (forall k, In k (map n_key (m_nodes m)) -> k < j) /\
        exists h k, gfind j g' = Some h /\ In k (map n_key (m_nodes m)) /\
                    nadj h = [(k, Hydrogens.h_edge_attrs)] /\ Hydrogens.is_H (na h) = true.
  Proof.
    intros H Hr.
    destruct (sample_completed M c0 madd mltb misz R pick cfg Wf Ha _ _ _ _ _ _ _ _ _ _ _ _ H Hr) as (g1 & Ec & W1 & Rs & Hr1 & _).
    destruct (sample_rebuild M c0 madd mltb misz R pick cfg Wf _ _ _ _ _ _ _ _ _ _ _ _ _ H Hr) as (g1' & Ec' & Hc & _).
    rewrite Ec in Ec'. injection Ec' as <-.
    destruct (sample_structure M c0 madd mltb misz R pick cfg Wf _ _ _ _ _ _ _ _ _ _ H) as (ND & He & Ns).
    destruct (to_nx_wf m ND He Ns) as (_ & K & _).
    pose proof (skeleton_keys _ _ (RebuildProofs.contract_skeleton _ _ Hc)) as K1. rewrite K in K1.
    destruct (RebuildProofs.wf_graph_structural g1 W1) as (Nd1 & Cl1 & Ns1).
    destruct (rebuild_keys_order _ g1 g' Nd1 Cl1 Ns1 Rs Hr1) as (hs & Kg & Hh).
    exists hs. rewrite <- K1. split; [exact Kg|exact Hh].
  Qed.
End Order.
