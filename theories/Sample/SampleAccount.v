(** SampleAccount: multiset accounting of bonding descriptors along a growth step (C16,
    "no descriptor is used twice"): for every node key k and descriptor d,
      occurrences of d still on k  +  occurrences of d consumed at k by bonds
    does not increase; it starts, for the nodes of a new copy, at what the template wrote. *)
From Coq Require Import String.
From Coq Require Import List Ascii ZArith Bool Lia.
From CGV Require Import Base.PyBase Base.PyVal Base.PyGen Sample.GenSupport Gen.SamplerGen Sample.SampleImpl
     Sample.SampleDefs Sample.SampleSpec Sample.SampleProofs.
Import ListNotations.
Open Scope Z_scope.

Definition left_in (ns : list mnode) (k : Z) (d : pystr) : nat :=
  match find_node k ns with Some n => cnt d (bonding_list (n_bonding n)) | None => 0%nat end.
Lemma left_at_in m k d : left_at m k d = left_in (m_nodes m) k d.
Proof. reflexivity. Qed.

Lemma used_at_app k d a b : used_at k d (a ++ b) = (used_at k d a + used_at k d b)%nat.
Proof.
  unfold used_at. induction a as [|e r IH]; cbn [app fold_right]; [reflexivity|].
  rewrite IH. destruct (e_bonding e) as [[d1 d2]|]; lia.
Qed.
Lemma used_at_none k d es : Forall (fun e => e_bonding e = None) es -> used_at k d es = 0%nat.
Proof. unfold used_at. induction 1 as [|e r H _ IH]; cbn [fold_right]; [reflexivity|]. now rewrite H. Qed.

Lemma left_update_same ns k ds' d n : find_node k ns = Some n ->
  left_in (update_node k (set_bonding (Some ds')) ns) k d = cnt d ds'.
Proof. intros F. unfold left_in. rewrite find_update_same, F by apply set_bonding_key. reflexivity. Qed.
Lemma left_update_other ns k k' b d : k <> k' -> left_in (update_node k' (set_bonding b) ns) k d = left_in ns k d.
Proof. intros N. unfold left_in. rewrite find_update_other by (try apply set_bonding_key; assumption). reflexivity. Qed.

Definition ind (b : bool) : nat := if b then 1%nat else 0%nat.

Lemma remove_desc_left ns k0 d0 ns' : remove_desc ns k0 d0 = Ok ns' ->
  forall k d, (left_in ns' k d + ind (Z.eqb k0 k && str_eqb d d0) = left_in ns k d)%nat.
Proof.
  intros H k d. apply remove_desc_inv in H as (n & ds & ds' & F & B & Rm & ->).
  destruct (Z.eqb_spec k0 k) as [<-|N]; cbn [andb ind].
  - rewrite (left_update_same _ _ _ _ _ F). unfold left_in. rewrite F, B. cbn [bonding_list].
    destruct (str_eqb_spec d d0) as [->|Nd]; cbn [ind].
    + apply (cnt_remove1_same _ _ _ Rm).
    + rewrite (cnt_remove1_other _ _ _ _ Nd Rm). lia.
  - rewrite left_update_other by congruence. cbn. lia.
Qed.
Lemma terminal_step_left term c ns s ns' : terminal_step term c ns s = Ok ns' ->
  forall k d, (left_in ns' k d <= left_in ns k d)%nat.
Proof.
  unfold terminal_step. destruct (find_node s ns) as [n|] eqn:F; cbn [of_option bind]; [|discriminate].
  intros H k d. destruct (Z.eq_dec k s) as [->|N].
  - destruct (str_in c term).
    + destruct (n_bonding n); [|discriminate]. injection H as <-.
      unfold left_in. rewrite find_update_same, F by apply set_bonding_key. cbn. lia.
    + injection H as <-. rewrite (left_update_same _ _ _ _ _ F). unfold left_in. rewrite F.
      destruct (n_bonding n); cbn [bonding_list]; [apply cnt_filter_le|cbn; lia].
  - destruct (str_in c term); [destruct (n_bonding n); [|discriminate]|]; injection H as <-;
      rewrite left_update_other by assumption; lia.
Qed.

Section Account.
  Variable M : Type.
  Variable cfg : config M.
  (** what node k may still spend before the step: its open occurrences in the molecule merged
      with the untouched new copy (for a node of the new copy: what the template wrote), plus what
      it has already spent *)
  Definition budget_before (m : mol) (s : sel) (k : Z) (d : pystr) : nat :=
    match dict_get (c_frags cfg) (s_fragname s), merge_offsets m with
    | Some tpl, Ok (off, fo) =>
        (left_in (m_nodes m ++ mk_nodes fo off 0 (f_nodes tpl)) k d + used_at k d (m_edges m))%nat
    | _, _ => 0%nat
    end.

  Theorem descriptor_once_step m s m' tgt : step_apply M cfg m s = Ok (m', tgt) ->
    forall k d, (left_at m' k d + used_at k d (m_edges m') <= budget_before m s k d)%nat.
  Proof.
    intros H k d. destruct (step_apply_inv M cfg _ _ _ _ H) as (tpl & off & fo & es & ns1 & ns2 & o & D1 & D2 & D3 & D4 & H1 & H2 & H3 & He).
    unfold budget_before. rewrite D1, D2, left_at_in, He, !used_at_app.
    assert (Hn : Forall (fun e => e_bonding e = None) es).
    { clear - D3. revert es D3. induction (f_edges tpl) as [|[[a b] at_] r IH]; intros es; cbn [mk_edges]; [intros [= <-]; constructor|].
      destruct (assocz a _) as [ca|]; cbn [of_option bind]; [|discriminate].
      destruct (assocz b _) as [cb|]; cbn [of_option bind]; [|discriminate].
      destruct (mk_edges _ r) as [rest|]; cbn [bind]; [|discriminate].
      intros [= <-]. specialize (IH rest eq_refl). destruct (Z.eqb ca cb); [assumption|constructor; [reflexivity|assumption]]. }
    rewrite (used_at_none _ _ _ Hn).
    pose proof (remove_desc_left _ _ _ _ H1 k d) as L1. pose proof (remove_desc_left _ _ _ _ H2 k d) as L2.
    pose proof (terminal_step_left _ _ _ _ _ H3 k d) as L3.
    unfold used_at at 2. cbn [fold_right e_bonding e_u e_v].
    assert (E1 : ind (Z.eqb (s_source s) k && str_eqb d (s_bonding s)) = (if Z.eqb (s_source s) k && str_eqb d (s_bonding s) then 1 else 0)%nat) by reflexivity.
    assert (E2 : ind (Z.eqb tgt k && str_eqb d (s_compl s)) = (if Z.eqb tgt k && str_eqb d (s_compl s) then 1 else 0)%nat) by reflexivity.
    rewrite <- E1, <- E2. lia.
  Qed.

  (** in particular: a descriptor occurrence consumed by the new bond was open on that node *)
  Corollary bond_uses_open_descriptors m s m' tgt : step_apply M cfg m s = Ok (m', tgt) ->
    (1 <= budget_before m s (s_source s) (s_bonding s))%nat.
  Proof.
    intros H. pose proof (descriptor_once_step _ _ _ _ H (s_source s) (s_bonding s)) as L.
    destruct (step_apply_inv M cfg _ _ _ _ H) as (tpl & off & fo & es & ns1 & ns2 & o & _ & _ & _ & _ & _ & _ & _ & He).
    rewrite He, !used_at_app in L. unfold used_at at 3 in L. cbn [fold_right e_bonding e_u e_v] in L.
    rewrite Z.eqb_refl, str_eqb_refl in L. cbn [andb] in L. lia.
  Qed.
End Account.
