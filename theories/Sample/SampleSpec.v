(** SampleSpec: what the GENERATED helper functions compute (Gen/SamplerGen.v, re-translated from
    sample.py / cgsmiles_utils.py on every run).  These lemmas are the tie of C16/C17's theorems to
    the current source: an edit of the Python functions changes the generated term and breaks them. *)
From Coq Require Import String.
From Coq Require Import List Ascii ZArith Bool Lia.
From CGV Require Import Base.PyBase Base.PyVal Base.PyGen Sample.GenSupport Gen.SamplerGen Sample.SampleImpl Sample.SampleDefs.
Import ListNotations.
Open Scope char_scope.

Lemma py_index_last (s : pystr) : s <> [] -> exists c, py_index s (-1)%Z = Ok [c] /\ last_char s = Some c.
Proof.
  intros N. destruct (rev s) as [|c r] eqn:E.
  - apply (f_equal (@rev _)) in E. rewrite rev_involutive in E. cbn in E. contradiction.
  - exists c. unfold last_char. rewrite E. split; [|reflexivity].
    assert (Hs : s = rev r ++ [c]) by (rewrite <- (rev_involutive s), E; reflexivity).
    unfold py_index. cbn [Z.ltb Z.compare].
    assert (Hl : length s = Datatypes.S (length r)) by (rewrite Hs, app_length, rev_length; cbn; lia).
    rewrite Hl.
    replace (Z.of_nat (Datatypes.S (length r)) + -1)%Z with (Z.of_nat (length r)) by lia.
    destruct (Z.ltb_spec (Z.of_nat (length r)) 0); [lia|].
    destruct (Z.leb_spec (Z.of_nat (Datatypes.S (length r))) (Z.of_nat (length r))); [lia|]. cbn [orb].
    rewrite Nat2Z.id, Hs, nth_error_app2 by (rewrite rev_length; lia).
    rewrite rev_length, Nat.sub_diag. reflexivity.
Qed.
Lemma py_index_last_nil : py_index [] (-1)%Z = Err EIndex.
Proof. reflexivity. Qed.
Lemma py_index_first k r : py_index (k :: r) 0%Z = Ok [k].
Proof. unfold py_index. cbn. destruct (Z.leb_spec (Z.pos (Pos.of_succ_nat (length r))) 0); [lia|reflexivity]. Qed.

(** ** _set_bond_order_defaults / the key patch *)
Lemma dflt_of_last s c : last_char s = Some c -> dflt s = if is_digit c then s else s ++ ["1"].
Proof. unfold last_char, dflt. destruct (rev s); [discriminate|]. now intros [= ->]. Qed.
Lemma isdigit1 c : py_isdigit [c] = is_digit c.
Proof. unfold py_isdigit, all_digits. cbn. now rewrite andb_true_r. Qed.

Theorem patch_key_spec s : s <> [] -> patch_key s = Ok (dflt s).
Proof.
  intros N. destruct (py_index_last s N) as [c [Hi Hl]].
  unfold patch_key, unwrap_return, py_not, py_concat. cbn [bind ret]. rewrite Hi. cbn [bind ret].
  rewrite isdigit1, (dflt_of_last _ _ Hl). destruct (is_digit c); reflexivity.
Qed.

Theorem set_defaults_list_spec l : Forall (fun s => s <> []) l ->
  set_bond_order_defaults_list l = Ok (map dflt l).
Proof.
  intros H. unfold set_bond_order_defaults_list, unwrap_return. cbn [bind ret].
  match goal with |- context [py_for _ _ ?f] => set (body := f) end.
  assert (L : forall (l : list pystr) acc, Forall (fun s => s <> []) l -> py_for (id l) acc body = Ok (RNext (acc ++ map dflt l))).
  { clear. induction l as [|s r IH]; intros acc H; cbn [py_for id map].
    - now rewrite app_nil_r.
    - inversion H as [|? ? Hs Hr]; subst. destruct (py_index_last s Hs) as [c [Hi Hl]].
      unfold body at 1. unfold py_not, py_concat. cbn [bind ret]. rewrite Hi. cbn [bind ret].
      rewrite isdigit1, (dflt_of_last _ _ Hl).
      destruct (is_digit c); cbn [negb bind ret]; unfold id in IH; rewrite IH by assumption;
        rewrite <- app_assoc; reflexivity. }
  rewrite (L l [] H). reflexivity.
Qed.

Theorem set_defaults_dict_spec {V} (d : list (pystr * V)) : Forall (fun kv => fst kv <> []) d ->
  set_bond_order_defaults_dict d = Ok (dflt_dict d).
Proof.
  intros H. unfold set_bond_order_defaults_dict, unwrap_return, dflt_dict. cbn [bind ret].
  match goal with |- context [py_for _ _ ?f] => set (body := f) end.
  assert (L : forall (l : list (pystr * V)) acc, Forall (fun kv => fst kv <> []) l ->
            py_for (id l) acc body = Ok (RNext (fold_left (fun a kv => dict_set (dflt (fst kv)) (snd kv) a) l acc))).
  { clear. induction l as [|[s v] r IH]; intros acc H; cbn [py_for id fold_left]; [reflexivity|].
    inversion H as [|? ? Hs Hr]; subst. cbn [fst] in Hs. destruct (py_index_last s Hs) as [c [Hi Hl]].
    unfold body at 1. unfold py_not, py_concat. cbn [bind ret]. rewrite Hi. cbn [bind ret fst snd].
    rewrite isdigit1, (dflt_of_last _ _ Hl).
    destruct (is_digit c); cbn [negb bind ret]; unfold id in IH; rewrite IH by assumption; reflexivity. }
  rewrite (L d [] H). reflexivity.
Qed.

(** ** find_complementary_bonding_descriptor *)
Lemma str_eqb_1 a b : str_eqb [a] [b] = Ascii.eqb a b.
Proof. cbn. now rewrite andb_true_r. Qed.

Theorem find_compl_sound d elig cs : find_complementary_bonding_descriptor d elig = Ok cs ->
  forall c, In c cs -> In c elig /\ (kind_in_domain d = true -> compl_spec d c = true).
Proof.
  destruct d as [|k r]; [discriminate|].
  unfold find_complementary_bonding_descriptor, unwrap_return. cbn [bind ret].
  rewrite !py_index_first.
  change (S "$") with ["$"]; change (S "<") with ["<"]; change (S ">") with [">"].
  unfold py_and, py_eq, py_not, py_in_list, py_concat. cbn [bind ret pyeqb PyEq_str py_slice_from skipn].
  rewrite !str_eqb_1.
  destruct (Ascii.eqb_spec k "$") as [->|Nd].
  - (* '$' *)
    destruct elig as [|e0 er]; cbn [bind ret].
    + cbn. discriminate.
    + match goal with |- context [py_for _ _ ?f] => set (body := f) end.
      destruct (py_index_last ("$" :: r)) as [cd [Hid Hld]]; [discriminate|].
      assert (L : forall (l : list pystr) acc res, py_for (id l) acc body = Ok (RNext res) ->
                forall c, In c res -> In c acc \/ (In c l /\ compl_spec ("$" :: r) c = true)).
      { induction l as [|x l IH]; intros acc res; cbn [py_for id].
        - intros [= <-] c Hc. now left.
        - unfold body at 1. destruct x as [|k2 r2]; [cbn; discriminate|].
          destruct (py_index_last (k2 :: r2)) as [cx [Hix Hlx]]; [discriminate|].
          unfold py_and, py_eq. cbn [bind ret]. rewrite py_index_first, Hix, Hid. cbn [bind ret pyeqb PyEq_str].
          change (S "$") with ["$"]. rewrite !str_eqb_1.
          destruct (Ascii.eqb_spec k2 "$") as [->|N2]; cbn [bind ret].
          + destruct (Ascii.eqb_spec cx cd) as [->|Nc]; cbn [bind ret]; unfold id in IH.
            * intros H c Hc. destruct (IH _ _ H c Hc) as [Ha|[Hl Hs]].
              -- apply in_app_or in Ha as [Ha|[<-|[]]]; [now left|]. right. split; [now left|].
                 unfold compl_spec. cbn [Ascii.eqb]. unfold same_order. rewrite Hld, Hlx.
                 rewrite Ascii.eqb_refl. reflexivity.
              -- right. split; [now right|assumption].
            * intros H c Hc. destruct (IH _ _ H c Hc) as [Ha|[Hl Hs]]; [now left|right; split; [now right|assumption]].
          + unfold id in IH. intros H c Hc. destruct (IH _ _ H c Hc) as [Ha|[Hl Hs]]; [now left|right; split; [now right|assumption]]. }
      destruct (py_for (id (e0 :: er)) [] body) as [[rr|st]|e] eqn:E; cbn [bind ret]; try discriminate.
      * (* the loop body never returns *)
        exfalso. clear - E. revert E. generalize (@nil pystr). generalize (e0 :: er).
        induction l as [|x l IH]; intros acc; cbn [py_for id]; [discriminate|].
        destruct (body acc x) as [[?|?]|?] eqn:B; cbn [bind ret]; try discriminate; [|apply IH].
        exfalso. unfold body in B.
        match type of B with (bind ?t _) = _ => destruct t as [[|]|] end; cbn in B; discriminate.
      * intros [= <-] c Hc. destruct (L _ _ _ E c Hc) as [[]|[Hl Hs]]. split; [assumption|intros _; assumption].
  - cbn [andb bind ret app].
    destruct (Ascii.eqb_spec k "<") as [->|Nl]; cbn [bind ret].
    + destruct (str_in (">" :: r) elig) eqn:Hin; cbn [negb bind ret]; [|discriminate].
      intros [= <-] c [<-|[]]. split.
      * unfold str_in in Hin. apply existsb_exists in Hin as [x [Hx Hx2]]. apply str_eqb_eq in Hx2. now subst.
      * intros _. unfold compl_spec. cbn. now rewrite str_eqb_refl.
    + destruct (Ascii.eqb_spec k ">") as [->|Ng]; cbn [bind ret].
      * destruct (str_in ("<" :: r) elig) eqn:Hin; cbn [negb bind ret]; [|discriminate].
        intros [= <-] c [<-|[]]. split.
        -- unfold str_in in Hin. apply existsb_exists in Hin as [x [Hx Hx2]]. apply str_eqb_eq in Hx2. now subst.
        -- intros _. unfold compl_spec. cbn. now rewrite str_eqb_refl.
      * destruct (str_in (k :: r) elig) eqn:Hin; cbn [negb bind ret]; [|discriminate].
        intros [= <-] c [<-|[]]. split.
        -- unfold str_in in Hin. apply existsb_exists in Hin as [x [Hx Hx2]]. apply str_eqb_eq in Hx2. now subst.
        -- unfold kind_in_domain. destruct (Ascii.eqb_spec k "$"); [contradiction|].
           destruct (Ascii.eqb_spec k ">"); [contradiction|]. destruct (Ascii.eqb_spec k "<"); [contradiction|]. discriminate.
Qed.
