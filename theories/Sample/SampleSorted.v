(** SampleSorted: the hypotheses of [numbering_canonical] and of the valence corollary hold for the
    graph the sampler actually sorts, in BOTH modes, for every run and every recorded aromaticity
    transcript.  Coarse: the replay [to_nx m].  All-atom: the result of rebuild_h_atoms on it; by
    Dialect/ReturnedCar.contract_car_ok the transcript has the keys, the adjacency and every
    attribute but `aromatic` of [to_nx m]; by Compose/RebuildWf.rebuild_wf the completed graph is
    well formed; every node of it carries 'fragid' (atoms keep theirs, each added hydrogen inherits
    its anchor's: the argument of Compose/CutSorted.completed_fragid on the sampler's graph).
    The only hypothesis left is on the INPUT: the attribute lists of the template nodes are dicts
    (distinct keys) without the keys the sampler itself manages ('fragid', 'bonding') and without
    'rs_isomer'. *)
From Coq Require Import String.
From Coq Require Import List Ascii ZArith Bool Lia Sorting.Sorted Sorting.Permutation.
From CGV Require Import Base.PyBase Base.PyVal Base.PyGen Base.NxGraph Sample.GenSupport Gen.SamplerGen
     Sample.SampleImpl Sample.SampleDefs Sample.SampleSpec Sample.SampleProofs Sample.SampleTree Sample.SampleFragid
     Sample.SampleCopy Sample.SampleFinal Sample.SampleValence.
From CGV Require Gen.HydroGen Hydro.Hydrogens Hydro.HydroDefs Hydro.GraphLemmas Hydro.SquashDefs Hydro.SquashProofs
     Hydro.RebuildProofs Resolve.GraphOps Resolve.MapProofs Resolve.CopyProofs Resolve.SortProofs Resolve.SortGraphProofs
     Compose.RebuildWf Dialect.ReturnedCar Sample.SampleNumbering.
Import ListNotations.
Open Scope Z_scope.

Ltac nes := let E := fresh in intros E; apply str_eqb_eq in E; vm_compute in E; discriminate E.

Lemma aget_not_in k (a : attrs) : ~ In k (map fst a) -> aget k a = None.
Proof.
  induction a as [|[k' v] r IH]; cbn; [reflexivity|]. intros H. destruct (str_eqb_spec k k') as [->|N]; [exfalso; apply H; now left|].
  apply IH. intros H'. apply H. now right.
Qed.
Lemma aget_app k (a b : attrs) : aget k (a ++ b) = match aget k a with Some v => Some v | None => aget k b end.
Proof. induction a as [|[k' v] r IH]; cbn; [reflexivity|]. destruct (str_eqb k k'); [reflexivity|exact IH]. Qed.

Lemma onode_attrs_ok n : tattrs_ok (n_attrs n) ->
  NoDup (map fst (snd (onode_of n))) /\ aget (S "fragid") (snd (onode_of n)) = Some (VList [VInt (n_fragid n)]) /\
  aget (S "rs_isomer") (snd (onode_of n)) = None.
Proof.
  intros (ND & Nf & Nb & Nr). unfold onode_of. cbn [snd]. split; [|split].
  - rewrite !map_app. apply CopyProofs.NoDup_app_intro.
    + exact ND.
    + destruct (n_bonding n); cbn; repeat constructor; cbn; try tauto. intros [H|[]]. apply str_eqb_eq in H. vm_compute in H. discriminate.
    + intros x Hx Hin. destruct (n_bonding n); cbn in Hin; destruct Hin as [<-|Hin]; try contradiction; try (destruct Hin as [<-|[]]; contradiction).
  - rewrite aget_app, (aget_not_in _ _ Nf). reflexivity.
  - rewrite aget_app, (aget_not_in _ _ Nr). destruct (n_bonding n); reflexivity.
Qed.

Lemma Forall2_in_r {A B} (R : A -> B -> Prop) l1 l2 : Forall2 R l1 l2 -> forall y, In y l2 -> exists x, In x l1 /\ R x y.
Proof.
  induction 1 as [|x y l1 l2 H _ IH]; intros z Hz; [destruct Hz|]. destruct Hz as [<-|Hz]; [exists x; split; [now left|assumption]|].
  destruct (IH z Hz) as (x' & H1 & H2). exists x'. split; [now right|assumption].
Qed.
Lemma Forall2_in_r' {A B} (R : A -> B -> Prop) l1 l2 : Forall2 R l1 l2 -> forall y, In y l2 -> exists x, In x l1 /\ R x y.
Proof. apply Forall2_in_r. Qed.
Lemma spec_nodes_in fo off ts : forall i sp, In sp (spec_nodes fo off i ts) -> In (snd sp) ts.
Proof. induction ts as [|t r IH]; intros i sp; cbn; [tauto|]. intros [<-|H]; [now left|right; eapply IH; eassumption]. Qed.

(** every record of the replay is one node of the model molecule *)
Lemma to_nx_records m : NoDup (map n_key (m_nodes m)) ->
  Forall (fun e => In (e_u e) (map n_key (m_nodes m)) /\ In (e_v e) (map n_key (m_nodes m))) (m_edges m) -> noself m ->
  forall r, In r (to_nx m) -> exists n, In n (m_nodes m) /\ nk r = n_key n /\ na r = snd (onode_of n).
Proof.
  intros ND He Ns r Hr. destruct (to_nx_wf m ND He Ns) as (W & K & N).
  assert (Hk : In (nk r) (map n_key (m_nodes m))) by (rewrite <- K; unfold node_keys; now apply in_map).
  apply in_map_iff in Hk as (n & En & Hn). exists n. split; [exact Hn|]. split; [now symmetry|].
  pose proof (N n Hn) as Hna. unfold SquashDefs.nattrs in Hna. rewrite En in Hna.
  rewrite (CopyProofs.gfind_in _ (SquashDefs.wf_nodup _ W) r Hr) in Hna. cbn in Hna. now injection Hna.
Qed.

Section Sorted.
  Variable M : Type.
  Variables (c0 : Z -> M) (madd : M -> M -> M) (mltb : M -> M -> bool) (misz : M -> bool).
  Variable R : Type.
  Variable pick : R -> nat -> option (list M) -> res (nat * R).
  Variable cfg : config M.
  Hypothesis Wf : wf_frags (c_frags cfg).
  Hypothesis Ha : frags_attrs_ok (c_frags cfg).

  Lemma sample_node_attrs target fuel rng start nm i0 m cw log rng' :
    sample_growth M c0 madd mltb misz R pick cfg target fuel rng start = Ok (nm, i0, m, cw, log, rng') ->
    forall n, In n (m_nodes m) -> tattrs_ok (n_attrs n).
  Proof.
    intros H n Hn. destruct (copy_iso_template M c0 madd mltb misz R pick cfg Wf _ _ _ _ _ _ _ _ _ _ H) as (bs & (Hc & _) & Hnames & _ & _).
    destruct (Forall2_in_r _ _ _ Hc n Hn) as (sp & Hsp & Hcopy).
    apply in_concat in Hsp as (l & Hl & Hsp). apply in_map_iff in Hl as (b & <- & Hb).
    destruct (Forall2_in_r _ _ _ Hnames b Hb) as (name & _ & Hd). apply dict_get_in in Hd.
    unfold block_spec in Hsp. apply spec_nodes_in in Hsp. destruct sp as [[[fo off] i] t]. cbn [snd] in Hsp.
    destruct Hcopy as (_ & _ & -> & _). unfold frags_attrs_ok in Ha. rewrite Forall_forall in Ha. specialize (Ha _ Hd). cbn [snd] in Ha.
    rewrite Forall_forall in Ha. now apply Ha.
  Qed.

  (** the graph handed to rebuild_h_atoms / to the sort in coarse mode: well formed, dict attributes,
      every node with its fragid and without rs_isomer *)
  Lemma sample_graph_facts target fuel rng start nm i0 m cw log rng' :
    sample_growth M c0 madd mltb misz R pick cfg target fuel rng start = Ok (nm, i0, m, cw, log, rng') ->
    SquashDefs.wf_graph (to_nx m) /\ ReturnedCar.dicts (to_nx m) /\
    forall r, In r (to_nx m) -> aget (S "fragid") (na r) <> None /\ aget (S "rs_isomer") (na r) = None.
  Proof.
    intros H. destruct (sample_structure M c0 madd mltb misz R pick cfg Wf _ _ _ _ _ _ _ _ _ _ H) as (ND & He & Ns).
    destruct (to_nx_wf m ND He Ns) as (W & _ & _). split; [exact W|].
    assert (X : forall r, In r (to_nx m) -> NoDup (map fst (na r)) /\ aget (S "fragid") (na r) <> None /\ aget (S "rs_isomer") (na r) = None).
    { intros r Hr. destruct (to_nx_records m ND He Ns r Hr) as (n & Hn & _ & ->).
      destruct (onode_attrs_ok n (sample_node_attrs _ _ _ _ _ _ _ _ _ _ H n Hn)) as (A & B & C). rewrite B. split; [exact A|]. split; [discriminate|exact C]. }
    split; [apply Forall_forall; intros r Hr; apply (X r Hr)|intros r Hr; apply (X r Hr)].
  Qed.

  (** all-atom: the completed graph *)
  Theorem sample_completed target fuel rng start nm i0 m cw log rng' car g' :
    sample_growth M c0 madd mltb misz R pick cfg target fuel rng start = Ok (nm, i0, m, cw, log, rng') ->
    Hydrogens.rebuild_h_atoms_default (to_nx m) car = Ok g' ->
    exists g1, car = Some g1 /\ SquashDefs.wf_graph g1 /\ RebuildWf.all_no_rs g1 /\
      Hydrogens.rebuild_after_car false HydroGen.rebuild_copy_attrs_default g1 = Ok g' /\
      SquashDefs.wf_graph g' /\ (forall nd, In nd g' -> aget (S "fragid") (na nd) <> None).
  Proof.
    intros H Hr. destruct (sample_graph_facts _ _ _ _ _ _ _ _ _ _ H) as (W & D & F).
    destruct (sample_rebuild M c0 madd mltb misz R pick cfg Wf _ _ _ _ _ _ _ _ _ _ _ _ _ H Hr) as (g1 & -> & Hc & ND1 & Cl1 & Ns1 & Hr1).
    pose proof (ReturnedCar.contract_car_ok _ _ Hc D) as [K E A].
    assert (W1 : SquashDefs.wf_graph g1) by (eapply SquashProofs.wf_transfer; [exact K|exact E|exact W]).
    (* attributes of the transcript's records, other than `aromatic`, are those of the replay *)
    assert (T : forall i n1, gfind i g1 = Some n1 -> exists r, In r (to_nx m) /\ nk r = i /\
                  forall key, key <> S "aromatic" -> aget key (na n1) = aget key (na r)).
    { intros i n1 G1. assert (Hi : In i (node_keys (to_nx m))).
      { rewrite <- K. destruct (in_dec Z.eq_dec i (node_keys g1)) as [Y|Nn]; [exact Y|]. apply GraphLemmas.gfind_none_keys in Nn. congruence. }
      destruct (GraphLemmas.gfind_some_keys _ _ Hi) as [r Gr]. exists r. split; [eapply GraphLemmas.gfind_In; exact Gr|].
      split; [eapply GraphLemmas.gfind_key; exact Gr|]. intros key Nk. specialize (A i key Nk). unfold node_get in A. now rewrite G1, Gr in A. }
    assert (Rs : RebuildWf.all_no_rs g1).
    { intros i n1 G1. destruct (T i n1 G1) as (r & Hr' & _ & At). unfold RebuildProofs.no_rs. rewrite At by nes. apply (F r Hr'). }
    pose proof (RebuildWf.rebuild_wf _ _ _ W1 Rs Hr1) as W'.
    exists g1. split; [reflexivity|]. split; [exact W1|]. split; [exact Rs|]. split; [exact Hr1|]. split; [exact W'|].
    destruct (RebuildProofs.rebuild_end_to_end _ g1 g' ND1 Cl1 Ns1 Rs Hr1) as (R1 & R2 & R3).
    intros nd Hin. pose proof (CopyProofs.gfind_in g' (SquashDefs.wf_nodup _ W') nd Hin) as Gnd.
    destruct (gfind (nk nd) g1) as [n1|] eqn:G.
    - destruct (T _ _ G) as (r & Hr' & _ & At). destruct (Hydrogens.is_H (na n1)) eqn:IsH.
      + destruct (R2 _ _ G IsH) as (n' & G' & _ & Keep). rewrite Gnd in G'. injection G' as <-.
        destruct (aget (S "fragid") (na n1)) as [v|] eqn:Ef.
        * rewrite (Keep (S "fragid") v ltac:(nes) Ef). discriminate.
        * exfalso. rewrite At in Ef by nes. exact (proj1 (F r Hr') Ef).
      + destruct (R1 _ _ G IsH) as (val & b & idxs & n' & _ & _ & _ & _ & _ & G' & _ & Keep & _). rewrite Gnd in G'. injection G' as <-.
        rewrite Keep by nes. rewrite At by nes. apply (F r Hr').
    - destruct (R3 _ _ G Gnd) as (k & Hk & Am & _). destruct (gfind k g1) as [nk1|] eqn:Gk; [|congruence].
      destruct (Hydrogens.is_H (na nk1)) eqn:IsH.
      + (* an explicit hydrogen keeps its adjacency: it cannot have gained the neighbour nd *)
        destruct (R2 _ _ Gk IsH) as (n' & G' & Adj & _).
        assert (He : has_edge g' k (nk nd) = true).
        { rewrite <- (SquashDefs.wf_sym _ W'). apply RebuildWf.has_edge_in. exists nd, Hydrogens.h_edge_attrs. split; [exact Gnd|rewrite Am; now left]. }
        apply RebuildWf.has_edge_in in He as (n'' & a & G'' & Hin''). rewrite G' in G''. injection G'' as <-. rewrite Adj in Hin''.
        exfalso. apply (Cl1 _ _ _ _ Gk Hin''). exact G.
      + destruct (R1 _ _ Gk IsH) as (val & b & idxs & n' & _ & _ & _ & _ & _ & G' & A' & _ & Hh).
        assert (He : has_edge g' k (nk nd) = true).
        { rewrite <- (SquashDefs.wf_sym _ W'). apply RebuildWf.has_edge_in. exists nd, Hydrogens.h_edge_attrs. split; [exact Gnd|rewrite Am; now left]. }
        apply RebuildWf.has_edge_in in He as (n'' & a & G'' & Hin''). rewrite G' in G''. injection G'' as <-. rewrite A' in Hin''.
        apply in_app_or in Hin'' as [Hin''|Hin''].
        * exfalso. apply (Cl1 _ _ _ _ Gk Hin''). exact G.
        * apply in_map_iff in Hin'' as (j & E' & Hj). injection E' as -> _. destruct (Hh _ Hj) as (h & Gh & _ & _ & Ah).
          rewrite Gnd in Gh. injection Gh as <-. rewrite (Ah (S "fragid")). cbn. discriminate.
  Qed.

  Lemma squash_wf_numbering g : SquashDefs.wf_graph g -> SampleNumbering.wf_graph g.
  Proof.
    intros W. split; [apply (SquashDefs.wf_nodup _ W)|]. intros u v d Hin.
    destruct (SortGraphProofs.edges_endpoints g u v d W Hin) as [Hu Hv]. split; now apply MapProofs.gfind_has.
  Qed.

  (** ** numbering_canonical, unconditional for samples of BOTH modes and every aromaticity transcript *)
  Theorem sample_numbering_total target fuel rng start nm i0 m cw log rng' aa car gf :
    sample_growth M c0 madd mltb misz R pick cfg target fuel rng start = Ok (nm, i0, m, cw, log, rng') ->
    finalise_nx aa (to_nx m) car = Ok gf ->
    exists g1 ks, (if aa then Hydrogens.rebuild_h_atoms_default (to_nx m) car else Ok (to_nx m)) = Ok g1 /\
      GraphOps.sort_items g1 = Ok ks /\ map snd ks = node_keys g1 /\
      StronglySorted SortProofs.key_lt (GraphOps.isort ks) /\ Permutation (GraphOps.isort ks) ks /\
      map (map_get (GraphOps.mapping_of (GraphOps.isort ks))) (map snd (GraphOps.isort ks)) = map Z.of_nat (seq 0 (length g1)) /\
      node_keys gf = map (map_get (GraphOps.mapping_of (GraphOps.isort ks))) (node_keys g1) /\
      Permutation (node_keys gf) (map Z.of_nat (seq 0 (length g1))).
  Proof.
    intros H Hf. destruct (SampleNumbering.sample_numbering_canonical _ _ _ _ Hf) as (g1 & Hg1 & Hn). exists g1.
    assert (X : SquashDefs.wf_graph g1 /\ forall nd, In nd g1 -> aget (S "fragid") (na nd) <> None).
    { destruct aa.
      - destruct (sample_completed _ _ _ _ _ _ _ _ _ _ _ _ H Hg1) as (g1t & _ & _ & _ & _ & W' & F'). split; assumption.
      - injection Hg1 as <-. destruct (sample_graph_facts _ _ _ _ _ _ _ _ _ _ H) as (W & _ & F). split; [exact W|]. intros nd Hnd. apply (F nd Hnd). }
    destruct X as [W F]. destruct (Hn (squash_wf_numbering _ W) F) as (ks & Hks). exists ks. split; [exact Hg1|exact Hks].
  Qed.

  (** ** valence completeness of all-atom samples without a hypothesis on the transcript *)
  Theorem sample_valence_total target fuel rng start nm i0 m cw log rng' car g' :
    sample_growth M c0 madd mltb misz R pick cfg target fuel rng start = Ok (nm, i0, m, cw, log, rng') ->
    Hydrogens.rebuild_h_atoms_default (to_nx m) car = Ok g' ->
    exists g1, car = Some g1 /\
      forall k n, gfind k g1 = Some n -> Hydrogens.is_H (na n) = false ->
        exists val b idxs n', Hydrogens.valence_of (na n) = Ok val /\ Hydrogens.sum_orders (nadj n) = Ok b /\
          gfind k g' = Some n' /\ nadj n' = nadj n ++ map (fun j => (j, Hydrogens.h_edge_attrs)) idxs /\
          (forall j, In j idxs -> exists h, gfind j g' = Some h /\ nadj h = [(k, Hydrogens.h_edge_attrs)] /\ Hydrogens.is_H (na h) = true) /\
          (HydroDefs.fits val b -> exists v, HydroDefs.least_fitting val b v /\
             (Z.even b = true -> 2 * Z.of_nat (length idxs) = 2 * v - b /\ Hydrogens.sum_orders (nadj n') = Ok (2 * v)) /\
             (Z.even b = false -> 2 * Z.of_nat (length idxs) = 2 * v - b - 1 /\ Hydrogens.sum_orders (nadj n') = Ok (2 * v - 1))).
  Proof.
    intros H Hr. destruct (sample_completed _ _ _ _ _ _ _ _ _ _ _ _ H Hr) as (g1 & -> & _ & Rs & _).
    destruct (sample_valence_complete M c0 madd mltb misz R pick cfg Wf _ _ _ _ _ _ _ _ _ _ _ _ _ H Hr) as (g1' & E & V).
    injection E as <-. exists g1. split; [reflexivity|]. exact (V Rs).
  Qed.
  (** ** the sorted graph as a whole (instantiating Resolve/SortGraphProofs.sort_graph): the relabelling is
      injective, onto 0..n-1, and carries adjacency and every attribute but 'ez_isomer_atoms' along; the
      returned graph is the sorted one (coarse) or the sorted one with atom names set (all-atom: same keys) *)
  Theorem sample_sorted_graph target fuel rng start nm i0 m cw log rng' aa car gf :
    sample_growth M c0 madd mltb misz R pick cfg target fuel rng start = Ok (nm, i0, m, cw, log, rng') ->
    finalise_nx aa (to_nx m) car = Ok gf ->
    exists g1 g2 mp, (if aa then Hydrogens.rebuild_h_atoms_default (to_nx m) car else Ok (to_nx m)) = Ok g1 /\
      GraphOps.sort_nodes_by_attr g1 = Ok g2 /\ GraphOps.sort_mapping g1 = Ok mp /\
      SortGraphProofs.inj_on (map_get mp) (node_keys g1) /\
      Permutation (map (map_get mp) (node_keys g1)) (map Z.of_nat (seq 0 (length g1))) /\
      node_keys g2 = map (map_get mp) (node_keys g1) /\
      (forall a b, In a (node_keys g1) -> In b (node_keys g1) -> has_edge g2 (map_get mp a) (map_get mp b) = has_edge g1 a b) /\
      (forall k key, In k (node_keys g1) -> key <> S "ez_isomer_atoms" -> node_get g2 (map_get mp k) key = node_get g1 k key) /\
      node_keys gf = node_keys g2 /\ (aa = false -> gf = g2).
  Proof.
    intros H Hf. unfold finalise_nx in Hf.
    destruct (if aa then Hydrogens.rebuild_h_atoms_default (to_nx m) car else Ok (to_nx m)) as [g1|] eqn:Hg1; cbn [bind] in Hf; [|discriminate].
    destruct (GraphOps.sort_nodes_by_attr g1) as [g2|] eqn:Hs; cbn [bind] in Hf; [|discriminate].
    assert (X : SquashDefs.wf_graph g1 /\ forall nd, In nd g1 -> aget (S "fragid") (na nd) <> None).
    { destruct aa.
      - destruct (sample_completed _ _ _ _ _ _ _ _ _ _ _ _ H Hg1) as (g1t & _ & _ & _ & _ & W' & F'). split; assumption.
      - injection Hg1 as <-. destruct (sample_graph_facts _ _ _ _ _ _ _ _ _ _ H) as (W & _ & F). split; [exact W|]. intros nd Hnd. apply (F nd Hnd). }
    destruct X as [W F].
    destruct (SortGraphProofs.sort_graph g1 g2 W (SampleNumbering.gna_all_keys g1 (S "fragid") F) Hs) as (mp & E1 & E2 & E3 & E4 & E5 & E6).
    exists g1, g2, mp. repeat split; try assumption.
    - destruct aa; [now apply SampleNumbering.naming_keeps_keys|now injection Hf as <-].
    - intros ->. now injection Hf as <-.
  Qed.
End Sorted.
