(** SampleMass: element-derived fragment masses (C17).  The model of compute_mass
    (Sample/SampleImpl.v, compared bit-exactly with `sampler.fragment_masses` on every run) is the
    left fold of the table masses over the atoms of the template in node order, followed by the
    completed hydrogens; the number of hydrogens of each non-hydrogen atom is the count of the
    hydrogen component (Hydro/Hydrogens.missing_of on the GENERATED valence table, clipped at 0), i.e.
    by C09's [valence_complete] the least fitting valence minus the bonds whenever the bonds fit. *)
From Coq Require Import String.
From Coq Require Import List Ascii ZArith Bool Lia.
From CGV Require Import Base.PyBase Base.PyVal Base.PyGen Sample.GenSupport Gen.SamplerGen Sample.SampleImpl
     Sample.SampleDefs Sample.SampleProofs.
From CGV Require Gen.HydroGen Hydro.Hydrogens Hydro.HydroDefs Hydro.HydrogensProofs.
Import ListNotations.
Open Scope Z_scope.

(** ** the hydrogen count of the mass model is the hydrogen component's *)
Lemma find_filter_head {A} (f : A -> bool) l : find f l = match filter f l with x :: _ => Some x | [] => None end.
Proof. induction l as [|x r IH]; cbn; [reflexivity|]. destruct (f x); [reflexivity|exact IH]. Qed.
Lemma last_opt_in {A} (l : list A) x : Hydrogens.last_opt l = Some x -> In x l.
Proof.
  induction l as [|y r IH]; cbn; [discriminate|]. destruct r as [|z r']; [intros [= ->]; now left|]. intros H. right. now apply IH.
Qed.
Theorem h_missing_is_hydro vals b : h_missing vals b = Z.max (Hydrogens.missing_of vals (2 * b)) 0.
Proof.
  unfold h_missing, Hydrogens.missing_of, Hydrogens.pick_valence.
  assert (E : filter (fun v => 2 * b <=? 2 * v) vals = filter (fun v => b <=? v) vals).
  { apply filter_ext. intros v. destruct (Z.leb_spec (2 * b) (2 * v)), (Z.leb_spec b v); try reflexivity; lia. }
  rewrite find_filter_head, E. destruct (filter (fun v => b <=? v) vals) as [|v r] eqn:F.
  - destruct (Hydrogens.last_opt vals) as [w|] eqn:L; [|reflexivity].
    apply last_opt_in in L. assert (w < b).
    { destruct (Z.ltb_spec w b); [assumption|]. exfalso. assert (In w (filter (fun v => b <=? v) vals)) by (apply filter_In; split; [assumption|now apply Z.leb_le]).
      rewrite F in H0. destruct H0. }
    unfold Hydrogens.trunc_half. replace (2 * w - 2 * b) with (- (2 * (b - w))) by lia.
    rewrite Z.quot_opp_l by lia. replace (2 * (b - w)) with ((b - w) * 2) by lia. rewrite Z.quot_mul by lia. lia.
  - assert (Hv : b <= v).
    { assert (In v (filter (fun v => b <=? v) vals)) by (rewrite F; now left). apply filter_In in H as [_ H]. now apply Z.leb_le. }
    unfold Hydrogens.trunc_half. replace (2 * v - 2 * b) with ((v - b) * 2) by lia. rewrite Z.quot_mul by lia. lia.
Qed.

Lemma str_eqb_sym a b : str_eqb a b = str_eqb b a.
Proof. destruct (str_eqb_spec a b), (str_eqb_spec b a); congruence. Qed.
Theorem valence_of_is_table_row e q :
  valence_of e q HydroGen.valence_table = match Hydrogens.table_row e q with Some r => r | None => None end.
Proof.
  unfold Hydrogens.table_row. induction HydroGen.valence_table as [|[[e' q'] v] r IH]; cbn [valence_of find fst snd]; [reflexivity|].
  rewrite (str_eqb_sym e' e), (Z.eqb_sym q' q). destruct (str_eqb e e' && (q =? q')); [reflexivity|exact IH].
Qed.

(** what one template node contributes to the hydrogen count *)
Definition node_hcount (es : list (Z * Z * attrs)) (n : tnode) (h : Z) : Prop :=
  exists e, attr_str (S "element") (t_attrs n) = Ok e /\
    ((e = S "H" /\ h = 0) \/
     (e <> S "H" /\ exists q b vals, attr_int_default (S "charge") (t_attrs n) 0 = Ok q /\ bond_sum (t_key n) es = Ok b /\
        Hydrogens.table_row e q = Some (Some vals) /\
        h = Z.max (Hydrogens.missing_of vals (2 * b)) 0 /\
        (HydroDefs.fits vals (2 * b) -> exists v, HydroDefs.least_fitting vals (2 * b) v /\ h = v - b))).

Theorem template_hcount_spec ns es nh : template_hcount ns es = Ok nh ->
  exists hs, Forall2 (node_hcount es) ns hs /\ nh = zsum hs /\ Forall (fun h => 0 <= h) hs.
Proof.
  revert nh. induction ns as [|n r IH]; intros nh; cbn [template_hcount].
  - intros [= <-]. exists []. repeat split; constructor.
  - destruct (template_hcount r es) as [rest|]; cbn [bind]; [|discriminate]. destruct (IH rest eq_refl) as (hs & F & -> & P).
    destruct (attr_str (S "element") (t_attrs n)) as [e|] eqn:Ee; cbn [bind]; [|discriminate].
    destruct (str_eqb e (S "H")) eqn:EH.
    + apply str_eqb_eq in EH. subst e. intros [= <-]. exists (0 :: hs). split; [constructor; [exists (S "H"); split; [exact Ee|left; split; reflexivity]|exact F]|].
      split; [reflexivity|constructor; [lia|exact P]].
    + assert (NH : e <> S "H") by (intros ->; rewrite str_eqb_refl in EH; discriminate).
      destruct (attr_int_default (S "charge") (t_attrs n) 0) as [q|] eqn:Eq; cbn [bind]; [|discriminate].
      destruct (bond_sum (t_key n) es) as [b|] eqn:Eb; cbn [bind]; [|discriminate].
      rewrite valence_of_is_table_row. destruct (Hydrogens.table_row e q) as [[vals|]|] eqn:Et; try discriminate.
      intros [= <-]. rewrite h_missing_is_hydro. exists (Z.max (Hydrogens.missing_of vals (2 * b)) 0 :: hs).
      split; [constructor; [|exact F]|split; [reflexivity|constructor; [lia|exact P]]].
      exists e. split; [exact Ee|right]. split; [exact NH|]. exists q, b, vals. repeat split; try assumption.
      intros Hf. destruct (HydrogensProofs.valence_complete e q vals (2 * b) Et Hf) as (v & HL & Hev & _).
      exists v. split; [exact HL|]. assert (Z.even (2 * b) = true) by (rewrite Z.even_mul; reflexivity). specialize (Hev H). cbn zeta in Hev. lia.
Qed.

(** ** compute_mass is the fold of the table masses over atoms and completed hydrogens *)
Section Mass.
  Variable M : Type.
  Variables (c0 : Z -> M) (madd : M -> M -> M).

  Lemma repeat_add_fold x n : forall acc, repeat_add M madd x n acc = fold_left madd (repeat x n) acc.
  Proof. induction n as [|k IH]; intros acc; cbn; [reflexivity|apply IH]. Qed.

  Definition heavy_sum (pte : list (pystr * M)) : list tnode -> M -> res M :=
    fix go (ns : list tnode) (acc : M) : res M :=
      match ns with
      | [] => Ok acc
      | n :: r => e <- attr_str (S "element") (t_attrs n) ;; x <- of_option (dict_get pte e) EKey ;; go r (madd acc x)
      end.
  Lemma heavy_sum_cons pte n r acc : heavy_sum pte (n :: r) acc =
    (e <- attr_str (S "element") (t_attrs n) ;; x <- of_option (dict_get pte e) EKey ;; heavy_sum pte r (madd acc x)).
  Proof. reflexivity. Qed.
  Definition atom_mass (pte : list (pystr * M)) (n : tnode) (x : M) : Prop :=
    exists e, attr_str (S "element") (t_attrs n) = Ok e /\ dict_get pte e = Some x.

  Theorem mass_is_sum pte t x : compute_mass M c0 madd pte t = Ok x ->
    exists ms mh hs, Forall2 (atom_mass pte) (f_nodes t) ms /\ dict_get pte (S "H") = Some mh /\
      Forall2 (node_hcount (f_edges t)) (f_nodes t) hs /\ Forall (fun h => 0 <= h) hs /\
      x = fold_left madd (ms ++ repeat mh (Z.to_nat (zsum hs))) (c0 0).
  Proof.
    unfold compute_mass. destruct (template_hcount (f_nodes t) (f_edges t)) as [nh|] eqn:Eh; cbn [bind]; [|discriminate].
    destruct (template_hcount_spec _ _ _ Eh) as (hs & Fh & -> & P).
    match goal with |- context [bind (?go (f_nodes t) (c0 0))] => change go with (heavy_sum pte) end.
    set (G := heavy_sum pte).
    assert (L : forall ns acc y, G ns acc = Ok y -> exists ms, Forall2 (atom_mass pte) ns ms /\ y = fold_left madd ms acc).
    { unfold G. induction ns as [|n r IH]; intros acc y; [cbn|rewrite heavy_sum_cons].
      - intros [= <-]. exists []. split; [constructor|reflexivity].
      - destruct (attr_str (S "element") (t_attrs n)) as [e|] eqn:Ee; cbn [bind]; [|discriminate].
        destruct (dict_get pte e) as [xm|] eqn:Ed; cbn [of_option bind]; [|discriminate].
        intros H. destruct (IH _ _ H) as (ms & F & ->). exists (xm :: ms). split; [constructor; [exists e; split; assumption|exact F]|reflexivity]. }
    destruct (G (f_nodes t) (c0 0)) as [heavy|] eqn:Eg; cbn [bind]; [|discriminate].
    destruct (L _ _ _ Eg) as (ms & Fm & ->).
    destruct (dict_get pte (S "H")) as [mh|] eqn:EH; cbn [of_option bind]; [|discriminate].
    intros [= <-]. exists ms, mh, hs. split; [exact Fm|]. split; [reflexivity|]. split; [exact Fh|]. split; [exact P|].
    rewrite repeat_add_fold, fold_left_app. reflexivity.
  Qed.
End Mass.

(** at Z: the mass is the sum of the atomic masses plus (number of hydrogens) x mass(H) *)
Corollary mass_is_sum_Z pte t x : compute_mass Z (fun z => z) Z.add pte t = Ok x ->
  exists ms mh hs, Forall2 (atom_mass Z pte) (f_nodes t) ms /\ dict_get pte (S "H") = Some mh /\
    Forall2 (node_hcount (f_edges t)) (f_nodes t) hs /\ x = zsum ms + zsum hs * mh.
Proof.
  intros H. destruct (mass_is_sum Z (fun z => z) Z.add pte t x H) as (ms & mh & hs & F1 & F2 & F3 & P & ->).
  exists ms, mh, hs. split; [exact F1|]. split; [exact F2|]. split; [exact F3|].
  assert (FS : forall l a, fold_left Z.add l a = a + zsum l).
  { unfold zsum. induction l as [|y l IH]; intros a; cbn [fold_left fold_right]; [lia|]. rewrite IH. lia. }
  assert (ZP : 0 <= zsum hs) by (clear - P; unfold zsum; induction P; cbn; lia).
  rewrite FS. unfold zsum at 1. rewrite fold_right_app. fold (zsum (repeat mh (Z.to_nat (zsum hs)))).
  assert (R : forall n, zsum (repeat mh n) = Z.of_nat n * mh) by (unfold zsum; induction n as [|k IH]; cbn [repeat fold_right]; [lia|]; rewrite IH; lia).
  assert (A : forall l b, fold_right Z.add b l = zsum l + b) by (unfold zsum; induction l as [|y l IH]; intros b; cbn; [lia|]; rewrite IH; lia).
  rewrite A, R, Z2Nat.id by lia. lia.
Qed.
