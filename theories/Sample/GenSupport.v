(** GenSupport: run-time support for theories/Gen/SamplerGen.v (definitions generated from
    sample.py / cgsmiles_utils.py by tools/gen_sampler.py).  Insertion-ordered dicts with
    string keys and values of any type. *)
From Coq Require Import String.
From Coq Require Import List Ascii ZArith Bool.
From CGV Require Import Base.PyBase.
Import ListNotations.

(** d[k] = v : replace the value of an existing key (position kept) or append *)
Fixpoint dict_set {V} (k : pystr) (v : V) (d : list (pystr * V)) : list (pystr * V) :=
  match d with
  | [] => [(k, v)]
  | (k', v') :: r => if str_eqb k k' then (k', v) :: r else (k', v') :: dict_set k v r
  end.
Fixpoint dict_get {V} (d : list (pystr * V)) (k : pystr) : option V :=
  match d with [] => None | (k', v) :: r => if str_eqb k k' then Some v else dict_get r k end.
(** d.get(k, default) *)
Definition dict_get_default {V} (d : list (pystr * V)) (k : pystr) (dflt : V) : V :=
  match dict_get d k with Some v => v | None => dflt end.
