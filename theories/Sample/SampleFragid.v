(** SampleFragid: node keys and fragment membership along the growth loop (C16): keys are
    0..n-1 in insertion order, the copy added at step j carries fragid j, the inter-fragment bonds
    DEFINED BY MEMBERSHIP (end points of different fragid) are exactly the edges created by
    add_fragment, and the number of distinct fragids is the number of copies. *)
From Coq Require Import String.
From Coq Require Import List Ascii ZArith Bool Lia FinFun.
From CGV Require Import Base.PyBase Base.PyVal Base.PyGen Sample.GenSupport Gen.SamplerGen Sample.SampleImpl
     Sample.SampleDefs Sample.SampleSpec Sample.SampleProofs Sample.SampleTree.
Import ListNotations.
Open Scope Z_scope.

Definition zseq (a n : nat) : list Z := map Z.of_nat (seq a n).
Lemma zseq_in a n x : In x (zseq a n) <-> Z.of_nat a <= x < Z.of_nat (a + n).
Proof.
  unfold zseq. rewrite in_map_iff. split.
  - intros [i [<- Hi]]. apply in_seq in Hi. lia.
  - intros H. exists (Z.to_nat x). split; [lia|]. apply in_seq. lia.
Qed.
Lemma zseq_app a n t : zseq a (n + t) = zseq a n ++ zseq (a + n) t.
Proof. unfold zseq. now rewrite seq_app, map_app. Qed.

Lemma mk_nodes_keys_seq fo off i ts :
  map n_key (mk_nodes fo off i ts) = map (fun j => off + 1 + Z.of_nat j) (seq i (length ts)).
Proof. revert i. induction ts as [|t r IH]; intros i; cbn; [reflexivity|]. now rewrite IH. Qed.
Lemma mk_nodes_fragid fo off i ts : Forall (fun t => t_fragid t = 0) ts ->
  Forall (fun n => n_fragid n = fo) (mk_nodes fo off i ts).
Proof. intros H. revert i. induction H as [|t r Ht _ IH]; intros i; cbn; constructor; [cbn; lia|apply IH]. Qed.
Lemma mk_nodes_length fo off i ts : length (mk_nodes fo off i ts) = length ts.
Proof. revert i. induction ts as [|t r IH]; intros i; cbn; [reflexivity|]. now rewrite IH. Qed.

Lemma zmax_list_spec l : forall d B, (forall x, In x l -> x <= B) -> d <= B -> (d = B \/ In B l) -> zmax_list l d = B.
Proof.
  induction l as [|x r IH]; intros d B Hl Hd HB; cbn.
  - destruct HB as [H|[]]. assumption.
  - apply IH.
    + intros y Hy. apply Hl. now right.
    + specialize (Hl x (or_introl eq_refl)). lia.
    + specialize (Hl x (or_introl eq_refl)). destruct HB as [->|[->|H]]; [left; lia|left; lia|now right].
Qed.

Lemma find_node_app k a b : find_node k (a ++ b) = match find_node k a with Some x => Some x | None => find_node k b end.
Proof. induction a as [|n r IH]; cbn; [reflexivity|]. destruct (Z.eqb (n_key n) k); [reflexivity|assumption]. Qed.
Lemma find_node_none k ns : ~ In k (map n_key ns) -> find_node k ns = None.
Proof.
  induction ns as [|n r IH]; cbn; [reflexivity|]. intros H. destruct (Z.eqb_spec (n_key n) k); [exfalso; apply H; now left|].
  apply IH. intros H'. apply H. now right.
Qed.
Lemma find_node_some k ns : In k (map n_key ns) -> exists n, find_node k ns = Some n /\ In n ns /\ n_key n = k.
Proof.
  induction ns as [|n r IH]; cbn; [tauto|]. intros H. destruct (Z.eqb_spec (n_key n) k) as [E|N].
  - exists n. repeat split; [now left|assumption].
  - destruct H as [H|H]; [contradiction|]. destruct (IH H) as (x & H1 & H2 & H3). exists x. repeat split; [assumption|now right|assumption].
Qed.
Lemma find_node_kf k ns : option_map n_fragid (find_node k ns) = assocz k (map kf ns).
Proof.
  induction ns as [|n r IH]; cbn; [reflexivity|]. rewrite Z.eqb_sym. destruct (Z.eqb k (n_key n)); [reflexivity|assumption].
Qed.
Lemma fragid_at_kf m k : fragid_at m k = assocz k (map kf (m_nodes m)).
Proof. unfold fragid_at. rewrite <- find_node_kf. destruct (find_node k (m_nodes m)); reflexivity. Qed.

(** the shape invariant: k copies so far *)
Record Shape (m : mol) (k : nat) : Prop := {
  sh_keys : map n_key (m_nodes m) = zseq 0 (length (m_nodes m));
  sh_last : exists front ln, m_nodes m = front ++ [ln] /\ n_fragid ln = Z.of_nat k - 1;
  sh_range : Forall (fun n => 0 <= n_fragid n < Z.of_nat k) (m_nodes m);
  sh_cover : forall f, 0 <= f < Z.of_nat k -> In f (map n_fragid (m_nodes m));
  sh_edges : Forall (fun e => In (e_u e) (map n_key (m_nodes m)) /\ In (e_v e) (map n_key (m_nodes m))) (m_edges m);
  sh_inter : forall e, In e (m_edges m) -> is_inter m e = match e_bonding e with Some _ => true | None => false end }.

Lemma shape_offsets m k : Shape m k -> merge_offsets m = Ok (Z.of_nat (length (m_nodes m)) - 1, Z.of_nat k).
Proof.
  intros [Hk [front [ln [Hn Hf]]] _ _ _ _]. unfold merge_offsets.
  destruct (m_nodes m) as [|n0 r] eqn:E; [destruct front; discriminate|]. rewrite <- E in *.
  set (n := length (m_nodes m)) in *.
  assert (Hn0 : (0 < n)%nat) by (unfold n; rewrite E; cbn; lia).
  assert (Hmax : max_key (m_nodes m) = Z.of_nat n - 1).
  { rewrite E. unfold max_key. rewrite E in Hk. cbn [map] in Hk. unfold n in *. rewrite E in *. cbn [length] in *.
    unfold zseq in Hk. cbn [seq map] in Hk. injection Hk as H0 Hr. rewrite H0, Hr.
    apply zmax_list_spec.
    - intros x Hx. apply in_map_iff in Hx as [i [<- Hi]]. apply in_seq in Hi. lia.
    - lia.
    - destruct r as [|n1 r']; [left; cbn; lia|right]. apply in_map_iff. exists (length (n1 :: r')). split; [cbn [length]; lia|].
      apply in_seq. cbn [length]. lia. }
  rewrite Hmax.
  assert (Hlast : find_node (Z.of_nat n - 1) (m_nodes m) = Some ln).
  { assert (Hlen : n = (length front + 1)%nat) by (unfold n; rewrite Hn, app_length; reflexivity).
    rewrite Hn, find_node_app. rewrite Hn, map_app, Hlen, zseq_app in Hk. cbn [map zseq seq] in Hk.
    apply app_inj_tail in Hk as [Hfr Hkey].
    rewrite find_node_none.
    - cbn. rewrite Hkey. replace (Z.of_nat n - 1) with (Z.of_nat (0 + length front)) by lia. now rewrite Z.eqb_refl.
    - rewrite Hfr. intros Hin. apply zseq_in in Hin. lia. }
  rewrite Hlast. cbn [of_option bind]. rewrite Hf. f_equal. f_equal. lia.
Qed.

Lemma remove_desc_kf ns k d ns' : remove_desc ns k d = Ok ns' -> map kf ns' = map kf ns.
Proof. intros H. apply remove_desc_inv in H as (n & ds & ds' & _ & _ & _ & ->). apply update_kf. Qed.
Lemma terminal_step_kf term c ns s ns' : terminal_step term c ns s = Ok ns' -> map kf ns' = map kf ns.
Proof.
  unfold terminal_step. destruct (find_node s ns) as [n|]; cbn [of_option bind]; [|discriminate].
  destruct (str_in c term); [destruct (n_bonding n); [|discriminate]|]; intros [= <-]; apply update_kf.
Qed.
Lemma kf_keys ns : map n_key ns = map fst (map kf ns). Proof. now rewrite map_map. Qed.
Lemma kf_fragids ns : map n_fragid ns = map snd (map kf ns). Proof. now rewrite map_map. Qed.

Lemma assocz_app_l {A} k (a b : list (Z * A)) : In k (map fst a) -> assocz k (a ++ b) = assocz k a.
Proof.
  induction a as [|[k' v] r IH]; cbn; [tauto|]. destruct (Z.eqb_spec k k'); [reflexivity|].
  intros [H|H]; [congruence|auto].
Qed.
Lemma assocz_app_r {A} k (a b : list (Z * A)) : ~ In k (map fst a) -> assocz k (a ++ b) = assocz k b.
Proof.
  induction a as [|[k' v] r IH]; cbn; [reflexivity|]. intros H. destruct (Z.eqb_spec k k') as [->|N]; [exfalso; apply H; now left|].
  apply IH. intros H'. apply H. now right.
Qed.
Lemma assocz_some_in {A} k (l : list (Z * A)) : In k (map fst l) -> exists v, assocz k l = Some v /\ In (k, v) l.
Proof.
  induction l as [|[k' v] r IH]; cbn; [tauto|]. destruct (Z.eqb_spec k k') as [->|N].
  - intros _. exists v. split; [reflexivity|now left].
  - intros [H|H]; [congruence|]. destruct (IH H) as [w [H1 H2]]. exists w. split; [assumption|now right].
Qed.

Lemma mk_edges_endpoints corr tes es : mk_edges corr tes = Ok es ->
  Forall (fun e => In (e_u e) (map snd corr) /\ In (e_v e) (map snd corr)) es.
Proof.
  revert es. induction tes as [|[[a b] at_] r IH]; intros es; cbn [mk_edges]; [intros [= <-]; constructor|].
  destruct (assocz a corr) as [ca|] eqn:Ea; cbn [of_option bind]; [|discriminate].
  destruct (assocz b corr) as [cb|] eqn:Eb; cbn [of_option bind]; [|discriminate].
  destruct (mk_edges corr r) as [rest|]; cbn [bind]; [|discriminate].
  intros [= <-]. specialize (IH rest eq_refl). destruct (Z.eqb ca cb); [assumption|]. constructor; [|assumption].
  cbn. apply assocz_in in Ea. apply assocz_in in Eb. split.
  - change ca with (snd (a, ca)). now apply in_map.
  - change cb with (snd (b, cb)). now apply in_map.
Qed.

Section Fragid.
  Variable M : Type.
  Variables (c0 : Z -> M) (madd : M -> M -> M) (mltb : M -> M -> bool) (misz : M -> bool).
  Variable R : Type.
  Variable pick : R -> nat -> option (list M) -> res (nat * R).
  Variable cfg : config M.
  Hypothesis Wf : wf_frags (c_frags cfg).

  Lemma shape_step_apply m k s m' tgt : Shape m k -> In (s_source s) (map n_key (m_nodes m)) ->
    step_apply M cfg m s = Ok (m', tgt) -> Shape m' (Datatypes.S k).
  Proof.
    intros Sh Hsrc H.
    destruct (step_apply_inv M cfg _ _ _ _ H) as (tpl & off & fo & es & ns1 & ns2 & o & D1 & D2 & D3 & D4 & H1 & H2 & H3 & He).
    rewrite (shape_offsets _ _ Sh) in D2. injection D2 as <- <-.
    set (n := length (m_nodes m)) in *. set (off := Z.of_nat n - 1) in *. set (fo := Z.of_nat k) in *.
    assert (Wt : wf_template tpl).
    { apply dict_get_in in D1. pose proof Wf as W. unfold wf_frags in W. rewrite Forall_forall in W. apply (W _ D1). }
    destruct Wt as (NDt & F0 & NEt & _).
    set (new := mk_nodes fo off 0 (f_nodes tpl)) in *.
    assert (Hkf : map kf (m_nodes m') = map kf (m_nodes m) ++ map kf new).
    { rewrite (terminal_step_kf _ _ _ _ _ H3), (remove_desc_kf _ _ _ _ H2), (remove_desc_kf _ _ _ _ H1). apply map_app. }
    set (t := length (f_nodes tpl)) in *.
    assert (Ht : (0 < t)%nat) by (unfold t; destruct (f_nodes tpl); [congruence|cbn; lia]).
    assert (Hnk : map n_key new = zseq n t).
    { unfold new. rewrite mk_nodes_keys_seq. fold t. unfold zseq. replace n with (n + 0)%nat at 1 by lia.
      generalize 0%nat. clear. induction t as [|t IH]; intros a; cbn [seq map]; [reflexivity|].
      rewrite <- Nat.add_succ_r, <- IH. f_equal. unfold off. lia. }
    assert (Hnf : Forall (fun x => n_fragid x = fo) new) by (apply mk_nodes_fragid; assumption).
    assert (Hkeys : map n_key (m_nodes m') = map n_key (m_nodes m) ++ map n_key new)
      by (rewrite !kf_keys, Hkf, map_app; reflexivity).
    assert (Hfr : map n_fragid (m_nodes m') = map n_fragid (m_nodes m) ++ map n_fragid new)
      by (rewrite !kf_fragids, Hkf, map_app; reflexivity).
    assert (Hlen : length (m_nodes m') = (n + t)%nat).
    { rewrite <- (map_length n_key), Hkeys, app_length, !map_length. unfold new. rewrite mk_nodes_length. reflexivity. }
    assert (Hnewf : map n_fragid new = repeat fo t).
    { unfold t. rewrite <- (mk_nodes_length fo off 0). fold new. clear - Hnf. induction Hnf as [|x r Hx _ IH]; cbn; [reflexivity|]. now rewrite Hx, IH. }
    destruct Sh as [Sk Sl Sr Sc Se Si].
    assert (Hold : forall x, In x (map n_key (m_nodes m)) -> fragid_at m' x = fragid_at m x).
    { intros x Hx. rewrite !fragid_at_kf, Hkf. apply assocz_app_l. now rewrite <- kf_keys. }
    assert (Hnew : forall x, In x (map n_key new) -> fragid_at m' x = Some fo).
    { intros x Hx. rewrite fragid_at_kf, Hkf, assocz_app_r.
      - rewrite kf_keys in Hx. destruct (assocz_some_in _ _ Hx) as [v [Hv Hin]]. rewrite Hv. f_equal.
        apply in_map_iff in Hin as [nd [E Hnd]]. rewrite Forall_forall in Hnf. specialize (Hnf _ Hnd).
        unfold kf in E. injection E as _ <-. assumption.
      - rewrite <- kf_keys, Sk. fold n. rewrite Hnk in Hx. intros Hc. apply zseq_in in Hx. apply zseq_in in Hc. lia. }
    constructor.
    - rewrite Hkeys, Hlen, Sk, Hnk. fold n. now rewrite zseq_app.
    - assert (NE : m_nodes m' <> []) by (intros E; rewrite E in Hlen; cbn in Hlen; lia).
      destruct (exists_last NE) as [front [ln E]]. exists front, ln. split; [assumption|].
      rewrite E, map_app in Hfr. cbn [map] in Hfr. rewrite Hnewf in Hfr.
      destruct t as [|t']; [lia|]. rewrite <- (rev_involutive (repeat fo (Datatypes.S t'))) in Hfr.
      assert (Hrr : rev (repeat fo (Datatypes.S t')) = fo :: repeat fo t').
      { clear. cbn [repeat]. induction t' as [|j IH]; [reflexivity|]. cbn [repeat rev] in *. rewrite IH at 1.
        cbn [app]. f_equal. clear. induction j as [|j IH]; [reflexivity|]. cbn [repeat app]. now rewrite IH. }
      rewrite Hrr in Hfr. cbn [rev] in Hfr. rewrite app_assoc in Hfr. apply app_inj_tail in Hfr as [_ ->]. unfold fo. lia.
    - apply Forall_forall. intros nd Hnd. assert (Hf : In (n_fragid nd) (map n_fragid (m_nodes m'))) by now apply in_map.
      rewrite Hfr in Hf. apply in_app_or in Hf as [Hf|Hf].
      + apply in_map_iff in Hf as [x [Ex Hx]]. rewrite Forall_forall in Sr. specialize (Sr _ Hx). lia.
      + rewrite Hnewf in Hf. apply repeat_spec in Hf. unfold fo in Hf. lia.
    - intros f Hf. rewrite Hfr. apply in_or_app. destruct (Z.eq_dec f fo) as [->|N].
      + right. rewrite Hnewf. destruct t; [lia|]. now left.
      + left. apply Sc. unfold fo in N. lia.
    - rewrite He. apply Forall_app. split; [apply Forall_app; split|].
      + eapply Forall_impl; [|exact Se]. cbn. intros e [Hu Hv]. rewrite Hkeys. split; apply in_or_app; now left.
      + eapply Forall_impl; [|apply (mk_edges_endpoints _ _ _ D3)]. cbn. intros e [Hu Hv]. rewrite Hkeys.
        fold off in Hu, Hv. rewrite <- (mk_nodes_keys fo) in Hu, Hv. split; apply in_or_app; now right.
      + constructor; [|constructor]. cbn. rewrite Hkeys. split; apply in_or_app; [now left|right].
        unfold new. rewrite mk_nodes_keys. apply assocz_in in D4. change tgt with (snd (s_tnode s, tgt)). now apply in_map.
    - intros e He'. rewrite He in He'. apply in_app_or in He' as [He'|[<-|[]]]; [apply in_app_or in He' as [He'|He']|].
      + rewrite Forall_forall in Se. destruct (Se _ He') as [Hu Hv].
        unfold is_inter. rewrite (Hold _ Hu), (Hold _ Hv). apply (Si _ He').
      + pose proof (mk_edges_endpoints _ _ _ D3) as EP. pose proof (mk_edges_bonding _ _ _ D3) as EB.
        rewrite Forall_forall in EP, EB. destruct (EP _ He') as [Hu Hv]. rewrite (EB _ He').
        fold off in Hu, Hv. rewrite <- (mk_nodes_keys fo) in Hu, Hv. fold new in Hu, Hv.
        unfold is_inter. rewrite (Hnew _ Hu), (Hnew _ Hv), Z.eqb_refl. reflexivity.
      + unfold is_inter. cbn [e_u e_v e_bonding]. rewrite (Hold _ Hsrc).
        assert (Htn : In tgt (map n_key new)).
        { unfold new. rewrite mk_nodes_keys. apply assocz_in in D4. change tgt with (snd (s_tnode s, tgt)). now apply in_map. }
        rewrite (Hnew _ Htn). destruct (find_node_some _ _ Hsrc) as (nd & Hfn & Hin & _).
        unfold fragid_at. rewrite Hfn. rewrite Forall_forall in Sr. specialize (Sr _ Hin).
        destruct (Z.eqb_spec (n_fragid nd) fo); [unfold fo in *; lia|reflexivity].
  Qed.

  (** the first fragment: keys 0..t-1, fragid 0 *)
  Lemma shape_first tpl m0 corr : wf_template tpl -> merge_graphs mol_empty tpl = Ok (m0, corr) -> Shape m0 1.
  Proof.
    intros (NDt & F0 & NEt & _). unfold merge_graphs, merge_offsets. cbn [m_nodes mol_empty bind].
    destruct (mk_edges (mk_corr (-1) 0 (f_nodes tpl)) (f_edges tpl)) as [es|] eqn:D3; cbn [bind]; [|discriminate].
    intros [= <- <-]. cbn [m_nodes m_edges app].
    set (new := mk_nodes 0 (-1) 0 (f_nodes tpl)). set (t := length (f_nodes tpl)).
    assert (Ht : (0 < t)%nat) by (unfold t; destruct (f_nodes tpl); [congruence|cbn; lia]).
    assert (Hnk : map n_key new = zseq 0 t).
    { unfold new. rewrite mk_nodes_keys_seq. fold t. unfold zseq. apply map_ext. intros j. lia. }
    assert (Hnf : Forall (fun x => n_fragid x = 0) new) by (apply mk_nodes_fragid; assumption).
    assert (Hlen : length new = t) by (unfold new; apply mk_nodes_length).
    assert (Hfa : forall x, In x (map n_key new) -> fragid_at {| m_nodes := new; m_edges := es |} x = Some 0).
    { intros x Hx. unfold fragid_at. cbn [m_nodes]. destruct (find_node_some _ _ Hx) as (nd & -> & Hin & _).
      rewrite Forall_forall in Hnf. now rewrite (Hnf _ Hin). }
    constructor; cbn [m_nodes m_edges].
    - now rewrite Hnk, Hlen.
    - assert (NE : new <> []) by (intros E; rewrite E in Hlen; cbn in Hlen; lia).
      destruct (exists_last NE) as [front [ln E]]. exists front, ln. split; [assumption|].
      rewrite Forall_forall in Hnf. rewrite (Hnf ln); [reflexivity|]. rewrite E. apply in_or_app. right. now left.
    - eapply Forall_impl; [|exact Hnf]. cbn. intros; lia.
    - intros f Hf. assert (f = 0) by lia. subst f. destruct new as [|x r] eqn:E; [cbn in Hlen; lia|].
      inversion Hnf as [|? ? Hx _]; subst. cbn. now left.
    - eapply Forall_impl; [|apply (mk_edges_endpoints _ _ _ D3)]. cbn. intros e [Hu Hv].
      rewrite <- (mk_nodes_keys 0) in Hu, Hv. now split.
    - intros e He. pose proof (mk_edges_endpoints _ _ _ D3) as EP. pose proof (mk_edges_bonding _ _ _ D3) as EB.
      rewrite Forall_forall in EP, EB. destruct (EP _ He) as [Hu Hv]. rewrite (EB _ He).
      rewrite <- (mk_nodes_keys 0) in Hu, Hv. fold new in Hu, Hv.
      unfold is_inter. rewrite (Hfa _ Hu), (Hfa _ Hv). reflexivity.
  Qed.

  Lemma shape_step rng m k m' r rng' : Shape m k -> step M c0 misz R pick cfg rng m = Ok (m', r, rng') -> Shape m' (Datatypes.S k).
  Proof.
    intros Sh. unfold step.
    destruct (step_select M c0 misz R pick cfg rng (find_open_bonds m)) as [[s rng1]|] eqn:Es; cbn [bind]; [|discriminate].
    destruct (step_apply M cfg m s) as [[m1 tgt]|] eqn:Ea; cbn [bind]; [|discriminate].
    intros [= <- _ _]. destruct (select_complementary M c0 misz R pick cfg _ _ _ _ Es) as (_ & (srcs & Hs1 & Hs2) & _).
    eapply shape_step_apply; [exact Sh| |exact Ea].
    eapply find_open_bonds_keys; [apply dict_get_in; exact Hs1|exact Hs2].
  Qed.

  Lemma shape_grow target fuel : forall rng m cw log m' cw' log' rng' k,
    grow M c0 madd mltb misz R pick cfg target fuel rng m cw log = Ok (m', cw', log', rng') ->
    Shape m k -> Shape m' (k + (length log' - length log)).
  Proof.
    induction fuel as [|f IH]; intros rng m cw log m' cw' log' rng' k; cbn [grow].
    - destruct (loop_guard mltb cw target); [discriminate|]. intros [= <- <- <- <-] Sh. now rewrite Nat.sub_diag, Nat.add_0_r.
    - destruct (loop_guard mltb cw target).
      + destruct (step M c0 misz R pick cfg rng m) as [[[m1 r] rng1]|] eqn:E; cbn [bind]; [|discriminate].
        destruct (dict_get (c_masses cfg) (r_fragname r)) as [x|]; cbn [of_option bind]; [|discriminate].
        intros H Sh. pose proof (shape_step _ _ _ _ _ _ Sh E) as Sh1.
        pose proof (IH _ _ _ _ _ _ _ _ _ H Sh1) as Sh2.
        destruct (stop_rule M c0 madd mltb misz R pick cfg _ _ _ _ _ _ _ _ _ _ H) as [new [ms [Hl _]]].
        rewrite Hl, !app_length in *. cbn [length] in *.
        replace (k + (length log + 1 + length new - length log))%nat with (Datatypes.S k + (length log + 1 + length new - (length log + 1)))%nat by lia.
        exact Sh2.
      + intros [= <- <- <- <-] Sh. now rewrite Nat.sub_diag, Nat.add_0_r.
  Qed.

  (** number of distinct fragids *)
  Lemma shape_frag_count m k : Shape m k -> frag_count m = k.
  Proof.
    intros [_ _ Sr Sc _ _]. unfold frag_count, frag_ids.
    set (l := nodup Z.eq_dec (map n_fragid (m_nodes m))).
    assert (ND : NoDup l) by apply NoDup_nodup.
    assert (NDz : NoDup (zseq 0 k)).
    { unfold zseq. apply Injective_map_NoDup; [intros a b Hab; lia|apply seq_NoDup]. }
    assert (I1 : incl l (zseq 0 k)).
    { intros f Hf. apply nodup_In in Hf. apply in_map_iff in Hf as [nd [<- Hnd]]. rewrite Forall_forall in Sr.
      specialize (Sr _ Hnd). apply zseq_in. lia. }
    assert (I2 : incl (zseq 0 k) l).
    { intros f Hf. apply zseq_in in Hf. apply nodup_In. apply Sc. lia. }
    pose proof (NoDup_incl_length ND I1) as L1. pose proof (NoDup_incl_length NDz I2) as L2.
    unfold zseq in L1, L2. rewrite map_length, seq_length in L1, L2. lia.
  Qed.
  Lemma shape_inter m k : Shape m k -> inter_bonds m = bond_edges m.
  Proof. intros Sh. unfold inter_bonds, bond_edges. apply filter_ext_in. intros e He. apply (sh_inter _ _ Sh e He). Qed.

  (** ** tree_of_fragments with membership: after sample() the number of distinct fragids is the
      number of copies (1 + steps), the inter-fragment bonds defined by membership are the edges
      created by add_fragment, their number is the number of copies minus one; node keys are
      0..n-1 in insertion order *)
  Theorem tree_of_fragments_membership target fuel rng start nm i0 m cw log rng' :
    sample_growth M c0 madd mltb misz R pick cfg target fuel rng start = Ok (nm, i0, m, cw, log, rng') ->
    frag_count m = Datatypes.S (length log) /\ inter_bonds m = bond_edges m /\
    (length (inter_bonds m) + 1 = frag_count m)%nat /\
    map n_key (m_nodes m) = zseq 0 (length (m_nodes m)).
  Proof.
    unfold sample_growth.
    destruct (start_fragment M misz R pick cfg rng start) as [[[nm0 i] rng0]|]; cbn [bind]; [|discriminate].
    destruct (dict_get (c_frags cfg) nm0) as [tpl|] eqn:D; cbn [of_option bind]; [|discriminate].
    destruct (merge_graphs mol_empty tpl) as [[m0 corr]|] eqn:Em; cbn [bind]; [|discriminate].
    destruct (grow M c0 madd mltb misz R pick cfg target fuel rng0 m0 (c0 current_weight_start) []) as [[[[m1 cw1] log1] rng1]|] eqn:G; cbn [bind]; [|discriminate].
    intros [= <- <- <- <- <- <-].
    assert (Wt : wf_template tpl).
    { apply dict_get_in in D. pose proof Wf as W. unfold wf_frags in W. rewrite Forall_forall in W. apply (W _ D). }
    pose proof (shape_grow _ _ _ _ _ _ _ _ _ _ _ G (shape_first _ _ _ Wt Em)) as Sh. cbn [length] in Sh.
    rewrite Nat.sub_0_r in Sh. change (1 + length log1)%nat with (Datatypes.S (length log1)) in Sh.
    pose proof (shape_frag_count _ _ Sh) as Fc. pose proof (shape_inter _ _ Sh) as Ib.
    split; [assumption|]. split; [assumption|]. split; [|apply (sh_keys _ _ Sh)].
    rewrite Fc, Ib.
    (* number of bonds = number of steps: every step appends exactly one edge with 'bonding' *)
    assert (Hb : forall fuel rng m cw log m' cw' log' rng', grow M c0 madd mltb misz R pick cfg target fuel rng m cw log = Ok (m', cw', log', rng') ->
                 (length (bond_edges m') + length log = length (bond_edges m) + length log')%nat).
    { clear. induction fuel as [|f IH]; intros rng m cw log m' cw' log' rng'; cbn [grow].
      - destruct (loop_guard mltb cw target); [discriminate|]. intros [= <- <- <- <-]. lia.
      - destruct (loop_guard mltb cw target).
        + destruct (step M c0 misz R pick cfg rng m) as [[[m1 r] rng1]|] eqn:E; cbn [bind]; [|discriminate].
          destruct (dict_get (c_masses cfg) (r_fragname r)) as [x|]; cbn [of_option bind]; [|discriminate].
          intros H. specialize (IH _ _ _ _ _ _ _ _ H). rewrite app_length in IH. cbn [length] in IH.
          assert (length (bond_edges m1) = Datatypes.S (length (bond_edges m))); [|lia].
          revert E. unfold step.
          destruct (step_select M c0 misz R pick cfg rng (find_open_bonds m)) as [[s rng2]|]; cbn [bind]; [|discriminate].
          destruct (step_apply M cfg m s) as [[m2 tgt]|] eqn:Ea; cbn [bind]; [|discriminate].
          intros [= <- _ _]. destruct (step_apply_inv M cfg _ _ _ _ Ea) as (tpl & off & fo & es & ns1 & ns2 & o & _ & _ & D3 & _ & _ & _ & _ & He).
          unfold bond_edges. rewrite He, !filter_app, (filter_none _ (mk_edges_bonding _ _ _ D3)), app_nil_r, app_length. cbn. lia.
        + intros [= <- <- <- <-]. lia. }
    specialize (Hb _ _ _ _ _ _ _ _ _ G). cbn [length] in Hb.
    assert (B0 : bond_edges m0 = []).
    { revert Em. unfold merge_graphs, merge_offsets. cbn [m_nodes mol_empty bind].
      destruct (mk_edges (mk_corr (-1) 0 (f_nodes tpl)) (f_edges tpl)) as [es|] eqn:D3; cbn [bind]; [|discriminate].
      intros [= <- _]. unfold bond_edges. cbn [m_edges app]. apply filter_none. eapply mk_edges_bonding; eassumption. }
    rewrite B0 in Hb. cbn [length] in Hb. lia.
  Qed.
End Fragid.
