(** SampleMassDefs: definitions (NO proofs) for the derivation of the sampler's mass model from the hydrogen
    component's model of rebuild_h_atoms: the mass loop of compute_mass over a networkx graph, the fragment
    graph replayed into Base.NxGraph, and the decidable well-formedness of a fragment the derivation needs.
    Used by the statements (Sample/SampleMassHydro.v, Sample/SampleTemplateNx.v) and by the oracle. *)
From Coq Require Import String.
From Coq Require Import List Ascii ZArith Bool.
From CGV Require Import Base.PyBase Base.PyVal Base.PyGen Base.NxGraph Sample.GenSupport Sample.SampleImpl Sample.SampleDefs.
Import ListNotations.
Open Scope Z_scope.

Definition elt (n : nrec) : option pyval := aget (S "element") (na n).

Section MassLoopDefs.
  Variable M : Type.
  Variables (c0 : Z -> M) (madd : M -> M -> M).
  (** mass = 0; for node in molecule.nodes: mass += PTE[molecule.nodes[node]['element']] *)
  Fixpoint nx_mass_from (pte : list (pystr * M)) (g : graph) (acc : M) : res M :=
    match g with
    | [] => Ok acc
    | n :: r => e <- attr_str (S "element") (na n) ;; x <- of_option (dict_get pte e) EKey ;; nx_mass_from pte r (madd acc x)
    end.
  Definition nx_mass (pte : list (pystr * M)) (g : graph) : res M := nx_mass_from pte g (c0 0).
End MassLoopDefs.

(** attributes of a fragment-graph node: the template's own, then 'fragid' and 'bonding' *)
Definition tattrs (t : tnode) : attrs :=
  t_attrs t ++ [(S "fragid", VList [VInt (t_fragid t)])]
            ++ match t_bonding t with Some ds => [(S "bonding", VList (map VStr ds))] | None => [] end.
Definition tnrec (t : tnode) : nrec := {| nk := t_key t; na := tattrs t; nadj := [] |}.
(** the fragment graph: add_node per template node, add_edge per template edge *)
Definition template_nx (t : template) : graph :=
  let g0 := fold_left (fun g n => add_node g (t_key n) (tattrs n)) (f_nodes t) gempty in
  fold_left (fun g e => add_edge g (fst (fst e)) (snd (fst e)) (snd e)) (f_edges t) g0.

Definition eqpair (y x a b : Z) : bool := (Z.eqb y a && Z.eqb x b) || (Z.eqb y b && Z.eqb x a).
(** decidable: distinct node keys; edges between own nodes, no self loop, no pair twice; attribute lists
    are dicts; no 'rs_isomer' *)
Fixpoint distinct_pairsb (l : list (Z * Z * attrs)) : bool :=
  match l with
  | [] => true
  | e :: r => negb (Z.eqb (fst (fst e)) (snd (fst e))) &&
              forallb (fun e' => negb (eqpair (fst (fst e')) (snd (fst e')) (fst (fst e)) (snd (fst e)))) r &&
              distinct_pairsb r
  end.
Fixpoint znodupb (l : list Z) : bool := match l with [] => true | x :: r => negb (existsb (Z.eqb x) r) && znodupb r end.
Fixpoint snodupb (l : list pystr) : bool := match l with [] => true | x :: r => negb (str_in x r) && snodupb r end.
Definition mass_wfb (t : template) : bool :=
  znodupb (map t_key (f_nodes t)) &&
  forallb (fun e => existsb (Z.eqb (fst (fst e))) (map t_key (f_nodes t)) && existsb (Z.eqb (snd (fst e))) (map t_key (f_nodes t)) &&
                    snodupb (map fst (snd e))) (f_edges t) &&
  distinct_pairsb (f_edges t) &&
  forallb (fun n => tattrs_okb (t_attrs n)) (f_nodes t).
